import PfVerif.Driver.Json
import PfVerif.Driver.Hedge
import PfVerif.Model.Acquire
import PfVerif.Inst.Float
namespace PfVerif.Driver
open Lean

def acqExceptJ {β} (f : β → Json) : Except AcqErr β → Json
  | .ok v => okJ (f v)
  | .error e => Json.mkObj [("err", Json.str e.toString)]

def kindOf (s : String) : R Kind :=
  match s with
  | "european" => pure (.plain .european)
  | "european_binary" => pure (.plain .binary)
  | "american_binary" => pure (.pathDep .americanBinary)
  | "lookback" => pure (.pathDep .lookback)
  | _ => throw s!"bs_module kind {s}"

def methodOf (s : String) : R Method :=
  match s with
  | "price" => pure .price
  | "delta" => pure .delta
  | _ => throw s!"bs_module method {s}"

def derivOf (j : Json) : R (Deriv Float) := do
  pure { market := ← marketOf (← field j "market"), call := ← getBool (← field j "call"),
         simulated := ← getBool (← field j "simulated"), hasVol := ← getBool (← field j "has_vol") }

/-- value of an explicit input (already broadcast to one row of the path) at cell `i` -/
def givenAt (row : Option (List Float)) (i : Nat) : R (Option Float) :=
  match row with
  | none => pure none
  | some xs => match xs[i]? with
    | some x => pure (some x)
    | none => throw s!"bs_module: explicit input has no entry {i}"

/-- {"op":"bs_module","kind":"european|european_binary|american_binary|lookback","method":"price|delta",
  "build":"from_derivative"|"init","derivative":null|{"market":{..as op feat..},"call":b,"simulated":b,"has_vol":b},
  "call":b,"strike":bits            (constructor arguments, used by "init"),
  "given":{"log_moneyness":[bits per step]|null,"max_log_moneyness":..,"time_to_maturity":..,"volatility":..},
  "cells":[i,..]}
 → {"construct":{"err":kind}}
 | {"construct":{"ok":{"call":b,"strike":bits}},"cells":[{"resolved":{"ok":[..]}|{"err":kind},"value":{"ok":bits}|{"err":kind}},..]} -/
def opBsModule (j : Json) : R Json := do
  let kind ← kindOf (← getStr (← field j "kind"))
  let what ← methodOf (← getStr (← field j "method"))
  let d ← optional (fieldD j "derivative") derivOf
  let build ← getStr (← field j "build")
  let built : Except AcqErr (BSModule Float) ←
    if build == "from_derivative" then
      match d with
      | some d => pure (BSModule.fromDerivative kind d)
      | none => throw "bs_module: from_derivative without a derivative"
    else do
      let call ← getBool (← field j "call")
      let strike : Float ← getS (← field j "strike")
      pure (BSModule.init kind call strike d)
  match built with
  | .error e => pure (Json.mkObj [("construct", Json.mkObj [("err", Json.str e.toString)])])
  | .ok mod =>
    let gj ← field j "given"
    let row (k : String) : R (Option (List Float)) := optional (fieldD gj k) getL1
    let gs ← row "log_moneyness"
    let gm ← row "max_log_moneyness"
    let gt ← row "time_to_maturity"
    let gv ← row "volatility"
    let cells ← getNats (← field j "cells")
    let outs ← cells.mapM (fun i => do
      let g : Given Float := { s := ← givenAt gs i, m := ← givenAt gm i, t := ← givenAt gt i, v := ← givenAt gv i }
      pure (Json.mkObj [("resolved", acqExceptJ putL1 (mod.resolved g i)),
                        ("value", acqExceptJ putS (mod.eval what g i))]))
    pure (Json.mkObj [("construct", okJ (Json.mkObj [("call", Json.bool mod.call), ("strike", putS mod.strike)])),
                      ("cells", Json.arr outs.toArray)])

end PfVerif.Driver
