import PfVerif.Driver.Json
import PfVerif.Driver.Grad
import PfVerif.Model.BS
import PfVerif.Inst.Dual
import PfVerif.Inst.Float
namespace PfVerif.Driver
open Lean

abbrev DDF := Dual (Dual Float)

def lift2 (x : Float) : DDF := ⟨⟨x, 0⟩, ⟨0, 0⟩⟩

/-- the price functions, generic in the carrier (what `autogreek` differentiates) -/
def bsPriceGeneric {α : Type} [Add α] [Sub α] [Mul α] [Div α] [Neg α] [OfNat α 0] [OfNat α 1] [OfNat α 2]
    [LE α] [DecidableLE α] [LT α] [DecidableLT α] [Transc α]
    (fn : String) (call : Bool) (s t v k m : α) : Except Err α :=
  match fn with
  | "european_price" => bsEuropeanPrice s t v k call
  | "european_binary_price" => bsBinaryPrice s t v call
  | "american_binary_price" => bsAmericanBinaryPrice s m t v
  | "lookback_price" => bsLookbackPrice s m t v k
  | _ => .error .keyError

/-- {"op":"bs_dual","fn":price name,"call":b,"wrt":"spot|vol|time","order":1|2,"elems":[[s,t,v,k,m]]}:
forward-mode derivative of the model's price with autogreek's parameterisation: spot leaf with
log_moneyness = log(spot/strike); volatility leaf; time leaf (theta = minus the derivative). -/
def opBsDual (j : Json) : R Json := do
  let fn ← getStr (← field j "fn")
  let call ← getBool (← field j "call")
  let wrt ← getStr (← field j "wrt")
  let order ← getNat (← field j "order")
  let elems : List (List Float) ← getL2 (← field j "elems")
  let outs ← elems.mapM (fun e => match e with
    | [s, t, v, k, m] =>
      if order == 1 then
        let sp : Float := k * Float.exp s
        let (sD, tD, vD) : DF × DF × DF :=
          if wrt == "spot" then (Transc.log ((⟨sp, 1⟩ : DF) / liftF k), liftF t, liftF v)
          else if wrt == "vol" then (liftF s, liftF t, ⟨v, 1⟩)
          else (liftF s, ⟨t, 1⟩, liftF v)
        pure ((bsPriceGeneric fn call sD tD vD (liftF k) (liftF m)).map (fun d => if wrt == "time" then -d.eps else d.eps))
      else
        let sp : Float := k * Float.exp s
        let spD : DDF := ⟨⟨sp, 1⟩, ⟨1, 0⟩⟩
        let sD : DDF := Transc.log (spD / lift2 k)
        pure ((bsPriceGeneric fn call sD (lift2 t) (lift2 v) (lift2 k) (lift2 m)).map (fun d => d.eps.eps))
    | _ => throw "bs_dual elems")
  pure (Json.arr (outs.map (exceptJ putS)).toArray)

end PfVerif.Driver
