import PfVerif.Driver.Json
import PfVerif.Model.Payoff
import PfVerif.Model.Grid
import PfVerif.Inst.Float
namespace PfVerif.Driver
open Lean

def getInt (j : Json) : R Int := j.getInt?

def seqExcept {β} : List (Except Err β) → Except Err (List β)
  | [] => .ok []
  | x :: xs => do let a ← x; let as ← seqExcept xs; pure (a :: as)

/-- {"op":"payoff","kind":..,"call":b,"strike":"p/q","paths":[[..]],"start":i,"stop":j} -/
def opPayoff (j : Json) : R Json := do
  let kind ← getStr (← field j "kind")
  let call ← getBool (← field j "call")
  let k : Rat ← getS (← field j "strike")
  let paths : List (List Rat) ← getL2 (← field j "paths")
  let r : Except Err (List Rat) ← match kind with
    | "european" => pure (seqExcept (paths.map (europeanPayoff call k)))
    | "lookback" => pure (seqExcept (paths.map (lookbackPayoff call k)))
    | "american_binary" => pure (seqExcept (paths.map (americanBinaryPayoff call k)))
    | "european_binary" => pure (seqExcept (paths.map (europeanBinaryPayoff call k)))
    | "forward_start" => do
      let s ← getInt (← field j "start")
      let e ← getInt (← field j "stop")
      pure (seqExcept (paths.map (forwardStartPayoff k s e)))
    | _ => throw s!"payoff kind {kind}"
  pure (exceptJ putL1 r)

/-- clause descriptors: ["affine",a,b] p ↦ a p + b;  ["cap",c] p ↦ min p c;  ["floor",c] p ↦ max p c -/
def clauseOf (j : Json) : R (Rat → Rat) := do
  match ← getArr j with
  | [k, a, b] =>
    let k ← getStr k
    if k == "affine" then do
      let a : Rat ← getS a; let b : Rat ← getS b; pure (fun p => a * p + b)
    else throw "clause"
  | [k, c] =>
    let k ← getStr k
    let c : Rat ← getS c
    if k == "cap" then pure (fun p => min p c)
    else if k == "floor" then pure (fun p => max p c)
    else throw "clause"
  | _ => throw "clause"

/-- {"op":"clauses","adds":[[name, descr],..],"base":[..]} → {"names":[..],"payoff":[..]} -/
def opClauses (j : Json) : R Json := do
  let adds ← getArr (← field j "adds")
  let base : List Rat ← getL1 (← field j "base")
  let mut reg : List (String × (Rat → Rat)) := []
  for a in adds do
    match ← getArr a with
    | [n, d] => reg := addClause reg (← getStr n) (← clauseOf d)
    | _ => throw "adds"
  let out := base.map (applyClauses reg)
  pure (Json.mkObj [("names", Json.arr (reg.map (fun p => Json.str p.1)).toArray), ("payoff", putL1 out)])

/-- {"op":"var_swap","dt":bits,"strike":bits,"paths":[[bits]]} (Float carrier) -/
def opVarSwap (j : Json) : R Json := do
  let dt : Float ← getS (← field j "dt")
  let k : Float ← getS (← field j "strike")
  let paths : List (List Float) ← getL2 (← field j "paths")
  pure (Json.mkObj [("payoff", putL1 (paths.map (varianceSwapPayoff dt k))),
                    ("rvol", putL1 (paths.map (realizedVolatility dt)))])

/-- exact rational value of a finite double -/
def ratOfFloat (f : Float) : Rat :=
  let (m, e) := f.frExp      -- f = m * 2^e, 0.5 ≤ |m| < 1
  let mi : Int := (m.scaleB 53).toInt64.toInt
  (mi : Rat) * (if e - 53 ≥ 0 then ((2 : Rat) ^ (e - 53).toNat) else 1 / ((2 : Rat) ^ (53 - e).toNat))

/-- {"op":"grid","m":bits,"dt":bits,"start":bits} → shipped and exact step counts / start index -/
def opGrid (j : Json) : R Json := do
  let m : Float ← getS (← field j "m")
  let dt : Float ← getS (← field j "dt")
  let st : Float ← getS (← field j "start")
  pure (Json.mkObj [
    ("n_shipped", Json.num (nStepsShipped m dt)),
    ("n_exact", Json.num (nStepsExact (ratOfFloat m) (ratOfFloat dt))),
    ("ratio", Json.str (showRat (ratOfFloat m / ratOfFloat dt))),
    ("start_shipped", Json.num (startIndexShipped st dt)),
    ("start_exact", Json.num (startIndexExact (ratOfFloat st) (ratOfFloat dt)))])

/-- {"op":"ttm","n":n,"dt":bits,"idx":[ints]} (Float carrier, bit-exact replica) -/
def opTtm (j : Json) : R Json := do
  let n ← getNat (← field j "n")
  let dt : Float ← getS (← field j "dt")
  let idx ← (← getArr (← field j "idx")).mapM getInt
  let ats := idx.map (fun i => ttmAt n dt i)
  pure (Json.mkObj [("all", putL1 (ttmAll n dt)),
                    ("at", Json.arr (ats.map (exceptJ putS)).toArray),
                    ("all_exact", putL1 (ttmAll n (ratOfFloat dt)))])

end PfVerif.Driver
