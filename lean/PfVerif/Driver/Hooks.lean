import PfVerif.Driver.Json
import PfVerif.Driver.Hedge
import PfVerif.Model.Hooks
namespace PfVerif.Driver
open Lean

/-- `torch.round` (half to even) from C `round` (half away from zero): `x - floor x` is exact -/
def roundEvenF (x : Float) : Float :=
  if x - Float.floor x == 0.5 then 2 * Float.round (x / 2) else Float.round x

/-- the closed set of element-wise hook maps the harness registers (IEEE double, as torch computes
them; NaN passes through the clamps like `Tensor.clamp`):
  {"kind":"cap","cap":bits}                 o.clamp(max=cap)
  {"kind":"collar","floor":bits,"cap":bits} o.clamp(min=floor, max=cap)
  {"kind":"relu"}                           o.relu()
  {"kind":"half"}                           o * 0.5
  {"kind":"shift"}                          o + 0.25
  {"kind":"lot","lot":bits}                 (o / lot).round() * lot
  {"kind":"lot_cap","lot":bits,"cap":bits}  ((o / lot).round() * lot).clamp(max=cap) -/
def hookMapOf (j : Json) : R (List Float → List Float) := do
  let kind ← getStr (← field j "kind")
  let capF (cap : Float) (v : Float) : Float := if v > cap then cap else v
  let lotF (lot : Float) (v : Float) : Float := roundEvenF (v / lot) * lot
  match kind with
  | "cap" =>
    let cap : Float ← getS (← field j "cap")
    pure (List.map (capF cap))
  | "collar" =>
    let cap : Float ← getS (← field j "cap")
    let fl : Float ← getS (← field j "floor")
    pure (List.map (fun v => capF cap (if v < fl then fl else v)))
  | "relu" => pure (List.map (fun v => if v < 0 then 0 else v))
  | "half" => pure (List.map (fun v => v * 0.5))
  | "shift" => pure (List.map (fun v => v + 0.25))
  | "lot" =>
    let lot : Float ← getS (← field j "lot")
    pure (List.map (lotF lot))
  | "lot_cap" =>
    let lot : Float ← getS (← field j "lot")
    let cap : Float ← getS (← field j "cap")
    pure (List.map (fun v => capF cap (lotF lot v)))
  | _ => throw s!"hook kind {kind}"

def hookMapsOf (j : Json) (k : String) : R (List (List Float → List Float)) := do
  let v := fieldD j k
  if v.isNull then pure [] else (← getArr v).mapM hookMapOf

/-- {"op":"hooked_hedge","market":{..},"features":[spec..],"model":spec,"n":n,"h":h,
     "prepended":[hook..],"appended":[hook..],"pre":[hook..],"model_pre":[hook..],"model_hooks":[hook..]}
   (hook lists in execution order, absent = empty)
   → {"ok": T×H rows, "reads": the value of `prev_output` read at each step (state-dependent inputs)} -/
def opHookedHedge (j : Json) : R Json := do
  let m ← marketOf (← field j "market")
  let fs ← (← getArr (← field j "features")).mapM featureOf
  let g ← moduleOf (← field j "model")
  let n ← getNat (← field j "n")
  let h ← getNat (← field j "h")
  let hh := rowHooked g (← hookMapsOf j "prepended") (← hookMapsOf j "appended") (← hookMapsOf j "pre")
    (← hookMapsOf j "model_pre") (← hookMapsOf j "model_hooks")
  match computeHedgeHooked hh fs m n h with
  | .error e => pure (errJ e)
  | .ok rows =>
    let reads : List (List Float) :=
      if fs.any Feature.stateDependent then
        match hedgeTraceHooked hh fs m n h with
        | .ok steps => steps.map HookStep.read
        | .error _ => []
      else []
    pure (Json.mkObj [("ok", putL2 rows), ("reads", putL2 reads)])

end PfVerif.Driver
