/-
  Driver op "hedger_pl": `hedgerPL` / `hedgerPortfolio` (Model/HedgerPL.lean) at the Rat carrier
  (exact).  The decoders mirror those of Driver/Hedge.lean (market, features, modules) and
  Driver/C12.lean (payoff kinds, clause descriptors), with numbers travelling as "p/q".
-/
import PfVerif.Driver.Json
import PfVerif.Model.HedgerPL
namespace PfVerif.Driver
open Lean

/-- `Rat` has no transcendental functions.  The decoders below refuse every feature that would call
one (`log = true`), so no field of this instance is ever evaluated by the "hedger_pl" op; it only
lets the scalar-generic `computeHedge` be instantiated at `Rat`. -/
local instance ratNoTransc : Transc Rat :=
  ⟨fun _ => 0, fun _ => 0, fun _ => 0, fun _ => 0, fun _ => 0, fun _ => 0, fun _ => 0, fun _ => 0⟩

def dotQ (w x : List Rat) : Rat := sumL (List.zipWith (· * ·) w x)

/-- affine layer `W x + b` (rows of `W` paired with the entries of `b`) -/
def linearQ (w : List (List Rat)) (b : List Rat) (x : List Rat) : List Rat :=
  List.zipWith (fun row bi => dotQ row x + bi) w b

def reluQ (x : List Rat) : List Rat := x.map reluS

/-- module specs (the kinds of Driver/Hedge.lean that are exact over `Rat`, plus the pass-through):
  {"kind":"linear","w":[[..]],"b":[..],"relu":bool}
  {"kind":"naked","h":n}
  {"kind":"identity"} -/
def moduleQ (j : Json) : R (List Rat → List Rat) := do
  let kind ← getStr (← field j "kind")
  match kind with
  | "linear" =>
    let w : List (List Rat) ← getL2 (← field j "w")
    let b : List Rat ← getL1 (← field j "b")
    let relu ← getBool (← field j "relu")
    pure (fun x => let y := linearQ w b x; if relu then reluQ y else y)
  | "naked" =>
    let h ← getNat (← field j "h")
    pure (fun _ => List.replicate h 0)
  | "identity" => pure (fun x => x)
  | _ => throw s!"module kind {kind} (Rat carrier)"

def noLog (lg : Bool) : R Unit :=
  if lg then throw "log features need the Float carrier" else pure ()

def baseFeatureQ (j : Json) : R (BaseFeature Rat) := do
  match ← getArr j with
  | [n] => match ← getStr n with
    | "time_to_maturity" => pure .timeToMaturity
    | "volatility" => pure .volatility
    | "variance" => pure .variance
    | "zeros" => pure .zeros
    | "ones" => pure .ones
    | "empty" => pure .empty
    | "prev_hedge" => pure .prevHedge
    | s => throw s!"feature {s}"
  | [n, a] => do
    let lg ← getBool a
    noLog lg
    match ← getStr n with
    | "moneyness" => pure (.moneyness lg)
    | "max_moneyness" => pure (.maxMoneyness lg)
    | "spot" => pure (.spot lg)
    | "underlier_spot" => pure (.underlierSpot lg)
    | s => throw s!"feature {s}"
  | [n, thr, up] => do
    if (← getStr n) == "barrier" then pure (.barrier (← getS thr) (← getBool up)) else throw "feature"
  | _ => throw "feature"

def marketQ (j : Json) : R (Market Rat) := do
  pure { spot := ← getL1 (← field j "spot"), variance := ← getL1 (← field j "variance"),
         volatility := ← getL1 (← field j "volatility"), listed := ← getL1 (← field j "listed"),
         dt := ← getS (← field j "dt"), strike := ← getS (← field j "strike"),
         oracle := ← getL1 (← field j "oracle") }

/-- hedging instrument: {"kind":"primary","row":[..],"cost":c} | {"kind":"listed","a":a,"b":b,"row":[..],"cost":c}
(`row` = the underlier's current spot buffer for a listed derivative) -/
def hedgeInstrQ (j : Json) : R (HedgeInstr Rat) := do
  let row : List Rat ← getL1 (← field j "row")
  let cost : Rat ← getS (← field j "cost")
  match ← getStr (← field j "kind") with
  | "primary" => pure ⟨.primary row, cost⟩
  | "listed" => pure ⟨.listed (← getS (← field j "a")) (← getS (← field j "b")) row, cost⟩
  | s => throw s!"hedge kind {s}"

/-- {"kind":"european"|"lookback"|"american_binary"|"european_binary","call":b,"strike":k} -/
def payoffSpecQ (j : Json) : R (PayoffSpec Rat) := do
  let kind ← match ← getStr (← field j "kind") with
    | "european" => pure PayoffKind.european
    | "lookback" => pure PayoffKind.lookback
    | "american_binary" => pure PayoffKind.americanBinary
    | "european_binary" => pure PayoffKind.europeanBinary
    | s => throw s!"payoff kind {s}"
  pure ⟨kind, ← getBool (← field j "call"), ← getS (← field j "strike")⟩

/-- the clause descriptors of the "clauses" op: ["affine",a,b] | ["cap",c] | ["floor",c] -/
def clauseQ (j : Json) : R (Clause Rat) := do
  match ← getArr j with
  | [k, a, b] =>
    if (← getStr k) == "affine" then pure (.affine (← getS a) (← getS b)) else throw "clause"
  | [k, c] =>
    let k ← getStr k
    if k == "cap" then pure (.cap (← getS c))
    else if k == "floor" then pure (.floor (← getS c))
    else throw "clause"
  | _ => throw "clause"

/-- {"op":"hedger_pl","features":[base specs],"model":spec,"payoff":spec,"adds":[[name,descr],..],
     "first":bool,"paths":[{"market":{..},"hedges":[instr..]},..]}
   → {"paths":[{"pl":ok|err,"portfolio":ok|err,"spot_unit":ok [prices H×n, units H×n]|err,"payoff":ok|err},..]} -/
def opHedgerPl (j : Json) : R Json := do
  let fs ← (← getArr (← field j "features")).mapM (fun f => do pure (Feature.base (← baseFeatureQ f)))
  let g ← moduleQ (← field j "model")
  let p ← payoffSpecQ (← field j "payoff")
  let mut reg : List (String × Clause Rat) := []
  for a in ← getArr (← field j "adds") do
    match ← getArr a with
    | [n, d] => reg := addClause reg (← getStr n) (← clauseQ d)
    | _ => throw "adds"
  let first ← getBool (← field j "first")
  let paths ← getArr (← field j "paths")
  let outs ← paths.mapM (fun pj => do
    let m ← marketQ (← field pj "market")
    let hs ← (← getArr (← field pj "hedges")).mapM hedgeInstrQ
    pure (Json.mkObj [
      ("pl", exceptJ putS (hedgerPL g fs m hs p reg first)),
      ("portfolio", exceptJ putS (hedgerPortfolio g fs m hs first)),
      ("spot_unit", exceptJ (fun su => Json.arr #[putL2 su.1, putL2 su.2]) (hedgerSpotUnit g fs m hs)),
      ("payoff", exceptJ putS (derivPayoff p reg m.spot))]))
  pure (Json.mkObj [("paths", Json.arr outs.toArray)])

end PfVerif.Driver
