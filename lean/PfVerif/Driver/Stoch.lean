import PfVerif.Driver.Json
import PfVerif.Driver.Risk
import PfVerif.Model.Stoch
import PfVerif.Inst.Float
namespace PfVerif.Driver
open Lean

def pF (j : Json) (k : String) : R Float := do getS (← field j k)
def lF (j : Json) (k : String) : R (List Float) := do getL1 (← field j k)

/-- {"op":"gen","name":..,"p":{params as bits},"draws":{lists}} (Float carrier, one path) -/
def opGen (j : Json) : R Json := do
  let name ← getStr (← field j "name")
  let p ← field j "p"
  let d ← field j "draws"
  match name with
  | "brownian" =>
    pure (okJ (putL1 (brownian (← pF p "init") (← pF p "sigma") (← pF p "mu") (← pF p "dt") (← lF d "z"))))
  | "geometric_brownian" =>
    pure (okJ (putL1 (geometricBrownian (← pF p "init") (← pF p "sigma") (← pF p "mu") (← pF p "dt") (← lF d "z"))))
  | "vasicek" =>
    pure (okJ (putL1 (vasicek (← pF p "init") (← pF p "kappa") (← pF p "theta") (← pF p "sigma") (← pF p "dt") (← lF d "z"))))
  | "cir" =>
    pure (okJ (putL1 (cir (← pF p "init") (← pF p "kappa") (← pF p "theta") (← pF p "sigma") (← pF p "dt")
      (← pF p "eps") 1.5 (← lF d "z") (← lF d "u"))))
  | "heston" => do
    -- `pc`: the parameters as `generate_cir` sees them (it converts Python floats through the
    -- default dtype: `torch.as_tensor(x).to(output)`), `p`: as the log-spot recursion sees them
    let pc ← field j "pc"
    let var := cir (← pF pc "v0") (← pF pc "kappa") (← pF pc "theta") (← pF pc "sigma") (← pF pc "dt") (← pF pc "eps") 1.5
      (← lF d "z") (← lF d "u")
    let spot := hestonSpot (← pF p "s0") (← pF p "kappa") (← pF p "theta") (← pF p "sigma") (← pF p "rho") (← pF p "dt") var (← lF d "zs")
    pure (okJ (Json.mkObj [("spot", putL1 spot), ("variance", putL1 var)]))
  | "merton_jump" =>
    pure (okJ (putL1 (mertonJump (← pF p "init") (← pF p "mu") (← pF p "sigma") (← pF p "lam") (← pF p "jm") (← pF p "js")
      (← pF p "dt") (← lF d "nj") (← lF d "zj") (← lF d "z"))))
  | "kou_jump" => do
    let jumps : List (List Float) ← getL2 (← field d "jumps")
    pure (okJ (putL1 (kouJump (← pF p "init") (← pF p "sigma") (← pF p "mu") (← pF p "lam") (← pF p "eta_up") (← pF p "eta_down")
      (← pF p "p_up") (← pF p "dt") jumps (← lF d "z"))))
  | "local_volatility" => do
    -- sigma_fn(t, S) = a + b * S + c * t  (the harness's test family)
    -- the code computes `dw = randn * torch.as_tensor(dt).sqrt()` (square root taken in the default
    -- dtype) but `time = dt * arange(n)` with the exact `dt`: `dtw` is the step whose float64 square
    -- root equals that float32 root; times are rescaled back to the exact `dt`
    let a ← pF p "a"; let b ← pF p "b"; let c ← pF p "c"
    let dt ← pF p "dt"; let dtw ← pF p "dtw"
    let (s, v) := localVol (fun t x => a + b * x + c * (t / dtw * dt)) (← pF p "init") dtw (← lF d "z")
    pure (okJ (Json.mkObj [("spot", putL1 s), ("volatility", putL1 v)]))
  | "rough_bergomi" => do
    let w1a ← lF d "w1a"; let w1b ← lF d "w1b"
    let n ← getNat (← field p "n")
    let (s, v) := roughBergomi (← pF p "s0") (← pF p "v0") (← pF p "alpha") (← pF p "rho") (← pF p "eta") (← pF p "dt")
      (← pF p "norm") n (List.zip w1a w1b) (← lF d "w2")
    pure (okJ (Json.mkObj [("spot", putL1 s), ("variance", putL1 v)]))
  | _ => throw s!"gen {name}"

end PfVerif.Driver
