/-
  Driver op "crit_tensor": the criteria on WHOLE tensors (Model/CritTensor.lean).

  {"op":"crit_tensor","carrier":"rat"|"float","crit":SPEC,"shape":[..],"data":[..],
   "target":null | {"number":v} | {"shape":[..],"data":[..]},
   "form":"module"|"functional"|"cash","dim":null|int}
  SPEC (numbers in the wire format of the carrier; `p`, `lam`, … always as float bits):
     ["es", p] ["var", p]                      carrier rat (dyadic data) or float
     ["erm", a] ["eloss", a] ["iso", a, isOne]  carrier float
     ["qcvar", lam, tol, precision, maxIter]    carrier float
     ["oce", ["quad"|"affine", a, b], w]         carrier rat
  form "module":     `Criterion(...)(input, target)`          (dim 0 of input - target)
  form "functional": the functional form on `input - target` with the given `dim`
                     (`null` = the function's default; `entropic_risk_measure` and the
                     `.mean(0)` losses have no `dim`: always 0)
  form "cash":       `Criterion(...).cash(input, target)` (closed-form overrides)
  → {"ok":{"shape":[..],"data":[..]}} | {"err":kind}
-/
import PfVerif.Driver.Json
import PfVerif.Driver.Risk
import PfVerif.Model.CritTensor
import PfVerif.Inst.Float
namespace PfVerif.Driver
open Lean PfVerif.CT

/-- exact rational value of a finite double -/
def floatToRat (f : Float) : Rat :=
  let b := f.toBits.toNat
  let neg := b / 2 ^ 63 == 1
  let e : Nat := (b / 2 ^ 52) % 2048
  let m := b % 2 ^ 52
  let mant : Nat := if e == 0 then m else 2 ^ 52 + m
  let ex : Int := Int.ofNat (if e == 0 then 1 else e) - 1075
  let mag : Rat := if ex ≥ 0 then ((mant * 2 ^ ex.toNat : Nat) : Rat) else mkRat mant (2 ^ (-ex).toNat)
  if neg then -mag else mag

/-- `ceil(p * n)` in double precision, as `topp` computes it -/
def ceilPN (p : Float) (n : Nat) : Nat := (Float.ceil (p * n.toFloat)).toUInt64.toNat

/-- the branch of `value_at_risk` for a sample of `n` entries, decided in double precision as the
code does; position `q (n - 1)` of `torch.quantile` split into integer part and weight -/
def varBranchF (p : Float) (n : Nat) : VarBranch × Float :=
  let nf := n.toFloat
  if p ≤ 1.0 / nf then (.minimum, 0.0)
  else if p > 1.0 - 1.0 / nf then (.maximum, 0.0)
  else
    let q := (p - 1.0 / nf) / (1.0 - 1.0 / nf)
    let pos := q * (nf - 1.0)
    let lo := Float.floor pos
    (.quantile lo.toUInt64.toNat, pos - lo)

def putTensor {α} [Wire α] (t : Tensor α) : Json :=
  Json.mkObj [("shape", Json.arr (t.shape.map (fun (n : Nat) => Json.num (Int.ofNat n))).toArray), ("data", putL1 t.data)]

def getTensor {α} [Wire α] (j : Json) : R (Tensor α) := do
  let shape ← getNats (← field j "shape")
  let data : List α ← getL1 (← field j "data")
  let t : Tensor α := ⟨shape, data⟩
  if t.wf then pure t else throw "tensor: data length differs from the shape"

def getTarget {α} [Wire α] [OfNat α 0] (j : Json) : R (Target α) := do
  if j.isNull then pure (.number 0)
  else match j.getObjVal? "number" with
    | .ok v => do pure (.number (← getS v))
    | .error _ => do pure (.tensor (← getTensor j))

def getDim (j : Json) : R DimArg := do
  if j.isNull then pure none else do pure (some (← j.getInt?))

/-- a column criterion without errors, in the three forms -/
def runPlain {α} [Sub α] [Neg α] (crit : List α → α) (form : String) (dim : DimArg) (fixedDim : Bool)
    (x : Tensor α) (tg : Target α) : R (Except Err (Tensor α)) :=
  match form with
  | "module" => pure (moduleForward crit x tg)
  | "cash" => pure (moduleCash crit x tg)
  | "functional" =>
    pure (match subTarget x tg with
      | .error e => .error e
      | .ok pl => if fixedDim then reduceDim crit 0 pl else functionalForm crit dim pl)
  | _ => throw "crit_tensor form"

/-- a column criterion that may raise -/
def runE {α} [Sub α] [Neg α] (crit : List α → Except Err α) (form : String) (dim : DimArg) (fixedDim : Bool)
    (x : Tensor α) (tg : Target α) : R (Except Err (Tensor α)) :=
  match form with
  | "module" => pure (moduleForwardE crit x tg)
  | "cash" =>
    pure (match moduleForwardE crit x tg with
      | .error e => .error e
      | .ok r => .ok ⟨r.shape, r.data.map (fun v => -v)⟩)
  | "functional" =>
    pure (match subTarget x tg with
      | .error e => .error e
      | .ok pl => if fixedDim then (match reduceDim crit 0 pl with
          | .error e => .error e
          | .ok r => r.seqE) else functionalFormE crit dim pl)
  | _ => throw "crit_tensor form"

def critRat (spec : List Json) (form : String) (dim : DimArg) (x : Tensor Rat) (tg : Target Rat) :
    R (Except Err (Tensor Rat)) := do
  match spec with
  | [k, p] =>
    let k ← getStr k
    let p : Float ← getS p
    if k == "es" then runPlain (esCol (ceilPN p)) form dim false x tg
    else if k == "var" then
      runE (varCol (fun n => let (b, f) := varBranchF p n; (b, floatToRat f))) form dim false x tg
    else throw "crit_tensor rat spec"
  | [k, u, w] =>
    if (← getStr k) != "oce" then throw "crit_tensor rat spec"
    let w : Rat ← getS w
    let u ← match ← getArr u with
      | [kk, a, b] => do
        let kk ← getStr kk; let a : Rat ← getS a; let b : Rat ← getS b
        if kk == "quad" then pure (fun (z : Rat) => a * z * z + b * z)
        else if kk == "affine" then pure (fun (z : Rat) => a * z + b)
        else throw "oce u"
      | _ => throw "oce u"
    runPlain (oce u w) form dim true x tg
  | _ => throw "crit_tensor rat spec"

def critFloat (spec : List Json) (form : String) (dim : DimArg) (x : Tensor Float)
    (tg : Target Float) : R (Except Err (Tensor Float)) := do
  match spec with
  | [k, a] =>
    let k ← getStr k
    let a : Float ← getS a
    if k == "es" then runPlain (esCol (ceilPN a)) form dim false x tg
    else if k == "var" then runE (varCol (varBranchF a)) form dim false x tg
    else if k == "erm" then runE (entropicRisk a) form dim true x tg
    else if k == "eloss" then
      -- `EntropicLoss.cash` is `-entropic_risk_measure(input - target)`
      if form == "cash" then do
        match ← runE (entropicRisk a) "module" dim true x tg with
        | .error e => pure (.error e)
        | .ok r => pure (.ok ⟨r.shape, r.data.map (fun v => -v)⟩)
      else runPlain (entropicLoss a) form dim true x tg
    else throw "crit_tensor float spec"
  | [k, a, o] =>
    if (← getStr k) != "iso" then throw "crit_tensor float spec"
    let a : Float ← getS a
    let o ← getBool o
    if form == "cash" then throw "crit_tensor: isoelastic cash is the default search (op cash_default)"
    runPlain (isoelasticLoss o a) form dim true x tg
  | [k, lam, tol, prec, mi] =>
    if (← getStr k) != "qcvar" then throw "crit_tensor float spec"
    let lam : Float ← getS lam
    let tol : Float ← getS tol
    let prec : Float ← getS prec
    let mi ← getNat mi
    match form with
    | "module" => pure (qcvarModule lam tol (fun _ => prec) mi x tg)
    | "cash" =>
      pure (match qcvarModule lam tol (fun _ => prec) mi x tg with
        | .error e => .error e
        | .ok r => .ok ⟨r.shape, r.data.map (fun v => -v)⟩)
    | "functional" =>
      pure (match subTarget x tg with
        | .error e => .error e
        | .ok pl => qcvarForm lam tol (fun _ => prec) mi dim pl)
    | _ => throw "crit_tensor form"
  | _ => throw "crit_tensor float spec"

def opCritTensor (j : Json) : R Json := do
  let carrier ← getStr (← field j "carrier")
  let spec ← getArr (← field j "crit")
  let form ← getStr (← field j "form")
  let dim ← getDim (fieldD j "dim")
  if carrier == "rat" then
    let x : Tensor Rat ← getTensor j
    let tg : Target Rat ← getTarget (fieldD j "target")
    pure (exceptJ putTensor (← critRat spec form dim x tg))
  else if carrier == "float" then
    let x : Tensor Float ← getTensor j
    let tg : Target Float ← getTarget (fieldD j "target")
    pure (exceptJ putTensor (← critFloat spec form dim x tg))
  else throw "crit_tensor carrier"

end PfVerif.Driver
