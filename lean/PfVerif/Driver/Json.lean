/-
  JSON line-protocol helpers (trusted harness code, not part of any theorem).
  Numbers travel as strings: exact rationals "p/q" (Rat carrier) or IEEE-754 bit patterns
  "x<16 hex digits>" (Float carrier).  Never decimal floats.
-/
import Lean.Data.Json
import PfVerif.Model.Basic
namespace PfVerif.Driver
open Lean

abbrev R := Except String

def parseInt? (s : String) : Option Int :=
  if s.startsWith "-" then (s.drop 1).toString.toNat?.map (fun n => -(n : Int))
  else s.toNat?.map (fun n => (n : Int))

def parseRat (s : String) : R Rat :=
  match s.splitOn "/" with
  | [p] => match parseInt? p with
    | some n => .ok (n : Rat)
    | none => .error s!"bad rat {s}"
  | [p, q] => match parseInt? p, q.toNat? with
    | some n, some d => if d = 0 then .error s!"zero den {s}" else .ok (mkRat n d)
    | _, _ => .error s!"bad rat {s}"
  | _ => .error s!"bad rat {s}"

def showRat (r : Rat) : String :=
  if r.den = 1 then toString r.num else s!"{r.num}/{r.den}"

def hexDigit? (c : Char) : Option Nat :=
  if '0' ≤ c ∧ c ≤ '9' then some (c.toNat - '0'.toNat)
  else if 'a' ≤ c ∧ c ≤ 'f' then some (c.toNat - 'a'.toNat + 10)
  else none

def parseHex (s : String) : R Nat :=
  s.foldl (fun acc c => do
    let a ← acc
    match hexDigit? c with
    | some d => pure (a * 16 + d)
    | none => throw s!"bad hex {s}") (pure 0)

/-- "x3ff0000000000000" → Float -/
def parseFloatBits (s : String) : R Float :=
  if s.startsWith "x" then do
    let n ← parseHex (s.drop 1).toString
    pure (Float.ofBits n.toUInt64)
  else .error s!"bad float bits {s}"

def hexOf (n : Nat) : String :=
  let ds := (Nat.toDigits 16 n)
  String.ofList (List.replicate (16 - ds.length) '0' ++ ds)

def showFloatBits (f : Float) : String := "x" ++ hexOf f.toBits.toNat

/-- scalar carriers that can travel on the wire -/
class Wire (α : Type) where
  parse : String → R α
  render : α → String

instance : Wire Rat := ⟨parseRat, showRat⟩
instance : Wire Float := ⟨parseFloatBits, showFloatBits⟩

def getStr (j : Json) : R String := j.getStr?
def getNat (j : Json) : R Nat := j.getNat?
def getBool (j : Json) : R Bool := j.getBool?
def getArr (j : Json) : R (List Json) := do let a ← j.getArr?; pure a.toList
def field (j : Json) (k : String) : R Json := j.getObjVal? k
def fieldD (j : Json) (k : String) : Json := j.getObjValD k

def getS {α} [Wire α] (j : Json) : R α := do Wire.parse (← getStr j)
def getL1 {α} [Wire α] (j : Json) : R (List α) := do (← getArr j).mapM getS
def getL2 {α} [Wire α] (j : Json) : R (List (List α)) := do (← getArr j).mapM getL1
def getL3 {α} [Wire α] (j : Json) : R (List (List (List α))) := do (← getArr j).mapM getL2
def getNats (j : Json) : R (List Nat) := do (← getArr j).mapM getNat

def optional {β} (j : Json) (f : Json → R β) : R (Option β) :=
  if j.isNull then pure none else do pure (some (← f j))

def putS {α} [Wire α] (x : α) : Json := Json.str (Wire.render x)
def putL1 {α} [Wire α] (xs : List α) : Json := Json.arr (xs.map putS).toArray
def putL2 {α} [Wire α] (xs : List (List α)) : Json := Json.arr (xs.map putL1).toArray
def putL3 {α} [Wire α] (xs : List (List (List α))) : Json := Json.arr (xs.map putL2).toArray

def okJ (v : Json) : Json := Json.mkObj [("ok", v)]
def errJ (e : Err) : Json := Json.mkObj [("err", Json.str e.toString)]
def exceptJ {β} (f : β → Json) : Except Err β → Json
  | .ok v => okJ (f v)
  | .error e => errJ e

end PfVerif.Driver
