import PfVerif.Driver.Json
import PfVerif.Driver.C20
import PfVerif.Model.Engine
namespace PfVerif.Driver
open Lean

/-- {"op":"antithetic","n":N,"z":[bits...],"perm":[..]|null}: rows are scalars here (one column at a
time); returns the N outputs, or the error kind -/
def opAntithetic (j : Json) : R Json := do
  let n ← getNat (← field j "n")
  let z : List Float ← getL1 (← field j "z")
  match j.getObjVal? "perm" with
  | .ok (.arr a) =>
    let perm ← a.toList.mapM getNat
    match antitheticShuffled n z perm with
    | .ok r => pure (okJ (putL1 r))
    | .error e => pure (errJ e)
  | _ => pure (okJ (putL1 (antithetic n z)))

/-- {"op":"sobol_bm","n":N,"eps":bits,"u":[[u1,u2],...]} -/
def opSobolBm (j : Json) : R Json := do
  let n ← getNat (← field j "n")
  let eps : Float ← getS (← field j "eps")
  let u : List (List Float) ← getL2 (← field j "u")
  let pts ← u.mapM (fun e => match e with
    | [a, b] => pure (a, b)
    | _ => throw "sobol point")
  pure (okJ (putL1 (sobolBoxMuller twoPiF eps n pts)))

end PfVerif.Driver
