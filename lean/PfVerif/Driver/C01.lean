import PfVerif.Driver.Json
import PfVerif.Model.PL
namespace PfVerif.Driver
open Lean

def shape3 (j : Json) : R Shape3 := do
  match ← getNats j with
  | [n, h, t] => pure ⟨n, h, t⟩
  | _ => throw "shape3"

def opPl (j : Json) : R Json := do
  let ss ← shape3 (← field j "ss")
  let su ← shape3 (← field j "su")
  let spot : List (List (List Rat)) ← getL3 (← field j "spot")
  let unit : List (List (List Rat)) ← getL3 (← field j "unit")
  let cost ← optional (fieldD j "cost") (getL1 (α := Rat))
  let payoff ← optional (fieldD j "payoff") (fun p => do
    let d ← getNat (← field p "dim")
    let z ← getL1 (α := Rat) (← field p "data")
    pure (d, z))
  let first ← getBool (← field j "first")
  let final ← getBool (← field j "final")
  let tv ← getBool (fieldD j "tv" |> fun x => if x.isNull then Json.bool false else x)
  let r := if tv then terminalValue ss su spot unit cost payoff first
           else pl ss su spot unit cost payoff first final
  pure (exceptJ putL1 r)

end PfVerif.Driver
