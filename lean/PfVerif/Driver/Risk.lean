import PfVerif.Driver.Json
import PfVerif.Model.Risk
import PfVerif.Inst.Float
namespace PfVerif.Driver
open Lean

instance : TranscPow Float := ⟨Float.pow⟩

/-- {"op":"es","k":k,"cols":[[..]]} (Rat) → per column ES and the k smallest values -/
def opEs (j : Json) : R Json := do
  let k ← getNat (← field j "k")
  let cols : List (List Rat) ← getL2 (← field j "cols")
  pure (Json.mkObj [("es", putL1 (cols.map (es k))), ("smallest", putL2 (cols.map (toppSmallest k)))])

/-- {"op":"var","branch":"min|max|q","lo":n,"frac":"p/q","cols":[[..]]} (Rat) -/
def opVar (j : Json) : R Json := do
  let b ← getStr (← field j "branch")
  let lo ← getNat (← field j "lo")
  let frac : Rat ← getS (← field j "frac")
  let cols : List (List Rat) ← getL2 (← field j "cols")
  let br : VarBranch := if b == "min" then .minimum else if b == "max" then .maximum else .quantile lo
  pure (Json.arr ((cols.map (valueAtRisk br frac)).map (exceptJ putS)).toArray)

/-- {"op":"erm","a":bits,"cols":[[bits]]} Float: entropic risk, entropic loss and its cash -/
def opErm (j : Json) : R Json := do
  let a : Float ← getS (← field j "a")
  let cols : List (List Float) ← getL2 (← field j "cols")
  pure (Json.mkObj [("erm", Json.arr ((cols.map (entropicRisk a)).map (exceptJ putS)).toArray),
                    ("eloss", putL1 (cols.map (entropicLoss a))),
                    ("eloss_cash", Json.arr ((cols.map (entropicLossCashStable a)).map (exceptJ putS)).toArray)])

/-- {"op":"iso","a":bits,"a_is_one":b,"cols":[[bits]]} Float -/
def opIso (j : Json) : R Json := do
  let a : Float ← getS (← field j "a")
  let one ← getBool (← field j "a_is_one")
  let cols : List (List Float) ← getL2 (← field j "cols")
  pure (okJ (putL1 (cols.map (isoelasticLoss one a))))

/-- {"op":"qcvar","lam":bits,"tol":bits,"precision":bits,"max_iter":n,"cols":[[bits]]} Float -/
def opQcvar (j : Json) : R Json := do
  let lam : Float ← getS (← field j "lam")
  let tol : Float ← getS (← field j "tol")
  let prec : Float ← getS (← field j "precision")
  let mi ← getNat (← field j "max_iter")
  let cols : List (List Float) ← getL2 (← field j "cols")
  pure (exceptJ putL1 (quadraticCvar lam tol prec mi cols))

/-- {"op":"oce","u":["quad",a,b]|["affine",a,b],"w":q,"cols":[[q]]} Rat: u(x) = a x² + b x | a x + b -/
def opOce (j : Json) : R Json := do
  let w : Rat ← getS (← field j "w")
  let cols : List (List Rat) ← getL2 (← field j "cols")
  let u ← match ← getArr (← field j "u") with
    | [k, a, b] => do
      let k ← getStr k; let a : Rat ← getS a; let b : Rat ← getS b
      if k == "quad" then pure (fun (x : Rat) => a * x * x + b * x)
      else if k == "affine" then pure (fun (x : Rat) => a * x + b)
      else throw "oce u"
    | _ => throw "oce u"
  pure (okJ (putL1 (cols.map (oce u w))))

/-- criteria relying on the default `cash` search:
  ["eloss", a] mean exp(-a x);  ["iso", a, isOne] isoelastic loss;  ["pwl"] mean(-x + relu(-x)) -/
def lossOf (j : Json) : R (List Float → Float) := do
  match ← getArr j with
  | [k, a] => do
    if (← getStr k) == "eloss" then do let a : Float ← getS a; pure (entropicLoss a) else throw "loss"
  | [k, a, o] => do
    if (← getStr k) == "iso" then do
      let a : Float ← getS a; let o ← getBool o; pure (isoelasticLoss o a)
    else throw "loss"
  | [k] => do
    if (← getStr k) == "pwl" then
      pure (fun xs => sumL (xs.map (fun x => -x + reluS (-x))) / xs.length.toFloat)
    else throw "loss"
  | _ => throw "loss"

/-- {"op":"cash_default","loss":spec,"precision":bits,"max_iter":n,"cols":[[bits]]} -/
def opCashDefault (j : Json) : R Json := do
  let loss ← lossOf (← field j "loss")
  let prec : Float ← getS (← field j "precision")
  let mi ← getNat (← field j "max_iter")
  let cols : List (List Float) ← getL2 (← field j "cols")
  pure (Json.arr ((cols.map (cashDefault loss prec mi)).map (exceptJ putS)).toArray)

end PfVerif.Driver
