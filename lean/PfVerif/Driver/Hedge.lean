import PfVerif.Driver.Json
import PfVerif.Model.Hedger
import PfVerif.Model.BS
import PfVerif.Model.Clamp
import PfVerif.Inst.Float
namespace PfVerif.Driver
open Lean

def dotF (w x : List Float) : Float := sumL (List.zipWith (· * ·) w x)

/-- affine layer `W x + b` -/
def linearF (w : List (List Float)) (b : List Float) (x : List Float) : List Float :=
  List.zipWith (fun row bi => dotF row x + bi) w b

def reluF (x : List Float) : List Float := x.map (fun v => if v > 0 then v else 0)

/-- module specs:
  {"kind":"linear","w":[[..]],"b":[..],"relu":bool}
  {"kind":"mlp","layers":[{"w":..,"b":..},..]}        (ReLU between layers, none after the last)
  {"kind":"naked","h":n}
  {"kind":"bs_european","call":b,"k":bits}            input row [log_moneyness, ttm, volatility] → [delta]
  {"kind":"ww_european","call":b,"k":bits,"cost":bits,"a":bits}   row [lm, ttm, vol, prev] → [hedge]
  NaN marks a model-level error of the BS functions (negative t / v); never produced on valid grids -/
partial def moduleOf (j : Json) : R (List Float → List Float) := do
  let kind ← getStr (← field j "kind")
  match kind with
  | "linear" =>
    let w : List (List Float) ← getL2 (← field j "w")
    let b : List Float ← getL1 (← field j "b")
    let relu ← getBool (← field j "relu")
    pure (fun x => let y := linearF w b x; if relu then reluF y else y)
  | "mlp" =>
    let layers ← getArr (← field j "layers")
    let ls ← layers.mapM (fun l => do
      let w : List (List Float) ← getL2 (← field l "w")
      let b : List Float ← getL1 (← field l "b")
      pure (w, b))
    pure (fun x =>
      let rec go : List (List (List Float) × List Float) → List Float → List Float
        | [], x => x
        | [(w, b)], x => linearF w b x
        | (w, b) :: rest, x => go rest (reluF (linearF w b x))
      go ls x)
  | "naked" =>
    let h ← getNat (← field j "h")
    pure (fun _ => List.replicate h 0)
  | "drop_last" =>   -- wrapper that ignores the last `h` input columns: `inner(x[..., :-h])`
    let h ← getNat (← field j "h")
    let inner ← moduleOf (← field j "inner")
    pure (fun x => inner (x.take (x.length - h)))
  | "bs_european" =>
    let call ← getBool (← field j "call")
    pure (fun x => match x with
      | [s, t, v] => match bsEuropeanDelta s t v call with
        | .ok d => [d]
        | .error _ => [0.0 / 0.0]
      | _ => [0.0 / 0.0])
  | "ww_european" =>
    let call ← getBool (← field j "call")
    let k : Float ← getS (← field j "k")
    let cost : Float ← getS (← field j "cost")
    let a : Float ← getS (← field j "a")
    pure (fun x => match x with
      | [s, t, v, prev] =>
        match bsEuropeanDelta s t v call, bsEuropeanGamma s t v k with
        | .ok d, .ok gm => [wwForward prev d (wwWidth gm (k * Float.exp s) cost a)]
        | _, _ => [0.0 / 0.0]
      | _ => [0.0 / 0.0])
  | _ => throw s!"module kind {kind}"

def baseFeatureOf (j : Json) : R (BaseFeature Float) := do
  match ← getArr j with
  | [n] => match ← getStr n with
    | "time_to_maturity" => pure .timeToMaturity
    | "volatility" => pure .volatility
    | "variance" => pure .variance
    | "zeros" => pure .zeros
    | "ones" => pure .ones
    | "empty" => pure .empty
    | "prev_hedge" => pure .prevHedge
    | s => throw s!"feature {s}"
  | [n, a] => do
    let lg ← getBool a
    match ← getStr n with
    | "moneyness" => pure (.moneyness lg)
    | "max_moneyness" => pure (.maxMoneyness lg)
    | "spot" => pure (.spot lg)
    | "underlier_spot" => pure (.underlierSpot lg)
    | s => throw s!"feature {s}"
  | [n, thr, up] => do
    if (← getStr n) == "barrier" then pure (.barrier (← getS thr) (← getBool up)) else throw "feature"
  | _ => throw "feature"

def featureOf (j : Json) : R (Feature Float) := do
  match ← getArr j with
  | [n, g, ins] =>
    match n.getStr? with
    | .ok "module_output" => do
      let g ← moduleOf g
      let ins ← (← getArr ins).mapM baseFeatureOf
      pure (.moduleOutput g ins)
    | _ => do pure (.base (← baseFeatureOf j))
  | _ => do pure (.base (← baseFeatureOf j))

def marketOf (j : Json) : R (Market Float) := do
  pure { spot := ← getL1 (← field j "spot"), variance := ← getL1 (← field j "variance"),
         volatility := ← getL1 (← field j "volatility"), listed := ← getL1 (← field j "listed"),
         dt := ← getS (← field j "dt"), strike := ← getS (← field j "strike"),
         oracle := ← getL1 (← field j "oracle") }

/-- {"op":"feat","market":{..},"feature":spec,"steps":[..],"prev":[..],"n":n} -/
def opFeat (j : Json) : R Json := do
  let m ← marketOf (← field j "market")
  let f ← featureOf (← field j "feature")
  let steps ← getNats (← field j "steps")
  let prev : List Float ← getL1 (← field j "prev")
  let n ← getNat (← field j "n")
  let ats := steps.map (fun i => f.getAt m prev i)
  pure (Json.mkObj [("at", Json.arr (ats.map (exceptJ putL1)).toArray), ("all", exceptJ putL2 (f.getAll n m))])

/-- {"op":"hedge","market":{..},"features":[spec..],"model":spec,"n":n,"h":h} → T×H rows -/
def opHedge (j : Json) : R Json := do
  let m ← marketOf (← field j "market")
  let fs ← (← getArr (← field j "features")).mapM featureOf
  let g ← moduleOf (← field j "model")
  let n ← getNat (← field j "n")
  let h ← getNat (← field j "h")
  pure (exceptJ putL2 (computeHedge g fs m n h))

end PfVerif.Driver
