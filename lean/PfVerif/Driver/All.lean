import PfVerif.Driver.C01
import PfVerif.Driver.C12
import PfVerif.Driver.C20
import PfVerif.Driver.BS
import PfVerif.Driver.Hedge
import PfVerif.Driver.Risk
import PfVerif.Driver.DType
import PfVerif.Driver.Fit
import PfVerif.Driver.Grad
import PfVerif.Driver.Stoch
import PfVerif.Driver.BSDual
import PfVerif.Driver.Heap
import PfVerif.Driver.Engine
import PfVerif.Driver.Acquire
import PfVerif.Driver.Session
import PfVerif.Driver.BisectF
import PfVerif.Driver.HedgerPL
import PfVerif.Driver.InstrSys
import PfVerif.Driver.HedgerPrice
import PfVerif.Driver.GradH
import PfVerif.Driver.FitNum
import PfVerif.Driver.WWModule
import PfVerif.Driver.HedgerSession
import PfVerif.Driver.GridSys
import PfVerif.Driver.MultiSession
import PfVerif.Driver.Autogreek
import PfVerif.Driver.Hooks
import PfVerif.Driver.CritTensor
import PfVerif.Driver.Factory
import PfVerif.Driver.FeatReg
import PfVerif.Driver.GradMode
import PfVerif.Driver.Listing
namespace PfVerif.Driver
open Lean

def dispatch (op : String) (j : Json) : R Json :=
  match op with
  | "pl" => opPl j
  | "payoff" => opPayoff j
  | "clauses" => opClauses j
  | "var_swap" => opVarSwap j
  | "grid" => opGrid j
  | "ttm" => opTtm j
  | "clamp" => opClamp j
  | "ww" => opWw j
  | "ww_width" => opWwWidth j
  | "svi" => opSvi j
  | "bilerp" => opBilerp j
  | "box_muller" => opBoxMuller j
  | "bisect" => opBisect j
  | "bs" => opBs j
  | "ww_full" => opWwFull j
  | "feat" => opFeat j
  | "hedge" => opHedge j
  | "es" => opEs j
  | "var" => opVar j
  | "erm" => opErm j
  | "iso" => opIso j
  | "qcvar" => opQcvar j
  | "oce" => opOce j
  | "cash_default" => opCashDefault j
  | "dt_seq" => opDtSeq j
  | "fit" => opFit j
  | "grad" => opGrad j
  | "gen" => opGen j
  | "bs_dual" => opBsDual j
  | "heap" => opHeap j
  | "antithetic" => opAntithetic j
  | "sobol_bm" => opSobolBm j
  | "bs_module" => opBsModule j
  | "session" => opSession j
  | "bisect_fp" => opBisectFp j
  | "hedger_pl" => opHedgerPl j
  | "instr_sys" => opInstrSys j
  | "hedger_price" => opHedgerPrice j
  | "grad_h" => opGradH j
  | "fit_num" => opFitNum j
  | "ww_module" => opWwModule j
  | "hedger_session" => opHedgerSession j
  | "grid_sys" => opGridSys j
  | "multi_session" => opMultiSession j
  | "autogreek" => opAutogreek j
  | "hooked_hedge" => opHookedHedge j
  | "crit_tensor" => opCritTensor j
  | "factory" => opFactory j
  | "feat_reg" => opFeatReg j
  | "grad_mode" => opGradMode j
  | "listing" => opListing j
  | _ => .error s!"unknown op {op}"

end PfVerif.Driver
