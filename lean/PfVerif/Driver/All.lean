import PfVerif.Driver.C01
namespace PfVerif.Driver
open Lean

def dispatch (op : String) (j : Json) : R Json :=
  match op with
  | "pl" => opPl j
  | _ => .error s!"unknown op {op}"

end PfVerif.Driver
