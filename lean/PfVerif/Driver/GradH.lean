/-
  Driver op "grad_h": the hedging loss `lossOfH` (Model/Loss.lean: `hedgerPL` of Model/HedgerPL.lean
  on every path, then `applyCritH`) evaluated at `Dual Float`, one forward pass per trainable
  parameter (that parameter seeded with ε = 1), plus one pass with OCE's own `w` seeded.

  Everything executed here is the scalar-generic model the theorems of Lemmas/C14Multi.lean are
  stated about: `lossOfH`, `hedgerPL`, `applyCritH`, `mlpL`, and the constant embeddings
  `Dual.liftPaths` / `liftSpec` / `liftReg` / `liftCrit` / `liftBase`; this file only decodes JSON
  and seeds the parameters (`seedLayers`, Driver/Grad.lean).  `H = 1` (one primary instrument) is
  covered as well, so the harness sends its one-instrument scenarios to both "grad" and "grad_h".
-/
import PfVerif.Driver.Json
import PfVerif.Driver.Hedge
import PfVerif.Driver.Grad
import PfVerif.Driver.Risk
import PfVerif.Model.Loss
namespace PfVerif.Driver
open Lean

/-- hedging instrument: {"kind":"primary","row":[bits],"cost":bits} |
{"kind":"listed","a":bits,"b":bits,"row":[bits],"cost":bits} (`row` = the underlier's spot buffer) -/
def hedgeInstrF (j : Json) : R (HedgeInstr Float) := do
  let row : List Float ← getL1 (← field j "row")
  let cost : Float ← getS (← field j "cost")
  match ← getStr (← field j "kind") with
  | "primary" => pure ⟨.primary row, cost⟩
  | "listed" => pure ⟨.listed (← getS (← field j "a")) (← getS (← field j "b")) row, cost⟩
  | s => throw s!"hedge kind {s}"

/-- {"kind":"european"|"lookback"|"american_binary"|"european_binary","call":b,"strike":bits} -/
def payoffSpecF (j : Json) : R (PayoffSpec Float) := do
  let kind ← match ← getStr (← field j "kind") with
    | "european" => pure PayoffKind.european
    | "lookback" => pure PayoffKind.lookback
    | "american_binary" => pure PayoffKind.americanBinary
    | "european_binary" => pure PayoffKind.europeanBinary
    | s => throw s!"payoff kind {s}"
  pure ⟨kind, ← getBool (← field j "call"), ← getS (← field j "strike")⟩

/-- ["affine",a,b] | ["cap",c] | ["floor",c] -/
def clauseF (j : Json) : R (Clause Float) := do
  match ← getArr j with
  | [k, a, b] =>
    if (← getStr k) == "affine" then pure (.affine (← getS a) (← getS b)) else throw "clause"
  | [k, c] =>
    let k ← getStr k
    if k == "cap" then pure (.cap (← getS c))
    else if k == "floor" then pure (.floor (← getS c))
    else throw "clause"
  | _ => throw "clause"

/-- ["exp",a] : x ↦ 1 − exp(−a x);  ["quad",a,b] : x ↦ a x² + b x -/
def utilityF (j : Json) : R (Utility Float) := do
  match ← getArr j with
  | [k, a] => if (← getStr k) == "exp" then pure (.exp (← getS a)) else throw "utility"
  | [k, a, b] => if (← getStr k) == "quad" then pure (.quad (← getS a) (← getS b)) else throw "utility"
  | _ => throw "utility"

/-- ["mse"] | ["mean"] | ["erm",a] | ["eloss",a] | ["es",k] | ["iso",a,isOne] | ["oce",utility,w] -/
def critHOf (j : Json) : R (CritH Float) := do
  match ← getArr j with
  | [k] => match ← getStr k with
    | "mse" => pure .mse
    | "mean" => pure .mean
    | _ => throw "crit"
  | [k, a] => match ← getStr k with
    | "erm" => do pure (.erm (← getS a))
    | "eloss" => do pure (.eloss (← getS a))
    | "es" => do pure (.es (← getNat a))
    | _ => throw "crit"
  | [k, a, b] => match ← getStr k with
    | "iso" => do pure (.iso (← getBool b) (← getS a))
    | "oce" => do pure (.oce (← utilityF a) (← getS b))
    | _ => throw "crit"
  | _ => throw "crit"

/-- {"op":"grad_h","features":[base specs],"layers":[{"w","b"}..],"payoff":spec,"adds":[[name,clause]..],
     "first":bool,"crit":spec,"paths":[{"market":{..},"hedges":[instr..]}..]}
   → {"ok":{"loss":bits,"grad":[bits per flat parameter],"grad_w":bits}} | {"err":..}
   (`grad_w`: the ε-part with the criterion's own parameter seeded — OCE's `w`; 0 for the others) -/
def opGradH (j : Json) : R Json := do
  let fs ← (← getArr (← field j "features")).mapM baseFeatureOf
  let layers ← (← getArr (← field j "layers")).mapM (fun l => do
    let w : List (List Float) ← getL2 (← field l "w")
    let b : List Float ← getL1 (← field l "b")
    pure (w, b))
  let p ← payoffSpecF (← field j "payoff")
  let mut reg : List (String × Clause Float) := []
  for a in ← getArr (← field j "adds") do
    match ← getArr a with
    | [n, d] => reg := addClause reg (← getStr n) (← clauseF d)
    | _ => throw "adds"
  let first ← getBool (← field j "first")
  let crit ← critHOf (← field j "crit")
  let paths ← (← getArr (← field j "paths")).mapM (fun pj => do
    let m ← marketOf (← field pj "market")
    let hs ← (← getArr (← field pj "hedges")).mapM hedgeInstrF
    pure (m, hs))
  let nparams := (flatParams layers).length
  let feats : List (Feature DF) := fs.map (fun f => Feature.base (Dual.liftBase f))
  -- the model: `lossOfH` at dual numbers, parameter `q` of the module seeded (none for q ≥ nparams)
  let lossAt (q : Nat) (seedW : Bool) : Except Err DF :=
    lossOfH (mlpL (seedLayers layers q)) feats (Dual.liftPaths paths) (Dual.liftSpec p)
      (Dual.liftReg reg) first (applyCritH (Dual.liftCrit seedW crit))
  match lossAt nparams true with
  | .error e => pure (errJ e)
  | .ok lw =>
    let grads := (List.range nparams).map (fun q => match lossAt q false with
      | .ok d => d.eps
      | .error _ => 0.0 / 0.0)
    pure (okJ (Json.mkObj [("loss", putS lw.val), ("grad", putL1 grads), ("grad_w", putS lw.eps)]))

end PfVerif.Driver
