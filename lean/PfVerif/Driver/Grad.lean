import PfVerif.Driver.Json
import PfVerif.Driver.Hedge
import PfVerif.Model.Hedger
import PfVerif.Model.Module
import PfVerif.Model.PL
import PfVerif.Model.Risk
import PfVerif.Inst.Dual
import PfVerif.Inst.Float
namespace PfVerif.Driver
open Lean

abbrev DF := Dual Float

def liftF (x : Float) : DF := ⟨x, 0⟩

def liftMarket (m : Market Float) : Market DF :=
  { spot := m.spot.map liftF, variance := m.variance.map liftF, volatility := m.volatility.map liftF,
    listed := m.listed.map liftF, dt := liftF m.dt, strike := liftF m.strike, oracle := m.oracle.map liftF }

def liftBase : BaseFeature Float → BaseFeature DF
  | .moneyness l => .moneyness l | .maxMoneyness l => .maxMoneyness l | .timeToMaturity => .timeToMaturity
  | .volatility => .volatility | .variance => .variance | .spot l => .spot l | .underlierSpot l => .underlierSpot l
  | .barrier t u => .barrier (liftF t) u | .zeros => .zeros | .ones => .ones | .empty => .empty | .prevHedge => .prevHedge

/-- all parameters of an MLP as a flat list (layer by layer: weights row-major, then biases) -/
def flatParams (ls : List (List (List Float) × List Float)) : List Float :=
  ls.flatMap (fun (w, b) => w.flatten ++ b)

/-- rebuild the layers from a flat parameter list with the same shapes, seeding parameter `p` -/
def seedLayers (ls : List (List (List Float) × List Float)) (p : Nat) : List (List (List DF) × List DF) :=
  let rec go (ls : List (List (List Float) × List Float)) (off : Nat) : List (List (List DF) × List DF) :=
    match ls with
    | [] => []
    | (w, b) :: rest =>
      let cols := match w with
        | [] => 0
        | r :: _ => r.length
      let w' := w.zipIdx.map (fun (row, i) => row.zipIdx.map (fun (x, j) =>
        (⟨x, if off + i * cols + j = p then 1 else 0⟩ : DF)))
      let offb := off + w.length * cols
      let b' := b.zipIdx.map (fun (x, i) => (⟨x, if offb + i = p then 1 else 0⟩ : DF))
      (w', b') :: go rest (offb + b.length)
  go ls 0

inductive Crit where
  | erm (a : Float) | es (k : Nat) | eloss (a : Float) | mse | mean

def critOf (j : Json) : R Crit := do
  match ← getArr j with
  | [k] => match ← getStr k with
    | "mse" => pure .mse
    | "mean" => pure .mean
    | _ => throw "crit"
  | [k, a] => match ← getStr k with
    | "erm" => do pure (.erm (← getS a))
    | "eloss" => do pure (.eloss (← getS a))
    | "es" => do pure (.es (← getNat a))
    | _ => throw "crit"
  | _ => throw "crit"

def applyCrit (c : Crit) (pls : List DF) : Except Err DF :=
  match c with
  | .erm a => entropicRisk (liftF a) pls
  | .es k => .ok (es k pls)
  | .eloss a => .ok (entropicLoss (liftF a) pls)
  | .mse => .ok (meanR (pls.map (fun x => x * x)))
  | .mean => .ok (-(meanR pls))

/-- {"op":"grad","paths":[market..],"features":[base specs],"layers":[{"w","b"}..],"cost":bits,
     "payoffs":[bits],"crit":spec,"n":T,"first":bool} → {"loss":bits,"grad":[bits per flat parameter]} (H = 1) -/
def opGrad (j : Json) : R Json := do
  let ms ← (← getArr (← field j "paths")).mapM marketOf
  let fs ← (← getArr (← field j "features")).mapM baseFeatureOf
  let layers ← (← getArr (← field j "layers")).mapM (fun l => do
    let w : List (List Float) ← getL2 (← field l "w")
    let b : List Float ← getL1 (← field l "b")
    pure (w, b))
  let cost : Float ← getS (← field j "cost")
  let payoffs : List Float ← getL1 (← field j "payoffs")
  let crit ← critOf (← field j "crit")
  let n ← getNat (← field j "n")
  let nparams := (flatParams layers).length
  let feats : List (Feature DF) := fs.map (fun f => Feature.base (liftBase f))
  let lossAt (p : Nat) : Except Err DF := do
    let g := mlpL (seedLayers layers p)
    let pls ← (List.zip ms payoffs).mapM (fun (m, z) => do
      let md := liftMarket m
      let rows ← computeHedge g feats md n 1
      let unit := rows.map (fun r => match r with | [x] => x | _ => liftF (0.0 / 0.0))
      pure (plPath [md.spot] [unit] (some [liftF cost]) (some (liftF z)) true))
    applyCrit crit pls
  let results := (List.range (max nparams 1)).map lossAt
  match results with
  | [] => throw "no params"
  | r0 :: _ =>
    match r0 with
    | .error e => pure (errJ e)
    | .ok l0 =>
      let grads := (results.take nparams).map (fun r => match r with
        | .ok d => d.eps
        | .error _ => 0.0 / 0.0)
      pure (okJ (Json.mkObj [("loss", putS l0.val), ("grad", putL1 grads)]))

end PfVerif.Driver
