import PfVerif.Driver.Json
import PfVerif.Model.Fit
namespace PfVerif.Driver
open Lean

def evJ : FitEv → Json
  | .simulate n i t g => Json.arr #[Json.str "simulate", Json.num n, Json.bool i, Json.bool t, Json.bool g]
  | .loss t g => Json.arr #[Json.str "loss", Json.bool t, Json.bool g]
  | .placeholderPl => Json.arr #[Json.str "placeholder_pl"]
  | .mkOptimizer => Json.arr #[Json.str "mk_optimizer"]
  | .setTrain => Json.arr #[Json.str "train"]
  | .setEval => Json.arr #[Json.str "eval"]
  | .zeroGrad => Json.arr #[Json.str "zero_grad"]
  | .backward => Json.arr #[Json.str "backward"]
  | .step => Json.arr #[Json.str "step"]
  | .valItem => Json.arr #[Json.str "val_item"]

/-- {"op":"fit","epochs":k,"n_paths":n,"n_times":t,"with_init":b,"opt":"cls|instance|other","lazy":b,
     "validation":b,"start_training":b} -/
def opFit (j : Json) : R Json := do
  let opt ← match ← getStr (← field j "opt") with
    | "cls" => pure OptKind.cls
    | "instance" => pure OptKind.instance
    | _ => pure OptKind.other
  let c : FitCfg := {
    epochs := ← getNat (← field j "epochs"), nPaths := ← getNat (← field j "n_paths"),
    nTimes := ← getNat (← field j "n_times"), withInit := ← getBool (← field j "with_init"),
    opt := opt, lazy := ← getBool (← field j "lazy"), validation := ← getBool (← field j "validation"),
    startTraining := ← getBool (← field j "start_training") }
  match fitEvents c with
  | .error e => pure (errJ e)
  | .ok (evs, hist) =>
    pure (okJ (Json.mkObj [("events", Json.arr (evs.map evJ).toArray),
                           ("history", match hist with | some k => Json.num k | none => Json.null)]))

end PfVerif.Driver
