import PfVerif.Driver.Json
import PfVerif.Driver.Grad
import PfVerif.Driver.BSDual
import PfVerif.Model.Autogreek
import PfVerif.Inst.Dual
import PfVerif.Inst.Float
namespace PfVerif.Driver
open Lean PfVerif.Autogreek

def agKind (s : String) : R Kind :=
  match s with
  | "positional_only" => pure .positionalOnly
  | "positional_or_keyword" => pure .positionalOrKeyword
  | "var_positional" => pure .varPositional
  | "keyword_only" => pure .keywordOnly
  | "var_keyword" => pure .varKeyword
  | _ => throw s!"autogreek kind {s}"

def agGreek (s : String) : R Greek :=
  match s with
  | "delta" => pure .delta
  | "gamma" => pure .gamma
  | "vega" => pure .vega
  | "theta" => pure .theta
  | _ => throw s!"autogreek greek {s}"

/-- ["var",name] | ["num",bits] | [op,e] | [op,e1,e2] -/
partial def agExpr (j : Json) : R (Expr Float) := do
  match ← getArr j with
  | [h, a] =>
    match ← getStr h with
    | "var" => pure (.var (← getStr a))
    | "num" => pure (.num (← getS a))
    | "neg" => pure (.neg (← agExpr a))
    | "exp" => pure (.exp (← agExpr a))
    | "log" => pure (.log (← agExpr a))
    | "sqrt" => pure (.sqrt (← agExpr a))
    | "sin" => pure (.sin (← agExpr a))
    | "cos" => pure (.cos (← agExpr a))
    | "ncdf" => pure (.ncdf (← agExpr a))
    | o => throw s!"autogreek expr {o}"
  | [h, a, b] =>
    match ← getStr h with
    | "add" => pure (.add (← agExpr a) (← agExpr b))
    | "sub" => pure (.sub (← agExpr a) (← agExpr b))
    | "mul" => pure (.mul (← agExpr a) (← agExpr b))
    | "div" => pure (.div (← agExpr a) (← agExpr b))
    | o => throw s!"autogreek expr {o}"
  | _ => throw "autogreek expr"

/-- {"op":"autogreek","greek":"delta|gamma|vega|theta","sig":[[name,kind,default|null],..],
"params":[[name,x],..],"body":expr} (Float bit patterns) →
{"err":"value_error"} when no leaf can be parsed, else
{"received":[[name,x],..] (the keyword arguments of the call `pricer(**kw)`, in dict order),
 "greek":{"ok":x}|{"err":"type_error"}} -/
def opAutogreek (j : Json) : R Json := do
  let g ← agGreek (← getStr (← field j "greek"))
  let sig : Sig Float ← (← getArr (← field j "sig")).mapM (fun p => do
    match ← getArr p with
    | [n, k, d] => pure ({ name := ← getStr n, kind := ← agKind (← getStr k), default := ← optional d getS } : Param Float)
    | _ => throw "autogreek sig")
  let ps : Params Float ← (← getArr (← field j "params")).mapM (fun e => do
    match ← getArr e with
    | [n, x] => pure ((← getStr n, ← getS x) : String × Float)
    | _ => throw "autogreek params")
  let body ← agExpr (← field j "body")
  if !body.scoped sig then throw "autogreek: the body mentions a name that is not a declared parameter"
  -- the dict before the filter and the keyword arguments of the call, from the dual run itself
  let recv : Except Err (List (String × Float)) :=
    if g = .gamma then
      (preDict g seed2 (liftParams (Autogreek.lift2 : Float → DDF) ps)).map
        (fun d => (passed (liftSig Autogreek.lift2 sig) d).map (fun e => (e.1, e.2.val.val)))
    else
      (preDict g seed1 (liftParams (Autogreek.lift1 : Float → DF) ps)).map
        (fun d => (passed (liftSig Autogreek.lift1 sig) d).map (fun e => (e.1, e.2.val)))
  match recv with
  | .error e => pure (errJ e)
  | .ok r =>
    let greek : Except Err Float :=
      if g = .gamma then autogreekGamma sig (body.pricer Autogreek.lift2) ps
      else autogreekValue g sig (body.pricer Autogreek.lift1) ps
    pure (Json.mkObj [
      ("received", Json.arr (r.map (fun e => Json.arr #[Json.str e.1, putS e.2])).toArray),
      ("greek", exceptJ putS greek)])

end PfVerif.Driver
