import PfVerif.Driver.Json
import PfVerif.Driver.InstrSys
import PfVerif.Model.GridSys
import PfVerif.Inst.Float
namespace PfVerif.Driver
open Lean PfVerif.InstrSys PfVerif.GridSys

namespace GSysD

/-- a scalar travels as `[rat, floatbits]`; `w` selects the carrier -/
def scal {α} [Wire α] (w : Nat) (j : Json) : R α := do
  match ← getArr j with
  | [a, b] => getS (if w == 0 then a else b)
  | _ => throw "scalar pair"

def payOf (j : Json) : R PaySrc := do
  match j with
  | .str "ul0" => pure .ul0
  | _ =>
    match ← getArr j with
    | k :: n :: ns =>
      if (← getStr k) == "named" then do pure (.named (← getStr n) (← ns.mapM getStr)) else throw "pay"
    | _ => throw "pay"

def regsOf (j : Json) : R (List (String × Nat)) := do
  (← getArr j).mapM (fun x => do
    match ← getArr x with
    | [n, p] => do pure ((← getStr n), (← getNat p))
    | _ => throw "registry entry")

def specOf {α} [Wire α] (w : Nat) (j : Json) : R (DerivSpec α) := do
  pure { maturity := (← scal w (← field j "maturity")),
         regs := (← regsOf (← field j "regs")),
         mixin := (← getBool (← field j "mixin")),
         pay := (← payOf (← field j "pay")),
         pk := (← ISys.payoffOf (← getStr (← field j "pk"))),
         pricer := (← optional (fieldD j "pricer") getStr) }

def queryOf (j : Json) : R GQuery := do
  match ← getArr j with
  | [k, a] =>
    match ← getStr k with
    | "buffers" => do pure (.buffers (← getNat a))
    | "underliers" => do pure (.underliers (← getNat a))
    | "ttm" => do pure (.ttm (← getNat a))
    | "ttm_values" => do pure (.ttmValues (← getNat a))
    | "payoff_inputs" => do pure (.payoffInputs (← getNat a))
    | "payoff" => do pure (.payoff (← getNat a))
    | "listed" => do pure (.listed (← getNat a))
    | s => throw s!"query {s}"
  | [k, a, b] =>
    match ← getStr k with
    | "ul" => do pure (.ul (← getNat a) (← getNat b))
    | "attr" => do pure (.attr (← getNat a) (← getStr b))
    | "get_underlier" => do pure (.getUnderlier (← getNat a) (← getStr b))
    | "feature" => do pure (.feature (← getNat a) (← ISys.featOf (← getStr b)))
    | "features" => do pure (.features (← getNat a) (← (← getArr b).mapM (fun x => do ISys.featOf (← getStr x))))
    | "hedge" => do pure (.hedge (← getNat a) (← ISys.cfgOf b))
    | s => throw s!"query {s}"
  | _ => throw "query"

def cmdOf {α} [Wire α] (w : Nat) (j : Json) : R (GCmd α) := do
  match ← getArr j with
  | [] => throw "cmd"
  | k :: args =>
    match ← getStr k, args with
    | "set_maturity", [d, m] => do pure (.op (.setMaturity (← getNat d) (← scal w m)))
    | "assign", [d, n, p] => do pure (.op (.assign (← getNat d) (← getStr n) (← getNat p)))
    | "assign_old", [d, n, p] => do pure (.op (.assignOld (← getNat d) (← getStr n) (← getNat p)))
    | "register", [d, n, p] => do pure (.op (.register (← getNat d) (← getStr n) (← getNat p)))
    | "deriv_sim", [d, np] => do pure (.op (.derivSim (← getNat d) (← getNat np)))
    | "prim_sim", [p, np, h] => do pure (.op (.primSim (← getNat p) (← getNat np) (← scal w h)))
    | "ask", [q] => do pure (.ask (← queryOf q))
    | s, _ => throw s!"cmd {s}"

def shapeJ (s : Shape) : Json := ISys.natsJ [s.1, s.2]

def replyJ {α} [Wire α] : GReply α → Json
  | .done => Json.mkObj [("done", Json.bool true)]
  | .raised e => Json.mkObj [("err", Json.str (ISys.qerrStr e))]
  | .answer (.prim i) => Json.mkObj [("prim", ISys.natJ i)]
  | .answer (.prims l) => Json.mkObj [("prims", ISys.natsJ l)]
  | .answer (.bufs l) => Json.mkObj [("bufs", Json.arr (l.map (fun x => Json.arr #[Json.str x.1, shapeJ x.2])).toArray)]
  | .answer (.shape l) => Json.mkObj [("shape", ISys.natsJ l)]
  | .answer (.shapes l) => Json.mkObj [("shapes", Json.arr (l.map shapeJ).toArray)]
  | .answer (.values l) => Json.mkObj [("values", putL1 l)]

/-- ghost record of the last simulate of every primary: `[horizon, via | null] | null` -/
def lastJ {α} [Wire α] (s : GSys α) : Json :=
  Json.arr (s.last.map (fun x =>
    match x with
    | none => Json.null
    | some (h, via) => Json.arr #[putS h, match via with | some k => ISys.natJ k | none => Json.null])).toArray

def runAll {α} [Wire α] [Sub α] [Mul α] [NatCast α] (w : Nat) (N : α → α → Nat) (j : Json) : R Json := do
  let amb ← dtypeOf (← getStr (← field j "ambient"))
  let prims ← (← getArr (← field j "prims")).mapM (fun x => do
    match ← getArr x with
    | [k, d, dt] => do pure (((← ISys.kindOf (← getStr k)), (← optDtype d)), (← scal (α := α) w dt))
    | _ => throw "prim")
  let ders ← (← getArr (← field j "derivs")).mapM (specOf (α := α) w)
  let cmds ← (← getArr (← field j "cmds")).mapM (cmdOf (α := α) w)
  match GSys.init amb prims ders with
  | .error e => pure (Json.mkObj [("init", Json.mkObj [("err", Json.str (ISys.qerrStr e))]), ("steps", Json.arr #[])])
  | .ok s0 =>
    let mut s := s0
    let mut outs : Array Json := #[]
    for c in cmds do
      let (s', r) := c.exec N s
      outs := outs.push (replyJ r)
      s := s'
    pure (Json.mkObj [("init", Json.mkObj [("ok", Json.bool true)]), ("steps", Json.arr outs), ("last", lastJ s)])

end GSysD

/-- {"op":"grid_sys","ambient":dtype,"prims":[[kind,dtype|null,[rat,bits]],..],
     "derivs":[{"maturity":[rat,bits],"regs":[[name,prim],..],"mixin":b,"pay":"ul0"|["named",n,..],"pk":kind,"pricer":buf|null},..],
     "cmds":[["set_maturity",d,[rat,bits]] | ["assign",d,name,p] | ["assign_old",d,name,p] | ["register",d,name,p]
             | ["deriv_sim",d,n_paths] | ["prim_sim",p,n_paths,[rat,bits]] | ["ask",query],..]}
→ {"exact": run with `nExact` on the rationals, "float": run with `nStepsShipped` on the doubles},
each {"init":..,"steps":[reply,..],"last":[..]} -/
def opGridSys (j : Json) : R Json := do
  let ex ← GSysD.runAll (α := Rat) 0 nExact j
  let fl ← GSysD.runAll (α := Float) 1 nStepsShipped j
  pure (Json.mkObj [("exact", ex), ("float", fl)])

end PfVerif.Driver
