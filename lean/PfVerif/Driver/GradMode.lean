import PfVerif.Driver.Json
import PfVerif.Model.GradMode
namespace PfVerif.Driver
open Lean PfVerif.GradMode

def gmOutJ (o : Out) : Json :=
  Json.mkObj [("inside", Json.bool o.inside),
              ("graph", match o.graph with | some g => Json.bool g | none => Json.str "raised"),
              ("after", Json.bool o.after)]

def gmNat (j : Json) : R Nat := do
  let n ← j.getNat?
  pure n

def gmPrimOf (j : Json) : R Prim := do
  match ← getStr (← field j "c") with
  | "price" => pure (.price (← getBool (← field j "eg")) (← getBool (← field j "fails")))
  | "loss" => pure (.computeLoss (← getBool (← field j "eg")) (← getBool (← field j "fails")))
  | "pl" => pure (.computePL (← getBool (← field j "fails")))
  | "fit" => do
    let fa ← match fieldD j "fail_epoch" with
      | Json.null => pure none
      | v => do pure (some (← gmNat v, ← getBool (← field j "fail_val")))
    pure (.fit (← gmNat (← field j "epochs")) (← getBool (← field j "validation")) fa)
  | s => throw s!"grad_mode: call {s}"

def gmCallOf (j : Json) : R Call := do
  match ← getStr (← field j "c") with
  | "block" => pure (.block (← getBool (← field j "b")) (← (← getArr (← field j "body")).mapM gmPrimOf))
  | "set" => pure (.setGlobal (← getBool (← field j "b")))
  | _ => do pure (.prim (← gmPrimOf j))

/-- {"op":"grad_mode","trainable":b,"mode":b,"script":[call,..]} → {"mode":b,"outs":[[[{inside,graph,after},..],..],..]} -/
def opGradMode (j : Json) : R Json := do
  let tr ← getBool (← field j "trainable")
  let m ← getBool (← field j "mode")
  let script ← (← getArr (← field j "script")).mapM gmCallOf
  let (m', outs) := runScript tr m script
  pure (Json.mkObj [("mode", Json.bool m'),
    ("outs", Json.arr (outs.map (fun c => Json.arr (c.map (fun p => Json.arr (p.map gmOutJ).toArray)).toArray)).toArray)])

end PfVerif.Driver
