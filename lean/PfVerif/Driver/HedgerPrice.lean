/-
  Driver op "hedger_price": `hedgerPrice` / `hedgerLossOf` and their `n_times` means
  (Model/HedgerPrice.lean).

    * carrier "rat"  : expected shortfall, exact.  Request decoders of Driver/HedgerPL.lean
      (numbers travel as "p/q"; features with `log = true` are refused).
    * carrier "float": entropic risk measure / entropic loss, IEEE double.  Market, feature and
      module decoders of Driver/Hedge.lean; the instrument / payoff / clause decoders below are the
      ones of Driver/HedgerPL.lean written over any wire carrier.
-/
import PfVerif.Driver.HedgerPL
import PfVerif.Driver.Hedge
import PfVerif.Model.HedgerPrice
import PfVerif.Inst.Float
namespace PfVerif.Driver
open Lean

/-- see Driver/HedgerPL.lean `ratNoTransc` (a local instance there): no field is ever evaluated,
the Rat decoders refuse every feature that would call one, and the only Rat criterion is the
expected shortfall -/
local instance ratNoTransc' : Transc Rat :=
  ⟨fun _ => 0, fun _ => 0, fun _ => 0, fun _ => 0, fun _ => 0, fun _ => 0, fun _ => 0, fun _ => 0⟩

def hedgeInstrW {α : Type} [Wire α] (j : Json) : R (HedgeInstr α) := do
  let row : List α ← getL1 (← field j "row")
  let cost : α ← getS (← field j "cost")
  match ← getStr (← field j "kind") with
  | "primary" => pure ⟨.primary row, cost⟩
  | "listed" => pure ⟨.listed (← getS (← field j "a")) (← getS (← field j "b")) row, cost⟩
  | s => throw s!"hedge kind {s}"

def payoffSpecW {α : Type} [Wire α] (j : Json) : R (PayoffSpec α) := do
  let kind ← match ← getStr (← field j "kind") with
    | "european" => pure PayoffKind.european
    | "lookback" => pure PayoffKind.lookback
    | "american_binary" => pure PayoffKind.americanBinary
    | "european_binary" => pure PayoffKind.europeanBinary
    | s => throw s!"payoff kind {s}"
  pure ⟨kind, ← getBool (← field j "call"), ← getS (← field j "strike")⟩

def clauseW {α : Type} [Wire α] (j : Json) : R (Clause α) := do
  match ← getArr j with
  | [k, a, b] =>
    if (← getStr k) == "affine" then pure (.affine (← getS a) (← getS b)) else throw "clause"
  | [k, c] =>
    let k ← getStr k
    if k == "cap" then pure (.cap (← getS c))
    else if k == "floor" then pure (.floor (← getS c))
    else throw "clause"
  | _ => throw "clause"

def regOf {α : Type} (dec : Json → R (Clause α)) (j : Json) : R (List (String × Clause α)) := do
  let mut reg : List (String × Clause α) := []
  for a in ← getArr j do
    match ← getArr a with
    | [n, d] => reg := addClause reg (← getStr n) (← dec d)
    | _ => throw "adds"
  pure reg

def batchesOf {α : Type} (mk : Json → R (Market α)) (hi : Json → R (HedgeInstr α)) (j : Json) :
    R (List (List (HedgePath α))) := do
  (← getArr j).mapM (fun b => do
    (← getArr b).mapM (fun pj => do
      let m ← mk (← field pj "market")
      let hs ← (← getArr (← field pj "hedges")).mapM hi
      pure (⟨m, hs⟩ : HedgePath α)))

section
variable {α : Type} [Add α] [Sub α] [Mul α] [Div α] [Neg α] [OfNat α 0] [OfNat α 1] [OfNat α 2]
  [LE α] [DecidableLE α] [LT α] [DecidableLT α] [Max α] [Min α] [NatCast α] [Transc α] [Wire α]

/-- the reply: the `n_times` means, one price / loss per batch, and the P&L sample of every batch -/
def hedgerPriceReply (crit : Criterion α) (g : List α → List α) (fs : List (Feature α))
    (p : PayoffSpec α) (reg : List (String × Clause α)) (first : Bool)
    (batches : List (List (HedgePath α))) : Json :=
  Json.mkObj [
    ("price", exceptJ putS (hedgerPriceN crit g fs p reg first batches)),
    ("loss", exceptJ putS (hedgerLossN crit g fs p reg first batches)),
    ("prices", Json.arr ((batches.map (hedgerPrice crit g fs p reg first)).map (exceptJ putS)).toArray),
    ("losses", Json.arr ((batches.map (hedgerLossOf crit g fs p reg first)).map (exceptJ putS)).toArray),
    ("pl", Json.arr ((batches.map (batchPL g fs p reg first)).map (exceptJ putL1)).toArray),
    ("portfolio", Json.arr ((batches.map (batchPortfolio g fs first)).map (exceptJ putL1)).toArray),
    ("payoff", Json.arr ((batches.map (batchPayoff p reg)).map (exceptJ putL1)).toArray)]

end

/-- {"op":"hedger_price","carrier":"rat"|"float",
     "criterion":["es",k] (rat) | ["erm",a] | ["eloss",a] (float),
     "features":[specs],"model":spec,"payoff":spec,"adds":[[name,descr],..],"first":bool,
     "batches":[[{"market":{..},"hedges":[instr..]},..],..]}
   → {"price":ok|err,"loss":ok|err,"prices":[..],"losses":[..],"pl":[ok [..]|err,..],
      "portfolio":[..],"payoff":[..]} -/
def opHedgerPrice (j : Json) : R Json := do
  let first ← getBool (← field j "first")
  let crit ← getArr (← field j "criterion")
  match ← getStr (← field j "carrier") with
  | "rat" =>
    let fs ← (← getArr (← field j "features")).mapM (fun f => do pure (Feature.base (← baseFeatureQ f)))
    let g ← moduleQ (← field j "model")
    let p ← payoffSpecQ (← field j "payoff")
    let reg ← regOf clauseQ (← field j "adds")
    let batches ← batchesOf marketQ hedgeInstrQ (← field j "batches")
    let c : Criterion Rat ← match crit with
      | [k, n] => if (← getStr k) == "es" then pure (Criterion.expectedShortfall (← getNat n))
                  else throw "criterion (Rat carrier)"
      | _ => throw "criterion (Rat carrier)"
    pure (hedgerPriceReply c g fs p reg first batches)
  | "float" =>
    let fs ← (← getArr (← field j "features")).mapM featureOf
    let g ← moduleOf (← field j "model")
    let p : PayoffSpec Float ← payoffSpecW (← field j "payoff")
    let reg ← regOf (clauseW (α := Float)) (← field j "adds")
    let batches ← batchesOf marketOf (hedgeInstrW (α := Float)) (← field j "batches")
    let c : Criterion Float ← match crit with
      | [k, a] => do
        let k ← getStr k
        if k == "erm" then pure (Criterion.entropicRiskMeasure (← getS a))
        else if k == "eloss" then pure (Criterion.entropicLoss (← getS a))
        else if k == "es" then pure (Criterion.expectedShortfall (← getNat a))
        else throw "criterion (Float carrier)"
      | _ => throw "criterion (Float carrier)"
    pure (hedgerPriceReply c g fs p reg first batches)
  | s => throw s!"carrier {s}"

end PfVerif.Driver
