import PfVerif.Driver.Json
import PfVerif.Driver.DType
import PfVerif.Model.InstrSys
namespace PfVerif.Driver
open Lean PfVerif.InstrSys

namespace ISys

def kindOf (s : String) : R PrimKind :=
  match s with
  | "flat" => pure .flat | "stochVar" => pure .stochVar | "localVol" => pure .localVol | "rate" => pure .rate
  | _ => throw s!"prim kind {s}"

def payoffOf (s : String) : R PayoffKind :=
  match s with
  | "arith" => pure .arith | "indicator" => pure .indicator
  | _ => throw s!"payoff kind {s}"

def featOf (s : String) : R Feat :=
  match s with
  | "moneyness" => pure .moneyness | "log_moneyness" => pure .logMoneyness
  | "time_to_maturity" => pure .timeToMaturity | "underlier_spot" => pure .underlierSpot
  | "underlier_log_spot" => pure .underlierLogSpot | "spot" => pure .listedSpot
  | "volatility" => pure .volatility | "variance" => pure .variance
  | "zeros" => pure .zeros | "ones" => pure .ones | "empty" => pure .empty | "barrier" => pure .barrier
  | "max_moneyness" => pure .maxMoneyness | "max_log_moneyness" => pure .maxLogMoneyness
  | "prev_hedge" => pure .prevHedge
  | _ => throw s!"feature {s}"

def shapeOf (j : Json) : R Shape := do
  match ← getNats j with
  | [a, b] => pure (a, b)
  | _ => throw "shape"

def targetOf (j : Json) : R Target := do
  match ← getArr j with
  | [k, a] =>
    match ← getStr k with
    | "dtype" => pure (.dtype (← optDtype a))
    | "tensor" => do pure (.tensor (← dtypeOf (← getStr a)))
    | "prim" => do pure (.prim (← getNat a))
    | "deriv" => do pure (.deriv (← getNat a))
    | "ext" => pure (.ext (← optDtype a))
    | s => throw s!"target {s}"
  | _ => throw "target"

def hrefOf (j : Json) : R HRef := do
  match ← getArr j with
  | [k, a] =>
    match ← getStr k with
    | "prim" => do pure (.prim (← getNat a))
    | "deriv" => do pure (.deriv (← getNat a))
    | s => throw s!"hedge ref {s}"
  | _ => throw "hedge ref"

def modelOf (j : Json) : R ModelKind := do
  match j with
  | .str "naked" => pure .naked
  | _ =>
    match ← getArr j with
    | [k, a] => if (← getStr k) == "linear" then pure (.linear (← optDtype a)) else throw "model"
    | _ => throw "model"

def cfgOf (j : Json) : R HedgeCfg := do
  let model ← modelOf (← field j "model")
  let feats ← (← getArr (← field j "feats")).mapM (fun x => do featOf (← getStr x))
  let hedge ← optional (fieldD j "hedge") (fun x => do (← getArr x).mapM hrefOf)
  pure { model := model, feats := feats, hedge := hedge }

def queryOf (j : Json) : R Query := do
  match ← getArr j with
  | [k, a] =>
    match ← getStr k with
    | "dtype" => do pure (.derivDType (← getNat a))
    | "payoff" => do pure (.payoff (← getNat a))
    | "listed" => do pure (.listedPrice (← getNat a))
    | s => throw s!"query {s}"
  | [k, a, b] =>
    match ← getStr k with
    | "feature" => do pure (.feature (← getNat a) (← featOf (← getStr b)))
    | "hedge" => do pure (.hedge (← getNat a) (← cfgOf b))
    | "pl" => do pure (.pl (← getNat a) (← cfgOf b))
    | "portfolio" => do pure (.portfolio (← getNat a) (← cfgOf b))
    | s => throw s!"query {s}"
  | _ => throw "query"

def cmdOf (j : Json) : R Cmd := do
  let l ← getArr j
  match l with
  | [] => throw "cmd"
  | k :: args =>
    match ← getStr k, args with
    | "prim_to", [i, t] => do pure (.op (.primTo (← getNat i) (← targetOf t)))
    | "prim_sim", [i, a, b] => do pure (.op (.primSimulate (← getNat i) (← getNat a) (← getNat b)))
    | "prim_reg", [i, n, d, sh] =>
      do pure (.op (.primRegister (← getNat i) (← getStr n) (← dtypeOf (← getStr d)) (← shapeOf sh)))
    | "deriv_to", [i, t] => do pure (.op (.derivTo (← getNat i) (← targetOf t)))
    | "deriv_sim", [i, a, b] => do pure (.op (.derivSimulate (← getNat i) (← getNat a) (← getNat b)))
    | "list", [i, b] => do pure (.op (.list (← getNat i) (← getStr b)))
    | "delist", [i] => do pure (.op (.delist (← getNat i)))
    | "default", [d] => do pure (.op (.setDefault (← dtypeOf (← getStr d))))
    | "ask", [q] => do pure (.ask (← queryOf q))
    | "run", [i, c, a, b, n] =>
      do pure (.run (← getNat i) (← cfgOf c) (← getNat a) (← getNat b) (← getNat n))
    | s, _ => throw s!"cmd {s}"

def qerrStr : QErr → String
  | .prim e => e.toString
  | .valueError => "value_error"
  | .runtimeError => "runtime_error"
  | .attributeError => "attribute_error"
  | .indexError => "index_error"
  | .noSuchObject => "no_such_object"

def optDtypeJ : Option DType → Json
  | some d => Json.str (dtypeStr d)
  | none => Json.null

def natJ (n : Nat) : Json := Json.num (JsonNumber.fromNat n)

def natsJ (l : List Nat) : Json := Json.arr (l.map natJ).toArray

def primJ (p : Prim) : Json :=
  let bufs := p.st.buffers.map (fun b =>
    match p.info.find? (fun m => m.1 == b.1) with
    | some m => Json.arr #[Json.str b.1, Json.str (dtypeStr b.2), natsJ [m.2.shape.1, m.2.shape.2],
                           natJ m.2.gen, Json.bool m.2.bySim]
    | none => Json.arr #[Json.str b.1, Json.str (dtypeStr b.2), Json.null, Json.null, Json.null])
  Json.mkObj [("declared", optDtypeJ p.st.declared),
              ("buffers", Json.arr bufs.toArray),
              ("info_names", Json.arr (p.info.map (fun m => Json.str m.1)).toArray),
              ("ambient", Json.str (dtypeStr p.st.ambient)),
              ("last_sim", match p.lastSim with
                | some (sh, g) => Json.arr #[natsJ [sh.1, sh.2], natJ g]
                | none => Json.null)]

def sysJ (s : Sys) : Json :=
  Json.mkObj [("prims", Json.arr (s.prims.map primJ).toArray),
              ("derivs", Json.arr (s.derivs.map (fun d =>
                  Json.mkObj [("ul", natJ d.ul),
                              ("listed", match d.pricer with | some b => Json.str b | none => Json.null)])).toArray),
              ("ambient", Json.str (dtypeStr s.ambient)),
              ("clock", natJ s.clock)]

def replyJ : Reply → Json
  | .done => Json.mkObj [("done", Json.bool true)]
  | .raised e => Json.mkObj [("err", Json.str (qerrStr e))]
  | .answer (.dtype d) => Json.mkObj [("dtype", optDtypeJ d)]
  | .answer (.tensor t) => Json.mkObj [("tensor", Json.mkObj [("dtype", Json.str (dtypeStr t.dtype)), ("shape", natsJ t.shape)])]

end ISys

/-- {"op":"instr_sys","ambient":dtype,"prims":[[kind,dtype|null],..],"derivs":[[ul,payoffkind],..],"cmds":[..]}
→ {"init": state | err, "steps":[{"r":reply,"state":state (after operations and runs)},..]} -/
def opInstrSys (j : Json) : R Json := do
  let amb ← dtypeOf (← getStr (← field j "ambient"))
  let prims ← (← getArr (← field j "prims")).mapM (fun x => do
    match ← getArr x with
    | [k, d] => do pure ((← ISys.kindOf (← getStr k)), (← optDtype d))
    | _ => throw "prim")
  let derivs ← (← getArr (← field j "derivs")).mapM (fun x => do
    match ← getArr x with
    | [u, p] => do pure ((← getNat u), (← ISys.payoffOf (← getStr p)))
    | _ => throw "deriv")
  let cmds ← (← getArr (← field j "cmds")).mapM ISys.cmdOf
  match Sys.init amb prims derivs with
  | .error e => pure (Json.mkObj [("init", Json.mkObj [("err", Json.str (ISys.qerrStr e))]), ("steps", Json.arr #[])])
  | .ok s0 =>
    let mut s := s0
    let mut outs : Array Json := #[]
    for c in cmds do
      let (s', r) := c.exec s
      let withState := match c with
        | .ask _ => false
        | _ => true
      outs := outs.push (Json.mkObj (("r", ISys.replyJ r) :: (if withState then [("state", ISys.sysJ s')] else [])))
      s := s'
    pure (Json.mkObj [("init", Json.mkObj [("ok", ISys.sysJ s0)]), ("steps", Json.arr outs)])

end PfVerif.Driver
