/-
  Driver op "fit_num": the numeric model of `Hedger.fit` (Model/FitNum.lean: `fitNum` — per epoch
  zero_grad → `lossAt` on that epoch's batch → `gradOf` (ε-parts of `lossOfH` at `Dual Float`, every
  parameter seeded in turn) → `optStep` (torch.optim.SGD / Adam) → validation at the new parameters)
  executed at `Float`.  Everything executed is the scalar-generic model the theorems of
  Lemmas/C15Num.lean are stated about; this file only decodes JSON (decoders of Driver/GradH.lean).
-/
import PfVerif.Driver.Json
import PfVerif.Driver.Hedge
import PfVerif.Driver.GradH
import PfVerif.Model.FitNum
namespace PfVerif.Driver
open Lean

/-- ["sgd",lr,momentum,weight_decay] | ["adam",lr,beta1,beta2,eps,weight_decay] -/
def optSpecF (j : Json) : R (FitNum.OptSpec Float) := do
  match ← getArr j with
  | [k, lr, mu, wd] =>
    if (← getStr k) == "sgd" then pure (.sgd (← getS lr) (← getS mu) (← getS wd)) else throw "opt"
  | [k, lr, b1, b2, eps, wd] =>
    if (← getStr k) == "adam" then
      pure (.adam (← getS lr) (← getS b1) (← getS b2) (← getS eps) (← getS wd))
    else throw "opt"
  | _ => throw "opt"

/-- [{"market":{..},"hedges":[instr..]}..] -/
def batchF (j : Json) : R (FitNum.Batch Float) := do
  (← getArr j).mapM (fun pj => do
    let m ← marketOf (← field pj "market")
    let hs ← (← getArr (← field pj "hedges")).mapM hedgeInstrF
    pure (m, hs))

/-- {"op":"fit_num","features":[base specs],"layers":[{"w","b"}..],"payoff":spec,"adds":[[name,clause]..],
     "first":bool,"crit":spec,"opt":spec,
     "epochs":[{"train":batch,"val":null | [batch..]}..]}
   → {"ok":{"params":[[bits per flat parameter] per epoch],"final":[bits],"train":[bits],"grads":[[bits]],
            "val":[bits | null],"val_evals":[[bits]],"steps":n,"loss_evals":n}} | {"err":..} -/
def opFitNum (j : Json) : R Json := do
  let fs ← (← getArr (← field j "features")).mapM baseFeatureOf
  let layers : FitNum.Layers Float ← (← getArr (← field j "layers")).mapM (fun l => do
    let w : List (List Float) ← getL2 (← field l "w")
    let b : List Float ← getL1 (← field l "b")
    pure (w, b))
  let p ← payoffSpecF (← field j "payoff")
  let mut reg : List (String × Clause Float) := []
  for a in ← getArr (← field j "adds") do
    match ← getArr a with
    | [n, d] => reg := addClause reg (← getStr n) (← clauseF d)
    | _ => throw "adds"
  let first ← getBool (← field j "first")
  let crit ← critHOf (← field j "crit")
  let opt ← optSpecF (← field j "opt")
  let es ← (← getArr (← field j "epochs")).mapM (fun ej => do
    let train ← batchF (← field ej "train")
    let vj := fieldD ej "val"
    let val ← if vj.isNull then pure none else do
      let bs ← (← getArr vj).mapM batchF
      pure (some bs)
    pure (⟨train, val⟩ : FitNum.EpochData Float))
  let spec : FitNum.FitSpec Float := ⟨FitNum.shapeOf layers, fs, p, reg, first, crit⟩
  match FitNum.fitNum spec opt (FitNum.flatParams layers) es with
  | .error e => pure (errJ e)
  | .ok out =>
    pure (okJ (Json.mkObj [
      ("params", putL2 out.params),
      ("final", putL1 out.final.θ),
      ("train", putL1 out.trainLosses),
      ("grads", putL2 (out.epochs.map (fun e => e.grad))),
      ("val", Json.arr (out.epochs.map (fun e => match e.valLoss with
        | some v => putS v
        | none => Json.null)).toArray),
      ("val_evals", putL2 (out.epochs.map (fun e => e.valEvals))),
      ("steps", Json.num out.steps),
      ("loss_evals", Json.num out.lossEvals)]))

end PfVerif.Driver
