import PfVerif.Driver.Json
import PfVerif.Driver.Acquire
import PfVerif.Model.Factory
namespace PfVerif.Driver
open Lean

/-- one `register_module(name, cls)` call: `[name, module class name, kind of the module class]` -/
def regCallOf (j : Json) : R (String × ModClass) := do
  match ← getArr j with
  | [n, m, k] => pure (← getStr n, ⟨← getStr m, ← kindOf (← getStr k)⟩)
  | _ => throw "factory: history entry"

def kindName : Kind → String
  | .plain .european => "european"
  | .plain .binary => "european_binary"
  | .pathDep .americanBinary => "american_binary"
  | .pathDep .lookback => "lookback"

/-- {"op":"factory","history":[[name, module class, kind],..]   (the register_module calls, oldest first)
     "queries":[{"name":class name,"mro":[ancestor names],"call":b},..]}
  → {"named_modules":[[name, module class],..],
     "resolved":[{"class":{"ok":[module class, kind]}|{"err":kind},"construct":{"ok":[module class, call]}|{"err":kind}},..]}
  `construct` is `blackScholes` on a derivative with that call flag (strike 1, one-step market). -/
def opFactory (j : Json) : R Json := do
  let hist ← (← getArr (← field j "history")).mapM regCallOf
  let reg : Registry ModClass := Registry.ofHistory hist
  let qs ← getArr (← field j "queries")
  let outs ← qs.mapM (fun q => do
    let cls : DerivClass := ⟨← getStr (← field q "name"), ← (← getArr (← field q "mro")).mapM getStr⟩
    let call ← getBool (← field q "call")
    let d : Deriv Float := ⟨⟨[1.0], [0.0], [0.0], [1.0], 1.0, 1.0, [0.0]⟩, call, true, true⟩
    let r := blackScholes reg cls d
    pure (Json.mkObj [
      ("class", acqExceptJ (fun (mc : ModClass) => Json.arr #[Json.str mc.name, Json.str (kindName mc.kind)]) (reg.resolve cls)),
      ("construct", acqExceptJ (fun (p : ModClass × BSModule Float) => Json.arr #[Json.str p.1.name, Json.bool p.2.call]) r)]))
  pure (Json.mkObj [
    ("named_modules", Json.arr (reg.namedModules.map (fun nv => Json.arr #[Json.str nv.1, Json.str nv.2.name])).toArray),
    ("resolved", Json.arr outs.toArray)])

end PfVerif.Driver
