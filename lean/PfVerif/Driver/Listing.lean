import PfVerif.Driver.Session
import PfVerif.Model.Listing
namespace PfVerif.Driver
open Lean PfVerif.Session PfVerif.Listing

section
variable {α : Type} [Wire α]

/-- the session ops of Driver/Session.lean plus ["list",k,cost] | ["delist"] | ["is_listed"] | ["cost"] | ["spot"] -/
def listOp (j : Json) : R (LOp α) := do
  match ← getArr j with
  | [k] =>
    match ← getStr k with
    | "delist" => pure .delist
    | "is_listed" => pure .isListed
    | "cost" => pure .getCost
    | "spot" => pure .spot
    | _ => do pure (.sess (← sessOp j))
  | [k, n, c] =>
    if (← getStr k) == "list" then do
      let kk ← n.getNat?
      pure (.list kk (← getS c))
    else do pure (.sess (← sessOp j))
  | _ => do pure (.sess (← sessOp j))

def listOutJ : LOut α → Json
  | .sess o => sessOutJ o
  | .none => Json.null
  | .flag b => okJ (Json.bool b)
  | .cost c => okJ (putS c)
  | .quote v => okJ (putL1 v)
  | .error e => errJ e

def listRun (pp : Terms α → List α → Except Err α) [Add α] [Sub α] [Mul α] [Div α] [Neg α]
    [OfNat α 0] [OfNat α 1] [LE α] [DecidableLE α] [Max α] [Min α] [NatCast α] (j : Json) : R Json := do
  let s0 : State α := {
    terms := { strike := ← getS (← field j "strike"), call := ← getBool (← field j "call"),
               start := ← (← field j "start").getInt?, dt := ← getS (← field j "dt") },
    spot := ← getL2 (← field j "spot"),
    clauses := [],
    attrs := ← (← getArr (← field j "attrs")).mapM getStr }
  let ops ← (← getArr (← field j "ops")).mapM listOp
  let r := lrun pp ⟨s0, none, 0⟩ ops
  pure (Json.mkObj [("outs", Json.arr (r.2.map listOutJ).toArray), ("final", sessStateJ r.1.base),
    ("listed", Json.bool r.1.pricer.isSome), ("cost", putS r.1.cost)])

end

/-- {"op":"listing", ... as op "session" (Rat carrier, the five option kinds) ..., "ops":[session op | listing op,..]}
→ {"outs":[..],"final":{..},"listed":b,"cost":s} -/
def opListing (j : Json) : R Json := do
  let kind ← getStr (← field j "kind")
  listRun (α := Rat) (optPath (← sessOptKindOf kind)) j

end PfVerif.Driver
