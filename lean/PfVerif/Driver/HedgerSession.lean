/-
  Driver op "hedger_session": a history of operations on ONE hedger with several derivatives
  (Model/HedgerSession.lean: `step` / the state after every operation), executed at `Float`
  (`fit`'s gradients at `Dual Float`, inside `FitNum.gradOf`).  Everything executed is the
  scalar-generic model the theorems of Lemmas/C16Session.lean are stated about; this file only decodes
  JSON (decoders of Driver/Hedge.lean, Driver/GradH.lean, Driver/FitNum.lean, Driver/HedgerPrice.lean).
-/
import PfVerif.Driver.Json
import PfVerif.Driver.Hedge
import PfVerif.Driver.HedgerPL
import PfVerif.Driver.GradH
import PfVerif.Driver.FitNum
import PfVerif.Driver.HedgerPrice
import PfVerif.Model.HedgerSession
namespace PfVerif.Driver
open Lean
open PfVerif.HedgerSession

/-- {"spot":[[bits]],"variance":[[bits]],"volatility":[[bits]]} (rows = paths) -/
def seriesF (j : Json) : R (Series Float) := do
  pure ⟨← getL2 (← field j "spot"), ← getL2 (← field j "variance"), ← getL2 (← field j "volatility")⟩

/-- one draw of `derivative.simulate()`: the new series of every underlier of the derivative -/
def drawF (j : Json) : R (List (Series Float)) := do (← getArr j).mapM seriesF

/-- null | [["primary",u] | ["listed",l] ..] -/
def hedgeArgOf (j : Json) : R HedgeArg := do
  if j.isNull then pure .default else
    let is ← (← getArr j).mapM (fun r => do
      match ← getArr r with
      | [k, n] =>
        match ← getStr k with
        | "primary" => pure (InstrRef.primary (← getNat n))
        | "listed" => pure (InstrRef.listed (← getNat n))
        | s => throw s!"instrument {s}"
      | _ => throw "instrument")
    pure (.explicit is)

/-- the criterion: `forward` as Driver/GradH.lean decodes it, `cash` the one of
Model/HedgerPrice.lean for the same criterion (a criterion without a modelled `cash` cannot be priced
with: the harness sends no `price` for it) -/
def cashOf (c : CritH Float) : List Float → Except Err Float :=
  match c with
  | .erm a => (Criterion.entropicRiskMeasure a).cash
  | .es k => (Criterion.expectedShortfall k).cash
  | .eloss a => (Criterion.entropicLoss a).cash
  | _ => fun _ => .error .typeError

def worldF (j : Json) : R (World Float) := do
  let uls ← (← getArr (← field j "underliers")).mapM (fun u => do
    pure (⟨← seriesF (← field u "series"), ← getS (← field u "dt"), ← getS (← field u "cost")⟩ :
      Underlier Float))
  let derivs ← (← getArr (← field j "derivs")).mapM (fun d => do
    pure (⟨← getNats (← field d "uls"), ← payoffSpecF (← field d "payoff"),
      ← regOf clauseF (← field d "adds")⟩ : Deriv Float))
  let listed ← (← getArr (← field j "listed")).mapM (fun l => do
    pure (⟨← getNat (← field l "ul"), ← getS (← field l "a"), ← getS (← field l "b"),
      ← getS (← field l "cost")⟩ : Listed Float))
  pure ⟨uls, derivs, listed⟩

/-- ["simulate",u,series] | ["compute_hedge",d,H] | ["compute_portfolio",d,H] | ["compute_pl",d,H]
  | ["compute_loss",d,H,[draw..]] | ["price",d,H,[draw..]]
  | ["fit",d,H,opt,inst,[{"train":draw,"val":null|[draw..]}..]] -/
def sessionOpF (j : Json) : R (Op Float) := do
  match ← getArr j with
  | [k, a, b] =>
    match ← getStr k with
    | "simulate" => pure (.simulate (← getNat a) (← seriesF b))
    | "compute_hedge" => pure (.computeHedge (← getNat a) (← hedgeArgOf b))
    | "compute_portfolio" => pure (.computePortfolio (← getNat a) (← hedgeArgOf b))
    | "compute_pl" => pure (.computePl (← getNat a) (← hedgeArgOf b))
    | s => throw s!"session op {s}"
  | [k, a, b, c] =>
    let draws ← (← getArr c).mapM drawF
    match ← getStr k with
    | "compute_loss" => pure (.computeLoss (← getNat a) (← hedgeArgOf b) draws)
    | "price" => pure (.price (← getNat a) (← hedgeArgOf b) draws)
    | s => throw s!"session op {s}"
  | [k, a, b, o, inst, es] =>
    if (← getStr k) != "fit" then throw "session op" else
    let epochs ← (← getArr es).mapM (fun ej => do
      let vj := fieldD ej "val"
      let val ← if vj.isNull then pure none else do pure (some (← (← getArr vj).mapM drawF))
      pure (⟨← drawF (← field ej "train"), val⟩ : Epoch Float))
    pure (.fit (← getNat a) (← hedgeArgOf b) (← optSpecF o) (← getBool inst) epochs)
  | _ => throw "session op"

def outJ : Out Float → Json
  | .none => Json.null
  | .invalid => Json.mkObj [("invalid", Json.bool true)]
  | .hedge v => Json.mkObj [("hedge", exceptJ putL3 v)]
  | .vec v => Json.mkObj [("vec", exceptJ putL1 v)]
  | .scalar v => Json.mkObj [("scalar", exceptJ putS v)]
  | .fitted v => Json.mkObj [("fit", exceptJ (fun out => Json.mkObj [
      ("final", putL1 out.final.θ), ("params", putL2 out.params), ("train", putL1 out.trainLosses),
      ("val", Json.arr (out.epochs.map (fun e => match e.valLoss with
        | some x => putS x
        | none => Json.null)).toArray),
      ("steps", Json.num out.steps)]) v)]

/-- {"op":"hedger_session","features":[base specs],"layers":[{"w","b"}..],"crit":spec,
     "world":{"underliers":[{"series","dt","cost"}..],"derivs":[{"uls","payoff","adds"}..],
              "listed":[{"ul","a","b","cost"}..]},
     "ops":[op..]}
   → {"steps":[{"out":…,"prev":[[bits]],"theta":[bits]}..]}: the answer of every operation, the
   `prev_output` buffer (one row per path) and the parameters after it -/
def opHedgerSession (j : Json) : R Json := do
  let fs ← (← getArr (← field j "features")).mapM baseFeatureOf
  let layers : FitNum.Layers Float ← (← getArr (← field j "layers")).mapM (fun l => do
    let w : List (List Float) ← getL2 (← field l "w")
    let b : List Float ← getL1 (← field l "b")
    pure (w, b))
  let crit ← critHOf (← field j "crit")
  let cfg : Hedger Float := ⟨FitNum.shapeOf layers, fs, crit, cashOf crit⟩
  let w ← worldF (← field j "world")
  let ops ← (← getArr (← field j "ops")).mapM sessionOpF
  let θ0 := FitNum.flatParams layers
  let mut s : State Float := fresh w θ0 (FitNum.OptState.init θ0.length)
  let mut outs : Array Json := #[]
  for op in ops do
    let r := step cfg s op
    s := r.1
    outs := outs.push (Json.mkObj [("out", outJ r.2), ("prev", putL2 s.prev), ("theta", putL1 s.θ)])
  pure (Json.mkObj [("steps", Json.arr outs)])

end PfVerif.Driver
