import PfVerif.Driver.Json
import PfVerif.Model.Session
import PfVerif.Inst.Float
namespace PfVerif.Driver
open Lean PfVerif.Session

section
variable {α : Type} [Wire α]

/-- clause descriptors: ["affine",a,b] | ["cap",c] | ["floor",c] | ["knock_out",b] -/
def sessClause (j : Json) : R (Clause α) := do
  match ← getArr j with
  | [k, a, b] =>
    if (← getStr k) == "affine" then pure (.affine (← getS a) (← getS b)) else throw "session clause"
  | [k, c] =>
    let k ← getStr k
    if k == "cap" then pure (.cap (← getS c))
    else if k == "floor" then pure (.floor (← getS c))
    else if k == "knock_out" then pure (.knockOut (← getS c))
    else throw "session clause"
  | _ => throw "session clause"

/-- ["strike",k] | ["call",b] | ["toggle"] | ["start",i] | ["cell",i,j,v] | ["reregister",[[..]]] |
["clause",name,descr] | ["query"] -/
def sessOp (j : Json) : R (Op α) := do
  match ← getArr j with
  | [k] =>
    let k ← getStr k
    if k == "toggle" then pure .toggleCall
    else if k == "query" then pure .query
    else throw s!"session op {k}"
  | [k, a] =>
    let k ← getStr k
    if k == "strike" then pure (.setStrike (← getS a))
    else if k == "call" then pure (.setCall (← getBool a))
    else if k == "start" then pure (.setStart (← a.getInt?))
    else if k == "reregister" then pure (.reregister (← getL2 a))
    else throw s!"session op {k}"
  | [k, n, d] =>
    if (← getStr k) == "clause" then pure (.addClause (← getStr n) (← sessClause d))
    else throw "session op"
  | [k, i, j', v] =>
    if (← getStr k) == "cell" then pure (.setCell (← i.getInt?) (← j'.getInt?) (← getS v))
    else throw "session op"
  | _ => throw "session op"

def sessOutJ : Out α → Json
  | .none => Json.null
  | .payoff v => okJ (putL1 v)
  | .error e => errJ e

def sessStateJ (s : State α) : Json :=
  Json.mkObj [("strike", putS s.terms.strike), ("call", Json.bool s.terms.call),
    ("start", Json.num (JsonNumber.fromInt s.terms.start)), ("spot", putL2 s.spot),
    ("names", Json.arr (s.clauses.map (fun p => Json.str p.1)).toArray)]

def sessRun (pp : Terms α → List α → Except Err α) [Add α] [Sub α] [Mul α] [Div α] [Neg α]
    [OfNat α 0] [OfNat α 1] [LE α] [DecidableLE α] [Max α] [Min α] (j : Json) : R Json := do
  let s0 : State α := {
    terms := { strike := ← getS (← field j "strike"), call := ← getBool (← field j "call"),
               start := ← (← field j "start").getInt?, dt := ← getS (← field j "dt") },
    spot := ← getL2 (← field j "spot"),
    clauses := [],
    attrs := ← (← getArr (← field j "attrs")).mapM getStr }
  let ops ← (← getArr (← field j "ops")).mapM sessOp
  let r := run pp s0 ops
  pure (Json.mkObj [("outs", Json.arr (r.2.map sessOutJ).toArray), ("final", sessStateJ r.1)])

end

def sessOptKindOf (s : String) : R OptKind :=
  match s with
  | "european" => pure .european
  | "lookback" => pure .lookback
  | "american_binary" => pure .americanBinary
  | "european_binary" => pure .europeanBinary
  | "forward_start" => pure .forwardStart
  | _ => throw s!"session kind {s}"

/-- {"op":"session","carrier":"rat"|"float","kind":..,"strike":s,"call":b,"start":i,"dt":s,
"spot":[[..]],"attrs":[..],"ops":[..]} → {"outs":[null|{"ok":[..]}|{"err":..}],"final":{..}}.
Rat carrier: the five option kinds, exact.  Float carrier: all six (the variance swap needs log). -/
def opSession (j : Json) : R Json := do
  let kind ← getStr (← field j "kind")
  match ← getStr (← field j "carrier") with
  | "rat" => sessRun (α := Rat) (optPath (← sessOptKindOf kind)) j
  | "float" =>
    let k : Kind ← if kind == "variance_swap" then pure .varianceSwap else do pure (.opt (← sessOptKindOf kind))
    sessRun (α := Float) (kindPath k) j
  | c => throw s!"session carrier {c}"

end PfVerif.Driver
