import PfVerif.Driver.Json
import PfVerif.Driver.Session
import PfVerif.Model.MultiSession
import PfVerif.Inst.Float
namespace PfVerif.Driver
open Lean PfVerif.Session PfVerif.MultiSession

/-- ["id",k] | ["name",n] | ["pos",i] -/
def msRef (j : Json) : R Ref := do
  match ← getArr j with
  | [k, a] =>
    let k ← getStr k
    if k == "id" then pure (.id (← getNat a))
    else if k == "name" then pure (.name (← getStr a))
    else if k == "pos" then pure (.pos (← a.getInt?))
    else throw s!"multi_session ref {k}"
  | _ => throw "multi_session ref"

section
variable {α : Type} [Wire α]

/-- ["strike",k] | ["call",b] | ["toggle"] | ["start",i] | ["weight",w] | ["cell",ref,i,j,v] |
["swap_buffer",ref,[[..]]] | ["register",name,id] | ["assign",name,id] | ["clause",name,descr] |
["query"] | ["names"] | ["ul",i] | ["get",name] -/
def msOp (j : Json) : R (MultiSession.Op α) := do
  match ← getArr j with
  | [k] =>
    let k ← getStr k
    if k == "toggle" then pure .toggleCall
    else if k == "query" then pure .query
    else if k == "names" then pure .names
    else throw s!"multi_session op {k}"
  | [k, a] =>
    let k ← getStr k
    if k == "strike" then pure (.setStrike (← getS a))
    else if k == "call" then pure (.setCall (← getBool a))
    else if k == "start" then pure (.setStart (← a.getInt?))
    else if k == "weight" then pure (.addWeight (← getS a))
    else if k == "ul" then pure (.ul (← a.getInt?))
    else if k == "get" then pure (.get (← getStr a))
    else throw s!"multi_session op {k}"
  | [k, a, b] =>
    let k ← getStr k
    if k == "clause" then pure (.addClause (← getStr a) (← sessClause b))
    else if k == "register" then pure (.register (← getStr a) (← getNat b))
    else if k == "assign" then pure (.assign (← getStr a) (← getNat b))
    else if k == "swap_buffer" then pure (.swapBuffer (← msRef a) (← getL2 b))
    else throw s!"multi_session op {k}"
  | [k, r, i, j', v] =>
    if (← getStr k) == "cell" then pure (.setCell (← msRef r) (← i.getInt?) (← j'.getInt?) (← getS v))
    else throw "multi_session op"
  | _ => throw "multi_session op"

def msFaultJ : Fault → Json
  | .err e => errJ e
  | .attributeError => Json.mkObj [("err", Json.str "attribute_error")]

def msRegJ (l : List (String × Nat)) : Json :=
  Json.arr (l.map (fun p => Json.arr #[Json.str p.1, Json.num (JsonNumber.fromNat p.2)])).toArray

def msOutJ : MultiSession.Out α → Json
  | .none => Json.null
  | .payoff v => okJ (putL1 v)
  | .error e => msFaultJ e
  | .listing l => Json.mkObj [("names", msRegJ l)]
  | .inst id => Json.mkObj [("inst", Json.num (JsonNumber.fromNat id))]

/-- [[id, [[..]] | null], ..] → the world -/
def msWorld (j : Json) : R (Nat → Option (List (List α))) := do
  let mut w : Nat → Option (List (List α)) := fun _ => none
  for e in ← getArr j do
    match ← getArr e with
    | [i, b] =>
      let id ← getNat i
      if b.isNull then pure ()
      else
        let buf : List (List α) ← getL2 b
        w := setW w id buf
    | _ => throw "multi_session world"
  pure w

def msStateJ (s : MultiSession.State α) (show_ : List Nat) : Json :=
  Json.mkObj [("strike", putS s.terms.strike), ("call", Json.bool s.terms.call),
    ("start", Json.num (JsonNumber.fromInt s.terms.start)), ("weights", putL1 s.weights),
    ("reg", msRegJ s.reg),
    ("clauses", Json.arr (s.clauses.map (fun p => Json.str p.1)).toArray),
    ("spot", Json.arr (show_.map (fun id => Json.arr #[Json.num (JsonNumber.fromNat id),
      match s.world id with
      | some b => putL2 b
      | none => Json.null])).toArray)]

def msRun (pp : Terms α → List α → Except Err α) (c : Contract) [Add α] [Sub α] [Mul α] [Div α] [Neg α]
    [OfNat α 0] [OfNat α 1] [LE α] [DecidableLE α] [Max α] [Min α] (j : Json) : R Json := do
  let regJ ← getArr (← field j "reg")
  let reg ← regJ.mapM (fun e => do
    match ← getArr e with
    | [n, i] => pure ((← getStr n), (← getNat i))
    | _ => throw "multi_session reg")
  let s0 : MultiSession.State α := {
    terms := { strike := ← getS (← field j "strike"), call := ← getBool (← field j "call"),
               start := ← (← field j "start").getInt?, dt := ← getS (← field j "dt") },
    weights := ← getL1 (← field j "weights"),
    reg := reg,
    world := ← msWorld (← field j "world"),
    clauses := [],
    attrs := ← (← getArr (← field j "attrs")).mapM getStr }
  let ops ← (← getArr (← field j "ops")).mapM msOp
  let show_ ← getNats (← field j "show")
  let r := MultiSession.run pp c s0 ops
  pure (Json.mkObj [("outs", Json.arr (r.2.map msOutJ).toArray), ("final", msStateJ r.1 show_)])

end

/-- the contract and, for the built-in products, the per-path payoff -/
def msContract (j : Json) : R (Contract × Option String) := do
  let c ← getStr (← field j "contract")
  match c with
  | "spread_position" => pure (.spreadPos, none)
  | "spread_name" => pure (.spreadName (← getStr (← field j "first")) (← getStr (← field j "second")), none)
  | "basket" => pure (.basket, none)
  | k => pure (.ul0, some k)

/-- {"op":"multi_session","carrier":"rat"|"float","contract":<built-in kind>|"spread_position"|"spread_name"|"basket",
("first","second": names of a spread_name,) "strike":s,"call":b,"start":i,"dt":s,"weights":[..],
"world":[[id,[[..]]|null],..],"reg":[[name,id],..],"attrs":[..],"ops":[..],"show":[ids]}
→ {"outs":[null|{"ok":[..]}|{"err":..}|{"names":[[name,id],..]}|{"inst":id}],"final":{..}}.
Rat carrier: exact (the five option kinds and the user contracts).  Float carrier: all (the variance swap needs log). -/
def opMultiSession (j : Json) : R Json := do
  let (c, kind) ← msContract j
  match ← getStr (← field j "carrier") with
  | "rat" =>
    match kind with
    | some k => msRun (α := Rat) (optPath (← sessOptKindOf k)) c j
    | none => msRun (α := Rat) (optPath .european) c j        -- the per-path function is not read by the user contracts
  | "float" =>
    match kind with
    | some k =>
      let kd : Kind ← if k == "variance_swap" then pure .varianceSwap else do pure (.opt (← sessOptKindOf k))
      msRun (α := Float) (kindPath kd) c j
    | none => msRun (α := Float) (optPath .european) c j
  | cr => throw s!"multi_session carrier {cr}"

end PfVerif.Driver
