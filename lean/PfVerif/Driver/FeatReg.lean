import PfVerif.Driver.Json
import PfVerif.Model.FeatReg
namespace PfVerif.Driver
open Lean

def baseFeatJ : BaseFeature Float → Json
  | .moneyness l => Json.arr #[Json.str "moneyness", Json.bool l]
  | .maxMoneyness l => Json.arr #[Json.str "max_moneyness", Json.bool l]
  | .timeToMaturity => Json.arr #[Json.str "time_to_maturity", Json.bool false]
  | .volatility => Json.arr #[Json.str "volatility", Json.bool false]
  | .variance => Json.arr #[Json.str "variance", Json.bool false]
  | .spot l => Json.arr #[Json.str "spot", Json.bool l]
  | .underlierSpot l => Json.arr #[Json.str "underlier_spot", Json.bool l]
  | .barrier _ u => Json.arr #[Json.str "barrier", Json.bool u]
  | .zeros => Json.arr #[Json.str "zeros", Json.bool false]
  | .ones => Json.arr #[Json.str "ones", Json.bool false]
  | .empty => Json.arr #[Json.str "empty", Json.bool false]
  | .prevHedge => Json.arr #[Json.str "prev_hedge", Json.bool false]

def optLog (j : Json) : R (Option Bool) :=
  match fieldD j "log" with
  | Json.null => pure none
  | v => do pure (some (← getBool v))

/-- what a constructed / handed-in feature looks like from outside: [kind tag, log flag], `str(feature)`,
`is_state_dependent()`; `null` for an instance of a user class (outside the model) -/
def featOutJ : Option (BaseFeature Float) → Json
  | none => Json.null
  | some f => Json.mkObj [("feature", baseFeatJ f), ("name", Json.str f.name), ("state_dependent", Json.bool f.stateDependent)]

/-- {"op":"feat_reg","history":[[name, class name],..]    (user `register_feature` calls on top of the library's own, oldest first)
     "queries":[{"q":"get_class","name":n} | {"q":"get_feature","name":n,"log":null|b}
               | {"q":"get_feature_instance","kind":builtin name,"log":null|b,"kw":null|b}   (an instance built from that class; `kw` = log kwarg handed to get_feature)
               | {"q":"get_feature_other"},..]}
  → {"names":[..], "list_names":[..], "named":[[name, class name],..], "answers":[{"ok":..}|{"err":kind},..]} -/
def opFeatReg (j : Json) : R Json := do
  let hist ← (← getArr (← field j "history")).mapM (fun e => do
    match ← getArr e with
    | [n, c] => pure (← getStr n, ← getStr c)
    | _ => throw "feat_reg: history entry")
  let reg := featReg hist
  let qs ← getArr (← field j "queries")
  let outs ← qs.mapM (fun q => do
    match ← getStr (← field q "q") with
    | "get_class" => pure (exceptJ Json.str (featClass reg (← getStr (← field q "name"))))
    | "get_feature" =>
      pure (exceptJ featOutJ (getFeature (α := Float) reg (.str (← getStr (← field q "name")) (← optLog q))))
    | "get_feature_instance" => do
      let kw ← match fieldD q "kw" with
        | Json.null => pure none
        | v => do pure (some (← getBool v))
      match featInstance (α := Float) builtinReg (← getStr (← field q "kind")) (← optLog q) with
      | .ok (some f) => pure (exceptJ featOutJ (getFeature reg (.instance f kw)))
      | _ => throw "feat_reg: cannot build the instance"
    | "get_feature_other" => pure (exceptJ featOutJ (getFeature (α := Float) reg .other))
    | s => throw s!"feat_reg: query {s}")
  pure (Json.mkObj [
    ("names", Json.arr (reg.names.map Json.str).toArray),
    ("list_names", Json.arr ((listFeatureNames reg).map Json.str).toArray),
    ("named", Json.arr (reg.namedModules.map (fun nv => Json.arr #[Json.str nv.1, Json.str nv.2])).toArray),
    ("answers", Json.arr outs.toArray)])

end PfVerif.Driver
