/-
  Driver op "bisect_fp": the generic bisection (Model/BisectG.lean) run with IEEE arithmetic on the
  bracket — binary64 (`Float`) or binary32 (`Float32`) midpoint `(l + u) / 2` and width `u - l` —
  on the affine family  f_i(x) = a_i (x - c_i)  evaluated in the dtype of the targets.

  float32 values travel as the bit pattern of the (exactly) equal double; the conversion
  double → float32 → double is the identity on them, so comparing the patterns is comparing bits.
  `precision` always arrives as the double the caller passed; on a float32 bracket torch compares
  `torch.max(upper - lower) > precision` in float32 (the Python scalar is cast), which is
  `Float.toFloat32` (round to nearest even) here.
-/
import PfVerif.Driver.Json
import PfVerif.Model.BisectG
namespace PfVerif.Driver
open Lean

/-- a float32 on the wire is the double with the same value -/
instance : Wire Float32 :=
  ⟨fun s => do pure (← parseFloatBits s).toFloat32, fun x => showFloatBits x.toFloat⟩

/-- `A * (x - C)` element-wise, in the carrier `β` of `A`, `C` (the input is promoted by `up`) -/
def affineAC {α β : Type} [Sub β] [Mul β] (up : α → β) (a c : List β) :
    List α → List β :=
  fun xs => List.zipWith (fun x ac => match ac with
    | (ai, ci) => ai * (up x - ci)) xs (List.zip a c)

/-- {"op":"bisect_fp","bracket":"float32|float64","value":"float32|float64","a":[..],"c":[..],
     "target":[..],"lower":[..],"upper":[..],"precision":bits,"max_iter":n}
    → {"ok":[bits..]} | {"err":kind} -/
def opBisectFp (j : Json) : R Json := do
  let bdt ← getStr (← field j "bracket")
  let vdt ← getStr (← field j "value")
  let maxIter ← getNat (← field j "max_iter")
  let prec : Float ← getS (← field j "precision")
  match bdt, vdt with
  | "float64", "float64" => do
    let a : List Float ← getL1 (← field j "a")
    let c : List Float ← getL1 (← field j "c")
    let t : List Float ← getL1 (← field j "target")
    let lo : List Float ← getL1 (← field j "lower")
    let hi : List Float ← getL1 (← field j "upper")
    pure (exceptJ putL1
      (bisectG (fun l u => (l + u) / 2) (fun u l => u - l) (affineAC id a c) t lo hi prec maxIter))
  | "float32", "float32" => do
    let a : List Float32 ← getL1 (← field j "a")
    let c : List Float32 ← getL1 (← field j "c")
    let t : List Float32 ← getL1 (← field j "target")
    let lo : List Float32 ← getL1 (← field j "lower")
    let hi : List Float32 ← getL1 (← field j "upper")
    pure (exceptJ putL1
      (bisectG (fun l u => (l + u) / 2) (fun u l => u - l) (affineAC id a c) t lo hi
        prec.toFloat32 maxIter))
  | "float32", "float64" => do
    -- Python-float bracket (float32 tensor) under float64 targets: `x - C` promotes to float64
    let a : List Float ← getL1 (← field j "a")
    let c : List Float ← getL1 (← field j "c")
    let t : List Float ← getL1 (← field j "target")
    let lo : List Float32 ← getL1 (← field j "lower")
    let hi : List Float32 ← getL1 (← field j "upper")
    pure (exceptJ putL1
      (bisectG (fun l u => (l + u) / 2) (fun u l => u - l) (affineAC Float32.toFloat a c) t lo hi
        prec.toFloat32 maxIter))
  | _, _ => throw s!"bisect_fp: unsupported dtypes {bdt}/{vdt}"

end PfVerif.Driver
