import PfVerif.Driver.Json
import PfVerif.Model.Clamp
import PfVerif.Model.Bisect
import PfVerif.Inst.Float
namespace PfVerif.Driver
open Lean

def modeOf (s : String) : InvMode :=
  if s == "mean" then .mean else if s == "max" then .max else .other

def optS {α} [Wire α] (j : Json) : R (Option α) := optional j getS

/-- {"op":"clamp","fn":"leaky|clamp|leaky_mod|clamp_mod","slope":q,"mode":s,"elems":[[x,lo|null,hi|null],..]} -/
def opClamp (j : Json) : R Json := do
  let fnk ← getStr (← field j "fn")
  let slope : Rat ← getS (← field j "slope")
  let mode := modeOf (← getStr (← field j "mode"))
  let elems ← getArr (← field j "elems")
  let mut outs : List (Except Err Rat) := []
  for e in elems do
    match ← getArr e with
    | [x, lo, hi] =>
      let x : Rat ← getS x
      let lo : Option Rat ← optS lo
      let hi : Option Rat ← optS hi
      let r ← match fnk with
        | "leaky" => pure (leakyClamp x lo hi slope mode)
        | "clamp" => pure (clampF x lo hi mode)
        | "leaky_mod" => pure (leakyClampModule slope mode x lo hi)
        | "clamp_mod" => pure (clampModule x lo hi)
        | _ => throw "clamp fn"
      outs := outs ++ [r]
    | _ => throw "elems"
  -- torch raises for the whole tensor: first error wins
  let r : Except Err (List Rat) := outs.foldr (fun x acc => do let a ← x; let as ← acc; pure (a :: as)) (.ok [])
  pure (exceptJ putL1 r)

/-- {"op":"ww","elems":[[prev,delta,width],..]} exact band logic -/
def opWw (j : Json) : R Json := do
  let elems : List (List Rat) ← getL2 (← field j "elems")
  let outs ← elems.mapM (fun e => match e with
    | [p, d, w] => pure (wwForward p d w)
    | _ => throw "ww elems")
  pure (okJ (putL1 outs))

/-- {"op":"ww_width","elems":[[gamma,spot,cost,a],..]} Float -/
def opWwWidth (j : Json) : R Json := do
  let elems : List (List Float) ← getL2 (← field j "elems")
  let outs ← elems.mapM (fun e => match e with
    | [g, s, c, a] => pure (wwWidth g s c a)
    | _ => throw "ww_width elems")
  pure (okJ (putL1 outs))

/-- {"op":"svi","elems":[[k,a,b,rho,m,sigma],..]} Float -/
def opSvi (j : Json) : R Json := do
  let elems : List (List Float) ← getL2 (← field j "elems")
  let outs ← elems.mapM (fun e => match e with
    | [k, a, b, rho, m, s] => pure (sviVariance k a b rho m s)
    | _ => throw "svi elems")
  pure (okJ (putL1 outs))

/-- {"op":"bilerp","elems":[[a,b,c,d,w1,w2],..]} Rat -/
def opBilerp (j : Json) : R Json := do
  let elems : List (List Rat) ← getL2 (← field j "elems")
  let outs ← elems.mapM (fun e => match e with
    | [a, b, c, d, w1, w2] => pure (bilerp a b c d w1 w2)
    | _ => throw "bilerp elems")
  pure (okJ (putL1 outs))

/-- {"op":"box_muller","eps":bits,"elems":[[u1,u2],..]} Float -/
def opBoxMuller (j : Json) : R Json := do
  let eps : Float ← getS (← field j "eps")
  let elems : List (List Float) ← getL2 (← field j "elems")
  let outs ← elems.mapM (fun e => match e with
    | [u1, u2] => let (a, b) := boxMuller twoPiF eps u1 u2; pure [a, b]
    | _ => throw "bm elems")
  pure (okJ (putL2 outs))

/-! ### bisect -/

/-- function families, element-wise with per-element coefficient rows:
  "affine" [a,b]: a x + b;  "cubic" [a,b,c]: a x³ + b x + c;  "square" [a,b]: a x² + b -/
def fnRat (kind : String) (coef : List (List Rat)) : R (List Rat → List Rat) :=
  match kind with
  | "affine" => pure (fun xs => List.zipWith (fun x c => match c with
      | [a, b] => a * x + b
      | _ => 0) xs coef)
  | "cubic" => pure (fun xs => List.zipWith (fun x c => match c with
      | [a, b, c0] => a * x * x * x + b * x + c0
      | _ => 0) xs coef)
  | "square" => pure (fun xs => List.zipWith (fun x c => match c with
      | [a, b] => a * x * x + b
      | _ => 0) xs coef)
  | _ => throw "fn kind"

/-- "exp" [a,b]: b·exp(a x);  "logistic" [a,b]: 1/(1+exp(-(a x + b)));  plus the Rat families -/
def fnFloat (kind : String) (coef : List (List Float)) : R (List Float → List Float) :=
  match kind with
  | "affine" => pure (fun xs => List.zipWith (fun x c => match c with
      | [a, b] => a * x + b
      | _ => 0) xs coef)
  | "cubic" => pure (fun xs => List.zipWith (fun x c => match c with
      | [a, b, c0] => a * x * x * x + b * x + c0
      | _ => 0) xs coef)
  | "exp" => pure (fun xs => List.zipWith (fun x c => match c with
      | [a, b] => b * Float.exp (a * x)
      | _ => 0) xs coef)
  | "logistic" => pure (fun xs => List.zipWith (fun x c => match c with
      | [a, b] => 1.0 / (1.0 + Float.exp (-(a * x + b)))
      | _ => 0) xs coef)
  | _ => throw "fn kind"

/-- {"op":"bisect","carrier":"rat|float","fn":kind,"coef":[[..]],"target":[..],"lower":[..],"upper":[..],
     "precision":q,"max_iter":n} -/
def opBisect (j : Json) : R Json := do
  let carrier ← getStr (← field j "carrier")
  let kind ← getStr (← field j "fn")
  let maxIter ← getNat (← field j "max_iter")
  if carrier == "rat" then do
    let coef : List (List Rat) ← getL2 (← field j "coef")
    let fn ← fnRat kind coef
    let t : List Rat ← getL1 (← field j "target")
    let lo : List Rat ← getL1 (← field j "lower")
    let hi : List Rat ← getL1 (← field j "upper")
    let prec : Rat ← getS (← field j "precision")
    pure (exceptJ putL1 (bisect fn t lo hi prec maxIter))
  else do
    let coef : List (List Float) ← getL2 (← field j "coef")
    let fn ← fnFloat kind coef
    let t : List Float ← getL1 (← field j "target")
    let lo : List Float ← getL1 (← field j "lower")
    let hi : List Float ← getL1 (← field j "upper")
    let prec : Float ← getS (← field j "precision")
    pure (exceptJ putL1 (bisect fn t lo hi prec maxIter))

end PfVerif.Driver
