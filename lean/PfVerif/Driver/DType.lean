import PfVerif.Driver.Json
import PfVerif.Model.DType
namespace PfVerif.Driver
open Lean

def dtypeOf (s : String) : R DType :=
  match s with
  | "f16" => pure .f16 | "bf16" => pure .bf16 | "f32" => pure .f32 | "f64" => pure .f64
  | "i32" => pure .i32 | "i64" => pure .i64 | "bool" => pure .bool
  | _ => throw s!"dtype {s}"

def dtypeStr : DType → String
  | .f16 => "f16" | .bf16 => "bf16" | .f32 => "f32" | .f64 => "f64"
  | .i32 => "i32" | .i64 => "i64" | .bool => "bool"

def optDtype (j : Json) : R (Option DType) := optional j (fun x => do dtypeOf (← getStr x))

def dopOf (j : Json) : R DOp := do
  match ← getArr j with
  | [k, a] =>
    match ← getStr k with
    | "to" => pure (.to (← optDtype a))
    | "to_tensor" => do pure (.toTensor (← dtypeOf (← getStr a)))
    | "to_inst" => pure (.toInstrument (← optDtype a))
    | "simulate" => do pure (.simulate (← (← getArr a).mapM getStr))
    | "default" => do pure (.setDefault (← dtypeOf (← getStr a)))
    | s => throw s!"dop {s}"
  | [k, n, d] =>
    if (← getStr k) == "register" then do pure (.registerBuffer (← getStr n) (← dtypeOf (← getStr d)))
    else throw "dop"
  | _ => throw "dop"

def stateJ (s : PrimState) : Json :=
  Json.mkObj [("declared", match s.declared with | some d => Json.str (dtypeStr d) | none => Json.null),
              ("buffers", Json.arr (s.buffers.map (fun p => Json.arr #[Json.str p.1, Json.str (dtypeStr p.2)])).toArray),
              ("result", match resultDType s with | some d => Json.str (dtypeStr d) | none => Json.null)]

/-- {"op":"dt_seq","init":dtype|null,"ambient":dtype,"ops":[..]} → state after construction and after each op -/
def opDtSeq (j : Json) : R Json := do
  let init ← optDtype (fieldD j "init")
  let amb ← dtypeOf (← getStr (← field j "ambient"))
  let ops ← (← getArr (← field j "ops")).mapM dopOf
  match initState init amb with
  | .error e => pure (Json.mkObj [("init", errJ e), ("steps", Json.arr #[])])
  | .ok s0 =>
    let mut s := s0
    let mut outs : Array Json := #[]
    for op in ops do
      match op.step s with
      | .ok s' => s := s'; outs := outs.push (okJ (stateJ s'))
      | .error e => outs := outs.push (errJ e)
    pure (Json.mkObj [("init", okJ (stateJ s0)), ("steps", Json.arr outs)])

end PfVerif.Driver
