import PfVerif.Driver.Json
import PfVerif.Driver.Acquire
import PfVerif.Model.WWModule
import PfVerif.Inst.Float
namespace PfVerif.Driver
open Lean

/-- {"op":"ww_module","kind":"european|european_binary|american_binary|lookback","call":b,
  "strike":bits,"cost":bits,"a":bits,"rows":[[bits,..],..],"what":"forward"|"width"|"bs"|"inputs"}
 → [{"ok":bits}|{"err":kind},..] : `WhalleyWilmott(derivative, a)(row)` row by row (Model/WWModule.lean
 `wwForwardRow`, carrier `Float`; the autograd-based deltas / gammas are the model's prices at `Dual Float`
 / `Dual (Dual Float)` inside the same definition).  "what" (default "forward"): "width" evaluates
 `WhalleyWilmott.width` and "bs" `BlackScholes(derivative)` on the rows (rows WITHOUT the previous hedge);
 "inputs" returns the names of `inputs()`. -/
def opWwModule (j : Json) : R Json := do
  let kind ← kindOf (← getStr (← field j "kind"))
  let what := (fieldD j "what").getStr?.toOption.getD "forward"
  if what == "inputs" then
    return Json.arr ((kind.wwInputs.map (fun nm => Json.str nm.toString)).toArray)
  let call ← getBool (← field j "call")
  let strike : Float ← getS (← field j "strike")
  let cost : Float ← getS (← field j "cost")
  let a : Float ← getS (← field j "a")
  let rows : List (List Float) ← getL2 (← field j "rows")
  let f : List Float → Except AcqErr Float ←
    match what with
    | "forward" => pure (wwForwardRow kind call strike cost a)
    | "width" => pure (wwWidthRow kind call strike cost a)
    | "bs" => pure (bsForwardRow kind call strike)
    | _ => throw s!"ww_module what {what}"
  pure (Json.arr ((rows.map (fun r => acqExceptJ putS (f r))).toArray))

end PfVerif.Driver
