import PfVerif.Driver.Json
import PfVerif.Model.Heap
namespace PfVerif.Driver
open Lean

/-- {"op":"heap"}: for every modelled public computation: accepted by the frame analysis? may its
result alias a storage that existed before the call? -/
def opHeap (_ : Json) : R Json :=
  pure (okJ (Json.arr (publicResults.map (fun (n, p, v) =>
    Json.mkObj [("name", Json.str n), ("safe", Json.bool (safe p)), ("result_fresh", Json.bool (resultFresh p v))])).toArray))

end PfVerif.Driver
