import PfVerif.Driver.Json
import PfVerif.Model.BS
import PfVerif.Model.Clamp
import PfVerif.Inst.Float
namespace PfVerif.Driver
open Lean

/-- evaluate one BS functional form at one point; args order: s, t, v, k, m -/
def bsEval (fn : String) (call : Bool) (a : List Float) : R (Except Err Float) :=
  match fn, a with
  | "d1", [s, t, v, _, _] => pure (bsD1 s t v)
  | "d2", [s, t, v, _, _] => pure (bsD2 s t v)
  | "european_price", [s, t, v, k, _] => pure (bsEuropeanPrice s t v k call)
  | "european_delta", [s, t, v, _, _] => pure (bsEuropeanDelta s t v call)
  | "european_gamma", [s, t, v, k, _] => pure (bsEuropeanGamma s t v k)
  | "european_vega", [s, t, v, k, _] => pure (bsEuropeanVega s t v k)
  | "european_theta", [s, t, v, k, _] => pure (bsEuropeanTheta s t v k)
  | "european_binary_price", [s, t, v, _, _] => pure (bsBinaryPrice s t v call)
  | "european_binary_delta", [s, t, v, k, _] => pure (bsBinaryDelta s t v k call)
  | "european_binary_gamma", [s, t, v, k, _] => pure (bsBinaryGamma s t v k call)
  | "european_binary_gamma_old", [s, t, v, k, _] => pure (bsBinaryGammaOld s t v k call)
  | "european_binary_vega", [s, t, v, k, _] => pure (bsBinaryVega s t v k call)
  | "european_binary_theta", [s, t, v, k, _] => pure (bsBinaryTheta s t v k call)
  | "american_binary_price", [s, t, v, _, m] => pure (bsAmericanBinaryPrice s m t v)
  | "american_binary_delta", [s, t, v, k, m] => pure (bsAmericanBinaryDelta s m t v k)
  | "american_binary_gamma", [s, t, v, k, m] => pure (bsAmericanBinaryGamma s m t v k)
  | "american_binary_vega", [s, t, v, k, m] => pure (bsAmericanBinaryVega s m t v k)
  | "american_binary_theta", [s, t, v, k, m] => pure (bsAmericanBinaryTheta s m t v k)
  | "lookback_price", [s, t, v, k, m] => pure (bsLookbackPrice s m t v k)
  | _, _ => throw s!"bs fn {fn}"

/-- {"op":"bs","fn":name,"call":b,"elems":[[s,t,v,k,m],..]} → [{"ok":bits}|{"err":kind},..] -/
def opBs (j : Json) : R Json := do
  let fn ← getStr (← field j "fn")
  let call ← getBool (← field j "call")
  let elems : List (List Float) ← getL2 (← field j "elems")
  let outs ← elems.mapM (bsEval fn call)
  pure (Json.arr (outs.map (exceptJ putS)).toArray)

/-- Whalley–Wilmott on a European option: {"op":"ww_full","cost":c,"a":a,"k":k,"call":b,
   "elems":[[s,t,v,prev],..]} → hedge -/
def opWwFull (j : Json) : R Json := do
  let cost : Float ← getS (← field j "cost")
  let a : Float ← getS (← field j "a")
  let k : Float ← getS (← field j "k")
  let call ← getBool (← field j "call")
  let elems : List (List Float) ← getL2 (← field j "elems")
  let outs ← elems.mapM (fun e => match e with
    | [s, t, v, prev] => pure (do
        let delta ← bsEuropeanDelta s t v call
        let gamma ← bsEuropeanGamma s t v k
        let width := wwWidth gamma (k * Float.exp s) cost a
        pure (wwForward prev delta width) : Except Err Float)
    | _ => throw "ww_full elems")
  pure (Json.arr (outs.map (exceptJ putS)).toArray)

end PfVerif.Driver
