/-
  `Dual β`: dual numbers `a + b ε` (ε² = 0) over a scalar carrier `β` — forward-mode
  differentiation.  The executable model is generic in the scalar, so instantiating it at
  `Dual β` computes a value together with its derivative along the seeded direction.
  Comparisons, `max`, `min`, `abs`, `relu` select by the primal part (the derivative of the
  selected branch: correct away from kinks/ties).  Core Lean only.
-/
import PfVerif.Model.Basic
namespace PfVerif

structure Dual (β : Type) where
  val : β
  eps : β
  deriving Repr

namespace Dual
variable {β : Type}

/-- a constant (no dependence on the differentiation variable) -/
def const [OfNat β 0] (x : β) : Dual β := ⟨x, 0⟩

/-- the differentiation variable itself -/
def var [OfNat β 1] (x : β) : Dual β := ⟨x, 1⟩

instance [Add β] : Add (Dual β) := ⟨fun a b => ⟨a.val + b.val, a.eps + b.eps⟩⟩
instance [Sub β] : Sub (Dual β) := ⟨fun a b => ⟨a.val - b.val, a.eps - b.eps⟩⟩
instance [Neg β] : Neg (Dual β) := ⟨fun a => ⟨-a.val, -a.eps⟩⟩
instance [Add β] [Mul β] : Mul (Dual β) := ⟨fun a b => ⟨a.val * b.val, a.eps * b.val + a.val * b.eps⟩⟩
instance [Sub β] [Mul β] [Div β] : Div (Dual β) :=
  ⟨fun a b => ⟨a.val / b.val, (a.eps * b.val - a.val * b.eps) / (b.val * b.val)⟩⟩
instance [OfNat β 0] [OfNat β n] : OfNat (Dual β) n := ⟨⟨OfNat.ofNat n, 0⟩⟩
instance [NatCast β] [OfNat β 0] : NatCast (Dual β) := ⟨fun n => ⟨(n : β), 0⟩⟩
instance [LE β] : LE (Dual β) := ⟨fun a b => a.val ≤ b.val⟩
instance [LT β] : LT (Dual β) := ⟨fun a b => a.val < b.val⟩
instance [LE β] [DecidableLE β] : DecidableLE (Dual β) := fun a b => inferInstanceAs (Decidable (a.val ≤ b.val))
instance [LT β] [DecidableLT β] : DecidableLT (Dual β) := fun a b => inferInstanceAs (Decidable (a.val < b.val))
/-- `max`/`min` select an argument by primal value (ties: the second, like `if a ≤ b then b else a`) -/
instance [LE β] [DecidableLE β] : Max (Dual β) := ⟨fun a b => if a.val ≤ b.val then b else a⟩
instance [LE β] [DecidableLE β] : Min (Dual β) := ⟨fun a b => if a.val ≤ b.val then a else b⟩

section
variable [Add β] [Sub β] [Mul β] [Div β] [Neg β] [OfNat β 0] [OfNat β 1] [OfNat β 2] [OfNat β 3] [Transc β]
open Transc

/-- chain rule for the transcendental functions; `ncdf' = npdf`, `npdf'(x) = -x npdf(x)`,
`cbrt'(x) = cbrt(x) / (3x)` -/
instance : Transc (Dual β) where
  exp a := ⟨exp a.val, a.eps * exp a.val⟩
  log a := ⟨log a.val, a.eps / a.val⟩
  sqrt a := ⟨sqrt a.val, a.eps / ((2 : β) * sqrt a.val)⟩
  ncdf a := ⟨ncdf a.val, a.eps * npdf a.val⟩
  npdf a := ⟨npdf a.val, -(a.eps * (a.val * npdf a.val))⟩
  cos a := ⟨cos a.val, -(a.eps * sin a.val)⟩
  sin a := ⟨sin a.val, a.eps * cos a.val⟩
  cbrt a := ⟨cbrt a.val, a.eps * (cbrt a.val / ((3 : β) * a.val))⟩
end

end Dual
end PfVerif
