/-
  `Float` carrier: IEEE double, same libm as CPython/torch for exp/log/sqrt/cos/sin/cbrt.
  `erf`/`erfc` are not in Lean's `Float`; implemented here (positive-term series for |x| < 3,
  continued fraction beyond).  Part of the trusted harness, not of any theorem.
-/
import PfVerif.Model.Basic
namespace PfVerif

def sqrtPi : Float := 1.7724538509055160272981674833411451827975494561223871282138
def sqrt2 : Float := 1.4142135623730950488016887242096980785696718753769480731766
def twoPiF : Float := 6.283185307179586476925286766559005768394338798750211641949

/-- erf(x) for 0 ≤ x < 3:  2/√π · e^{-x²} · Σ 2ⁿ x^{2n+1}/(2n+1)!!  (all terms positive) -/
def erfSeriesPos (x : Float) : Float := Id.run do
  let x2 := x * x
  let mut term := x
  let mut sum := x
  for n in [0:200] do
    term := term * 2.0 * x2 / (2.0 * n.toFloat + 3.0)
    sum := sum + term
    if term < 1e-18 * sum then break
  return 2.0 / sqrtPi * Float.exp (-x2) * sum

/-- erfc(x) for x ≥ 3 by the continued fraction  e^{-x²}/√π · 1/(x + (1/2)/(x + 1/(x + (3/2)/(x+…)))) -/
def erfcCFPos (x : Float) : Float := Id.run do
  let mut f := x
  for i in [0:150] do
    let k := (150 - i).toFloat
    f := x + (k / 2.0) / f
  return Float.exp (-(x * x)) / (sqrtPi * f)

def erfcF (x : Float) : Float :=
  if x.isNaN then x
  else if x ≥ 3.0 then erfcCFPos x
  else if x ≥ 0.0 then 1.0 - erfSeriesPos x
  else if x > -3.0 then 1.0 + erfSeriesPos (-x)
  else 2.0 - erfcCFPos (-x)

def erfF (x : Float) : Float :=
  if x.isNaN then x
  else if x ≥ 3.0 then 1.0 - erfcCFPos x
  else if x ≥ 0.0 then erfSeriesPos x
  else if x > -3.0 then -(erfSeriesPos (-x))
  else erfcCFPos (-x) - 1.0

/-- `Normal(0,1).cdf(x) = 0.5 * (1 + erf(x / √2))` (torch's formula) -/
def ncdfF (x : Float) : Float := 0.5 * (1.0 + erfF (x / sqrt2))

/-- `Normal(0,1).log_prob(x).exp()` -/
def npdfF (x : Float) : Float := Float.exp (-(x * x) / 2.0 - Float.log (Float.sqrt twoPiF))

instance : Transc Float where
  exp := Float.exp
  log := Float.log
  sqrt := Float.sqrt
  ncdf := ncdfF
  npdf := npdfF
  cos := Float.cos
  sin := Float.sin
  cbrt := Float.cbrt

instance : NatCast Float := ⟨Nat.toFloat⟩

end PfVerif
