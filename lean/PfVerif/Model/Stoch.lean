/-
  Model of the path generators (pfhedge/stochastic/*.py) for ONE path, as functions of their
  parameters AND of the random draws they consume (normals `z`, uniforms `u`, Poisson counts, jump
  sizes), written as the code is.  The law of the draws is outside the model (trusted base).
-/
import PfVerif.Model.Basic
import PfVerif.Model.Risk
namespace PfVerif

section
variable {α : Type} [Add α] [Sub α] [Mul α] [Div α] [Neg α] [OfNat α 0] [OfNat α 1] [OfNat α 2]
  [LE α] [DecidableLE α] [LT α] [DecidableLT α] [Max α] [Min α] [NatCast α] [Transc α]
open Transc

/-- `cumsum` -/
def cumsumL : List α → List α
  | [] => []
  | x :: xs => x :: go x xs
where
  go (acc : α) : List α → List α
    | [] => []
    | y :: ys => let a := acc + y; a :: go a ys

/-- `cumprod` -/
def cumprodL : List α → List α
  | [] => []
  | x :: xs => x :: go x xs
where
  go (acc : α) : List α → List α
    | [] => []
    | y :: ys => let a := acc * y; a :: go a ys

/-- `randn[:, 0] = 0.0` -/
def zeroFirst : List α → List α
  | [] => []
  | _ :: xs => 0 :: xs

/-- `arange(n)` as scalars -/
def arangeL (n : Nat) : List α := (List.range n).map (fun (i : Nat) => ((i : Nat) : α))

/-- `generate_brownian`: `drift + sigma * sqrt(dt) * cumsum(z with z₀ := 0) + init` -/
def brownian (init sigma mu dt : α) (z : List α) : List α :=
  let n := z.length
  let cs := cumsumL (zeroFirst z)
  List.zipWith (fun (i : α) c => mu * dt * i + sigma * (sqrt dt * c) + init) (arangeL n) cs

/-- `generate_geometric_brownian`: `init * exp(brownian(init = 0) - sigma² t / 2)` -/
def geometricBrownian (init sigma mu dt : α) (z : List α) : List α :=
  let n := z.length
  let b := brownian 0 sigma mu dt z
  List.zipWith (fun (i : α) x => init * exp (x - sigma * sigma * (dt * i) / 2)) (arangeL n) b

/-- `generate_vasicek` after the `fix:` commit: exact OU step around `theta`; `z` has `n` entries of
which the first `n - 1` are used -/
def vasicek (init kappa theta sigma dt : α) (z : List α) : List α :=
  let mu := exp (-kappa * dt)
  let vola := sigma * sqrt ((1 - mu * mu) / 2 / kappa)
  match z with
  | [] => []
  | _ :: _ => init :: go mu vola init (initL z)
where
  go (mu vola : α) (x : α) : List α → List α
    | [] => []
    | zi :: rest => let x' := theta + mu * (x - theta) + vola * zi; x' :: go mu vola x' rest

/-- one step of the Andersen QE scheme in `generate_cir` (both branches, `where` selection) -/
def cirStep (kappa theta sigma dt eps psiCrit : α) (v zi ui : α) : α :=
  let e := exp (-kappa * dt)
  let m := theta + (v - theta) * e
  let s2 := v * (sigma * sigma) * e * (1 - e) / kappa + theta * (sigma * sigma) * ((1 - e) * (1 - e)) / (2 * kappa)
  let psi := s2 / max (m * m) eps
  let b := sqrt ((2 / psi) - 1 + sqrt (2 / psi) * sqrt (2 / psi - 1))
  let a := m / (1 + b * b)
  let next0 := a * ((b + zi) * (b + zi))
  let p := (psi - 1) / (psi + 1)
  let beta := (1 - p) / max m eps
  let pinv := log ((1 - p) / max (1 - ui) eps) / beta
  let next1 := if p < ui then pinv else 0
  if psi ≤ psiCrit then next0 else next1

/-- `generate_cir`; `z`, `u` have `n` entries, the first `n - 1` are used -/
def cir (init kappa theta sigma dt eps psiCrit : α) (z u : List α) : List α :=
  match z with
  | [] => []
  | _ :: _ => init :: go init (List.zip (initL z) (initL u))
where
  go (v : α) : List (α × α) → List α
    | [] => []
    | (zi, ui) :: rest =>
      let v' := cirStep kappa theta sigma dt eps psiCrit v zi ui
      v' :: go v' rest

/-- `generate_heston`: log-spot recursion driven by the CIR variance (`zs`: normals of the spot) -/
def hestonSpot (s0 kappa theta sigma rho dt : α) (variance zs : List α) : List α :=
  let half : α := 1 / 2
  let k0 := -rho * kappa * theta * dt / sigma
  let k1 := half * dt * (kappa * rho / sigma - half) - rho / sigma
  let k2 := half * dt * (kappa * rho / sigma - half) + rho / sigma
  let k3 := half * dt * (1 - rho * rho)
  let k4 := half * dt * (1 - rho * rho)
  let pairs := List.zip (List.zip variance (tailL variance)) zs
  let rec go (ls : α) : List ((α × α) × α) → List α
    | [] => []
    | ((v0, v1), zi) :: rest =>
      let ls' := ls + k0 + k1 * v0 + k2 * v1 + sqrt (k3 * v0 + k4 * v1) * zi
      ls' :: go ls' rest
  match variance with
  | [] => []
  | _ :: _ => (log s0 :: go (log s0) pairs).map exp

/-- `generate_merton_jump`: `nj` Poisson counts and `zj` jump normals for steps 1..n-1, `z` n normals -/
def mertonJump (init mu sigma lam jm js dt : α) (nj zj z : List α) : List α :=
  let n := z.length
  let jump := (0 : α) :: List.zipWith (fun c zz => jm * c + zz * js * sqrt c) nj zj
  let driftRate := (mu - sigma * sigma / 2 - lam * (exp (jm + js * js / 2) - 1)) * dt
  let brown := (cumsumL (zeroFirst z)).map (fun c => c * sqrt dt)
  let cj := cumsumL jump
  List.zipWith (fun (i : α) bc => init * exp (driftRate * i + sigma * bc.1 + bc.2)) (arangeL n) (List.zip brown cj)

/-- `generate_kou_jump`, the product form used up to the fix: commit: the jump factor of a step is
the product of `exp` of its log-jumps, aggregated by `cumprod` and multiplied onto the diffusion
part.  `jumps[i]` = the log-jump sizes that count at step i+1 (already cut to the Poisson count and
signed) -/
def kouJumpProd (init sigma mu lam etaUp etaDown pUp dt : α) (jumps : List (List α)) (z : List α) : List α :=
  let n := z.length
  let returns := zeroFirst (z.map (fun zi => zi * sqrt dt * sigma))
  let expJump := (1 : α) :: jumps.map (fun js => js.foldl (fun acc j => acc * exp j) 1)
  let agg := cumprodL expJump
  let m := (1 - pUp) * (etaDown / (etaDown + 1)) + pUp * (etaUp / (etaUp - 1)) - 1
  let cr := cumsumL returns
  List.zipWith (fun (i : α) ca =>
    exp ((mu - lam * m) * (dt * i) + ca.1 - sigma * sigma * (dt * i) / 2) * init * ca.2) (arangeL n) (List.zip cr agg)

/-- `generate_kou_jump` (after the `fix:` commit: jumps accumulated in log space).  `jumps[i]` = the
log-jump sizes that count at step i+1 (already cut to the Poisson count and signed).
`log_jump_step = 0 :: (sum of the step's log-jumps)`, `log_jump_agg = cumsum(log_jump_step)`,
`prices = exp((mu - lam·m)·t + cumsum(returns) - sigma²·t/2 + log_jump_agg) * init` -/
def kouJump (init sigma mu lam etaUp etaDown pUp dt : α) (jumps : List (List α)) (z : List α) : List α :=
  let n := z.length
  let returns := zeroFirst (z.map (fun zi => zi * sqrt dt * sigma))
  let logJumpStep := (0 : α) :: jumps.map (fun js => js.foldl (fun acc j => acc + j) 0)
  let logJumpAgg := cumsumL logJumpStep
  let m := (1 - pUp) * (etaDown / (etaDown + 1)) + pUp * (etaUp / (etaUp - 1)) - 1
  let cr := cumsumL returns
  List.zipWith (fun (i : α) ca =>
    exp ((mu - lam * m) * (dt * i) + ca.1 - sigma * sigma * (dt * i) / 2 + ca.2) * init) (arangeL n) (List.zip cr logJumpAgg)

/-- `generate_local_volatility_process`: Euler step; returns (spot, volatility) -/
def localVol (sigmaFn : α → α → α) (init dt : α) (z : List α) : List α × List α :=
  let n := z.length
  let rec go (i : Nat) (s : α) : List α → List α × List α
    | [] => ([], [])
    | zi :: rest =>
      let sg := sigmaFn (dt * ((i : Nat) : α)) s
      match rest with
      | [] => ([s], [sg])
      | _ :: _ =>
        let s' := s * (1 + sg * (zi * sqrt dt))
        let (ss, vs) := go (i + 1) s' rest
        (s :: ss, sg :: vs)
  if n = 0 then ([], []) else go 0 init z

end

section Rough
variable {α : Type} [Add α] [Sub α] [Mul α] [Div α] [Neg α] [OfNat α 0] [OfNat α 1] [OfNat α 2]
  [NatCast α] [Transc α] [TranscPow α]
open Transc TranscPow

/-- hybrid-scheme kernel weights of `generate_rough_bergomi`:
`gamma_k = (b_k / norm) ^ alpha`, `b_k = ((k^(a+1) - (k-1)^(a+1)) / (a+1))^(1/a)`, `gamma_0 = gamma_1 = 0`.
The code normalises by `norm = n_steps - 1` (known finding F11: the scheme needs `1/dt`). -/
def rbGamma (alpha norm : α) (n : Nat) : List α :=
  (List.range n).map (fun (k : Nat) =>
    if k < 2 then 0
    else
      let kk : α := ((k : Nat) : α)
      let b := pow ((pow kk (alpha + 1) - pow (kk - 1) (alpha + 1)) / (alpha + 1)) (1 / alpha)
      pow (b / norm) alpha)

/-- `generate_rough_bergomi` for one path: `w1` = the bivariate normal draws `(dW1[:,0], dW1[:,1])`
for steps 1..n-1, `w2` = `dW2`.  Returns (prices, variance). -/
def roughBergomi (s0 v0 alpha rho eta dt norm : α) (n : Nat) (w1 : List (α × α)) (w2 : List α) :
    List α × List α :=
  let xi := w1.map (·.1)
  let y1 := (0 : α) :: w1.map (·.2)
  let gamma := rbGamma alpha norm n
  -- Y2[i] = Σ_{k=2..i} gamma_k * Xi[i-k]
  let y2 := (List.range n).map (fun (i : Nat) =>
    sumL ((List.range (i + 1)).map (fun (k : Nat) =>
      match gamma[k]?, xi[i - k]? with
      | some gk, some x => if k ≤ i ∧ 2 ≤ k then gk * x else 0
      | _, _ => 0)))
  let y := List.zipWith (fun a b => sqrt (2 * alpha + 1) * (a + b)) y1 y2
  let variance := List.zipWith (fun (i : α) yi =>
    v0 * exp (eta * yi - (1 / 2 : α) * (eta * eta) * pow (i * dt) (2 * alpha + 1))) (arangeL n) y
  let dB := List.zipWith (fun a b => rho * a + sqrt (1 - rho * rho) * b) xi w2
  let incr := List.zipWith (fun v db => sqrt v * db - (1 / 2 : α) * v * dt) (initL variance) dB
  let logret := (0 : α) :: cumsumL incr
  (logret.map (fun r => s0 * exp r), variance)

end Rough

end PfVerif
