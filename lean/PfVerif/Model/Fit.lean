/-
  Model of `Hedger.fit` / `_configure_optimizer` / `compute_loss` / `ensemble_mean`
  (nn/modules/hedger.py:413-621, _utils/operations.py) as the list of observable events.
-/
import PfVerif.Model.Basic
namespace PfVerif

inductive FitEv where
  | simulate (nPaths : Nat) (withInit : Bool) (training : Bool) (gradEnabled : Bool)
  | loss (training : Bool) (gradEnabled : Bool)   -- one criterion evaluation
  | placeholderPl                                  -- `_ = self.compute_pl(derivative)` for lazy modules
  | mkOptimizer                                    -- `optimizer(self.model.parameters())`
  | setTrain
  | setEval
  | zeroGrad
  | backward
  | step
  | valItem                                        -- `history.append(loss.item())`
  deriving DecidableEq, Repr

inductive OptKind where
  | cls          -- an Optimizer subclass (instantiated by fit)
  | instance     -- an Optimizer instance (used as is)
  | other        -- anything else: TypeError
  deriving DecidableEq, Repr

structure FitCfg where
  epochs : Nat
  nPaths : Nat
  nTimes : Nat
  withInit : Bool          -- `init_state` given
  opt : OptKind
  lazy : Bool              -- model has uninitialised (lazy) parameters
  validation : Bool
  startTraining : Bool     -- `self.training` when fit is called (modules start in train mode)
  deriving Repr

/-- `_configure_optimizer` -/
def configureEvents (c : FitCfg) : Except Err (List FitEv) :=
  match c.opt with
  | .instance => .ok []
  | .cls =>
    .ok ((if c.lazy then [FitEv.simulate 1 false c.startTraining true, FitEv.placeholderPl] else []) ++ [FitEv.mkOptimizer])
  | .other =>
    -- the lazy placeholder forward runs before the type check
    .error .typeError

/-- `compute_loss(n_times, enable_grad)`: `ensemble_mean` of `n_times` evaluations, each simulating
its own batch (`n_times = 1`: a single evaluation) -/
def lossEvents (c : FitCfg) (nTimes : Nat) (training gradEnabled : Bool) : List FitEv :=
  (List.replicate (if nTimes = 1 then 1 else nTimes) ()).flatMap
    (fun _ => [FitEv.simulate c.nPaths c.withInit training gradEnabled, FitEv.loss training gradEnabled])

/-- one epoch of the loop -/
def epochEvents (c : FitCfg) : List FitEv :=
  [FitEv.setTrain, FitEv.zeroGrad] ++ lossEvents c 1 true true ++ [FitEv.backward, FitEv.step]
    ++ (if c.validation then [FitEv.setEval] ++ lossEvents c c.nTimes false false ++ [FitEv.valItem] else [])

def repeatL {β : Type} : Nat → List β → List β
  | 0, _ => []
  | k + 1, xs => xs ++ repeatL k xs

/-- `fit`: events and the length of the returned history (`none` when validation is off) -/
def fitEvents (c : FitCfg) : Except Err (List FitEv × Option Nat) :=
  match configureEvents c with
  | .error e => .error e
  | .ok cfg => .ok (cfg ++ repeatL c.epochs (epochEvents c), if c.validation then some c.epochs else none)

/-- the explicit reference loop of the property statement: for each epoch simulate a fresh batch of
the requested size, evaluate the criterion with the model in training mode, backward, step -/
def referenceEpoch (c : FitCfg) : List FitEv :=
  [FitEv.setTrain, FitEv.zeroGrad, FitEv.simulate c.nPaths c.withInit true true, FitEv.loss true true,
   FitEv.backward, FitEv.step]

end PfVerif
