/-
  Model of `Hedger.compute_loss` (nn/modules/hedger.py:476-485) for a batch of paths and `H ≥ 1`
  hedging instruments:

      for every path:  `hedgerPL`  (Model/HedgerPL.lean: market → features → module (with the recurrent
                                    prev_hedge) → hedge → transpose → prices, cost rates, payoff → `pl`)
      then the criterion on the vector of P&Ls                                   (Model/Risk.lean)

  `compute_loss` evaluates `criterion(compute_portfolio(derivative), derivative.payoff())`; every
  `HedgeLoss.forward(input, target)` is a function of `input - target`, the P&L.

  Scalar-generic and executable: the driver op "grad_h" (Driver/GradH.lean) runs exactly these
  definitions at `Dual Float`; the theorems of Lemmas/C14Multi.lean are about them at `Dual ℝ` / `ℝ`.
  Core Lean only.
-/
import PfVerif.Model.HedgerPL
import PfVerif.Model.Risk
import PfVerif.Inst.Dual
namespace PfVerif

/-- closed language for the utility handed to `OCE` (an arbitrary callable in the code; the harness
builds these two): `exp a : x ↦ 1 − exp(−a x)` (`exp_utility` shifted by one),
`quad a b : x ↦ a x² + b x` -/
inductive Utility (α : Type) where
  | exp (a : α)
  | quad (a b : α)

/-- the criteria: the five of Props/C14 (`C14Aux.Crit`) and, new, the isoelastic loss
(`a = 1`: `−mean log x`, otherwise `−mean x^(1−a)`) and `OCE` with its trainable scalar `w` -/
inductive CritH (α : Type) where
  | erm (a : α)
  | es (k : Nat)
  | eloss (a : α)
  | mse
  | mean
  | iso (aIsOne : Bool) (a : α)
  | oce (u : Utility α) (w : α)

section
variable {α : Type} [Add α] [Sub α] [Mul α] [Div α] [Neg α] [OfNat α 0] [OfNat α 1]
  [LE α] [DecidableLE α] [Max α] [Min α] [NatCast α] [Transc α] [TranscPow α]

def Utility.eval : Utility α → α → α
  | .exp a, x => 1 - Transc.exp (-(a * x))
  | .quad a b, x => a * x * x + b * x

/-- the criterion applied to the P&Ls of the batch -/
def applyCritH (c : CritH α) (pls : List α) : Except Err α :=
  match c with
  | .erm a => entropicRisk a pls
  | .es k => .ok (es k pls)
  | .eloss a => .ok (entropicLoss a pls)
  | .mse => .ok (meanR (pls.map (fun x => x * x)))
  | .mean => .ok (-(meanR pls))
  | .iso one a => .ok (isoelasticLoss one a pls)
  | .oce u w => .ok (oce u.eval w pls)

/-- the hedging loss of a batch of paths (market, hedging instruments): `hedgerPL` on every path,
then the criterion `crit` (e.g. `applyCritH c`) -/
def lossOfH (g : List α → List α) (fs : List (Feature α))
    (paths : List (Market α × List (HedgeInstr α))) (p : PayoffSpec α)
    (reg : List (String × Clause α)) (first : Bool) (crit : List α → Except Err α) :
    Except Err α := do
  let pls ← paths.mapM (fun mh => hedgerPL g fs mh.1 mh.2 p reg first)
  crit pls

end

/-! ### constants as dual numbers (ε = 0): the market data, instruments, payoff, clauses -/

namespace Dual
variable {β : Type} [OfNat β 0]

def liftMarket (m : Market β) : Market (Dual β) :=
  { spot := m.spot.map const, variance := m.variance.map const, volatility := m.volatility.map const,
    listed := m.listed.map const, dt := const m.dt, strike := const m.strike,
    oracle := m.oracle.map const }

def liftBase : BaseFeature β → BaseFeature (Dual β)
  | .moneyness l => .moneyness l
  | .maxMoneyness l => .maxMoneyness l
  | .timeToMaturity => .timeToMaturity
  | .volatility => .volatility
  | .variance => .variance
  | .spot l => .spot l
  | .underlierSpot l => .underlierSpot l
  | .barrier t u => .barrier (const t) u
  | .zeros => .zeros
  | .ones => .ones
  | .empty => .empty
  | .prevHedge => .prevHedge

def liftSrc : PriceSrc β → PriceSrc (Dual β)
  | .primary row => .primary (row.map const)
  | .listed a b row => .listed (const a) (const b) (row.map const)

def liftInstr (h : HedgeInstr β) : HedgeInstr (Dual β) := ⟨liftSrc h.src, const h.cost⟩

def liftSpec (p : PayoffSpec β) : PayoffSpec (Dual β) := ⟨p.kind, p.call, const p.strike⟩

def liftClause : Clause β → Clause (Dual β)
  | .affine a b => .affine (const a) (const b)
  | .cap c => .cap (const c)
  | .floor c => .floor (const c)

def liftReg (reg : List (String × Clause β)) : List (String × Clause (Dual β)) :=
  reg.map (fun c => (c.1, liftClause c.2))

/-- the paths of the batch -/
def liftPaths (ps : List (Market β × List (HedgeInstr β))) :
    List (Market (Dual β) × List (HedgeInstr (Dual β))) :=
  ps.map (fun mh => (liftMarket mh.1, mh.2.map liftInstr))

def liftUtility : Utility β → Utility (Dual β)
  | .exp a => .exp (const a)
  | .quad a b => .quad (const a) (const b)

/-- the criterion with constant coefficients; OCE's own parameter `w` is seeded (ε = 1: the
derivative with respect to `w`) or a constant (ε = 0: the derivative with respect to a model
parameter) -/
def liftCrit [OfNat β 1] (seedW : Bool) : CritH β → CritH (Dual β)
  | .erm a => .erm (const a)
  | .es k => .es k
  | .eloss a => .eloss (const a)
  | .mse => .mse
  | .mean => .mean
  | .iso one a => .iso one (const a)
  | .oce u w => .oce (liftUtility u) (if seedW then var w else const w)

/-- `x.pow(y)` on dual numbers: `d(x^y) = y x^(y−1) dx + log x · x^y dy` -/
instance [Add β] [Sub β] [Mul β] [OfNat β 1] [Transc β] [TranscPow β] : TranscPow (Dual β) where
  pow x y := ⟨TranscPow.pow x.val y.val,
    x.eps * (y.val * TranscPow.pow x.val (y.val - 1))
      + y.eps * (Transc.log x.val * TranscPow.pow x.val y.val)⟩

end Dual

end PfVerif
