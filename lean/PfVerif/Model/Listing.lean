/-
  Listing a derivative (instruments/derivative/base.py: `list(pricer, cost=0.0)`, `delist()`, `is_listed`, `spot`, `cost`)
  on top of the derivative object of Model/Session.lean:

      list(pricer, cost)  :  self.pricer = pricer;  self.cost = cost
      delist()            :  self.pricer = None;    self.cost = 0.0
      is_listed           :  self.pricer is not None
      spot                :  ValueError when not listed, else self.pricer(self)

  Listing and delisting touch nothing else: not the contract terms, not the price buffer, not the clause registry.
  A pricer is modelled by what it reads: pricer `k` quotes `(k + 1) * payoff()` per path (the harness lists exactly these
  callables), so that a quote depends on the terms, the buffer and the clauses AS THEY ARE when `spot` is read.
  Core Lean only.
-/
import PfVerif.Model.Session
namespace PfVerif.Listing
open PfVerif PfVerif.Session

structure LState (α : Type) where
  base : State α
  /-- `self.pricer`: `none` = not listed, `some k` = pricer number `k` -/
  pricer : Option Nat
  cost : α

inductive LOp (α : Type) where
  | sess (op : Op α)                 -- anything the derivative object itself offers (terms, cells, clauses, payoff)
  | list (k : Nat) (cost : α)        -- `d.list(pricer_k, cost)`
  | delist                           -- `d.delist()`
  | isListed                         -- `d.is_listed`
  | getCost                          -- `d.cost`
  | spot                             -- `d.spot`

inductive LOut (α : Type) where
  | sess (o : Out α)
  | none
  | flag (b : Bool)
  | cost (c : α)
  | quote (v : List α)
  | error (e : Err)
  deriving DecidableEq

section
variable {α : Type} [Add α] [Sub α] [Mul α] [Div α] [Neg α] [OfNat α 0] [OfNat α 1] [LE α] [DecidableLE α]
  [Max α] [Min α] [NatCast α]

def lnext (s : LState α) : LOp α → LState α
  | .sess op => { s with base := next s.base op }
  | .list k c => { s with pricer := some k, cost := c }
  | .delist => { s with pricer := none, cost := 0 }
  | _ => s

def loutput (pp : Terms α → List α → Except Err α) (s : LState α) : LOp α → LOut α
  | .sess op => .sess (output pp s.base op)
  | .list _ _ => .none
  | .delist => .none
  | .isListed => .flag s.pricer.isSome
  | .getCost => .cost s.cost
  | .spot =>
    match s.pricer with
    | none => .error .valueError
    | some k =>
      match answer pp s.base with
      | .payoff v => .quote (v.map (fun x => ((k + 1 : Nat) : α) * x))
      | .error e => .error e
      | .none => .none

def lstep (pp : Terms α → List α → Except Err α) (s : LState α) (op : LOp α) : LState α × LOut α :=
  (lnext s op, loutput pp s op)

def lrun (pp : Terms α → List α → Except Err α) (s : LState α) : List (LOp α) → LState α × List (LOut α)
  | [] => (s, [])
  | op :: ops =>
    let r := lstep pp s op
    let q := lrun pp r.1 ops
    (q.1, r.2 :: q.2)

/-- the state after a history -/
def lexec (s : LState α) (ops : List (LOp α)) : LState α := ops.foldl lnext s

/-- the derivative-object operations of a history, listing steps and reads dropped -/
def sessOps : List (LOp α) → List (Op α)
  | [] => []
  | .sess op :: rest => op :: sessOps rest
  | _ :: rest => sessOps rest

/-- the last listing step of a history: `some (some (k, c))` = listed with pricer `k` at cost `c`, `some none` = delisted -/
def lastListing : List (LOp α) → Option (Option (Nat × α))
  | [] => none
  | .list k c :: rest => (lastListing rest).orElse (fun _ => some (some (k, c)))
  | .delist :: rest => (lastListing rest).orElse (fun _ => some none)
  | _ :: rest => lastListing rest

end
end PfVerif.Listing
