/-
  Model of `Hedger.price` / `Hedger.compute_loss` (nn/modules/hedger.py:421-489, 623-677) on the
  simulated paths: the composition

      batch of paths ──`hedgerPL` per path (Model/HedgerPL.lean)──▶ P&L sample (N values)
      P&L sample ──criterion──▶ loss                                   (`compute_loss`)
      P&L sample ──criterion.cash──▶ cash ──negate──▶ price            (`price`)
      n_times batches ──`ensemble_mean`──▶ the quoted number           (Model/Risk.lean `ensembleMean`)

  The code hands `cash` the pair (`compute_portfolio`, `target = derivative.payoff()`) and every
  `cash` / `forward` of modules/loss.py starts with `input - target`; `hedgerPL` is `pl` with the
  payoff passed in.  That the two are the same sample is the theorem `C06Hedger.hedgerPrice_eq`
  (through `C01Hedger.hedgerPL_eq_portfolio_sub_payoff`), not an assumption of this file.

  A criterion is given by its `forward` (`loss`) and its `cash`, both on one sample column and both
  allowed to fail.  The built-in ones are the definitions of Model/Risk.lean:
    * entropic risk measure  `entropicRisk`, cash `-self(input - target)`;
    * expected shortfall     `es k` (`k = ceil(p N)` computed by the caller as the code does), cash `-self(…)`;
    * entropic loss          `entropicLoss`, cash `entropicLossCashStable` (as coded after the F7 repair);
    * quadratic CVaR         `quadraticCvar` on the single column, cash `-self(…)`;
    * any criterion function with the default search `cashDefault`.
  Errors: the first failing path (in batch order) decides; in the code all paths share their shapes,
  so every path fails alike.  `ensemble_mean` of no evaluation is `torch.stack([])`'s RuntimeError.
-/
import PfVerif.Model.HedgerPL
import PfVerif.Model.Risk
namespace PfVerif

/-- one simulated path as the Hedger sees it: the derivative's market and the hedging instruments -/
structure HedgePath (α : Type) where
  market : Market α
  hedges : List (HedgeInstr α)

/-- a hedging criterion on one sample column: `forward` and `cash` -/
structure Criterion (α : Type) where
  loss : List α → Except Err α
  cash : List α → Except Err α

/-- evaluate `f` on every element, in order; the first error is the result -/
def collectE {β γ : Type} (f : β → Except Err γ) : List β → Except Err (List γ)
  | [] => .ok []
  | b :: bs => do
      let x ← f b
      let xs ← collectE f bs
      pure (x :: xs)

section
variable {α : Type} [Add α] [Sub α] [Mul α] [Div α] [Neg α] [OfNat α 0] [OfNat α 1] [OfNat α 2]
  [LE α] [DecidableLE α] [LT α] [DecidableLT α] [Max α] [Min α] [NatCast α] [Transc α]

/-- `EntropicRiskMeasure(a)`: `forward = entropic_risk_measure(input - target)`, `cash = -forward` -/
def Criterion.entropicRiskMeasure (a : α) : Criterion α :=
  ⟨entropicRisk a, fun xs => do let r ← entropicRisk a xs; pure (-r)⟩

/-- `ExpectedShortfall(p)` with `k = ceil(p N)`: `cash = -forward` -/
def Criterion.expectedShortfall (k : Nat) : Criterion α :=
  ⟨fun xs => .ok (es k xs), fun xs => .ok (cashNeg (es k) xs)⟩

/-- `EntropicLoss(a)`: `forward = mean exp(-a x)`, `cash = -entropic_risk_measure` -/
def Criterion.entropicLoss (a : α) : Criterion α :=
  ⟨fun xs => .ok (_root_.PfVerif.entropicLoss a xs), entropicLossCashStable a⟩

/-- `quadratic_cvar` of ONE column as coded (centring, bracket, bisection) -/
def quadraticCvar1 (lam tol precision : α) (maxIter : Nat) (xs : List α) : Except Err α :=
  match quadraticCvar lam tol precision maxIter [xs] with
  | .ok [r] => .ok r
  | .ok _ => .error .runtimeError
  | .error e => .error e

/-- `QuadraticCVaR(lam)`: `cash = -forward` -/
def Criterion.quadraticCVaR (lam tol precision : α) (maxIter : Nat) : Criterion α :=
  ⟨quadraticCvar1 lam tol precision maxIter,
   fun xs => do let r ← quadraticCvar1 lam tol precision maxIter xs; pure (-r)⟩

/-- any criterion function relying on the default `HedgeLoss.cash` search -/
def Criterion.default (loss : List α → α) (precision : α) (maxIter : Nat) : Criterion α :=
  ⟨fun xs => .ok (loss xs), cashDefault loss precision maxIter⟩

/-- a criterion whose `forward` is the total function `L` and whose `cash` is the closed form
`-self(input - target)` (the shape of the expected-shortfall / quadratic-CVaR / entropic-risk
overrides) -/
def Criterion.closedForm (L : List α → α) : Criterion α :=
  ⟨fun xs => .ok (L xs), fun xs => .ok (cashNeg L xs)⟩

/-- `Hedger.compute_pl` on a batch of simulated paths: one value per path -/
def batchPL (g : List α → List α) (fs : List (Feature α)) (p : PayoffSpec α)
    (reg : List (String × Clause α)) (first : Bool) (paths : List (HedgePath α)) :
    Except Err (List α) :=
  collectE (fun q => hedgerPL g fs q.market q.hedges p reg first) paths

/-- `Hedger.compute_portfolio` on a batch -/
def batchPortfolio (g : List α → List α) (fs : List (Feature α)) (first : Bool)
    (paths : List (HedgePath α)) : Except Err (List α) :=
  collectE (fun q => hedgerPortfolio g fs q.market q.hedges first) paths

/-- `derivative.payoff()` on a batch (payoff function and clauses) -/
def batchPayoff (p : PayoffSpec α) (reg : List (String × Clause α)) (paths : List (HedgePath α)) :
    Except Err (List α) :=
  collectE (fun q => derivPayoff p reg q.market.spot) paths

/-- one evaluation of `Hedger.compute_loss`: the criterion of the per-path P&L -/
def hedgerLossOf (crit : Criterion α) (g : List α → List α) (fs : List (Feature α))
    (p : PayoffSpec α) (reg : List (String × Clause α)) (first : Bool)
    (paths : List (HedgePath α)) : Except Err α := do
  let pls ← batchPL g fs p reg first paths
  crit.loss pls

/-- one evaluation of `Hedger.price`: minus the cash amount of the per-path P&L -/
def hedgerPrice (crit : Criterion α) (g : List α → List α) (fs : List (Feature α))
    (p : PayoffSpec α) (reg : List (String × Clause α)) (first : Bool)
    (paths : List (HedgePath α)) : Except Err α := do
  let pls ← batchPL g fs p reg first paths
  let c ← crit.cash pls
  pure (-c)

/-- `Hedger.price(…, n_times)`: `ensemble_mean` of one price per independently simulated batch -/
def hedgerPriceN (crit : Criterion α) (g : List α → List α) (fs : List (Feature α))
    (p : PayoffSpec α) (reg : List (String × Clause α)) (first : Bool)
    (batches : List (List (HedgePath α))) : Except Err α := do
  let vals ← collectE (hedgerPrice crit g fs p reg first) batches
  ensembleMean vals

/-- `Hedger.compute_loss(…, n_times)` -/
def hedgerLossN (crit : Criterion α) (g : List α → List α) (fs : List (Feature α))
    (p : PayoffSpec α) (reg : List (String × Clause α)) (first : Bool)
    (batches : List (List (HedgePath α))) : Except Err α := do
  let vals ← collectE (hedgerLossOf crit g fs p reg first) batches
  ensembleMean vals

end
end PfVerif
