/-
  Model of `pfhedge.nn.functional.pl` / `terminal_value` (functional.py:486-592).
  Per path: spot, unit : H × T nested lists.  Tensor level: N × H × T with the size checks.
-/
import PfVerif.Model.Basic
namespace PfVerif

section
variable {α : Type} [Add α] [Sub α] [Mul α] [Neg α] [OfNat α 0] [LE α] [DecidableLE α]

/-- `unit[..., :-1].mul(spot.diff(dim=-1))` summed over time, one instrument, one path. -/
def gains1 (s u : List α) : α := sumL (mulL (initL u) (diffL s))

/-- `(spot[..., 1:] * unit.diff(dim=-1).abs() * c)` summed over time, one instrument. -/
def cost1 (c : α) (s u : List α) : α :=
  sumL (List.zipWith (fun sp du => sp * absS du * c) (tailL s) (diffL u))

/-- `spot[..., [0]] * unit[..., [0]].abs() * c`, one instrument. -/
def first1 (c : α) (s u : List α) : α :=
  match s, u with
  | s0 :: _, u0 :: _ => s0 * absS u0 * c
  | _, _ => 0

/-- zip three lists -/
def zipWith3L {β γ δ ε : Type} (f : β → γ → δ → ε) : List β → List γ → List δ → List ε
  | b :: bs, c :: cs, d :: ds => f b c d :: zipWith3L f bs cs ds
  | _, _, _ => []

/-- P&L of one path. `cost` already broadcast to one rate per instrument. -/
def plPath (spot unit : List (List α)) (cost : Option (List α)) (payoff : Option α)
    (first : Bool) : α :=
  let g := sumL (List.zipWith gains1 spot unit)
  let g := match payoff with
    | some z => g - z
    | none => g
  match cost with
  | none => g
  | some c =>
    let g := g - sumL (zipWith3L cost1 c spot unit)
    if first then g - sumL (zipWith3L first1 c spot unit) else g

/-- Broadcasting of `torch.tensor(cost).unsqueeze(0).unsqueeze(-1)` (shape `(1,k,1)`) against
`(N,H,T)`: `k = H`, or `k = 1` (one rate for every instrument).  The remaining torch-legal case
(`H = 1 < k`) is an accident of broadcasting outside the documented contract; the harness never
generates it and it is not modelled. -/
def bcastCost (h : Nat) (c : List α) : Except Err (List α) :=
  if c.length = h then .ok c
  else
    match c with
    | [x] => .ok (List.replicate h x)
    | _ => .error .runtimeError

structure Shape3 where
  n : Nat
  h : Nat
  t : Nat
  deriving DecidableEq, Repr

/-- Tensor-level `pl`.  `payoffDim` is `payoff.dim()`; `payoff` its flattened data when 1-d. -/
def pl (ss su : Shape3) (spot unit : List (List (List α))) (cost : Option (List α))
    (payoff : Option (Nat × List α)) (first final : Bool) : Except Err (List α) :=
  if final then .error .assertionError
  else if ss ≠ su then .error .runtimeError
  else
    match payoff with
    | some (d, z) =>
      if d ≠ 1 ∨ z.length ≠ ss.n then .error .runtimeError
      else body (z.map some)
    | none => body (List.replicate ss.n none)
where
  body (zs : List (Option α)) : Except Err (List α) :=
    match cost with
    | none => .ok (zipWith3L (fun s u z => plPath s u none z first) spot unit zs)
    | some c =>
      match bcastCost ss.h c with
      | .error e => .error e
      | .ok c' =>
        .ok (zipWith3L (fun s u z => plPath s u (some c') z first) spot unit zs)

/-- `terminal_value` forwards its five arguments to `pl` (no `deduct_final_cost`). -/
def terminalValue (ss su : Shape3) (spot unit : List (List (List α))) (cost : Option (List α))
    (payoff : Option (Nat × List α)) (first : Bool) : Except Err (List α) :=
  pl ss su spot unit cost payoff first false

end
end PfVerif
