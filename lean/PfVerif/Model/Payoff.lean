/-
  Model of the payoff functions (functional.py:20-151, 436-483) and of
  `BaseDerivative.payoff` with its clause registry (derivative/base.py:124-206).
  One path = one `List α` of prices; the batch dimension is `List.map`.
-/
import PfVerif.Model.Basic
namespace PfVerif

section
variable {α : Type} [Add α] [Sub α] [Mul α] [Div α] [Neg α] [OfNat α 0] [OfNat α 1]
  [LE α] [DecidableLE α] [Max α] [Min α]

/-- `(cond).to(input)` -/
def indS (b : Bool) : α := if b then 1 else 0

/-- Python list/tensor index with negative wrap-around; `none` = IndexError. -/
def pyIndex (n : Nat) (i : Int) : Option Nat :=
  if 0 ≤ i then (if i.toNat < n then some i.toNat else none)
  else (if (-i).toNat ≤ n then some (n - (-i).toNat) else none)

def getIdx (xs : List α) (i : Int) : Except Err α :=
  match pyIndex xs.length i with
  | some k => match xs[k]? with
    | some x => .ok x
    | none => .error .runtimeError
  | none => .error .runtimeError

/-- `european_payoff`: `relu(input[..., -1] - strike)` / `relu(strike - input[..., -1])` -/
def europeanPayoff (call : Bool) (k : α) (xs : List α) : Except Err α :=
  match lastL xs with
  | none => .error .runtimeError
  | some sT => .ok (if call then reluS (sT - k) else reluS (k - sT))

/-- `lookback_payoff`: call on the path maximum, put on the path minimum -/
def lookbackPayoff (call : Bool) (k : α) : List α → Except Err α
  | [] => .error .runtimeError
  | x :: xs => .ok (if call then reluS (maxL x xs - k) else reluS (k - minL x xs))

/-- `american_binary_payoff`: `max >= strike` (call), `min <= strike` (put) -/
def americanBinaryPayoff (call : Bool) (k : α) : List α → Except Err α
  | [] => .error .runtimeError
  | x :: xs => .ok (if call then indS (decide (k ≤ maxL x xs)) else indS (decide (minL x xs ≤ k)))

/-- `european_binary_payoff`: `input[..., -1] >= strike` (call), `<=` (put) -/
def europeanBinaryPayoff (call : Bool) (k : α) (xs : List α) : Except Err α :=
  match lastL xs with
  | none => .error .runtimeError
  | some sT => .ok (if call then indS (decide (k ≤ sT)) else indS (decide (sT ≤ k)))

/-- `european_forward_start_payoff`: `relu(input[end] / input[start] - strike)` -/
def forwardStartPayoff (k : α) (start stop : Int) (xs : List α) : Except Err α := do
  let e ← getIdx xs stop
  let s ← getIdx xs start
  pure (reluS (e / s - k))

end

section
variable {α : Type} [Add α] [Sub α] [Mul α] [Div α] [OfNat α 0] [NatCast α] [Transc α]

/-- mean of a list, `nan` (0/0) semantics left to the carrier: `sum / length` -/
def meanL (xs : List α) : α := sumL xs / (xs.length : α)

/-- `realized_variance`: `input.log().diff().square().mean() / dt` -/
def realizedVariance (dt : α) (xs : List α) : α :=
  meanL ((diffL (xs.map Transc.log)).map (fun r => r * r)) / dt

/-- `VarianceSwap.payoff_fn` -/
def varianceSwapPayoff (dt k : α) (xs : List α) : α := realizedVariance dt xs - k

def realizedVolatility (dt : α) (xs : List α) : α := Transc.sqrt (realizedVariance dt xs)
end

/-- Clause registry = Python `OrderedDict`: re-adding an existing name replaces the clause in
place and keeps its position; a new name is appended. -/
def addClause {β : Type} (reg : List (String × β)) (name : String) (c : β) : List (String × β) :=
  if reg.any (fun p => p.1 == name) then reg.map (fun p => if p.1 == name then (name, c) else p)
  else reg ++ [(name, c)]

/-- `BaseDerivative.payoff`: clauses applied in registration order to `payoff_fn()` -/
def applyClauses {β : Type} (reg : List (String × (β → β))) (p : β) : β :=
  reg.foldl (fun acc c => c.2 acc) p

end PfVerif
