/-
  Model for C16: a heap of tensor storages with aliasing, and the public computations of pfhedge
  as short programs over three kinds of operations, classified as the code uses them:
    * `view`    — result shares the source's storage: `x[..., i:j]`, `x[:, ...]`, `unsqueeze`,
                  `transpose`, `expand`, attribute access to a buffer;
    * `fresh`   — result is a new storage: arithmetic, `x[:, [i]]` (index with a list), `log()`,
                  `cat`, `stack`, `clone`, `full_like`, module forward, `.to` with a change;
    * `inplace` — writes into the target's storage: `log_()`, `-=`, `x[...] = …`.
  Storage contents are abstracted to a version counter: an in-place write bumps the version.
  Also: the hedger's recurrent state (`prev_output`) across calls.
-/
import PfVerif.Model.Basic
import PfVerif.Model.Hedger
namespace PfVerif

abbrev Var := Nat
abbrev Sid := Nat

inductive HOp where
  | view (dst src : Var)
  | fresh (dst : Var) (reads : List Var)
  | inplace (dst : Var) (reads : List Var)
  deriving Repr, DecidableEq

structure Heap where
  env : Var → Option Sid      -- which storage each variable refers to
  ver : Sid → Nat             -- content version of each storage
  next : Sid                  -- next unused storage id

/-- execution of one operation; an unbound source/target is a harness error, modelled as no-op -/
def HOp.exec (h : Heap) : HOp → Heap
  | .view dst src => { h with env := fun v => if v = dst then h.env src else h.env v }
  | .fresh dst _ => { h with env := fun v => if v = dst then some h.next else h.env v, next := h.next + 1 }
  | .inplace dst _ =>
    match h.env dst with
    | some s => { h with ver := fun t => if t = s then h.ver t + 1 else h.ver t }
    | none => h

def execProg (h : Heap) : List HOp → Heap
  | [] => h
  | op :: rest => execProg (op.exec h) rest

/-- abstract interpretation: the set of variables known to refer to storages allocated by the
program itself (`owned`).  A program is `safe` when every in-place write targets an owned variable. -/
def safeFrom (owned : List Var) : List HOp → Bool
  | [] => true
  | .view dst src :: rest =>
    safeFrom (if owned.contains src then dst :: owned else owned.filter (· != dst)) rest
  | .fresh dst _ :: rest => safeFrom (dst :: owned) rest
  | .inplace dst _ :: rest => owned.contains dst && safeFrom owned rest

def safe (p : List HOp) : Bool := safeFrom [] p

/-! ### the public computations as programs (variables: 0 = spot buffer, 1 = second buffer
(variance / unit / target …), 2 = caller tensor (payoff / input), ≥ 10 = locals) -/

/-- `UnderlierSpot(log=True).get(None)` as shipped at the pinned commit:
`output = spot[:, ...].unsqueeze(-1); output.log_()` -/
def progLogSpotOld : List HOp := [.view 10 0, .view 11 10, .inplace 11 []]

/-- after the `fix:` commit: `output = output.log()` -/
def progLogSpot : List HOp := [.view 10 0, .view 11 10, .fresh 12 [11]]

/-- single-step features: `spot[:, [i]].unsqueeze(-1)` (index with a list copies) then `log()` -/
def progSpotAt : List HOp := [.fresh 10 [0], .view 11 10, .fresh 12 [11]]

/-- `moneyness`: `spot[..., index] / strike` (+ `log()`), `max_moneyness`: `cummax` / `max` -/
def progMoneyness : List HOp := [.view 10 0, .fresh 11 [10], .fresh 12 [11], .fresh 13 [12]]

/-- `Barrier.get`: `cummax(-1).values >= threshold` `.to(dtype)` `.unsqueeze(-1)` -/
def progBarrier : List HOp := [.fresh 10 [0], .fresh 11 [10], .fresh 12 [11], .view 13 12]

/-- `Volatility/Variance.get`: `ul().volatility[:, index].unsqueeze(-1)`: for Heston `volatility`
is computed (`clamp.sqrt`), `variance` is a view of the buffer -/
def progVariance : List HOp := [.view 10 1, .view 11 10]

/-- `functional.pl`: `output = unit[..., :-1].mul(spot.diff()).sum(); output -= payoff;
output -= (spot[...,1:] * unit.diff().abs() * c).sum(); output -= first-cost` -/
def progPl : List HOp :=
  [.view 10 1, .fresh 11 [0], .fresh 12 [10, 11], .fresh 13 [12], .inplace 13 [2],
   .view 14 0, .fresh 15 [1], .fresh 16 [14, 15], .inplace 13 [16],
   .fresh 17 [0], .fresh 18 [1], .fresh 19 [17, 18], .inplace 13 [19]]

/-- `Hedger.compute_hedge`, batched branch: `input = cat(features); output = model(input);
output = cat(output[..., :-1, :], output[..., [-2], :]); output.transpose(-1,-2)` (out of place since the
`fix:` commit 70a9f74; before it the last step was written in place, `progHedgeBatchedOld`) -/
def progHedgeBatched : List HOp :=
  [.view 10 0, .fresh 11 [10], .fresh 12 [11], .fresh 13 [12], .view 14 13, .fresh 16 [13], .fresh 17 [14, 16], .view 15 17]

/-- the batched branch as shipped before 70a9f74: `output[..., -1, :] = output[..., -2, :]` in place -/
def progHedgeBatchedOld : List HOp :=
  [.view 10 0, .fresh 11 [10], .fresh 12 [11], .fresh 13 [12], .view 14 13, .inplace 13 [14], .view 15 13]

/-- `Hedger.compute_hedge`, stepwise branch: per step `cat`, forward, hook `register_buffer
(prev_output)`; finally `cat(outputs)` and `transpose` -/
def progHedgeStep : List HOp :=
  [.fresh 10 [0], .fresh 11 [10], .fresh 12 [11], .view 13 12, .fresh 14 [0, 13], .fresh 15 [14], .fresh 16 [12, 15], .view 17 16]

/-- `BaseDerivative.payoff`: `payoff_fn()` (fresh: `relu(spot[..., -1] - strike)`) then clauses -/
def progPayoff : List HOp := [.view 10 0, .fresh 11 [10], .fresh 12 [11], .fresh 13 [12]]

/-- criteria: `input - target` then reductions -/
def progLoss : List HOp := [.fresh 10 [2, 1], .fresh 11 [10], .fresh 12 [11]]

/-- `leaky_clamp` / `clamp`: `torch.as_tensor(min).to(x)` is a VIEW of the caller's bound when no
conversion is needed; all arithmetic after it is out-of-place -/
def progClamp : List HOp := [.view 10 1, .fresh 11 [2, 10], .fresh 12 [11, 10], .fresh 13 [12]]

/-- the variables the analysis knows to be bound to storages allocated by the program itself, after
running it (same transfer function as `safeFrom`) -/
def ownedAfter (owned : List Var) : List HOp → List Var
  | [] => owned
  | .view dst src :: rest =>
    ownedAfter (if owned.contains src then dst :: owned else owned.filter (· != dst)) rest
  | .fresh dst _ :: rest => ownedAfter (dst :: owned) rest
  | .inplace _ _ :: rest => ownedAfter owned rest

/-- the result variable `v` of program `p` is known to be a storage of its own: it cannot alias any
tensor that existed before the call (market data, caller tensors) -/
def resultFresh (p : List HOp) (v : Var) : Bool := (ownedAfter [] p).contains v

/-- `FeatureList.get`: `torch.cat([f.get(time_step) for f in features], -1)` — the feature outputs
may be views of buffers, the concatenation is a new storage -/
def progGetInput : List HOp := [.view 10 0, .view 11 1, .fresh 12 [10, 11]]

/-- `compute_hedge` (batched) with a user model that RETURNS ITS INPUT (`torch.nn.Identity`): the last-step
fix-up concatenates views of the `cat` storage into a new one -/
def progHedgeBatchedIdentity : List HOp :=
  [.view 10 0, .fresh 11 [10], .view 12 11, .view 14 12, .fresh 16 [12], .fresh 17 [14, 16], .view 15 17]

/-- `compute_hedge` (batched) with a user model that writes its input in place (`ReLU(inplace=True)`
as first layer, `x.mul_(…)`) -/
def progHedgeBatchedInplaceModel : List HOp :=
  [.view 10 0, .fresh 11 [10], .inplace 11 [], .view 12 11, .view 14 12, .fresh 16 [12], .fresh 17 [14, 16], .view 15 17]

/-- the same computation if `FeatureList.get` skipped the concatenation for a single feature (a
rewrite that looks harmless at that site): the model input is then a view of the buffer, and a model
that writes its input in place writes the buffer -/
def progHedgeShortcutInplaceModel : List HOp :=
  [.view 10 0, .view 11 10, .inplace 11 [], .view 12 11, .view 14 12, .fresh 16 [12], .fresh 17 [14, 16], .view 15 17]

/-- … and before 70a9f74 even the identity model did, through `compute_hedge`'s own in-place last-step write -/
def progHedgeShortcutIdentity : List HOp :=
  [.view 10 0, .view 11 10, .view 12 11, .view 14 12, .inplace 12 [14], .view 15 12]

/-- all modelled public computations, for the `decide` sweep -/
def publicPrograms : List (String × List HOp) :=
  [("log_spot", progLogSpot), ("spot_at", progSpotAt), ("moneyness", progMoneyness), ("barrier", progBarrier),
   ("variance", progVariance), ("pl", progPl), ("hedge_batched", progHedgeBatched), ("hedge_step", progHedgeStep),
   ("payoff", progPayoff), ("loss", progLoss), ("clamp", progClamp), ("get_input", progGetInput),
   ("hedge_batched_identity", progHedgeBatchedIdentity), ("hedge_batched_inplace_model", progHedgeBatchedInplaceModel)]

/-- the modelled public computations with their result variable: which results may alias market
data (`resultFresh = false`) and which may not -/
def publicResults : List (String × List HOp × Var) :=
  [("feature_view", progVariance, 11), ("log_spot", progLogSpot, 12), ("spot_at", progSpotAt, 12),
   ("moneyness", progMoneyness, 13), ("barrier", progBarrier, 13), ("get_input", progGetInput, 12),
   ("hedge_batched", progHedgeBatched, 15), ("hedge_batched_identity", progHedgeBatchedIdentity, 15),
   ("hedge_batched_inplace_model", progHedgeBatchedInplaceModel, 15), ("hedge_step", progHedgeStep, 17),
   ("payoff", progPayoff, 13), ("pl", progPl, 13), ("loss", progLoss, 12), ("clamp", progClamp, 13)]

/-! ### the hedger's recurrent state across calls -/

section
variable {α : Type} [Add α] [Sub α] [Mul α] [Div α] [Neg α] [OfNat α 0] [OfNat α 1]
  [LE α] [DecidableLE α] [Max α] [Min α] [NatCast α] [Transc α]

/-- `compute_hedge` with the `prev_output` buffer made explicit: it receives whatever the previous
call left (`st`), resets it to zeros in the state-dependent branch (hedger.py:302-303), and leaves
the last model output behind.  Returns (hedge, new state). -/
def computeHedgeS (st : List α) (g : List α → List α) (fs : List (Feature α)) (m : Market α)
    (n h : Nat) : Except Err (List (List α)) × List α :=
  if fs.any Feature.stateDependent then
    let start := List.replicate h 0       -- save_prev_output(self, input=(), output=zeros)
    match hedgeLoop g fs m (n - 1) 0 start with
    | .error e => (.error e, st)
    | .ok outs =>
      match lastL outs with
      | none => (.error .runtimeError, start)
      | some l => (.ok (outs ++ [l]), l)
  else
    match inputsAll n fs m with
    | .error e => (.error e, st)
    | .ok x =>
      match dupLast (x.map g), lastL (x.map g) with
      | .ok r, some l => (.ok r, l)       -- the forward hook stores the (whole) output; only its role as state matters
      | .ok r, none => (.ok r, st)
      | .error e, _ => (.error e, st)

end
end PfVerif
