/-
  Model of the input features (features/features.py, features/container.py, OptionMixin in
  instruments/derivative/base.py) and of `Hedger.compute_hedge` (nn/modules/hedger.py:255-322),
  for ONE path: the batch dimension is "every path independently" (the hedging module is applied
  to each (path, time) row separately — assumption on user modules recorded in DESIGN §7).
-/
import PfVerif.Model.Basic
import PfVerif.Model.PL
namespace PfVerif

/-- market data of one path as the features see it -/
structure Market (α : Type) where
  spot : List α          -- underlier spot buffer
  variance : List α      -- underlier `variance` (buffer or constant series)
  volatility : List α    -- underlier `volatility`
  listed : List α        -- `derivative.spot` when listed (pricer output), else unused
  dt : α
  strike : α
  oracle : List α        -- contents of `torch.empty_like` (unspecified by contract)

/-- features that do not contain other features -/
inductive BaseFeature (α : Type) where
  | moneyness (log : Bool)
  | maxMoneyness (log : Bool)
  | timeToMaturity
  | volatility
  | variance
  | spot (log : Bool)
  | underlierSpot (log : Bool)
  | barrier (thr : α) (up : Bool)
  | zeros
  | ones
  | empty
  | prevHedge

/-- features: base ones and `ModuleOutput(module, inputs)` over base inputs -/
inductive Feature (α : Type) where
  | base (b : BaseFeature α)
  | moduleOutput (g : List α → List α) (inputs : List (BaseFeature α))

def BaseFeature.stateDependent {α : Type} : BaseFeature α → Bool
  | .prevHedge => true
  | _ => false

/-- `is_state_dependent`: `PrevHedge` is the only built-in feature bound to the hedger -/
def Feature.stateDependent {α : Type} : Feature α → Bool
  | .base b => b.stateDependent
  | .moduleOutput _ ins => ins.any BaseFeature.stateDependent

section
variable {α : Type} [Add α] [Sub α] [Mul α] [Div α] [Neg α] [OfNat α 0] [OfNat α 1]
  [LE α] [DecidableLE α] [Max α] [Min α] [NatCast α] [Transc α]

def idx (xs : List α) (i : Nat) : Except Err α :=
  match xs[i]? with
  | some x => .ok x
  | none => .error .runtimeError     -- IndexError

def logIf (b : Bool) (x : α) : α := if b then Transc.log x else x

/-- `x[..., : i+1].max()` -/
def prefixMax (xs : List α) (i : Nat) : Except Err α :=
  match xs.take (i + 1) with
  | [] => .error .runtimeError
  | y :: ys => .ok (maxL y ys)

def prefixMin (xs : List α) (i : Nat) : Except Err α :=
  match xs.take (i + 1) with
  | [] => .error .runtimeError
  | y :: ys => .ok (minL y ys)

/-- single-step evaluation `feature.get(i)`; `prev` = the hedger's `prev_output` buffer -/
def BaseFeature.getAt (f : BaseFeature α) (m : Market α) (prev : List α) (i : Nat) :
    Except Err (List α) :=
  match f with
  | .moneyness lg => do let s ← idx m.spot i; pure [logIf lg (s / m.strike)]
  | .maxMoneyness lg => do
      let v ← prefixMax (m.spot.map (fun s => logIf lg (s / m.strike))) i
      pure [v]
  | .timeToMaturity =>
      let n := m.spot.length
      if n = 0 then .error .runtimeError
      else .ok [((n - (i % n) - 1 : Nat) : α) * m.dt]
  | .volatility => do let v ← idx m.volatility i; pure [v]
  | .variance => do let v ← idx m.variance i; pure [v]
  | .spot lg => do let s ← idx m.listed i; pure [logIf lg s]
  | .underlierSpot lg => do let s ← idx m.spot i; pure [logIf lg s]
  | .barrier thr up => do
      if up then
        let v ← prefixMax m.spot i
        pure [if thr ≤ v then 1 else 0]
      else
        let v ← prefixMin m.spot i
        pure [if v ≤ thr then 1 else 0]
  | .zeros => do let _ ← idx m.spot i; pure [0]
  | .ones => do let _ ← idx m.spot i; pure [1]
  | .empty => do let _ ← idx m.spot i; let o ← idx m.oracle i; pure [o]
  | .prevHedge => .ok prev

/-- all-steps evaluation `feature.get(None)`: one row per time step -/
def BaseFeature.getAll (f : BaseFeature α) (m : Market α) : Except Err (List (List α)) :=
  match f with
  | .moneyness lg => .ok (m.spot.map (fun s => [logIf lg (s / m.strike)]))
  | .maxMoneyness lg => .ok ((cummaxL (m.spot.map (fun s => logIf lg (s / m.strike)))).map (fun x => [x]))
  | .timeToMaturity =>
      let n := m.spot.length
      .ok ((List.range n).map (fun (i : Nat) => [((n - 1 : Nat) : α) * m.dt - ((i : Nat) : α) * m.dt]))
  | .volatility => .ok (m.volatility.map (fun x => [x]))
  | .variance => .ok (m.variance.map (fun x => [x]))
  | .spot lg => .ok (m.listed.map (fun s => [logIf lg s]))
  | .underlierSpot lg => .ok (m.spot.map (fun s => [logIf lg s]))
  | .barrier thr up =>
      if up then .ok ((cummaxL m.spot).map (fun v => [if thr ≤ v then 1 else 0]))
      else .ok ((cumminL m.spot).map (fun v => [if v ≤ thr then 1 else 0]))
  | .zeros => .ok (m.spot.map (fun _ => [0]))
  | .ones => .ok (m.spot.map (fun _ => [1]))
  | .empty => .ok ((List.zip m.spot m.oracle).map (fun p => [p.2]))
  | .prevHedge => .error .valueError

/-- `torch.cat([...], dim=-1)` of per-feature values at one step -/
def catAt (fs : List (BaseFeature α)) (m : Market α) (prev : List α) (i : Nat) :
    Except Err (List α) :=
  match fs with
  | [] => .ok []
  | f :: rest => do
      let a ← f.getAt m prev i
      let b ← catAt rest m prev i
      pure (a ++ b)

/-- row-wise concatenation of all-steps values (`n` rows) -/
def catAll (n : Nat) (fs : List (BaseFeature α)) (m : Market α) : Except Err (List (List α)) :=
  match fs with
  | [] => .ok (List.replicate n [])
  | f :: rest => do
      let a ← f.getAll m
      let b ← catAll n rest m
      if a.length ≠ n then .error .runtimeError     -- torch.cat size mismatch
      else pure (List.zipWith (· ++ ·) a b)

def Feature.getAt (f : Feature α) (m : Market α) (prev : List α) (i : Nat) : Except Err (List α) :=
  match f with
  | .base b => b.getAt m prev i
  | .moduleOutput g ins => do let x ← catAt ins m prev i; pure (g x)

def Feature.getAll (n : Nat) (f : Feature α) (m : Market α) : Except Err (List (List α)) :=
  match f with
  | .base b => b.getAll m
  | .moduleOutput g ins => do let x ← catAll n ins m; pure (x.map g)

/-- `FeatureList.get(i)` -/
def inputsAt (fs : List (Feature α)) (m : Market α) (prev : List α) (i : Nat) : Except Err (List α) :=
  match fs with
  | [] => .ok []
  | f :: rest => do
      let a ← f.getAt m prev i
      let b ← inputsAt rest m prev i
      pure (a ++ b)

/-- `FeatureList.get(None)` -/
def inputsAll (n : Nat) (fs : List (Feature α)) (m : Market α) : Except Err (List (List α)) :=
  match fs with
  | [] => .ok (List.replicate n [])
  | f :: rest => do
      let a ← f.getAll n m
      let b ← inputsAll n rest m
      if a.length ≠ n then .error .runtimeError
      else pure (List.zipWith (· ++ ·) a b)

/-- the state-dependent branch: loop over `time_step in range(n_steps - 1)`, threading
`prev_output`; returns the outputs in time order (without the duplicated last row) -/
def hedgeLoop (g : List α → List α) (fs : List (Feature α)) (m : Market α) :
    Nat → Nat → List α → Except Err (List (List α))
  | 0, _, _ => .ok []
  | k + 1, i, prev => do
      let x ← inputsAt fs m prev i
      let out := g x
      let rest ← hedgeLoop g fs m k (i + 1) out
      pure (out :: rest)

/-- replace the last row by the one before it (`output[..., -1, :] = output[..., -2, :]`) -/
def dupLast {β : Type} : List β → Except Err (List β)
  | [] => .error .runtimeError
  | [_] => .error .runtimeError
  | [x, _] => .ok [x, x]
  | x :: y :: z :: rest => do let r ← dupLast (y :: z :: rest); pure (x :: r)

/-- `outputs.append(outputs[-1])` -/
def appendLast {β : Type} (xs : List β) : Except Err (List β) :=
  match lastL xs with
  | none => .error .runtimeError
  | some l => .ok (xs ++ [l])

/-- `Hedger.compute_hedge` for one path: rows = time steps, columns = hedging instruments.
`n` = number of time steps of `hedge[0].spot`, `h` = number of hedging instruments. -/
def computeHedge (g : List α → List α) (fs : List (Feature α)) (m : Market α) (n h : Nat) :
    Except Err (List (List α)) :=
  if fs.any Feature.stateDependent then do
    let outs ← hedgeLoop g fs m (n - 1) 0 (List.replicate h 0)
    appendLast outs
  else do
    let x ← inputsAll n fs m
    dupLast (x.map g)

end
end PfVerif
