/-
  Model of the TIME GRID over a history of objects (C13, last clause: "every underlier and every
  buffer ... payoffs, features and hedges all use this same grid").  Builds on Model/InstrSys.lean
  (primaries with buffers carrying shape + generation; every simulation here IS
  `SOp.primSimulate` of that file) and on Model/Grid.lean (the step count is a parameter `N` of the
  transition function: `nStepsExact` over `Rat` for the theorems, `nStepsShipped` over `Float` in the
  driver).  This file adds

  * per primary: its step size `dt`, and a ghost record of the `time_horizon` of its last simulate
    together with the derivative it went through (`none`: `primary.simulate` called directly);
  * per derivative: its maturity, the registry `_underliers` (insertion-ordered dict name → primary),
    whether it has `OptionMixin`, what its payoff reads, and - for the PRE-fix `__setattr__` only - the
    primaries stored among the instance attributes (`shadow`);
  * commands: `maturity = M`, attribute assignment of a primary (repaired: `assign`; before commit
    "fix: an underlier assigned as an attribute lives in the registry only": `assignOld`),
    `register_underlier`, `derivative.simulate(n_paths)` (EVERY registered underlier, horizon =
    maturity), `primary.simulate(n_paths, time_horizon)`;
  * queries: which primary an accessor returns (`ul(i)`, `d.<name>`, `get_underlier(name)`,
    `underliers()`), shapes of all buffers of a primary, and (n_paths, n_steps) of
    `time_to_maturity`, of what the payoff reads, of every built-in feature, of `FeatureList.get(None)`,
    of `Hedger.compute_hedge` (default hedge: ALL underliers), of the listed price.

  Which accessor the code uses (instruments/derivative/base.py, features/features.py, nn/modules/hedger.py):
  * `OptionMixin.moneyness / log_moneyness / max_moneyness / max_log_moneyness / time_to_maturity`
    read `self.underlier`: the attribute NAMED "underlier" - an instance attribute if there is one
    (pre-fix only), else the registry entry of that name (`__getattr__`), else AttributeError;
  * payoffs of the built-in options, the features underlier_spot / underlier_log_spot / zeros / ones /
    empty / barrier / volatility / variance read `self.ul()` = the FIRST registry entry;
  * `simulate`, the default hedge and `to` walk the whole registry.

  Domain of the correspondence check (harness/c13.py, op "grid_sys"):
  * underlier names that are no other attribute of the object (`register_underlier` raises KeyError
    for those before anything changes: not modelled, as in Model/InstrSys.lean); values assigned are
    primaries (a non-primary value assigned under a registry name becomes an ordinary instance
    attribute in the repaired code too and is not modelled);
  * maturities M >= 0 and dt > 0 (the step count is a `Nat`; a negative count makes torch raise);
    RoughBergomiStock over at least two time points;
  * `ul(i)` with i >= 0; state-independent features in `compute_hedge` plus `prev_hedge`;
    the model of the hedger is `Naked(out_features = number of hedging instruments)`;
  * a listed derivative's pricer reads one buffer of `ul()` (as in InstrSys).

  Theorems: Lemmas/C13System.lean.
-/
import PfVerif.Model.InstrSys
import PfVerif.Model.Grid
namespace PfVerif.GridSys
open PfVerif PfVerif.InstrSys

/-! ## insertion-ordered dicts -/

/-- `OrderedDict.__setitem__`: an existing key keeps its position -/
def dictSet {β : Type} (m : List (String × β)) (k : String) (v : β) : List (String × β) :=
  if m.any (fun p => p.1 == k) then m.map (fun p => if p.1 == k then (k, v) else p) else m ++ [(k, v)]

def dictGet {β : Type} (m : List (String × β)) (k : String) : Option β :=
  (m.find? (fun p => p.1 == k)).map (·.2)

/-- `dict.pop(k, None)` -/
def dictDel {β : Type} (m : List (String × β)) (k : String) : List (String × β) :=
  m.filter (fun p => !(p.1 == k))

/-! ## state -/

/-- what `payoff_fn` reads -/
inductive PaySrc where
  | ul0                                            -- built-in options: `self.ul().spot`
  | named (first : String) (rest : List String)    -- user payoff: `get_underlier(n).spot[..., -1]` for each name, combined element-wise
  deriving DecidableEq, Repr

structure GDeriv (α : Type) where
  maturity : α
  reg : List (String × Nat)        -- `_underliers`: name → index of the primary
  shadow : List (String × Nat)     -- primaries among the instance attributes (`__dict__`), pre-fix `__setattr__` only
  mixin : Bool                     -- the class has `OptionMixin`
  pay : PaySrc
  pk : PayoffKind                  -- dtype rule of the payoff (InstrSys)
  pricer : Option String           -- listed: the buffer of `ul()` an affine pricer reads (InstrSys)
  deriving DecidableEq, Repr

structure GSys (α : Type) where
  prims : List Prim
  dts : List α                                   -- `dt` of each primary (same indices)
  last : List (Option (α × Option Nat))          -- ghost: horizon of the last simulate of each primary and the derivative it went through
  ders : List (GDeriv α)
  ambient : DType
  clock : Nat
  deriving DecidableEq, Repr

variable {α : Type}

/-- `ul(i)`: `list(self.underliers())[i]` -/
def GDeriv.ul (d : GDeriv α) (i : Nat) : Except QErr Nat :=
  match d.reg[i]? with
  | some x => .ok x.2
  | none => .error .indexError

/-- `get_underlier(name)` -/
def GDeriv.getUnderlier (d : GDeriv α) (name : String) : Except QErr Nat :=
  match dictGet d.reg name with
  | some p => .ok p
  | none => .error .attributeError

/-- `d.<name>`: instance attributes first, `__getattr__` = `get_underlier` only when that fails -/
def GDeriv.attr (d : GDeriv α) (name : String) : Except QErr Nat :=
  match dictGet d.shadow name with
  | some p => .ok p
  | none => d.getUnderlier name

/-- the InstrSys derivative seen through `ul()`; an empty registry (no `ul()`) is projected to
index 0 - the refinement theorems are about non-empty registries -/
def GDeriv.proj (d : GDeriv α) : Deriv :=
  ⟨match d.reg with | [] => 0 | x :: _ => x.2, d.pk, d.pricer⟩

/-- projection on Model/InstrSys.lean: forget step sizes, maturities, all registry entries but the first -/
def GSys.proj (s : GSys α) : Sys :=
  { prims := s.prims, derivs := s.ders.map GDeriv.proj, ambient := s.ambient, clock := s.clock }

/-- the InstrSys system in which the derivative's underlier is primary `i`: what an accessor that
returned primary `i` makes the InstrSys queries read -/
def GDeriv.view (d : GDeriv α) (s : GSys α) (i : Nat) : Sys :=
  { prims := s.prims, derivs := [⟨i, d.pk, d.pricer⟩], ambient := s.ambient, clock := s.clock }

/-! ## commands -/

/-- `primary.simulate(n_paths, time_horizon)`: `SOp.primSimulate` of InstrSys with
`n_steps = N time_horizon dt`; the ghost record notes horizon and route -/
def GSys.simPrim (N : α → α → Nat) (s : GSys α) (p np : Nat) (h : α) (via : Option Nat) : Except QErr (GSys α) :=
  match s.dts[p]? with
  | none => .error .noSuchObject
  | some dt =>
    match (SOp.primSimulate p np (N h dt)).step s.proj with
    | .error e => .error e
    | .ok b => .ok { s with prims := b.prims, clock := b.clock, last := s.last.set p (some (h, via)) }

/-- `for underlier in self.underliers(): underlier.simulate(n_paths, time_horizon=self.maturity)`;
an exception leaves the earlier underliers re-simulated -/
def GSys.simEach (N : α → α → Nat) (np : Nat) (h : α) (via : Option Nat) : GSys α → List Nat → GSys α × Option QErr
  | s, [] => (s, none)
  | s, p :: ps =>
    match s.simPrim N p np h via with
    | .error e => (s, some e)
    | .ok s' => GSys.simEach N np h via s' ps

def GSys.updDer (s : GSys α) (k : Nat) (f : GDeriv α → GDeriv α) : GSys α × Option QErr :=
  match s.ders[k]? with
  | none => (s, some .noSuchObject)
  | some d => ({ s with ders := s.ders.set k (f d) }, none)

inductive GOp (α : Type) where
  | setMaturity (k : Nat) (m : α)                  -- `d.maturity = m`
  | assign (k : Nat) (name : String) (p : Nat)     -- `setattr(d, name, primary)`, repaired `__setattr__`
  | assignOld (k : Nat) (name : String) (p : Nat)  -- the same before the repair
  | register (k : Nat) (name : String) (p : Nat)   -- `d.register_underlier(name, primary)`
  | derivSim (k np : Nat)                          -- `d.simulate(n_paths)`
  | primSim (p np : Nat) (h : α)                   -- `primary.simulate(n_paths, time_horizon=h)`
  deriving Repr

/-- one command: the system afterwards and the exception raised, if any -/
def GOp.step (N : α → α → Nat) (s : GSys α) : GOp α → GSys α × Option QErr
  | .setMaturity k m => s.updDer k (fun d => { d with maturity := m })
  | .assign k n p =>
    -- `self.register_underlier(name, value); self.__dict__.pop(name, None)`
    if p < s.prims.length then s.updDer k (fun d => { d with reg := dictSet d.reg n p, shadow := dictDel d.shadow n })
    else (s, some .noSuchObject)
  | .assignOld k n p =>
    -- `self.register_underlier(name, value); super().__setattr__(name, value)`
    if p < s.prims.length then s.updDer k (fun d => { d with reg := dictSet d.reg n p, shadow := dictSet d.shadow n p })
    else (s, some .noSuchObject)
  | .register k n p =>
    if p < s.prims.length then s.updDer k (fun d => { d with reg := dictSet d.reg n p })
    else (s, some .noSuchObject)
  | .derivSim k np =>
    match s.ders[k]? with
    | none => (s, some .noSuchObject)
    | some d => GSys.simEach N np d.maturity (some k) s (d.reg.map (·.2))
  | .primSim p np h =>
    match s.simPrim N p np h none with
    | .ok s' => (s', none)
    | .error e => (s, some e)

/-! ## queries -/

/-- the features computed by `OptionMixin` methods (they read `self.underlier`) -/
def viaMixin : Feat → Bool
  | .moneyness | .logMoneyness | .maxMoneyness | .maxLogMoneyness | .timeToMaturity => true
  | _ => false

/-- the primary a feature reads.  A derivative without `OptionMixin` has no `moneyness` /
`time_to_maturity`: `__getattr__` raises AttributeError -/
def GDeriv.featPrim (d : GDeriv α) (f : Feat) : Except QErr Nat :=
  if viaMixin f then (if d.mixin then d.attr "underlier" else .error .attributeError)
  else d.ul 0

/-- dtype and (n_paths, n_steps) of `feature.get(None)`: `Sys.featSrc` of InstrSys on the primary
the feature's accessor returns -/
def GSys.featSrc (s : GSys α) (k : Nat) (f : Feat) : Except QErr (DType × Shape) :=
  match s.ders[k]? with
  | none => .error .noSuchObject
  | some d =>
    match f with
    | .prevHedge => .error .valueError            -- "time_step for prev_output should be specified"
    | f =>
      if f = .listedSpot ∧ d.pricer = none then .error .valueError      -- "self is not listed."
      else
        match d.featPrim f with
        | .error e => .error e
        | .ok i => (d.view s i).featSrc 0 f

/-- `d.time_to_maturity(None)`: dtype and (n_paths, n_steps) -/
def GSys.ttm (s : GSys α) (k : Nat) : Except QErr (DType × Shape) := s.featSrc k .timeToMaturity

section
variable [Sub α] [Mul α] [NatCast α]

/-- one row of `d.time_to_maturity(None)`: `ttmAll` of Model/Grid.lean on the number of points of the
spot of `self.underlier` and on ITS `dt` -/
def GSys.ttmValues (s : GSys α) (k : Nat) : Except QErr (List α) :=
  match s.ttm k with
  | .error e => .error e
  | .ok x =>
    match s.ders[k]? with
    | none => .error .noSuchObject
    | some d =>
      match d.attr "underlier" with
      | .error e => .error e
      | .ok i =>
        match s.dts[i]? with
        | none => .error .noSuchObject
        | some dt => .ok (ttmAll x.2.2 dt)
end

def GSys.spotOf (s : GSys α) (i : Nat) : Except QErr (DType × Shape) :=
  match s.prims[i]? with
  | none => .error .noSuchObject
  | some p => p.buf "spot"

/-- dtype and (n_paths, n_steps) of every tensor `payoff_fn` reads -/
def GSys.payoffInputs (s : GSys α) (k : Nat) : Except QErr (List (DType × Shape)) :=
  match s.ders[k]? with
  | none => .error .noSuchObject
  | some d =>
    match d.pay with
    | .ul0 =>
      match d.ul 0 with
      | .error e => .error e
      | .ok i => (s.spotOf i).map (fun x => [x])
    | .named n ns =>
      mapE (fun n => match d.getUnderlier n with
                     | .error e => .error e
                     | .ok i => s.spotOf i) (n :: ns)

/-- broadcasting of the path dimension in an element-wise combination -/
def bcast (a b : Nat) : Except QErr Nat :=
  if a = b then .ok a else if a = 1 then .ok b else if b = 1 then .ok a else .error .runtimeError

def bcastAll (a : Nat) : List Nat → Except QErr Nat
  | [] => .ok a
  | b :: bs =>
    match bcast a b with
    | .error e => .error e
    | .ok c => bcastAll c bs

/-- `d.payoff()`: dtype and number of paths -/
def GSys.payoff (s : GSys α) (k : Nat) : Except QErr (DType × Nat) :=
  match s.ders[k]? with
  | none => .error .noSuchObject
  | some d =>
    match d.pay with
    | .ul0 =>
      match d.ul 0 with
      | .error e => .error e
      | .ok i => (d.view s i).payoff 0
    | .named _ _ =>
      match s.payoffInputs k with
      | .error e => .error e
      | .ok [] => .error .runtimeError                     -- (does not occur: `named` lists at least one name)
      | .ok (x0 :: rest) =>
        if (x0 :: rest).any (fun x => x.2.2 == 0) then .error .indexError     -- `spot[..., -1]`
        else
          match bcastAll x0.2.1 (rest.map (·.2.1)) with
          | .error e => .error e
          | .ok n => .ok (numT s.ambient (catDType x0.1 (rest.map (·.1))), n)

/-- `derivative.spot` of a listed derivative -/
def GSys.listed (s : GSys α) (k : Nat) : Except QErr (DType × Shape) :=
  match s.ders[k]? with
  | none => .error .noSuchObject
  | some d =>
    if d.pricer = none then .error .valueError
    else
      match d.ul 0 with
      | .error e => .error e
      | .ok i => (d.view s i).listed 0

def GSys.feature (s : GSys α) (k : Nat) (f : Feat) : Except QErr TInfo :=
  (s.featSrc k f).map (fun x => ⟨x.1, [x.2.1, x.2.2, 1]⟩)

/-- `FeatureList(fs).of(d).get(None)`: `torch.cat` along the last axis - RuntimeError when the
features are not all on one grid -/
def GSys.features (s : GSys α) (k : Nat) (fs : List Feat) : Except QErr TInfo :=
  match mapE (s.featSrc k) fs with
  | .error e => .error e
  | .ok [] => .error .runtimeError
  | .ok (x0 :: rest) =>
    if rest.any (fun x => x.2 != x0.2) then .error .runtimeError
    else .ok ⟨catDType x0.1 (rest.map (·.1)), [x0.2.1, x0.2.2, fs.length]⟩

/-- `Hedger._get_hedge`: the default is `list(derivative.underliers())` - every registry entry -/
def GSys.hedgeRefs (s : GSys α) (k : Nat) (hedge : Option (List HRef)) : Except QErr (List HRef) :=
  match hedge with
  | some l => .ok l
  | none =>
    match s.ders[k]? with
    | some d => .ok (d.reg.map (fun x => HRef.prim x.2))
    | none => .error .noSuchObject

/-- `Sys.featStep` of InstrSys over `GSys.featSrc` -/
def GSys.featStep (s : GSys α) (k : Nat) (h0 : DType × Shape) (f : Feat) : Except QErr (DType × Shape) :=
  match f with
  | .prevHedge => .ok (newLike h0.1, h0.2)
  | f =>
    match s.featSrc k f with
    | .error e => .error e
    | .ok x => if f.indexed && x.2.2 == 0 then .error .indexError else .ok x

/-- `Sys.hedgePre` of InstrSys over `GSys.featSrc` and the default hedge above; the spots of the
hedging instruments are those of the projection (a listed derivative's price reads `ul()`) -/
def GSys.hedgePre (s : GSys α) (k : Nat) (feats : List Feat) (hedge : Option (List HRef)) : Except QErr HedgePre :=
  match s.hedgeRefs k hedge with
  | .error e => .error e
  | .ok [] => .error .indexError
  | .ok (r0 :: rs) =>
    match s.proj.hedgeSpot r0 with
    | .error e => .error e
    | .ok h0 =>
      match s.proj.checkHedges h0.2 (r0 :: rs) with
      | .error e => .error e
      | .ok _ =>
        if feats.contains .prevHedge then
          if h0.2.2 ≤ 1 then .error .indexError
          else
            match mapE (s.featStep k h0) feats with
            | .error e => .error e
            | .ok [] => .error .runtimeError
            | .ok (x0 :: rest) =>
              if (x0 :: rest).any (fun x => x.2.1 != h0.2.1) then .error .runtimeError
              else
                .ok ⟨catDType x0.1 (rest.map (·.1)), [h0.2.1, (r0 :: rs).length, h0.2.2],
                     (feats.zip (x0 :: rest)).any (fun fx => fx.1.indexed && fx.2.2.2 + 1 < h0.2.2)⟩
        else
          match mapE (s.featSrc k) feats with
          | .error e => .error e
          | .ok [] => .error .runtimeError
          | .ok (x0 :: rest) =>
            if rest.any (fun x => x.2 != x0.2) then .error .runtimeError
            else .ok ⟨catDType x0.1 (rest.map (·.1)), [x0.2.1, (r0 :: rs).length, x0.2.2], x0.2.2 ≤ 1⟩

/-- `Hedger.compute_hedge(derivative, hedge)`: dtype and shape `(N, H, T)` -/
def GSys.computeHedge (s : GSys α) (k : Nat) (cfg : HedgeCfg) : Except QErr TInfo :=
  match s.hedgePre k cfg.feats cfg.hedge with
  | .error e => .error e
  | .ok pre =>
    match modelOut s.ambient cfg.model pre.input with
    | .error e => .error e
    | .ok o => if pre.late then .error .indexError else .ok ⟨o, pre.shape⟩

/-- `named_buffers()` of a primary: names and shapes -/
def GSys.buffers (s : GSys α) (p : Nat) : Except QErr (List (String × Shape)) :=
  match s.prims[p]? with
  | none => .error .noSuchObject
  | some q => .ok (q.info.map (fun x => (x.1, x.2.shape)))

/-! ## commands and histories -/

inductive GQuery where
  | buffers (p : Nat)
  | ul (k i : Nat)
  | attr (k : Nat) (name : String)
  | getUnderlier (k : Nat) (name : String)
  | underliers (k : Nat)
  | ttm (k : Nat)
  | ttmValues (k : Nat)
  | payoffInputs (k : Nat)
  | payoff (k : Nat)
  | feature (k : Nat) (f : Feat)
  | features (k : Nat) (fs : List Feat)
  | hedge (k : Nat) (cfg : HedgeCfg)
  | listed (k : Nat)
  deriving Repr

inductive GAnswer (α : Type) where
  | prim (i : Nat)
  | prims (l : List Nat)
  | bufs (l : List (String × Shape))
  | shape (l : List Nat)
  | shapes (l : List Shape)
  | values (l : List α)
  deriving Repr

def GSys.der (s : GSys α) (k : Nat) : Except QErr (GDeriv α) :=
  match s.ders[k]? with
  | some d => .ok d
  | none => .error .noSuchObject

def GQuery.eval [Sub α] [Mul α] [NatCast α] (s : GSys α) : GQuery → Except QErr (GAnswer α)
  | .buffers p => (s.buffers p).map .bufs
  | .ul k i => match s.der k with | .error e => .error e | .ok d => (d.ul i).map .prim
  | .attr k n => match s.der k with | .error e => .error e | .ok d => (d.attr n).map .prim
  | .getUnderlier k n => match s.der k with | .error e => .error e | .ok d => (d.getUnderlier n).map .prim
  | .underliers k => (s.der k).map (fun d => .prims (d.reg.map (·.2)))
  | .ttm k => (s.ttm k).map (fun x => .shape [x.2.1, x.2.2])
  | .ttmValues k => (s.ttmValues k).map .values
  | .payoffInputs k => (s.payoffInputs k).map (fun l => .shapes (l.map (·.2)))
  | .payoff k => (s.payoff k).map (fun x => .shape [x.2])
  | .feature k f => (s.feature k f).map (fun t => .shape t.shape)
  | .features k fs => (s.features k fs).map (fun t => .shape t.shape)
  | .hedge k cfg => (s.computeHedge k cfg).map (fun t => .shape t.shape)
  | .listed k => (s.listed k).map (fun x => .shape [x.2.1, x.2.2])

inductive GCmd (α : Type) where
  | op (o : GOp α)
  | ask (q : GQuery)
  deriving Repr

inductive GReply (α : Type) where
  | done
  | raised (e : QErr)
  | answer (a : GAnswer α)
  deriving Repr

def GCmd.exec [Sub α] [Mul α] [NatCast α] (N : α → α → Nat) (s : GSys α) : GCmd α → GSys α × GReply α
  | .op o =>
    match o.step N s with
    | (s', none) => (s', .done)
    | (s', some e) => (s', .raised e)
  | .ask q =>
    match q.eval s with
    | .ok a => (s, .answer a)
    | .error e => (s, .raised e)

/-- the system after a history of operations -/
def GSys.run (N : α → α → Nat) (s : GSys α) : List (GOp α) → GSys α
  | [] => s
  | o :: rest => GSys.run N (o.step N s).1 rest

/-- `__init__` of a derivative: `register_underlier` in this order, then the maturity -/
structure DerivSpec (α : Type) where
  maturity : α
  regs : List (String × Nat)
  mixin : Bool
  pay : PaySrc
  pk : PayoffKind
  pricer : Option String
  deriving Repr

def DerivSpec.build (d : DerivSpec α) : GDeriv α :=
  { maturity := d.maturity, reg := d.regs.foldl (fun m x => dictSet m x.1 x.2) [], shadow := [],
    mixin := d.mixin, pay := d.pay, pk := d.pk, pricer := d.pricer }

/-- construction: primaries `kind(dt=dt, dtype=init)` under the ambient default (`Sys.init` of
InstrSys), derivatives over existing primaries -/
def GSys.init (ambient : DType) (prims : List ((PrimKind × Option DType) × α)) (ders : List (DerivSpec α)) :
    Except QErr (GSys α) :=
  match Sys.init ambient (prims.map (·.1)) [] with
  | .error e => .error e
  | .ok b =>
    if ders.all (fun d => d.regs.all (fun x => x.2 < prims.length)) then
      .ok { prims := b.prims, dts := prims.map (·.2), last := prims.map (fun _ => none),
            ders := ders.map DerivSpec.build, ambient := ambient, clock := b.clock }
    else .error .noSuchObject

/-- the exact step count of the property statement as a number of time points -/
def nExact (m dt : Rat) : Nat := (nStepsExact m dt).toNat

end PfVerif.GridSys
