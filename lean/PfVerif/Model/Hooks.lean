/-
  Model of `torch.nn.Module`'s hook protocol as it acts on `pfhedge.nn.Hedger`
  (nn/modules/hedger.py, _utils/hook.py), for ONE path.

  `Hedger.__init__` registers the forward hook `save_prev_output`, which stores the output it is
  handed in the buffer `prev_output` and returns `None`; `Hedger.forward(input) = self.model(input)`.
  `Module.__call__` runs
      1. the forward pre-hooks in order — each may replace the input,
      2. `forward`,
      3. the forward hooks in order (hooks registered with `prepend=True` come first) — each is handed
         the output as the hooks before it left it and may replace it for the hooks after it and for
         the caller.
  Hooks registered on the inner model act inside `self.model(input)` by the same protocol.  So WHICH
  value `prev_output` (hence the feature `prev_hedge`) holds depends on where a user hook sits: the
  raw model output if the user hook was appended after pfhedge's own hook, the processed one if it
  was prepended or sits on the inner model.

  A hook is handed whole tensors.  For one path a tensor is a list of rows (time steps × columns):
  the batched branch of `compute_hedge` calls the hedger once on the `n-1` rows `input[..., :-1, :]`,
  the state-dependent branch once per step on a single row.  Hook maps are therefore maps on lists of
  rows (`TMap`); the hedging module `g` itself stays row-wise as in Model/Hedger.lean (DESIGN §7).
  User hooks are modelled as pure maps of the value they may replace (the output for a forward hook,
  the input for a pre-hook); hooks that keep state of their own are outside the model, and so are
  torch's process-wide hooks (`register_module_forward_hook`), `always_call=True` (differs only when
  `forward` raises) and backward hooks.  `with_kwargs=True` only changes the signature a hook is
  called with.  A hook that returns `None` is the identity map.

  Totalisation to be aware of: `readPrev` demands that `prev_output` holds exactly one time step when
  the features of the next step are built (torch.cat with single-step features raises otherwise;
  when `prev_hedge` is the only feature torch would let any shape through).  Hooks that act on one
  time step (`liftRow`, all theorems of Lemmas/C02Hooks.lean about `rowHooked`) never get there.
-/
import PfVerif.Model.Hedger
namespace PfVerif

/-- a map on a tensor of one path: rows = time steps -/
abbrev TMap (α : Type) := List (List α) → List (List α)

/-- a forward hook registered on the hedger -/
inductive FwdHook (α : Type) where
  /-- pfhedge's `save_prev_output`: `module.register_buffer("prev_output", output)`, returns `None` -/
  | savePrev
  /-- a user hook returning a replacement of the output (`fun x => x` = a hook returning `None`) -/
  | user (f : TMap α)

/-- A hedger with hooks.  All four lists are in EXECUTION order (torch: registration order, hooks
registered with `prepend=True` in front, the one prepended last first). -/
structure HookedHedger (α : Type) where
  /-- `hedger.model`, row-wise -/
  model : List α → List α
  /-- forward pre-hooks of the hedger -/
  preHooks : List (TMap α)
  /-- forward hooks of the hedger, pfhedge's own among them -/
  hooks : List (FwdHook α)
  /-- forward pre-hooks of `hedger.model` -/
  modelPreHooks : List (TMap α)
  /-- forward hooks of `hedger.model` -/
  modelHooks : List (TMap α)

/-- run maps one after the other, each on the result of the one before -/
def applyAll {β : Type} : List (β → β) → β → β
  | [], x => x
  | f :: fs, x => applyAll fs (f x)

/-- the forward-hook loop of `Module._call_impl`: `out` = the output as the hooks so far left it,
`st` = the buffer `prev_output`; returns (what the caller gets, `prev_output` afterwards) -/
def runHooks {α : Type} : List (FwdHook α) → List (List α) → List (List α) →
    List (List α) × List (List α)
  | [], out, st => (out, st)
  | .savePrev :: rest, out, _ => runHooks rest out out
  | .user f :: rest, out, st => runHooks rest (f out) st

/-- the user maps among the forward hooks, in execution order -/
def userMaps {α : Type} : List (FwdHook α) → List (TMap α)
  | [] => []
  | .savePrev :: rest => userMaps rest
  | .user f :: rest => f :: userMaps rest

/-- `self.model(input)`: pre-hooks of the model, the model on every row, forward hooks of the model -/
def callModel {α : Type} (hh : HookedHedger α) (x : List (List α)) : List (List α) :=
  applyAll hh.modelHooks ((applyAll hh.modelPreHooks x).map hh.model)

/-- `self(input)` on the hedger with `prev_output = st` before the call:
(output seen by the caller, `prev_output` after the call) -/
def callHedger {α : Type} (hh : HookedHedger α) (st : List (List α)) (x : List (List α)) :
    List (List α) × List (List α) :=
  runHooks hh.hooks (callModel hh (applyAll hh.preHooks x)) st

/-- The hedgers that arise from `Hedger(g, inputs)` by registering user hooks: pfhedge's own hook
sits after the `prepended` user hooks and before the `appended` ones. -/
def HookedHedger.pfhedge {α : Type} (g : List α → List α)
    (prepended appended pre modelPre modelHooks : List (TMap α)) : HookedHedger α :=
  { model := g, preHooks := pre,
    hooks := prepended.map FwdHook.user ++ FwdHook.savePrev :: appended.map FwdHook.user,
    modelPreHooks := modelPre, modelHooks := modelHooks }

/-- `Hedger(g, inputs)` as constructed: the only hook is pfhedge's own -/
def HookedHedger.plain {α : Type} (g : List α → List α) : HookedHedger α :=
  HookedHedger.pfhedge g [] [] [] [] []

/-- a row-wise map lifted to tensors (an element-wise or per-time-step post-processing) -/
def liftRow {α : Type} (f : List α → List α) : TMap α := List.map f

/-- the pfhedge-shaped hedger all of whose user hooks act on one time step: `B` prepended to and `A`
appended after pfhedge's own forward hook, pre-hooks `P`, pre-hooks `MP` and forward hooks `MH` on
the inner model -/
def rowHooked {α : Type} (g : List α → List α) (B A P MP MH : List (List α → List α)) :
    HookedHedger α :=
  HookedHedger.pfhedge g (B.map liftRow) (A.map liftRow) (P.map liftRow) (MP.map liftRow)
    (MH.map liftRow)

/-- the hook-free module `rowHooked g B A P MP MH` amounts to as far as the buffer `prev_output` is
concerned: hedger pre-hooks, model pre-hooks, the model, model hooks, prepended hedger hooks — NOT
the appended hedger hooks -/
def impliedModel {α : Type} (g : List α → List α) (B P MP MH : List (List α → List α)) :
    List α → List α :=
  fun x => applyAll B (applyAll MH (g (applyAll MP (applyAll P x))))

/-- one step of the state-dependent loop -/
structure HookStep (α : Type) where
  /-- the value of `prev_output` the features read at this step -/
  read : List α
  /-- what `self(input)` returned to `compute_hedge` -/
  out : List (List α)
  /-- `prev_output` after the call -/
  stored : List (List α)

/-- `prev_output` as a feature row: it is concatenated (`torch.cat(dim=-1)`) with single-step
features, which needs exactly one time step -/
def readPrev {α : Type} (stored : List (List α)) : Except Err (List α) :=
  match stored with
  | [p] => .ok p
  | _ => .error .runtimeError

section
variable {α : Type} [Add α] [Sub α] [Mul α] [Div α] [Neg α] [OfNat α 0] [OfNat α 1]
  [LE α] [DecidableLE α] [Max α] [Min α] [NatCast α] [Transc α]

/-- the state-dependent branch: `for time_step in range(n_steps - 1): outputs.append(self(
inputs.get(time_step)))`, the features reading the STORED value of the call before -/
def hookedLoop (hh : HookedHedger α) (fs : List (Feature α)) (m : Market α) :
    Nat → Nat → List (List α) → Except Err (List (HookStep α))
  | 0, _, _ => .ok []
  | k + 1, i, st => do
      let prev ← readPrev st
      let x ← inputsAt fs m prev i
      let c := callHedger hh st [x]
      let rest ← hookedLoop hh fs m k (i + 1) c.2
      pure (⟨prev, c.1, c.2⟩ :: rest)

/-- the steps of the state-dependent branch, started by `save_prev_output(self, (), zeros)` (a
direct call, no hook involved) -/
def hedgeTraceHooked (hh : HookedHedger α) (fs : List (Feature α)) (m : Market α) (n h : Nat) :
    Except Err (List (HookStep α)) :=
  hookedLoop hh fs m (n - 1) 0 [List.replicate h 0]

/-- `Hedger.compute_hedge` of a hedger with hooks, one path.
State-dependent inputs: one call per step, `outputs.append(outputs[-1])`, `torch.cat(dim=-2)`.
Otherwise: one call on all rows but the last, the last row of the result repeated. -/
def computeHedgeHooked (hh : HookedHedger α) (fs : List (Feature α)) (m : Market α) (n h : Nat) :
    Except Err (List (List α)) :=
  if fs.any Feature.stateDependent then do
    let steps ← hedgeTraceHooked hh fs m n h
    let outs ← appendLast (steps.map HookStep.out)
    pure outs.flatten
  else do
    let x ← inputsAll n fs m
    appendLast (callHedger hh [] x.dropLast).1

end
end PfVerif
