/-
  Numeric model of `Hedger.fit` (nn/modules/hedger.py:505-621): WHAT numbers the training protocol
  produces.  Model/Fit.lean describes the protocol as a list of observable events; here the same
  protocol is executed on data:

      for every epoch (one freshly simulated training batch, given as data):
        optimizer.zero_grad()                 the `.grad` slot becomes `None`
        loss = criterion(pl(batch; θ))        `lossAt`   = `lossOfH` of Model/Loss.lean at the scalar
        loss.backward()                       `gradOf`   = the ε-parts of `lossOfH` at dual numbers, every
                                              parameter seeded in turn (what the driver op "grad_h"
                                              computes); ACCUMULATED into the `.grad` slot as torch does
        optimizer.step()                      `optStep`  = torch.optim.SGD / torch.optim.Adam on the slot
        validation (optional)                 `n_times` evaluations of `lossAt` at the NEW parameters,
                                              each on its own batch, combined by `ensemble_mean`;
                                              no parameter change

  Parameters are the flat list of an MLP's weights and biases, layer by layer, weights row-major,
  then the biases (`flatParams`; the layout of `torch.nn.Module.parameters()` for a Sequential of
  Linear layers and of `flatParams` / `seedLayers` in Driver/Grad.lean); `layersOf shape θ` rebuilds
  the layers.

  Optimisers, transcribed from torch 2.x `_single_tensor_sgd` / `_single_tensor_adam` (the CPU
  default: no foreach, no fused, not capturable, not differentiable, `maximize = False`):
    SGD(lr, momentum, weight_decay), dampening 0, nesterov off
        g ← g + wd·p                          only when wd ≠ 0      (`grad.add(param, alpha=wd)`)
        buf ← g (first step) | buf·μ + g      only when μ ≠ 0       (`buf.mul_(μ).add_(g, alpha=1)`)
        p ← p + (−lr)·(buf | g)                                     (`param.add_(grad, alpha=-lr)`)
    Adam(lr, (β₁, β₂), eps, weight_decay), amsgrad off, weight decay not decoupled
        t ← t + 1;  g ← g + wd·p (when wd ≠ 0)
        m ← lerp(m, g, 1 − β₁)                                      (`exp_avg.lerp_(grad, 1 - beta1)`)
        v ← v·β₂ + (1 − β₂)·g·g                                     (`mul_(beta2).addcmul_(g, g, value=1-beta2)`)
        step_size = lr / (1 − β₁^t);   denom = √v / (1 − β₂^t)^0.5 + eps
        p ← p + (−step_size)·m / denom                              (`param.addcdiv_(m, denom, value=-step_size)`)
  The order of the floating-point operations is the one of the ATen scalar kernels (`a + alpha*b`,
  `self + value*t1*t2`, `self + value*t1/t2`, `lerp`: `|w| < 0.5 ? a + w(b−a) : b − (b−a)(1−w)`);
  the vectorised kernels fuse some multiply-adds, so the correspondence is up to rounding.

  Not modelled: parameters of the criterion (OCE's `w`) as trainable parameters (an optimiser built
  by `fit` from a class sees `self.model.parameters()` only); dampening, nesterov, maximize, amsgrad,
  decoupled weight decay; learning-rate schedulers.

  Scalar-generic and executable: the driver op "fit_num" (Driver/FitNum.lean) runs `fitNum` at `Float`
  (gradients at `Dual Float`); the theorems of Lemmas/C15Num.lean are about it at `ℝ`.  Core Lean only.
-/
import PfVerif.Model.Loss
import PfVerif.Model.Module
namespace PfVerif
namespace FitNum

/-- the affine layers of an MLP: (weight matrix as a list of rows, bias vector) -/
abbrev Layers (α : Type) := List (List (List α) × List α)

/-- a batch of simulated paths: market data and hedging instruments of every path -/
abbrev Batch (α : Type) := List (Market α × List (HedgeInstr α))

section layout
variable {α : Type}

/-- all parameters as a flat list: layer by layer, the weights row-major, then the biases -/
def flatParams (ls : Layers α) : List α := ls.flatMap (fun l => l.1.flatten ++ l.2)

/-- number of columns of a weight matrix (length of its first row) -/
def colsOf (w : List (List α)) : Nat :=
  match w with
  | [] => 0
  | r :: _ => r.length

/-- (rows, columns) of every layer's weight matrix (`(out_features, in_features)`) -/
def shapeOf (ls : Layers α) : List (Nat × Nat) := ls.map (fun l => (l.1.length, colsOf l.1))

/-- `r` rows of `c` entries each, read off a flat list -/
def rowsOf (c : Nat) : Nat → List α → List (List α)
  | 0, _ => []
  | r + 1, xs => xs.take c :: rowsOf c r (xs.drop c)

/-- rebuild the layers from the flat parameter list (inverse of `flatParams` on rectangular layers) -/
def layersOf : List (Nat × Nat) → List α → Layers α
  | [], _ => []
  | (r, c) :: sh, xs =>
    (rowsOf c r xs, (xs.drop (r * c)).take r) :: layersOf sh (xs.drop (r * c + r))

/-- number of parameters of a shape -/
def nParams : List (Nat × Nat) → Nat
  | [] => 0
  | (r, c) :: sh => r * c + r + nParams sh

end layout

/-- what is fixed during a fit: the architecture, the input features, the derivative's payoff and
clauses, `pl`'s `deduct_first_cost`, the criterion -/
structure FitSpec (α : Type) where
  shape : List (Nat × Nat)
  feats : List (BaseFeature α)
  payoff : PayoffSpec α
  reg : List (String × Clause α)
  first : Bool
  crit : CritH α

/-- the data of one epoch: the training batch and, when validation is on, the `n_times` batches of
the validation loss (each evaluation simulates its own) -/
structure EpochData (α : Type) where
  train : Batch α
  val : Option (List (Batch α))

/-- `torch.optim.SGD(lr, momentum, weight_decay)` / `torch.optim.Adam(lr, betas, eps, weight_decay)` -/
inductive OptSpec (α : Type) where
  | sgd (lr momentum weightDecay : α)
  | adam (lr beta1 beta2 eps weightDecay : α)

/-- `optimizer.state`: the number of steps taken (Adam's `state['step']`), SGD's `momentum_buffer`
(`None` before the first step), Adam's `exp_avg` / `exp_avg_sq` -/
structure OptState (α : Type) where
  steps : Nat
  buf : Option (List α)
  expAvg : List α
  expAvgSq : List α

/-- the parameters, the optimiser's state and the parameters' `.grad` slot (`None` after
`zero_grad()`, whose default is `set_to_none=True`) -/
structure TrainState (α : Type) where
  θ : List α
  opt : OptState α
  grad : Option (List α)

/-- what one epoch produces -/
structure EpochOut (α : Type) where
  /-- the parameters after the optimiser step -/
  params : List α
  /-- the training loss (value of the criterion on the training batch at the OLD parameters) -/
  trainLoss : α
  /-- the gradient the optimiser saw (content of the `.grad` slot at `step()`) -/
  grad : List α
  /-- the individual validation evaluations (at the NEW parameters) -/
  valEvals : List α
  /-- `history.append(loss.item())`: their ensemble mean; `none` when validation is off -/
  valLoss : Option α

structure FitOut (α : Type) where
  epochs : List (EpochOut α)
  final : TrainState α

section
variable {α : Type}

/-- the parameters after every epoch -/
def FitOut.params (o : FitOut α) : List (List α) := o.epochs.map (fun e => e.params)
def FitOut.trainLosses (o : FitOut α) : List α := o.epochs.map (fun e => e.trainLoss)
/-- the returned history (one entry per epoch when validation is on) -/
def FitOut.history (o : FitOut α) : List α := o.epochs.filterMap (fun e => e.valLoss)
/-- number of `optimizer.step()` calls that found a gradient -/
def FitOut.steps (o : FitOut α) : Nat := o.final.opt.steps
/-- number of criterion evaluations: one per training batch, plus the validation evaluations -/
def FitOut.lossEvals (o : FitOut α) : Nat := (o.epochs.map (fun e => 1 + e.valEvals.length)).sum
def FitOut.valEvalCount (o : FitOut α) : Nat := (o.epochs.map (fun e => e.valEvals.length)).sum

end

section
variable {α : Type} [Add α] [Sub α] [Mul α] [Div α] [Neg α] [OfNat α 0] [OfNat α 1] [OfNat α 2]
  [OfNat α 3] [LE α] [DecidableLE α] [Max α] [Min α] [NatCast α] [Transc α] [TranscPow α]

/-! ### the loss and its gradient -/

/-- the parameter list as dual numbers with parameter `q` seeded (ε = 1), the others constants -/
def seedFlat : List α → Nat → List (Dual α)
  | [], _ => []
  | x :: xs, 0 => Dual.var x :: xs.map Dual.const
  | x :: xs, q + 1 => Dual.const x :: seedFlat xs q

/-- `criterion(compute_portfolio(derivative), derivative.payoff())` on a batch at parameters `θ` -/
def lossAt (spec : FitSpec α) (θ : List α) (b : Batch α) : Except Err α :=
  lossOfH (mlpL (layersOf spec.shape θ)) (spec.feats.map Feature.base) b spec.payoff spec.reg
    spec.first (applyCritH spec.crit)

/-- the same loss at dual numbers, parameter `q` seeded: everything but the parameters is a
constant (`Dual.liftPaths`, `liftSpec`, `liftReg`, `liftCrit false`, `liftBase`) -/
def lossDual (spec : FitSpec α) (θ : List α) (b : Batch α) (q : Nat) : Except Err (Dual α) :=
  lossOfH (mlpL (layersOf spec.shape (seedFlat θ q)))
    (spec.feats.map (fun f => Feature.base (Dual.liftBase f))) (Dual.liftPaths b)
    (Dual.liftSpec spec.payoff) (Dual.liftReg spec.reg) spec.first
    (applyCritH (Dual.liftCrit false spec.crit))

/-- `loss.backward()`: one forward pass at dual numbers per parameter; component `q` is the ε-part
with parameter `q` seeded -/
def gradOf (spec : FitSpec α) (θ : List α) (b : Batch α) : Except Err (List α) :=
  (List.range θ.length).mapM (fun q => match lossDual spec θ b q with
    | .ok L => .ok L.eps
    | .error e => .error e)

/-! ### the optimisers -/

/-- `x != 0` is false -/
def isZero (x : α) : Bool := decide (x ≤ 0) && decide ((0 : α) ≤ x)

/-- `p.add(g, alpha=a)`: `p + a·g` elementwise -/
def addScaled (p : List α) (a : α) (g : List α) : List α :=
  List.zipWith (fun pi gi => pi + a * gi) p g

/-- `if weight_decay != 0: grad = grad.add(param, alpha=weight_decay)` -/
def withDecay (wd : α) (g p : List α) : List α := if isZero wd then g else addScaled g wd p

/-- `torch.lerp(a, b, w)` -/
def lerpS (a b w : α) : α :=
  if (1 : α) / 2 ≤ absS w then b - (b - a) * (1 - w) else a + w * (b - a)

/-- `torch.optim.SGD.step()` on parameters `p` with gradient `g` -/
def sgdStep (lr mu wd : α) (s : OptState α) (p g : List α) : List α × OptState α :=
  let g1 := withDecay wd g p
  if isZero mu then (addScaled p (-lr) g1, { s with steps := s.steps + 1 })
  else
    let b := match s.buf with
      | none => g1
      | some b => List.zipWith (fun bi gi => bi * mu + gi) b g1
    (addScaled p (-lr) b, { s with steps := s.steps + 1, buf := some b })

/-- `torch.optim.Adam.step()` on parameters `p` with gradient `g` -/
def adamStep (lr b1 b2 eps wd : α) (s : OptState α) (p g : List α) : List α × OptState α :=
  let t := s.steps + 1
  let g1 := withDecay wd g p
  let m := List.zipWith (fun mi gi => lerpS mi gi (1 - b1)) s.expAvg g1
  let v := List.zipWith (fun vi gi => vi * b2 + (1 - b2) * gi * gi) s.expAvgSq g1
  let bc1 := 1 - TranscPow.pow b1 (t : α)
  let bc2 := 1 - TranscPow.pow b2 (t : α)
  let stepSize := lr / bc1
  let bc2s := TranscPow.pow bc2 ((1 : α) / 2)
  let denom := v.map (fun vi => Transc.sqrt vi / bc2s + eps)
  (zipWith3L (fun pi mi di => pi + (-stepSize) * mi / di) p m denom,
   { s with steps := t, expAvg := m, expAvgSq := v })

def optStep (o : OptSpec α) (s : OptState α) (p g : List α) : List α × OptState α :=
  match o with
  | .sgd lr mu wd => sgdStep lr mu wd s p g
  | .adam lr b1 b2 eps wd => adamStep lr b1 b2 eps wd s p g

/-- a freshly constructed optimiser over `n` parameters (Adam's moments start at zero) -/
def OptState.init (n : Nat) : OptState α := ⟨0, none, List.replicate n 0, List.replicate n 0⟩

def TrainState.init (θ : List α) : TrainState α := ⟨θ, OptState.init θ.length, none⟩

/-! ### the protocol -/

/-- `optimizer.zero_grad()` -/
def TrainState.zeroGrad (st : TrainState α) : TrainState α := { st with grad := none }

/-- `loss.backward()`: autograd ACCUMULATES into `.grad` (assigns when it is `None`) -/
def TrainState.backward (st : TrainState α) (g : List α) : TrainState α :=
  { st with grad := some (match st.grad with
      | none => g
      | some a => List.zipWith (· + ·) a g) }

/-- `optimizer.step()`: parameters without a gradient are skipped -/
def TrainState.step (o : OptSpec α) (st : TrainState α) : TrainState α :=
  match st.grad with
  | none => st
  | some g => let r := optStep o st.opt st.θ g; { st with θ := r.1, opt := r.2 }

/-- the validation half of an epoch at parameters `θ`: no gradient, no parameter change; the
`n_times` evaluations are combined by `ensembleMean` (Model/Risk.lean: `f()` when `n_times = 1`,
otherwise `stack([...]).mean(0)`; `torch.stack([])` is a RuntimeError) -/
def validate (spec : FitSpec α) (θ : List α) :
    Option (List (Batch α)) → Except Err (List α × Option α)
  | none => .ok ([], none)
  | some bs =>
    match bs.mapM (lossAt spec θ) with
    | .error e => .error e
    | .ok vs =>
      match ensembleMean vs with
      | .error e => .error e
      | .ok v => .ok (vs, some v)

/-- one epoch of `fit` -/
def epoch (spec : FitSpec α) (o : OptSpec α) (st : TrainState α) (e : EpochData α) :
    Except Err (EpochOut α × TrainState α) :=
  let st1 := st.zeroGrad
  match lossAt spec st1.θ e.train with
  | .error er => .error er
  | .ok l =>
    match gradOf spec st1.θ e.train with
    | .error er => .error er
    | .ok g =>
      let st2 := st1.backward g
      let st3 := st2.step o
      match validate spec st3.θ e.val with
      | .error er => .error er
      | .ok (vs, v) => .ok (⟨st3.θ, l, st2.grad.getD [], vs, v⟩, st3)

/-- the loop over the epochs -/
def runEpochs (spec : FitSpec α) (o : OptSpec α) :
    TrainState α → List (EpochData α) → Except Err (List (EpochOut α) × TrainState α)
  | st, [] => .ok ([], st)
  | st, e :: es =>
    match epoch spec o st e with
    | .error er => .error er
    | .ok (out, st') =>
      match runEpochs spec o st' es with
      | .error er => .error er
      | .ok (outs, stf) => .ok (out :: outs, stf)

/-- `fit` continuing from a given state (an optimiser INSTANCE keeps its state between calls) -/
def fitNumFrom (spec : FitSpec α) (o : OptSpec α) (st : TrainState α) (es : List (EpochData α)) :
    Except Err (FitOut α) :=
  match runEpochs spec o st es with
  | .error er => .error er
  | .ok (outs, stf) => .ok ⟨outs, stf⟩

/-- `Hedger.fit` with a fresh optimiser: the parameters after every epoch, the training losses, the
validation history -/
def fitNum (spec : FitSpec α) (o : OptSpec α) (θ0 : List α) (es : List (EpochData α)) :
    Except Err (FitOut α) :=
  fitNumFrom spec o (TrainState.init θ0) es

end
end FitNum
end PfVerif
