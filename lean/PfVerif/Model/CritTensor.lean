/-
  The TENSOR level of the hedging criteria (modules/loss.py `HedgeLoss.forward(input, target)`,
  `cash`; functional.py `expected_shortfall(input, p, dim)`, `value_at_risk`, `quadratic_cvar`,
  `entropic_risk_measure`), on top of the one-column criteria of Model/Risk.lean.

  A tensor is a shape and row-major flat data (`torch.Tensor.contiguous().view(-1)`), of any rank,
  with size-one dimensions anywhere.  Modelled here:
    * `subTarget`      — `input - target` with torch's broadcasting rules: the target is a Python
                         number, or a tensor of any shape (0-dim, per-column `(*)`, row `(1, *)`,
                         per-path `(N, 1, …)`, full `(N, *)`, …); shapes are aligned from the
                         right, a dimension broadcasts when the sizes agree or one of them is 1;
                         otherwise torch raises `RuntimeError`;
    * `columns`        — the one-dimensional samples along a dimension `dim` (row-major order of
                         the remaining dimensions);
    * `reduceDim`      — a one-column criterion applied along `dim` (negative `dim` allowed):
                         the result has the shape with exactly that dimension removed;
    * `reduceAll`      — `dim=None`: the whole tensor is one sample, the result is 0-dimensional;
    * `moduleForward`  — every module: `reduceDim crit 0 (input - target)`;
    * `moduleCash`     — the closed-form `cash` overrides `-self(input - target)`;
    * `functionalForm` — `expected_shortfall` / `value_at_risk` (`dim=None` by default: whole
                         tensor; else along `dim`);  `entropic_risk_measure` has NO `dim`: always 0;
    * `qcvarDim`, `qcvarForm`, `qcvarModule` — `quadratic_cvar`: the columns along `dim` go
                         TOGETHER through `quadraticCvar` (Model/Risk.lean), i.e. through ONE
                         bisection whose bracket test `(lower < upper).all()`, direction test
                         `(fn(lower) > fn(upper)).all()` and stop test `max(upper - lower) >
                         precision` are shared by all columns; `dim=None` flattens first.
    * `cashDefaultTensor` — the default `HedgeLoss.cash`: ONE bisection over all columns.
  Parameters that the code derives from the sample SIZE (`k = ceil(p n)`, the branch of
  `value_at_risk`) enter as functions of the column length, so that the model itself decides
  which `n` counts (`input.size(dim)` or `input.numel()`).
-/
import PfVerif.Model.Risk
namespace PfVerif.CT
open PfVerif

/-- a tensor: shape and row-major flat data -/
structure Tensor (α : Type) where
  shape : List Nat
  data : List α

/-- `numel` of a shape -/
def prodL : List Nat → Nat
  | [] => 1
  | n :: s => n * prodL s

/-- the data has as many entries as the shape says -/
def Tensor.wf {α : Type} (t : Tensor α) : Bool := t.data.length == prodL t.shape

section Layout
variable {α β : Type}

/-- the first `m` consecutive pieces of length `k` -/
def chunksN : Nat → Nat → List α → List (List α)
  | 0, _, _ => []
  | m + 1, k, l => l.take k :: chunksN m k (l.drop k)

/-- position `j` of every row (rows that are too short contribute nothing) -/
def colAt (j : Nat) (rows : List (List α)) : List α := rows.filterMap (fun r => r[j]?)

/-- the `w` columns of a list of rows -/
def transposeW (w : Nat) (rows : List (List α)) : List (List α) :=
  (List.range w).map (fun j => colAt j rows)

/-- the one-dimensional samples along dimension `d` of a row-major tensor, in row-major order of
the remaining dimensions (`d` must be `< rank`; `reduceDim` checks it) -/
def columns : Nat → List Nat → List α → List (List α)
  | 0, n :: rest, data => transposeW (prodL rest) (chunksN n (prodL rest) data)
  | d + 1, n :: rest, data => ((chunksN n (prodL rest) data).map (columns d rest)).flatten
  | _, [], _ => []

/-- `dim` normalised as torch does: `-rank ≤ dim < rank`, negative counts from the end;
`IndexError` (canonicalised with `RuntimeError`) otherwise -/
def normDim (rank : Nat) (d : Int) : Except Err Nat :=
  if 0 ≤ d then (if d.toNat < rank then .ok d.toNat else .error .runtimeError)
  else if (-d).toNat ≤ rank then .ok (rank - (-d).toNat) else .error .runtimeError

/-- a one-column criterion along `dim` -/
def reduceDim (crit : List α → β) (d : Int) (t : Tensor α) : Except Err (Tensor β) :=
  match normDim t.shape.length d with
  | .error e => .error e
  | .ok i => .ok ⟨t.shape.eraseIdx i, (columns i t.shape t.data).map crit⟩

/-- `input.flatten()` -/
def Tensor.flatten (t : Tensor α) : Tensor α := ⟨[prodL t.shape], t.data⟩

/-- `dim=None`: the whole tensor is one sample; 0-dimensional result -/
def reduceAll (crit : List α → β) (t : Tensor α) : Tensor β := ⟨[], [crit t.data]⟩

/-- the first error of a tensor of results (torch raises for the whole call) -/
def seqE : List (Except Err β) → Except Err (List β)
  | [] => .ok []
  | x :: xs =>
    match x with
    | .error e => .error e
    | .ok v =>
      match seqE xs with
      | .error e => .error e
      | .ok vs => .ok (v :: vs)

def Tensor.seqE (t : Tensor (Except Err β)) : Except Err (Tensor β) :=
  match CT.seqE t.data with
  | .error e => .error e
  | .ok vs => .ok ⟨t.shape, vs⟩

/-! ### broadcasting -/

/-- shape left-padded with ones to rank `r` -/
def padShape (r : Nat) (s : List Nat) : List Nat := List.replicate (r - s.length) 1 ++ s

/-- broadcast of two shapes of equal rank; `RuntimeError` when a pair of sizes differs and
neither is 1 -/
def bshape : List Nat → List Nat → Except Err (List Nat)
  | [], [] => .ok []
  | a :: s, b :: t =>
    match bshape s t with
    | .error e => .error e
    | .ok r =>
      if a = b then .ok (a :: r)
      else if a = 1 then .ok (b :: r)
      else if b = 1 then .ok (a :: r)
      else .error .runtimeError
  | _, _ => .error .runtimeError

/-- `expand`: the data of a tensor of shape `s` seen with shape `S` (equal rank, every size of `s`
equal to that of `S` or 1) -/
def expandData : List Nat → List Nat → List α → List α
  | a :: s, A :: S, d =>
    let sub := ((chunksN a (prodL s) d).map (expandData s S)).flatten
    if a = A then sub else (List.replicate A sub).flatten
  | _, _, d => d

end Layout

/-- what the caller may pass as `target` -/
inductive Target (α : Type) where
  /-- a Python number (`float` / `int`; the default is `0.0`) -/
  | number (c : α)
  /-- a tensor of any shape (0-dim included) -/
  | tensor (t : Tensor α)

section Sub
variable {α : Type} [Sub α]

/-- `input - target` for two tensors -/
def broadcastSub (x t : Tensor α) : Except Err (Tensor α) :=
  let r := max x.shape.length t.shape.length
  let xs := padShape r x.shape
  let ts := padShape r t.shape
  match bshape xs ts with
  | .error e => .error e
  | .ok S => .ok ⟨S, List.zipWith (fun a b => a - b) (expandData xs S x.data) (expandData ts S t.data)⟩

/-- `input - target` -/
def subTarget (x : Tensor α) : Target α → Except Err (Tensor α)
  | .number c => .ok ⟨x.shape, x.data.map (fun a => a - c)⟩
  | .tensor t => broadcastSub x t

/-- `HedgeLoss.forward(input, target)` of the column-wise modules:
the criterion along dimension 0 of `input - target` -/
def moduleForward {β : Type} (crit : List α → β) (x : Tensor α) (tg : Target α) :
    Except Err (Tensor β) :=
  match subTarget x tg with
  | .error e => .error e
  | .ok pl => reduceDim crit 0 pl

/-- the same for criteria that can raise on a column -/
def moduleForwardE {β : Type} (crit : List α → Except Err β) (x : Tensor α) (tg : Target α) :
    Except Err (Tensor β) :=
  match moduleForward crit x tg with
  | .error e => .error e
  | .ok r => r.seqE

/-- closed-form `cash` overrides: `-self(input - target)` (`self` = the module without target) -/
def moduleCash [Neg α] (crit : List α → α) (x : Tensor α) (tg : Target α) :
    Except Err (Tensor α) :=
  match subTarget x tg with
  | .error e => .error e
  | .ok pl =>
    match reduceDim crit 0 pl with
    | .error e => .error e
    | .ok r => .ok ⟨r.shape, r.data.map (fun v => -v)⟩

/-- `dim` argument of the functional forms: `None` (their default) or an integer -/
abbrev DimArg := Option Int

/-- functional forms with a `dim` argument (`expected_shortfall`, `value_at_risk`):
`dim=None` reduces the whole tensor -/
def functionalForm {β : Type} (crit : List α → β) (dim : DimArg) (t : Tensor α) :
    Except Err (Tensor β) :=
  match dim with
  | none => .ok (reduceAll crit t)
  | some d => reduceDim crit d t

def functionalFormE {β : Type} (crit : List α → Except Err β) (dim : DimArg) (t : Tensor α) :
    Except Err (Tensor β) :=
  match functionalForm crit dim t with
  | .error e => .error e
  | .ok r => r.seqE

end Sub

section Crit
variable {α : Type} [Add α] [Sub α] [Mul α] [Div α] [Neg α] [OfNat α 0] [OfNat α 1] [OfNat α 2]
  [LE α] [DecidableLE α] [LT α] [DecidableLT α] [Max α] [Min α] [NatCast α]

/-- expected shortfall of a column of any length: `k = ceil(p n)` as a function of the length -/
def esCol (kOf : Nat → Nat) (xs : List α) : α := es (kOf xs.length) xs

/-- value at risk of a column of any length: branch and interpolation weight as functions of the
length (the code decides them from `p` and `n` in floating point) -/
def varCol (bOf : Nat → VarBranch × α) (xs : List α) : Except Err α :=
  valueAtRisk (bOf xs.length).1 (bOf xs.length).2 xs

/-- `quadratic_cvar(input, lam, dim)` for an integer `dim`: all columns along `dim` through ONE
shared bisection, `.squeeze(dim)` at the end.  `precOf` gives the precision the code derives from
the centred columns (`1e-6 * 10 ** int(log10(max width))`, floating point; Model/Risk.lean takes
it from the caller as well) -/
def qcvarDim (lam tol : α) (precOf : List (List α) → α) (maxIter : Nat) (d : Int) (t : Tensor α) :
    Except Err (Tensor α) :=
  match normDim t.shape.length d with
  | .error e => .error e
  | .ok i =>
    let cols := columns i t.shape t.data
    match quadraticCvar lam tol (precOf cols) maxIter cols with
    | .error e => .error e
    | .ok vs => .ok ⟨t.shape.eraseIdx i, vs⟩

/-- `quadratic_cvar(input, lam, dim=None)`: `quadratic_cvar(input.flatten(), lam, 0)` -/
def qcvarForm (lam tol : α) (precOf : List (List α) → α) (maxIter : Nat) (dim : DimArg)
    (t : Tensor α) : Except Err (Tensor α) :=
  match dim with
  | none => qcvarDim lam tol precOf maxIter 0 t.flatten
  | some d => qcvarDim lam tol precOf maxIter d t

/-- `QuadraticCVaR.forward(input, target)` -/
def qcvarModule (lam tol : α) (precOf : List (List α) → α) (maxIter : Nat) (x : Tensor α)
    (tg : Target α) : Except Err (Tensor α) :=
  match subTarget x tg with
  | .error e => .error e
  | .ok pl => qcvarDim lam tol precOf maxIter 0 pl

/-- `pl.amin(dim=0) - precision`, `pl.amax(dim=0) + precision` of one column (torch raises on
an empty one) -/
def colRange (precision : α) : List α → Except Err (α × α)
  | [] => .error .runtimeError
  | y :: ys => .ok (minL y ys - precision, maxL y ys + precision)

/-- default `HedgeLoss.cash(input, target)` (after the `fix:` commit for F5) on a tensor: ONE
bisection of `c ↦ loss(constant sample at c)` over all columns of `input - target`, each column
in its own range widened by `precision`; result of the trailing shape -/
def cashDefaultTensor (loss : List α → α) (precision : α) (maxIter : Nat) (x : Tensor α)
    (tg : Target α) : Except Err (Tensor α) :=
  match subTarget x tg with
  | .error e => .error e
  | .ok pl =>
    match normDim pl.shape.length 0 with
    | .error e => .error e
    | .ok i =>
      let cols := columns i pl.shape pl.data
      match seqE (cols.map (colRange precision)) with
      | .error e => .error e
      | .ok rs =>
        match bisect (fun cs => cs.map (fun c => loss [c])) (cols.map loss) (rs.map (·.1))
            (rs.map (·.2)) precision maxIter with
        | .error e => .error e
        | .ok cs => .ok ⟨pl.shape.eraseIdx i, cs⟩

end Crit

end PfVerif.CT
