/-
  The life of ONE derivative object (derivative/base.py, european.py, lookback.py,
  american_binary.py, european_binary.py, cliquet.py, variance_swap.py).

  The payoff functions of Model/Payoff.lean are pure functions of (terms, price path).  The real
  object is stateful: its attributes `strike`, `call`, `start` are re-assigned, the `spot` buffer of
  its underlier is edited in place (`spot[i, j] = v`), replaced (`register_buffer`, `simulate`),
  clauses are registered (`add_clause`), and `payoff()` is called any number of times in between.
  This file models that session: a state record, the operations, `step` and `run`.  The answer of
  a `payoff()` call is computed by the definitions of Model/Payoff.lean from the CURRENT state
  (`payoffOf`); nothing else is kept, so nothing of an earlier call can survive.

  Core Lean only, generic in the scalar type.
-/
import PfVerif.Model.Payoff
namespace PfVerif.Session

/-- the five option products (no transcendental function in the payoff) -/
inductive OptKind where
  | european | lookback | americanBinary | europeanBinary | forwardStart
  deriving Repr, DecidableEq

/-- all six product kinds -/
inductive Kind where
  | opt (k : OptKind)
  | varianceSwap
  deriving Repr, DecidableEq

/-- contract terms read by `payoff_fn` at call time.  `start` is the time INDEX
`_start_index() = floor(start / dt + 1e-8)` of the forward-start option (the float formula is
tied separately: Model/Grid.lean, driver op "grid"); `dt` is `ul().dt` (variance swap). -/
structure Terms (α : Type) where
  strike : α
  call : Bool
  start : Int
  dt : α

/-- A small closed language of clauses `clause(derivative, payoff) -> payoff`:
`affine a b`: `a * payoff + b`;  `cap c`: `payoff.clamp(max=c)`;  `floor c`: `payoff.clamp(min=c)`;
`knockOut b`: `where(ul().spot.max(-1).values < b, payoff, 0)` — reads the CURRENT price buffer. -/
inductive Clause (α : Type) where
  | affine (a b : α)
  | cap (c : α)
  | floor (c : α)
  | knockOut (b : α)
  deriving DecidableEq

/-- the object: terms, the underlier's `spot` buffer (rows = paths), the `_clauses` OrderedDict,
and the names that already are attributes of the object (`hasattr(self, name)`; fixed by the
class, `add_clause` refuses them). -/
structure State (α : Type) where
  terms : Terms α
  spot : List (List α)
  clauses : List (String × Clause α)
  attrs : List String

/-- what the user does with the object -/
inductive Op (α : Type) where
  | setStrike (k : α)                       -- `d.strike = k`
  | setCall (b : Bool)                      -- `d.call = b`
  | toggleCall                              -- `d.call = not d.call`
  | setStart (i : Int)                      -- `d.start = i * dt`
  | setCell (i j : Int) (v : α)             -- `ul.spot[i, j] = v` (in place; Python indices)
  | reregister (buf : List (List α))        -- `ul.register_buffer("spot", buf)` / `simulate`
  | addClause (name : String) (c : Clause α)
  | query                                   -- `d.payoff()`
  deriving DecidableEq

/-- what the user sees: nothing, a payoff vector (one entry per path), or the error raised -/
inductive Out (α : Type) where
  | none
  | payoff (v : List α)
  | error (e : Err)
  deriving DecidableEq

/-! ### in-place edit of one cell -/

/-- `xs[k] = v` for an index already resolved -/
def setNth {β : Type} : List β → Nat → β → List β
  | [], _, _ => []
  | _ :: xs, 0, v => v :: xs
  | x :: xs, k + 1, v => x :: setNth xs k v

/-- `buf[i, j] = v` with Python (wrap-around) indices; `none` = IndexError.  A 2-d tensor has ONE
column count: the column index is resolved against the length of the addressed row. -/
def setCell {α : Type} (buf : List (List α)) (i j : Int) (v : α) : Option (List (List α)) :=
  match pyIndex buf.length i with
  | none => none
  | some r =>
    match buf[r]? with
    | none => none
    | some row =>
      match pyIndex row.length j with
      | none => none
      | some c => some (setNth buf r (setNth row c v))

/-! ### `add_clause` name validation (base.py:186-196) -/

/-- `add_clause` raises KeyError for an existing attribute that is not already a clause, for a
name containing "." and for the empty name. -/
def nameOk {β : Type} (attrs : List String) (reg : List (String × β)) (name : String) : Bool :=
  !(attrs.contains name && !(reg.any (fun p => p.1 == name)))
    && !(name.toList.contains '.') && !(name == "")

/-! ### the payoff of the current state -/

/-- all results, or the first error (torch raises for the whole tensor) -/
def allOk {β : Type} : List (Except Err β) → Except Err (List β)
  | [] => .ok []
  | .error e :: _ => .error e
  | .ok a :: xs =>
    match allOk xs with
    | .ok as => .ok (a :: as)
    | .error e => .error e

/-- `payoff_fn()`: the per-path payoff on every row of the buffer -/
def basePayoff {α : Type} (pp : Terms α → List α → Except Err α) (t : Terms α)
    (buf : List (List α)) : Except Err (List α) :=
  allOk (buf.map (pp t))

section
variable {α : Type} [Add α] [Sub α] [Mul α] [Div α] [Neg α] [OfNat α 0] [OfNat α 1]
  [LE α] [DecidableLE α] [Max α] [Min α]

/-- per-path payoff of the five option products: the definitions of Model/Payoff.lean at the
object's current terms; the terminal price is the LAST column -/
def optPath : OptKind → Terms α → List α → Except Err α
  | .european, t, xs => europeanPayoff t.call t.strike xs
  | .lookback, t, xs => lookbackPayoff t.call t.strike xs
  | .americanBinary, t, xs => americanBinaryPayoff t.call t.strike xs
  | .europeanBinary, t, xs => europeanBinaryPayoff t.call t.strike xs
  | .forwardStart, t, xs => forwardStartPayoff t.strike t.start (-1) xs

/-- knock-out on the path maximum, one path: `where(max < b, p, 0)` -/
def knockRow (b : α) : List α → α → Except Err α
  | [], _ => .error .runtimeError          -- `max` over an empty dimension raises
  | x :: xs, p => .ok (if b ≤ maxL x xs then 0 else p)

/-- rows of the buffer against entries of the payoff vector (same length by construction) -/
def knockVec (b : α) : List (List α) → List α → Except Err (List α)
  | [], [] => .ok []
  | row :: rows, p :: ps =>
    match knockRow b row p with
    | .error e => .error e
    | .ok q =>
      match knockVec b rows ps with
      | .ok qs => .ok (q :: qs)
      | .error e => .error e
  | _, _ => .error .runtimeError           -- shape mismatch (broadcast error)

/-- one clause applied to the payoff vector, with the derivative (= its current buffer) in hand -/
def Clause.apply (buf : List (List α)) : Clause α → List α → Except Err (List α)
  | .affine a b, p => .ok (p.map (fun x => a * x + b))
  | .cap c, p => .ok (p.map (fun x => min x c))
  | .floor c, p => .ok (p.map (fun x => max x c))
  | .knockOut b, p => knockVec b buf p

/-- the registry as functions on the (possibly failed) payoff, for `applyClauses` -/
def clauseFns (buf : List (List α)) (reg : List (String × Clause α)) :
    List (String × (Except Err (List α) → Except Err (List α))) :=
  reg.map (fun p => (p.1, fun acc =>
    match acc with
    | .ok v => p.2.apply buf v
    | .error e => .error e))

/-- `BaseDerivative.payoff` on given terms / buffer / registry: `payoff_fn()`, then the clauses in
registration order (`applyClauses` of Model/Payoff.lean) -/
def payoffOf (pp : Terms α → List α → Except Err α) (t : Terms α) (buf : List (List α))
    (reg : List (String × Clause α)) : Except Err (List α) :=
  applyClauses (clauseFns buf reg) (basePayoff pp t buf)

def outOf : Except Err (List α) → Out α
  | .ok v => .payoff v
  | .error e => .error e

/-- the answer of `payoff()` in state `s` -/
def answer (pp : Terms α → List α → Except Err α) (s : State α) : Out α :=
  outOf (payoffOf pp s.terms s.spot s.clauses)

end

section
variable {α : Type} [Add α] [Sub α] [Mul α] [Div α] [Neg α] [OfNat α 0] [OfNat α 1]
  [LE α] [DecidableLE α] [Max α] [Min α] [NatCast α] [Transc α]

/-- per-path payoff of all six kinds (the variance swap needs `log`) -/
def kindPath : Kind → Terms α → List α → Except Err α
  | .opt k, t, xs => optPath k t xs
  | .varianceSwap, t, xs => .ok (varianceSwapPayoff t.dt t.strike xs)

end

/-! ### one operation -/

/-- the state after an operation (a failed operation changes nothing) -/
def next {α : Type} (s : State α) : Op α → State α
  | .setStrike k => { s with terms := { s.terms with strike := k } }
  | .setCall b => { s with terms := { s.terms with call := b } }
  | .toggleCall => { s with terms := { s.terms with call := !s.terms.call } }
  | .setStart i => { s with terms := { s.terms with start := i } }
  | .setCell i j v =>
    match setCell s.spot i j v with
    | some buf => { s with spot := buf }
    | none => s
  | .reregister buf => { s with spot := buf }
  | .addClause n c =>
    if nameOk s.attrs s.clauses n then { s with clauses := PfVerif.addClause s.clauses n c } else s
  | .query => s

section
variable {α : Type} [Add α] [Sub α] [Mul α] [Div α] [Neg α] [OfNat α 0] [OfNat α 1]
  [LE α] [DecidableLE α] [Max α] [Min α]

/-- what the operation shows to the user -/
def output (pp : Terms α → List α → Except Err α) (s : State α) : Op α → Out α
  | .setCell i j v =>
    match setCell s.spot i j v with
    | some _ => .none
    | none => .error .runtimeError            -- IndexError
  | .addClause n _ => if nameOk s.attrs s.clauses n then .none else .error .keyError
  | .query => answer pp s
  | _ => .none

def step (pp : Terms α → List α → Except Err α) (s : State α) (op : Op α) : State α × Out α :=
  (next s op, output pp s op)

/-- a whole history: final state and everything the user saw, in order -/
def run (pp : Terms α → List α → Except Err α) (s : State α) : List (Op α) → State α × List (Out α)
  | [] => (s, [])
  | op :: ops =>
    let r := step pp s op
    let q := run pp r.1 ops
    (q.1, r.2 :: q.2)

end

/-- the state after a history -/
def exec {α : Type} (s : State α) (ops : List (Op α)) : State α := ops.foldl next s

end PfVerif.Session
