/-
  Model of the time grid: `n_steps = ceil(time_horizon / dt + 1)` (primary/*.py simulate),
  `OptionMixin.time_to_maturity` (derivative/base.py:326-351),
  `EuropeanForwardStartOption._start_index` (cliquet.py:84-85).
-/
import PfVerif.Model.Basic
namespace PfVerif

/-- exact (real-number) step count of the property statement: `⌈M/dt⌉ + 1` -/
def nStepsExact (m dt : Rat) : Int := (m / dt).ceil + 1

/-- exact start index `⌊start/dt⌋` -/
def startIndexExact (start dt : Rat) : Int := (start / dt).floor

/-- IEEE `ceil` of a non-negative double below 2^63, written with `toUInt64` (which the kernel
can reduce, unlike the opaque `Float.ceil`). -/
def floatCeilNat (x : Float) : Nat :=
  let k := x.toUInt64
  if k.toFloat < x then k.toNat + 1 else k.toNat

def floatFloorNat (x : Float) : Nat := x.toUInt64.toNat

/-- the tolerance `1e-8` of the repaired step-count / start-index formulas (same double as
Python's literal `1e-8`, bits 0x3e45798ee2308c3a) -/
def gridTol : Float := Float.ofBits 0x3e45798ee2308c3a

/-- what the code computes (after the `fix:` commit for F9):
`math.ceil(time_horizon / dt - 1e-8) + 1` in double arithmetic.  Before the repair it was
`ceil(time_horizon / dt + 1)`, kept as `nStepsOld` for the negation witness in Props/C13. -/
def nStepsShipped (m dt : Float) : Nat := floatCeilNat (m / dt - gridTol) + 1

def nStepsOld (m dt : Float) : Nat := floatCeilNat (m / dt + 1)

/-- `math.floor(start / dt + 1e-8)` in double arithmetic (after the `fix:` commit for F10;
before: `floor(start / dt)`, kept as `startIndexOld`) -/
def startIndexShipped (start dt : Float) : Nat := floatFloorNat (start / dt + gridTol)

def startIndexOld (start dt : Float) : Nat := floatFloorNat (start / dt)

section
variable {α : Type} [Sub α] [Mul α] [NatCast α]

/-- `time_to_maturity(None)`: `t = arange(n)*dt; t[-1] - t` (one path; rows are identical) -/
def ttmAll (n : Nat) (dt : α) : List α :=
  (List.range n).map (fun (i : Nat) => (((n - 1 : Nat) : α)) * dt - ((i : Nat) : α) * dt)

/-- `time_to_maturity(i)`: `(n - (i % n) - 1) * dt` with Python's `%` (non-negative result) -/
def ttmAt (n : Nat) (dt : α) (i : Int) : Except Err α :=
  if n = 0 then .error .runtimeError    -- ZeroDivisionError on `i % 0`; never generated
  else .ok (((n - (i % (n : Int)).toNat - 1 : Nat) : α) * dt)
end

end PfVerif
