/-
  Model of a SYSTEM of instruments over a history of operations (C17 second half, C11 last
  sentence).  Builds on Model/DType.lean: the dtype table of every primary is a `PrimState` and
  every primary-level transition is `DOp.step` (not restated); this file adds

  * per buffer: its shape `(n_paths, n_steps)`, the generation number of the call that produced it
    (value of the system clock at that call) and whether that call was a `simulate`
    (instruments/primary/base.py `register_buffer`, primary/*.py `simulate`);
  * several primaries, derivatives over them (instruments/derivative/base.py): a derivative has NO
    dtype of its own (`dtype` property = `self.ul(0).dtype`), `to` / `simulate` are forwarded to the
    underlier, `list(pricer)` / `delist()`, `spot = pricer(self)`;
  * the part of torch's type promotion that the results go through (below, each with its use);
  * queries: dtype and shape of payoff, every built-in feature, listed price, `Hedger.compute_hedge`,
    `compute_pl`, `compute_portfolio`, and the state-changing `compute_loss` / `price`
    (`ensemble_mean` over `n_times` re-simulations), nn/modules/hedger.py, nn/functional.py `pl`.

  Error kinds are those of the Python exceptions, raised in the order the code raises them.

  Domain of the correspondence check (harness/c17.py, harness/c11.py, op "instr_sys"):
  * buffer names registered by the user are "spot", "extra" and the names the class simulates
    (a name that collides with a class property, e.g. `variance` on a simulated BrownianStock,
    makes `register_buffer` raise KeyError: not part of Model/DType.lean, not modelled);
  * buffers have n_paths >= 1, n_steps >= 1 (empty tensors raise in more places than modelled);
  * answers of queries are compared while every buffer of the system is floating (`numT` and
    `promote` are torch's rules on the non-floating dtypes too, but in-place arithmetic of a floating
    payoff into an integer portfolio raises in torch and is not modelled); states are always compared;
  * RoughBergomiStock is simulated over at least two time steps (`generate_rough_bergomi(n, 1)` raises);
  * one underlier per derivative, device fixed to CPU.

  Theorems: Lemmas/C17System.lean (refinement of Model/DType.lean, aliasing, results, rejections),
  Lemmas/C11Buffers.lean (shapes, generations, replacement).
-/
import PfVerif.Model.DType
namespace PfVerif.InstrSys
open PfVerif

/-! ## torch type promotion -/

/-- tensor ⊗ tensor, both of dimension >= 1 (`torch.promote_types`): used by `torch.cat` of the
features, `torch.stack` of the hedges' spots, `unit * spot.diff()` in `pl`, `input - target` in the
criterion, `torch.stack` of the `n_times` losses.  The wider floating dtype wins,
float16 ⊗ bfloat16 = float32, floating beats integral, int64 > int32 > bool. -/
def promote : DType → DType → DType
  | .f64, _ => .f64
  | _, .f64 => .f64
  | .f32, _ => .f32
  | _, .f32 => .f32
  | .f16, .bf16 => .f32
  | .bf16, .f16 => .f32
  | .f16, _ => .f16
  | _, .f16 => .f16
  | .bf16, _ => .bf16
  | _, .bf16 => .bf16
  | .i64, _ => .i64
  | _, .i64 => .i64
  | .i32, _ => .i32
  | _, .i32 => .i32
  | .bool, .bool => .bool

/-- Python number (a float) or dim-0 tensor ⊗ tensor: the tensor's dtype when it is floating, the
ambient default otherwise.  Used by `spot / strike`, `relu(spot - strike)`, `arange(n).to(spot) * dt`,
`variance.clamp(min=0.0)`, an affine pricer with Python-number coefficients. -/
def numT (ambient d : DType) : DType := if d.isFloating then d else ambient

/-- `x.to(other)`: the other tensor's dtype (`torch.arange(n).to(spot)`, `torch.tensor(cost).to(spot)`,
`(max >= threshold).to(spot.dtype)`) -/
def toLike (other _x : DType) : DType := other

/-- `x.new_zeros(...)`, `zeros_like`, `ones_like`, `empty_like`, `full_like`: the dtype of `x` -/
def newLike (x : DType) : DType := x

/-- `torch.tensor(python float)`: the ambient default dtype -/
def tensorOfFloat (ambient : DType) : DType := ambient

/-- dtype of `torch.cat` / `torch.stack` of a non-empty list -/
def catDType (x : DType) (xs : List DType) : DType := xs.foldl promote x

/-! ## buffers with shape and generation -/

abbrev Shape := Nat × Nat

structure BufMeta where
  shape : Shape          -- (n_paths, n_steps)
  gen : Nat              -- clock value of the simulate / register_buffer call that produced the tensor
  bySim : Bool           -- produced by `simulate` (true) or by a user `register_buffer` (false)
  deriving DecidableEq, Repr

/-- class of the primary: which buffers `simulate` registers and what `volatility` / `variance` read -/
inductive PrimKind where
  | flat        -- BrownianStock, MertonJumpStock, KouJumpStock: buffer spot; volatility/variance = full_like(spot, sigma)
  | stochVar    -- HestonStock, RoughBergomiStock: buffers spot, variance; volatility = variance.clamp(min=0.0).sqrt()
  | localVol    -- LocalVolatilityStock: buffers spot, volatility; variance = volatility.square()
  | rate        -- CIRRate, VasicekRate: buffer spot; no volatility / variance attribute
  deriving DecidableEq, Repr

def PrimKind.simNames : PrimKind → List String
  | .flat => ["spot"]
  | .stochVar => ["spot", "variance"]
  | .localVol => ["spot", "volatility"]
  | .rate => ["spot"]

structure Prim where
  kind : PrimKind
  st : PrimState                       -- declared dtype, name → dtype, ambient (Model/DType.lean)
  info : List (String × BufMeta)       -- name → shape / generation, same names in the same order
  lastSim : Option (Shape × Nat)       -- shape and generation of the last `simulate` (ghost record)
  deriving DecidableEq, Repr

/-- the dict update of `register_buffer` on the shape / generation table (same pattern as `regBuf`) -/
def regMeta (m : List (String × BufMeta)) (name : String) (v : BufMeta) : List (String × BufMeta) :=
  if m.any (fun p => p.1 == name) then m.map (fun p => if p.1 == name then (name, v) else p)
  else m ++ [(name, v)]

/-- primary-level operations: the `DOp`s of Model/DType.lean with the shape data they lack -/
inductive POp where
  | to (d : Option DType)
  | toTensor (d : DType)
  | toInstrument (d : Option DType)
  | simulate (nPaths nSteps : Nat)
  | register (name : String) (d : DType) (shape : Shape)
  | setDefault (d : DType)
  deriving Repr

/-- the `DOp` a primary-level operation is on the dtype table -/
def POp.dop (k : PrimKind) : POp → DOp
  | .to d => .to d
  | .toTensor d => .toTensor d
  | .toInstrument d => .toInstrument d
  | .simulate _ _ => .simulate k.simNames
  | .register n d _ => .registerBuffer n d
  | .setDefault d => .setDefault d

/-- effect on the shape / generation table (casts keep shape and generation) -/
def POp.info (k : PrimKind) (clock : Nat) (m : List (String × BufMeta)) : POp → List (String × BufMeta)
  | .simulate np ns => k.simNames.foldl (fun m n => regMeta m n ⟨(np, ns), clock, true⟩) m
  | .register n _ sh => regMeta m n ⟨sh, clock, false⟩
  | _ => m

def POp.lastSim (clock : Nat) (l : Option (Shape × Nat)) : POp → Option (Shape × Nat)
  | .simulate np ns => some ((np, ns), clock)
  | _ => l

/-- one operation on one primary: `DOp.step` on the dtype table; shape table only on success -/
def Prim.step (p : Prim) (clock : Nat) (op : POp) : Except Err Prim :=
  match (op.dop p.kind).step p.st with
  | .ok st' => .ok { p with st := st', info := op.info p.kind clock p.info, lastSim := op.lastSim clock p.lastSim }
  | .error e => .error e

/-- ... a rejected operation leaves the primary untouched -/
def Prim.exec (p : Prim) (clock : Nat) (op : POp) : Prim :=
  match p.step clock op with
  | .ok p' => p'
  | .error _ => p

/-! ## the system -/

inductive QErr where
  | prim (e : Err)          -- raised by the primary's state machine (only `typeError` occurs)
  | valueError | runtimeError | attributeError | indexError
  | noSuchObject            -- the request names an object that was never constructed (no Python counterpart)
  deriving DecidableEq, Repr

inductive PayoffKind where
  | arith       -- relu(spot[..., -1] - strike) and the like: Python number ⊗ tensor
  | indicator   -- (spot[..., -1] >= strike).to(spot): the spot's dtype
  deriving DecidableEq, Repr

structure Deriv where
  ul : Nat                     -- index of the underlier
  payoff : PayoffKind
  pricer : Option String       -- listed: the underlier buffer an affine pricer with Python-number coefficients reads
  deriving DecidableEq, Repr

structure Sys where
  prims : List Prim
  derivs : List Deriv
  ambient : DType              -- `torch.get_default_dtype()`
  clock : Nat
  deriving DecidableEq, Repr

/-- argument of `to`: a dtype (or only a device), a tensor, an instrument -/
inductive Target where
  | dtype (d : Option DType)
  | tensor (d : DType)
  | prim (j : Nat)             -- another (or the same) primary of the system
  | deriv (k : Nat)            -- a derivative of the system
  | ext (d : Option DType)     -- an instrument outside the system declaring `d`
  deriving Repr

def Sys.primDeclared (s : Sys) (j : Nat) : Except QErr (Option DType) :=
  match s.prims[j]? with
  | some p => .ok p.st.declared
  | none => .error .noSuchObject

/-- `BaseDerivative.dtype`: the declared dtype of the underlier -/
def Sys.derivDType (s : Sys) (k : Nat) : Except QErr (Option DType) :=
  match s.derivs[k]? with
  | some d => s.primDeclared d.ul
  | none => .error .noSuchObject

/-- `_parse_to` -/
def Sys.resolve (s : Sys) : Target → Except QErr POp
  | .dtype d => .ok (.to d)
  | .tensor d => .ok (.toTensor d)
  | .prim j =>
    match s.primDeclared j with
    | .ok d => .ok (.toInstrument d)
    | .error e => .error e
  | .deriv k =>
    match s.derivDType k with
    | .ok d => .ok (.toInstrument d)
    | .error e => .error e
  | .ext d => .ok (.toInstrument d)

def Sys.ulOf (s : Sys) (k : Nat) : Except QErr Nat :=
  match s.derivs[k]? with
  | some d => .ok d.ul
  | none => .error .noSuchObject

/-- a primary-level operation routed to primary `i`; the clock ticks on success -/
def Sys.onPrim (s : Sys) (i : Nat) (op : POp) : Except QErr Sys :=
  match s.prims[i]? with
  | none => .error .noSuchObject
  | some p =>
    match p.step s.clock op with
    | .error e => .error (.prim e)
    | .ok p' => .ok { s with prims := s.prims.set i p', clock := s.clock + 1 }

inductive SOp where
  | primTo (i : Nat) (t : Target)
  | primSimulate (i nPaths nSteps : Nat)
  | primRegister (i : Nat) (name : String) (d : DType) (shape : Shape)
  | derivTo (k : Nat) (t : Target)                 -- forwarded to the underlier
  | derivSimulate (k nPaths nSteps : Nat)          -- `underlier.simulate(n_paths, time_horizon=maturity)`; n_steps from the grid rule (C13)
  | list (k : Nat) (buf : String)
  | delist (k : Nat)
  | setDefault (d : DType)
  deriving Repr

def SOp.step (s : Sys) : SOp → Except QErr Sys
  | .primTo i t =>
    match s.resolve t with
    | .ok op => s.onPrim i op
    | .error e => .error e
  | .primSimulate i np ns => s.onPrim i (.simulate np ns)
  | .primRegister i n d sh => s.onPrim i (.register n d sh)
  | .derivTo k t =>
    match s.ulOf k with
    | .error e => .error e
    | .ok i =>
      match s.resolve t with
      | .ok op => s.onPrim i op
      | .error e => .error e
  | .derivSimulate k np ns =>
    match s.ulOf k with
    | .error e => .error e
    | .ok i => s.onPrim i (.simulate np ns)
  | .list k b =>
    match s.derivs[k]? with
    | some d => .ok { s with derivs := s.derivs.set k { d with pricer := some b } }
    | none => .error .noSuchObject
  | .delist k =>
    match s.derivs[k]? with
    | some d => .ok { s with derivs := s.derivs.set k { d with pricer := none } }
    | none => .error .noSuchObject
  | .setDefault d =>
    if d.isFloating then
      .ok { s with ambient := d, prims := s.prims.map (fun p => p.exec s.clock (.setDefault d)) }
    else .error (.prim .typeError)

/-! ## queries -/

/-- dtype and shape of a result tensor -/
structure TInfo where
  dtype : DType
  shape : List Nat
  deriving DecidableEq, Repr

/-- `Except.mapM` on lists, left to right, first error wins -/
def mapE {α β ε : Type} (f : α → Except ε β) : List α → Except ε (List β)
  | [] => .ok []
  | a :: as =>
    match f a with
    | .error e => .error e
    | .ok b =>
      match mapE f as with
      | .error e => .error e
      | .ok bs => .ok (b :: bs)

/-- `get_buffer(name)`: dtype and shape; AttributeError when absent -/
def Prim.buf (p : Prim) (name : String) : Except QErr (DType × Shape) :=
  match p.st.buffers.find? (fun b => b.1 == name), p.info.find? (fun b => b.1 == name) with
  | some b, some m => .ok (b.2, m.2.shape)
  | _, _ => .error .attributeError

/-- the `volatility` attribute -/
def Prim.volatility (p : Prim) (ambient : DType) : Except QErr (DType × Shape) :=
  match p.kind with
  | .flat => (p.buf "spot").map (fun x => (newLike x.1, x.2))
  | .stochVar => (p.buf "variance").map (fun x => (numT ambient x.1, x.2))
  | .localVol => p.buf "volatility"
  | .rate => p.buf "volatility"

/-- the `variance` attribute -/
def Prim.variance (p : Prim) : Except QErr (DType × Shape) :=
  match p.kind with
  | .flat => (p.buf "spot").map (fun x => (newLike x.1, x.2))
  | .stochVar => p.buf "variance"
  | .localVol => p.buf "volatility"
  | .rate => p.buf "variance"

def Sys.ul (s : Sys) (k : Nat) : Except QErr (Deriv × Prim) :=
  match s.derivs[k]? with
  | none => .error .noSuchObject
  | some d =>
    match s.prims[d.ul]? with
    | none => .error .noSuchObject
    | some p => .ok (d, p)

/-- `derivative.payoff()`: dtype and number of paths -/
def Sys.payoff (s : Sys) (k : Nat) : Except QErr (DType × Nat) :=
  match s.ul k with
  | .error e => .error e
  | .ok (d, p) =>
    match p.buf "spot" with
    | .error e => .error e
    | .ok x =>
      if x.2.2 = 0 then .error .indexError
      else .ok (match d.payoff with
                | .arith => numT s.ambient x.1
                | .indicator => toLike x.1 .bool, x.2.1)

/-- `derivative.spot` of a listed derivative -/
def Sys.listed (s : Sys) (k : Nat) : Except QErr (DType × Shape) :=
  match s.ul k with
  | .error e => .error e
  | .ok (d, p) =>
    match d.pricer with
    | none => .error .valueError
    | some b => (p.buf b).map (fun x => (numT s.ambient x.1, x.2))

/-- built-in features (features/features.py) -/
inductive Feat where
  | moneyness | logMoneyness | timeToMaturity | underlierSpot | underlierLogSpot | listedSpot
  | volatility | variance | zeros | ones | empty | barrier | maxMoneyness | maxLogMoneyness | prevHedge
  deriving DecidableEq, Repr

/-- dtype and (n_paths, n_steps) of `feature.get(None)` before `unsqueeze(-1)` -/
inductive FeatClass where
  | spotNum       -- Python number ⊗ spot: moneyness, log_moneyness, max_moneyness, max_log_moneyness, underlier_log_spot
  | spotTime      -- time_to_maturity: `torch.arange(n_steps).to(spot) * dt`
  | spotExact     -- underlier_spot, zeros / ones / empty (`*_like`), barrier (`.to(spot.dtype)`)
  | listed | volatility | variance | prev
  deriving DecidableEq, Repr

def Feat.cls : Feat → FeatClass
  | .moneyness | .logMoneyness | .maxMoneyness | .maxLogMoneyness | .underlierLogSpot => .spotNum
  | .timeToMaturity => .spotTime
  | .underlierSpot | .zeros | .ones | .empty | .barrier => .spotExact
  | .listedSpot => .listed
  | .volatility => .volatility
  | .variance => .variance
  | .prevHedge => .prev

def Sys.featSrc (s : Sys) (k : Nat) (f : Feat) : Except QErr (DType × Shape) :=
  match s.ul k with
  | .error e => .error e
  | .ok (_, p) =>
    match f.cls with
    | .spotNum => (p.buf "spot").map (fun x => (numT s.ambient x.1, x.2))
    | .spotTime =>
      match p.buf "spot" with
      | .error e => .error e
      | .ok x => if x.2.2 = 0 then .error .indexError else .ok (numT s.ambient (toLike x.1 .i64), x.2)
    | .spotExact => (p.buf "spot").map (fun x => (newLike x.1, x.2))
    | .listed => s.listed k
    | .volatility => p.volatility s.ambient
    | .variance => p.variance
    | .prev => .error .valueError        -- "time_step for prev_output should be specified"

/-- features that index the time axis with `[time_step]` (IndexError beyond their own length);
the others slice (`[: time_step + 1]`) or reduce the step modulo their length -/
def Feat.indexed : Feat → Bool
  | .timeToMaturity | .barrier | .maxMoneyness | .maxLogMoneyness | .prevHedge => false
  | _ => true

def Sys.feature (s : Sys) (k : Nat) (f : Feat) : Except QErr TInfo :=
  (s.featSrc k f).map (fun x => ⟨x.1, [x.2.1, x.2.2, 1]⟩)

/-- a hedging instrument: a primary, or a (listed) derivative -/
inductive HRef where
  | prim (i : Nat)
  | deriv (k : Nat)
  deriving DecidableEq, Repr

/-- the hedger's model: parameter-free (`Naked`: `input.new_zeros`; the output follows the input),
or `Linear` with parameters of dtype `p` (`none`: created under the ambient default and not cast) -/
inductive ModelKind where
  | naked
  | linear (p : Option DType)
  deriving DecidableEq, Repr

structure HedgeCfg where
  model : ModelKind
  feats : List Feat
  hedge : Option (List HRef)       -- `none`: the derivative's underlier
  deriving DecidableEq, Repr

def Sys.hedgeSpot (s : Sys) : HRef → Except QErr (DType × Shape)
  | .prim i =>
    match s.prims[i]? with
    | none => .error .noSuchObject
    | some p => p.buf "spot"
  | .deriv k => s.listed k

/-- `instrument.dtype` of a hedging instrument -/
def Sys.refDType (s : Sys) : HRef → Except QErr (Option DType)
  | .prim i => s.primDeclared i
  | .deriv k => s.derivDType k

def Sys.hedgeRefs (s : Sys) (k : Nat) (hedge : Option (List HRef)) : Except QErr (List HRef) :=
  match hedge with
  | some l => .ok l
  | none =>
    match s.ulOf k with
    | .ok i => .ok [.prim i]
    | .error e => .error e

/-- dtype of the parameters of `Linear`: the one the hedger was cast to, else the ambient default -/
def paramDType (ambient : DType) : Option DType → DType
  | some x => x
  | none => ambient

/-- `F.linear(input, weight)` raises on a dtype mismatch ("mat1 and mat2 must have the same dtype") -/
def modelOut (ambient : DType) : ModelKind → DType → Except QErr DType
  | .naked, i => .ok (newLike i)
  | .linear p, i => if paramDType ambient p = i then .ok (paramDType ambient p) else .error .runtimeError

/-- `all(h.spot.size() == hedge[0].spot.size() for h in hedge)` else ValueError -/
def Sys.checkHedges (s : Sys) (sh0 : Shape) : List HRef → Except QErr Unit
  | [] => .ok ()
  | r :: rest =>
    match s.hedgeSpot r with
    | .error e => .error e
    | .ok h => if h.2 = sh0 then s.checkHedges sh0 rest else .error .valueError

/-- source of a feature at step 0 of the state-dependent loop; `prev_hedge` reads the zeros made by
`hedge[0].spot.new_zeros((n_paths, 1, n_hedges))` -/
def Sys.featStep (s : Sys) (k : Nat) (h0 : DType × Shape) (f : Feat) : Except QErr (DType × Shape) :=
  match f with
  | .prevHedge => .ok (newLike h0.1, h0.2)
  | f =>
    match s.featSrc k f with
    | .error e => .error e
    | .ok x => if f.indexed && x.2.2 == 0 then .error .indexError else .ok x

/-- what `compute_hedge` has established when it calls the model for the first time -/
structure HedgePre where
  input : DType          -- dtype of the model's input (`torch.cat` of the features)
  shape : List Nat       -- shape `(N, H, T)` of the output if nothing raises
  late : Bool            -- an IndexError is raised after the model has been called
  deriving DecidableEq, Repr

/-- `Hedger.compute_hedge(derivative, hedge)` up to the first call of the model -/
def Sys.hedgePre (s : Sys) (k : Nat) (feats : List Feat) (hedge : Option (List HRef)) : Except QErr HedgePre :=
  match s.hedgeRefs k hedge with
  | .error e => .error e
  | .ok [] => .error .indexError
  | .ok (r0 :: rs) =>
    match s.hedgeSpot r0 with
    | .error e => .error e
    | .ok h0 =>
      match s.checkHedges h0.2 (r0 :: rs) with
      | .error e => .error e
      | .ok _ =>
        if feats.contains .prevHedge then
          -- one step at a time, from the zeros
          if h0.2.2 ≤ 1 then .error .indexError
          else
            match mapE (s.featStep k h0) feats with
            | .error e => .error e
            | .ok [] => .error .runtimeError
            | .ok (x0 :: rest) =>
              if (x0 :: rest).any (fun x => x.2.1 != h0.2.1) then .error .runtimeError
              else
                -- later steps: the previous output is concatenated, `promote` of the inputs with it is the output's dtype again;
                -- a feature that indexes the time axis raises beyond its own length
                .ok ⟨catDType x0.1 (rest.map (·.1)), [h0.2.1, (r0 :: rs).length, h0.2.2],
                     (feats.zip (x0 :: rest)).any (fun fx => fx.1.indexed && fx.2.2.2 + 1 < h0.2.2)⟩
        else
          -- all time steps at once
          match mapE (s.featSrc k) feats with
          | .error e => .error e
          | .ok [] => .error .runtimeError
          | .ok (x0 :: rest) =>
            if rest.any (fun x => x.2 != x0.2) then .error .runtimeError
            else .ok ⟨catDType x0.1 (rest.map (·.1)), [x0.2.1, (r0 :: rs).length, x0.2.2], x0.2.2 ≤ 1⟩

/-- `Hedger.compute_hedge(derivative, hedge)`: dtype and shape `(N, H, T)` of the output -/
def Sys.computeHedge (s : Sys) (k : Nat) (cfg : HedgeCfg) : Except QErr TInfo :=
  match s.hedgePre k cfg.feats cfg.hedge with
  | .error e => .error e
  | .ok pre =>
    match modelOut s.ambient cfg.model pre.input with
    | .error e => .error e
    | .ok o => if pre.late then .error .indexError else .ok ⟨o, pre.shape⟩

/-- `spot = torch.stack([h.spot for h in hedge], dim=1)`: dtype, `(n_paths, n_steps)`, number of hedges -/
def Sys.stackSpots (s : Sys) (k : Nat) (hedge : Option (List HRef)) : Except QErr (DType × Shape × Nat) :=
  match s.hedgeRefs k hedge with
  | .error e => .error e
  | .ok refs =>
    match mapE s.hedgeSpot refs with
    | .error e => .error e
    | .ok [] => .error .runtimeError                                      -- torch.stack of nothing
    | .ok (h0 :: rest) =>
      if rest.any (fun h => h.2 != h0.2) then .error .runtimeError      -- torch.stack of unequal sizes
      else .ok (catDType h0.1 (rest.map (·.1)), h0.2, refs.length)

/-- `pl(spot, unit, cost, payoff)`: `unit[..., :-1] * spot.diff()` is promoted; payoff and costs are
subtracted in place (`torch.tensor(cost).to(spot)`), which keeps the dtype -/
def Sys.plOf (s : Sys) (k : Nat) (sp : DType × Shape × Nat) (u : TInfo) (withPayoff : Bool) : Except QErr (DType × Nat) :=
  let out : DType × Nat := (promote u.dtype (toLike sp.1 (tensorOfFloat s.ambient)), sp.2.1.1)
  if withPayoff then
    match s.payoff k with
    | .error e => .error e
    | .ok p =>
      if u.shape != [sp.2.1.1, sp.2.2, sp.2.1.2] then .error .runtimeError          -- "unmatched sizes: spot .., unit .."
      else if p.2 != sp.2.1.1 then .error .runtimeError                             -- "unmatched sizes: spot .., payoff .."
      else .ok out
  else if u.shape != [sp.2.1.1, sp.2.2, sp.2.1.2] then .error .runtimeError
  else .ok out

/-- `compute_portfolio` (`withPayoff = false`) / `compute_pl` (`true`): dtype and number of paths -/
def Sys.computePl (s : Sys) (k : Nat) (cfg : HedgeCfg) (withPayoff : Bool) : Except QErr (DType × Nat) :=
  match s.stackSpots k cfg.hedge with
  | .error e => .error e
  | .ok sp =>
    match s.computeHedge k cfg with
    | .error e => .error e
    | .ok u => s.plOf k sp u withPayoff

/-- `criterion(portfolio, payoff)` / `criterion.cash(portfolio, target=payoff)` on simulated data:
`input - target` broadcasts and promotes, the reduction keeps the dtype -/
def Sys.lossOnce (s : Sys) (k : Nat) (cfg : HedgeCfg) : Except QErr DType :=
  match s.computePl k cfg false with
  | .error e => .error e
  | .ok port =>
    match s.payoff k with
    | .error e => .error e
    | .ok pay =>
      if port.2 != pay.2 && port.2 != 1 && pay.2 != 1 then .error .runtimeError
      else .ok (promote port.1 pay.1)

/-- one evaluation inside `compute_loss` / `price`: `derivative.simulate(n_paths)` then the loss -/
def Sys.evalOnce (s : Sys) (k : Nat) (cfg : HedgeCfg) (np ns : Nat) : Sys × Except QErr DType :=
  match (SOp.derivSimulate k np ns).step s with
  | .error e => (s, .error e)
  | .ok s' => (s', s'.lossOnce k cfg)

/-- the remaining evaluations of `ensemble_mean` (`torch.stack(...).mean(dim=0)`) -/
def Sys.evalMore (s : Sys) (k : Nat) (cfg : HedgeCfg) (np ns : Nat) : Nat → DType → Sys × Except QErr DType
  | 0, acc => (s, .ok acc)
  | n + 1, acc =>
    match s.evalOnce k cfg np ns with
    | (s', .error e) => (s', .error e)
    | (s', .ok d) => Sys.evalMore s' k cfg np ns n (promote acc d)

/-- `Hedger.compute_loss(derivative, hedge, n_paths, n_times)` and `Hedger.price(...)`: the system
after it (the underlier has been re-simulated `n_times` times, or up to the failing evaluation) and
the result, a dim-0 tensor -/
def Sys.run (s : Sys) (k : Nat) (cfg : HedgeCfg) (np ns nTimes : Nat) : Sys × Except QErr TInfo :=
  match nTimes with
  | 0 => (s, .error .runtimeError)           -- "stack expects a non-empty TensorList"
  | n + 1 =>
    match s.evalOnce k cfg np ns with
    | (s', .error e) => (s', .error e)
    | (s', .ok d) =>
      match Sys.evalMore s' k cfg np ns n d with
      | (s'', .error e) => (s'', .error e)
      | (s'', .ok r) => (s'', .ok ⟨r, []⟩)

/-! ## commands and histories -/

inductive Query where
  | derivDType (k : Nat)
  | payoff (k : Nat)
  | feature (k : Nat) (f : Feat)
  | listedPrice (k : Nat)
  | hedge (k : Nat) (cfg : HedgeCfg)
  | pl (k : Nat) (cfg : HedgeCfg)
  | portfolio (k : Nat) (cfg : HedgeCfg)
  deriving Repr

inductive Answer where
  | dtype (d : Option DType)
  | tensor (t : TInfo)
  deriving DecidableEq, Repr

def Query.eval (s : Sys) : Query → Except QErr Answer
  | .derivDType k => (s.derivDType k).map .dtype
  | .payoff k => (s.payoff k).map (fun x => .tensor ⟨x.1, [x.2]⟩)
  | .feature k f => (s.feature k f).map .tensor
  | .listedPrice k => (s.listed k).map (fun x => .tensor ⟨x.1, [x.2.1, x.2.2]⟩)
  | .hedge k cfg => (s.computeHedge k cfg).map .tensor
  | .pl k cfg => (s.computePl k cfg true).map (fun x => .tensor ⟨x.1, [x.2]⟩)
  | .portfolio k cfg => (s.computePl k cfg false).map (fun x => .tensor ⟨x.1, [x.2]⟩)

inductive Cmd where
  | op (o : SOp)
  | ask (q : Query)
  | run (k : Nat) (cfg : HedgeCfg) (nPaths nSteps nTimes : Nat)     -- compute_loss / price
  deriving Repr

inductive Reply where
  | done
  | raised (e : QErr)
  | answer (a : Answer)
  deriving DecidableEq, Repr

/-- one command: the system afterwards and what the caller sees.  A rejected operation leaves the
system unchanged; a query never changes it; `compute_loss` / `price` re-simulate. -/
def Cmd.exec (s : Sys) : Cmd → Sys × Reply
  | .op o =>
    match o.step s with
    | .ok s' => (s', .done)
    | .error e => (s, .raised e)
  | .ask q =>
    match q.eval s with
    | .ok a => (s, .answer a)
    | .error e => (s, .raised e)
  | .run k cfg np ns nt =>
    match s.run k cfg np ns nt with
    | (s', .ok t) => (s', .answer (.tensor t))
    | (s', .error e) => (s', .raised e)

/-- the system after a history -/
def runCmds (s : Sys) : List Cmd → Sys
  | [] => s
  | c :: rest => runCmds (c.exec s).1 rest

/-- what the caller saw along a history -/
def replies (s : Sys) : List Cmd → List Reply
  | [] => []
  | c :: rest => (c.exec s).2 :: replies (c.exec s).1 rest

/-- `kind(dtype=init)`: `initState` of Model/DType.lean, no buffers -/
def Prim.init (ambient : DType) (kd : PrimKind × Option DType) : Except QErr Prim :=
  match initState kd.2 ambient with
  | .ok st => .ok { kind := kd.1, st := st, info := [], lastSim := none }
  | .error e => .error (.prim e)

/-- construction: `kind(dtype=init)` for every primary under the ambient default, derivatives unlisted -/
def Sys.init (ambient : DType) (prims : List (PrimKind × Option DType)) (derivs : List (Nat × PayoffKind)) :
    Except QErr Sys :=
  match mapE (Prim.init ambient) prims with
  | .error e => .error e
  | .ok ps => .ok { prims := ps, derivs := derivs.map (fun d => ⟨d.1, d.2, none⟩), ambient := ambient, clock := 0 }

end PfVerif.InstrSys
