/-
  The autograd switch around the Hedger's entry points (nn/modules/hedger.py: `compute_loss`, `price`, `fit`;
  `torch.set_grad_enabled` / `torch.no_grad` / `torch.enable_grad` as context managers and as a function).

      with torch.set_grad_enabled(b): body      enter: prev = is_grad_enabled(); set b
                                                exit (normal OR by an exception passing through): set prev
      compute_loss(..., enable_grad=True)       body under set_grad_enabled(enable_grad)
      price(..., enable_grad=False)             body under set_grad_enabled(enable_grad)
      compute_pl / compute_portfolio / compute_hedge      no switch: evaluated under the ambient mode
      fit(n_epochs, validation)                 per epoch: training loss = compute_loss() (enable_grad=True), backward, step;
                                                then, when validation is on, compute_loss(enable_grad=False)

  A tensor computed from trainable parameters carries a graph exactly when the switch was on while it was computed.
  The caller's side is a script of such calls, each possibly failing (an exception passes through the call and is
  caught by the caller), possibly inside the caller's own `with torch.no_grad():` / `with torch.enable_grad():` block,
  possibly interleaved with the global `torch.set_grad_enabled(b)` function.  Core Lean only.
-/
namespace PfVerif.GradMode

/-- the thread-local switch `torch.is_grad_enabled()` -/
abbrev Mode := Bool

/-- what the caller sees of one library call -/
structure Out where
  /-- the switch while the body ran -/
  inside : Bool
  /-- `some g`: a tensor came back with `requires_grad = g`; `none`: an exception passed through -/
  graph : Option Bool
  /-- `torch.is_grad_enabled()` right after the call (after the caller caught the exception, if any) -/
  after : Bool
  deriving Repr, DecidableEq

/-- `with torch.set_grad_enabled(b): body` — the body's outcome, and the switch restored on either exit -/
def withMode {β : Type} (b : Bool) (body : Mode → β) (m : Mode) : Mode × β := (m, body b)

/-- the outcome of evaluating a quantity built from the parameters: a graph iff the switch is on and something is trainable -/
def evalUnder (trainable fails : Bool) (m : Mode) : Option Bool := if fails then none else some (m && trainable)

/-- library calls -/
inductive Prim where
  | price (enableGrad fails : Bool)
  | computeLoss (enableGrad fails : Bool)
  | computePL (fails : Bool)
  /-- `fit` of `epochs` epochs; `failsAt = some (e, inValidation)`: the evaluation of epoch `e` (training or validation) raises -/
  | fit (epochs : Nat) (validation : Bool) (failsAt : Option (Nat × Bool))
  deriving Repr, DecidableEq

/-- one epoch of `fit`: the outputs of the training evaluation and (when on and reached) the validation evaluation;
`true` when the epoch raised -/
def fitEpoch (trainable validation : Bool) (failsAt : Option (Nat × Bool)) (m : Mode) (e : Nat) : List Out × Bool :=
  let tFails := failsAt == some (e, false)
  let (m1, g1) := withMode true (evalUnder trainable tFails) m
  let o1 : Out := ⟨true, g1, m1⟩
  if tFails then ([o1], true)
  else if validation then
    let vFails := failsAt == some (e, true)
    let (m2, g2) := withMode false (evalUnder trainable vFails) m1
    ([o1, ⟨false, g2, m2⟩], vFails)
  else ([o1], false)

/-- the epochs `e, e+1, ..` of a `fit`, stopping at the first one that raises -/
def fitLoop (trainable validation : Bool) (failsAt : Option (Nat × Bool)) (m : Mode) : Nat → Nat → List Out
  | 0, _ => []
  | n + 1, e =>
    let (outs, raised) := fitEpoch trainable validation failsAt m e
    if raised then outs else outs ++ fitLoop trainable validation failsAt m n (e + 1)

/-- one library call under the ambient mode `m`: the new ambient mode and what the caller observed -/
def Prim.run (trainable : Bool) (m : Mode) : Prim → Mode × List Out
  | .price eg fails =>
    let (m', g) := withMode eg (evalUnder trainable fails) m
    (m', [⟨eg, g, m'⟩])
  | .computeLoss eg fails =>
    let (m', g) := withMode eg (evalUnder trainable fails) m
    (m', [⟨eg, g, m'⟩])
  | .computePL fails => (m, [⟨m, evalUnder trainable fails m, m⟩])
  | .fit epochs validation failsAt => (m, fitLoop trainable validation failsAt m epochs 0)

/-- a sequence of library calls (the caller catches every exception) -/
def runPrims (trainable : Bool) : Mode → List Prim → Mode × List (List Out)
  | m, [] => (m, [])
  | m, p :: rest =>
    let (m1, o) := p.run trainable m
    let (m2, os) := runPrims trainable m1 rest
    (m2, o :: os)

/-- the caller's script -/
inductive Call where
  | prim (p : Prim)
  /-- `with torch.no_grad(): ...` (`b = false`) / `with torch.enable_grad(): ...` (`b = true`) around library calls -/
  | block (b : Bool) (body : List Prim)
  /-- `torch.set_grad_enabled(b)` called as a function: the caller moves the ambient mode -/
  | setGlobal (b : Bool)
  deriving Repr

def Call.run (trainable : Bool) (m : Mode) : Call → Mode × List (List Out)
  | .prim p => let (m', o) := p.run trainable m; (m', [o])
  | .block b body => withMode b (fun mb => (runPrims trainable mb body).2) m
  | .setGlobal b => (b, [])

def runScript (trainable : Bool) : Mode → List Call → Mode × List (List (List Out))
  | m, [] => (m, [])
  | m, c :: rest =>
    let (m1, o) := c.run trainable m
    let (m2, os) := runScript trainable m1 rest
    (m2, o :: os)

/-- the script with every injected failure removed -/
def Prim.noFail : Prim → Prim
  | .price eg _ => .price eg false
  | .computeLoss eg _ => .computeLoss eg false
  | .computePL _ => .computePL false
  | .fit n v _ => .fit n v none

end PfVerif.GradMode
