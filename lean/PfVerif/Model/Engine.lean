/-
  Model of pfhedge's random-number engines (`pfhedge/stochastic/random.py`, `engine.py`): the
  deterministic structure they put on top of the draws they consume.

  * `randn_antithetic(n, …)`: `half = ⌈n/2⌉` rows `z` are drawn, the output is `cat(z, -z)`,
    optionally permuted (`output[randperm]`), then cut to `n` rows.  The batch dimension is modelled
    (a row is an opaque value with a negation).
  * `RandnSobolBoxMuller._generate_1d(n)`: `n // 2 + 1` two-dimensional Sobol points `(u1, u2)`,
    Box–Muller on each, `cat(z0, z1)[:n]`.
-/
import PfVerif.Model.Basic
import PfVerif.Model.Clamp
namespace PfVerif

section
variable {α : Type}

/-- `-(-n // 2)` of the code: the number of rows drawn -/
def antitheticHalf (n : Nat) : Nat := (n + 1) / 2

/-- `randn_antithetic(..., shuffle=False)` on the drawn rows `z` -/
def antithetic [Neg α] (n : Nat) (z : List α) : List α := (z ++ z.map (fun x => -x)).take n

/-- `full[i]` with the `IndexError` of the code -/
def pickAt (full : List α) (i : Nat) : Except Err α :=
  match full[i]? with
  | some x => .ok x
  | none => .error .runtimeError

/-- with `shuffle=True`: `perm` is the index tensor returned by `torch.randperm(2·half)`; an index
out of range is an `IndexError` -/
def antitheticShuffled [Neg α] (n : Nat) (z : List α) (perm : List Nat) : Except Err (List α) := do
  let full := z ++ z.map (fun x => -x)
  let picked ← perm.mapM (pickAt full)
  pure (picked.take n)

end

section
variable {α : Type} [Add α] [Sub α] [Mul α] [Div α] [Neg α] [OfNat α 0] [OfNat α 1] [OfNat α 2]
  [LE α] [DecidableLE α] [Max α] [Min α] [Transc α]

/-- `RandnSobolBoxMuller._generate_1d(n)` on the Sobol points `u` (`n // 2 + 1` of them) -/
def sobolBoxMuller (twoPi eps : α) (n : Nat) (u : List (α × α)) : List α :=
  let zs := u.map (fun p => boxMuller twoPi eps p.1 p.2)
  (zs.map Prod.fst ++ zs.map Prod.snd).take n

end
end PfVerif
