/-
  PfVerif.Model.Autogreek — the GLUE of `pfhedge.autogreek` (autogreek.py:13-313) and
  `pfhedge._utils.parse` (parse.py:14-59): which keyword arguments the user's pricer receives under
  which parameterisation, what is derived from what, what is dropped because the pricer does not name
  it, which error is raised, and which number comes back.  Element-wise on scalars, generic in the
  carrier (`Transc` for exp / log / sqrt); core Lean only.

  The code, for `delta` (`vega`, `theta` alike; `gamma` calls `delta` on the dict it has built):

      spot = parse_spot(**params).requires_grad_()          -- the LEAF
      params["spot"] = spot
      if "strike" in params:
          params["moneyness"] = spot / params["strike"]       -- overwriting whatever was passed
          params["log_moneyness"] = (spot / params["strike"]).log()
      for parameter in list(params.keys()):
          if parameter not in signature(pricer).parameters.keys():   -- ANY kind of parameter
              del params[parameter]
      price = pricer(**params)                               -- python's own argument binding
      return torch.autograd.grad(price, inputs=spot, ...)[0]

  Model:
    `Params`            python dict of keyword arguments (association list in insertion order;
                        `setP` = `d[k] = v`: in place when the key exists, appended otherwise)
    `parseSpot/parseVolatility/parseTime`   precedence and ValueError of parse.py
    `preDict g seed ps` the dict before filtering (`seed` marks the leaf: identity on plain numbers,
                        `⟨x, 1⟩` on dual numbers)
    `Sig`, `passed`     `inspect.signature(pricer).parameters` and the filter (a name of ANY kind
                        survives: a `**kwargs` pricer receives only an entry literally called `kwargs`)
    `bindArgs`          python's binding of `pricer(**kw)`: keywords bind positional-or-keyword and
                        keyword-only parameters; a keyword naming a positional-only / `*args` /
                        `**kwargs` parameter goes into `**kwargs` when there is one, else TypeError;
                        a parameter left unbound takes its default, else TypeError
    `run`, `autogreekValue`, `autogreekGamma`   the whole call at dual numbers, ε-part (minus: theta)
    `Expr`, `Expr.eval` a closed language of smooth pricer bodies (what the driver executes and the
                        harness mirrors in torch)

  Outside the model: an explicit `None` value (treated as absent by parse_*, but still `in params`),
  pricers whose signature cannot be read, tensors (the Greek of an element depends only on the
  entries of that element: the differentiated tensor has the full broadcast shape in the harness),
  and autograd's RuntimeError for a price that does not depend on the leaf at all (gamma: a delta
  that does not) — the dual numbers return the derivative 0 there; the harness only sends bodies
  that depend on the leaf.
-/
import PfVerif.Model.Basic
import PfVerif.Inst.Dual
namespace PfVerif.Autogreek
open Transc

/-! ### python dicts of keyword arguments -/

abbrev Params (α : Type) := List (String × α)

section dict
variable {α : Type}

/-- `d.get(k)` -/
def getP : Params α → String → Option α
  | [], _ => none
  | (k', v) :: r, k => if k' = k then some v else getP r k

/-- `k in d` -/
def hasP (ps : Params α) (k : String) : Bool := (getP ps k).isSome

/-- `d[k] = v` -/
def setP : Params α → String → α → Params α
  | [], k, v => [(k, v)]
  | (k', v') :: r, k, v => if k' = k then (k, v) :: r else (k', v') :: setP r k v

def keysP (ps : Params α) : List String := ps.map (·.1)

end dict

inductive Greek where | delta | gamma | vega | theta
  deriving DecidableEq, Repr

/-! ### parse.py -/

section parse
variable {α : Type} [Mul α] [Div α] [OfNat α 0] [Max α] [Transc α]

/-- `parse_spot`: spot | moneyness * strike | exp(log_moneyness) * strike | ValueError -/
def parseSpot (ps : Params α) : Except Err α :=
  match getP ps "spot" with
  | some s => .ok s
  | none =>
    match getP ps "moneyness", getP ps "strike" with
    | some m, some k => .ok (m * k)
    | _, _ =>
      match getP ps "log_moneyness", getP ps "strike" with
      | some l, some k => .ok (exp l * k)
      | _, _ => .error .valueError

/-- `parse_volatility`: volatility | sqrt(clamp(variance, min=0)) | ValueError -/
def parseVolatility (ps : Params α) : Except Err α :=
  match getP ps "volatility" with
  | some v => .ok v
  | none =>
    match getP ps "variance" with
    | some q => .ok (sqrt (max q 0))
    | none => .error .valueError

/-- `parse_time_to_maturity` -/
def parseTime (ps : Params α) : Except Err α :=
  match getP ps "time_to_maturity" with
  | some t => .ok t
  | none => .error .valueError

/-- the dict of `autogreek.delta` before the signature filter -/
def deltaDict (seed : α → α) (ps : Params α) : Except Err (Params α) := do
  let spot := seed (← parseSpot ps)
  let ps := setP ps "spot" spot
  match getP ps "strike" with
  | some k => pure (setP (setP ps "moneyness" (spot / k)) "log_moneyness" (log (spot / k)))
  | none => pure ps

/-- the dict of `autogreek.vega` before the signature filter -/
def vegaDict (seed : α → α) (ps : Params α) : Except Err (Params α) := do
  let vol := seed (← parseVolatility ps)
  pure (setP (setP ps "volatility" vol) "variance" (vol * vol))

/-- the dict of `autogreek.theta` before the signature filter -/
def thetaDict (seed : α → α) (ps : Params α) : Except Err (Params α) := do
  let t := seed (← parseTime ps)
  pure (setP ps "time_to_maturity" t)

/-- the dict handed to the pricer BEFORE the signature filter.  `gamma` builds delta's dict and
calls `delta` with it, which parses (finding the leaf under "spot") and derives once more. -/
def preDict (g : Greek) (seed : α → α) (ps : Params α) : Except Err (Params α) :=
  match g with
  | .delta => deltaDict seed ps
  | .gamma => do
    let d ← deltaDict seed ps
    deltaDict seed d
  | .vega => vegaDict seed ps
  | .theta => thetaDict seed ps

end parse

/-! ### the pricer's signature, the filter, python's argument binding -/

inductive Kind where
  | positionalOnly | positionalOrKeyword | varPositional | keywordOnly | varKeyword
  deriving DecidableEq, Repr

/-- one entry of `inspect.signature(pricer).parameters` -/
structure Param (α : Type) where
  name : String
  kind : Kind
  default : Option α

abbrev Sig (α : Type) := List (Param α)

/-- what the body of the pricer sees: its named parameters, and the content of `**kwargs` -/
structure Env (α : Type) where
  args : Params α
  extra : Params α

section binding
variable {α : Type}

def Sig.names (sig : Sig α) : List String := sig.map (·.name)

/-- `k in signature(pricer).parameters.keys()` — parameters of any kind -/
def named (sig : Sig α) (k : String) : Bool := sig.any (fun p => p.name = k)

/-- the filter loop: `pricer(**passed)` -/
def passed (sig : Sig α) (d : Params α) : Params α := d.filter (fun e => named sig e.1)

/-- parameters a keyword argument can bind -/
def Kind.byKeyword : Kind → Bool
  | .positionalOrKeyword | .keywordOnly => true
  | _ => false

/-- parameters that need a value (`*args`, `**kwargs` do not) -/
def Kind.isNamed : Kind → Bool
  | .varPositional | .varKeyword => false
  | _ => true

def hasVarKw (sig : Sig α) : Bool := sig.any (fun p => p.kind = .varKeyword)

def findParam (sig : Sig α) (k : String) : Option (Param α) := sig.find? (fun p => p.name = k)

/-- the keyword `k` binds a declared parameter (otherwise it can only go into `**kwargs`) -/
def bindsNamed (sig : Sig α) (k : String) : Bool :=
  match findParam sig k with
  | some p => p.kind.byKeyword
  | none => false

/-- the value of one declared parameter: the keyword argument, else the default, else TypeError -/
def bindOne (kw : Params α) (p : Param α) : Except Err α :=
  match (if p.kind.byKeyword then getP kw p.name else none) with
  | some x => .ok x
  | none =>
    match p.default with
    | some x => .ok x
    | none => .error .typeError

/-- values of the declared parameters, in the order of the signature -/
def bindNamed (kw : Params α) : Sig α → Except Err (Params α)
  | [] => .ok []
  | p :: r =>
    if p.kind.isNamed then do
      let x ← bindOne kw p
      let rest ← bindNamed kw r
      pure ((p.name, x) :: rest)
    else bindNamed kw r

/-- python's binding of the call `pricer(**kw)` -/
def bindArgs (sig : Sig α) (kw : Params α) : Except Err (Env α) :=
  let extra := kw.filter (fun e => !bindsNamed sig e.1)
  if !extra.isEmpty && !hasVarKw sig then .error .typeError
  else do
    let a ← bindNamed kw sig
    pure ⟨a, extra⟩

/-- filter and bind -/
def callArgs (sig : Sig α) (d : Params α) : Except Err (Env α) := bindArgs sig (passed sig d)

end binding

/-! ### the whole call -/

section run
variable {γ : Type} [Mul γ] [Div γ] [OfNat γ 0] [Max γ] [Transc γ]

/-- parse, derive, filter, bind, evaluate the body (`seed` marks the leaf) -/
def run (g : Greek) (seed : γ → γ) (sig : Sig γ) (f : Env γ → Except Err γ) (ps : Params γ) :
    Except Err γ := do
  let d ← preDict g seed ps
  let env ← callArgs sig d
  f env

end run

section dual
variable {β : Type}

/-- a constant of the caller at first order -/
def lift1 [OfNat β 0] (x : β) : Dual β := ⟨x, 0⟩
/-- the leaf at first order: `requires_grad_()` -/
def seed1 [OfNat β 1] (x : Dual β) : Dual β := ⟨x.val, 1⟩
/-- a constant of the caller at second order -/
def lift2 [OfNat β 0] (x : β) : Dual (Dual β) := ⟨⟨x, 0⟩, ⟨0, 0⟩⟩
/-- the leaf at second order (both levels differentiate by it) -/
def seed2 [OfNat β 0] [OfNat β 1] (x : Dual (Dual β)) : Dual (Dual β) := ⟨⟨x.val.val, 1⟩, ⟨1, 0⟩⟩

def liftParams (l : β → γ) (ps : Params β) : Params γ := ps.map (fun e => (e.1, l e.2))
def liftSig (l : β → γ) (sig : Sig β) : Sig γ :=
  sig.map (fun p => ⟨p.name, p.kind, p.default.map l⟩)

variable [Add β] [Sub β] [Mul β] [Div β] [Neg β] [OfNat β 0] [OfNat β 1] [OfNat β 2] [OfNat β 3]
  [LE β] [DecidableLE β] [Transc β]

/-- `autogreek.delta / vega / theta` (first order; `gamma` here would be the first derivative with
gamma's dict): the ε-part of the pricer's value with the leaf seeded; theta is minus that -/
def autogreekValue (g : Greek) (sig : Sig β) (f : Env (Dual β) → Except Err (Dual β))
    (ps : Params β) : Except Err β :=
  (run g seed1 (liftSig lift1 sig) f (liftParams lift1 ps)).map
    (fun d => if g = .theta then -d.eps else d.eps)

/-- `autogreek.gamma`: the derivative by the leaf of delta (itself a derivative by the leaf) -/
def autogreekGamma (sig : Sig β) (f : Env (Dual (Dual β)) → Except Err (Dual (Dual β)))
    (ps : Params β) : Except Err β :=
  (run .gamma seed2 (liftSig lift2 sig) f (liftParams lift2 ps)).map (fun d => d.eps.eps)

end dual

/-! ### a closed language of smooth pricer bodies -/

inductive Expr (β : Type) where
  | var (name : String)
  | num (c : β)
  | add (a b : Expr β) | sub (a b : Expr β) | mul (a b : Expr β) | div (a b : Expr β)
  | neg (a : Expr β)
  | exp (a : Expr β) | log (a : Expr β) | sqrt (a : Expr β)
  | sin (a : Expr β) | cos (a : Expr β) | ncdf (a : Expr β)

section expr
variable {β γ : Type} [Add γ] [Sub γ] [Mul γ] [Div γ] [Neg γ] [Transc γ]

/-- the body evaluated on the bound parameters; constants enter through `l`.  A name that is not
a bound parameter (python: NameError) does not occur in bodies that are `scoped`. -/
def Expr.eval (l : β → γ) (args : Params γ) : Expr β → Except Err γ
  | .var n => match getP args n with
    | some x => .ok x
    | none => .error .keyError
  | .num c => .ok (l c)
  | .add a b => do pure ((← a.eval l args) + (← b.eval l args))
  | .sub a b => do pure ((← a.eval l args) - (← b.eval l args))
  | .mul a b => do pure ((← a.eval l args) * (← b.eval l args))
  | .div a b => do pure ((← a.eval l args) / (← b.eval l args))
  | .neg a => do pure (-(← a.eval l args))
  | .exp a => do pure (Transc.exp (← a.eval l args))
  | .log a => do pure (Transc.log (← a.eval l args))
  | .sqrt a => do pure (Transc.sqrt (← a.eval l args))
  | .sin a => do pure (Transc.sin (← a.eval l args))
  | .cos a => do pure (Transc.cos (← a.eval l args))
  | .ncdf a => do pure (Transc.ncdf (← a.eval l args))

/-- the names a body mentions -/
def Expr.vars : Expr β → List String
  | .var n => [n]
  | .num _ => []
  | .add a b | .sub a b | .mul a b | .div a b => a.vars ++ b.vars
  | .neg a | .exp a | .log a | .sqrt a | .sin a | .cos a | .ncdf a => a.vars

/-- every name of the body is a declared (non-variadic) parameter of the signature -/
def Expr.scoped (e : Expr β) (sig : Sig β) : Bool :=
  e.vars.all (fun n => sig.any (fun p => p.name = n && p.kind.isNamed))

/-- a body as a pricer -/
def Expr.pricer (l : β → γ) (e : Expr β) : Env γ → Except Err γ := fun env => e.eval l env.args

end expr

end PfVerif.Autogreek
