/-
  Hedging modules used by the correspondence checks, generic in the scalar: affine layer, ReLU,
  multi-layer perceptron.  (`torch.nn.Linear`: `y = W x + b`.)
-/
import PfVerif.Model.Basic
namespace PfVerif
section
variable {α : Type} [Add α] [Mul α] [OfNat α 0] [LE α] [DecidableLE α]

def dotL (w x : List α) : α := sumL (List.zipWith (· * ·) w x)

/-- `torch.nn.Linear` -/
def linearL (w : List (List α)) (b : List α) (x : List α) : List α :=
  List.zipWith (fun row bi => dotL row x + bi) w b

/-- `torch.nn.ReLU` -/
def reluL (x : List α) : List α := x.map reluS

/-- affine layers with ReLU between them (none after the last) -/
def mlpL : List (List (List α) × List α) → List α → List α
  | [], x => x
  | [(w, b)], x => linearL w b x
  | (w, b) :: rest, x => mlpL rest (reluL (linearL w b x))

end
end PfVerif
