/-
  The life of ONE derivative object that carries SEVERAL registered underliers
  (derivative/base.py: `_underliers` OrderedDict, `register_underlier`, the repaired `__setattr__`,
  `__getattr__` / `get_underlier`, `named_underliers`, `underliers`, `ul(i)`, `payoff`).

  Model/Session.lean knows ONE price buffer.  Here the registry is inside the session:

  * the world: instrument objects are numbered (`id`); each has a `spot` buffer or none (an instrument that
    was never simulated: `inst.spot` raises AttributeError);
  * the object: contract terms, the basket weights (`self.weights`, a Python list that grows), the registry
    `_underliers` (insertion-ordered dict name → instrument id), the clauses, the static attribute names;
  * operations: the operations of Model/Session.lean, the price edits addressed to an instrument through a
    reference (`Ref`): a Python variable holding the object (`stock.spot[i, j] = v`), a name
    (`d.underlier.spot[i, j] = v`) or a position (`d.ul(0).spot[i, j] = v`) - `lift` maps a Session
    operation to the operation here; `register name id` (`d.register_underlier(name, inst)`),
    `assign name id` (`setattr(d, name, inst)`; the repaired `__setattr__` is `register_underlier` followed by
    `__dict__.pop`, so the effect on the registry is the SAME: an existing name keeps its POSITION, a new name
    is appended, a refused name raises KeyError and changes nothing), `swapBuffer ref rows` (an instrument
    re-simulated / `register_buffer("spot", rows)`), `addWeight`;
  * queries: `names` (`named_underliers()`: names in order, each with its instrument), `ul i` (Python index),
    `get name` (`get_underlier` / attribute access), `query` (`payoff()`) for four kinds of contracts
    (`Contract`): the built-in products (`payoff_fn` reads `self.ul().spot`, per-path function as in
    Model/Session.lean), a spread read by position (`ul(0)`, `ul(1)`), a spread read by name, a weighted basket
    over `zip(self.weights, self.underliers())` - the user contracts of harness/c12.py (`user_contracts`).

  Scope notes.  The clause language is the one of Model/Session.lean; a knock-out clause reads
  `d.ul().spot` and is applied by `knockVec` (buffer rows against payoff entries, equal counts): torch would
  broadcast a ONE-path buffer against a longer payoff vector of a user contract - not modelled, never generated.
  Values assigned are instruments (a non-instrument value assigned under a registry name becomes an ordinary
  attribute: outside the model, as in Model/GridSys.lean).  The row-list representation of a buffer does not
  carry the column count of a buffer without rows (as in Model/Session.lean).

  Core Lean only, generic in the scalar type.
-/
import PfVerif.Model.Session
import PfVerif.Model.Payoff
namespace PfVerif.MultiSession
open PfVerif PfVerif.Session

/-- what is raised: one of the canonical error kinds, or AttributeError (no such underlier name; an instrument
without a `spot` buffer; `float.clamp` of a basket that summed nothing) -/
inductive Fault where
  | err (e : Err)
  | attributeError
  deriving DecidableEq, Repr

/-- how the user's code reaches an instrument -/
inductive Ref where
  | id (k : Nat)          -- a Python variable holding the instrument object
  | name (n : String)     -- `d.get_underlier(n)` (= `d.<n>` for a name that is no other attribute of the object)
  | pos (i : Int)         -- `d.ul(i)`
  deriving DecidableEq, Repr

/-- what `payoff_fn` reads -/
inductive Contract where
  | ul0                                     -- built-in products: `self.ul().spot`, per path
  | spreadPos                               -- `(ul(0).spot[..., -1] - ul(1).spot[..., -1] - strike).clamp(min=0)`
  | spreadName (first second : String)      -- the same on `self.<first>`, `self.<second>`
  | basket                                  -- `(sum_i w_i * u_i.spot[..., -1] - strike).clamp(min=0)` over `zip(weights, underliers())`
  deriving DecidableEq, Repr

/-- the object and the world of instruments -/
structure State (α : Type) where
  terms : Terms α
  weights : List α
  reg : List (String × Nat)                  -- `_underliers`
  world : Nat → Option (List (List α))       -- `spot` of every instrument object (`none`: not simulated)
  clauses : List (String × Clause α)
  attrs : List String                        -- `hasattr(d, name)` for names that are no underlier

inductive Op (α : Type) where
  | setStrike (k : α)
  | setCall (b : Bool)
  | toggleCall
  | setStart (i : Int)
  | addWeight (w : α)                                   -- `d.weights.append(w)`
  | setCell (r : Ref) (i j : Int) (v : α)               -- `<r>.spot[i, j] = v`
  | swapBuffer (r : Ref) (buf : List (List α))          -- `<r>.register_buffer("spot", buf)` / re-simulated
  | register (name : String) (id : Nat)                 -- `d.register_underlier(name, inst)`
  | assign (name : String) (id : Nat)                   -- `setattr(d, name, inst)`
  | addClause (name : String) (c : Clause α)
  | query                                               -- `d.payoff()`
  | names                                               -- `list(d.named_underliers())`
  | ul (i : Int)                                        -- `d.ul(i)`
  | get (name : String)                                 -- `d.get_underlier(name)` / `d.<name>`

/-- a Session operation carried out on the instrument reached through `r` -/
def lift {α : Type} (r : Ref) : Session.Op α → Op α
  | .setStrike k => .setStrike k
  | .setCall b => .setCall b
  | .toggleCall => .toggleCall
  | .setStart i => .setStart i
  | .setCell i j v => .setCell r i j v
  | .reregister buf => .swapBuffer r buf
  | .addClause n c => .addClause n c
  | .query => .query

/-- what the user sees -/
inductive Out (α : Type) where
  | none
  | payoff (v : List α)
  | error (e : Fault)
  | listing (l : List (String × Nat))       -- names in order, each with the instrument registered under it
  | inst (id : Nat)
  deriving DecidableEq

/-! ### the registry accessors -/

/-- `ul(i)` = `list(self.underliers())[i]` (Python index; IndexError) -/
def ulAt (reg : List (String × Nat)) (i : Int) : Except Fault Nat :=
  match pyIndex reg.length i with
  | none => .error (.err .runtimeError)
  | some k =>
    match reg[k]? with
    | some p => .ok p.2
    | none => .error (.err .runtimeError)

/-- `get_underlier(name)` / `__getattr__` (AttributeError) -/
def getName (reg : List (String × Nat)) (n : String) : Except Fault Nat :=
  match reg.lookup n with
  | some id => .ok id
  | none => .error .attributeError

def resolve (reg : List (String × Nat)) : Ref → Except Fault Nat
  | .id k => .ok k
  | .name n => getName reg n
  | .pos i => ulAt reg i

/-- `inst.spot` -/
def spotOf {α : Type} (w : Nat → Option (List (List α))) (id : Nat) : Except Fault (List (List α)) :=
  match w id with
  | some buf => .ok buf
  | none => .error .attributeError

/-- the world with the buffer of one instrument replaced -/
def setW {α : Type} (w : Nat → Option (List (List α))) (id : Nat) (buf : List (List α)) :
    Nat → Option (List (List α)) :=
  fun k => if k = id then some buf else w k

def liftE {β : Type} : Except Err β → Except Fault β
  | .ok v => .ok v
  | .error e => .error (.err e)

/-- `x[-1]` of one row -/
def lastE {α : Type} (xs : List α) : Except Err α :=
  match lastL xs with
  | some x => .ok x
  | none => .error .runtimeError

/-- `spot[..., -1]`: the terminal price of every path -/
def termCol {α : Type} (buf : List (List α)) : Except Fault (List α) := liftE (allOk (buf.map lastE))

/-- an element-wise binary operation on two 1-d tensors, torch broadcasting (a size-1 axis is expanded) -/
def bcast2 {α : Type} (f : α → α → α) (xs ys : List α) : Except Fault (List α) :=
  if xs.length = ys.length then .ok (List.zipWith f xs ys)
  else
    match xs, ys with
    | [x], ys => .ok (ys.map (f x))
    | xs, [y] => .ok (xs.map (fun x => f x y))
    | _, _ => .error (.err .runtimeError)

section
variable {α : Type} [Add α] [Sub α] [Mul α] [Div α] [Neg α] [OfNat α 0] [OfNat α 1]
  [LE α] [DecidableLE α] [Max α] [Min α]

/-- `(a.spot[..., -1] - b.spot[..., -1] - strike).clamp(min=0)` -/
def spread (k : α) (w : Nat → Option (List (List α))) (a b : Nat) : Except Fault (List α) := do
  let ca ← (spotOf w a) >>= termCol
  let cb ← (spotOf w b) >>= termCol
  let d ← bcast2 (fun x y => x - y) ca cb
  pure (d.map (fun x => reluS (x - k)))

/-- `total + term`: `total` is the Python float `0.0` (`none`) or already a tensor -/
def accAdd (acc : Option (List α)) (term : List α) : Except Fault (List α) :=
  match acc with
  | none => .ok (term.map (fun y => 0 + y))
  | some v => bcast2 (fun x y => x + y) v term

/-- the loop `total = total + w * u.spot[..., -1]` from `total = 0.0` (`none`: still the Python float) -/
def basketAcc (w : Nat → Option (List (List α))) : Option (List α) → List (α × Nat) → Except Fault (Option (List α))
  | acc, [] => .ok acc
  | acc, (wt, id) :: rest =>
    ((spotOf w id) >>= termCol) >>= fun col =>
    accAdd acc (col.map (fun x => wt * x)) >>= fun acc' =>
    basketAcc w (some acc') rest

/-- `(total - strike).clamp(min=0)`; a Python float has no `clamp` -/
def basket (k : α) (w : Nat → Option (List (List α))) (ws : List α) (ids : List Nat) : Except Fault (List α) := do
  match ← basketAcc w none (ws.zip ids) with
  | none => .error .attributeError
  | some v => pure (v.map (fun x => reluS (x - k)))

/-- `payoff_fn()` -/
def baseOf (pp : Terms α → List α → Except Err α) (c : Contract) (t : Terms α) (ws : List α)
    (reg : List (String × Nat)) (w : Nat → Option (List (List α))) : Except Fault (List α) :=
  match c with
  | .ul0 => do
    let id ← ulAt reg 0
    let buf ← spotOf w id
    liftE (basePayoff pp t buf)
  | .spreadPos => do
    let a ← ulAt reg 0
    let b ← ulAt reg 1
    spread t.strike w a b
  | .spreadName f g => do
    let a ← getName reg f
    let b ← getName reg g
    spread t.strike w a b
  | .basket => basket t.strike w ws (reg.map (·.2))

/-- one clause `clause(derivative, payoff)`: the knock-out reads `derivative.ul().spot` -/
def clauseM (reg : List (String × Nat)) (w : Nat → Option (List (List α))) :
    Clause α → List α → Except Fault (List α)
  | .knockOut b, p => do
    let id ← ulAt reg 0
    let buf ← spotOf w id
    liftE (knockVec b buf p)
  | c, p => liftE (c.apply [] p)

def clauseFnsM (reg : List (String × Nat)) (w : Nat → Option (List (List α)))
    (cl : List (String × Clause α)) :
    List (String × (Except Fault (List α) → Except Fault (List α))) :=
  cl.map (fun p => (p.1, fun acc =>
    match acc with
    | .ok v => clauseM reg w p.2 v
    | .error e => .error e))

/-- `BaseDerivative.payoff`: `payoff_fn()`, then the clauses in registration order -/
def payoffAt (pp : Terms α → List α → Except Err α) (c : Contract) (t : Terms α) (ws : List α)
    (reg : List (String × Nat)) (w : Nat → Option (List (List α))) (cl : List (String × Clause α)) :
    Except Fault (List α) :=
  applyClauses (clauseFnsM reg w cl) (baseOf pp c t ws reg w)

def outOf : Except Fault (List α) → Out α
  | .ok v => .payoff v
  | .error e => .error e

/-- the answer of `payoff()` in state `s` -/
def answer (pp : Terms α → List α → Except Err α) (c : Contract) (s : State α) : Out α :=
  outOf (payoffAt pp c s.terms s.weights s.reg s.world s.clauses)

end

/-- the instrument an accessor returns, if it returns one -/
def okList : Except Fault Nat → List Nat
  | .ok id => [id]
  | .error _ => []

def isKnock {α : Type} : Clause α → Bool
  | .knockOut _ => true
  | _ => false

/-- the instruments whose buffers `payoff()` reads NOW: those the contract's accessors return, and `ul()` when a
knock-out clause is registered -/
def reads {α : Type} (c : Contract) (ws : List α) (reg : List (String × Nat)) (cl : List (String × Clause α)) :
    List Nat :=
  (match c with
   | .ul0 => okList (ulAt reg 0)
   | .spreadPos => okList (ulAt reg 0) ++ okList (ulAt reg 1)
   | .spreadName f g => okList (getName reg f) ++ okList (getName reg g)
   | .basket => (ws.zip (reg.map (·.2))).map (·.2))
  ++ (if cl.any (fun p => isKnock p.2) then okList (ulAt reg 0) else [])

/-! ### one operation -/

/-- the names `hasattr` finds: the static attributes and the registered underliers (`__getattr__`) -/
def allAttrs {α : Type} (s : State α) : List String := s.attrs ++ s.reg.map (·.1)

/-- the state after an operation (a failed operation changes nothing) -/
def next {α : Type} (s : State α) : Op α → State α
  | .setStrike k => { s with terms := { s.terms with strike := k } }
  | .setCall b => { s with terms := { s.terms with call := b } }
  | .toggleCall => { s with terms := { s.terms with call := !s.terms.call } }
  | .setStart i => { s with terms := { s.terms with start := i } }
  | .addWeight w => { s with weights := s.weights ++ [w] }
  | .setCell r i j v =>
    match resolve s.reg r with
    | .error _ => s
    | .ok id =>
      match s.world id with
      | none => s
      | some buf =>
        match setCell buf i j v with
        | some buf' => { s with world := setW s.world id buf' }
        | none => s
  | .swapBuffer r buf =>
    match resolve s.reg r with
    | .error _ => s
    | .ok id => { s with world := setW s.world id buf }
  | .register n id =>
    if nameOk s.attrs s.reg n then { s with reg := PfVerif.addClause s.reg n id } else s
  | .assign n id =>
    -- `self.register_underlier(name, value); self.__dict__.pop(name, None)`
    if nameOk s.attrs s.reg n then { s with reg := PfVerif.addClause s.reg n id } else s
  | .addClause n c =>
    if nameOk (allAttrs s) s.clauses n then { s with clauses := PfVerif.addClause s.clauses n c } else s
  | .query => s
  | .names => s
  | .ul _ => s
  | .get _ => s

section
variable {α : Type} [Add α] [Sub α] [Mul α] [Div α] [Neg α] [OfNat α 0] [OfNat α 1]
  [LE α] [DecidableLE α] [Max α] [Min α]

def instOut : Except Fault Nat → Out α
  | .ok id => .inst id
  | .error e => .error e

/-- what the operation shows to the user -/
def output (pp : Terms α → List α → Except Err α) (c : Contract) (s : State α) : Op α → Out α
  | .setCell r i j v =>
    match resolve s.reg r with
    | .error e => .error e
    | .ok id =>
      match s.world id with
      | none => .error .attributeError
      | some buf =>
        match setCell buf i j v with
        | some _ => .none
        | none => .error (.err .runtimeError)           -- IndexError
  | .swapBuffer r _ =>
    match resolve s.reg r with
    | .error e => .error e
    | .ok _ => .none
  | .register n _ => if nameOk s.attrs s.reg n then .none else .error (.err .keyError)
  | .assign n _ => if nameOk s.attrs s.reg n then .none else .error (.err .keyError)
  | .addClause n _ => if nameOk (allAttrs s) s.clauses n then .none else .error (.err .keyError)
  | .query => answer pp c s
  | .names => .listing s.reg
  | .ul i => instOut (ulAt s.reg i)
  | .get n => instOut (getName s.reg n)
  | _ => .none

def step (pp : Terms α → List α → Except Err α) (c : Contract) (s : State α) (op : Op α) : State α × Out α :=
  (next s op, output pp c s op)

/-- a whole history: final state and everything the user saw, in order -/
def run (pp : Terms α → List α → Except Err α) (c : Contract) (s : State α) :
    List (Op α) → State α × List (Out α)
  | [] => (s, [])
  | op :: ops =>
    let r := step pp c s op
    let q := run pp c r.1 ops
    (q.1, r.2 :: q.2)

end

/-- the state after a history -/
def exec {α : Type} (s : State α) (ops : List (Op α)) : State α := ops.foldl next s

end PfVerif.MultiSession
