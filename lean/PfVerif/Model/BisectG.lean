/-
  Model of `pfhedge._utils.bisect.bisect` (bisect.py:9-84) with the arithmetic of the BRACKET as
  a parameter: the midpoint `m = (lower + upper) / 2` and the width `upper - lower` are the two
  operations the code performs on the bracket ends, and in floating point both are ROUNDED
  (`mid l u` can be `l` or `u` itself when the ends are neighbouring floats).  The loop is the one
  of Model/Bisect.lean, transcribed again with

    * `mid : α → α → α`   — `(lower + upper) / 2` in the bracket's dtype,
    * `sub : α → α → α`   — `upper - lower` in the bracket's dtype (`sub u l`),
    * two carriers: `α` for the bracket (`lower`, `upper`, `m`, `precision`) and `β` for the
      function values (`fn(m)`, `target`): a bracket given as Python floats is a float32 tensor
      whatever the dtype of the targets, and `fn` then returns the dtype of the targets.

  Instances:  `α = β`, `mid l u = (l + u) / 2`, `sub u l = u - l`  is Model/Bisect.lean
  (`C19Float.bisectLoopG_exact`, `C19Float.bisectG_exact`: the two models cannot drift);
  `Float` / `Float32` with their own `+ - /` is the IEEE run (Driver/BisectF.lean).
-/
import PfVerif.Model.Bisect
namespace PfVerif

section
variable {α β : Type} [LT α] [DecidableLT α] [Max α]
  [LE β] [DecidableLE β] [LT β] [DecidableLT β] [Neg β]

/-- one loop iteration: midpoint and the two `where` updates -/
def bisectStepG (mid : α → α → α) (fn : List α → List β) (target : List β)
    (lower upper : List α) : List α × List α :=
  let m := List.zipWith mid lower upper
  let out := fn m
  let triples := List.zip (List.zip out target) (List.zip (List.zip lower upper) m)
  -- lower = lower.where(output >= target, m);  upper = upper.where(output < target, m)
  (triples.map (fun ((o, t), ((l, _), mm)) => if t ≤ o then l else mm),
   triples.map (fun ((o, t), ((_, u), mm)) => if o < t then u else mm))

/-- `torch.max(upper - lower)`; `none` on empty tensors (torch raises) -/
def maxWidthG (sub : α → α → α) (lower upper : List α) : Option α :=
  match List.zipWith (fun l u => sub u l) lower upper with
  | [] => none
  | w :: ws => some (maxL w ws)

/-- the `while` loop, `fuel` = remaining iterations before `RuntimeError` -/
def bisectLoopG (mid sub : α → α → α) (fn : List α → List β) (target : List β) (precision : α) :
    Nat → List α → List α → Except Err (List α)
  | fuel, lower, upper =>
    match maxWidthG sub lower upper with
    | none => .error .runtimeError
    | some w =>
      if precision < w then
        match fuel with
        | 0 => .error .runtimeError
        | fuel' + 1 =>
          let (l', u') := bisectStepG mid fn target lower upper
          bisectLoopG mid sub fn target precision fuel' l' u'
      else .ok upper

/-- `bisect`: bracket check, direction test with the recursive call on `-fn`, loop -/
def bisectG (mid sub : α → α → α) (fn : List α → List β) (target : List β) (lower upper : List α)
    (precision : α) (maxIter : Nat) : Except Err (List α) :=
  if !(allLt lower upper) then .error .valueError
  else
    -- `(fn(lower) > fn(upper)).all()`
    let dec := (List.zipWith (fun a b => decide (b < a)) (fn lower) (fn upper)).all id
    if dec then
      let mf := fun x => (fn x).map (fun y => -y)
      let dec2 := (List.zipWith (fun a b => decide (b < a)) (mf lower) (mf upper)).all id
      if dec2 then .error .recursionError   -- only for empty tensors: `.all()` of nothing is True
      else bisectLoopG mid sub mf (target.map (fun y => -y)) precision maxIter lower upper
    else bisectLoopG mid sub fn target precision maxIter lower upper
end

end PfVerif
