/-
  Model of the Black–Scholes functional forms (functional.py:595-1246), element-wise on scalars,
  generic in the carrier: ℝ (theorems), Float (correspondence), XR (totality at t = 0 / v = 0).
  Written as the code is, including the validation in d1/d2 and the `where` guards.
-/
import PfVerif.Model.Basic
namespace PfVerif

section
variable {α : Type} [Add α] [Sub α] [Mul α] [Div α] [Neg α] [OfNat α 0] [OfNat α 1] [OfNat α 2]
  [LE α] [DecidableLE α] [LT α] [DecidableLT α] [Transc α]

open Transc

/-- `x == 0` expressed with `≤` only (IEEE: false for NaN, true for ±0) -/
def isZero (x : α) : Bool := decide (x ≤ 0) && decide ((0 : α) ≤ x)

/-- validation shared by `d1` and `d2` -/
def bsValidate (t v : α) : Except Err Unit :=
  if ¬ ((0 : α) ≤ t) then .error .valueError
  else if ¬ ((0 : α) ≤ v) then .error .valueError
  else .ok ()

def bsD1 (s t v : α) : Except Err α := do
  bsValidate t v
  let w := v * sqrt t
  let out := s / w + w / 2
  pure (if !(isZero s) || !(isZero w) then out else 0)

def bsD2 (s t v : α) : Except Err α := do
  bsValidate t v
  let w := v * sqrt t
  let out := s / w - w / 2
  pure (if !(isZero s) || !(isZero w) then out else 0)

/-- `torch.where((num == 0) & (den == 0), 0, num/den)` -/
def guardedDiv (num den : α) : α := if isZero num && isZero den then 0 else num / den

def bsEuropeanPrice (s t v k : α) (call : Bool) : Except Err α := do
  let spot := exp s * k
  let d1 ← bsD1 s t v
  let d2 ← bsD2 s t v
  let price := spot * ncdf d1 - k * ncdf d2
  pure (if call then price else price + k * (1 - exp s))

def bsEuropeanDelta (s t v : α) (call : Bool) : Except Err α := do
  let d1 ← bsD1 s t v
  let delta := ncdf d1
  pure (if call then delta else delta - 1)

def bsEuropeanGamma (s t v k : α) : Except Err α := do
  let spot := k * exp s
  let d1 ← bsD1 s t v
  pure (guardedDiv (npdf d1) (spot * v * sqrt t))

def bsEuropeanVega (s t v k : α) : Except Err α := do
  let price := k * exp s
  let d1 ← bsD1 s t v
  pure (npdf d1 * price * sqrt t)

def bsEuropeanTheta (s t v k : α) : Except Err α := do
  let price := k * exp s
  let d1 ← bsD1 s t v
  pure (guardedDiv (-(npdf d1) * price * v) (2 * sqrt t))

def bsBinaryPrice (s t v : α) (call : Bool) : Except Err α := do
  let d2 ← bsD2 s t v
  let price := ncdf d2
  pure (if call then price else 1 - price)

def bsBinaryDelta (s t v k : α) (call : Bool) : Except Err α := do
  let spot := exp s * k
  let d2 ← bsD2 s t v
  let delta := guardedDiv (npdf d2) (spot * v * sqrt t)
  pure (if call then delta else -delta)

/-- `bs_european_binary_gamma`.  `wOf t v` is the "total volatility" term the code uses:
`v * √t` is what the formula requires. -/
def bsBinaryGammaW (w s t v k : α) (call : Bool) : Except Err α := do
  let spot := exp s * k
  let d2 ← bsD2 s t v
  let gamma := -(npdf d2 / (w * (spot * spot))) * (1 + d2 / w)
  pure (if call then gamma else -gamma)

/-- as shipped at the pinned commit: `w = volatility * time_to_maturity.square()` (defect F1) -/
def bsBinaryGammaOld (s t v k : α) (call : Bool) : Except Err α :=
  bsBinaryGammaW (v * (t * t)) s t v k call

/-- `w = volatility * time_to_maturity.sqrt()` -/
def bsBinaryGamma (s t v k : α) (call : Bool) : Except Err α :=
  bsBinaryGammaW (v * sqrt t) s t v k call

/-- `_bs_vega_gamma_relation` -/
def vegaOfGamma (gamma spot t v : α) : α := gamma * v * (spot * spot) * t

/-- `_bs_theta_gamma_relation` -/
def thetaOfGamma (gamma spot v : α) : α := -gamma * (v * v) * (spot * spot) / 2

def bsBinaryVega (s t v k : α) (call : Bool) : Except Err α := do
  let g ← bsBinaryGamma s t v k call
  pure (vegaOfGamma g (exp s * k) t v)

def bsBinaryTheta (s t v k : α) (call : Bool) : Except Err α := do
  let g ← bsBinaryGamma s t v k call
  pure (thetaOfGamma g (exp s * k) v)

def bsAmericanBinaryPrice (s m t v : α) : Except Err α := do
  let d1 ← bsD1 s t v
  let d2 ← bsD2 s t v
  let p := ncdf d2 + exp s * ncdf d1
  pure (if m < 0 then p else 1)

/-- as shipped at the pinned commit (defect F8: `0/0 = nan` at `t = 0` / `v = 0`) -/
def bsAmericanBinaryDeltaOld (s m t v k : α) : Except Err α := do
  let spot := exp s * k
  let d1 ← bsD1 s t v
  let d2 ← bsD2 s t v
  let w := v * sqrt t
  let p := npdf d2 / (spot * w) + ncdf d1 / k + npdf d1 / (k * w)
  pure (if m < 0 then p else 0)

/-- after the `fix:` commit: the two `npdf / (… * w)` terms use the `0/0 ↦ 0` guard -/
def bsAmericanBinaryDelta (s m t v k : α) : Except Err α := do
  let spot := exp s * k
  let d1 ← bsD1 s t v
  let d2 ← bsD2 s t v
  let w := v * sqrt t
  let p := guardedDiv (npdf d2) (spot * w) + ncdf d1 / k + guardedDiv (npdf d1) (k * w)
  pure (if m < 0 then p else 0)

def bsAmericanBinaryGamma (s m t v k : α) : Except Err α := do
  let spot := exp s * k
  let d1 ← bsD1 s t v
  let d2 ← bsD2 s t v
  let w := v * sqrt t
  let p := -(npdf d2 / (spot * spot * w)) - d2 * (npdf d2 / (spot * spot * (w * w)))
            + npdf d1 / (spot * k * w) - d1 * (npdf d1 / (spot * k * (w * w)))
  pure (if m < 0 then p else 0)

def bsAmericanBinaryVega (s m t v k : α) : Except Err α := do
  let g ← bsAmericanBinaryGamma s m t v k
  pure (vegaOfGamma g (exp s * k) t v)

def bsAmericanBinaryTheta (s m t v k : α) : Except Err α := do
  let g ← bsAmericanBinaryGamma s m t v k
  pure (thetaOfGamma g (exp s * k) v)

/-- as shipped at the pinned commit (defect F8: `d1 * ncdf d1 = ∞ · 0 = nan` at `t = 0` / `v = 0`) -/
def bsLookbackPriceOld (s m t v k : α) : Except Err α := do
  let spot := exp s * k
  let mx := exp m * k
  let d1 ← bsD1 s t v
  let d2 ← bsD2 s t v
  let m1 ← bsD1 (s - m) t v
  let m2 ← bsD2 (s - m) t v
  let w := v * sqrt t
  let price0 := spot * (ncdf d1 + w * (d1 * ncdf d1 + npdf d1)) - k * ncdf d2
  let price1 := spot * (ncdf m1 + w * (m1 * ncdf m1 + npdf m1)) - k + mx * (1 - ncdf m2)
  pure (if mx < k then price0 else price1)

/-- after the `fix:` commit: `w·d1` is written `s + w²/2` and `w·m1` as `(s − m) + w²/2` -/
def bsLookbackPrice (s m t v k : α) : Except Err α := do
  let spot := exp s * k
  let mx := exp m * k
  let d1 ← bsD1 s t v
  let d2 ← bsD2 s t v
  let m1 ← bsD1 (s - m) t v
  let m2 ← bsD2 (s - m) t v
  let w := v * sqrt t
  let wd1 := s + w * w / 2
  let wm1 := (s - m) + w * w / 2
  let price0 := spot * (ncdf d1 + wd1 * ncdf d1 + w * npdf d1) - k * ncdf d2
  let price1 := spot * (ncdf m1 + wm1 * ncdf m1 + w * npdf m1) - k + mx * (1 - ncdf m2)
  pure (if mx < k then price0 else price1)

end
end PfVerif
