/-
  Model of the registry that decides WHICH feature a name in `Hedger(inputs=[...])` stands for
  (features/_getter.py: `FeatureFactory`, `get_feature`, `list_feature_names`; features/features.py: the
  `FEATURES` list registered at import time under `str(cls())`).

      _features : OrderedDict name → feature class         (one per process: a singleton)
      register_feature(name, cls)   :  _features[name] = cls
      names()                       :  the names in insertion order
      get_class(name)               :  `KeyError` when the name is not registered, else _features[name]
      get_instance(name, **kwargs)  :  get_class(name)(**kwargs)
      get_feature(x, **kwargs)      :  x a string  → get_instance(x, **kwargs)
                                       x a Feature → x itself (kwargs ignored)
                                       otherwise   → TypeError
      list_feature_names()          :  sorted(names())

  The registry itself is the insertion-ordered association list of Model/Factory.lean (`Registry`), here with the
  class NAME as the value, so that a history of user registrations on top of the built-in ones can be replayed.
  What a built-in class constructs is a `BaseFeature` of Model/Hedger.lean — the objects the theorems of C02 / C03
  quantify over: the table below is the tie between "every built-in input feature" in those statements and the
  names the real registry hands out.  The only constructor argument any registered class accepts is `log`
  (Moneyness, MaxMoneyness, Spot, UnderlierSpot); a class that takes no argument raises `TypeError` when given one.
  `ExpiryTime` is the deprecated alias of `TimeToMaturity` (same values).  Core Lean only.
-/
import PfVerif.Model.Factory
import PfVerif.Model.Hedger
namespace PfVerif

/-- the feature classes registered by the library at import time -/
inductive FeatKind where
  | empty | expiryTime | timeToMaturity | logMoneyness | maxLogMoneyness | maxMoneyness | moneyness
  | prevHedge | variance | volatility | zeros | spot | underlierSpot
  deriving Repr, DecidableEq

namespace FeatKind

def all : List FeatKind :=
  [.empty, .expiryTime, .timeToMaturity, .logMoneyness, .maxLogMoneyness, .maxMoneyness, .moneyness,
   .prevHedge, .variance, .volatility, .zeros, .spot, .underlierSpot]

/-- `cls.__name__` -/
def className : FeatKind → String
  | .empty => "Empty"
  | .expiryTime => "ExpiryTime"
  | .timeToMaturity => "TimeToMaturity"
  | .logMoneyness => "LogMoneyness"
  | .maxLogMoneyness => "MaxLogMoneyness"
  | .maxMoneyness => "MaxMoneyness"
  | .moneyness => "Moneyness"
  | .prevHedge => "PrevHedge"
  | .variance => "Variance"
  | .volatility => "Volatility"
  | .zeros => "Zeros"
  | .spot => "Spot"
  | .underlierSpot => "UnderlierSpot"

/-- the name under which the class is registered: `str(cls())` -/
def regName : FeatKind → String
  | .empty => "empty"
  | .expiryTime => "expiry_time"
  | .timeToMaturity => "time_to_maturity"
  | .logMoneyness => "log_moneyness"
  | .maxLogMoneyness => "max_log_moneyness"
  | .maxMoneyness => "max_moneyness"
  | .moneyness => "moneyness"
  | .prevHedge => "prev_hedge"
  | .variance => "variance"
  | .volatility => "volatility"
  | .zeros => "zeros"
  | .spot => "spot"
  | .underlierSpot => "underlier_spot"

def ofClassName (s : String) : Option FeatKind := all.find? (fun k => k.className = s)

/-- does `cls.__init__` take the keyword `log`? -/
def takesLog : FeatKind → Bool
  | .moneyness | .maxMoneyness | .spot | .underlierSpot => true
  | _ => false

/-- `cls(**kwargs)` with `kwargs` either empty or `{log: b}` -/
def construct {α : Type} (k : FeatKind) (log : Option Bool) : Except Err (BaseFeature α) :=
  match log with
  | some b =>
    match k with
    | .moneyness => .ok (.moneyness b)
    | .maxMoneyness => .ok (.maxMoneyness b)
    | .spot => .ok (.spot b)
    | .underlierSpot => .ok (.underlierSpot b)
    | _ => .error .typeError
  | none =>
    .ok (match k with
      | .empty => .empty
      | .expiryTime => .timeToMaturity
      | .timeToMaturity => .timeToMaturity
      | .logMoneyness => .moneyness true
      | .maxLogMoneyness => .maxMoneyness true
      | .maxMoneyness => .maxMoneyness false
      | .moneyness => .moneyness false
      | .prevHedge => .prevHedge
      | .variance => .variance
      | .volatility => .volatility
      | .zeros => .zeros
      | .spot => .spot false
      | .underlierSpot => .underlierSpot false)

end FeatKind

/-- `str(feature)` of an instance (the `name` attribute / `__str__`) -/
def BaseFeature.name {α : Type} : BaseFeature α → String
  | .moneyness l => if l then "log_moneyness" else "moneyness"
  | .maxMoneyness l => if l then "max_log_moneyness" else "max_moneyness"
  | .timeToMaturity => "time_to_maturity"
  | .volatility => "volatility"
  | .variance => "variance"
  | .spot l => if l then "log_spot" else "spot"
  | .underlierSpot l => if l then "underlier_log_spot" else "underlier_spot"
  | .barrier _ _ => "barrier"
  | .zeros => "zeros"
  | .ones => "ones"
  | .empty => "empty"
  | .prevHedge => "prev_hedge"

/-- the `register_feature` calls made while `pfhedge.features` is imported, in the order of the `FEATURES` list -/
def builtinHistory : List (String × String) := FeatKind.all.map (fun k => (k.regName, k.className))

/-- the registry of a fresh process -/
def builtinReg : Registry String := Registry.ofHistory builtinHistory

/-- the registry after further `register_feature(name, cls)` calls of the user (class given by its name) -/
def featReg (user : List (String × String)) : Registry String := builtinReg.registerAll user

/-- what `get_feature` is handed -/
inductive FeatArg (α : Type) where
  | str (name : String) (log : Option Bool)
  | instance (f : BaseFeature α) (log : Option Bool)
  | other

/-- `get_class(name)` -/
def featClass (reg : Registry String) (name : String) : Except Err String :=
  match Registry.lookup reg.entries name with
  | some c => .ok c
  | none => .error .keyError

/-- `get_instance(name, **kwargs)` for a registered library class (a user class registered under the name is
outside the model: `none`) -/
def featInstance {α : Type} (reg : Registry String) (name : String) (log : Option Bool) :
    Except Err (Option (BaseFeature α)) := do
  let c ← featClass reg name
  match FeatKind.ofClassName c with
  | some k => do let f ← k.construct log; pure (some f)
  | none => pure none

/-- `get_feature(x, **kwargs)` -/
def getFeature {α : Type} (reg : Registry String) : FeatArg α → Except Err (Option (BaseFeature α))
  | .str n log => featInstance reg n log
  | .instance f _ => .ok (some f)
  | .other => .error .typeError

/-- insertion sort by `<` on strings (Python compares `str` by code points, as Lean does) -/
def insertStr (s : String) : List String → List String
  | [] => [s]
  | t :: rest => if s < t then s :: t :: rest else t :: insertStr s rest

def sortStr : List String → List String
  | [] => []
  | s :: rest => insertStr s (sortStr rest)

/-- `list_feature_names()` -/
def listFeatureNames (reg : Registry String) : List String := sortStr reg.names

end PfVerif
