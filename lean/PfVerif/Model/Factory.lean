/-
  Model of the registry that decides WHICH Black–Scholes pricing module `BlackScholes(derivative)` hands out
  (nn/modules/bs/black_scholes.py: `BlackScholesModuleFactory`, `BlackScholes.__new__`).

      _modules : OrderedDict name → module class          (one per process: a singleton)
      register_module(name, cls)      :  _modules[name] = cls     (Python dict assignment: a new name is appended,
                                                                   an existing name keeps its place and gets the new class)
      named_modules()                 :  the (name, class) pairs in insertion order
      get_class(name)                 :  _modules[name]            (`KeyError` when absent)
      get_class_from_derivative(d)    :  get_class(d.__class__.__name__).from_derivative(d)
      BlackScholes(d)                 :  get_class_from_derivative(d)

  The lookup key is the name of the derivative's OWN class: the classes it inherits from play no part.  They are
  nevertheless part of the model's input (`DerivClass.ancestors`, the rest of the method resolution order), so that
  "the ancestors do not matter" is a statement about this definition and not a consequence of leaving them out.

  A module class is its name and the formula kind it carries (`Kind` of Model/Acquire.lean: the library classes
  BSEuropeanOption, BSEuropeanBinaryOption, BSAmericanBinaryOption, BSLookbackOption, or a user subclass
  of one of them); `from_derivative` is `BSModule.fromDerivative` of that kind (path-dependent kinds reject puts).
  Core Lean only.
-/
import PfVerif.Model.Acquire
namespace PfVerif

/-- a module class: its name and the formula kind whose `from_derivative` / `price` it has -/
structure ModClass where
  name : String
  kind : Kind
  deriving Repr, DecidableEq

/-- the class of a derivative: its own name and the names of the classes it inherits from
(`type(d).__mro__[1:]`, most derived first) -/
structure DerivClass where
  name : String
  ancestors : List String
  deriving Repr, DecidableEq

/-- `_modules`: an insertion-ordered association list, names pairwise different (kept by `register`) -/
structure Registry (β : Type) where
  entries : List (String × β)
  deriving Repr

namespace Registry
variable {β : Type}

def empty : Registry β := ⟨[]⟩

/-- `d[name] = v` on the entry list -/
def assign : List (String × β) → String → β → List (String × β)
  | [], name, v => [(name, v)]
  | (n, w) :: rest, name, v => if n = name then (n, v) :: rest else (n, w) :: assign rest name v

/-- `register_module(name, cls)` -/
def register (reg : Registry β) (name : String) (v : β) : Registry β := ⟨assign reg.entries name v⟩

/-- a history of `register_module` calls, oldest first -/
def registerAll (reg : Registry β) (history : List (String × β)) : Registry β :=
  history.foldl (fun r nv => r.register nv.1 nv.2) reg

/-- the registry of a process in which exactly these `register_module` calls have happened -/
def ofHistory (history : List (String × β)) : Registry β := empty.registerAll history

/-- `named_modules()` (no entry of the model is `None`) -/
def namedModules (reg : Registry β) : List (String × β) := reg.entries

/-- `names()` -/
def names (reg : Registry β) : List String := reg.entries.map (·.1)

def lookup : List (String × β) → String → Option β
  | [], _ => none
  | (n, w) :: rest, name => if n = name then some w else lookup rest name

/-- `get_class(name)`: `_modules[name]`, `KeyError` when absent -/
def getClass (reg : Registry β) (name : String) : Except AcqErr β :=
  match lookup reg.entries name with
  | some v => .ok v
  | none => .error (.lower .keyError)

/-- the class that `get_class_from_derivative` looks up: by `derivative.__class__.__name__` -/
def resolve (reg : Registry β) (cls : DerivClass) : Except AcqErr β := reg.getClass cls.name

end Registry

/-- `BlackScholes(derivative)`: the module class registered under the name of the derivative's class, and the
instance its `from_derivative` builds (the derivative's call flag and strike, bound to the derivative) -/
def blackScholes {α : Type} (reg : Registry ModClass) (cls : DerivClass) (d : Deriv α) :
    Except AcqErr (ModClass × BSModule α) := do
  let mc ← reg.resolve cls
  let mod ← BSModule.fromDerivative mc.kind d
  pure (mc, mod)

end PfVerif
