/-
  Model of the `WhalleyWilmott` MODULE (nn/modules/ww.py) and of the part of the `BlackScholes`
  modules it uses (nn/modules/bs/_base.py `BSModuleMixin.forward`, the `delta` / `gamma` methods of
  nn/modules/bs/{european,european_binary,american_binary,lookback}.py), row by row: the batch
  dimensions of the input tensor are "every row independently".

      inputs()  = bs.inputs() + ["prev_hedge"]
      forward(x): prev  = x[..., [-1]]                      -- the LAST column
                  delta = bs(x[..., :-1])                   -- bs.forward = bs.delta(*columns), positional
                  width = width(x[..., :-1])
                  prev.clamp(min = delta - width, max = delta + width)
      width(y):   cost  = derivative.underlier.cost         -- read at call time
                  spot  = derivative.strike * y[..., [0]].exp()
                  gamma = bs.gamma(*columns of y)           -- positional
                  ww_width(gamma, spot, cost, a)

  Which delta and gamma: European `bs_european_delta / _gamma`; European binary
  `bs_european_binary_delta / _gamma`; American binary `bs_american_binary_delta` and
  `autogreek.gamma` of the module's own `price`; lookback `autogreek.delta` and `autogreek.gamma` of
  its `price`.  The autograd Greeks are the SAME generic price definitions of Model/BS.lean
  evaluated at `Dual α` / `Dual (Dual α)` (forward mode), with autogreek's parameterisation: the leaf
  is `spot = exp(log_moneyness)·strike`, the pricer is called at `log(spot / strike)`.

  Columns that are missing from the row (a row shorter than `inputs()`) are not an error of their
  own in the code: the positional call leaves the trailing parameters `None`, and they are taken from
  the derivative (Model/Acquire.lean); too many columns are Python's `TypeError`; an empty row is
  the `IndexError` of `x[..., [-1]]`.

  Core Lean only, generic in the scalar.
-/
import PfVerif.Model.Acquire
import PfVerif.Model.Clamp
import PfVerif.Model.BS
namespace PfVerif

/-- the names `inputs()` can return for these modules -/
inductive InputName where
  | logMoneyness | maxLogMoneyness | timeToMaturity | volatility | prevHedge
  deriving Repr, DecidableEq

def InputName.toString : InputName → String
  | .logMoneyness => "log_moneyness"
  | .maxLogMoneyness => "max_log_moneyness"
  | .timeToMaturity => "time_to_maturity"
  | .volatility => "volatility"
  | .prevHedge => "prev_hedge"

/-- the feature (Model/Hedger.lean) a name is resolved to by `Hedger(…, inputs=names)` -/
def InputName.feature {α : Type} : InputName → BaseFeature α
  | .logMoneyness => .moneyness true
  | .maxLogMoneyness => .maxMoneyness true
  | .timeToMaturity => .timeToMaturity
  | .volatility => .volatility
  | .prevHedge => .prevHedge

/-- `BlackScholes(derivative).inputs()`: the parameter names of the module's `delta`
(`create_graph` of the lookback module is not an input: it overrides `inputs()`) -/
def Kind.bsInputs : Kind → List InputName
  | .plain _ => [.logMoneyness, .timeToMaturity, .volatility]
  | .pathDep _ => [.logMoneyness, .maxLogMoneyness, .timeToMaturity, .volatility]

/-- `WhalleyWilmott(derivative).inputs() = self.bs.inputs() + ["prev_hedge"]` -/
def Kind.wwInputs (k : Kind) : List InputName := k.bsInputs ++ [.prevHedge]

/-- the hedger's input features for a list of names -/
def featuresOf {α : Type} (names : List InputName) : List (Feature α) :=
  names.map (fun nm => Feature.base nm.feature)

/-- positional binding `method(*columns)` of the columns of a row to the parameters
(log_moneyness, [max_log_moneyness,] time_to_maturity, volatility) of `delta` / `gamma`: parameters
without a column stay `None`; more columns than parameters is a `TypeError` -/
def Kind.bindPositional {α : Type} (kind : Kind) (xs : List α) : Except AcqErr (Given α) :=
  match kind, xs with
  | .plain _, [] => .ok {}
  | .plain _, [s] => .ok { s := some s }
  | .plain _, [s, t] => .ok { s := some s, t := some t }
  | .plain _, [s, t, v] => .ok { s := some s, t := some t, v := some v }
  | .plain _, _ => .error (.lower .typeError)
  | .pathDep _, [] => .ok {}
  | .pathDep _, [s] => .ok { s := some s }
  | .pathDep _, [s, m] => .ok { s := some s, m := some m }
  | .pathDep _, [s, m, t] => .ok { s := some s, m := some m, t := some t }
  | .pathDep _, [s, m, t, v] => .ok { s := some s, m := some m, t := some t, v := some v }
  | .pathDep _, _ => .error (.lower .typeError)

section
variable {α : Type} [Add α] [Sub α] [Mul α] [Div α] [Neg α] [OfNat α 0] [OfNat α 1] [OfNat α 2]
  [OfNat α 3] [LE α] [DecidableLE α] [LT α] [DecidableLT α] [Max α] [Min α] [NatCast α] [Transc α]

/-- a constant at second order: `⟨⟨x, 0⟩, ⟨0, 0⟩⟩` -/
def Dual.const2 (x : α) : Dual (Dual α) := Dual.const (Dual.const x)

/-- the differentiation variable seeded at both levels: `⟨⟨x, 1⟩, ⟨1, 0⟩⟩` -/
def Dual.var2 (x : α) : Dual (Dual α) := Dual.var (Dual.var x)

/-- `autogreek.gamma(pricer, log_moneyness=s, strike=k, …)`: the leaf is `spot = exp(s)·k`, the
pricer is called at `log(spot / k)`, the delta is differentiated once more w.r.t. the same leaf:
the `ε₁ε₂` part of the second-order forward-mode evaluation -/
def autoGamma (pricer : Dual (Dual α) → Except Err (Dual (Dual α))) (s k : α) : Except Err α :=
  match pricer (Transc.log (Dual.var2 (Transc.exp s * k) / Dual.const2 k)) with
  | .ok p => .ok p.eps.eps
  | .error e => .error e

/-- `BSAmericanBinaryOption.gamma` (no closed form is used by the module: `autogreek.gamma` of
`price`) -/
def bsAmericanBinaryGammaAuto (s m t v k : α) : Except Err α :=
  autoGamma (fun sD => bsAmericanBinaryPrice sD (Dual.const2 m) (Dual.const2 t) (Dual.const2 v)) s k

/-- `BSLookbackOption.gamma` (`autogreek.gamma` of `price`) -/
def bsLookbackGammaAuto (s m t v k : α) : Except Err α :=
  autoGamma (fun sD => bsLookbackPrice sD (Dual.const2 m) (Dual.const2 t) (Dual.const2 v) (Dual.const2 k)) s k

/-- the gamma a European / European-binary module computes -/
def Kind3.gamma (kind : Kind3) (call : Bool) (k s t v : α) : Except Err α :=
  match kind with
  | .european => bsEuropeanGamma s t v k
  | .binary => bsBinaryGamma s t v k call

/-- the gamma an American-binary / lookback module computes -/
def Kind4.gamma (kind : Kind4) (k s m t v : α) : Except Err α :=
  match kind with
  | .americanBinary => bsAmericanBinaryGammaAuto s m t v k
  | .lookback => bsLookbackGammaAuto s m t v k

/-- `module.gamma(**given)` at cell `i`: the same resolution as `BSModule.eval`, then the kind's
gamma with the module's own strike and call flag -/
def BSModule.gamma (mod : BSModule α) (g : Given α) (i : Nat) : Except AcqErr α :=
  match mod.kind with
  | .plain k3 =>
    match g.m with
    | some _ => .error (.lower .typeError)
    | none => do
      let (s, t, v) ← acquire1 (mod.source i) g.s g.t g.v
      liftErr (k3.gamma mod.call mod.strike s t v)
  | .pathDep k4 => do
    let (s, m, t, v) ← acquire2 (mod.source i) g.s g.m g.t g.v
    liftErr (k4.gamma mod.strike s m t v)

/-- `BlackScholes.forward(x) = self.delta(*(x[..., [i]] for i in range(x.size(-1))))` on one row -/
def BSModule.forwardRow (mod : BSModule α) (xs : List α) (i : Nat) : Except AcqErr α := do
  let g ← mod.kind.bindPositional xs
  mod.eval .delta g i

/-- `self.bs.gamma(*(x[..., [i]] for i in range(x.size(-1))))` on one row -/
def BSModule.gammaRow (mod : BSModule α) (xs : List α) (i : Nat) : Except AcqErr α := do
  let g ← mod.kind.bindPositional xs
  mod.gamma g i

/-- `WhalleyWilmott(derivative, a)`; `cost` is `derivative.underlier.cost` as it is when the module is
called (the attribute is read in `width`, not copied at construction) -/
structure WWModule (α : Type) where
  derivative : Deriv α
  cost : α
  a : α
  bs : BSModule α          -- `BlackScholes(derivative)`

/-- `__init__`: `self.bs = BlackScholes(derivative)` (may raise as `from_derivative` does) -/
def WWModule.init (kind : Kind) (d : Deriv α) (cost a : α) : Except AcqErr (WWModule α) := do
  let bs ← BSModule.fromDerivative kind d
  pure { derivative := d, cost := cost, a := a, bs := bs }

/-- `WhalleyWilmott.inputs()` -/
def WWModule.inputs (w : WWModule α) : List InputName := w.bs.kind.wwInputs

/-- `WhalleyWilmott.width` on one row `xs` (the input WITHOUT the previous hedge): the spot is
`derivative.strike * exp(xs[0])` (`IndexError` on an empty row), the gamma is the module's gamma of
the columns bound positionally -/
def WWModule.width (w : WWModule α) (xs : List α) (i : Nat) : Except AcqErr α := do
  let s ← (match xs with
    | [] => (.error (.lower .runtimeError) : Except AcqErr α)
    | s :: _ => .ok s)
  let spot := w.derivative.market.strike * Transc.exp s
  let gamma ← w.bs.gammaRow xs i
  pure (wwWidth gamma spot w.cost w.a)

/-- `WhalleyWilmott.forward` on one row: the LAST entry is the previous hedge (`IndexError` on an
empty row), delta and half-width are computed from the entries before it -/
def WWModule.forwardRow (w : WWModule α) (row : List α) (i : Nat) : Except AcqErr α :=
  match lastL row with
  | none => .error (.lower .runtimeError)
  | some prev => do
    let xs := initL row
    let delta ← w.bs.forwardRow xs i
    let width ← w.width xs i
    pure (wwForward prev delta width)

/-- a derivative that has not been simulated (no `spot` / `volatility` buffers): what the module is
built from when it is applied to explicit input tensors -/
def Deriv.unsimulated (call : Bool) (strike : α) : Deriv α :=
  { market := { spot := [], variance := [], volatility := [], listed := [], dt := 0,
                strike := strike, oracle := [] },
    call := call, simulated := false, hasVol := false }

/-- `WhalleyWilmott(derivative, a)(row)` for a derivative of the given kind, call flag and strike whose
underlier has cost rate `cost` and is not simulated.  (On a row of the full length the derivative's
state is never consulted — Lemmas/C20Module.lean `forwardRow_full` — so this is also the value for
a simulated derivative, as inside a `Hedger`.) -/
def wwForwardRow (kind : Kind) (call : Bool) (strike cost a : α) (row : List α) : Except AcqErr α := do
  let w ← WWModule.init kind (Deriv.unsimulated call strike) cost a
  w.forwardRow row 0

/-- `BlackScholes(derivative)(row)` for the same derivative -/
def bsForwardRow (kind : Kind) (call : Bool) (strike : α) (xs : List α) : Except AcqErr α := do
  let bs ← BSModule.fromDerivative kind (Deriv.unsimulated call strike)
  bs.forwardRow xs 0

/-- `WhalleyWilmott(derivative, a).width(row)` for the same derivative -/
def wwWidthRow (kind : Kind) (call : Bool) (strike cost a : α) (xs : List α) : Except AcqErr α := do
  let w ← WWModule.init kind (Deriv.unsimulated call strike) cost a
  w.width xs 0

/-- a row function used as the hedging model `g` of `computeHedge` (Model/Hedger.lean), one output
column.  A raising module aborts `compute_hedge`; `computeHedge` takes a total `g`, so a raise is
represented by "no output column" — the theorems about hedgers built this way state separately that
every step succeeds. -/
def rowModel (f : List α → Except AcqErr α) (row : List α) : List α :=
  match f row with
  | .ok y => [y]
  | .error _ => []

end
end PfVerif
