/-
  Model of `leaky_clamp`, `clamp` (functional.py:384-433), the `LeakyClamp` / `Clamp` modules
  (modules/clamp.py), `ww_width` and `WhalleyWilmott.forward` (modules/ww.py), `svi_variance`,
  `bilerp`, `box_muller` (functional.py).  Element-wise on scalars.
-/
import PfVerif.Model.Basic
namespace PfVerif

inductive InvMode where | mean | max | other
  deriving DecidableEq, Repr

section
variable {α : Type} [Add α] [Sub α] [Mul α] [Div α] [OfNat α 0] [OfNat α 2]
  [LE α] [DecidableLE α] [Max α] [Min α]

/-- `leaky_clamp` on one element -/
def leakyClamp (x : α) (lo hi : Option α) (slope : α) (mode : InvMode) : Except Err α :=
  let x1 := match lo with
    | some l => max x (l + slope * (x - l))
    | none => x
  let x2 := match hi with
    | some h => min x1 (h + slope * (x1 - h))
    | none => x1
  match lo, hi with
  | some l, some h =>
    match mode with
    | .mean => .ok (if l ≤ h then x2 else (l + h) / 2)
    | .max => .ok (if l ≤ h then x2 else h)
    | .other => .error .valueError
  | _, _ => .ok x2

/-- `torch.clamp(x, min, max)` = `min(max(x, lo), hi)` -/
def torchClamp (x : α) (lo hi : Option α) : α :=
  let x1 := match lo with
    | some l => max x l
    | none => x
  match hi with
  | some h => min x1 h
  | none => x1

/-- `clamp`: its two code paths -/
def clampF (x : α) (lo hi : Option α) (mode : InvMode) : Except Err α :=
  match mode with
  | .mean => leakyClamp x lo hi 0 .mean
  | .max =>
    match lo, hi with
    | none, none => .error .runtimeError   -- torch.clamp: "At least one of 'min' or 'max' must not be None"
    | _, _ => .ok (torchClamp x lo hi)
  | .other => .error .valueError

/-- the `LeakyClamp` module: forwards slope and `inverted_output` to the functional -/
def leakyClampModule (slope : α) (mode : InvMode) (x : α) (lo hi : Option α) : Except Err α :=
  leakyClamp x lo hi slope mode

/-- the `Clamp` module has no options: `clamp(input, min, max)` with the default mode -/
def clampModule (x : α) (lo hi : Option α) : Except Err α := clampF x lo hi .mean

/-- `WhalleyWilmott.forward`: `prev_hedge.clamp(min = delta - width, max = delta + width)` -/
def wwForward (prev delta width : α) : α := torchClamp prev (some (delta - width)) (some (delta + width))

/-- `torch.lerp(a, b, w) = a + w * (b - a)` -/
def lerp (a b w : α) : α := a + w * (b - a)

/-- `bilerp`: three `lerp`s -/
def bilerp (a b c d w1 w2 : α) : α := lerp (lerp a b w1) (lerp c d w1) w2
end

section
variable {α : Type} [Add α] [Sub α] [Mul α] [Div α] [Neg α] [OfNat α 0] [OfNat α 2] [OfNat α 3]
  [LE α] [DecidableLE α] [Max α] [Transc α]

/-- `ww_width`: `width = (cost * (3/2) * gamma^2 * spot / a) ^ (1/3)`, then
`width.where(cost != 0, 0)`: without transaction cost there is no band, also where `gamma` is
infinite (`0 * inf` would give NaN).  `cost ≤ 0 ∧ 0 ≤ cost` is "`cost == 0`" with the available
classes (true for `±0`); for a NaN cost both comparisons are false, so the value is computed (NaN),
exactly as `NaN != 0` is `True` in torch. -/
def wwWidth (gamma spot cost a : α) : α :=
  if cost ≤ 0 ∧ 0 ≤ cost then 0
  else Transc.cbrt (cost * ((3 : α) / 2) * (gamma * gamma) * spot / a)

/-- `svi_variance = a + b (rho (k-m) + sqrt((k-m)^2 + sigma^2))` -/
def sviVariance (k a b rho m sigma : α) : α :=
  let km := k - m
  a + b * (rho * km + Transc.sqrt (km * km + sigma * sigma))

/-- `box_muller(u1, u2, eps)`; `twoPi` is passed in (the constant `2π` of the carrier) -/
def boxMuller (twoPi eps u1 u2 : α) : α × α :=
  let radius := Transc.sqrt (-(2 : α) * Transc.log (max u1 eps))
  let angle := twoPi * u2
  (radius * Transc.cos angle, radius * Transc.sin angle)
end

end PfVerif
