/-
  The life of ONE `Hedger` object used with several derivatives (nn/modules/hedger.py, the whole class):
  a SESSION.  The single-call models exist already and are imported, not restated:

      compute_hedge     `computeHedgeS`   (Model/Heap.lean: `compute_hedge` with the `prev_output` buffer explicit)
      compute_portfolio `batchPortfolio`  (Model/HedgerPrice.lean: `hedgerPortfolio` of Model/HedgerPL.lean per path)
      compute_pl        `batchPL`         (`hedgerPL` per path)
      compute_loss      `FitNum.lossAt`   (= `lossOfH` of Model/Loss.lean with `applyCritH`), `ensembleMean`
      price             `hedgerPriceN`    (Model/HedgerPrice.lean)
      fit               `FitNum.fitNum` / `FitNum.fitNumFrom`  (Model/FitNum.lean)

  What this file adds is the STATE these calls share and how each call reads and changes it:

    * the world: underliers with their CURRENT simulated series (`spot`, `variance`, `volatility`
      buffers, one row per path), derivatives written on them (payoff + clauses), listed derivatives
      (affine pricer of their underlier's spot buffer, evaluated on every access:
      derivative/base.py `spot` property), cost rates.  `simulate` REPLACES the series of an underlier;
      the new rows are data carried by the operation (the model has no random numbers).
      `derivative.simulate()` is `simulate` of each of its underliers (derivative/base.py:89-92).
    * the hedger: fixed configuration (architecture, input features, criterion) and mutable state:
      the parameters `θ` (flat list, layout of Model/FitNum.lean), the `prev_output` buffer (what the
      forward hook `save_prev_output` stored last: one row per path), and the state of a user-owned
      optimiser INSTANCE handed to `fit` (`fit(optimizer=<instance>)` continues it: `fitNumFrom`;
      `fit(optimizer=<class>)` builds a new one on every call: `fitNum`; both are modelled, the
      operation says which).
    * `_get_hedge(derivative, hedge)`: `hedge=None` is `list(derivative.underliers())` (`hedgeOf`).
    * `compute_loss` / `price` / `fit` simulate INSIDE (`derivative.simulate(n_paths)` before every
      evaluation): the operation carries the series it draws, one draw per evaluation (`n_times`
      draws; per epoch one training draw and the validation draws); every draw replaces the series of
      ALL underliers of the derivative, and the hedging instruments are read AFTER the draw from the
      current world — an instrument on another underlier keeps the series it had.

  Layout of the answers: `compute_hedge` is reported per path as `T × H` rows (what `computeHedgeS`
  returns, i.e. before the final relabelling `output.transpose(-1, -2)`).

  Boundaries (none is reached by the harness):
    * every derivative's features read its FIRST underlier (`ul()`), as all built-in ones do; the
      hedged derivative itself is not listed (`Market.listed = []`), the contents of
      `torch.empty_like` are not part of the world (`Market.oracle = []`);
    * hedging instruments whose underlier holds another number of paths than the derivative's: the
      code fails inside `torch.stack` / the size check; here `pathsOf` is an error;
    * an operation that fails while simulating inside stops at the failing draw in the code; here all
      its draws are applied (the errors of the model depend on shapes only, so the first draw fails);
      after a failing `fit` the parameters are the ones before the call (same reason: it fails at the
      first evaluation, before any step);
    * `ExpectedShortfall(p)`'s `k = ceil(p·N)` is a function of the path count; `CritH.es k` is one
      fixed `k`: a session uses it with one path count for its `compute_loss` / `price` / `fit` calls.

  Core Lean only, generic in the scalar type.
-/
import PfVerif.Model.Heap
import PfVerif.Model.HedgerPL
import PfVerif.Model.Loss
import PfVerif.Model.HedgerPrice
import PfVerif.Model.FitNum
namespace PfVerif
namespace HedgerSession
open FitNum

/-! ### the world -/

/-- the simulated series of one underlier: the `spot`, `variance`, `volatility` buffers, one row per
path (a missing `variance` / `volatility` row is the empty row) -/
structure Series (α : Type) where
  spot : List (List α)
  variance : List (List α)
  volatility : List (List α)

/-- a primary instrument: its current series, `dt`, proportional cost rate -/
structure Underlier (α : Type) where
  series : Series α
  dt : α
  cost : α

/-- a hedged derivative: the indices of its underliers (`underliers()`, the first one is `ul()`),
payoff and registered clauses (as in Model/HedgerPL.lean) -/
structure Deriv (α : Type) where
  uls : List Nat
  payoff : PayoffSpec α
  reg : List (String × Clause α)

/-- a listed derivative used as hedging instrument: the underlier whose spot buffer its pricer
reads, the pricer `ul().spot * a + b` (`PriceSrc.listed`), its cost rate -/
structure Listed (α : Type) where
  ul : Nat
  a : α
  b : α
  cost : α

structure World (α : Type) where
  uls : List (Underlier α)
  derivs : List (Deriv α)
  listed : List (Listed α)

/-- an element of a `hedge=[...]` list: a primary instrument or a listed derivative of the world -/
inductive InstrRef where
  | primary (u : Nat)
  | listed (l : Nat)
  deriving DecidableEq, Repr

/-- the `hedge` argument: `None` or an explicit list -/
inductive HedgeArg where
  | default
  | explicit (is : List InstrRef)
  deriving DecidableEq, Repr

/-- `Hedger._get_hedge`: `hedge=None` is `list(derivative.underliers())` -/
def hedgeOf {α : Type} (d : Deriv α) : HedgeArg → List InstrRef
  | .default => d.uls.map InstrRef.primary
  | .explicit is => is

section world
variable {α : Type}

def modifyAt {β : Type} (f : β → β) : List β → Nat → List β
  | [], _ => []
  | x :: xs, 0 => f x :: xs
  | x :: xs, k + 1 => x :: modifyAt f xs k

/-- `underlier.simulate()`: the series of underlier `u` is replaced -/
def setSeries (w : World α) (u : Nat) (s : Series α) : World α :=
  { w with uls := modifyAt (fun U => { U with series := s }) w.uls u }

/-- a list of writes (underlier, new series), in order -/
def applyWrites (w : World α) : List (Nat × Series α) → World α
  | [] => w
  | p :: ps => applyWrites (setSeries w p.1 p.2) ps

/-- the writes of `derivative.simulate()`: one per underlier of the derivative, `draw` holds the
new series in the order of `underliers()` -/
def drawWrites (d : Deriv α) (draw : List (Series α)) : List (Nat × Series α) := List.zip d.uls draw

/-- `derivative.simulate()` -/
def resim (w : World α) (d : Deriv α) (draw : List (Series α)) : World α :=
  applyWrites w (drawWrites d draw)

def rowAt (xs : List (List α)) (i : Nat) : List α := (xs[i]?).getD []

/-- what the features of a derivative with strike `strike` see on path `i` of its underlier `U`
(`row` = that path's spot row) -/
def marketAt (U : Underlier α) (strike : α) (i : Nat) (row : List α) : Market α :=
  { spot := row, variance := rowAt U.series.variance i, volatility := rowAt U.series.volatility i,
    listed := [], dt := U.dt, strike := strike, oracle := [] }

/-- the underlier whose spot buffer an instrument's price is read from -/
def refUl (w : World α) : InstrRef → Option Nat
  | .primary u => some u
  | .listed l => (w.listed[l]?).map (fun L => L.ul)

/-- the number of paths an instrument currently holds -/
def refPaths (w : World α) (r : InstrRef) : Option Nat :=
  match refUl w r with
  | none => none
  | some u => (w.uls[u]?).map (fun U => U.series.spot.length)

/-- a hedging instrument on path `i`, read from the CURRENT world: a primary instrument is its spot
row and cost rate; a listed derivative is its pricer's coefficients, the CURRENT spot row of its
underlier and its own cost rate (`PriceSrc.listed`: the pricer is applied on access) -/
def instrAt (w : World α) (i : Nat) : InstrRef → Except Err (HedgeInstr α)
  | .primary u =>
    match w.uls[u]? with
    | none => .error .runtimeError
    | some U =>
      match U.series.spot[i]? with
      | none => .error .runtimeError
      | some row => .ok ⟨.primary row, U.cost⟩
  | .listed l =>
    match w.listed[l]? with
    | none => .error .runtimeError
    | some L =>
      match w.uls[L.ul]? with
      | none => .error .runtimeError
      | some U =>
        match U.series.spot[i]? with
        | none => .error .runtimeError
        | some row => .ok ⟨.listed L.a L.b row, L.cost⟩

def withIdx {β : Type} : Nat → List β → List (Nat × β)
  | _, [] => []
  | k, x :: xs => (k, x) :: withIdx (k + 1) xs

/-- the batch a hedging call works on: for every path of the derivative's first underlier the market
its features see and the hedging instruments, all read from the current world -/
def pathsOf (w : World α) (d : Deriv α) (hs : List InstrRef) : Except Err (Batch α) :=
  match d.uls with
  | [] => .error .runtimeError            -- `ul()`: IndexError
  | u0 :: _ =>
    match w.uls[u0]? with
    | none => .error .runtimeError
    | some U =>
      if hs.all (fun r => refPaths w r == some U.series.spot.length) then
        collectE (fun (ir : Nat × List α) =>
          match collectE (instrAt w ir.1) hs with
          | .error e => .error e
          | .ok his => .ok (marketAt U d.payoff.strike ir.1 ir.2, his)) (withIdx 0 U.series.spot)
      else .error .runtimeError

/-- the evaluations of an operation that simulates inside: every draw replaces the series of the
derivative's underliers, then the batch is read from the world.  Returns the world after the last
draw and the batches. -/
def drawBatches (d : Deriv α) (hs : List InstrRef) :
    World α → List (List (Series α)) → World α × List (Except Err (Batch α))
  | w, [] => (w, [])
  | w, draw :: rest =>
    let r := drawBatches d hs (resim w d draw) rest
    (r.1, pathsOf (resim w d draw) d hs :: r.2)

/-- a batch in the form Model/HedgerPrice.lean takes it -/
def toHedgePaths (b : Batch α) : List (HedgePath α) := b.map (fun mh => ⟨mh.1, mh.2⟩)

/-- the first error of a list of results, or all values -/
def allOk {β : Type} (xs : List (Except Err β)) : Except Err (List β) := collectE (fun x => x) xs

end world

/-! ### the hedger -/

/-- what is fixed at construction: the architecture of the module (`mlpL (layersOf shape θ)`), the
input features, the criterion: its `forward` (`applyCritH crit`) and its `cash` -/
structure Hedger (α : Type) where
  shape : List (Nat × Nat)
  feats : List (BaseFeature α)
  crit : CritH α
  cash : List α → Except Err α

/-- one draw per evaluation; per epoch a training draw and, with validation, `n_times` more -/
structure Epoch (α : Type) where
  train : List (Series α)
  val : Option (List (List (Series α)))

/-- the mutable state: the world, the parameters, the `prev_output` buffer (one row per path of the
last forward), the state of the optimiser instance the user passes to `fit` -/
structure State (α : Type) where
  world : World α
  θ : List α
  prev : List (List α)
  opt : OptState α

inductive Op (α : Type) where
  /-- `underlier.simulate()` -/
  | simulate (u : Nat) (s : Series α)
  | computeHedge (d : Nat) (h : HedgeArg)
  | computePortfolio (d : Nat) (h : HedgeArg)
  | computePl (d : Nat) (h : HedgeArg)
  /-- `compute_loss(n_times = draws.length)` -/
  | computeLoss (d : Nat) (h : HedgeArg) (draws : List (List (Series α)))
  /-- `price(n_times = draws.length)` -/
  | price (d : Nat) (h : HedgeArg) (draws : List (List (Series α)))
  /-- `fit(optimizer = …)`: `inst = true` — the session's optimiser instance (continued);
  `inst = false` — an optimiser class (a new optimiser for this call) -/
  | fit (d : Nat) (h : HedgeArg) (o : OptSpec α) (inst : Bool) (epochs : List (Epoch α))

inductive Out (α : Type) where
  | none
  /-- the operation names a derivative the world does not have (no counterpart in the code) -/
  | invalid
  /-- `compute_hedge`: per path `T × H` -/
  | hedge (v : Except Err (List (List (List α))))
  /-- `compute_portfolio` / `compute_pl`: one value per path -/
  | vec (v : Except Err (List α))
  /-- `compute_loss` / `price` -/
  | scalar (v : Except Err α)
  /-- `fit`: everything `fitNum` reports (parameters after every epoch, losses, history) -/
  | fitted (v : Except Err (FitOut α))

section
variable {α : Type} [Add α] [Sub α] [Mul α] [Div α] [Neg α] [OfNat α 0] [OfNat α 1] [OfNat α 2]
  [OfNat α 3] [LE α] [DecidableLE α] [LT α] [DecidableLT α] [Max α] [Min α] [NatCast α] [Transc α]
  [TranscPow α]

/-- `self.model` at parameters `θ` -/
def Hedger.module (cfg : Hedger α) (θ : List α) : List α → List α := mlpL (layersOf cfg.shape θ)

/-- `self.inputs` -/
def Hedger.features (cfg : Hedger α) : List (Feature α) := cfg.feats.map Feature.base

/-- the `FitSpec` of hedging derivative `d` with this hedger (`pl`'s `deduct_first_cost` default) -/
def Hedger.spec (cfg : Hedger α) (d : Deriv α) : FitSpec α :=
  ⟨cfg.shape, cfg.feats, d.payoff, d.reg, true, cfg.crit⟩

/-- `self.criterion` as Model/HedgerPrice.lean takes it -/
def Hedger.criterion (cfg : Hedger α) : Criterion α := ⟨applyCritH cfg.crit, cfg.cash⟩

/-! ### `compute_hedge` on a batch, with the buffer -/

/-- `compute_hedge` on one path: `hedge[0].spot.size()` gives the number of time points, the sizes of
all hedging instruments must agree (ValueError); then `computeHedgeS` with what the buffer holds -/
def hedgeRowsS (st : List α) (g : List α → List α) (fs : List (Feature α)) (m : Market α)
    (his : List (HedgeInstr α)) : Except Err (List (List α)) × List α :=
  match his with
  | [] => (.error .runtimeError, st)          -- `hedge[0]`: IndexError
  | h0 :: rest =>
    if rest.all (fun h' => h'.src.prices.length == h0.src.prices.length) then
      computeHedgeS st g fs m h0.src.prices.length his.length
    else (.error .valueError, st)

/-- … on every path of the batch; path `i` finds row `i` of the buffer (nothing when the buffer has
fewer rows) -/
def hedgeBatchS (g : List α → List α) (fs : List (Feature α)) :
    List (List α) → Batch α → List (Except Err (List (List α)) × List α)
  | _, [] => []
  | st, p :: ps => hedgeRowsS (st.headD []) g fs p.1 p.2 :: hedgeBatchS g fs st.tail ps

/-! ### the answers, from (configuration, parameters, buffer, world) -/

/-- `compute_hedge(derivative, hedge)` -/
def hedgeAns (cfg : Hedger α) (θ : List α) (prev : List (List α)) (w : World α) (d : Deriv α)
    (hs : List InstrRef) : Except Err (List (List (List α))) :=
  match pathsOf w d hs with
  | .error e => .error e
  | .ok b => allOk ((hedgeBatchS (cfg.module θ) cfg.features prev b).map (fun r => r.1))

/-- the buffer after one `compute_hedge` (directly or inside `compute_portfolio` / `compute_pl`) on
the current world -/
def prevAfter (cfg : Hedger α) (θ : List α) (prev : List (List α)) (w : World α) (d : Deriv α)
    (hs : List InstrRef) : List (List α) :=
  match pathsOf w d hs with
  | .error _ => prev
  | .ok b => (hedgeBatchS (cfg.module θ) cfg.features prev b).map (fun r => r.2)

/-- `compute_portfolio(derivative, hedge)` -/
def portfolioAns (cfg : Hedger α) (θ : List α) (w : World α) (d : Deriv α) (hs : List InstrRef) :
    Except Err (List α) :=
  match pathsOf w d hs with
  | .error e => .error e
  | .ok b => batchPortfolio (cfg.module θ) cfg.features true (toHedgePaths b)

/-- `compute_pl(derivative, hedge)` -/
def plAns (cfg : Hedger α) (θ : List α) (w : World α) (d : Deriv α) (hs : List InstrRef) :
    Except Err (List α) :=
  match pathsOf w d hs with
  | .error e => .error e
  | .ok b => batchPL (cfg.module θ) cfg.features d.payoff d.reg true (toHedgePaths b)

/-- the buffer after an operation that simulates inside: every evaluation's `compute_hedge`
overwrites it (the batches themselves: `drawBatches`) -/
def drawPrev (cfg : Hedger α) (θ : List α) (d : Deriv α) (hs : List InstrRef) :
    World α → List (List α) → List (List (Series α)) → List (List α)
  | _, pv, [] => pv
  | w, pv, draw :: rest =>
    drawPrev cfg θ d hs (resim w d draw) (prevAfter cfg θ pv (resim w d draw) d hs) rest

/-- `compute_loss(derivative, hedge, n_times)` on the drawn batches: `criterion(compute_portfolio,
payoff)` of every batch (`lossAt` = `lossOfH` with `applyCritH`), then `ensemble_mean` -/
def lossAns (cfg : Hedger α) (θ : List α) (d : Deriv α) (bs : List (Except Err (Batch α))) :
    Except Err α :=
  match allOk bs with
  | .error e => .error e
  | .ok bs =>
    match collectE (lossAt (cfg.spec d) θ) bs with
    | .error e => .error e
    | .ok vals => ensembleMean vals

/-- `price(derivative, hedge, n_times)` on the drawn batches -/
def priceAns (cfg : Hedger α) (θ : List α) (d : Deriv α) (bs : List (Except Err (Batch α))) :
    Except Err α :=
  match allOk bs with
  | .error e => .error e
  | .ok bs =>
    hedgerPriceN cfg.criterion (cfg.module θ) cfg.features d.payoff d.reg true (bs.map toHedgePaths)

/-- the draws of `fit`, epoch by epoch: the training draw, then the validation draws; returns the
world after the last draw and every epoch's data -/
def resolveEpochs (d : Deriv α) (hs : List InstrRef) :
    World α → List (Epoch α) → World α × List (Except Err (EpochData α))
  | w, [] => (w, [])
  | w, e :: es =>
    let w1 := resim w d e.train
    let rv := drawBatches d hs w1 (e.val.getD [])
    let ed : Except Err (EpochData α) :=
      match pathsOf w1 d hs with
      | .error er => .error er
      | .ok t =>
        match e.val with
        | none => .ok ⟨t, none⟩
        | some _ =>
          match allOk rv.2 with
          | .error er => .error er
          | .ok vs => .ok ⟨t, some vs⟩
    let r := resolveEpochs d hs rv.1 es
    (r.1, ed :: r.2)

/-- `fit(derivative, hedge, optimizer, …)` on its draws, from parameters `θ`: with an optimiser
instance (state `opt`) `fitNumFrom`, with an optimiser class `fitNum` -/
def fitAns (cfg : Hedger α) (θ : List α) (opt : OptState α) (inst : Bool) (w : World α)
    (d : Deriv α) (hs : List InstrRef) (o : OptSpec α) (es : List (Epoch α)) :
    Except Err (FitOut α) :=
  match allOk (resolveEpochs d hs w es).2 with
  | .error e => .error e
  | .ok eds =>
    if inst then fitNumFrom (cfg.spec d) o ⟨θ, opt, none⟩ eds else fitNum (cfg.spec d) o θ eds

/-- the buffer after `fit`: the training evaluation of an epoch runs at the parameters before the
step, its validation evaluations at the parameters after it (`θs` = the parameters before the first
epoch and after every epoch) -/
def fitPrev (cfg : Hedger α) (d : Deriv α) (hs : List InstrRef) :
    List (List α) → World α → List (List α) → List (Epoch α) → List (List α)
  | θ0 :: θ1 :: θs, w, pv, e :: es =>
    let w1 := resim w d e.train
    fitPrev cfg d hs (θ1 :: θs) (drawBatches d hs w1 (e.val.getD [])).1
      (drawPrev cfg θ1 d hs w1 (prevAfter cfg θ0 pv w1 d hs) (e.val.getD [])) es
  | _, _, pv, _ => pv

/-! ### the session -/

def step (cfg : Hedger α) (s : State α) : Op α → State α × Out α
  | .simulate u sr => ({ s with world := setSeries s.world u sr }, .none)
  | .computeHedge di h =>
    match s.world.derivs[di]? with
    | none => (s, .invalid)
    | some d =>
      ({ s with prev := prevAfter cfg s.θ s.prev s.world d (hedgeOf d h) },
       .hedge (hedgeAns cfg s.θ s.prev s.world d (hedgeOf d h)))
  | .computePortfolio di h =>
    match s.world.derivs[di]? with
    | none => (s, .invalid)
    | some d =>
      ({ s with prev := prevAfter cfg s.θ s.prev s.world d (hedgeOf d h) },
       .vec (portfolioAns cfg s.θ s.world d (hedgeOf d h)))
  | .computePl di h =>
    match s.world.derivs[di]? with
    | none => (s, .invalid)
    | some d =>
      ({ s with prev := prevAfter cfg s.θ s.prev s.world d (hedgeOf d h) },
       .vec (plAns cfg s.θ s.world d (hedgeOf d h)))
  | .computeLoss di h draws =>
    match s.world.derivs[di]? with
    | none => (s, .invalid)
    | some d =>
      let r := drawBatches d (hedgeOf d h) s.world draws
      ({ s with world := r.1, prev := drawPrev cfg s.θ d (hedgeOf d h) s.world s.prev draws },
       .scalar (lossAns cfg s.θ d r.2))
  | .price di h draws =>
    match s.world.derivs[di]? with
    | none => (s, .invalid)
    | some d =>
      let r := drawBatches d (hedgeOf d h) s.world draws
      ({ s with world := r.1, prev := drawPrev cfg s.θ d (hedgeOf d h) s.world s.prev draws },
       .scalar (priceAns cfg s.θ d r.2))
  | .fit di h o inst es =>
    match s.world.derivs[di]? with
    | none => (s, .invalid)
    | some d =>
      let w' := (resolveEpochs d (hedgeOf d h) s.world es).1
      match fitAns cfg s.θ s.opt inst s.world d (hedgeOf d h) o es with
      | .error e => ({ s with world := w' }, .fitted (.error e))
      | .ok out =>
        ({ world := w', θ := out.final.θ,
           prev := fitPrev cfg d (hedgeOf d h) (s.θ :: out.params) s.world s.prev es,
           opt := if inst then out.final.opt else s.opt },
         .fitted (.ok out))

/-- the state after a history -/
def exec (cfg : Hedger α) : State α → List (Op α) → State α
  | s, [] => s
  | s, op :: ops => exec cfg (step cfg s op).1 ops

/-- everything the user saw -/
def run (cfg : Hedger α) : State α → List (Op α) → List (Out α)
  | _, [] => []
  | s, op :: ops => (step cfg s op).2 :: run cfg (step cfg s op).1 ops

/-- a hedger that has never been called: no `prev_output` buffer -/
def fresh (w : World α) (θ : List α) (opt : OptState α) : State α := ⟨w, θ, [], opt⟩

end
end HedgerSession
end PfVerif
