/-
  PfVerif.Model.Basic — scalar-generic prelude of the executable model.

  Model files import nothing outside core Lean.  Every definition is written once over an
  arbitrary carrier `α` using only the core notation classes, and is then used
    * at `ℝ`     (Mathlib)  in `Props/` — what the theorems are about,
    * at `Rat`   (core)     in `Driver.lean` — exact execution on dyadic inputs,
    * at `Float` (core)     in `Driver.lean` — IEEE replica for transcendental formulas,
    * at `XR`, `Dual`       (Inst/) — special-value algebra and forward-mode derivatives.
-/
namespace PfVerif

/-- Error kinds the real code raises, canonicalised by the harness. -/
inductive Err where
  | valueError | runtimeError | typeError | assertionError | recursionError | keyError
  deriving Repr, DecidableEq, BEq

def Err.toString : Err → String
  | .valueError => "value_error"
  | .runtimeError => "runtime_error"
  | .typeError => "type_error"
  | .assertionError => "assertion_error"
  | .recursionError => "recursion_error"
  | .keyError => "key_error"

instance : ToString Err := ⟨Err.toString⟩

/-- Transcendental functions used by the model (the logical content of libm / torch kernels). -/
class Transc (α : Type) where
  exp : α → α
  log : α → α
  sqrt : α → α
  ncdf : α → α
  npdf : α → α
  cos : α → α
  sin : α → α
  cbrt : α → α

section ListOps
variable {α : Type}

/-- `torch.sum` over a list: right fold with `0`. -/
def sumL [Add α] [OfNat α 0] : List α → α
  | [] => 0
  | x :: xs => x + sumL xs

/-- `Tensor.diff(dim=-1)`: successive differences `x[i+1] - x[i]`. -/
def diffL [Sub α] : List α → List α
  | [] => []
  | [_] => []
  | x :: y :: rest => (y - x) :: diffL (y :: rest)

/-- `x[..., :-1]`. -/
def initL : List α → List α
  | [] => []
  | [_] => []
  | x :: y :: rest => x :: initL (y :: rest)

/-- `x[..., 1:]`. -/
def tailL : List α → List α
  | [] => []
  | _ :: xs => xs

/-- `Tensor.abs` on a scalar. -/
def absS [LE α] [DecidableLE α] [Neg α] [OfNat α 0] (x : α) : α :=
  if (0 : α) ≤ x then x else -x

/-- `relu`. -/
def reluS [LE α] [DecidableLE α] [OfNat α 0] (x : α) : α :=
  if (0 : α) ≤ x then x else 0

/-- elementwise product of two lists (truncating like `zipWith`; shapes are checked before). -/
def mulL [Mul α] (xs ys : List α) : List α := List.zipWith (· * ·) xs ys

/-- running maximum (`cummax`). -/
def cummaxL [Max α] : List α → List α
  | [] => []
  | x :: xs => x :: go x xs
where
  go (m : α) : List α → List α
    | [] => []
    | y :: ys => let m' := max m y; m' :: go m' ys

/-- running minimum (`cummin`). -/
def cumminL [Min α] : List α → List α
  | [] => []
  | x :: xs => x :: go x xs
where
  go (m : α) : List α → List α
    | [] => []
    | y :: ys => let m' := min m y; m' :: go m' ys

/-- maximum of a non-empty list given as head and tail. -/
def maxL [Max α] (x : α) (xs : List α) : α := xs.foldl max x

def minL [Min α] (x : α) (xs : List α) : α := xs.foldl min x

/-- last element, `none` on the empty list (never defaulted). -/
def lastL : List α → Option α
  | [] => none
  | [x] => some x
  | _ :: y :: rest => lastL (y :: rest)

/-- all inner lists have the given length -/
def allLen (n : Nat) (xss : List (List α)) : Bool := xss.all (fun xs => xs.length == n)

end ListOps

end PfVerif
