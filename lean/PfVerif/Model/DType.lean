/-
  Model of the instrument dtype contract (instruments/primary/base.py:83-208,
  instruments/derivative/base.py:60-101, primary/*.py simulate): a small state machine over
  cast / simulate / register_buffer operations.  Device is fixed to CPU (only device here).
-/
import PfVerif.Model.Basic
namespace PfVerif

inductive DType where
  | f16 | bf16 | f32 | f64 | i32 | i64 | bool
  deriving DecidableEq, Repr

def DType.isFloating : DType → Bool
  | .f16 | .bf16 | .f32 | .f64 => true
  | _ => false

/-- state of one primary instrument (plus the ambient `torch.get_default_dtype()`) -/
structure PrimState where
  declared : Option DType                 -- `self.dtype`
  buffers : List (String × DType)         -- `self._buffers` (insertion order), dtype of each
  ambient : DType                         -- global default dtype (a floating dtype)
  deriving DecidableEq, Repr

inductive DOp where
  | to (d : Option DType)                 -- `to(dtype=d)`, `float()`, `double()`, `half()`, `bfloat16()`; `none` = `to(device)` only
  | toTensor (d : DType)                  -- `to(tensor)`: dtype of the tensor
  | toInstrument (d : Option DType)       -- `to(other)`: the other instrument's declared dtype
  | simulate (names : List String)        -- `simulate()`: registers these buffers, produced in `declared` / ambient
  | registerBuffer (name : String) (d : DType)   -- user `register_buffer(name, tensor of dtype d)`
  | setDefault (d : DType)                -- `torch.set_default_dtype(d)` (floating only)
  deriving Repr

/-- `register_buffer`: cast to the declared dtype when there is one; replace in place (dict) -/
def regBuf (declared : Option DType) (bufs : List (String × DType)) (name : String) (d : DType) :
    List (String × DType) :=
  let d' := match declared with
    | some x => x
    | none => d
  if bufs.any (fun p => p.1 == name) then bufs.map (fun p => if p.1 == name then (name, d') else p)
  else bufs ++ [(name, d')]

/-- the cast part of `to`: every buffer is `.to(dtype)` then re-registered (cast to declared) -/
def castAll (declared : Option DType) (req : Option DType) (bufs : List (String × DType)) :
    List (String × DType) :=
  bufs.map (fun p =>
    let afterTo := match req with
      | some x => x
      | none => p.2
    (p.1, match declared with
      | some x => x
      | none => afterTo))

/-- `BasePrimary.to` for a requested dtype -/
def doTo (s : PrimState) (req : Option DType) : Except Err PrimState :=
  match req with
  | some d =>
    if !d.isFloating then .error .typeError
    else .ok { s with declared := some d, buffers := castAll (some d) (some d) s.buffers }
  | none => .ok { s with buffers := castAll s.declared none s.buffers }

def DOp.step (s : PrimState) : DOp → Except Err PrimState
  | .to d => doTo s d
  | .toTensor d => doTo s (some d)
  | .toInstrument d => doTo s d
  | .simulate names =>
    let produced := match s.declared with
      | some d => d
      | none => s.ambient
    .ok { s with buffers := names.foldl (fun b n => regBuf s.declared b n produced) s.buffers }
  | .registerBuffer name d => .ok { s with buffers := regBuf s.declared s.buffers name d }
  | .setDefault d => if d.isFloating then .ok { s with ambient := d } else .error .typeError

/-- run a history; a rejected operation leaves the state unchanged (the exception propagates to
the caller, the instrument is untouched) -/
def runOps (s : PrimState) : List DOp → PrimState
  | [] => s
  | op :: rest =>
    match op.step s with
    | .ok s' => runOps s' rest
    | .error _ => runOps s rest

/-- freshly constructed instrument: `self.to(dtype=dtype, device=device)` on empty buffers -/
def initState (dtype : Option DType) (ambient : DType) : Except Err PrimState :=
  doTo { declared := none, buffers := [], ambient := ambient } dtype

/-- dtype of every tensor computed from the instrument (payoff, features, listed price, hedge,
P&L, loss, price): that of the `spot` buffer -/
def resultDType (s : PrimState) : Option DType :=
  (s.buffers.find? (fun p => p.1 == "spot")).map (·.2)

/-- the invariant of the property: a declared dtype is the dtype of every buffer -/
def DInv (s : PrimState) : Prop :=
  ∀ d, s.declared = some d → ∀ p ∈ s.buffers, p.2 = d

end PfVerif
