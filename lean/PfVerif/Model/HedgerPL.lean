/-
  Model of `Hedger.compute_pl` / `Hedger.compute_portfolio` (nn/modules/hedger.py:324-399) for ONE
  path: the composition

      market ──features──▶ module inputs ──g──▶ hedge (T × H) ──transpose──▶ units (H × T)
      hedging instruments ──`h.spot`──▶ prices (H × T),   `[h.cost for h in hedge]` ──▶ cost rates
      derivative ──`payoff_fn` + clauses──▶ payoff
      ──▶ `pl(spot, unit, cost, payoff)`                                   (Model/PL.lean: `plPath`)

  A hedging instrument is data: its price source and its cost rate.  The price source is either a
  primary instrument (its `spot` buffer) or a listed derivative, whose `spot` property is
  `self.pricer(self)` evaluated on every access (derivative/base.py:249-256); as in the harness the
  pricer is affine in the underlier's spot buffer, `d.ul().spot * a + b`.

  Errors, in the order the code meets them:
    * `torch.stack([h.spot for h in hedge], dim=1)`: RuntimeError for an empty hedge list and for
      price series of different lengths (so the ValueError of `compute_hedge` for "different sizes"
      is unreachable from `compute_pl` / `compute_portfolio`; it is not modelled here);
    * `compute_hedge` (Model/Hedger.lean `computeHedge`, `n` = number of time points of `hedge[0]`);
    * `pl`: `spot.size() != unit.size()` is a RuntimeError: the module returned a number of columns
      different from the number of hedging instruments (`transposeHT`; the row count is `n` whenever
      `computeHedge` succeeds), or the features have a different number of time points (already a
      RuntimeError inside `computeHedge`);
    * `derivative.payoff()` (argument of `pl`, evaluated after `compute_hedge`).
  Not modelled (the harness cannot reach it): tensor-valued `cost` attributes; clauses that read the
  derivative's state (the closed clause language below only transforms the payoff value).
  `Hedger.compute_pl` always calls `pl` with the default `deduct_first_cost=True`; the flag is kept
  as a parameter so that the statement covers `pl`'s whole interface.
-/
import PfVerif.Model.Hedger
import PfVerif.Model.Payoff
namespace PfVerif

/-- where the price series of a hedging instrument comes from -/
inductive PriceSrc (α : Type) where
  /-- a primary instrument: its `spot` buffer -/
  | primary (row : List α)
  /-- a listed derivative with the affine pricer `d.ul().spot * a + b`; `row` is the CURRENT `spot`
  buffer of its underlier -/
  | listed (a b : α) (row : List α)

/-- a hedging instrument of one path: price source and proportional cost rate (`h.cost`) -/
structure HedgeInstr (α : Type) where
  src : PriceSrc α
  cost : α

/-- the derivative classes whose `payoff_fn` needs no extra index arguments -/
inductive PayoffKind where
  | european | lookback | americanBinary | europeanBinary
  deriving DecidableEq, Repr

structure PayoffSpec (α : Type) where
  kind : PayoffKind
  call : Bool
  strike : α

/-- closed clause language (the descriptors of the driver op "clauses"): each clause maps the
payoff value to a new payoff value -/
inductive Clause (α : Type) where
  | affine (a b : α)     -- p ↦ a p + b
  | cap (c : α)          -- p ↦ min p c      (`p.clamp(max=c)`)
  | floor (c : α)        -- p ↦ max p c      (`p.clamp(min=c)`)

section
variable {α : Type} [Add α] [Sub α] [Mul α] [Div α] [Neg α] [OfNat α 0] [OfNat α 1]
  [LE α] [DecidableLE α] [Max α] [Min α] [NatCast α] [Transc α]

/-- `h.spot` -/
def PriceSrc.prices : PriceSrc α → List α
  | .primary row => row
  | .listed a b row => row.map (fun s => s * a + b)

def Clause.apply : Clause α → α → α
  | .affine a b, p => a * p + b
  | .cap c, p => min p c
  | .floor c, p => max p c

/-- `derivative.payoff_fn()` on the derivative's underlier path -/
def PayoffSpec.eval (p : PayoffSpec α) (spot : List α) : Except Err α :=
  match p.kind with
  | .european => europeanPayoff p.call p.strike spot
  | .lookback => lookbackPayoff p.call p.strike spot
  | .americanBinary => americanBinaryPayoff p.call p.strike spot
  | .europeanBinary => europeanBinaryPayoff p.call p.strike spot

/-- `derivative.payoff()`: `payoff_fn()` with the registered clauses applied in order -/
def derivPayoff (p : PayoffSpec α) (reg : List (String × Clause α)) (spot : List α) :
    Except Err α := do
  let z ← p.eval spot
  pure (applyClauses (reg.map (fun c => (c.1, c.2.apply))) z)

/-- `torch.stack([h.spot for h in hedge], dim=1)`, one path: `H × n` -/
def stackPrices (hs : List (HedgeInstr α)) : Except Err (List (List α)) :=
  match hs with
  | [] => .error .runtimeError
  | h :: rest =>
    if rest.all (fun h' => h'.src.prices.length == h.src.prices.length) then
      .ok ((h :: rest).map (fun h' => h'.src.prices))
    else .error .runtimeError

/-- `hedge[0].spot.size()[1]` -/
def nSteps (prices : List (List α)) : Nat :=
  match prices with
  | [] => 0
  | r :: _ => r.length

/-- column `k` of a list of rows -/
def colAt (k : Nat) : List (List α) → Except Err (List α)
  | [] => .ok []
  | r :: rest => do
      let x ← idx r k
      let xs ← colAt k rest
      pure (x :: xs)

/-- columns `k, k+1, …, k+c-1` -/
def colsFrom (rows : List (List α)) : Nat → Nat → Except Err (List (List α))
  | 0, _ => .ok []
  | c + 1, k => do
      let col ← colAt k rows
      let rest ← colsFrom rows c (k + 1)
      pure (col :: rest)

/-- `output.transpose(-1, -2)` followed by `pl`'s check that `unit` has `h` rows: a `T × h`
hedge becomes `h × T` units; any row of another width is the RuntimeError "unmatched sizes" -/
def transposeHT (h : Nat) (rows : List (List α)) : Except Err (List (List α)) :=
  if rows.all (fun r => r.length == h) then colsFrom rows h 0
  else .error .runtimeError

/-- `spot` and `unit` as `Hedger.compute_pl` / `compute_portfolio` hand them to `pl` -/
def hedgerSpotUnit (g : List α → List α) (fs : List (Feature α)) (m : Market α)
    (hs : List (HedgeInstr α)) : Except Err (List (List α) × List (List α)) := do
  let prices ← stackPrices hs
  let rows ← computeHedge g fs m (nSteps prices) hs.length
  let units ← transposeHT hs.length rows
  pure (prices, units)

/-- `Hedger.compute_portfolio` for one path -/
def hedgerPortfolio (g : List α → List α) (fs : List (Feature α)) (m : Market α)
    (hs : List (HedgeInstr α)) (first : Bool) : Except Err α := do
  let su ← hedgerSpotUnit g fs m hs
  pure (plPath su.1 su.2 (some (hs.map (fun h => h.cost))) none first)

/-- `Hedger.compute_pl` for one path; the payoff is `derivative.payoff()` on the derivative's own
underlier path `m.spot` -/
def hedgerPL (g : List α → List α) (fs : List (Feature α)) (m : Market α)
    (hs : List (HedgeInstr α)) (p : PayoffSpec α) (reg : List (String × Clause α))
    (first : Bool) : Except Err α := do
  let su ← hedgerSpotUnit g fs m hs
  let z ← derivPayoff p reg m.spot
  pure (plPath su.1 su.2 (some (hs.map (fun h => h.cost))) (some z) first)

end
end PfVerif
