/-
  Model of the input-resolution layer of the Black–Scholes pricing modules
  (nn/modules/bs/_base.py:96-168 `acquire_params_from_derivative_0/1/2`, and the `price` / `delta`
  methods and constructors of nn/modules/bs/{european,european_binary,american_binary,lookback}.py).

  Every input of a module method (log_moneyness, max_log_moneyness, time_to_maturity, volatility) is
  either given explicitly or, when omitted, taken from the derivative the module was built from:
      explicit value wins; else `derivative.log_moneyness()` / `.max_log_moneyness()` /
      `.time_to_maturity()` / `.ul().volatility`; `ValueError` when the module has no derivative;
      `AttributeError` when the underlier has no `spot` (not simulated) resp. no `volatility`.
  The checks happen in the order log_moneyness, time_to_maturity, volatility, max_log_moneyness.

  The derivative's own state is NOT restated here: it is the all-steps value (`getAll`) of the features
  `moneyness (log)`, `maxMoneyness (log)`, `timeToMaturity`, `volatility` of Model/Hedger.lean on the
  derivative's `Market` (one path), read at one time index (a "cell").  The functional forms are the
  ones of Model/BS.lean.  Core Lean only, generic in the scalar.
-/
import PfVerif.Model.BS
import PfVerif.Model.Hedger
import PfVerif.Inst.Dual
namespace PfVerif

/-- what a module call can raise: the two kinds raised by the resolution layer itself, or an error
from further down (evaluating a feature of the derivative, the functional form's validation,
Python's own `TypeError` for an unexpected keyword) -/
inductive AcqErr where
  | valueError          -- "<parameter> is required if derivative is not set at this initialization."
  | attributeError      -- the underlier has no `spot` buffer (not simulated) / no `volatility`
  | lower (e : Err)
  deriving Repr, DecidableEq

def AcqErr.toString : AcqErr → String
  | .valueError => "value_error"
  | .attributeError => "attribute_error"
  | .lower e => e.toString

instance : ToString AcqErr := ⟨AcqErr.toString⟩

def liftErr {β : Type} : Except Err β → Except AcqErr β
  | .ok x => .ok x
  | .error e => .error (.lower e)

/-! ### the resolution functions, generic in what a "tensor" is -/

/-- what the resolution layer can ask a derivative (each accessor may raise) -/
structure Source (τ : Type) where
  logMoneyness : Except AcqErr τ        -- `derivative.log_moneyness()`
  maxLogMoneyness : Except AcqErr τ     -- `derivative.max_log_moneyness()`
  timeToMaturity : Except AcqErr τ      -- `derivative.time_to_maturity()`
  volatility : Except AcqErr τ          -- `derivative.ul().volatility` (`AttributeError` if absent / `None`)

/-- one block
`if x is None: (if derivative is None: raise ValueError(..)); x = derivative.<accessor>` -/
def resolve {τ : Type} (d : Option (Source τ)) (get : Source τ → Except AcqErr τ) (x : Option τ) :
    Except AcqErr τ :=
  match x with
  | some a => .ok a
  | none =>
    match d with
    | none => .error .valueError
    | some src => get src

/-- `acquire_params_from_derivative_0` -/
def acquire0 {τ : Type} (d : Option (Source τ)) (s t : Option τ) : Except AcqErr (τ × τ) := do
  let s ← resolve d (·.logMoneyness) s
  let t ← resolve d (·.timeToMaturity) t
  pure (s, t)

/-- `acquire_params_from_derivative_1` -/
def acquire1 {τ : Type} (d : Option (Source τ)) (s t v : Option τ) : Except AcqErr (τ × τ × τ) := do
  let (s, t) ← acquire0 d s t
  let v ← resolve d (·.volatility) v
  pure (s, t, v)

/-- `acquire_params_from_derivative_2`; result order as in the code:
(log_moneyness, max_log_moneyness, time_to_maturity, volatility) -/
def acquire2 {τ : Type} (d : Option (Source τ)) (s m t v : Option τ) :
    Except AcqErr (τ × τ × τ × τ) := do
  let (s, t, v) ← acquire1 d s t v
  let m ← resolve d (·.maxLogMoneyness) m
  pure (s, m, t, v)

/-! ### the derivative a module is built from -/

/-- a derivative as the module sees it: one path of market data (strike inside), its call/put flag,
whether the underlier has been simulated (has a `spot` buffer) and whether `ul().volatility` resolves -/
structure Deriv (α : Type) where
  market : Market α
  call : Bool
  simulated : Bool
  hasVol : Bool

/-- option kinds whose formula takes (log_moneyness, time_to_maturity, volatility) -/
inductive Kind3 where
  | european | binary
  deriving Repr, DecidableEq

/-- option kinds whose formula also takes max_log_moneyness -/
inductive Kind4 where
  | americanBinary | lookback
  deriving Repr, DecidableEq

inductive Kind where
  | plain (k : Kind3)
  | pathDep (k : Kind4)
  deriving Repr, DecidableEq

inductive Method where
  | price | delta
  deriving Repr, DecidableEq

/-- `BS…Option(call, strike, derivative)` -/
structure BSModule (α : Type) where
  kind : Kind
  call : Bool
  strike : α
  derivative : Option (Deriv α)

/-- the explicit (keyword) inputs of a method call, at one cell -/
structure Given (α : Type) where
  s : Option α := none      -- log_moneyness
  m : Option α := none      -- max_log_moneyness
  t : Option α := none      -- time_to_maturity
  v : Option α := none      -- volatility

/-- `__init__`: the American-binary and lookback modules raise `ValueError` for `call=False` -/
def BSModule.init {α : Type} (kind : Kind) (call : Bool) (strike : α) (derivative : Option (Deriv α)) :
    Except AcqErr (BSModule α) :=
  match kind, call with
  | .pathDep _, false => .error .valueError
  | _, _ => .ok ⟨kind, call, strike, derivative⟩

/-- `from_derivative` / `BlackScholes(derivative)`: the derivative's call flag and strike -/
def BSModule.fromDerivative {α : Type} (kind : Kind) (d : Deriv α) : Except AcqErr (BSModule α) :=
  BSModule.init kind d.call d.market.strike (some d)

section
variable {α : Type} [Add α] [Sub α] [Mul α] [Div α] [Neg α] [OfNat α 0] [OfNat α 1] [OfNat α 2]
  [OfNat α 3] [LE α] [DecidableLE α] [LT α] [DecidableLT α] [Max α] [Min α] [NatCast α] [Transc α]

/-- entry `i` of an all-steps feature value (rows of one column each) -/
def cellOf (rows : Except Err (List (List α))) (i : Nat) : Except AcqErr α :=
  match rows with
  | .error e => .error (.lower e)
  | .ok rs =>
    match rs[i]? with
    | some [x] => .ok x
    | _ => .error (.lower .runtimeError)      -- no such cell

/-- a feature of the derivative that needs the underlier's `spot` buffer -/
def Deriv.spotFeature (d : Deriv α) (f : BaseFeature α) (i : Nat) : Except AcqErr α :=
  if d.simulated then cellOf (f.getAll d.market) i else .error .attributeError

/-- the derivative's state at time index `i`, through the feature definitions of Model/Hedger.lean -/
def Deriv.source (d : Deriv α) (i : Nat) : Source α where
  logMoneyness := d.spotFeature (.moneyness true) i
  maxLogMoneyness := d.spotFeature (.maxMoneyness true) i
  timeToMaturity := d.spotFeature .timeToMaturity i
  volatility := if d.hasVol then cellOf (BaseFeature.volatility.getAll d.market) i else .error .attributeError

/-- `autogreek.delta(pricer, log_moneyness=s, strike=k, …)`: the leaf is `spot = exp(s)·k`, the pricer is
called at `log(spot / k)`, and the result is the derivative w.r.t. the leaf (forward mode) -/
def autoDelta (pricer : Dual α → Except Err (Dual α)) (s k : α) : Except Err α :=
  match pricer (Transc.log (Dual.var (Transc.exp s * k) / Dual.const k)) with
  | .ok p => .ok p.eps
  | .error e => .error e

/-- `BSLookbackOption.delta` (no closed form in the code: `autogreek.delta` of `price`) -/
def bsLookbackDeltaAuto (s m t v k : α) : Except Err α :=
  autoDelta (fun sD => bsLookbackPrice sD (Dual.const m) (Dual.const t) (Dual.const v) (Dual.const k)) s k

/-- the functional form a method of a European / European-binary module ends in -/
def Kind3.formula (kind : Kind3) (what : Method) (call : Bool) (k s t v : α) : Except Err α :=
  match kind, what with
  | .european, .price => bsEuropeanPrice s t v k call
  | .european, .delta => bsEuropeanDelta s t v call
  | .binary, .price => bsBinaryPrice s t v call
  | .binary, .delta => bsBinaryDelta s t v k call

/-- the functional form a method of an American-binary / lookback module ends in -/
def Kind4.formula (kind : Kind4) (what : Method) (k s m t v : α) : Except Err α :=
  match kind, what with
  | .americanBinary, .price => bsAmericanBinaryPrice s m t v
  | .americanBinary, .delta => bsAmericanBinaryDelta s m t v k
  | .lookback, .price => bsLookbackPrice s m t v k
  | .lookback, .delta => bsLookbackDeltaAuto s m t v k

/-- the derivative state the module's methods consult at cell `i` -/
def BSModule.source (mod : BSModule α) (i : Nat) : Option (Source α) :=
  mod.derivative.map (fun d => d.source i)

/-- `module.price(**given)` / `module.delta(**given)` at cell `i`: resolution, then the functional
form with the module's own strike and call flag.  The European / European-binary methods have no
`max_log_moneyness` keyword (`TypeError`). -/
def BSModule.eval (mod : BSModule α) (what : Method) (g : Given α) (i : Nat) : Except AcqErr α :=
  match mod.kind with
  | .plain k3 =>
    match g.m with
    | some _ => .error (.lower .typeError)
    | none => do
      let (s, t, v) ← acquire1 (mod.source i) g.s g.t g.v
      liftErr (k3.formula what mod.call mod.strike s t v)
  | .pathDep k4 => do
    let (s, m, t, v) ← acquire2 (mod.source i) g.s g.m g.t g.v
    liftErr (k4.formula what mod.strike s m t v)

def modulePrice (mod : BSModule α) (g : Given α) (i : Nat) : Except AcqErr α := mod.eval .price g i
def moduleDelta (mod : BSModule α) (g : Given α) (i : Nat) : Except AcqErr α := mod.eval .delta g i

/-- the resolved inputs of a method call at cell `i`, in the order of the code's result tuple
(`[s, t, v]` resp. `[s, m, t, v]`) — what the driver reports next to the value -/
def BSModule.resolved (mod : BSModule α) (g : Given α) (i : Nat) : Except AcqErr (List α) :=
  match mod.kind with
  | .plain _ =>
    match g.m with
    | some _ => .error (.lower .typeError)
    | none => do
      let (s, t, v) ← acquire1 (mod.source i) g.s g.t g.v
      pure [s, t, v]
  | .pathDep _ => do
    let (s, m, t, v) ← acquire2 (mod.source i) g.s g.m g.t g.v
    pure [s, m, t, v]

end
end PfVerif
