/-
  Model of the risk measures and losses (functional.py:154-381, modules/loss.py) on ONE sample
  column `xs : List α` (the path dimension; trailing dimensions = independent columns, except for
  the shared bisection loop of `quadratic_cvar`, which is modelled on the vector of columns).
-/
import PfVerif.Model.Basic
import PfVerif.Model.Bisect
namespace PfVerif

/-- `x.pow(y)` for the isoelastic utility (separate from `Transc` to keep that class stable) -/
class TranscPow (α : Type) where
  pow : α → α → α

section Order
variable {α : Type} [LE α] [DecidableLE α]

/-- ascending sort (what `topk(largest=False)` / `quantile` see) -/
def sortL (xs : List α) : List α := xs.mergeSort (fun a b => decide (a ≤ b))

end Order

section
variable {α : Type} [Add α] [Sub α] [Mul α] [Div α] [Neg α] [OfNat α 0] [OfNat α 1] [OfNat α 2]
  [LE α] [DecidableLE α] [LT α] [DecidableLT α] [Max α] [Min α] [NatCast α]

def meanR (xs : List α) : α := sumL xs / (xs.length : α)

/-- `expected_shortfall`: minus the mean of the `k` smallest outcomes (`k = ceil(p N)`, computed
by the caller exactly as the code does) -/
def es (k : Nat) (xs : List α) : α := -(sumL ((sortL xs).take k) / (k : α))

/-- `topp(largest=False).values`: the `k` smallest, ascending -/
def toppSmallest (k : Nat) (xs : List α) : List α := (sortL xs).take k

/-- `torch.quantile(q)` (linear interpolation) on the sorted sample at position `pos = q (n-1)`
given as integer part `lo` and fractional part `frac` -/
def quantileAt (lo : Nat) (frac : α) (xs : List α) : Except Err α :=
  let s := sortL xs
  match s[lo]?, s[lo + 1]? with
  | some a, some b => .ok (a + frac * (b - a))
  | some a, none => .ok a
  | none, _ => .error .runtimeError

/-- `value_at_risk` branch structure; `branch` is decided by the caller as the code does
(`p <= 1/n`, `p > 1 - 1/n`, else) in floating point -/
inductive VarBranch where | minimum | maximum | quantile (lo : Nat)

def valueAtRisk (b : VarBranch) (frac : α) : List α → Except Err α
  | [] => .error .runtimeError
  | x :: xs =>
    match b with
    | .minimum => .ok (minL x xs)
    | .maximum => .ok (maxL x xs)
    | .quantile lo => quantileAt lo frac (x :: xs)

/-- `w + lam * mean(relu(-w - x)^2)`: the objective whose infimum over `w` is quadratic CVaR -/
def qObj (lam w : α) (xs : List α) : α :=
  w + lam * meanR (xs.map (fun x => let r := reluS (-w - x); r * r))

/-- `fn_target(omega) = mean(relu(-omega - x))` -/
def qTarget (w : α) (xs : List α) : α := meanR (xs.map (fun x => reluS (-w - x)))

/-- `quadratic_cvar` on a matrix of columns as coded: centring, bracket, shared bisection.
`precision` is computed by the caller (`1e-6 * 10 ** int(log10(max width))`, floating point);
`tol` is the bracket widening (`1e-8` at the pinned commit). -/
def quadraticCvar (lam tol precision : α) (maxIter : Nat) (cols : List (List α)) :
    Except Err (List α) :=
  let bases := cols.map meanR
  let centred := List.zipWith (fun c b => c.map (fun x => x - b)) cols bases
  let negs := centred.map (fun c => c.map (fun x => -x))
  -- NOTE (known finding F6/K2): this bracket misses the root of `qTarget w = 1/(2 lam)` whenever
  -- `max x - mean x < 1/(2 lam)`; `quadraticCvarRepaired` below lowers it by the target.
  let lowers := negs.map (fun c => match c with
    | [] => 0
    | y :: ys => minL y ys - tol)
  let uppers := negs.map (fun c => match c with
    | [] => 0
    | y :: ys => maxL y ys + tol)
  let fn := fun (ws : List α) => List.zipWith qTarget ws centred
  let target := cols.map (fun _ => (1 : α) / (2 * lam))
  match bisect fn target lowers uppers precision maxIter with
  | .error e => .error e
  | .ok omegas =>
    .ok (List.zipWith (fun wc b => qObj lam wc.1 wc.2 - b) (List.zip omegas centred) bases)

end

section
variable {α : Type} [Add α] [Sub α] [Mul α] [Div α] [Neg α] [OfNat α 0] [OfNat α 1]
  [LE α] [DecidableLE α] [Max α] [NatCast α] [Transc α]
open Transc

/-- `torch.logsumexp`: `m + log Σ exp(x − m)` with `m` the maximum -/
def logSumExp : List α → Except Err α
  | [] => .error .runtimeError
  | x :: xs =>
    let m := maxL x xs
    .ok (m + log (sumL ((x :: xs).map (fun y => exp (y - m)))))

/-- `entropic_risk_measure`: `(logsumexp(-a x) - log N) / a` -/
def entropicRisk (a : α) (xs : List α) : Except Err α := do
  let l ← logSumExp (xs.map (fun x => -x * a))
  pure ((l - log (xs.length : α)) / a)

/-- `EntropicLoss.forward`: `-exp_utility(x).mean() = mean(exp(-a x))` -/
def entropicLoss (a : α) (xs : List α) : α :=
  -(sumL (xs.map (fun x => -(exp (-a * x)))) / (xs.length : α))

/-- `EntropicLoss.cash`, the documented closed form: `-log(mean exp(-a x)) / a` -/
def entropicLossCash (a : α) (xs : List α) : α := -(log (entropicLoss a xs)) / a

/-- `EntropicLoss.cash` as coded after the `fix:` commit for F7: `-entropic_risk_measure(x, a)`
(the same quantity evaluated through `logsumexp`; Props/C06 `entropicLossCashStable_eq`) -/
def entropicLossCashStable (a : α) (xs : List α) : Except Err α := do
  let r ← entropicRisk a xs
  pure (-r)

/-- `OCE.forward`: `w - mean u(x + w)` -/
def oce (u : α → α) (w : α) (xs : List α) : α :=
  w - sumL (xs.map (fun x => u (x + w))) / (xs.length : α)

end

section
variable {α : Type} [Add α] [Sub α] [Mul α] [Div α] [Neg α] [OfNat α 0] [OfNat α 1]
  [NatCast α] [Transc α] [TranscPow α]

/-- `isoelastic_utility` -/
def isoelasticUtility (aIsOne : Bool) (a x : α) : α :=
  if aIsOne then Transc.log x else TranscPow.pow x (1 - a)

/-- `IsoelasticLoss.forward`: `-mean u(x)` -/
def isoelasticLoss (aIsOne : Bool) (a : α) (xs : List α) : α :=
  -(sumL (xs.map (isoelasticUtility aIsOne a)) / (xs.length : α))

end

section Cash
variable {α : Type} [Add α] [Sub α] [Mul α] [Div α] [Neg α] [OfNat α 0] [OfNat α 1] [OfNat α 2]
  [LE α] [DecidableLE α] [LT α] [DecidableLT α] [Max α] [Min α] [NatCast α]

/-- closed-form `cash` overrides (modules/loss.py:130-131, 287-288, 341-342): `-self(input - target)` -/
def cashNeg (loss : List α → α) (xs : List α) : α := -(loss xs)

/-- default `HedgeLoss.cash` after the `fix:` commit for F5, for ONE column: bisection of
`c ↦ loss(constant sample at c)` on the column's own range widened by `precision`
(`fn(c) = self(c.unsqueeze(0))`, so the constant sample has one element). -/
def cashDefault (loss : List α → α) (precision : α) (maxIter : Nat) : List α → Except Err α
  | [] => .error .runtimeError
  | x :: xs =>
    let lower := minL x xs - precision
    let upper := maxL x xs + precision
    match bisect (fun cs => cs.map (fun c => loss [c])) [loss (x :: xs)] [lower] [upper] precision maxIter with
    | .ok [c] => .ok c
    | .ok _ => .error .runtimeError
    | .error e => .error e

/-- `Hedger.price` for one evaluation: `-criterion.cash(portfolio, target=payoff)` -/
def priceOf (cash : List α → α) (portfolio payoff : List α) : α :=
  -(cash (List.zipWith (fun p z => p - z) portfolio payoff))

/-- `ensemble_mean`: `n_times = 1` returns the single evaluation, otherwise the mean of the stack -/
def ensembleMean : List α → Except Err α
  | [] => .error .runtimeError
  | [x] => .ok x
  | xs => .ok (sumL xs / (xs.length : α))

end Cash

end PfVerif
