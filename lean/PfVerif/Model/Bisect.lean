/-
  Model of `pfhedge._utils.bisect.bisect` / `find_implied_volatility` (bisect.py:9-122),
  element-wise on a vector of brackets.  `max_iter` is the fuel of the loop.
-/
import PfVerif.Model.Basic
namespace PfVerif

section
variable {α : Type} [Add α] [Sub α] [Div α] [Neg α] [OfNat α 2] [LE α] [DecidableLE α]
  [LT α] [DecidableLT α] [Max α]

/-- `(a < b).all()` -/
def allLt (a b : List α) : Bool := (List.zipWith (fun x y => decide (x < y)) a b).all id

/-- one loop iteration: midpoint and the two `where` updates -/
def bisectStep (fn : List α → List α) (target lower upper : List α) : List α × List α :=
  let m := List.zipWith (fun l u => (l + u) / 2) lower upper
  let out := fn m
  let triples := List.zip (List.zip out target) (List.zip (List.zip lower upper) m)
  -- lower = lower.where(output >= target, m);  upper = upper.where(output < target, m)
  (triples.map (fun ((o, t), ((l, _), mm)) => if t ≤ o then l else mm),
   triples.map (fun ((o, t), ((_, u), mm)) => if o < t then u else mm))

/-- `torch.max(upper - lower)`; `none` on empty tensors (torch raises) -/
def maxWidth (lower upper : List α) : Option α :=
  match List.zipWith (fun l u => u - l) lower upper with
  | [] => none
  | w :: ws => some (maxL w ws)

/-- the `while` loop, `fuel` = remaining iterations before `RuntimeError` -/
def bisectLoop (fn : List α → List α) (target : List α) (precision : α) :
    Nat → List α → List α → Except Err (List α)
  | fuel, lower, upper =>
    match maxWidth lower upper with
    | none => .error .runtimeError
    | some w =>
      if precision < w then
        match fuel with
        | 0 => .error .runtimeError
        | fuel' + 1 =>
          let (l', u') := bisectStep fn target lower upper
          bisectLoop fn target precision fuel' l' u'
      else .ok upper

/-- `bisect`: bracket check, direction test with the recursive call on `-fn`, loop -/
def bisect (fn : List α → List α) (target lower upper : List α) (precision : α) (maxIter : Nat) :
    Except Err (List α) :=
  if !(allLt lower upper) then .error .valueError
  else
    -- `(fn(lower) > fn(upper)).all()`
    let dec := (List.zipWith (fun a b => decide (b < a)) (fn lower) (fn upper)).all id
    if dec then
      let mf := fun x => (fn x).map (fun y => -y)
      -- the recursive call re-tests the direction on `mf`; for a strictly decreasing `fn`
      -- `mf lower < mf upper`, so the test is false there and the loop runs on `mf`.
      let dec2 := (List.zipWith (fun a b => decide (b < a)) (mf lower) (mf upper)).all id
      if dec2 then .error .recursionError   -- only for empty tensors: `.all()` of nothing is True
      else bisectLoop mf (target.map (fun y => -y)) precision maxIter lower upper
    else bisectLoop fn target precision maxIter lower upper
end

end PfVerif
