/-
  C09 — No-arbitrage relations between the quoted Black–Scholes prices.
  Model: Model/BS.lean at ℝ (`Transc ℝ` from Lemmas/Gauss.lean).  Whole open domain
  `K > 0`, `t > 0`, `v > 0`, any real log-moneyness `s` (spot `S = K eˢ`), running-maximum
  log-moneyness `m` (maximum `K eᵐ`).

  * parities: call − put = S − K, binary call + binary put = 1;
  * bounds: max(S − K, 0) ≤ call ≤ S; binary prices in [0,1]; American binary in [0,1] on its
    domain `s ≤ m` (and strictly above 1 outside it: the hypothesis is needed);
  * the call is strictly increasing and convex in the spot, strictly increasing in the volatility
    and in the time to maturity;
  * American binary ≥ European binary, and exactly 1 once the barrier has been reached;
  * lookback ≥ European call, lookback ≥ locked-in payoff max(max − K, 0), and the two branch
    formulas of the lookback agree where the running maximum crosses the strike (the quoted price
    is a continuous function of the running maximum).

  Prices are read through `C08Aux.val` (error ↦ 0); the `…_ok` lemmas show that no error is raised
  for `t, v > 0`, so the totalisation is never used at an error point.
  Analytic inputs: Lemmas/BSIneq.lean (Mills-ratio bound, monotonicity in `s`), the Greeks of C08
  (`HasDerivAt` statements) and the expectation formulas of C07 (for `0 ≤ call`, `0 ≤ put` and the
  1-Lipschitz dependence of the call on the strike).
-/
import PfVerif.Props.C07
import PfVerif.Props.C08
import PfVerif.Lemmas.BSIneq
import Mathlib.Analysis.Convex.Deriv

namespace PfVerif.C09Aux
open PfVerif PfVerif.BSCalc PfVerif.C08Aux PfVerif.BSIneq Real MeasureTheory

/-! ### European call / put in closed form: signs and dependence on the strike -/

/-- `0 ≤ E[max(S_T − K, 0)]` -/
theorem call_closed_nonneg (s : ℝ) {K w : ℝ} (hK : 0 < K) (hw : 0 < w) :
    0 ≤ K * Real.exp s * Phi (d1 s w) - K * Phi (d2 s w) := by
  have h := C07Aux.call_integral s hK hw
  unfold d1 d2
  rw [← h]
  exact integral_nonneg fun z => mul_nonneg (le_max_right _ _) (phi_pos z).le

/-- `0 ≤ E[max(K − S_T, 0)]` -/
theorem put_closed_nonneg (s : ℝ) {K w : ℝ} (hK : 0 < K) (hw : 0 < w) :
    0 ≤ K * Real.exp s * Phi (d1 s w) - K * Phi (d2 s w) + K * (1 - Real.exp s) := by
  have h := C07Aux.put_integral s hK hw
  unfold d1 d2
  rw [← h]
  exact integral_nonneg fun z => mul_nonneg (le_max_right _ _) (phi_pos z).le

/-- normalised form: `Φ(d₂) ≤ eˢ Φ(d₁)` -/
theorem Phi_d2_le (s : ℝ) {w : ℝ} (hw : 0 < w) :
    Phi (d2 s w) ≤ Real.exp s * Phi (d1 s w) := by
  have h := call_closed_nonneg s one_pos hw
  linarith

/-- the call is 1-Lipschitz (and decreasing) in the strike: for the same spot `K eˢ = (K eᵐ) e^{s−m}`
and a higher strike `K eᵐ ≥ K`, `call(K) ≤ call(K eᵐ) + (K eᵐ − K)` -/
theorem call_strike_lipschitz (s : ℝ) {K m w : ℝ} (hK : 0 < K) (hm : 0 ≤ m) (hw : 0 < w) :
    K * Real.exp s * Phi (d1 s w) - K * Phi (d2 s w)
      ≤ K * Real.exp m * Real.exp (s - m) * Phi (d1 (s - m) w)
          - K * Real.exp m * Phi (d2 (s - m) w) + (K * Real.exp m - K) := by
  have hM : 0 < K * Real.exp m := mul_pos hK (Real.exp_pos m)
  have h1 := C07Aux.call_integral s hK hw
  have h2 := C07Aux.call_integral (s - m) hM hw
  have h3 : ∫ z, (K * Real.exp m - K) * phi z = K * Real.exp m - K := by
    rw [integral_const_mul, integral_phi, mul_one]
  unfold d1 d2
  rw [← h1, ← h2]
  have h4 := integral_add (C07Aux.call_integrand_integrable (s - m) hM hw)
    (phi_integrable.const_mul (K * Real.exp m - K))
  rw [h3] at h4
  rw [← h4]
  refine integral_mono (C07Aux.call_integrand_integrable s hK hw)
    ((C07Aux.call_integrand_integrable (s - m) hM hw).add (phi_integrable.const_mul _)) ?_
  intro z
  have hφ := (phi_pos z).le
  have hX : K * Real.exp m * Real.exp (s - m + w * z - w ^ 2 / 2)
      = K * Real.exp (s + w * z - w ^ 2 / 2) := by
    rw [mul_assoc, ← Real.exp_add]
    congr 2
    ring
  have hKM : K ≤ K * Real.exp m := by
    have := Real.one_le_exp hm
    nlinarith
  show max (K * Real.exp (s + w * z - w ^ 2 / 2) - K) 0 * phi z
      ≤ max (K * Real.exp m * Real.exp (s - m + w * z - w ^ 2 / 2) - K * Real.exp m) 0 * phi z
        + (K * Real.exp m - K) * phi z
  rw [hX, ← add_mul]
  refine mul_le_mul_of_nonneg_right ?_ hφ
  refine max_le ?_ ?_
  · have := le_max_left (K * Real.exp (s + w * z - w ^ 2 / 2) - K * Real.exp m) 0
    linarith
  · have := le_max_right (K * Real.exp (s + w * z - w ^ 2 / 2) - K * Real.exp m) 0
    linarith

/-! ### the lookback formula -/

/-- the bracket `Φ(d₁) + (a + w²/2) Φ(d₁) + w φ(d₁)` of the lookback formula (as the code writes
it after the fix: `w·d₁` spelled `a + w²/2`) -/
noncomputable def lb (a w : ℝ) : ℝ :=
  Phi (d1 a w) + (a + w * w / 2) * Phi (d1 a w) + w * phi (d1 a w)

theorem w_mul_d1 (a : ℝ) {w : ℝ} (hw : w ≠ 0) : w * d1 a w = a + w * w / 2 := by
  unfold d1
  field_simp

/-- the textbook spelling `Φ(d₁) + w (d₁ Φ(d₁) + φ(d₁))` -/
theorem lb_eq (a : ℝ) {w : ℝ} (hw : w ≠ 0) :
    lb a w = Phi (d1 a w) + w * (d1 a w * Phi (d1 a w) + phi (d1 a w)) := by
  unfold lb
  rw [← w_mul_d1 a hw]
  ring

/-- Mills-ratio bound ⇒ the lookback bracket dominates `Φ(d₁)` -/
theorem Phi_d1_le_lb (a : ℝ) {w : ℝ} (hw : 0 < w) : Phi (d1 a w) ≤ lb a w := by
  rw [lb_eq a hw.ne']
  have := mul_nonneg hw.le (mills_nonneg (d1 a w))
  linarith

/-- branch used while the running maximum is below the strike -/
noncomputable def price0 (s t v K : ℝ) : ℝ :=
  Real.exp s * K * lb s (v * Real.sqrt t) - K * Phi (d2 s (v * Real.sqrt t))

/-- branch used once the running maximum `K eᵐ` is at or above the strike -/
noncomputable def price1 (s m t v K : ℝ) : ℝ :=
  Real.exp s * K * lb (s - m) (v * Real.sqrt t) - K
    + Real.exp m * K * (1 - Phi (d2 (s - m) (v * Real.sqrt t)))

theorem lookback_price_ok {t v : ℝ} (ht : 0 < t) (hv : 0 < v) (s m K : ℝ) :
    bsLookbackPrice s m t v K
      = .ok (if Real.exp m * K < K then price0 s t v K else price1 s m t v K) := by
  unfold bsLookbackPrice
  rw [bsD1_ok s ht hv, bsD2_ok s ht hv, bsD1_ok (s - m) ht hv, bsD2_ok (s - m) ht hv]
  rfl

/-- the formula shipped at the pinned commit (`w (d₁ Φ(d₁) + φ(d₁))`) returns the same value on the
open domain, so every statement below also holds for `bsLookbackPriceOld` -/
theorem lookback_price_old_eq {t v : ℝ} (ht : 0 < t) (hv : 0 < v) (s m K : ℝ) :
    bsLookbackPriceOld s m t v K = bsLookbackPrice s m t v K := by
  have hw := (w_pos ht hv).ne'
  have e : bsLookbackPriceOld s m t v K
      = .ok (if Real.exp m * K < K then
          Real.exp s * K * (Phi (d1 s (v * Real.sqrt t)) + v * Real.sqrt t
            * (d1 s (v * Real.sqrt t) * Phi (d1 s (v * Real.sqrt t)) + phi (d1 s (v * Real.sqrt t))))
            - K * Phi (d2 s (v * Real.sqrt t))
        else
          Real.exp s * K * (Phi (d1 (s - m) (v * Real.sqrt t)) + v * Real.sqrt t
            * (d1 (s - m) (v * Real.sqrt t) * Phi (d1 (s - m) (v * Real.sqrt t))
              + phi (d1 (s - m) (v * Real.sqrt t))))
            - K + Real.exp m * K * (1 - Phi (d2 (s - m) (v * Real.sqrt t)))) := by
    unfold bsLookbackPriceOld
    rw [bsD1_ok s ht hv, bsD2_ok s ht hv, bsD1_ok (s - m) ht hv, bsD2_ok (s - m) ht hv]
    rfl
  rw [e, lookback_price_ok ht hv, price0, price1, lb_eq s hw, lb_eq (s - m) hw]

theorem branch_iff {K : ℝ} (hK : 0 < K) (m : ℝ) : Real.exp m * K < K ↔ m < 0 := by
  rw [mul_lt_iff_lt_one_left hK, Real.exp_lt_one_iff]

theorem lookback_val_of_neg {K t v m : ℝ} (hK : 0 < K) (ht : 0 < t) (hv : 0 < v) (hm : m < 0)
    (s : ℝ) : val (bsLookbackPrice s m t v K) = price0 s t v K := by
  rw [lookback_price_ok ht hv, if_pos ((branch_iff hK m).2 hm), val_ok]

theorem lookback_val_of_nonneg {K t v m : ℝ} (hK : 0 < K) (ht : 0 < t) (hv : 0 < v) (hm : 0 ≤ m)
    (s : ℝ) : val (bsLookbackPrice s m t v K) = price1 s m t v K := by
  rw [lookback_price_ok ht hv, if_neg (mt (branch_iff hK m).1 (not_lt.2 hm)), val_ok]

/-- at `m = 0` (running maximum = strike) the two branches coincide -/
theorem price0_eq_price1_zero (s t v K : ℝ) : price0 s t v K = price1 s 0 t v K := by
  unfold price0 price1
  rw [sub_zero, Real.exp_zero]
  ring

theorem lb_continuous (w : ℝ) : Continuous fun a => lb a w := by
  have hd : Continuous fun a : ℝ => d1 a w := by unfold d1; fun_prop
  unfold lb
  exact ((Phi_continuous.comp hd).add
    ((continuous_id.add continuous_const).mul (Phi_continuous.comp hd))).add
    (continuous_const.mul (phi_continuous.comp hd))

theorem price1_continuous (s t v K : ℝ) : Continuous fun m => price1 s m t v K := by
  have hs : Continuous fun m : ℝ => s - m := continuous_const.sub continuous_id
  have hd : Continuous fun a : ℝ => d2 a (v * Real.sqrt t) := by unfold d2; fun_prop
  unfold price1
  exact ((continuous_const.mul ((lb_continuous _).comp hs)).sub continuous_const).add
    ((Real.continuous_exp.mul continuous_const).mul
      (continuous_const.sub (Phi_continuous.comp (hd.comp hs))))

/-! ### the call as a function of spot, volatility, time -/

theorem call_delta_pos {S K t v : ℝ} (ht : 0 < t) (hv : 0 < v) :
    0 < val (bsEuropeanDelta (Real.log (S / K)) t v true) := by
  rw [european_delta_ok ht hv]
  simp only [val_ok, if_true]
  exact (Phi_mem_Ioo _).1

theorem call_gamma_pos {S K t v : ℝ} (hK : 0 < K) (ht : 0 < t) (hv : 0 < v) :
    0 < val (bsEuropeanGamma (Real.log (S / K)) t v K) := by
  rw [european_gamma_ok ht hv]
  simp only [val_ok]
  have h1 := phi_pos (d1 (Real.log (S / K)) (v * Real.sqrt t))
  have h2 : 0 < Real.sqrt t := Real.sqrt_pos.2 ht
  have h3 := Real.exp_pos (Real.log (S / K))
  positivity

theorem call_vega_pos (s : ℝ) {K t v : ℝ} (hK : 0 < K) (ht : 0 < t) (hv : 0 < v) :
    0 < val (bsEuropeanVega s t v K) := by
  rw [european_vega_ok ht hv]
  simp only [val_ok]
  have h1 := phi_pos (d1 s (v * Real.sqrt t))
  have h2 : 0 < Real.sqrt t := Real.sqrt_pos.2 ht
  have h3 := Real.exp_pos s
  positivity

theorem call_theta_neg (s : ℝ) {K t v : ℝ} (hK : 0 < K) (ht : 0 < t) (hv : 0 < v) :
    0 < -(val (bsEuropeanTheta s t v K)) := by
  rw [european_theta_ok ht hv]
  simp only [val_ok]
  have h1 := phi_pos (d1 s (v * Real.sqrt t))
  have h2 : 0 < Real.sqrt t := Real.sqrt_pos.2 ht
  have h3 := Real.exp_pos s
  have e : -(-(phi (d1 s (v * Real.sqrt t))) * (K * Real.exp s) * v / (2 * Real.sqrt t))
      = phi (d1 s (v * Real.sqrt t)) * (K * Real.exp s) * v / (2 * Real.sqrt t) := by ring
  rw [e]
  positivity

end PfVerif.C09Aux

namespace PfVerif.C09
open PfVerif PfVerif.BSCalc PfVerif.C08Aux PfVerif.C09Aux PfVerif.BSIneq Set

/-! ### parities -/

/-- call − put = S − K -/
theorem put_call_parity (s K : ℝ) {t v : ℝ} (ht : 0 < t) (hv : 0 < v) :
    val (bsEuropeanPrice s t v K true) - val (bsEuropeanPrice s t v K false)
      = K * Real.exp s - K := by
  rw [european_price_ok ht hv, european_price_ok ht hv]
  simp only [val_ok, if_true, Bool.false_eq_true, if_false]
  ring

/-- binary call + binary put = 1 -/
theorem binary_parity (s : ℝ) {t v : ℝ} (ht : 0 < t) (hv : 0 < v) :
    val (bsBinaryPrice s t v true) + val (bsBinaryPrice s t v false) = 1 := by
  rw [binary_price_ok ht hv, binary_price_ok ht hv]
  simp only [val_ok, if_true, Bool.false_eq_true, if_false]
  ring

/-! ### bounds -/

/-- call ≤ spot -/
theorem call_le_spot (s : ℝ) {K t v : ℝ} (hK : 0 < K) (ht : 0 < t) (hv : 0 < v) :
    val (bsEuropeanPrice s t v K true) ≤ K * Real.exp s := by
  rw [european_price_ok ht hv]
  simp only [val_ok, if_true]
  have h1 : Real.exp s * K * Phi (d1 s (v * Real.sqrt t)) ≤ Real.exp s * K * 1 :=
    mul_le_mul_of_nonneg_left (Phi_le_one _) (mul_pos (Real.exp_pos s) hK).le
  have h2 : 0 ≤ K * Phi (d2 s (v * Real.sqrt t)) := mul_nonneg hK.le (Phi_nonneg _)
  linarith

/-- call ≥ intrinsic value max(S − K, 0) -/
theorem call_ge_intrinsic (s : ℝ) {K t v : ℝ} (hK : 0 < K) (ht : 0 < t) (hv : 0 < v) :
    max (K * Real.exp s - K) 0 ≤ val (bsEuropeanPrice s t v K true) := by
  rw [european_price_ok ht hv]
  simp only [val_ok, if_true]
  have h1 := call_closed_nonneg s hK (w_pos ht hv)
  have h2 := put_closed_nonneg s hK (w_pos ht hv)
  refine max_le ?_ ?_ <;> linarith

/-- the put is nonnegative as well (used above through parity) -/
theorem put_nonneg (s : ℝ) {K t v : ℝ} (hK : 0 < K) (ht : 0 < t) (hv : 0 < v) :
    0 ≤ val (bsEuropeanPrice s t v K false) := by
  rw [european_price_ok ht hv]
  simp only [val_ok, Bool.false_eq_true, if_false]
  have h2 := put_closed_nonneg s hK (w_pos ht hv)
  linarith

/-- European binary prices (call and put) lie in [0, 1] -/
theorem binary_mem_Icc (s : ℝ) {t v : ℝ} (ht : 0 < t) (hv : 0 < v) (call : Bool) :
    0 ≤ val (bsBinaryPrice s t v call) ∧ val (bsBinaryPrice s t v call) ≤ 1 := by
  rw [binary_price_ok ht hv]
  have h1 := Phi_nonneg (d2 s (v * Real.sqrt t))
  have h2 := Phi_le_one (d2 s (v * Real.sqrt t))
  cases call
  · simp only [val_ok, Bool.false_eq_true, if_false]
    constructor <;> linarith
  · simp only [val_ok, if_true]
    exact ⟨h1, h2⟩

/-- American binary price lies in [0, 1] while the spot is at or below the barrier -/
theorem american_binary_mem_Icc {s : ℝ} (hs : s ≤ 0) (m : ℝ) {t v : ℝ} (ht : 0 < t) (hv : 0 < v) :
    0 ≤ val (bsAmericanBinaryPrice s m t v) ∧ val (bsAmericanBinaryPrice s m t v) ≤ 1 := by
  rw [american_price_ok ht hv]
  by_cases hm : m < 0
  · simp only [val_ok, hm, if_true]
    refine ⟨?_, american_le_one hs (w_pos ht hv)⟩
    have h1 := Phi_nonneg (d2 s (v * Real.sqrt t))
    have h2 := mul_nonneg (Real.exp_pos s).le (Phi_nonneg (d1 s (v * Real.sqrt t)))
    linarith
  · simp only [val_ok, hm, if_false]
    norm_num

/-- the same on the natural domain "spot ≤ running maximum" -/
theorem american_binary_mem_Icc_of_le_max {s m : ℝ} (hsm : s ≤ m) {t v : ℝ} (ht : 0 < t)
    (hv : 0 < v) :
    0 ≤ val (bsAmericanBinaryPrice s m t v) ∧ val (bsAmericanBinaryPrice s m t v) ≤ 1 := by
  by_cases hm : m < 0
  · exact american_binary_mem_Icc (by linarith) m ht hv
  · rw [american_price_ok ht hv]
    simp only [val_ok, hm, if_false]
    norm_num

/-- the domain restriction is needed: for a spot above the barrier with a recorded maximum below
it (an inconsistent input) the formula exceeds one -/
theorem american_binary_gt_one_off_domain {s m : ℝ} (hs : 0 < s) (hm : m < 0) {t v : ℝ}
    (ht : 0 < t) (hv : 0 < v) : 1 < val (bsAmericanBinaryPrice s m t v) := by
  rw [american_price_ok ht hv]
  simp only [val_ok, hm, if_true]
  exact american_gt_one hs (w_pos ht hv)

/-- once the barrier has been reached the American binary is worth exactly one -/
theorem american_binary_one_after_hit (s : ℝ) {m t v : ℝ} (ht : 0 < t) (hv : 0 < v)
    (hm : 0 ≤ m) : bsAmericanBinaryPrice s m t v = .ok 1 := by
  rw [american_price_ok ht hv, if_neg (not_lt.2 hm)]

/-- with the spot exactly at the barrier the continuation formula already gives one, so the price
is continuous where the running maximum reaches the barrier -/
theorem american_binary_one_at_barrier (m : ℝ) {t v : ℝ} (ht : 0 < t) (hv : 0 < v) :
    val (bsAmericanBinaryPrice 0 m t v) = 1 := by
  rw [american_price_ok ht hv]
  by_cases hm : m < 0
  · simp only [val_ok, hm, if_true]
    exact american_at_barrier _
  · simp only [val_ok, hm, if_false]

/-- American binary ≥ European binary call -/
theorem american_ge_european_binary (s m : ℝ) {t v : ℝ} (ht : 0 < t) (hv : 0 < v) :
    val (bsBinaryPrice s t v true) ≤ val (bsAmericanBinaryPrice s m t v) := by
  rw [binary_price_ok ht hv, american_price_ok ht hv]
  by_cases hm : m < 0
  · simp only [val_ok, hm, if_true]
    have h2 := mul_nonneg (Real.exp_pos s).le (Phi_nonneg (d1 s (v * Real.sqrt t)))
    linarith
  · simp only [val_ok, hm, if_true, if_false]
    exact Phi_le_one _

/-! ### monotonicity and convexity of the call -/

/-- strictly increasing in the log-moneyness -/
theorem call_mono_logmoneyness {K t v : ℝ} (hK : 0 < K) (ht : 0 < t) (hv : 0 < v) :
    ∀ s₁ s₂ : ℝ, s₁ < s₂ →
      val (bsEuropeanPrice s₁ t v K true) < val (bsEuropeanPrice s₂ t v K true) := by
  intro s₁ s₂ h
  rw [european_price_ok ht hv, european_price_ok ht hv]
  simp only [val_ok, if_true]
  exact european_strictMono_s hK (w_pos ht hv) h

theorem call_strictMonoOn_spot {K t v : ℝ} (hK : 0 < K) (ht : 0 < t) (hv : 0 < v) :
    StrictMonoOn (fun S => val (bsEuropeanPrice (Real.log (S / K)) t v K true)) (Ioi 0) := by
  refine strictMonoOn_of_deriv_pos (convex_Ioi 0) ?_ ?_
  · intro S hS
    exact (C08.european_delta hS hK ht hv true).continuousAt.continuousWithinAt
  · intro S hS
    rw [interior_Ioi] at hS
    rw [(C08.european_delta hS hK ht hv true).deriv]
    exact call_delta_pos ht hv

/-- the call price is strictly increasing in the spot `S > 0` (strike, maturity, volatility fixed) -/
theorem call_mono_spot {K t v : ℝ} (hK : 0 < K) (ht : 0 < t) (hv : 0 < v) :
    ∀ S₁ S₂ : ℝ, 0 < S₁ → S₁ < S₂ →
      val (bsEuropeanPrice (Real.log (S₁ / K)) t v K true)
        < val (bsEuropeanPrice (Real.log (S₂ / K)) t v K true) := by
  intro S₁ S₂ h1 h12
  exact call_strictMonoOn_spot hK ht hv (mem_Ioi.2 h1) (mem_Ioi.2 (h1.trans h12)) h12

/-- the call price is convex in the spot on `(0, ∞)` -/
theorem call_convex_spot {K t v : ℝ} (hK : 0 < K) (ht : 0 < t) (hv : 0 < v) :
    ConvexOn ℝ (Ioi 0) (fun S => val (bsEuropeanPrice (Real.log (S / K)) t v K true)) := by
  refine convexOn_of_deriv2_nonneg (convex_Ioi 0) ?_ ?_ ?_ ?_
  · intro S hS
    exact (C08.european_delta hS hK ht hv true).continuousAt.continuousWithinAt
  · intro S hS
    rw [interior_Ioi] at hS
    exact (C08.european_delta hS hK ht hv true).differentiableAt.differentiableWithinAt
  · intro S hS
    rw [interior_Ioi] at hS
    exact (C08.european_gamma_second hS hK ht hv true).differentiableAt.differentiableWithinAt
  · intro S hS
    rw [interior_Ioi] at hS
    show 0 ≤ deriv (deriv fun S => val (bsEuropeanPrice (Real.log (S / K)) t v K true)) S
    rw [(C08.european_gamma_second hS hK ht hv true).deriv]
    exact (call_gamma_pos hK ht hv).le

theorem call_strictMonoOn_vol (s : ℝ) {K t : ℝ} (hK : 0 < K) (ht : 0 < t) :
    StrictMonoOn (fun v => val (bsEuropeanPrice s t v K true)) (Ioi 0) := by
  refine strictMonoOn_of_deriv_pos (convex_Ioi 0) ?_ ?_
  · intro v hv
    exact (C08.european_vega s ht hv true).continuousAt.continuousWithinAt
  · intro v hv
    rw [interior_Ioi] at hv
    rw [(C08.european_vega s ht hv true).deriv]
    exact call_vega_pos s hK ht hv

/-- the call price does not decrease with the volatility -/
theorem call_mono_vol (s : ℝ) {K t : ℝ} (hK : 0 < K) (ht : 0 < t) :
    ∀ v₁ v₂ : ℝ, 0 < v₁ → v₁ ≤ v₂ →
      val (bsEuropeanPrice s t v₁ K true) ≤ val (bsEuropeanPrice s t v₂ K true) := by
  intro v₁ v₂ h1 h12
  exact (call_strictMonoOn_vol s hK ht).monotoneOn (mem_Ioi.2 h1)
    (mem_Ioi.2 (lt_of_lt_of_le h1 h12)) h12

/-- … in fact it strictly increases -/
theorem call_strictMono_vol (s : ℝ) {K t : ℝ} (hK : 0 < K) (ht : 0 < t) :
    ∀ v₁ v₂ : ℝ, 0 < v₁ → v₁ < v₂ →
      val (bsEuropeanPrice s t v₁ K true) < val (bsEuropeanPrice s t v₂ K true) := by
  intro v₁ v₂ h1 h12
  exact call_strictMonoOn_vol s hK ht (mem_Ioi.2 h1) (mem_Ioi.2 (h1.trans h12)) h12

theorem call_strictMonoOn_time (s : ℝ) {K v : ℝ} (hK : 0 < K) (hv : 0 < v) :
    StrictMonoOn (fun t => val (bsEuropeanPrice s t v K true)) (Ioi 0) := by
  refine strictMonoOn_of_deriv_pos (convex_Ioi 0) ?_ ?_
  · intro t ht
    exact (C08.european_theta s ht hv true).continuousAt.continuousWithinAt
  · intro t ht
    rw [interior_Ioi] at ht
    rw [(C08.european_theta s ht hv true).deriv]
    exact call_theta_neg s hK ht hv

/-- the call price does not decrease with the time to maturity -/
theorem call_mono_time (s : ℝ) {K v : ℝ} (hK : 0 < K) (hv : 0 < v) :
    ∀ t₁ t₂ : ℝ, 0 < t₁ → t₁ ≤ t₂ →
      val (bsEuropeanPrice s t₁ v K true) ≤ val (bsEuropeanPrice s t₂ v K true) := by
  intro t₁ t₂ h1 h12
  exact (call_strictMonoOn_time s hK hv).monotoneOn (mem_Ioi.2 h1)
    (mem_Ioi.2 (lt_of_lt_of_le h1 h12)) h12

/-- … in fact it strictly increases -/
theorem call_strictMono_time (s : ℝ) {K v : ℝ} (hK : 0 < K) (hv : 0 < v) :
    ∀ t₁ t₂ : ℝ, 0 < t₁ → t₁ < t₂ →
      val (bsEuropeanPrice s t₁ v K true) < val (bsEuropeanPrice s t₂ v K true) := by
  intro t₁ t₂ h1 h12
  exact call_strictMonoOn_time s hK hv (mem_Ioi.2 h1) (mem_Ioi.2 (h1.trans h12)) h12

/-! ### lookback call -/

/-- the model returns (no error) `price0` while the running maximum is below the strike and
`price1` from the strike upwards -/
theorem lookback_branches {K t v : ℝ} (hK : 0 < K) (ht : 0 < t) (hv : 0 < v) (s m : ℝ) :
    bsLookbackPrice s m t v K = .ok (if m < 0 then price0 s t v K else price1 s m t v K) := by
  rw [lookback_price_ok ht hv]
  by_cases hm : m < 0
  · rw [if_pos hm, if_pos ((branch_iff hK m).2 hm)]
  · rw [if_neg hm, if_neg (mt (branch_iff hK m).1 hm)]

/-- running maximum below the strike: lookback ≥ European call -/
theorem lookback_ge_european_below_strike {K t v m : ℝ} (hK : 0 < K) (ht : 0 < t) (hv : 0 < v)
    (hm : m < 0) (s : ℝ) :
    val (bsEuropeanPrice s t v K true) ≤ val (bsLookbackPrice s m t v K) := by
  rw [lookback_val_of_neg hK ht hv hm, european_price_ok ht hv, price0]
  simp only [val_ok, if_true]
  have h := mul_le_mul_of_nonneg_left (Phi_d1_le_lb s (w_pos ht hv))
    (mul_pos (Real.exp_pos s) hK).le
  linarith

/-- running maximum at or above the strike: lookback ≥ European call -/
theorem lookback_ge_european_above_strike {K t v m : ℝ} (hK : 0 < K) (ht : 0 < t) (hv : 0 < v)
    (hm : 0 ≤ m) (s : ℝ) :
    val (bsEuropeanPrice s t v K true) ≤ val (bsLookbackPrice s m t v K) := by
  rw [lookback_val_of_nonneg hK ht hv hm, european_price_ok ht hv, price1]
  simp only [val_ok, if_true]
  have hw := w_pos ht hv
  have h1 := mul_le_mul_of_nonneg_left (Phi_d1_le_lb (s - m) hw)
    (mul_pos (Real.exp_pos s) hK).le
  have h2 := call_strike_lipschitz s hK hm hw
  have e : K * Real.exp m * Real.exp (s - m) = Real.exp s * K := by
    rw [mul_assoc, ← Real.exp_add]
    have : m + (s - m) = s := by ring
    rw [this]
    ring
  rw [e] at h2
  linarith

/-- a lookback call is worth at least the European call -/
theorem lookback_ge_european {K t v : ℝ} (hK : 0 < K) (ht : 0 < t) (hv : 0 < v) (s m : ℝ) :
    val (bsEuropeanPrice s t v K true) ≤ val (bsLookbackPrice s m t v K) := by
  rcases lt_or_ge m 0 with hm | hm
  · exact lookback_ge_european_below_strike hK ht hv hm s
  · exact lookback_ge_european_above_strike hK ht hv hm s

/-- a lookback call is worth at least its already-locked-in payoff `K eᵐ − K` -/
theorem lookback_ge_locked_in {K t v m : ℝ} (hK : 0 < K) (ht : 0 < t) (hv : 0 < v) (hm : 0 ≤ m)
    (s : ℝ) : K * Real.exp m - K ≤ val (bsLookbackPrice s m t v K) := by
  rw [lookback_val_of_nonneg hK ht hv hm, price1]
  have hw := w_pos ht hv
  have hM : 0 < K * Real.exp m := mul_pos hK (Real.exp_pos m)
  have h1 := mul_le_mul_of_nonneg_left (Phi_d1_le_lb (s - m) hw)
    (mul_pos (Real.exp_pos s) hK).le
  have h2 := call_closed_nonneg (s - m) hM hw
  have e : K * Real.exp m * Real.exp (s - m) = Real.exp s * K := by
    rw [mul_assoc, ← Real.exp_add]
    have : m + (s - m) = s := by ring
    rw [this]
    ring
  rw [e] at h2
  linarith

/-- … for every running maximum: lookback ≥ max(K eᵐ − K, 0) -/
theorem lookback_ge_locked_in_max {K t v : ℝ} (hK : 0 < K) (ht : 0 < t) (hv : 0 < v) (s m : ℝ) :
    max (K * Real.exp m - K) 0 ≤ val (bsLookbackPrice s m t v K) := by
  have h0 : 0 ≤ val (bsLookbackPrice s m t v K) :=
    le_trans (le_trans (le_max_right _ _) (call_ge_intrinsic s hK ht hv))
      (lookback_ge_european hK ht hv s m)
  refine max_le ?_ h0
  rcases lt_or_ge m 0 with hm | hm
  · have : Real.exp m < 1 := Real.exp_lt_one_iff.2 hm
    nlinarith
  · exact lookback_ge_locked_in hK ht hv hm s

/-- where the running maximum equals the strike (`m = 0`) the two branch formulas coincide … -/
theorem lookback_continuous_at_strike (s t v K : ℝ) : price0 s t v K = price1 s 0 t v K :=
  price0_eq_price1_zero s t v K

/-- … hence the quoted lookback price is a continuous function of the running maximum, in
particular where it crosses the strike -/
theorem lookback_continuous_in_max {K t v : ℝ} (hK : 0 < K) (ht : 0 < t) (hv : 0 < v) (s : ℝ) :
    Continuous fun m => val (bsLookbackPrice s m t v K) := by
  have e : (fun m => val (bsLookbackPrice s m t v K))
      = fun m => if m < 0 then price0 s t v K else price1 s m t v K := by
    funext m
    rw [lookback_branches hK ht hv, val_ok]
  rw [e]
  refine Continuous.if ?_ continuous_const (price1_continuous s t v K)
  intro m hm
  have : m = 0 := by
    have hfr : frontier {x : ℝ | x < 0} = {0} := frontier_Iio
    rw [hfr] at hm
    exact hm
  rw [this]
  exact price0_eq_price1_zero s t v K

/-! ### non-vacuity -/

/-- at the money, `t = v = K = 1`: the model returns `.ok`, and all the bounds are strict and
non-trivial: `0 < call = Φ(1/2) − Φ(−1/2) < 1 = spot`, the lookback is strictly dearer than the
call, and the American binary `2 Φ(−1/2) … ` sits strictly between the European binary and one
when the maximum is still below the barrier -/
example :
    bsEuropeanPrice (0 : ℝ) 1 1 1 true = .ok (Phi (1 / 2) - Phi (-(1 / 2))) ∧
    0 < val (bsEuropeanPrice (0 : ℝ) 1 1 1 true) ∧
    val (bsEuropeanPrice (0 : ℝ) 1 1 1 true) < 1 ∧
    val (bsEuropeanPrice (0 : ℝ) 1 1 1 true) < val (bsLookbackPrice (0 : ℝ) 0 1 1 1) := by
  have hc : bsEuropeanPrice (0 : ℝ) 1 1 1 true = .ok (Phi (1 / 2) - Phi (-(1 / 2))) := by
    rw [european_price_ok one_pos one_pos]
    simp [d1, d2]
  have h12 : Phi (-(1 / 2)) < Phi (1 / 2) := Phi_strictMono (by norm_num)
  have hlo := (Phi_mem_Ioo (-(1 / 2))).1
  have hhi := (Phi_mem_Ioo (1 / 2)).2
  refine ⟨hc, ?_, ?_, ?_⟩
  · rw [hc, val_ok]; linarith
  · rw [hc, val_ok]; linarith
  · rw [hc, val_ok, lookback_val_of_nonneg one_pos one_pos one_pos le_rfl, price1]
    have hm := mills_pos (d1 (0 - 0) (1 * Real.sqrt 1))
    have e1 : d1 (0 - 0) (1 * Real.sqrt 1) = 1 / 2 := by simp [d1]
    have e2 : d2 (0 - 0) (1 * Real.sqrt 1) = -(1 / 2) := by simp [d2]
    rw [lb_eq _ (by simp : (1 : ℝ) * Real.sqrt 1 ≠ 0), e1, e2]
    rw [e1] at hm
    simp only [Real.exp_zero, Real.sqrt_one, mul_one, one_mul]
    linarith

/-- a spot below the barrier with the maximum also below it: the American binary is strictly
between the European binary and one -/
example :
    val (bsBinaryPrice (-1 : ℝ) 1 1 true) < val (bsAmericanBinaryPrice (-1 : ℝ) (-1) 1 1) ∧
    val (bsAmericanBinaryPrice (-1 : ℝ) (-1) 1 1) < 1 := by
  have hm : (-1 : ℝ) < 0 := by norm_num
  rw [binary_price_ok one_pos one_pos, american_price_ok one_pos one_pos]
  simp only [val_ok, hm, if_true]
  constructor
  · have := mul_pos (Real.exp_pos (-1)) (Phi_mem_Ioo (d1 (-1) (1 * Real.sqrt 1))).1
    linarith
  · exact american_lt_one hm (w_pos one_pos one_pos)

end PfVerif.C09
