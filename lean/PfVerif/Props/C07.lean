/-
  C07 — The quoted Black–Scholes price of European and European-binary options (calls and puts)
  equals the zero-rate risk-neutral expectation of the payoff under geometric Brownian motion.
  Model: Model/BS.lean at ℝ (`bsD1`, `bsD2`, `bsEuropeanPrice`, `bsBinaryPrice`).

  Under the zero-rate risk-neutral measure the terminal price is
      S_T = S · exp(w Z − w²/2),   Z ~ N(0,1),   w = v √t,   S = K e^s
  (s = log-moneyness, K = strike, v = volatility, t = time to maturity), so the expectation of a
  payoff `h(S_T)` is the Lebesgue (Bochner) integral `∫ z, h (K * exp (s + w z − w²/2)) * phi z`
  against the standard normal density `phi`.  The payoffs are those of C12: `max (S_T − K) 0`,
  `max (K − S_T) 0`, and the indicators `K ≤ S_T` (binary call), `S_T ≤ K` (binary put) with the
  code's tie convention (both non-strict; the tie `S_T = K` is a Lebesgue-null event).

  NOT proved here: the American-binary (`bsAmericanBinaryPrice`) and lookback (`bsLookbackPrice`)
  prices as expectations.  Those payoffs depend on the running maximum of the path; their
  expectations require the joint law of Brownian motion with drift and its running maximum
  (reflection principle), and continuous-time Brownian motion itself, none of which is available in
  Mathlib.  Nothing in this file makes any claim about those two formulas.
-/
import PfVerif.Model.BS
import PfVerif.Lemmas.GaussInt

namespace PfVerif.C07Aux
open PfVerif Real MeasureTheory Set

/-- the value of a successful model call (`0` on a raised error; the `_ok` lemmas below show that
no error is raised under the guards of every theorem in which `val` appears) -/
noncomputable def val : Except Err ℝ → ℝ
  | .ok x => x
  | .error _ => 0

@[simp] theorem val_ok (x : ℝ) : val (.ok x) = x := rfl

/-! ### closed forms returned by the model for `t, v > 0` -/

theorem w_pos {t v : ℝ} (ht : 0 < t) (hv : 0 < v) : 0 < v * Real.sqrt t :=
  mul_pos hv (Real.sqrt_pos.2 ht)

theorem bsD1_ok (s t v : ℝ) (ht : 0 < t) (hv : 0 < v) :
    bsD1 s t v = .ok (s / (v * Real.sqrt t) + v * Real.sqrt t / 2) := by
  have hw := w_pos ht hv
  simp [bsD1, bsValidate, isZero, ht.le, hv.le, Transc.sqrt, not_le.2 hw, bind, Except.bind,
    pure, Except.pure]

theorem bsD2_ok (s t v : ℝ) (ht : 0 < t) (hv : 0 < v) :
    bsD2 s t v = .ok (s / (v * Real.sqrt t) - v * Real.sqrt t / 2) := by
  have hw := w_pos ht hv
  simp [bsD2, bsValidate, isZero, ht.le, hv.le, Transc.sqrt, not_le.2 hw, bind, Except.bind,
    pure, Except.pure]

/-! ### the exercise region in terms of the standard normal variable -/

theorem expo_eq (s z : ℝ) {w : ℝ} (hw : 0 < w) :
    s + w * z - w ^ 2 / 2 = w * (z + (s / w - w / 2)) := by
  have : w ≠ 0 := hw.ne'
  field_simp
  ring

theorem one_lt_iff (s z : ℝ) {w : ℝ} (hw : 0 < w) :
    0 < s + w * z - w ^ 2 / 2 ↔ -(s / w - w / 2) < z := by
  rw [expo_eq s z hw, mul_pos_iff_of_pos_left hw]
  constructor <;> intro h <;> linarith

theorem one_le_iff (s z : ℝ) {w : ℝ} (hw : 0 < w) :
    0 ≤ s + w * z - w ^ 2 / 2 ↔ -(s / w - w / 2) ≤ z := by
  rw [← not_lt, ← not_lt, not_iff_not, expo_eq s z hw]
  constructor
  · intro h
    by_contra hc
    have : 0 ≤ w * (z + (s / w - w / 2)) := mul_nonneg hw.le (by linarith)
    linarith
  · intro h
    exact mul_neg_of_pos_of_neg hw (by linarith)

/-- in the money (call, non-strict): `K ≤ S_T ↔ Z ≥ −d2` -/
theorem strike_le_iff (s z : ℝ) {K w : ℝ} (hK : 0 < K) (hw : 0 < w) :
    K ≤ K * Real.exp (s + w * z - w ^ 2 / 2) ↔ -(s / w - w / 2) ≤ z := by
  rw [le_mul_iff_one_le_right hK, Real.one_le_exp_iff, one_le_iff s z hw]

/-- in the money (call, strict): `K < S_T ↔ Z > −d2` -/
theorem strike_lt_iff (s z : ℝ) {K w : ℝ} (hK : 0 < K) (hw : 0 < w) :
    K < K * Real.exp (s + w * z - w ^ 2 / 2) ↔ -(s / w - w / 2) < z := by
  rw [lt_mul_iff_one_lt_right hK, Real.one_lt_exp_iff, one_lt_iff s z hw]

/-- in the money (put, non-strict): `S_T ≤ K ↔ Z ≤ −d2` -/
theorem le_strike_iff (s z : ℝ) {K w : ℝ} (hK : 0 < K) (hw : 0 < w) :
    K * Real.exp (s + w * z - w ^ 2 / 2) ≤ K ↔ z ≤ -(s / w - w / 2) := by
  rw [← not_lt, ← not_lt, not_iff_not]
  exact strike_lt_iff s z hK hw

/-- `S_T φ(z) = S · e^{wz − w²/2} φ(z)` -/
theorem terminal_mul_phi (K s w z : ℝ) :
    K * Real.exp (s + w * z - w ^ 2 / 2) * phi z
      = K * Real.exp s * (Real.exp (w * z - w ^ 2 / 2) * phi z) := by
  have : s + w * z - w ^ 2 / 2 = s + (w * z - w ^ 2 / 2) := by ring
  rw [this, Real.exp_add]; ring

theorem terminal_integrable (K s w : ℝ) :
    Integrable fun z => K * Real.exp (s + w * z - w ^ 2 / 2) * phi z := by
  simp_rw [terminal_mul_phi]
  exact (exp_shift_integrable w).const_mul _

/-- `E[S_T] = S` for every real `w` -/
theorem terminal_integral (K s w : ℝ) :
    ∫ z, K * Real.exp (s + w * z - w ^ 2 / 2) * phi z = K * Real.exp s := by
  simp_rw [terminal_mul_phi]
  rw [integral_const_mul, integral_exp_shift, mul_one]

/-! ### the four expectations for a general total volatility `w > 0` -/

theorem binary_call_integral (s : ℝ) {K w : ℝ} (hK : 0 < K) (hw : 0 < w) :
    ∫ z, (if K ≤ K * Real.exp (s + w * z - w ^ 2 / 2) then (1 : ℝ) else 0) * phi z
      = Phi (s / w - w / 2) := by
  have e : (fun z => (if K ≤ K * Real.exp (s + w * z - w ^ 2 / 2) then (1 : ℝ) else 0) * phi z)
      = (Ici (-(s / w - w / 2))).indicator phi := by
    funext z
    by_cases h : -(s / w - w / 2) ≤ z
    · rw [if_pos ((strike_le_iff s z hK hw).2 h), indicator_of_mem (show z ∈ Ici _ from h), one_mul]
    · rw [if_neg (mt (strike_le_iff s z hK hw).1 h),
        indicator_of_notMem (show z ∉ Ici _ from h), zero_mul]
  rw [e, integral_indicator measurableSet_Ici, integral_Ici_eq_integral_Ioi, integral_phi_Ioi,
    Phi_neg]
  ring

theorem binary_put_integral (s : ℝ) {K w : ℝ} (hK : 0 < K) (hw : 0 < w) :
    ∫ z, (if K * Real.exp (s + w * z - w ^ 2 / 2) ≤ K then (1 : ℝ) else 0) * phi z
      = 1 - Phi (s / w - w / 2) := by
  have e : (fun z => (if K * Real.exp (s + w * z - w ^ 2 / 2) ≤ K then (1 : ℝ) else 0) * phi z)
      = (Iic (-(s / w - w / 2))).indicator phi := by
    funext z
    by_cases h : z ≤ -(s / w - w / 2)
    · rw [if_pos ((le_strike_iff s z hK hw).2 h), indicator_of_mem (show z ∈ Iic _ from h), one_mul]
    · rw [if_neg (mt (le_strike_iff s z hK hw).1 h),
        indicator_of_notMem (show z ∉ Iic _ from h), zero_mul]
  rw [e, integral_indicator measurableSet_Iic, integral_phi_Iic, Phi_neg]

/-- the call payoff times the density, as an indicator of the exercise region -/
theorem call_integrand_eq (s : ℝ) {K w : ℝ} (hK : 0 < K) (hw : 0 < w) :
    (fun z => max (K * Real.exp (s + w * z - w ^ 2 / 2) - K) 0 * phi z)
      = (Ioi (-(s / w - w / 2))).indicator
          (fun z => K * Real.exp s * (Real.exp (w * z - w ^ 2 / 2) * phi z) - K * phi z) := by
  funext z
  by_cases h : -(s / w - w / 2) < z
  · have h1 := (strike_lt_iff s z hK hw).2 h
    rw [indicator_of_mem (show z ∈ Ioi _ from h), max_eq_left (by linarith), sub_mul,
      terminal_mul_phi]
  · have h1 : K * Real.exp (s + w * z - w ^ 2 / 2) ≤ K := (le_strike_iff s z hK hw).2 (not_lt.1 h)
    rw [indicator_of_notMem (show z ∉ Ioi _ from h), max_eq_right (by linarith), zero_mul]

theorem call_integrand_integrable (s : ℝ) {K w : ℝ} (hK : 0 < K) (hw : 0 < w) :
    Integrable fun z => max (K * Real.exp (s + w * z - w ^ 2 / 2) - K) 0 * phi z := by
  rw [call_integrand_eq s hK hw]
  exact (((exp_shift_integrable w).const_mul _).sub (phi_integrable.const_mul _)).indicator
    measurableSet_Ioi

theorem call_integral (s : ℝ) {K w : ℝ} (hK : 0 < K) (hw : 0 < w) :
    ∫ z, max (K * Real.exp (s + w * z - w ^ 2 / 2) - K) 0 * phi z
      = K * Real.exp s * Phi (s / w + w / 2) - K * Phi (s / w - w / 2) := by
  rw [call_integrand_eq s hK hw, integral_indicator measurableSet_Ioi,
    integral_sub ((exp_shift_integrable w).const_mul _).integrableOn
      (phi_integrable.const_mul _).integrableOn,
    integral_const_mul, integral_const_mul, integral_exp_shift_Ioi, integral_phi_Ioi]
  have e : -(s / w - w / 2) - w = -(s / w + w / 2) := by ring
  rw [e, Phi_neg, Phi_neg]
  ring

theorem put_integral (s : ℝ) {K w : ℝ} (hK : 0 < K) (hw : 0 < w) :
    ∫ z, max (K - K * Real.exp (s + w * z - w ^ 2 / 2)) 0 * phi z
      = K * Real.exp s * Phi (s / w + w / 2) - K * Phi (s / w - w / 2) + K * (1 - Real.exp s) := by
  have e : (fun z => max (K - K * Real.exp (s + w * z - w ^ 2 / 2)) 0 * phi z)
      = fun z => max (K * Real.exp (s + w * z - w ^ 2 / 2) - K) 0 * phi z
          - (K * Real.exp (s + w * z - w ^ 2 / 2) * phi z - K * phi z) := by
    funext z
    rcases le_total (K * Real.exp (s + w * z - w ^ 2 / 2)) K with h | h
    · rw [max_eq_left (by linarith), max_eq_right (by linarith)]; ring
    · rw [max_eq_right (by linarith), max_eq_left (by linarith)]; ring
  have I : Integrable fun z => K * Real.exp (s + w * z - w ^ 2 / 2) * phi z - K * phi z :=
    (terminal_integrable K s w).sub (phi_integrable.const_mul K)
  rw [e, integral_sub (call_integrand_integrable s hK hw) I,
    integral_sub (terminal_integrable K s w) (phi_integrable.const_mul K),
    call_integral s hK hw, terminal_integral, integral_const_mul, integral_phi]
  ring

end PfVerif.C07Aux

namespace PfVerif.C07
open PfVerif PfVerif.C07Aux Real MeasureTheory

/-! ### the model returns the textbook closed forms (no error) for `t, v > 0` -/

/-- European price: `K e^s Φ(d1) − K Φ(d2)` for the call, plus `K (1 − e^s)` for the put -/
theorem european_price_ok (s t v K : ℝ) (call : Bool) (ht : 0 < t) (hv : 0 < v) :
    bsEuropeanPrice s t v K call
      = .ok (if call then
          Real.exp s * K * Phi (s / (v * Real.sqrt t) + v * Real.sqrt t / 2)
            - K * Phi (s / (v * Real.sqrt t) - v * Real.sqrt t / 2)
        else
          Real.exp s * K * Phi (s / (v * Real.sqrt t) + v * Real.sqrt t / 2)
            - K * Phi (s / (v * Real.sqrt t) - v * Real.sqrt t / 2) + K * (1 - Real.exp s)) := by
  simp only [bsEuropeanPrice, bsD1_ok s t v ht hv, bsD2_ok s t v ht hv, bind, Except.bind, pure,
    Except.pure, Transc.exp, Transc.ncdf]

/-- binary price: `Φ(d2)` for the call, `1 − Φ(d2)` for the put -/
theorem binary_price_ok (s t v : ℝ) (call : Bool) (ht : 0 < t) (hv : 0 < v) :
    bsBinaryPrice s t v call
      = .ok (if call then Phi (s / (v * Real.sqrt t) - v * Real.sqrt t / 2)
             else 1 - Phi (s / (v * Real.sqrt t) - v * Real.sqrt t / 2)) := by
  simp only [bsBinaryPrice, bsD2_ok s t v ht hv, bind, Except.bind, pure, Except.pure,
    Transc.ncdf]

/-! ### price = risk-neutral expectation of the payoff -/

/-- the model's terminal price has mean `S = K e^s` (zero rate: the price is a martingale) -/
theorem martingale (s K t v : ℝ) :
    ∫ z, K * Real.exp (s + v * Real.sqrt t * z - (v * Real.sqrt t) ^ 2 / 2) * phi z
      = K * Real.exp s :=
  terminal_integral K s (v * Real.sqrt t)

/-- European binary call: `E[1{K ≤ S_T}] = Φ(d2)` is the quoted price -/
theorem binary_call_eq_expectation (s K t v : ℝ) (hK : 0 < K) (ht : 0 < t) (hv : 0 < v) :
    ∫ z, (if K ≤ K * Real.exp (s + v * Real.sqrt t * z - (v * Real.sqrt t) ^ 2 / 2)
            then (1 : ℝ) else 0) * phi z
      = val (bsBinaryPrice s t v true) := by
  rw [binary_price_ok s t v true ht hv, binary_call_integral s hK (w_pos ht hv)]
  rfl

/-- European binary put: `E[1{S_T ≤ K}] = 1 − Φ(d2)` is the quoted price -/
theorem binary_put_eq_expectation (s K t v : ℝ) (hK : 0 < K) (ht : 0 < t) (hv : 0 < v) :
    ∫ z, (if K * Real.exp (s + v * Real.sqrt t * z - (v * Real.sqrt t) ^ 2 / 2) ≤ K
            then (1 : ℝ) else 0) * phi z
      = val (bsBinaryPrice s t v false) := by
  rw [binary_price_ok s t v false ht hv, binary_put_integral s hK (w_pos ht hv)]
  rfl

/-- European call: `E[max(S_T − K, 0)] = K e^s Φ(d1) − K Φ(d2)` is the quoted price -/
theorem european_call_eq_expectation (s K t v : ℝ) (hK : 0 < K) (ht : 0 < t) (hv : 0 < v) :
    ∫ z, max (K * Real.exp (s + v * Real.sqrt t * z - (v * Real.sqrt t) ^ 2 / 2) - K) 0 * phi z
      = val (bsEuropeanPrice s t v K true) := by
  rw [european_price_ok s t v K true ht hv, call_integral s hK (w_pos ht hv)]
  simp only [val_ok, if_true]
  ring

/-- European put: `E[max(K − S_T, 0)]` is the quoted price -/
theorem european_put_eq_expectation (s K t v : ℝ) (hK : 0 < K) (ht : 0 < t) (hv : 0 < v) :
    ∫ z, max (K - K * Real.exp (s + v * Real.sqrt t * z - (v * Real.sqrt t) ^ 2 / 2)) 0 * phi z
      = val (bsEuropeanPrice s t v K false) := by
  rw [european_price_ok s t v K false ht hv, put_integral s hK (w_pos ht hv)]
  simp only [val_ok, Bool.false_eq_true, if_false]
  ring

/-! ### parities -/

/-- call − put = S − K -/
theorem put_call_parity (s K t v : ℝ) (ht : 0 < t) (hv : 0 < v) :
    val (bsEuropeanPrice s t v K true) - val (bsEuropeanPrice s t v K false)
      = K * Real.exp s - K := by
  rw [european_price_ok s t v K true ht hv, european_price_ok s t v K false ht hv]
  simp only [val_ok, if_true, Bool.false_eq_true, if_false]
  ring

/-- binary call + binary put = 1 (the tie `S_T = K` has probability zero) -/
theorem binary_parity (s t v : ℝ) (ht : 0 < t) (hv : 0 < v) :
    val (bsBinaryPrice s t v true) + val (bsBinaryPrice s t v false) = 1 := by
  rw [binary_price_ok s t v true ht hv, binary_price_ok s t v false ht hv]
  simp only [val_ok, if_true, Bool.false_eq_true, if_false]
  ring

/-- non-vacuity at the money, `t = v = K = 1`: the model returns `.ok`, the binary call is quoted
at `Φ(−1/2) ∈ (0, 1/2)`, it is the expectation of the indicator payoff, and the European call is
worth strictly more than zero -/
example :
    bsBinaryPrice (0 : ℝ) 1 1 true = .ok (Phi (-(1 / 2))) ∧
    (∫ z, (if (1 : ℝ) ≤ 1 * Real.exp (0 + 1 * Real.sqrt 1 * z - (1 * Real.sqrt 1) ^ 2 / 2)
            then (1 : ℝ) else 0) * phi z) = Phi (-(1 / 2)) ∧
    0 < Phi (-(1 / 2)) ∧ Phi (-(1 / 2)) < 1 / 2 ∧
    0 < val (bsEuropeanPrice (0 : ℝ) 1 1 1 true) := by
  have hb : bsBinaryPrice (0 : ℝ) 1 1 true = .ok (Phi (-(1 / 2))) := by
    rw [binary_price_ok 0 1 1 true one_pos one_pos]; norm_num
  refine ⟨hb, ?_, (Phi_mem_Ioo _).1, ?_, ?_⟩
  · rw [binary_call_eq_expectation 0 1 1 1 one_pos one_pos one_pos, hb]; rfl
  · calc Phi (-(1 / 2)) < Phi 0 := Phi_strictMono (by norm_num)
      _ = 1 / 2 := Phi_zero
  · rw [european_price_ok 0 1 1 1 true one_pos one_pos]
    have h : Phi (-(1 / 2)) < Phi (1 / 2) := Phi_strictMono (by norm_num)
    simp only [val_ok, if_true, Real.sqrt_one]
    have e1 : (0 : ℝ) / (1 * 1) + 1 * 1 / 2 = 1 / 2 := by norm_num
    have e2 : (0 : ℝ) / (1 * 1) - 1 * 1 / 2 = -(1 / 2) := by norm_num
    rw [e1, e2, Real.exp_zero]
    linarith

end PfVerif.C07
