/-
  C10 — With the random normals supplied by the caller, Brownian and geometric Brownian paths equal
  the exact solution of their SDE step by step (and the jump models reduce to it when the jump
  intensity is zero).  In distribution, every price process has mean S0·exp(mu·t), log-variance
  sigma²·t for geometric Brownian motion, Vasicek rates have the closed-form mean-reverting mean and
  variance around theta from any starting value, and local-volatility paths are martingales.

  Model: Model/Stoch.lean at ℝ (`brownian`, `geometricBrownian`, `vasicek`, `mertonJump`, `kouJump`,
  `localVol`): one path as a function of the parameters and of the random draws.

  Formulation.
  * Pathwise: a path "equals the exact solution step by step" when it is the `List.scanl` of the
    exact one-step transition over the draws it consumes (`*_scan`); the index form (`*_step`) says
    that entries `i`, `i+1` exist and are related by the transition with draw `z[i]` (resp.
    `z[i+1]` for the Brownian generators, which discard the first draw `randn[:, 0] = 0`).
  * In distribution: the law of the draws is outside the model (trusted base: independent
    standard normals / Poisson counts / exponentials).  An expectation over one standard normal
    draw is the Lebesgue integral against the density `phi` (as in C07).  The expectation of
    `g (X_k)` for the Markov chain `X_{j+1} = step X_j Z_{j+1}` with i.i.d. standard normal draws,
    started at `x`, is the `k`-fold iterated integral `iterE step k g x` (`C10Aux.iterE`; tower
    property written out:  `iterE step 2 g x = ∫ z₁, (∫ z₂, g (step (step x z₁) z₂) φ(z₂)) φ(z₁)`).

  Lengths and positivity of the generated paths are C11.
-/
import PfVerif.Model.Stoch
import PfVerif.Lemmas.GaussMoments
import Mathlib.Algebra.BigOperators.Group.List.Basic
import Mathlib.Algebra.Field.GeomSum
import Mathlib.Analysis.SpecialFunctions.ImproperIntegrals
import Mathlib.Analysis.SpecialFunctions.Exponential

namespace PfVerif.C10Aux
open PfVerif Real MeasureTheory Set

/-! ### list plumbing: everything is a `map` over `List.range` -/

theorem arangeL_eq (n : ℕ) : (arangeL n : List ℝ) = (List.range n).map (fun (i : ℕ) => (i : ℝ)) := rfl

theorem zipWith_map_same {ι β γ δ : Type} (F : β → γ → δ) (g : ι → β) (h : ι → γ) (l : List ι) :
    List.zipWith F (l.map g) (l.map h) = l.map (fun a => F (g a) (h a)) := by
  rw [List.zipWith_map, List.zipWith_self]

theorem cumsumL_go_eq (acc : ℝ) (ys : List ℝ) :
    cumsumL.go acc ys = (List.range ys.length).map (fun i => acc + (ys.take (i + 1)).sum) := by
  induction ys generalizing acc with
  | nil => simp [cumsumL.go]
  | cons y ys ih =>
    simp only [cumsumL.go, ih, List.length_cons, List.range_succ_eq_map, List.map_cons,
      List.map_map, List.take_succ_cons, List.sum_cons, List.take_zero, List.sum_nil]
    refine congrArg₂ _ (by ring) (List.map_congr_left fun i _ => ?_)
    simp only [Function.comp, Nat.succ_eq_add_one]
    ring

/-- `cumsum`: entry `i` is the sum of the first `i + 1` entries -/
theorem cumsumL_eq (l : List ℝ) :
    cumsumL l = (List.range l.length).map (fun i => (l.take (i + 1)).sum) := by
  cases l with
  | nil => rfl
  | cons x xs =>
    simp only [cumsumL, cumsumL_go_eq, List.length_cons, List.range_succ_eq_map, List.map_cons,
      List.map_map, List.take_succ_cons, List.sum_cons, List.take_zero, List.sum_nil]
    refine congrArg₂ _ (by ring) (List.map_congr_left fun i _ => ?_)
    simp only [Function.comp, Nat.succ_eq_add_one]

/-- `cumsum` of the draws with the first one zeroed: entry `i` is the sum of draws `1..i` -/
theorem cumsumL_zeroFirst (z0 : ℝ) (zs : List ℝ) :
    cumsumL (zeroFirst (z0 :: zs)) = (List.range (zs.length + 1)).map (fun i => (zs.take i).sum) := by
  simp only [zeroFirst, cumsumL_eq, List.length_cons, List.take_succ_cons, List.sum_cons, zero_add]

/-- a sequence that satisfies the recursion is the scan -/
theorem scanl_eq_map_range {β : Type} (f : ℝ → β → ℝ) (ds : List β) (g : ℕ → ℝ)
    (x : ℝ) (hx : g 0 = x)
    (hstep : ∀ i (h : i < ds.length), g (i + 1) = f (g i) ds[i]) :
    List.scanl f x ds = (List.range (ds.length + 1)).map g := by
  subst hx
  induction ds generalizing g with
  | nil => simp
  | cons d ds ih =>
    have h0 : f (g 0) d = g 1 := (hstep 0 (by simp)).symm
    have := ih (fun i => g (i + 1)) (fun i h => by
      have := hstep (i + 1) (by simpa using h)
      simpa using this)
    rw [List.scanl_cons, h0, this, List.length_cons, List.range_succ_eq_map (n := ds.length + 1),
      List.map_cons, List.map_map]
    rfl

/-- index form of a scan: entries `i` and `i+1` exist and are related by one transition -/
theorem scanl_step {β : Type} (f : ℝ → β → ℝ) (x : ℝ) (ds : List β) (i : ℕ) (h : i < ds.length) :
    ∃ a, (List.scanl f x ds)[i]? = some a ∧ (List.scanl f x ds)[i + 1]? = some (f a ds[i]) := by
  have h1 : i + 1 < (List.scanl f x ds).length := by simp [h]
  have h0 : i < (List.scanl f x ds).length := by omega
  refine ⟨(List.scanl f x ds)[i], List.getElem?_eq_getElem h0, ?_⟩
  rw [List.getElem?_eq_getElem h1, List.getElem_succ_scanl]


/-! ### closed forms of the Brownian generators -/

/-- Brownian path, closed form: `B_i = init + mu·dt·i + sigma·√dt·(z₁ + … + z_i)`
(the first draw is discarded by the code: `randn[:, 0] = 0`) -/
theorem brownian_closed (init sigma mu dt z0 : ℝ) (zs : List ℝ) :
    brownian init sigma mu dt (z0 :: zs)
      = (List.range (zs.length + 1)).map
          (fun (i : ℕ) => init + mu * dt * i + sigma * Real.sqrt dt * (zs.take i).sum) := by
  unfold brownian
  simp only [List.length_cons, arangeL_eq, cumsumL_zeroFirst, zipWith_map_same, Transc.sqrt]
  refine List.map_congr_left fun i _ => ?_
  ring

/-- geometric Brownian path, closed form:
`S_i = init · exp((mu − sigma²/2)·dt·i + sigma·√dt·(z₁ + … + z_i))` -/
theorem gbm_closed (init sigma mu dt z0 : ℝ) (zs : List ℝ) :
    geometricBrownian init sigma mu dt (z0 :: zs)
      = (List.range (zs.length + 1)).map
          (fun (i : ℕ) => init * Real.exp ((mu - sigma ^ 2 / 2) * dt * i
              + sigma * Real.sqrt dt * (zs.take i).sum)) := by
  unfold geometricBrownian
  simp only [brownian_closed, List.length_cons, arangeL_eq, zipWith_map_same, Transc.exp]
  refine List.map_congr_left fun i _ => ?_
  congr 2
  ring

/-! ### Vasicek, local volatility, jump models -/

theorem initL_eq_dropLast {β : Type} (l : List β) : initL l = l.dropLast := by
  induction l with
  | nil => rfl
  | cons x xs ih =>
    cases xs with
    | nil => rfl
    | cons y ys => simp only [initL, ih, List.dropLast_cons_cons]

theorem vasicek_go_eq (theta m v x : ℝ) (zs : List ℝ) :
    x :: vasicek.go theta m v x zs
      = List.scanl (fun x zi => theta + m * (x - theta) + v * zi) x zs := by
  induction zs generalizing x with
  | nil => simp [vasicek.go]
  | cons z zs ih => simp only [vasicek.go, List.scanl_cons]; rw [ih]

theorem localVol_go_fst_cons (sigmaFn : ℝ → ℝ → ℝ) (dt : ℝ) (i : ℕ) (s zi : ℝ) (rest : List ℝ) :
    (localVol.go sigmaFn dt i s (zi :: rest)).1
      = s :: (localVol.go sigmaFn dt (i + 1)
          (s * (1 + sigmaFn (dt * (i : ℝ)) s * (zi * Real.sqrt dt))) rest).1 := by
  cases rest with
  | nil => simp [localVol.go]
  | cons z2 rest => simp [localVol.go, Transc.sqrt]

theorem localVol_go_snd_cons (sigmaFn : ℝ → ℝ → ℝ) (dt : ℝ) (i : ℕ) (s zi : ℝ) (rest : List ℝ) :
    (localVol.go sigmaFn dt i s (zi :: rest)).2
      = sigmaFn (dt * (i : ℝ)) s :: (localVol.go sigmaFn dt (i + 1)
          (s * (1 + sigmaFn (dt * (i : ℝ)) s * (zi * Real.sqrt dt))) rest).2 := by
  cases rest with
  | nil => simp [localVol.go]
  | cons z2 rest => simp [localVol.go, Transc.sqrt]

theorem localVol_go_step (sigmaFn : ℝ → ℝ → ℝ) (dt : ℝ) :
    ∀ (zs : List ℝ) (i : ℕ) (s : ℝ) (k : ℕ) (h : k + 1 < zs.length),
      ∃ a, (localVol.go sigmaFn dt i s zs).1[k]? = some a ∧
        (localVol.go sigmaFn dt i s zs).1[k + 1]?
          = some (a * (1 + sigmaFn (dt * ((i + k : ℕ) : ℝ)) a * (zs[k] * Real.sqrt dt))) := by
  intro zs
  induction zs with
  | nil => intro i s k h; simp at h
  | cons zi rest ih =>
    intro i s k h
    rw [localVol_go_fst_cons]
    cases k with
    | zero =>
      cases rest with
      | nil => simp at h
      | cons z2 rest' =>
        refine ⟨s, by simp, ?_⟩
        rw [localVol_go_fst_cons]
        simp
    | succ k =>
      have h' : k + 1 < rest.length := by simpa using h
      obtain ⟨a, h1, h2⟩ := ih (i + 1) _ k h'
      refine ⟨a, by simpa using h1, ?_⟩
      have e : i + 1 + k = i + (k + 1) := by omega
      simpa [e] using h2

theorem localVol_go_vol (sigmaFn : ℝ → ℝ → ℝ) (dt : ℝ) :
    ∀ (zs : List ℝ) (i : ℕ) (s : ℝ) (k : ℕ) (_ : k < zs.length),
      ∃ a, (localVol.go sigmaFn dt i s zs).1[k]? = some a ∧
        (localVol.go sigmaFn dt i s zs).2[k]? = some (sigmaFn (dt * ((i + k : ℕ) : ℝ)) a) := by
  intro zs
  induction zs with
  | nil => intro i s k h; simp at h
  | cons zi rest ih =>
    intro i s k h
    rw [localVol_go_fst_cons, localVol_go_snd_cons]
    cases k with
    | zero => exact ⟨s, by simp, by simp⟩
    | succ k =>
      have h' : k < rest.length := by simpa using h
      obtain ⟨a, h1, h2⟩ := ih (i + 1) _ k h'
      refine ⟨a, by simpa using h1, ?_⟩
      have e : i + 1 + k = i + (k + 1) := by omega
      simpa [e] using h2

theorem zipWith_replicate_zero (jm js : ℝ) : ∀ (k : ℕ) (zj : List ℝ), k ≤ zj.length →
    List.zipWith (fun c zz => jm * c + zz * js * Real.sqrt c) (List.replicate k (0 : ℝ)) zj
      = List.replicate k 0 := by
  intro k
  induction k with
  | zero => intro zj _; simp
  | succ k ih =>
    intro zj h
    cases zj with
    | nil => simp at h
    | cons y ys =>
      have h' : k ≤ ys.length := by simpa using h
      simp [List.replicate_succ, ih ys h']

theorem cumsumL_replicate_zero (n : ℕ) :
    cumsumL (List.replicate n (0 : ℝ)) = (List.range n).map (fun _ => (0 : ℝ)) := by
  rw [cumsumL_eq]
  simp [List.take_replicate]

theorem cumprodL_go_replicate_one (k : ℕ) :
    cumprodL.go (1 : ℝ) (List.replicate k 1) = List.replicate k 1 := by
  induction k with
  | zero => rfl
  | succ k ih => simp [List.replicate_succ, cumprodL.go, ih]

theorem cumprodL_replicate_one (n : ℕ) :
    cumprodL (List.replicate n (1 : ℝ)) = (List.range n).map (fun _ => (1 : ℝ)) := by
  cases n with
  | zero => rfl
  | succ n =>
    rw [List.replicate_succ, cumprodL, cumprodL_go_replicate_one, ← List.replicate_succ]
    simp

/-! ### expectations: iterated integrals against the normal density -/

/-- `iterE step k g x` = expectation of `g (X_k)` for the chain `X_0 = x`, `X_{j+1} = step X_j Z_{j+1}`
driven by independent standard normal draws: the `k`-fold iterated integral (tower property) -/
noncomputable def iterE (step : ℝ → ℝ → ℝ) : ℕ → (ℝ → ℝ) → ℝ → ℝ
  | 0, g, x => g x
  | k + 1, g, x => ∫ z, iterE step k g (step x z) * phi z

/-- time-inhomogeneous version: the transition at the `j`-th step (counted from `i`) is `step (i+j)` -/
noncomputable def iterEt (step : ℕ → ℝ → ℝ → ℝ) : ℕ → ℕ → (ℝ → ℝ) → ℝ → ℝ
  | _, 0, g, x => g x
  | i, k + 1, g, x => ∫ z, iterEt step (i + 1) k g (step i x z) * phi z

/-- what `iterE` computes, written out for two steps: the terminal state is the `foldl` of the
transition over the draws (= the last entry of the `scanl` path) -/
theorem iterE_two (step : ℝ → ℝ → ℝ) (g : ℝ → ℝ) (x : ℝ) :
    iterE step 2 g x = ∫ z1, (∫ z2, g (List.foldl step x [z1, z2]) * phi z2) * phi z1 := rfl

/-- change of state variable along an invariant set -/
theorem iterE_conj (step step' : ℝ → ℝ → ℝ) (h g : ℝ → ℝ) (P : ℝ → Prop)
    (hP : ∀ x z, P x → P (step x z)) (hh : ∀ x z, P x → h (step x z) = step' (h x) z) :
    ∀ (n : ℕ) (x : ℝ), P x → iterE step n (fun y => g (h y)) x = iterE step' n g (h x) := by
  intro n
  induction n with
  | zero => intro x _; rfl
  | succ n ih =>
    intro x hx
    simp only [iterE]
    congr 1
    funext z
    rw [ih (step x z) (hP x z hx), hh x z hx]

/-- a chain whose one-step conditional mean is the current state is a martingale over any horizon
(no regularity of `step` is needed: the inner integrals collapse from the inside) -/
theorem iterEt_martingale (step : ℕ → ℝ → ℝ → ℝ)
    (h1 : ∀ i x, ∫ z, step i x z * phi z = x) :
    ∀ (k i : ℕ) (x : ℝ), iterEt step i k (fun y => y) x = x := by
  intro k
  induction k with
  | zero => intro i x; rfl
  | succ k ih =>
    intro i x
    simp only [iterEt, ih]
    exact h1 i x

/-- mean of the Gaussian affine chain `X' = c0 + a X + v Z` after `n` steps -/
theorem iterE_aff_mean (c0 a v : ℝ) :
    ∀ (n : ℕ) (x : ℝ), iterE (fun x z => c0 + a * x + v * z) n (fun y => y) x
      = a ^ n * x + c0 * ∑ j ∈ Finset.range n, a ^ j := by
  intro n
  induction n with
  | zero => intro x; simp [iterE]
  | succ n ih =>
    intro x
    simp only [iterE, ih]
    have e : (fun z => (a ^ n * (c0 + a * x + v * z) + c0 * ∑ j ∈ Finset.range n, a ^ j) * phi z)
        = fun z => ((a ^ n * (c0 + a * x) + c0 * ∑ j ∈ Finset.range n, a ^ j) + (a ^ n * v) * z)
            * phi z := by
      funext z; ring
    rw [e, integral_affine_mul_phi, Finset.sum_range_succ]
    ring

/-- second moment about any centre `c` of the Gaussian affine chain after `n` steps -/
theorem iterE_aff_sq (c0 a v : ℝ) :
    ∀ (n : ℕ) (x c : ℝ), iterE (fun x z => c0 + a * x + v * z) n (fun y => (y - c) ^ 2) x
      = v ^ 2 * ∑ j ∈ Finset.range n, (a ^ 2) ^ j
        + (a ^ n * x + c0 * ∑ j ∈ Finset.range n, a ^ j - c) ^ 2 := by
  intro n
  induction n with
  | zero => intro x c; simp [iterE]
  | succ n ih =>
    intro x c
    simp only [iterE, ih]
    have e : (fun z => (v ^ 2 * ∑ j ∈ Finset.range n, (a ^ 2) ^ j
          + (a ^ n * (c0 + a * x + v * z) + c0 * ∑ j ∈ Finset.range n, a ^ j - c) ^ 2) * phi z)
        = fun z => (v ^ 2 * ∑ j ∈ Finset.range n, (a ^ 2) ^ j) * phi z
            + ((a ^ n * (c0 + a * x) + c0 * ∑ j ∈ Finset.range n, a ^ j - c) + (a ^ n * v) * z) ^ 2
              * phi z := by
      funext z; ring
    rw [e, integral_add (phi_integrable.const_mul _) (affine_sq_mul_phi_integrable _ _),
      integral_const_mul, integral_phi, integral_affine_sq_mul_phi, Finset.sum_range_succ,
      Finset.sum_range_succ]
    ring

/-- the OU transition variance factor is a square root of a non-negative number (any `kappa`) -/
theorem ou_var_nonneg (kappa dt : ℝ) (hdt : 0 ≤ dt) :
    0 ≤ (1 - Real.exp (-kappa * dt) ^ 2) / 2 / kappa := by
  rcases lt_trichotomy kappa 0 with hk | hk | hk
  · have h1 : 1 ≤ Real.exp (-kappa * dt) := Real.one_le_exp (by nlinarith)
    have h2 : 1 - Real.exp (-kappa * dt) ^ 2 ≤ 0 := by nlinarith
    exact div_nonneg_of_nonpos (by linarith) hk.le
  · simp [hk]
  · have h0 : 0 < Real.exp (-kappa * dt) := Real.exp_pos _
    have h1 : Real.exp (-kappa * dt) ≤ 1 := Real.exp_le_one_iff.2 (by nlinarith)
    have h2 : 0 ≤ 1 - Real.exp (-kappa * dt) ^ 2 := by nlinarith
    positivity

/-- Poisson probabilities -/
noncomputable def poissonPmf (L : ℝ) (k : ℕ) : ℝ := Real.exp (-L) * L ^ k / (k.factorial : ℝ)

/-- probability generating function of the Poisson law: `∑ₖ e^{−L} Lᵏ/k! · xᵏ = e^{L(x−1)}` -/
theorem poisson_pgf_hasSum (L x : ℝ) :
    HasSum (fun k : ℕ => poissonPmf L k * x ^ k) (Real.exp (L * (x - 1))) := by
  have h := (NormedSpace.expSeries_div_hasSum_exp (𝔸 := ℝ) (L * x)).mul_left (Real.exp (-L))
  rw [← Real.exp_eq_exp_ℝ, ← Real.exp_add] at h
  have e1 : -L + L * x = L * (x - 1) := by ring
  rw [e1] at h
  refine h.congr_fun ?_
  intro k
  unfold poissonPmf
  rw [mul_pow]
  ring

theorem poisson_pgf (L x : ℝ) : ∑' k : ℕ, poissonPmf L k * x ^ k = Real.exp (L * (x - 1)) :=
  (poisson_pgf_hasSum L x).tsum_eq

/-! ### closed forms of the jump generators (general counts / jumps) -/

theorem cumprodL_go_eq (acc : ℝ) (ys : List ℝ) :
    cumprodL.go acc ys = (List.range ys.length).map (fun i => acc * (ys.take (i + 1)).prod) := by
  induction ys generalizing acc with
  | nil => simp [cumprodL.go]
  | cons y ys ih =>
    simp only [cumprodL.go, ih, List.length_cons, List.range_succ_eq_map, List.map_cons,
      List.map_map, List.take_succ_cons, List.prod_cons, List.take_zero, List.prod_nil]
    refine congrArg₂ _ (by ring) (List.map_congr_left fun i _ => ?_)
    simp only [Function.comp, Nat.succ_eq_add_one]
    ring

/-- `cumprod`: entry `i` is the product of the first `i + 1` entries -/
theorem cumprodL_eq (l : List ℝ) :
    cumprodL l = (List.range l.length).map (fun i => (l.take (i + 1)).prod) := by
  cases l with
  | nil => rfl
  | cons x xs =>
    simp only [cumprodL, cumprodL_go_eq, List.length_cons, List.range_succ_eq_map, List.map_cons,
      List.map_map, List.take_succ_cons, List.prod_cons, List.take_zero, List.prod_nil]
    refine congrArg₂ _ (by ring) (List.map_congr_left fun i _ => ?_)
    simp only [Function.comp, Nat.succ_eq_add_one]

/-- the aggregated jump factor of one step is `exp` of the sum of its log-jumps -/
theorem foldl_exp_eq (a : ℝ) (js : List ℝ) :
    js.foldl (fun acc j => acc * Real.exp j) a = a * Real.exp js.sum := by
  induction js generalizing a with
  | nil => simp
  | cons j js ih => rw [List.foldl_cons, ih, List.sum_cons, Real.exp_add]; ring

theorem merton_closed (init mu sigma lam jm js dt z0 : ℝ) (zs nj zj : List ℝ)
    (hnj : nj.length = zs.length) (hzj : zj.length = zs.length) :
    mertonJump init mu sigma lam jm js dt nj zj (z0 :: zs)
      = (List.range (zs.length + 1)).map (fun (i : ℕ) =>
          init * Real.exp ((mu - sigma ^ 2 / 2 - lam * (Real.exp (jm + js ^ 2 / 2) - 1)) * dt * i
            + sigma * Real.sqrt dt * (zs.take i).sum
            + ((List.zipWith (fun c zz => jm * c + zz * js * Real.sqrt c) nj zj).take i).sum)) := by
  have hJ : (List.zipWith (fun c zz => jm * c + zz * js * Real.sqrt c) nj zj).length
      = zs.length := by
    simp [hnj, hzj]
  unfold mertonJump
  simp only [Transc.sqrt, Transc.exp]
  rw [cumsumL_zeroFirst, cumsumL_eq]
  simp only [List.length_cons, hJ, List.take_succ_cons, List.sum_cons, zero_add, List.map_map,
    arangeL_eq, List.zip_map', zipWith_map_same]
  refine List.map_congr_left fun i _ => ?_
  simp only [Function.comp]
  rw [show jm + js * js / 2 = jm + js ^ 2 / 2 by ring]
  congr 2
  ring

/-- the summed log-jumps of one step, as the code accumulates them (`foldl`), is the list sum -/
theorem foldl_add_eq (a : ℝ) (js : List ℝ) :
    js.foldl (fun acc j => acc + j) a = a + js.sum := by
  induction js generalizing a with
  | nil => simp
  | cons j js ih => rw [List.foldl_cons, ih, List.sum_cons]; ring

theorem cumprodL_go_map_exp (acc : ℝ) (l : List ℝ) :
    cumprodL.go (Real.exp acc) (l.map Real.exp) = (cumsumL.go acc l).map Real.exp := by
  induction l generalizing acc with
  | nil => rfl
  | cons y ys ih =>
    simp only [List.map_cons, cumprodL.go, cumsumL.go, ← Real.exp_add, ih]

/-- `cumprod` of exponentials is the exponential of the `cumsum` -/
theorem cumprodL_map_exp (l : List ℝ) :
    cumprodL (l.map Real.exp) = (cumsumL l).map Real.exp := by
  cases l with
  | nil => rfl
  | cons x xs => simp only [List.map_cons, cumprodL, cumsumL, cumprodL_go_map_exp]

/-- over ℝ the log-space form of `generate_kou_jump` equals the product form used up to the
`fix:` commit, for all parameters and draws (no side condition) -/
theorem kouJump_eq_prod (init sigma mu lam etaUp etaDown pUp dt : ℝ) (jumps : List (List ℝ))
    (z : List ℝ) :
    kouJump init sigma mu lam etaUp etaDown pUp dt jumps z
      = kouJumpProd init sigma mu lam etaUp etaDown pUp dt jumps z := by
  have hagg : (1 : ℝ) :: jumps.map (fun js => js.foldl (fun acc j => acc * Real.exp j) 1)
      = ((0 : ℝ) :: jumps.map (fun js => js.foldl (fun acc j => acc + j) 0)).map Real.exp := by
    simp only [List.map_cons, Real.exp_zero, List.map_map, foldl_exp_eq, foldl_add_eq, one_mul,
      zero_add, Function.comp_def]
  unfold kouJump kouJumpProd
  simp only [Transc.exp]
  rw [hagg, cumprodL_map_exp, List.zip_map_right, List.zipWith_map_right]
  congr 1
  funext i ca
  simp only [Prod.map, id]
  rw [Real.exp_add]
  ring

theorem kou_closed (init sigma mu lam etaUp etaDown pUp dt z0 : ℝ) (zs : List ℝ)
    (jumps : List (List ℝ)) (hj : jumps.length = zs.length) :
    kouJump init sigma mu lam etaUp etaDown pUp dt jumps (z0 :: zs)
      = (List.range (zs.length + 1)).map (fun (i : ℕ) =>
          init * Real.exp ((mu - lam * ((1 - pUp) * (etaDown / (etaDown + 1))
                + pUp * (etaUp / (etaUp - 1)) - 1) - sigma ^ 2 / 2) * dt * i
            + sigma * Real.sqrt dt * (zs.take i).sum)
          * ((jumps.map (fun js => Real.exp js.sum)).take i).prod) := by
  unfold kouJump
  simp only [Transc.sqrt, Transc.exp, List.map_cons]
  rw [cumsumL_zeroFirst, cumsumL_eq]
  simp only [List.length_cons, List.length_map, hj, List.take_succ_cons, List.sum_cons, zero_add,
    arangeL_eq, List.zip_map', zipWith_map_same, List.map_take.symm, List.sum_map_mul_right,
    List.map_id', foldl_add_eq]
  refine List.map_congr_left fun i _ => ?_
  have e : (List.map (fun js : List ℝ => Real.exp js.sum) (List.take i jumps)).prod
      = Real.exp (List.map (fun js : List ℝ => js.sum) (List.take i jumps)).sum := by
    rw [Real.exp_list_sum, List.map_map]; rfl
  rw [e, mul_assoc init, ← Real.exp_add, mul_comm init]
  congr 2
  ring

end PfVerif.C10Aux

namespace PfVerif.C10
open PfVerif PfVerif.C10Aux Real MeasureTheory Set

/-! ## pathwise: the generated path is the exact solution, step by step -/

/-! ### Brownian motion -/

/-- `B_i = init + mu·t_i + sigma·√dt·(z₁ + … + z_i)`, `t_i = dt·i`: the exact solution of
`dB = mu dt + sigma dW` on the grid, with `W_{t_i} = √dt·(z₁ + … + z_i)`; the first draw `z₀` is
discarded -/
theorem brownian_eq (init sigma mu dt z0 : ℝ) (zs : List ℝ) :
    brownian init sigma mu dt (z0 :: zs)
      = (List.range (zs.length + 1)).map
          (fun (i : ℕ) => init + mu * dt * i + sigma * Real.sqrt dt * (zs.take i).sum) :=
  brownian_closed init sigma mu dt z0 zs

/-- the Brownian path is the scan of the exact increment `ΔB = mu·dt + sigma·√dt·z` -/
theorem brownian_scan (init sigma mu dt z0 : ℝ) (zs : List ℝ) :
    brownian init sigma mu dt (z0 :: zs)
      = List.scanl (fun x z => x + (mu * dt + sigma * Real.sqrt dt * z)) init zs := by
  rw [brownian_closed]
  refine (scanl_eq_map_range _ zs _ init (by simp) ?_).symm
  intro i h
  simp only [List.sum_take_succ zs i h]
  push_cast
  ring

/-- the path starts at `init` -/
theorem brownian_head (init sigma mu dt : ℝ) (z : List ℝ) (h : 0 < z.length) :
    (brownian init sigma mu dt z)[0]? = some init := by
  cases z with
  | nil => simp at h
  | cons z0 zs => rw [brownian_scan]; exact List.getElem?_scanl_zero

/-- consecutive entries differ by `mu·dt + sigma·√dt·z_{i+1}` -/
theorem brownian_step (init sigma mu dt : ℝ) (z : List ℝ) (i : ℕ) (h : i + 1 < z.length) :
    ∃ a, (brownian init sigma mu dt z)[i]? = some a ∧
      (brownian init sigma mu dt z)[i + 1]? = some (a + (mu * dt + sigma * Real.sqrt dt * z[i + 1])) := by
  cases z with
  | nil => simp at h
  | cons z0 zs =>
    rw [brownian_scan]
    have h' : i < zs.length := by simpa using h
    exact scanl_step _ init zs i h'

/-! ### geometric Brownian motion -/

/-- `S_i = init·exp((mu − sigma²/2)·t_i + sigma·W_{t_i})`: the exact solution of
`dS = mu S dt + sigma S dW` on the grid -/
theorem gbm_eq (init sigma mu dt z0 : ℝ) (zs : List ℝ) :
    geometricBrownian init sigma mu dt (z0 :: zs)
      = (List.range (zs.length + 1)).map
          (fun (i : ℕ) => init * Real.exp ((mu - sigma ^ 2 / 2) * dt * i
              + sigma * Real.sqrt dt * (zs.take i).sum)) :=
  gbm_closed init sigma mu dt z0 zs

/-- the geometric Brownian path is the scan of the exact multiplicative step -/
theorem gbm_scan (init sigma mu dt z0 : ℝ) (zs : List ℝ) :
    geometricBrownian init sigma mu dt (z0 :: zs)
      = List.scanl (fun S z => S * Real.exp ((mu - sigma ^ 2 / 2) * dt + sigma * Real.sqrt dt * z))
          init zs := by
  rw [gbm_closed]
  refine (scanl_eq_map_range _ zs _ init (by simp) ?_).symm
  intro i h
  simp only [List.sum_take_succ zs i h]
  rw [mul_assoc init, ← Real.exp_add]
  push_cast
  congr 2
  ring

theorem gbm_head (init sigma mu dt : ℝ) (z : List ℝ) (h : 0 < z.length) :
    (geometricBrownian init sigma mu dt z)[0]? = some init := by
  cases z with
  | nil => simp at h
  | cons z0 zs => rw [gbm_scan]; exact List.getElem?_scanl_zero

/-- `S_{i+1} = S_i · exp((mu − sigma²/2)·dt + sigma·√dt·z_{i+1})` -/
theorem gbm_step (init sigma mu dt : ℝ) (z : List ℝ) (i : ℕ) (h : i + 1 < z.length) :
    ∃ a, (geometricBrownian init sigma mu dt z)[i]? = some a ∧
      (geometricBrownian init sigma mu dt z)[i + 1]?
        = some (a * Real.exp ((mu - sigma ^ 2 / 2) * dt + sigma * Real.sqrt dt * z[i + 1])) := by
  cases z with
  | nil => simp at h
  | cons z0 zs =>
    rw [gbm_scan]
    have h' : i < zs.length := by simpa using h
    exact scanl_step _ init zs i h'

/-! ### Vasicek: exact Ornstein–Uhlenbeck transition -/

/-- the Vasicek path is the scan of the exact OU transition
`X' = theta + e^{−kappa·dt}(X − theta) + sigma·√((1 − e^{−2·kappa·dt})/(2·kappa))·z`
over all draws but the last -/
theorem vasicek_scan (init kappa theta sigma dt z0 : ℝ) (zs : List ℝ) :
    vasicek init kappa theta sigma dt (z0 :: zs)
      = List.scanl (fun x zi => theta + Real.exp (-kappa * dt) * (x - theta)
          + sigma * Real.sqrt ((1 - Real.exp (-kappa * dt) ^ 2) / 2 / kappa) * zi)
          init (initL (z0 :: zs)) := by
  unfold vasicek
  simp only [Transc.exp, Transc.sqrt]
  rw [vasicek_go_eq, ← pow_two]

theorem vasicek_head (init kappa theta sigma dt : ℝ) (z : List ℝ) (h : 0 < z.length) :
    (vasicek init kappa theta sigma dt z)[0]? = some init := by
  cases z with
  | nil => simp at h
  | cons z0 zs => rw [vasicek_scan]; exact List.getElem?_scanl_zero

/-- `X_{i+1} = theta + e^{−kappa·dt}(X_i − theta) + sigma·√((1 − e^{−2 kappa dt})/(2 kappa))·z_i` -/
theorem vasicek_step (init kappa theta sigma dt : ℝ) (z : List ℝ) (i : ℕ) (h : i + 1 < z.length) :
    ∃ a, (vasicek init kappa theta sigma dt z)[i]? = some a ∧
      (vasicek init kappa theta sigma dt z)[i + 1]?
        = some (theta + Real.exp (-kappa * dt) * (a - theta)
            + sigma * Real.sqrt ((1 - Real.exp (-kappa * dt) ^ 2) / 2 / kappa) * z[i]) := by
  cases z with
  | nil => simp at h
  | cons z0 zs =>
    rw [vasicek_scan]
    have hl : i < (initL (z0 :: zs)).length := by
      rw [initL_eq_dropLast, List.length_dropLast]; simpa using h
    have he : (initL (z0 :: zs))[i] = (z0 :: zs)[i] := by
      simp only [initL_eq_dropLast, List.getElem_dropLast]
    rw [← he]
    exact scanl_step _ init _ i hl

/-- with all draws zero the path is the closed-form mean-reverting mean
`theta + (init − theta)·e^{−kappa·dt·i}`, from any starting value -/
theorem vasicek_mean_recursion (init kappa theta sigma dt : ℝ) (n : ℕ) :
    vasicek init kappa theta sigma dt (List.replicate (n + 1) 0)
      = (List.range (n + 1)).map
          (fun (i : ℕ) => theta + (init - theta) * Real.exp (-kappa * dt * i)) := by
  rw [List.replicate_succ, vasicek_scan, ← List.replicate_succ, initL_eq_dropLast,
    List.dropLast_replicate]
  have hl : (List.replicate (n + 1 - 1) (0 : ℝ)).length = n := by simp
  have := scanl_eq_map_range (fun x zi => theta + Real.exp (-kappa * dt) * (x - theta)
      + sigma * Real.sqrt ((1 - Real.exp (-kappa * dt) ^ 2) / 2 / kappa) * zi)
    (List.replicate (n + 1 - 1) (0 : ℝ))
    (fun (i : ℕ) => theta + (init - theta) * Real.exp (-kappa * dt * i)) init (by simp) (by
      intro i _
      have e : -kappa * dt * ((i + 1 : ℕ) : ℝ) = -kappa * dt + -kappa * dt * i := by
        push_cast; ring
      simp only [List.getElem_replicate, e, Real.exp_add]
      ring)
  rw [this, hl]

/-! ### local volatility: Euler step -/

theorem localVol_head (sigmaFn : ℝ → ℝ → ℝ) (init dt : ℝ) (z : List ℝ) (h : 0 < z.length) :
    (localVol sigmaFn init dt z).1[0]? = some init := by
  cases z with
  | nil => simp at h
  | cons z0 zs => simp [localVol, localVol_go_fst_cons]

/-- `S_{i+1} = S_i·(1 + sigmaFn(t_i, S_i)·(z_i·√dt))`, `t_i = dt·i` -/
theorem localVol_step (sigmaFn : ℝ → ℝ → ℝ) (init dt : ℝ) (z : List ℝ) (i : ℕ)
    (h : i + 1 < z.length) :
    ∃ a, (localVol sigmaFn init dt z).1[i]? = some a ∧
      (localVol sigmaFn init dt z).1[i + 1]?
        = some (a * (1 + sigmaFn (dt * (i : ℝ)) a * (z[i] * Real.sqrt dt))) := by
  have hn : z.length ≠ 0 := by omega
  have := localVol_go_step sigmaFn dt z 0 init i h
  simpa [localVol, hn] using this

/-- the reported volatility at step `i` is `sigmaFn(t_i, S_i)` -/
theorem localVol_vol (sigmaFn : ℝ → ℝ → ℝ) (init dt : ℝ) (z : List ℝ) (i : ℕ)
    (h : i < z.length) :
    ∃ a, (localVol sigmaFn init dt z).1[i]? = some a ∧
      (localVol sigmaFn init dt z).2[i]? = some (sigmaFn (dt * (i : ℝ)) a) := by
  have hn : z.length ≠ 0 := by omega
  have := localVol_go_vol sigmaFn dt z 0 init i h
  simpa [localVol, hn] using this

/-! ### jump models at zero intensity reduce to geometric Brownian motion -/

/-- Merton: `lam = 0`, all Poisson counts zero (any jump normals) -/
theorem merton_zero_intensity (init mu sigma jm js dt : ℝ) (z zj : List ℝ)
    (hzj : z.length - 1 ≤ zj.length) :
    mertonJump init mu sigma 0 jm js dt (List.replicate (z.length - 1) 0) zj z
      = geometricBrownian init sigma mu dt z := by
  cases z with
  | nil => simp [mertonJump, geometricBrownian, arangeL]
  | cons z0 zs =>
    have hk : zs.length ≤ zj.length := by simpa using hzj
    rw [gbm_closed]
    unfold mertonJump
    simp only [List.length_cons, Nat.add_sub_cancel, Transc.sqrt, Transc.exp,
      zipWith_replicate_zero jm js _ zj hk, ← List.replicate_succ, cumsumL_replicate_zero,
      cumsumL_zeroFirst, List.map_map, arangeL_eq, List.zip_map', zipWith_map_same]
    refine List.map_congr_left fun i _ => ?_
    simp only [Function.comp]
    congr 2
    ring

/-- Kou: `lam = 0`, no jumps -/
theorem kou_zero_intensity (init sigma mu etaUp etaDown pUp dt : ℝ) (z : List ℝ) :
    kouJump init sigma mu 0 etaUp etaDown pUp dt (List.replicate (z.length - 1) []) z
      = geometricBrownian init sigma mu dt z := by
  cases z with
  | nil => simp [kouJump, geometricBrownian, arangeL]
  | cons z0 zs =>
    rw [gbm_closed]
    unfold kouJump
    simp only [List.length_cons, Nat.add_sub_cancel, Transc.sqrt, Transc.exp, List.map_cons,
      List.map_replicate, List.foldl_nil, ← List.replicate_succ, cumsumL_replicate_zero,
      cumsumL_zeroFirst, List.length_map, arangeL_eq, List.zip_map', zipWith_map_same,
      List.map_take.symm, List.sum_map_mul_right, List.map_id']
    refine List.map_congr_left fun i _ => ?_
    rw [mul_comm]
    congr 2
    ring

/-! ### the jump models step by step (general counts / jump sizes) -/

/-- Merton: `S_{i+1} = S_i·exp(drift·dt + sigma·√dt·z_{i+1} + jump_{i+1})` with the coded
compensated drift and `jump = jm·c + zz·js·√c` for the step's Poisson count `c` and normal `zz` -/
theorem merton_scan (init mu sigma lam jm js dt z0 : ℝ) (zs nj zj : List ℝ)
    (hnj : nj.length = zs.length) (hzj : zj.length = zs.length) :
    mertonJump init mu sigma lam jm js dt nj zj (z0 :: zs)
      = List.scanl (fun S (d : ℝ × ℝ × ℝ) =>
          S * Real.exp ((mu - sigma ^ 2 / 2 - lam * (Real.exp (jm + js ^ 2 / 2) - 1)) * dt
            + sigma * Real.sqrt dt * d.1 + (jm * d.2.1 + d.2.2 * js * Real.sqrt d.2.1)))
          init (List.zip zs (List.zip nj zj)) := by
  rw [merton_closed _ _ _ _ _ _ _ _ _ _ _ hnj hzj]
  have hl : (List.zip zs (List.zip nj zj)).length = zs.length := by simp [hnj, hzj]
  have := scanl_eq_map_range (fun S (d : ℝ × ℝ × ℝ) =>
      S * Real.exp ((mu - sigma ^ 2 / 2 - lam * (Real.exp (jm + js ^ 2 / 2) - 1)) * dt
        + sigma * Real.sqrt dt * d.1 + (jm * d.2.1 + d.2.2 * js * Real.sqrt d.2.1)))
    (List.zip zs (List.zip nj zj))
    (fun (i : ℕ) =>
      init * Real.exp ((mu - sigma ^ 2 / 2 - lam * (Real.exp (jm + js ^ 2 / 2) - 1)) * dt * i
        + sigma * Real.sqrt dt * (zs.take i).sum
        + ((List.zipWith (fun c zz => jm * c + zz * js * Real.sqrt c) nj zj).take i).sum))
    init (by simp) (by
      intro i h
      have hi : i < zs.length := by rw [← hl]; exact h
      have hJ : i < (List.zipWith (fun c zz => jm * c + zz * js * Real.sqrt c) nj zj).length := by
        simp [hnj, hzj, hi]
      simp only [List.sum_take_succ zs i hi, List.sum_take_succ _ i hJ, List.getElem_zip,
        List.getElem_zipWith]
      rw [mul_assoc init, ← Real.exp_add]
      push_cast
      congr 2
      ring)
  rw [this, hl]

/-- Kou: `S_{i+1} = S_i·exp((mu − lam·m)·dt − sigma²·dt/2 + sigma·√dt·z_{i+1})·exp(Σ log-jumps of
the step)` with the coded compensator `m` -/
theorem kou_scan (init sigma mu lam etaUp etaDown pUp dt z0 : ℝ) (zs : List ℝ)
    (jumps : List (List ℝ)) (hj : jumps.length = zs.length) :
    kouJump init sigma mu lam etaUp etaDown pUp dt jumps (z0 :: zs)
      = List.scanl (fun S (d : ℝ × List ℝ) =>
          S * Real.exp ((mu - lam * ((1 - pUp) * (etaDown / (etaDown + 1))
                + pUp * (etaUp / (etaUp - 1)) - 1) - sigma ^ 2 / 2) * dt
              + sigma * Real.sqrt dt * d.1) * Real.exp d.2.sum)
          init (List.zip zs jumps) := by
  rw [kou_closed _ _ _ _ _ _ _ _ _ _ _ hj]
  have hl : (List.zip zs jumps).length = zs.length := by simp [hj]
  have := scanl_eq_map_range (fun S (d : ℝ × List ℝ) =>
      S * Real.exp ((mu - lam * ((1 - pUp) * (etaDown / (etaDown + 1))
            + pUp * (etaUp / (etaUp - 1)) - 1) - sigma ^ 2 / 2) * dt
          + sigma * Real.sqrt dt * d.1) * Real.exp d.2.sum)
    (List.zip zs jumps)
    (fun (i : ℕ) =>
      init * Real.exp ((mu - lam * ((1 - pUp) * (etaDown / (etaDown + 1))
            + pUp * (etaUp / (etaUp - 1)) - 1) - sigma ^ 2 / 2) * dt * i
          + sigma * Real.sqrt dt * (zs.take i).sum)
        * ((jumps.map (fun js => Real.exp js.sum)).take i).prod)
    init (by simp) (by
      intro i h
      have hi : i < zs.length := by rw [← hl]; exact h
      have hJ : i < (jumps.map (fun js => Real.exp js.sum)).length := by
        simp [hj, hi]
      simp only [List.sum_take_succ zs i hi, List.prod_take_succ _ i hJ, List.getElem_zip,
        List.getElem_map]
      have e : ∀ A B P Q : ℝ, init * Real.exp (A + B) * (P * Q)
          = init * Real.exp A * P * Real.exp B * Q := by intros; rw [Real.exp_add]; ring
      rw [← e]
      push_cast
      congr 3
      ring)
  rw [this, hl]

/-! ### the log-space accumulation of the Kou jumps (the `fix:` commit) -/

/-- over ℝ the log-space form of `generate_kou_jump` (`exp` of the running sum of the log-jumps,
inside the exponent) equals the product form used up to the `fix:` commit (`cumprod` of the
per-step products of `exp(log-jump)`), for all parameters and all draws of any lengths: the fix
does not change the real-number semantics (in floats it avoids `inf * 0 = nan`) -/
theorem kou_log_space_eq_prod (init sigma mu lam etaUp etaDown pUp dt : ℝ) (jumps : List (List ℝ))
    (z : List ℝ) :
    kouJump init sigma mu lam etaUp etaDown pUp dt jumps z
      = kouJumpProd init sigma mu lam etaUp etaDown pUp dt jumps z :=
  kouJump_eq_prod init sigma mu lam etaUp etaDown pUp dt jumps z

/-! ## in distribution -/

/-! ### terminal values: what the iterated expectations integrate -/

/-- the last entry of a geometric Brownian path is the fold of the exact step over the draws
`z₁, …` — the state whose law `iterE` integrates in `gbm_mean_n`, `gbm_logvar_n` -/
theorem gbm_last (init sigma mu dt z0 : ℝ) (zs : List ℝ) :
    (geometricBrownian init sigma mu dt (z0 :: zs)).getLast?
      = some (List.foldl (fun S z => S * Real.exp ((mu - sigma ^ 2 / 2) * dt
          + sigma * Real.sqrt dt * z)) init zs) := by
  rw [gbm_scan, List.getLast?_scanl]

theorem brownian_last (init sigma mu dt z0 : ℝ) (zs : List ℝ) :
    (brownian init sigma mu dt (z0 :: zs)).getLast?
      = some (List.foldl (fun x z => x + (mu * dt + sigma * Real.sqrt dt * z)) init zs) := by
  rw [brownian_scan, List.getLast?_scanl]

/-- the last Vasicek rate is the fold of the exact OU transition over all draws but the last -/
theorem vasicek_last (init kappa theta sigma dt z0 : ℝ) (zs : List ℝ) :
    (vasicek init kappa theta sigma dt (z0 :: zs)).getLast?
      = some (List.foldl (fun x zi => theta + Real.exp (-kappa * dt) * (x - theta)
          + sigma * Real.sqrt ((1 - Real.exp (-kappa * dt) ^ 2) / 2 / kappa) * zi)
          init (initL (z0 :: zs))) := by
  rw [vasicek_scan, List.getLast?_scanl]

/-! ### Brownian motion in distribution -/

/-- `n` steps: `B_n` has mean `init + mu·t` and variance `sigma²·t`, `t = dt·n` -/
theorem brownian_mean_var_n (mu sigma dt : ℝ) (hdt : 0 ≤ dt) (n : ℕ) (init : ℝ) :
    iterE (fun x z => x + (mu * dt + sigma * Real.sqrt dt * z)) n (fun y => y) init
      = init + mu * (dt * n) ∧
    iterE (fun x z => x + (mu * dt + sigma * Real.sqrt dt * z)) n
      (fun y => (y - (init + mu * (dt * n))) ^ 2) init = sigma ^ 2 * (dt * n) := by
  have hstep : (fun x z : ℝ => x + (mu * dt + sigma * Real.sqrt dt * z))
      = fun x z => mu * dt + 1 * x + sigma * Real.sqrt dt * z := by
    funext x z; ring
  rw [hstep]
  constructor
  · rw [iterE_aff_mean]
    simp
    ring
  · rw [iterE_aff_sq]
    simp only [one_pow, Finset.sum_const, Finset.card_range, nsmul_eq_mul, mul_one, one_mul]
    rw [mul_pow, Real.sq_sqrt hdt]
    ring

/-! ### geometric Brownian motion -/

/-- one step: `E[S_{i+1} | S_i = S] = S·e^{mu·dt}` -/
theorem gbm_step_mean (S mu sigma dt : ℝ) (hdt : 0 ≤ dt) :
    ∫ z, S * Real.exp ((mu - sigma ^ 2 / 2) * dt + sigma * Real.sqrt dt * z) * phi z
      = S * Real.exp (mu * dt) := by
  have e : (fun z => S * Real.exp ((mu - sigma ^ 2 / 2) * dt + sigma * Real.sqrt dt * z) * phi z)
      = fun z => S * (Real.exp ((mu - sigma ^ 2 / 2) * dt + (sigma * Real.sqrt dt) * z) * phi z) := by
    funext z; ring
  rw [e, integral_const_mul, integral_exp_affine_mul_phi, mul_pow, Real.sq_sqrt hdt]
  congr 2
  ring

/-- one step: the log-return `(mu − sigma²/2)·dt + sigma·√dt·Z` has mean `(mu − sigma²/2)·dt` and
variance `sigma²·dt` -/
theorem gbm_step_logvar (mu sigma dt : ℝ) (hdt : 0 ≤ dt) :
    (∫ z, ((mu - sigma ^ 2 / 2) * dt + sigma * Real.sqrt dt * z) * phi z
      = (mu - sigma ^ 2 / 2) * dt) ∧
    (∫ z, (((mu - sigma ^ 2 / 2) * dt + sigma * Real.sqrt dt * z) - (mu - sigma ^ 2 / 2) * dt) ^ 2
        * phi z = sigma ^ 2 * dt) := by
  refine ⟨integral_affine_mul_phi _ _, ?_⟩
  rw [integral_affine_centered_sq_mul_phi, mul_pow, Real.sq_sqrt hdt]

/-- `n` steps: `E[S_n] = init·e^{mu·dt·n}` (iterated expectation over the `n` normal draws) -/
theorem gbm_mean_n (mu sigma dt : ℝ) (hdt : 0 ≤ dt) (n : ℕ) (init : ℝ) :
    iterE (fun S z => S * Real.exp ((mu - sigma ^ 2 / 2) * dt + sigma * Real.sqrt dt * z)) n
      (fun S => S) init = init * Real.exp (mu * dt * n) := by
  induction n generalizing init with
  | zero => simp [iterE]
  | succ n ih =>
    simp only [iterE, ih]
    have e : (fun z => init * Real.exp ((mu - sigma ^ 2 / 2) * dt + sigma * Real.sqrt dt * z)
          * Real.exp (mu * dt * n) * phi z)
        = fun z => Real.exp (mu * dt * n)
            * (init * Real.exp ((mu - sigma ^ 2 / 2) * dt + sigma * Real.sqrt dt * z) * phi z) := by
      funext z; ring
    rw [e, integral_const_mul, gbm_step_mean _ _ _ _ hdt]
    have e2 : mu * dt * ((n + 1 : ℕ) : ℝ) = mu * dt * n + mu * dt := by push_cast; ring
    rw [e2, Real.exp_add]
    ring

/-- `n` steps, positive start: `log S_n` has mean `log init + (mu − sigma²/2)·t` and variance
`sigma²·t`, `t = dt·n` -/
theorem gbm_logvar_n (mu sigma dt : ℝ) (hdt : 0 ≤ dt) (n : ℕ) (init : ℝ) (hinit : 0 < init) :
    iterE (fun S z => S * Real.exp ((mu - sigma ^ 2 / 2) * dt + sigma * Real.sqrt dt * z)) n
      (fun S => Real.log S) init = Real.log init + (mu - sigma ^ 2 / 2) * (dt * n) ∧
    iterE (fun S z => S * Real.exp ((mu - sigma ^ 2 / 2) * dt + sigma * Real.sqrt dt * z)) n
      (fun S => (Real.log S - (Real.log init + (mu - sigma ^ 2 / 2) * (dt * n))) ^ 2) init
      = sigma ^ 2 * (dt * n) := by
  have hP : ∀ x z : ℝ, 0 < x →
      0 < x * Real.exp ((mu - sigma ^ 2 / 2) * dt + sigma * Real.sqrt dt * z) :=
    fun x z hx => mul_pos hx (Real.exp_pos _)
  have hh : ∀ x z : ℝ, 0 < x →
      Real.log (x * Real.exp ((mu - sigma ^ 2 / 2) * dt + sigma * Real.sqrt dt * z))
        = (fun y z => (mu - sigma ^ 2 / 2) * dt + 1 * y + sigma * Real.sqrt dt * z)
            (Real.log x) z := by
    intro x z hx
    rw [Real.log_mul hx.ne' (Real.exp_pos _).ne', Real.log_exp]
    ring
  constructor
  · rw [iterE_conj _ (fun y z => (mu - sigma ^ 2 / 2) * dt + 1 * y + sigma * Real.sqrt dt * z)
      Real.log (fun y => y) (fun x => 0 < x) hP hh n init hinit, iterE_aff_mean]
    simp
    ring
  · rw [iterE_conj _ (fun y z => (mu - sigma ^ 2 / 2) * dt + 1 * y + sigma * Real.sqrt dt * z)
      Real.log
      (fun y => (y - (Real.log init + (mu - sigma ^ 2 / 2) * (dt * n))) ^ 2)
      (fun x => 0 < x) hP hh n init hinit, iterE_aff_sq]
    simp only [one_pow, Finset.sum_const, Finset.card_range, nsmul_eq_mul, mul_one, one_mul]
    rw [mul_pow, Real.sq_sqrt hdt]
    ring

/-! ### Vasicek / Ornstein–Uhlenbeck -/

/-- one step: conditional mean `theta + e^{−kappa·dt}(x − theta)` -/
theorem vasicek_step_mean (x kappa theta sigma dt : ℝ) :
    ∫ z, (theta + Real.exp (-kappa * dt) * (x - theta)
          + sigma * Real.sqrt ((1 - Real.exp (-kappa * dt) ^ 2) / 2 / kappa) * z) * phi z
      = theta + Real.exp (-kappa * dt) * (x - theta) :=
  integral_affine_mul_phi _ _

/-- one step: conditional variance `sigma²(1 − e^{−2·kappa·dt})/(2·kappa)` -/
theorem vasicek_step_var (x kappa theta sigma dt : ℝ) (hdt : 0 ≤ dt) :
    ∫ z, ((theta + Real.exp (-kappa * dt) * (x - theta)
          + sigma * Real.sqrt ((1 - Real.exp (-kappa * dt) ^ 2) / 2 / kappa) * z)
        - (theta + Real.exp (-kappa * dt) * (x - theta))) ^ 2 * phi z
      = sigma ^ 2 * (1 - Real.exp (-2 * kappa * dt)) / (2 * kappa) := by
  rw [integral_affine_centered_sq_mul_phi, mul_pow, Real.sq_sqrt (ou_var_nonneg kappa dt hdt)]
  have e : Real.exp (-2 * kappa * dt) = Real.exp (-kappa * dt) ^ 2 := by
    rw [← Real.exp_nat_mul]; congr 1; push_cast; ring
  rw [e]
  ring

/-- `i` steps from any starting value `x0`: mean `theta + (x0 − theta)·e^{−kappa·dt·i}` and variance
`sigma²(1 − e^{−2·kappa·dt·i})/(2·kappa)` -/
theorem ou_mean_var_n (x0 kappa theta sigma dt : ℝ) (hdt : 0 ≤ dt) (n : ℕ) :
    iterE (fun x z => theta + Real.exp (-kappa * dt) * (x - theta)
        + sigma * Real.sqrt ((1 - Real.exp (-kappa * dt) ^ 2) / 2 / kappa) * z) n (fun y => y) x0
      = theta + (x0 - theta) * Real.exp (-kappa * dt * n) ∧
    iterE (fun x z => theta + Real.exp (-kappa * dt) * (x - theta)
        + sigma * Real.sqrt ((1 - Real.exp (-kappa * dt) ^ 2) / 2 / kappa) * z) n
        (fun y => (y - (theta + (x0 - theta) * Real.exp (-kappa * dt * n))) ^ 2) x0
      = sigma ^ 2 * (1 - Real.exp (-2 * kappa * dt * n)) / (2 * kappa) := by
  set a := Real.exp (-kappa * dt) with ha
  set v := sigma * Real.sqrt ((1 - a ^ 2) / 2 / kappa) with hv
  have hstep : (fun x z : ℝ => theta + a * (x - theta) + v * z)
      = fun x z => theta * (1 - a) + a * x + v * z := by
    funext x z; ring
  have han : Real.exp (-kappa * dt * n) = a ^ n := by
    rw [ha, ← Real.exp_nat_mul]; congr 1; ring
  have ha2n : Real.exp (-2 * kappa * dt * n) = (a ^ 2) ^ n := by
    rw [ha, ← pow_mul, ← Real.exp_nat_mul]; congr 1; push_cast; ring
  have hgeo : (1 - a) * ∑ j ∈ Finset.range n, a ^ j = 1 - a ^ n := by
    rw [mul_comm]; exact geom_sum_mul_neg a n
  have hv2 : v ^ 2 = sigma ^ 2 * ((1 - a ^ 2) / 2 / kappa) := by
    rw [hv, mul_pow, Real.sq_sqrt (ou_var_nonneg kappa dt hdt)]
  have hmean : a ^ n * x0 + theta * (1 - a) * ∑ j ∈ Finset.range n, a ^ j
      = theta + (x0 - theta) * a ^ n := by
    rw [mul_assoc, hgeo]; ring
  rw [hstep, han, ha2n]
  constructor
  · rw [iterE_aff_mean, hmean]
  · rw [iterE_aff_sq, hmean, sub_self, hv2]
    have hgeo2 : (1 - a ^ 2) * ∑ j ∈ Finset.range n, (a ^ 2) ^ j = 1 - (a ^ 2) ^ n := by
      rw [mul_comm]; exact geom_sum_mul_neg (a ^ 2) n
    calc sigma ^ 2 * ((1 - a ^ 2) / 2 / kappa) * ∑ j ∈ Finset.range n, (a ^ 2) ^ j + 0 ^ 2
        = sigma ^ 2 * ((1 - a ^ 2) * ∑ j ∈ Finset.range n, (a ^ 2) ^ j) / (2 * kappa) := by ring
      _ = sigma ^ 2 * (1 - (a ^ 2) ^ n) / (2 * kappa) := by rw [hgeo2]

/-- the closed-form variance solves the recursion `V_{i+1} = e^{−2·kappa·dt}·V_i + V_1` -/
theorem ou_var_recursion (kappa sigma dt : ℝ) (i : ℕ) :
    sigma ^ 2 * (1 - Real.exp (-2 * kappa * dt * ((i + 1 : ℕ) : ℝ))) / (2 * kappa)
      = Real.exp (-2 * kappa * dt) * (sigma ^ 2 * (1 - Real.exp (-2 * kappa * dt * i)) / (2 * kappa))
        + sigma ^ 2 * (1 - Real.exp (-2 * kappa * dt)) / (2 * kappa) := by
  have e : -2 * kappa * dt * ((i + 1 : ℕ) : ℝ) = -2 * kappa * dt * i + -2 * kappa * dt := by
    push_cast; ring
  rw [e, Real.exp_add]
  ring

/-! ### local volatility: martingale -/

/-- one Euler step is a martingale increment: `E[S_{i+1} | S_i = S] = S` for any volatility `sg` -/
theorem local_vol_martingale_step (S sg dt : ℝ) :
    ∫ z, S * (1 + sg * (z * Real.sqrt dt)) * phi z = S := by
  have e : (fun z => S * (1 + sg * (z * Real.sqrt dt)) * phi z)
      = fun z => (S + (S * sg * Real.sqrt dt) * z) * phi z := by
    funext z; ring
  rw [e, integral_affine_mul_phi]

/-- over any horizon and from any step `i`, for an arbitrary local volatility function:
`E[S_{i+k} | S_i = S] = S` -/
theorem local_vol_martingale_n (sigmaFn : ℝ → ℝ → ℝ) (dt : ℝ) (i k : ℕ) (S : ℝ) :
    iterEt (fun j s z => s * (1 + sigmaFn (dt * (j : ℝ)) s * (z * Real.sqrt dt))) i k
      (fun y => y) S = S :=
  iterEt_martingale _ (fun j x => local_vol_martingale_step x (sigmaFn (dt * (j : ℝ)) x) dt) k i S

/-! ### Merton: the drift correction compensates the compound-Poisson jump mean -/

/-- given `c` jumps in the step, `E[e^{jm·c + Z·js·√c}] = e^{jm·c + js²·c/2}` -/
theorem merton_jump_mgf (jm js c : ℝ) (hc : 0 ≤ c) :
    ∫ zj, Real.exp (jm * c + zj * js * Real.sqrt c) * phi zj
      = Real.exp (jm * c + js ^ 2 * c / 2) := by
  have e : (fun zj => Real.exp (jm * c + zj * js * Real.sqrt c) * phi zj)
      = fun zj => Real.exp (jm * c + (js * Real.sqrt c) * zj) * phi zj := by
    funext zj; congr 2; ring
  rw [e, integral_exp_affine_mul_phi, mul_pow, Real.sq_sqrt hc]

/-- averaging over the Poisson(`lam·dt`) count: `E[e^{jump}] = e^{lam·dt·(e^{jm + js²/2} − 1)}` -/
theorem merton_jump_mean (lam jm js dt : ℝ) :
    ∑' k : ℕ, poissonPmf (lam * dt) k
        * ∫ zj, Real.exp (jm * (k : ℝ) + zj * js * Real.sqrt (k : ℝ)) * phi zj
      = Real.exp (lam * dt * (Real.exp (jm + js ^ 2 / 2) - 1)) := by
  rw [← poisson_pgf]
  congr 1
  funext k
  rw [merton_jump_mgf jm js k (Nat.cast_nonneg k), ← Real.exp_nat_mul]
  congr 2
  ring

/-- one step of `generate_merton_jump`: the coded drift
`(mu − sigma²/2 − lam·(e^{jm + js²/2} − 1))·dt` makes the expected growth factor
`E[S_{i+1}/S_i] = E_z[e^{drift + sigma·z·√dt}] · E[e^{jump}] = e^{mu·dt}` -/
theorem merton_step_mean (mu sigma lam jm js dt : ℝ) (hdt : 0 ≤ dt) :
    (∫ z, Real.exp ((mu - sigma * sigma / 2 - lam * (Real.exp (jm + js * js / 2) - 1)) * dt
          + sigma * (z * Real.sqrt dt)) * phi z)
      * (∑' k : ℕ, poissonPmf (lam * dt) k
          * ∫ zj, Real.exp (jm * (k : ℝ) + zj * js * Real.sqrt (k : ℝ)) * phi zj)
      = Real.exp (mu * dt) := by
  have e : (fun z => Real.exp ((mu - sigma * sigma / 2
          - lam * (Real.exp (jm + js * js / 2) - 1)) * dt + sigma * (z * Real.sqrt dt)) * phi z)
      = fun z => Real.exp ((mu - sigma * sigma / 2
          - lam * (Real.exp (jm + js * js / 2) - 1)) * dt + (sigma * Real.sqrt dt) * z) * phi z := by
    funext z; congr 2; ring
  rw [e, integral_exp_affine_mul_phi, merton_jump_mean, ← Real.exp_add, mul_pow, Real.sq_sqrt hdt,
    show jm + js * js / 2 = jm + js ^ 2 / 2 by ring]
  congr 1
  ring

/-! ### Kou: the compensator `m` is `E[e^J] − 1` for the double-exponential jump law -/

/-- up-jump `J ~ Exp(eta)`, `eta > 1`: `E[e^J] = eta/(eta − 1)` -/
theorem kou_up_mean (eta : ℝ) (h : 1 < eta) :
    ∫ x in Ioi (0 : ℝ), Real.exp x * (eta * Real.exp (-eta * x)) = eta / (eta - 1) := by
  have e : (fun x : ℝ => Real.exp x * (eta * Real.exp (-eta * x)))
      = fun x => eta * Real.exp ((1 - eta) * x) := by
    funext x
    rw [mul_left_comm, ← Real.exp_add]
    congr 2
    ring
  rw [e, integral_const_mul, integral_exp_mul_Ioi (by linarith : 1 - eta < 0)]
  have h1 : eta - 1 ≠ 0 := by linarith
  have h2 : 1 - eta ≠ 0 := by linarith
  simp only [mul_zero, Real.exp_zero]
  field_simp
  ring

/-- down-jump `J = −Exp(eta)`, `eta > 0`: `E[e^J] = eta/(eta + 1)` -/
theorem kou_down_mean (eta : ℝ) (h : 0 < eta) :
    ∫ x in Ioi (0 : ℝ), Real.exp (-x) * (eta * Real.exp (-eta * x)) = eta / (eta + 1) := by
  have e : (fun x : ℝ => Real.exp (-x) * (eta * Real.exp (-eta * x)))
      = fun x => eta * Real.exp ((-1 - eta) * x) := by
    funext x
    rw [mul_left_comm, ← Real.exp_add]
    congr 2
    ring
  rw [e, integral_const_mul, integral_exp_mul_Ioi (by linarith : -1 - eta < 0)]
  have h1 : eta + 1 ≠ 0 := by linarith
  have h2 : -1 - eta ≠ 0 := by linarith
  simp only [mul_zero, Real.exp_zero]
  field_simp
  ring

/-- the coded `m = (1−p)·η₋/(η₋+1) + p·η₊/(η₊−1) − 1` is `E[e^J] − 1` for
`J = +Exp(η₊)` with probability `p`, `−Exp(η₋)` with probability `1 − p` -/
theorem kou_compensator (etaUp etaDown pUp : ℝ) (hu : 1 < etaUp) (hd : 0 < etaDown) :
    (1 - pUp) * (etaDown / (etaDown + 1)) + pUp * (etaUp / (etaUp - 1)) - 1
      = ((1 - pUp) * ∫ x in Ioi (0 : ℝ), Real.exp (-x) * (etaDown * Real.exp (-etaDown * x)))
        + (pUp * ∫ x in Ioi (0 : ℝ), Real.exp x * (etaUp * Real.exp (-etaUp * x))) - 1 := by
  rw [kou_up_mean etaUp hu, kou_down_mean etaDown hd]

/-- one step of `generate_kou_jump`: with `1 + m = E[e^J]` and a Poisson(`lam·dt`) number of
independent jumps, the coded drift `(mu − lam·m)·dt − sigma²·dt/2` makes the expected growth
factor `e^{mu·dt}` -/
theorem kou_step_mean (mu sigma lam m dt : ℝ) (hdt : 0 ≤ dt) :
    (∫ z, Real.exp ((mu - lam * m) * dt + z * Real.sqrt dt * sigma - sigma * sigma * dt / 2) * phi z)
      * (∑' k : ℕ, poissonPmf (lam * dt) k * (1 + m) ^ k)
      = Real.exp (mu * dt) := by
  have e : (fun z => Real.exp ((mu - lam * m) * dt + z * Real.sqrt dt * sigma
          - sigma * sigma * dt / 2) * phi z)
      = fun z => Real.exp (((mu - lam * m) * dt - sigma * sigma * dt / 2)
          + (sigma * Real.sqrt dt) * z) * phi z := by
    funext z; congr 2; ring
  rw [e, integral_exp_affine_mul_phi, poisson_pgf, ← Real.exp_add, mul_pow, Real.sq_sqrt hdt]
  congr 1
  ring

/-! ## non-vacuity -/

/-- a concrete Brownian path (the first draw `5` is discarded) and a concrete geometric one -/
example : brownian (1 : ℝ) 2 3 1 [5, 1, -1] = [1, 6, 7] ∧
    geometricBrownian (2 : ℝ) 1 (1 / 2) 1 [9, 1] = [2, 2 * Real.exp 1] := by
  constructor
  · rw [brownian_eq]
    simp [List.range_succ]
    norm_num
  · rw [gbm_scan]
    simp

/-- the step theorems are not vacuous: indices exist -/
example : ∃ a, (vasicek (3 : ℝ) 1 1 2 1 [7, 8, 9])[1]? = some a ∧
    (vasicek (3 : ℝ) 1 1 2 1 [7, 8, 9])[2]?
      = some (1 + Real.exp (-1 * 1) * (a - 1)
          + 2 * Real.sqrt ((1 - Real.exp (-1 * 1) ^ 2) / 2 / 1) * 8) :=
  vasicek_step 3 1 1 2 1 [7, 8, 9] 1 (by simp)

/-- zero-intensity reduction on a concrete input -/
example : mertonJump (1 : ℝ) 0 1 0 5 7 1 [0, 0] [3, 4] [9, 1, 2]
    = geometricBrownian (1 : ℝ) 1 0 1 [9, 1, 2] :=
  merton_zero_intensity 1 0 1 5 7 1 [9, 1, 2] [3, 4] (by simp)

/-- the OU variance after one step with `kappa = dt = sigma = 1` is `(1 − e^{−2})/2 > 0`, and the
Kou up-jump mean at `eta = 2` is `2` -/
example :
    iterE (fun x z => (0 : ℝ) + Real.exp (-1 * 1) * (x - 0)
        + 1 * Real.sqrt ((1 - Real.exp (-1 * 1) ^ 2) / 2 / 1) * z) 1
        (fun y => (y - (0 + (5 - 0) * Real.exp (-1 * 1 * (1 : ℕ)))) ^ 2) 5
      = 1 ^ 2 * (1 - Real.exp (-2 * 1 * 1 * (1 : ℕ))) / (2 * 1) ∧
    0 < (1 : ℝ) ^ 2 * (1 - Real.exp (-2 * 1 * 1 * (1 : ℕ))) / (2 * 1) ∧
    ∫ x in Ioi (0 : ℝ), Real.exp x * (2 * Real.exp (-2 * x)) = 2 := by
  refine ⟨(ou_mean_var_n 5 1 0 1 1 zero_le_one 1).2, ?_, ?_⟩
  · have h : Real.exp (-2 * 1 * 1 * ((1 : ℕ) : ℝ)) < 1 := by
      rw [Real.exp_lt_one_iff]; norm_num
    have : 0 < 1 - Real.exp (-2 * 1 * 1 * ((1 : ℕ) : ℝ)) := by linarith
    positivity
  · rw [kou_up_mean 2 (by norm_num)]; norm_num

end PfVerif.C10
