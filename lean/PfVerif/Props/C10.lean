/-
  C10 — With the random normals supplied by the caller, Brownian and geometric Brownian paths equal
  the exact solution of their SDE step by step (and the jump models reduce to it when the jump
  intensity is zero).  In distribution, every price process has mean S0·exp(mu·t), log-variance
  sigma²·t for geometric Brownian motion, Vasicek rates have the closed-form mean-reverting mean and
  variance around theta from any starting value, and local-volatility paths are martingales.

  Model: Model/Stoch.lean at ℝ (`brownian`, `geometricBrownian`, `vasicek`, `mertonJump`, `kouJump`,
  `localVol`): one path as a function of the parameters and of the random draws.

  Formulation.
  * Pathwise: a path "equals the exact solution step by step" when it is the `List.scanl` of the
    exact one-step transition over the draws it consumes (`*_scan`); the index form (`*_step`) says
    that entries `i`, `i+1` exist and are related by the transition with draw `z[i]` (resp.
    `z[i+1]` for the Brownian generators, which discard the first draw `randn[:, 0] = 0`).
  * In distribution: the law of the draws is outside the model (trusted base: independent
    standard normals / Poisson counts / exponentials).  An expectation over one standard normal
    draw is the Lebesgue integral against the density `phi` (as in C07).  The expectation of
    `g (X_k)` for the Markov chain `X_{j+1} = step X_j Z_{j+1}` with i.i.d. standard normal draws,
    started at `x`, is the `k`-fold iterated integral `iterE step k g x` (`C10Aux.iterE`; tower
    property written out:  `iterE step 2 g x = ∫ z₁, (∫ z₂, g (step (step x z₁) z₂) φ(z₂)) φ(z₁)`).

  Lengths and positivity of the generated paths are C11.
-/
import PfVerif.Model.Stoch
import PfVerif.Lemmas.GaussMoments
import Mathlib.Algebra.BigOperators.Group.List.Basic
import Mathlib.Algebra.Field.GeomSum
import Mathlib.Analysis.SpecialFunctions.ImproperIntegrals
import Mathlib.Analysis.SpecialFunctions.Exponential

namespace PfVerif.C10Aux
open PfVerif Real MeasureTheory Set

/-! ### list plumbing: everything is a `map` over `List.range` -/

theorem arangeL_eq (n : ℕ) : (arangeL n : List ℝ) = (List.range n).map (fun (i : ℕ) => (i : ℝ)) := rfl

theorem zipWith_map_same {ι β γ δ : Type} (F : β → γ → δ) (g : ι → β) (h : ι → γ) (l : List ι) :
    List.zipWith F (l.map g) (l.map h) = l.map (fun a => F (g a) (h a)) := by
  rw [List.zipWith_map, List.zipWith_self]

theorem cumsumL_go_eq (acc : ℝ) (ys : List ℝ) :
    cumsumL.go acc ys = (List.range ys.length).map (fun i => acc + (ys.take (i + 1)).sum) := by
  induction ys generalizing acc with
  | nil => simp [cumsumL.go]
  | cons y ys ih =>
    simp only [cumsumL.go, ih, List.length_cons, List.range_succ_eq_map, List.map_cons,
      List.map_map, List.take_succ_cons, List.sum_cons, List.take_zero, List.sum_nil]
    refine congrArg₂ _ (by ring) (List.map_congr_left fun i _ => ?_)
    simp only [Function.comp, Nat.succ_eq_add_one]
    ring

/-- `cumsum`: entry `i` is the sum of the first `i + 1` entries -/
theorem cumsumL_eq (l : List ℝ) :
    cumsumL l = (List.range l.length).map (fun i => (l.take (i + 1)).sum) := by
  cases l with
  | nil => rfl
  | cons x xs =>
    simp only [cumsumL, cumsumL_go_eq, List.length_cons, List.range_succ_eq_map, List.map_cons,
      List.map_map, List.take_succ_cons, List.sum_cons, List.take_zero, List.sum_nil]
    refine congrArg₂ _ (by ring) (List.map_congr_left fun i _ => ?_)
    simp only [Function.comp, Nat.succ_eq_add_one]

/-- `cumsum` of the draws with the first one zeroed: entry `i` is the sum of draws `1..i` -/
theorem cumsumL_zeroFirst (z0 : ℝ) (zs : List ℝ) :
    cumsumL (zeroFirst (z0 :: zs)) = (List.range (zs.length + 1)).map (fun i => (zs.take i).sum) := by
  simp only [zeroFirst, cumsumL_eq, List.length_cons, List.take_succ_cons, List.sum_cons, zero_add]

/-- a sequence that satisfies the recursion is the scan -/
theorem scanl_eq_map_range {β : Type} (f : ℝ → β → ℝ) (ds : List β) (g : ℕ → ℝ)
    (x : ℝ) (hx : g 0 = x)
    (hstep : ∀ i (h : i < ds.length), g (i + 1) = f (g i) ds[i]) :
    List.scanl f x ds = (List.range (ds.length + 1)).map g := by
  subst hx
  induction ds generalizing g with
  | nil => simp
  | cons d ds ih =>
    have h0 : f (g 0) d = g 1 := (hstep 0 (by simp)).symm
    have := ih (fun i => g (i + 1)) (fun i h => by
      have := hstep (i + 1) (by simpa using h)
      simpa using this)
    rw [List.scanl_cons, h0, this, List.length_cons, List.range_succ_eq_map (n := ds.length + 1),
      List.map_cons, List.map_map]
    rfl

/-- index form of a scan: entries `i` and `i+1` exist and are related by one transition -/
theorem scanl_step {β : Type} (f : ℝ → β → ℝ) (x : ℝ) (ds : List β) (i : ℕ) (h : i < ds.length) :
    ∃ a, (List.scanl f x ds)[i]? = some a ∧ (List.scanl f x ds)[i + 1]? = some (f a ds[i]) := by
  have h1 : i + 1 < (List.scanl f x ds).length := by simp [h]
  have h0 : i < (List.scanl f x ds).length := by omega
  refine ⟨(List.scanl f x ds)[i], List.getElem?_eq_getElem h0, ?_⟩
  rw [List.getElem?_eq_getElem h1, List.getElem_succ_scanl]


/-! ### closed forms of the Brownian generators -/

/-- Brownian path, closed form: `B_i = init + mu·dt·i + sigma·√dt·(z₁ + … + z_i)`
(the first draw is discarded by the code: `randn[:, 0] = 0`) -/
theorem brownian_closed (init sigma mu dt z0 : ℝ) (zs : List ℝ) :
    brownian init sigma mu dt (z0 :: zs)
      = (List.range (zs.length + 1)).map
          (fun (i : ℕ) => init + mu * dt * i + sigma * Real.sqrt dt * (zs.take i).sum) := by
  unfold brownian
  simp only [List.length_cons, arangeL_eq, cumsumL_zeroFirst, zipWith_map_same, Transc.sqrt]
  refine List.map_congr_left fun i _ => ?_
  ring

/-- geometric Brownian path, closed form:
`S_i = init · exp((mu − sigma²/2)·dt·i + sigma·√dt·(z₁ + … + z_i))` -/
theorem gbm_closed (init sigma mu dt z0 : ℝ) (zs : List ℝ) :
    geometricBrownian init sigma mu dt (z0 :: zs)
      = (List.range (zs.length + 1)).map
          (fun (i : ℕ) => init * Real.exp ((mu - sigma ^ 2 / 2) * dt * i
              + sigma * Real.sqrt dt * (zs.take i).sum)) := by
  unfold geometricBrownian
  simp only [brownian_closed, List.length_cons, arangeL_eq, zipWith_map_same, Transc.exp]
  refine List.map_congr_left fun i _ => ?_
  congr 2
  ring

end PfVerif.C10Aux

namespace PfVerif.C10
open PfVerif PfVerif.C10Aux Real MeasureTheory Set

/-! ## pathwise: the generated path is the exact solution, step by step -/

/-! ### Brownian motion -/

/-- `B_i = init + mu·t_i + sigma·√dt·(z₁ + … + z_i)`, `t_i = dt·i`: the exact solution of
`dB = mu dt + sigma dW` on the grid, with `W_{t_i} = √dt·(z₁ + … + z_i)`; the first draw `z₀` is
discarded -/
theorem brownian_eq (init sigma mu dt z0 : ℝ) (zs : List ℝ) :
    brownian init sigma mu dt (z0 :: zs)
      = (List.range (zs.length + 1)).map
          (fun (i : ℕ) => init + mu * dt * i + sigma * Real.sqrt dt * (zs.take i).sum) :=
  brownian_closed init sigma mu dt z0 zs

/-- the Brownian path is the scan of the exact increment `ΔB = mu·dt + sigma·√dt·z` -/
theorem brownian_scan (init sigma mu dt z0 : ℝ) (zs : List ℝ) :
    brownian init sigma mu dt (z0 :: zs)
      = List.scanl (fun x z => x + (mu * dt + sigma * Real.sqrt dt * z)) init zs := by
  rw [brownian_closed]
  refine (scanl_eq_map_range _ zs _ init (by simp) ?_).symm
  intro i h
  simp only [List.sum_take_succ zs i h]
  push_cast
  ring

/-- the path starts at `init` -/
theorem brownian_head (init sigma mu dt : ℝ) (z : List ℝ) (h : 0 < z.length) :
    (brownian init sigma mu dt z)[0]? = some init := by
  cases z with
  | nil => simp at h
  | cons z0 zs => rw [brownian_scan]; exact List.getElem?_scanl_zero

/-- consecutive entries differ by `mu·dt + sigma·√dt·z_{i+1}` -/
theorem brownian_step (init sigma mu dt : ℝ) (z : List ℝ) (i : ℕ) (h : i + 1 < z.length) :
    ∃ a, (brownian init sigma mu dt z)[i]? = some a ∧
      (brownian init sigma mu dt z)[i + 1]? = some (a + (mu * dt + sigma * Real.sqrt dt * z[i + 1])) := by
  cases z with
  | nil => simp at h
  | cons z0 zs =>
    rw [brownian_scan]
    have h' : i < zs.length := by simpa using h
    exact scanl_step _ init zs i h'

/-! ### geometric Brownian motion -/

/-- `S_i = init·exp((mu − sigma²/2)·t_i + sigma·W_{t_i})`: the exact solution of
`dS = mu S dt + sigma S dW` on the grid -/
theorem gbm_eq (init sigma mu dt z0 : ℝ) (zs : List ℝ) :
    geometricBrownian init sigma mu dt (z0 :: zs)
      = (List.range (zs.length + 1)).map
          (fun (i : ℕ) => init * Real.exp ((mu - sigma ^ 2 / 2) * dt * i
              + sigma * Real.sqrt dt * (zs.take i).sum)) :=
  gbm_closed init sigma mu dt z0 zs

/-- the geometric Brownian path is the scan of the exact multiplicative step -/
theorem gbm_scan (init sigma mu dt z0 : ℝ) (zs : List ℝ) :
    geometricBrownian init sigma mu dt (z0 :: zs)
      = List.scanl (fun S z => S * Real.exp ((mu - sigma ^ 2 / 2) * dt + sigma * Real.sqrt dt * z))
          init zs := by
  rw [gbm_closed]
  refine (scanl_eq_map_range _ zs _ init (by simp) ?_).symm
  intro i h
  simp only [List.sum_take_succ zs i h]
  rw [mul_assoc init, ← Real.exp_add]
  push_cast
  congr 2
  ring

theorem gbm_head (init sigma mu dt : ℝ) (z : List ℝ) (h : 0 < z.length) :
    (geometricBrownian init sigma mu dt z)[0]? = some init := by
  cases z with
  | nil => simp at h
  | cons z0 zs => rw [gbm_scan]; exact List.getElem?_scanl_zero

/-- `S_{i+1} = S_i · exp((mu − sigma²/2)·dt + sigma·√dt·z_{i+1})` -/
theorem gbm_step (init sigma mu dt : ℝ) (z : List ℝ) (i : ℕ) (h : i + 1 < z.length) :
    ∃ a, (geometricBrownian init sigma mu dt z)[i]? = some a ∧
      (geometricBrownian init sigma mu dt z)[i + 1]?
        = some (a * Real.exp ((mu - sigma ^ 2 / 2) * dt + sigma * Real.sqrt dt * z[i + 1])) := by
  cases z with
  | nil => simp at h
  | cons z0 zs =>
    rw [gbm_scan]
    have h' : i < zs.length := by simpa using h
    exact scanl_step _ init zs i h'

end PfVerif.C10
