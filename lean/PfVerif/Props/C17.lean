/-
  C17 — dtype contract of primary instruments.
  "After any sequence of to()/float()/double()/half()/simulate()/register_buffer calls, every
  buffer of a primary instrument has the dtype the instrument currently declares, subsequent
  simulations are produced in it, and results computed from such instruments are in that same
  dtype; non-floating dtypes are rejected."
  Model: Model/DType.lean (state machine `PrimState` / `DOp` / `runOps`).  Core Lean only.

  Remarks on the model (documented, not defects of the proofs):
  * `DInv` constrains buffers only while a dtype is declared.  An instrument built with
    `dtype=None` that is never cast has `declared = none`; its buffers then carry whatever dtype
    they were produced / registered in (ambient default at simulation time, or the user tensor's
    dtype, possibly non-floating).  See `undeclared_may_mix` below.
  * in `castAll` the requested dtype is irrelevant whenever a dtype is declared, because the
    re-registration casts to the declared dtype anyway (`castAll_declared`).
-/
import PfVerif.Model.DType

namespace PfVerif.C17Aux
open PfVerif

/-- the dtype `register_buffer` stores: the declared one when there is one -/
def stored (declared : Option DType) (d : DType) : DType :=
  match declared with
  | some x => x
  | none => d

/-- the dtype `simulate` produces its tensors in -/
def produced (s : PrimState) : DType :=
  match s.declared with
  | some d => d
  | none => s.ambient

theorem stored_produced (s : PrimState) : stored s.declared (produced s) = produced s := by
  unfold stored produced; cases s.declared <;> rfl

theorem regBuf_eq (dec : Option DType) (b : List (String × DType)) (n : String) (d : DType) :
    regBuf dec b n d =
      if b.any (fun p => p.1 == n) then b.map (fun p => if p.1 == n then (n, stored dec d) else p)
      else b ++ [(n, stored dec d)] := rfl

/-! ### `regBuf` -/

/-- every entry after `register_buffer` is an untouched old entry of another name, or the new one -/
theorem regBuf_mem_cases {dec : Option DType} {b : List (String × DType)} {n : String} {d : DType}
    {p : String × DType} (hp : p ∈ regBuf dec b n d) :
    (p ∈ b ∧ p.1 ≠ n) ∨ p = (n, stored dec d) := by
  rw [regBuf_eq] at hp
  split at hp
  · rcases List.mem_map.1 hp with ⟨q, hq, rfl⟩
    by_cases hqn : q.1 = n
    · right; simp [hqn]
    · left; simp [hqn, hq]
  · rename_i hany
    rcases List.mem_append.1 hp with h | h
    · left
      refine ⟨h, ?_⟩
      intro hpn
      apply hany
      exact List.any_eq_true.2 ⟨p, h, by simp [hpn]⟩
    · right; simpa using h

/-- the registered name is present afterwards, with the stored dtype -/
theorem regBuf_has (dec : Option DType) (b : List (String × DType)) (n : String) (d : DType) :
    (n, stored dec d) ∈ regBuf dec b n d := by
  rw [regBuf_eq]
  split
  · rename_i hany
    rcases List.any_eq_true.1 hany with ⟨q, hq, hqn⟩
    exact List.mem_map.2 ⟨q, hq, by simp [hqn]⟩
  · simp

/-- entries of other names are kept -/
theorem regBuf_keeps_other {dec : Option DType} {b : List (String × DType)} {n : String}
    {d : DType} {p : String × DType} (hp : p ∈ b) (hn : p.1 ≠ n) : p ∈ regBuf dec b n d := by
  rw [regBuf_eq]
  split
  · exact List.mem_map.2 ⟨p, hp, by simp [hn]⟩
  · exact List.mem_append_left _ hp

/-- every entry under the registered name has the stored dtype afterwards -/
theorem regBuf_named {dec : Option DType} {b : List (String × DType)} {n : String} {d : DType}
    {p : String × DType} (hp : p ∈ regBuf dec b n d) (hn : p.1 = n) : p.2 = stored dec d := by
  rcases regBuf_mem_cases hp with ⟨_, h⟩ | h
  · exact absurd hn h
  · rw [h]

/-- the list of names: unchanged when the name exists (replace in place), else appended -/
theorem regBuf_names (dec : Option DType) (b : List (String × DType)) (n : String) (d : DType) :
    (regBuf dec b n d).map Prod.fst =
      if n ∈ b.map Prod.fst then b.map Prod.fst else b.map Prod.fst ++ [n] := by
  rw [regBuf_eq]
  by_cases hany : b.any (fun p => p.1 == n) = true
  · have hmem : n ∈ b.map Prod.fst := by
      rcases List.any_eq_true.1 hany with ⟨q, hq, hqn⟩
      exact List.mem_map.2 ⟨q, hq, by simpa using hqn⟩
    rw [if_pos hany, if_pos hmem, List.map_map]
    apply List.map_congr_left
    intro q _
    by_cases hqn : q.1 = n <;> simp [hqn]
  · have hmem : ¬ n ∈ b.map Prod.fst := by
      intro h
      rcases List.mem_map.1 h with ⟨q, hq, hqn⟩
      exact hany (List.any_eq_true.2 ⟨q, hq, by simp [hqn]⟩)
    rw [if_neg hany, if_neg hmem]
    simp

/-- no duplicate names are introduced -/
theorem regBuf_nodup {dec : Option DType} {b : List (String × DType)} {n : String} {d : DType}
    (h : (b.map Prod.fst).Nodup) : ((regBuf dec b n d).map Prod.fst).Nodup := by
  rw [regBuf_names]
  split
  · exact h
  · rename_i hmem
    rw [List.nodup_append]
    refine ⟨h, by simp, ?_⟩
    intro a ha c hc
    have : c = n := by simpa using hc
    subst this
    intro hac
    exact hmem (hac ▸ ha)

/-- a uniform dtype is preserved by `register_buffer` when that dtype is the declared one -/
theorem regBuf_uniform {b : List (String × DType)} {n : String} {d x : DType}
    (h : ∀ p ∈ b, p.2 = x) : ∀ p ∈ regBuf (some x) b n d, p.2 = x := by
  intro p hp
  rcases regBuf_mem_cases hp with ⟨hb, _⟩ | hnew
  · exact h p hb
  · rw [hnew]; rfl

/-! ### the buffers registered by one `simulate` -/

/-- buffers after `simulate` registered `names`, all produced in dtype `e` -/
def simBufs (dec : Option DType) (b : List (String × DType)) (names : List String) (e : DType) :
    List (String × DType) :=
  names.foldl (fun b n => regBuf dec b n e) b

theorem simBufs_cons (dec : Option DType) (b : List (String × DType)) (n : String)
    (names : List String) (e : DType) :
    simBufs dec b (n :: names) e = simBufs dec (regBuf dec b n e) names e := rfl

theorem simBufs_uniform {x e : DType} (names : List String) {b : List (String × DType)}
    (h : ∀ p ∈ b, p.2 = x) : ∀ p ∈ simBufs (some x) b names e, p.2 = x := by
  induction names generalizing b with
  | nil => exact h
  | cons n ns ih => rw [simBufs_cons]; exact ih (regBuf_uniform h)

theorem simBufs_nodup {dec : Option DType} {e : DType} (names : List String)
    {b : List (String × DType)} (h : (b.map Prod.fst).Nodup) :
    ((simBufs dec b names e).map Prod.fst).Nodup := by
  induction names generalizing b with
  | nil => exact h
  | cons n ns ih => rw [simBufs_cons]; exact ih (regBuf_nodup h)

/-- an entry of name `n` with the stored dtype survives further registrations of dtype `e` -/
theorem simBufs_keeps_has {dec : Option DType} {e : DType} {n : String} (names : List String)
    {b : List (String × DType)} (h : ∃ p ∈ b, p.1 = n ∧ p.2 = stored dec e) :
    ∃ p ∈ simBufs dec b names e, p.1 = n ∧ p.2 = stored dec e := by
  induction names generalizing b with
  | nil => exact h
  | cons m ms ih =>
    rw [simBufs_cons]
    apply ih
    rcases h with ⟨p, hp, hpn, hpd⟩
    by_cases hm : p.1 = m
    · exact ⟨(m, stored dec e), regBuf_has dec b m e, by rw [← hpn, hm], rfl⟩
    · exact ⟨p, regBuf_keeps_other hp hm, hpn, hpd⟩

/-- every simulated name is present afterwards with the stored dtype -/
theorem simBufs_has {dec : Option DType} {e : DType} (names : List String)
    (b : List (String × DType)) :
    ∀ n ∈ names, ∃ p ∈ simBufs dec b names e, p.1 = n ∧ p.2 = stored dec e := by
  induction names generalizing b with
  | nil => intro n hn; cases hn
  | cons m ms ih =>
    intro n hn
    rw [simBufs_cons]
    rcases List.mem_cons.1 hn with rfl | hn
    · exact simBufs_keeps_has ms ⟨_, regBuf_has dec b n e, rfl, rfl⟩
    · exact ih _ n hn

/-- "all entries named `n` have the stored dtype" survives further registrations -/
theorem simBufs_keeps_named {dec : Option DType} {e : DType} {n : String} (names : List String)
    {b : List (String × DType)} (h : ∀ p ∈ b, p.1 = n → p.2 = stored dec e) :
    ∀ p ∈ simBufs dec b names e, p.1 = n → p.2 = stored dec e := by
  induction names generalizing b with
  | nil => exact h
  | cons m ms ih =>
    rw [simBufs_cons]
    apply ih
    intro p hp hpn
    rcases regBuf_mem_cases hp with ⟨hb, _⟩ | hnew
    · exact h p hb hpn
    · rw [hnew]

/-- EVERY entry under a simulated name has the stored dtype afterwards -/
theorem simBufs_named {dec : Option DType} {e : DType} (names : List String)
    (b : List (String × DType)) :
    ∀ n ∈ names, ∀ p ∈ simBufs dec b names e, p.1 = n → p.2 = stored dec e := by
  induction names generalizing b with
  | nil => intro n hn; cases hn
  | cons m ms ih =>
    intro n hn
    rw [simBufs_cons]
    rcases List.mem_cons.1 hn with rfl | hn
    · exact simBufs_keeps_named ms (fun p hp hpn => regBuf_named hp hpn)
    · exact ih _ n hn

/-- every entry after `simulate` is an old entry or a produced one under a simulated name -/
theorem simBufs_mem_cases {dec : Option DType} {e : DType} (names : List String)
    {b : List (String × DType)} :
    ∀ p ∈ simBufs dec b names e, p ∈ b ∨ (p.1 ∈ names ∧ p.2 = stored dec e) := by
  induction names generalizing b with
  | nil => intro p hp; exact Or.inl hp
  | cons m ms ih =>
    intro p hp
    rw [simBufs_cons] at hp
    rcases ih p hp with h | ⟨h1, h2⟩
    · rcases regBuf_mem_cases h with ⟨hb, _⟩ | hnew
      · exact Or.inl hb
      · right; rw [hnew]; exact ⟨List.mem_cons_self, rfl⟩
    · exact Or.inr ⟨List.mem_cons_of_mem _ h1, h2⟩

/-- buffers untouched by `simulate`: names not simulated keep their entries -/
theorem simBufs_keeps_other {dec : Option DType} {e : DType} (names : List String)
    {b : List (String × DType)} {p : String × DType} (hp : p ∈ b) (hn : p.1 ∉ names) :
    p ∈ simBufs dec b names e := by
  induction names generalizing b with
  | nil => exact hp
  | cons m ms ih =>
    rw [simBufs_cons]
    have hm : p.1 ≠ m := fun h => hn (h ▸ List.mem_cons_self)
    exact ih (regBuf_keeps_other hp hm) (fun h => hn (List.mem_cons_of_mem _ h))

/-! ### `castAll` / `doTo` -/

theorem castAll_declared (x : DType) (req : Option DType) (b : List (String × DType)) :
    castAll (some x) req b = b.map (fun p => (p.1, x)) := rfl

theorem castAll_undeclared_none (b : List (String × DType)) : castAll none none b = b := by
  unfold castAll
  simp

theorem castAll_names (dec req : Option DType) (b : List (String × DType)) :
    (castAll dec req b).map Prod.fst = b.map Prod.fst := by
  unfold castAll
  simp [List.map_map, Function.comp_def]

theorem castAll_uniform (x : DType) (req : Option DType) (b : List (String × DType)) :
    ∀ p ∈ castAll (some x) req b, p.2 = x := by
  intro p hp
  rw [castAll_declared] at hp
  rcases List.mem_map.1 hp with ⟨q, _, rfl⟩
  rfl

/-- inversion of a successful `doTo` -/
theorem doTo_ok {s s' : PrimState} {req : Option DType} (h : doTo s req = .ok s') :
    (∃ d, req = some d ∧ d.isFloating = true ∧
        s' = { s with declared := some d, buffers := castAll (some d) (some d) s.buffers }) ∨
    (req = none ∧ s' = { s with buffers := castAll s.declared none s.buffers }) := by
  cases req with
  | none =>
    right
    simp only [doTo, Except.ok.injEq] at h
    exact ⟨rfl, h.symm⟩
  | some d =>
    left
    cases hf : d.isFloating with
    | false => simp [doTo, hf] at h
    | true =>
      simp only [doTo, hf, Bool.not_true, Bool.false_eq_true, if_false, Except.ok.injEq] at h
      exact ⟨d, rfl, hf, h.symm⟩

theorem doTo_rejects {s : PrimState} {d : DType} (h : d.isFloating = false) :
    doTo s (some d) = .error .typeError := by
  simp [doTo, h]

theorem doTo_inv {s s' : PrimState} {req : Option DType} (h : doTo s req = .ok s') : DInv s' := by
  rcases doTo_ok h with ⟨d, _, _, rfl⟩ | ⟨_, rfl⟩
  · intro x hx p hp
    simp only [Option.some.injEq] at hx
    subst hx
    exact castAll_uniform d (some d) s.buffers p hp
  · intro x hx p hp
    simp only at hx hp
    rw [hx] at hp
    exact castAll_uniform x none s.buffers p hp

/-- the declared dtype after one successful step: unchanged, or a floating dtype just cast to -/
theorem step_declared {s s' : PrimState} {op : DOp} (h : op.step s = .ok s') :
    s'.declared = s.declared ∨ ∃ d, d.isFloating = true ∧ s'.declared = some d := by
  cases op with
  | to r =>
    rcases doTo_ok (show doTo s r = .ok s' from h) with ⟨d, _, hf, rfl⟩ | ⟨_, rfl⟩
    · exact Or.inr ⟨d, hf, rfl⟩
    · exact Or.inl rfl
  | toTensor r =>
    rcases doTo_ok (show doTo s (some r) = .ok s' from h) with ⟨d, _, hf, rfl⟩ | ⟨_, rfl⟩
    · exact Or.inr ⟨d, hf, rfl⟩
    · exact Or.inl rfl
  | toInstrument r =>
    rcases doTo_ok (show doTo s r = .ok s' from h) with ⟨d, _, hf, rfl⟩ | ⟨_, rfl⟩
    · exact Or.inr ⟨d, hf, rfl⟩
    · exact Or.inl rfl
  | simulate names =>
    simp only [DOp.step, Except.ok.injEq] at h
    subst h; exact Or.inl rfl
  | registerBuffer n d =>
    simp only [DOp.step, Except.ok.injEq] at h
    subst h; exact Or.inl rfl
  | setDefault d =>
    cases hf : d.isFloating with
    | false => simp [DOp.step, hf] at h
    | true =>
      simp only [DOp.step, hf, if_true, Except.ok.injEq] at h
      subst h; exact Or.inl rfl

/-- inversion of a `simulate` step -/
theorem simulate_ok {s s' : PrimState} {names : List String}
    (h : (DOp.simulate names).step s = .ok s') :
    s' = { s with buffers := simBufs s.declared s.buffers names (produced s) } := by
  simp only [DOp.step, Except.ok.injEq] at h
  exact h.symm

/-- names are unique (the buffers form a dict) -/
def NamesNodup (s : PrimState) : Prop := (s.buffers.map Prod.fst).Nodup

/-- induction principle over histories for step-preserved predicates -/
theorem runOps_preserves {P : PrimState → Prop}
    (hstep : ∀ s s' op, P s → DOp.step s op = .ok s' → P s') :
    ∀ (ops : List DOp) (s : PrimState), P s → P (runOps s ops) := by
  intro ops
  induction ops with
  | nil => intro s h; exact h
  | cons op rest ih =>
    intro s h
    simp only [runOps]
    cases hs : op.step s with
    | ok s' => exact ih s' (hstep s s' op h hs)
    | error e => exact ih s h

theorem find?_spot_of_mem {b : List (String × DType)} (h : ∃ p ∈ b, p.1 = "spot") :
    ∃ q, b.find? (fun p => p.1 == "spot") = some q ∧ q ∈ b ∧ q.1 = "spot" := by
  cases hf : b.find? (fun p => p.1 == "spot") with
  | none =>
    rcases h with ⟨p, hp, hpn⟩
    have := List.find?_eq_none.1 hf p hp
    simp [hpn] at this
  | some q =>
    refine ⟨q, rfl, List.mem_of_find?_eq_some hf, ?_⟩
    have := List.find?_some hf
    simpa using this

/-- the history of the property statement, from `BrownianStock()` under default `float32` -/
def demoOps : List DOp :=
  [.simulate ["spot"], .to (some .f64), .registerBuffer "x" .i64,
   .simulate ["spot", "variance"], .to (some .i64)]

/-- `BrownianStock()` before any call -/
def demoInit : PrimState := { declared := none, buffers := [], ambient := .f32 }

end PfVerif.C17Aux

namespace PfVerif.C17
open PfVerif PfVerif.C17Aux

/-! ### construction -/

/-- a freshly constructed instrument satisfies the invariant -/
theorem inv_init {dtype : Option DType} {ambient : DType} {s : PrimState}
    (h : initState dtype ambient = .ok s) : DInv s :=
  doTo_inv h

/-- the constructor rejects non-floating dtypes -/
theorem init_rejects {d : DType} (ambient : DType) (h : d.isFloating = false) :
    initState (some d) ambient = .error .typeError :=
  doTo_rejects h

/-- what the constructor yields: the requested dtype is declared, no buffers, names unique -/
theorem init_state {dtype : Option DType} {ambient : DType} {s : PrimState}
    (h : initState dtype ambient = .ok s) :
    s.declared = dtype ∧ s.buffers = [] ∧ s.ambient = ambient ∧
      (∀ d, dtype = some d → d.isFloating = true) := by
  rcases doTo_ok h with ⟨d, rfl, hf, rfl⟩ | ⟨rfl, rfl⟩
  · refine ⟨rfl, rfl, rfl, ?_⟩
    intro d' hd'
    simp only [Option.some.injEq] at hd'
    rw [← hd']; exact hf
  · refine ⟨rfl, rfl, rfl, ?_⟩
    intro d' hd'; cases hd'

/-! ### the invariant is inductive -/

/-- every operation preserves "each buffer has the declared dtype" -/
theorem inv_step {s s' : PrimState} {op : DOp} (hinv : DInv s) (h : op.step s = .ok s') :
    DInv s' := by
  cases op with
  | to r => exact doTo_inv (show doTo s r = .ok s' from h)
  | toTensor r => exact doTo_inv (show doTo s (some r) = .ok s' from h)
  | toInstrument r => exact doTo_inv (show doTo s r = .ok s' from h)
  | simulate names =>
    rw [simulate_ok h]
    intro x hx p hp
    simp only at hx hp
    rw [hx] at hp
    exact simBufs_uniform names (hinv x hx) p hp
  | registerBuffer n d =>
    simp only [DOp.step, Except.ok.injEq] at h
    subst h
    intro x hx p hp
    simp only at hx hp
    rw [hx] at hp
    exact regBuf_uniform (hinv x hx) p hp
  | setDefault d =>
    cases hf : d.isFloating with
    | false => simp [DOp.step, hf] at h
    | true =>
      simp only [DOp.step, hf, if_true, Except.ok.injEq] at h
      subst h
      exact hinv

/-- the invariant holds after every history, of any length -/
theorem inv_reachable {s : PrimState} (hinv : DInv s) (ops : List DOp) : DInv (runOps s ops) :=
  runOps_preserves (P := DInv) (fun _ _ _ hP hs => inv_step hP hs) ops s hinv

theorem inv_from_init {dtype : Option DType} {ambient : DType} {s : PrimState}
    (h : initState dtype ambient = .ok s) (ops : List DOp) : DInv (runOps s ops) :=
  inv_reachable (inv_init h) ops

/-- buffer names stay unique (the buffers are a dict) under every operation -/
theorem names_nodup_step {s s' : PrimState} {op : DOp} (hn : NamesNodup s)
    (h : op.step s = .ok s') : NamesNodup s' := by
  have hto : ∀ r, doTo s r = .ok s' → NamesNodup s' := by
    intro r hr
    rcases doTo_ok hr with ⟨d, _, _, rfl⟩ | ⟨_, rfl⟩
    · unfold NamesNodup; simp only; rw [castAll_names]; exact hn
    · unfold NamesNodup; simp only; rw [castAll_names]; exact hn
  cases op with
  | to r => exact hto r h
  | toTensor r => exact hto (some r) h
  | toInstrument r => exact hto r h
  | simulate names =>
    rw [simulate_ok h]
    exact simBufs_nodup names hn
  | registerBuffer n d =>
    simp only [DOp.step, Except.ok.injEq] at h
    subst h
    exact regBuf_nodup hn
  | setDefault d =>
    cases hf : d.isFloating with
    | false => simp [DOp.step, hf] at h
    | true =>
      simp only [DOp.step, hf, if_true, Except.ok.injEq] at h
      subst h
      exact hn

theorem names_nodup_from_init {dtype : Option DType} {ambient : DType} {s : PrimState}
    (h : initState dtype ambient = .ok s) (ops : List DOp) : NamesNodup (runOps s ops) := by
  refine runOps_preserves (P := NamesNodup) (fun _ _ _ hP hs => names_nodup_step hP hs) ops s ?_
  unfold NamesNodup
  rw [(init_state h).2.1]
  exact List.nodup_nil

/-! ### casts -/

/-- a cast to a floating dtype declares it and re-types every existing buffer (names kept) -/
theorem declared_after_to {s s' : PrimState} {d : DType} (_hf : d.isFloating = true)
    (h : (DOp.to (some d)).step s = .ok s') :
    s'.declared = some d ∧ ∀ p ∈ s'.buffers, p.2 = d := by
  rcases doTo_ok (show doTo s (some d) = .ok s' from h) with ⟨d', hd', _, rfl⟩ | ⟨hd', _⟩
  · simp only [Option.some.injEq] at hd'
    subst hd'
    exact ⟨rfl, castAll_uniform d (some d) s.buffers⟩
  · cases hd'

/-- a cast keeps the buffer names, in order -/
theorem to_keeps_names {s s' : PrimState} {r : Option DType} (h : (DOp.to r).step s = .ok s') :
    s'.buffers.map Prod.fst = s.buffers.map Prod.fst ∧ s'.ambient = s.ambient := by
  rcases doTo_ok (show doTo s r = .ok s' from h) with ⟨d, _, _, rfl⟩ | ⟨_, rfl⟩
  · exact ⟨castAll_names (some d) (some d) s.buffers, rfl⟩
  · exact ⟨castAll_names s.declared none s.buffers, rfl⟩

/-- `to(device)` without a dtype keeps the declared dtype -/
theorem to_none_keeps {s s' : PrimState} (h : (DOp.to none).step s = .ok s') :
    s'.declared = s.declared := by
  rcases doTo_ok (show doTo s none = .ok s' from h) with ⟨d, hd, _, _⟩ | ⟨_, rfl⟩
  · cases hd
  · rfl

/-- ... and, on an instrument satisfying the invariant, is the identity -/
theorem to_none_id {s s' : PrimState} (hinv : DInv s) (h : (DOp.to none).step s = .ok s') :
    s' = s := by
  rcases doTo_ok (show doTo s none = .ok s' from h) with ⟨d, hd, _, _⟩ | ⟨_, rfl⟩
  · cases hd
  · have : castAll s.declared none s.buffers = s.buffers := by
      cases hdec : s.declared with
      | none => exact castAll_undeclared_none _
      | some x =>
        rw [castAll_declared]
        conv => rhs; rw [← List.map_id s.buffers]
        apply List.map_congr_left
        intro p hp
        rw [← hinv x hdec p hp]; rfl
    rw [this]

/-- non-floating dtypes are rejected by every form of `to` -/
theorem nonfloating_rejected {d : DType} (s : PrimState) (h : d.isFloating = false) :
    (DOp.to (some d)).step s = .error .typeError ∧
    (DOp.toTensor d).step s = .error .typeError ∧
    (DOp.toInstrument (some d)).step s = .error .typeError :=
  ⟨doTo_rejects h, doTo_rejects h, doTo_rejects h⟩

/-- the only error the machine raises is the type error -/
theorem only_type_errors {s : PrimState} {op : DOp} {e : Err} (h : op.step s = .error e) :
    e = .typeError := by
  have hto : ∀ r, doTo s r = .error e → e = .typeError := by
    intro r hr
    cases r with
    | none => simp [doTo] at hr
    | some d =>
      cases hf : d.isFloating with
      | false => rw [doTo_rejects hf] at hr; cases hr; rfl
      | true => simp [doTo, hf] at hr
  cases op with
  | to r => exact hto r h
  | toTensor r => exact hto (some r) h
  | toInstrument r => exact hto r h
  | simulate names => simp [DOp.step] at h
  | registerBuffer n d => simp [DOp.step] at h
  | setDefault d =>
    cases hf : d.isFloating with
    | false => simp [DOp.step, hf] at h; exact h.symm
    | true => simp [DOp.step, hf] at h

/-- floating dtypes are accepted: `to` fails exactly on non-floating requests -/
theorem to_accepts_floating {d : DType} (s : PrimState) (h : d.isFloating = true) :
    ∃ s', (DOp.to (some d)).step s = .ok s' := by
  refine ⟨{ s with declared := some d, buffers := castAll (some d) (some d) s.buffers }, ?_⟩
  simp [DOp.step, doTo, h]

/-- a rejected operation leaves the instrument untouched -/
theorem rejected_state_unchanged {s : PrimState} {op : DOp} {e : Err} (rest : List DOp)
    (h : op.step s = .error e) : runOps s (op :: rest) = runOps s rest := by
  simp only [runOps, h]

theorem accepted_state_advances {s s' : PrimState} {op : DOp} (rest : List DOp)
    (h : op.step s = .ok s') : runOps s (op :: rest) = runOps s' rest := by
  simp only [runOps, h]

/-! ### simulation -/

/-- simulations are produced in the declared dtype, or in the ambient default when none is
declared: every simulated name is present with that dtype -/
theorem simulate_dtype {s s' : PrimState} {names : List String}
    (h : (DOp.simulate names).step s = .ok s') :
    ∀ n ∈ names, ∃ p ∈ s'.buffers, p.1 = n ∧
      p.2 = (match s.declared with | some d => d | none => s.ambient) := by
  rw [simulate_ok h]
  intro n hn
  have := simBufs_has (dec := s.declared) (e := produced s) names s.buffers n hn
  rw [stored_produced] at this
  exact this

/-- stronger: EVERY buffer under a simulated name has that dtype (so attribute lookup by name
cannot see a stale entry), and every other buffer is an untouched old one -/
theorem simulate_dtype_all {s s' : PrimState} {names : List String}
    (h : (DOp.simulate names).step s = .ok s') :
    (∀ p ∈ s'.buffers, p.1 ∈ names →
      p.2 = (match s.declared with | some d => d | none => s.ambient)) ∧
    (∀ p ∈ s'.buffers, p.1 ∉ names → p ∈ s.buffers) ∧
    (∀ p ∈ s.buffers, p.1 ∉ names → p ∈ s'.buffers) ∧
    s'.declared = s.declared ∧ s'.ambient = s.ambient := by
  rw [simulate_ok h]
  refine ⟨?_, ?_, ?_, rfl, rfl⟩
  · intro p hp hn
    have := simBufs_named (dec := s.declared) (e := produced s) names s.buffers p.1 hn p hp rfl
    rw [stored_produced] at this
    exact this
  · intro p hp hn
    rcases simBufs_mem_cases names p hp with hb | ⟨h1, _⟩
    · exact hb
    · exact absurd h1 hn
  · intro p hp hn
    exact simBufs_keeps_other names hp hn

/-- with a declared dtype, simulations are produced in it -/
theorem simulate_in_declared {s s' : PrimState} {names : List String} {d : DType}
    (hd : s.declared = some d) (h : (DOp.simulate names).step s = .ok s') :
    ∀ n ∈ names, ∃ p ∈ s'.buffers, p.1 = n ∧ p.2 = d := by
  have := simulate_dtype h
  rw [hd] at this
  exact this

/-- the ambient default is used only when no dtype is declared -/
theorem ambient_only_when_undeclared {s s' : PrimState} {names : List String}
    (hd : s.declared = none) (h : (DOp.simulate names).step s = .ok s') :
    (∀ n ∈ names, ∃ p ∈ s'.buffers, p.1 = n ∧ p.2 = s.ambient) ∧
    (∀ p ∈ s'.buffers, p.1 ∈ names → p.2 = s.ambient) := by
  have h1 := simulate_dtype h
  have h2 := (simulate_dtype_all h).1
  rw [hd] at h1 h2
  exact ⟨h1, h2⟩

/-- changing the ambient default does not touch an instrument -/
theorem set_default_keeps {s s' : PrimState} {d : DType} (h : (DOp.setDefault d).step s = .ok s') :
    s'.declared = s.declared ∧ s'.buffers = s.buffers := by
  cases hf : d.isFloating with
  | false => simp [DOp.step, hf] at h
  | true =>
    simp only [DOp.step, hf, if_true, Except.ok.injEq] at h
    subst h
    exact ⟨rfl, rfl⟩

/-- `register_buffer` on a declared instrument stores the declared dtype, whatever the tensor's -/
theorem register_buffer_dtype {s s' : PrimState} {n : String} {d : DType}
    (h : (DOp.registerBuffer n d).step s = .ok s') :
    (∃ p ∈ s'.buffers, p.1 = n) ∧
    ∀ p ∈ s'.buffers, p.1 = n → p.2 = (match s.declared with | some x => x | none => d) := by
  simp only [DOp.step, Except.ok.injEq] at h
  subst h
  exact ⟨⟨_, regBuf_has s.declared s.buffers n d, rfl⟩, fun p hp hn => regBuf_named hp hn⟩

/-! ### the declared dtype over histories -/

/-- once declared, a dtype is never forgotten -/
theorem declared_monotone {s : PrimState} (ops : List DOp)
    (h : (runOps s ops).declared = none) : s.declared = none := by
  induction ops generalizing s with
  | nil => exact h
  | cons op rest ih =>
    simp only [runOps] at h
    cases hs : op.step s with
    | error e => rw [hs] at h; exact ih h
    | ok s' =>
      rw [hs] at h
      have h' := ih h
      rcases step_declared hs with heq | ⟨d, _, hd⟩
      · rw [← heq]; exact h'
      · rw [hd] at h'; cases h'

theorem declared_stays_some {s : PrimState} (ops : List DOp) (h : s.declared.isSome = true) :
    (runOps s ops).declared.isSome = true := by
  cases hr : (runOps s ops).declared with
  | some d => rfl
  | none => rw [declared_monotone ops hr] at h; cases h

/-- a declared dtype is always floating -/
theorem declared_floating {s : PrimState} (ops : List DOp)
    (h : ∀ d, s.declared = some d → d.isFloating = true) :
    ∀ d, (runOps s ops).declared = some d → d.isFloating = true := by
  refine runOps_preserves (P := fun s => ∀ d, s.declared = some d → d.isFloating = true)
    ?_ ops s h
  intro s s' op hP hs d hd
  rcases step_declared hs with heq | ⟨d', hf, hd'⟩
  · exact hP d (heq ▸ hd)
  · rw [hd'] at hd
    simp only [Option.some.injEq] at hd
    rw [← hd]; exact hf

theorem declared_floating_from_init {dtype : Option DType} {ambient : DType} {s : PrimState}
    (h : initState dtype ambient = .ok s) (ops : List DOp) :
    ∀ d, (runOps s ops).declared = some d → d.isFloating = true := by
  apply declared_floating ops
  intro d hd
  have hi := init_state h
  exact hi.2.2.2 d (hi.1 ▸ hd)

/-- the declared dtype only changes through an accepted cast to a floating dtype -/
theorem declared_changes_only_by_cast {s s' : PrimState} {op : DOp} (h : op.step s = .ok s') :
    s'.declared = s.declared ∨ ∃ d, d.isFloating = true ∧ s'.declared = some d :=
  step_declared h

/-! ### results -/

/-- results computed from an instrument (payoff, features, price, hedge, P&L, loss) carry the
declared dtype whenever they exist -/
theorem results_in_declared_dtype {s : PrimState} {d : DType} (hinv : DInv s)
    (hd : s.declared = some d) : resultDType s = none ∨ resultDType s = some d := by
  unfold resultDType
  cases hf : s.buffers.find? (fun p => p.1 == "spot") with
  | none => exact Or.inl rfl
  | some p =>
    right
    simp only [Option.map_some, Option.some.injEq]
    exact hinv d hd p (List.mem_of_find?_eq_some hf)

/-- results exist exactly when a `spot` buffer does -/
theorem result_exists_iff (s : PrimState) :
    (resultDType s).isSome = true ↔ ∃ p ∈ s.buffers, p.1 = "spot" := by
  unfold resultDType
  constructor
  · intro h
    cases hf : s.buffers.find? (fun p => p.1 == "spot") with
    | none => rw [hf] at h; cases h
    | some q =>
      exact ⟨q, List.mem_of_find?_eq_some hf, by simpa using List.find?_some hf⟩
  · intro h
    rcases find?_spot_of_mem h with ⟨q, hq, _, _⟩
    rw [hq]; rfl

/-- after any history from construction: a simulated (`spot` present) instrument with a declared
dtype yields results in exactly that dtype -/
theorem results_after_history {dtype : Option DType} {ambient : DType} {s : PrimState} {d : DType}
    (h : initState dtype ambient = .ok s) (ops : List DOp)
    (hd : (runOps s ops).declared = some d)
    (hspot : ∃ p ∈ (runOps s ops).buffers, p.1 = "spot") :
    resultDType (runOps s ops) = some d := by
  rcases results_in_declared_dtype (inv_from_init h ops) hd with hn | hs
  · have := (result_exists_iff (runOps s ops)).2 hspot
    rw [hn] at this; cases this
  · exact hs

/-- right after a simulation that produces `spot`, results are in the produced dtype (declared
dtype, else ambient) — also for an undeclared instrument -/
theorem result_after_simulate {s s' : PrimState} {names : List String}
    (h : (DOp.simulate names).step s = .ok s') (hspot : "spot" ∈ names) :
    resultDType s' = some (match s.declared with | some d => d | none => s.ambient) := by
  rcases simulate_dtype h "spot" hspot with ⟨p, hp, hpn, _⟩
  rcases find?_spot_of_mem ⟨p, hp, hpn⟩ with ⟨q, hq, hqm, hqn⟩
  unfold resultDType
  rw [hq]
  simp only [Option.map_some, Option.some.injEq]
  exact (simulate_dtype_all h).1 q hqm (hqn ▸ hspot)

/-- two instruments with the same declared dtype yield results of the same dtype (hedge of a
derivative on an underlier cast with `to(other)`) -/
theorem results_agree {s t : PrimState} {d dr dt : DType} (hs : DInv s) (ht : DInv t)
    (hds : s.declared = some d) (hdt : t.declared = some d)
    (hrs : resultDType s = some dr) (hrt : resultDType t = some dt) : dr = dt := by
  rcases results_in_declared_dtype hs hds with h | h <;> rw [h] at hrs <;> cases hrs
  rcases results_in_declared_dtype ht hdt with h | h <;> rw [h] at hrt <;> cases hrt
  rfl

/-! ### non-vacuity -/

example : initState none .f32 = .ok demoInit := rfl

/-- final state: `float64` declared, all buffers `float64` (the `int64` user buffer was cast) -/
example : runOps demoInit demoOps =
    { declared := some .f64,
      buffers := [("spot", .f64), ("x", .f64), ("variance", .f64)],
      ambient := .f32 } := by decide

example : (runOps demoInit demoOps).declared = some .f64 ∧
    (∀ p ∈ (runOps demoInit demoOps).buffers, p.2 = .f64) ∧
    resultDType (runOps demoInit demoOps) = some .f64 := by decide

/-- the last operation (`to(torch.int64)`) is rejected and leaves the state untouched -/
example : (DOp.to (some .i64)).step (runOps demoInit demoOps.dropLast) = .error .typeError ∧
    runOps demoInit demoOps = runOps demoInit demoOps.dropLast := ⟨rfl, by decide⟩

/-- before the cast the simulation was produced in the ambient default -/
example : runOps demoInit [.simulate ["spot"]] =
    { declared := none, buffers := [("spot", .f32)], ambient := .f32 } := by decide

/-- the constructor rejects `dtype=torch.int32` -/
example : initState (some .i32) .f32 = .error .typeError := rfl

/-- limit of the property (see header): with no declared dtype, buffers may have mixed and even
non-floating dtypes; the invariant says nothing then, and `to(device)` does not repair it -/
theorem undeclared_may_mix :
    runOps demoInit [.simulate ["spot"], .setDefault .f64, .simulate ["variance"],
      .registerBuffer "x" .i64, .to none] =
    { declared := none,
      buffers := [("spot", .f32), ("variance", .f64), ("x", .i64)],
      ambient := .f64 } := by decide

/-- ... and the first cast repairs it -/
example :
    runOps demoInit [.simulate ["spot"], .setDefault .f64, .simulate ["variance"],
      .registerBuffer "x" .i64, .to (some .f16)] =
    { declared := some .f16,
      buffers := [("spot", .f16), ("variance", .f16), ("x", .f16)],
      ambient := .f64 } := by decide

end PfVerif.C17
