/-
  C15 — `Hedger.fit` is the explicit simulate / loss / backward / step loop.

  Model: Model/Fit.lean — `fit` as the list of its observable events (`FitEv`), for every
  configuration `c : FitCfg` (any epoch count, batch size, `n_times`, optimizer kind, lazy or
  materialised model, validation on or off, initial training flag).

  Reading of the events.  `simulate n i t g` is one call `derivative.simulate(n_paths=n,
  init_state=…)` (`i`: an initial state was passed) made while `self.training = t` and
  `torch.is_grad_enabled() = g`; `loss t g` is one evaluation of the criterion under the same two
  flags.  `zeroGrad`, `backward`, `step`, `mkOptimizer` are the optimizer interactions.

  Remark (`n_times = 0`).  `ensemble_mean` evaluates once when `n_times = 1` and otherwise stacks
  `n_times` evaluations; the model keeps this convention (`evalCount`).  For `n_times = 0` the model
  therefore records *zero* validation evaluations, where the real code calls `torch.stack([])` and
  raises `RuntimeError`; the model does not represent that failure, so the theorems below say
  nothing useful about the validation loss for `n_times = 0` (the training part is unaffected).

  `PfVerif.C15Aux` holds helpers; `PfVerif.C15` holds the property theorems.
-/
import PfVerif.Model.Fit

namespace PfVerif.C15Aux
open PfVerif

/-! ### `repeatL` -/

theorem repeatL_succ {β : Type} (k : Nat) (xs : List β) :
    repeatL (k + 1) xs = xs ++ repeatL k xs := rfl

theorem repeatL_nil {β : Type} (k : Nat) : repeatL k ([] : List β) = [] := by
  induction k with
  | zero => rfl
  | succ k ih => simp [repeatL, ih]

theorem count_repeatL {β : Type} [BEq β] (a : β) (k : Nat) (xs : List β) :
    (repeatL k xs).count a = k * xs.count a := by
  induction k with
  | zero => simp [repeatL]
  | succ k ih => simp [repeatL, List.count_append, ih, Nat.succ_mul, Nat.add_comm]

theorem countP_repeatL {β : Type} (p : β → Bool) (k : Nat) (xs : List β) :
    (repeatL k xs).countP p = k * xs.countP p := by
  induction k with
  | zero => simp [repeatL]
  | succ k ih => simp [repeatL, List.countP_append, ih, Nat.succ_mul, Nat.add_comm]

theorem filter_repeatL {β : Type} (p : β → Bool) (k : Nat) (xs : List β) :
    (repeatL k xs).filter p = repeatL k (xs.filter p) := by
  induction k with
  | zero => rfl
  | succ k ih => simp [repeatL, List.filter_append, ih]

theorem mem_repeatL {β : Type} {x : β} {k : Nat} {xs : List β} (h : x ∈ repeatL k xs) : x ∈ xs := by
  induction k with
  | zero => simp [repeatL] at h
  | succ k ih =>
    rcases List.mem_append.1 h with h | h
    · exact h
    · exact ih h

/-! ### the pieces of one epoch -/

/-- number of criterion evaluations made by `ensemble_mean(f, n_times)` -/
def evalCount (n : Nat) : Nat := if n = 1 then 1 else n

/-- one criterion evaluation: its own fresh batch, then the criterion -/
def evalPair (c : FitCfg) (t g : Bool) : List FitEv :=
  [FitEv.simulate c.nPaths c.withInit t g, FitEv.loss t g]

theorem flatMap_replicate_unit {β : Type} (m : Nat) (xs : List β) :
    (List.replicate m ()).flatMap (fun _ => xs) = repeatL m xs := by
  induction m with
  | zero => rfl
  | succ m ih => simp [List.replicate_succ, List.flatMap_cons, repeatL, ih]

theorem lossEvents_eq (c : FitCfg) (n : Nat) (t g : Bool) :
    lossEvents c n t g = repeatL (evalCount n) (evalPair c t g) := by
  unfold lossEvents evalCount evalPair
  exact flatMap_replicate_unit _ _

/-- the validation half of an epoch -/
def valEvents (c : FitCfg) : List FitEv :=
  if c.validation then [FitEv.setEval] ++ lossEvents c c.nTimes false false ++ [FitEv.valItem] else []

theorem epoch_eq (c : FitCfg) : epochEvents c = referenceEpoch c ++ valEvents c := by
  simp [epochEvents, referenceEpoch, valEvents, lossEvents]

/-- events that belong to the training computation: everything except `eval()`, the history
append and the simulate / loss events made with the model in evaluation mode -/
def isTrainingEvent : FitEv → Bool
  | .simulate _ _ t _ => t
  | .loss t _ => t
  | .setEval => false
  | .valItem => false
  | _ => true

/-- the optimizer-driving events `zero_grad`, `backward`, `step` -/
def isOptEvent : FitEv → Bool
  | .zeroGrad => true
  | .backward => true
  | .step => true
  | _ => false

def isLoss : FitEv → Bool
  | .loss _ _ => true
  | _ => false

def isSimulate : FitEv → Bool
  | .simulate _ _ _ _ => true
  | _ => false

theorem mem_lossEvents {c : FitCfg} {n : Nat} {t g : Bool} {e : FitEv}
    (h : e ∈ lossEvents c n t g) :
    e = FitEv.simulate c.nPaths c.withInit t g ∨ e = FitEv.loss t g := by
  rw [lossEvents_eq] at h
  simpa [evalPair] using mem_repeatL h

theorem mem_valEvents {c : FitCfg} {e : FitEv} (h : e ∈ valEvents c) :
    e = FitEv.setEval ∨ e = FitEv.valItem ∨
      e = FitEv.simulate c.nPaths c.withInit false false ∨ e = FitEv.loss false false := by
  unfold valEvents at h
  split at h
  · simp only [List.mem_append, List.mem_singleton] at h
    rcases h with (h | h) | h
    · exact Or.inl h
    · exact Or.inr (Or.inr (mem_lossEvents h))
    · exact Or.inr (Or.inl h)
  · simp at h

theorem mem_referenceEpoch {c : FitCfg} {e : FitEv} (h : e ∈ referenceEpoch c) :
    e = FitEv.setTrain ∨ e = FitEv.zeroGrad ∨ e = FitEv.simulate c.nPaths c.withInit true true ∨
      e = FitEv.loss true true ∨ e = FitEv.backward ∨ e = FitEv.step := by
  simpa [referenceEpoch] using h

theorem valEvents_filter_training (c : FitCfg) : (valEvents c).filter isTrainingEvent = [] := by
  rw [List.filter_eq_nil_iff]
  intro e he
  rcases mem_valEvents he with h | h | h | h <;> simp [h, isTrainingEvent]

theorem referenceEpoch_filter_training (c : FitCfg) :
    (referenceEpoch c).filter isTrainingEvent = referenceEpoch c := by
  simp [referenceEpoch, isTrainingEvent]

theorem valEvents_no_opt {c : FitCfg} {e : FitEv} (h : e ∈ valEvents c) : isOptEvent e = false := by
  rcases mem_valEvents h with h | h | h | h <;> simp [h, isOptEvent]

theorem count_valEvents_of_opt (c : FitCfg) (e : FitEv) (he : isOptEvent e = true) :
    (valEvents c).count e = 0 := by
  rw [List.count_eq_zero]
  intro hmem
  rw [valEvents_no_opt hmem] at he
  exact Bool.noConfusion he

/-! ### the configuration step and the shape of a successful run -/

theorem configure_cases {c : FitCfg} {cfg : List FitEv} (h : configureEvents c = .ok cfg) :
    (c.opt = .instance ∧ cfg = []) ∨
    (c.opt = .cls ∧ c.lazy = false ∧ cfg = [FitEv.mkOptimizer]) ∨
    (c.opt = .cls ∧ c.lazy = true ∧
      cfg = [FitEv.simulate 1 false c.startTraining true, FitEv.placeholderPl, FitEv.mkOptimizer]) := by
  unfold configureEvents at h
  split at h
  next ho =>
    injection h with h
    exact Or.inl ⟨ho, h.symm⟩
  next ho =>
    injection h with h
    cases hl : c.lazy
    · exact Or.inr (Or.inl ⟨ho, rfl, by simp [← h, hl]⟩)
    · exact Or.inr (Or.inr ⟨ho, rfl, by simp [← h, hl]⟩)
  next => cases h

theorem fit_inv {c : FitCfg} {evs : List FitEv} {hist : Option Nat}
    (h : fitEvents c = .ok (evs, hist)) :
    ∃ cfg, configureEvents c = .ok cfg ∧ evs = cfg ++ repeatL c.epochs (epochEvents c) ∧
      hist = (if c.validation then some c.epochs else none) := by
  unfold fitEvents at h
  split at h
  · cases h
  next cfg hc =>
    injection h with h
    injection h with h1 h2
    exact ⟨cfg, hc, h1.symm, h2.symm⟩

theorem cfg_no_opt {c : FitCfg} {cfg : List FitEv} (h : configureEvents c = .ok cfg) :
    ∀ e ∈ cfg, isOptEvent e = false := by
  rcases configure_cases h with ⟨_, rfl⟩ | ⟨_, _, rfl⟩ | ⟨_, _, rfl⟩ <;> simp [isOptEvent]

theorem count_cfg_of_opt {c : FitCfg} {cfg : List FitEv} (h : configureEvents c = .ok cfg)
    (e : FitEv) (he : isOptEvent e = true) : cfg.count e = 0 := by
  rw [List.count_eq_zero]
  intro hmem
  rw [cfg_no_opt h e hmem] at he
  exact Bool.noConfusion he

/-- count of an optimizer-driving event over a whole run = epochs × its count in the reference epoch -/
theorem count_opt_event {c : FitCfg} {evs : List FitEv} {hist : Option Nat}
    (h : fitEvents c = .ok (evs, hist)) (e : FitEv) (he : isOptEvent e = true) :
    evs.count e = c.epochs * (referenceEpoch c).count e := by
  obtain ⟨cfg, hc, rfl, -⟩ := fit_inv h
  rw [List.count_append, count_cfg_of_opt hc e he, count_repeatL, epoch_eq, List.count_append,
    count_valEvents_of_opt c e he]
  simp

/-! ### "immediately preceded by" -/

/-- every `loss t g` event in `evs` has the event `simulate c.nPaths c.withInit t g` directly in
front of it -/
def LossPreceded (c : FitCfg) (evs : List FitEv) : Prop :=
  ∀ pre t g post, evs = pre ++ FitEv.loss t g :: post →
    ∃ pre', pre = pre' ++ [FitEv.simulate c.nPaths c.withInit t g]

/-- `evs` does not begin with a `loss` event -/
def NoLossHead (evs : List FitEv) : Prop := ∀ t g post, evs ≠ FitEv.loss t g :: post

theorem lossPreceded_append {c : FitCfg} {xs ys : List FitEv} (hx : LossPreceded c xs)
    (hy : LossPreceded c ys) (hh : NoLossHead ys) : LossPreceded c (xs ++ ys) := by
  intro pre t g post h
  rcases List.append_eq_append_iff.1 h with ⟨a, ha, hb⟩ | ⟨b, ha, hb⟩
  · obtain ⟨p, rfl⟩ := hy a t g post hb
    exact ⟨xs ++ p, by rw [ha, List.append_assoc]⟩
  · cases b with
    | nil => exact absurd hb.symm (by simpa using hh t g post)
    | cons b bs =>
      simp only [List.cons_append, List.cons.injEq] at hb
      obtain ⟨rfl, -⟩ := hb
      exact hx pre t g bs ha

theorem lossPreceded_of_no_loss {c : FitCfg} {xs : List FitEv} (h : ∀ e ∈ xs, isLoss e = false) :
    LossPreceded c xs := by
  intro pre t g post he
  have := h (FitEv.loss t g) (by rw [he]; simp)
  simp [isLoss] at this

theorem lossPreceded_evalPair (c : FitCfg) (t g : Bool) : LossPreceded c (evalPair c t g) := by
  intro pre t' g' post h
  unfold evalPair at h
  match pre, h with
  | [], h => simp at h
  | [a], h =>
    simp only [List.cons_append, List.nil_append, List.cons.injEq, FitEv.loss.injEq] at h
    obtain ⟨rfl, ⟨rfl, rfl⟩, -⟩ := h
    exact ⟨[], rfl⟩
  | _ :: _ :: _, h => simp at h

theorem noLossHead_cons {e : FitEv} {es : List FitEv} (h : isLoss e = false) : NoLossHead (e :: es) := by
  intro t g post heq
  injection heq with h1 _
  rw [h1] at h
  simp [isLoss] at h

theorem noLossHead_nil : NoLossHead [] := by
  intro t g post h; cases h

theorem noLossHead_repeatL {e : FitEv} {es : List FitEv} (h : isLoss e = false) (k : Nat) :
    NoLossHead (repeatL k (e :: es)) := by
  cases k with
  | zero => exact noLossHead_nil
  | succ k => exact noLossHead_cons h

theorem lossPreceded_repeatL {c : FitCfg} {e : FitEv} {es : List FitEv}
    (hx : LossPreceded c (e :: es)) (h : isLoss e = false) (k : Nat) :
    LossPreceded c (repeatL k (e :: es)) := by
  induction k with
  | zero => exact lossPreceded_of_no_loss (by simp [repeatL])
  | succ k ih => exact lossPreceded_append hx ih (noLossHead_repeatL h k)

theorem lossPreceded_lossEvents (c : FitCfg) (n : Nat) (t g : Bool) :
    LossPreceded c (lossEvents c n t g) := by
  rw [lossEvents_eq]
  exact lossPreceded_repeatL (lossPreceded_evalPair c t g) rfl _

theorem noLossHead_lossEvents_append (c : FitCfg) (n : Nat) (t g : Bool) (e : FitEv)
    (he : isLoss e = false) (es : List FitEv) : NoLossHead (lossEvents c n t g ++ e :: es) := by
  rw [lossEvents_eq]
  cases evalCount n with
  | zero => exact noLossHead_cons he
  | succ k => exact noLossHead_cons rfl

theorem lossPreceded_epoch (c : FitCfg) : LossPreceded c (epochEvents c) := by
  rw [epoch_eq]
  refine lossPreceded_append ?_ ?_ ?_
  · have : referenceEpoch c = [FitEv.setTrain, FitEv.zeroGrad] ++ (evalPair c true true
        ++ [FitEv.backward, FitEv.step]) := rfl
    rw [this]
    refine lossPreceded_append (lossPreceded_of_no_loss (by simp [isLoss])) ?_ (noLossHead_cons rfl)
    exact lossPreceded_append (lossPreceded_evalPair c true true)
      (lossPreceded_of_no_loss (by simp [isLoss])) (noLossHead_cons rfl)
  · unfold valEvents
    split
    · rw [List.append_assoc]
      refine lossPreceded_append (lossPreceded_of_no_loss (by simp [isLoss])) ?_
        (noLossHead_lossEvents_append c _ _ _ _ rfl _)
      exact lossPreceded_append (lossPreceded_lossEvents c _ _ _)
        (lossPreceded_of_no_loss (by simp [isLoss])) (noLossHead_cons rfl)
    · exact lossPreceded_of_no_loss (by simp)
  · unfold valEvents
    split
    · exact noLossHead_cons rfl
    · exact noLossHead_nil

/-! ### mode tracking: the `training` flag of every batch is the last `train()` / `eval()` -/

/-- `self.training` after the events `es`, starting from `m` -/
def modeAfter : Bool → List FitEv → Bool
  | m, [] => m
  | m, e :: es =>
    modeAfter (match e with | .setTrain => true | .setEval => false | _ => m) es

/-- every simulate / loss event carries the training flag set by the most recent `train()` /
`eval()` (initially `m`) -/
def wellModed : Bool → List FitEv → Bool
  | _, [] => true
  | m, e :: es =>
    (match e with
      | .simulate _ _ t _ => t == m
      | .loss t _ => t == m
      | _ => true) &&
    wellModed (match e with | .setTrain => true | .setEval => false | _ => m) es

theorem modeAfter_append (m : Bool) (xs ys : List FitEv) :
    modeAfter m (xs ++ ys) = modeAfter (modeAfter m xs) ys := by
  induction xs generalizing m with
  | nil => rfl
  | cons x xs ih => simp [modeAfter, ih]

theorem wellModed_append (m : Bool) (xs ys : List FitEv) :
    wellModed m (xs ++ ys) = (wellModed m xs && wellModed (modeAfter m xs) ys) := by
  induction xs generalizing m with
  | nil => simp [wellModed, modeAfter]
  | cons x xs ih => simp [wellModed, modeAfter, ih, Bool.and_assoc]

theorem wellModed_evalPairs (c : FitCfg) (m : Bool) (k : Nat) :
    wellModed m (repeatL k (evalPair c m m)) = true ∧ modeAfter m (repeatL k (evalPair c m m)) = m := by
  induction k with
  | zero => exact ⟨rfl, rfl⟩
  | succ k ih =>
    rw [repeatL_succ, wellModed_append, modeAfter_append]
    have h1 : wellModed m (evalPair c m m) = true := by simp [evalPair, wellModed]
    have h2 : modeAfter m (evalPair c m m) = m := by simp [evalPair, modeAfter]
    rw [h1, h2, ih.1, ih.2]
    exact ⟨rfl, rfl⟩

theorem wellModed_epoch (c : FitCfg) (m : Bool) :
    wellModed m (epochEvents c) = true := by
  rw [epoch_eq, wellModed_append]
  have h1 : wellModed m (referenceEpoch c) = true := by simp [referenceEpoch, wellModed]
  have h2 : modeAfter m (referenceEpoch c) = true := by simp [referenceEpoch, modeAfter]
  rw [h1, h2]
  unfold valEvents
  split
  · rw [List.append_assoc, lossEvents_eq]
    simp only [List.singleton_append, wellModed, Bool.true_and]
    rw [wellModed_append, (wellModed_evalPairs c false _).1, (wellModed_evalPairs c false _).2]
    simp [wellModed]
  · rfl

theorem wellModed_epochs (c : FitCfg) (m : Bool) (k : Nat) :
    wellModed m (repeatL k (epochEvents c)) = true := by
  induction k generalizing m with
  | zero => rfl
  | succ k ih => rw [repeatL_succ, wellModed_append, wellModed_epoch, ih]; rfl

end PfVerif.C15Aux

namespace PfVerif.C15
open PfVerif PfVerif.C15Aux

/-! ### success / failure -/

/-- a class or an instance of `Optimizer` is accepted -/
theorem fit_ok (c : FitCfg) (h : c.opt ≠ .other) : ∃ evs hist, fitEvents c = .ok (evs, hist) := by
  unfold fitEvents configureEvents
  cases ho : c.opt
  · exact ⟨_, _, rfl⟩
  · exact ⟨_, _, rfl⟩
  · exact absurd ho h

/-- anything else raises `TypeError` (and no epoch runs) -/
theorem fit_type_error (c : FitCfg) (h : c.opt = .other) : fitEvents c = .error .typeError := by
  simp [fitEvents, configureEvents, h]

/-! ### the shape of a run: configuration, then `epochs` copies of one epoch -/

/-- the events of `fit` are the configuration events followed by `epochs` copies of the epoch;
the configuration touches neither `zero_grad`, `backward` nor `step` -/
theorem fit_decomposition (c : FitCfg) (evs : List FitEv) (hist : Option Nat)
    (h : fitEvents c = .ok (evs, hist)) :
    ∃ cfg, configureEvents c = .ok cfg ∧ evs = cfg ++ repeatL c.epochs (epochEvents c) ∧
      FitEv.step ∉ cfg ∧ FitEv.backward ∉ cfg ∧ FitEv.zeroGrad ∉ cfg := by
  obtain ⟨cfg, hc, he, -⟩ := fit_inv h
  refine ⟨cfg, hc, he, ?_, ?_, ?_⟩ <;>
  · intro hm
    have := cfg_no_opt hc _ hm
    simp [isOptEvent] at this

/-- one epoch is the explicit reference epoch followed by the validation events -/
theorem epoch_is_reference_then_validation (c : FitCfg) :
    epochEvents c = referenceEpoch c ++ valEvents c := epoch_eq c

/-! ### exactly `k` optimizer steps -/

theorem steps_eq_epochs (c : FitCfg) (evs : List FitEv) (hist : Option Nat)
    (h : fitEvents c = .ok (evs, hist)) : evs.count FitEv.step = c.epochs := by
  rw [count_opt_event h _ rfl]; simp [referenceEpoch]

theorem backward_eq_epochs (c : FitCfg) (evs : List FitEv) (hist : Option Nat)
    (h : fitEvents c = .ok (evs, hist)) : evs.count FitEv.backward = c.epochs := by
  rw [count_opt_event h _ rfl]; simp [referenceEpoch]

theorem zero_grad_eq_epochs (c : FitCfg) (evs : List FitEv) (hist : Option Nat)
    (h : fitEvents c = .ok (evs, hist)) : evs.count FitEv.zeroGrad = c.epochs := by
  rw [count_opt_event h _ rfl]; simp [referenceEpoch]

/-- no step at all for zero epochs: only the configuration ran -/
theorem zero_epochs (c : FitCfg) (evs : List FitEv) (hist : Option Nat)
    (h : fitEvents c = .ok (evs, hist)) (h0 : c.epochs = 0) :
    configureEvents c = .ok evs ∧ evs.count FitEv.step = 0 := by
  obtain ⟨cfg, hc, he, -⟩ := fit_inv h
  have : evs = cfg := by rw [he, h0]; simp [repeatL]
  subst this
  exact ⟨hc, by rw [steps_eq_epochs c _ hist h, h0]⟩

/-! ### gradients are not accumulated across epochs -/

/-- each epoch has exactly one `zero_grad`, one `backward`, one `step` -/
theorem epoch_counts (c : FitCfg) :
    (epochEvents c).count FitEv.step = 1 ∧ (epochEvents c).count FitEv.backward = 1 ∧
    (epochEvents c).count FitEv.zeroGrad = 1 := by
  rw [epoch_eq]
  simp only [List.count_append]
  rw [count_valEvents_of_opt c _ rfl, count_valEvents_of_opt c _ rfl, count_valEvents_of_opt c _ rfl]
  simp [referenceEpoch]

/-- … in the order `zero_grad` < `backward` < `step` (positions 1, 4, 5 of the epoch) -/
theorem epoch_order (c : FitCfg) :
    (epochEvents c).idxOf FitEv.zeroGrad = 1 ∧ (epochEvents c).idxOf FitEv.backward = 4 ∧
    (epochEvents c).idxOf FitEv.step = 5 := by
  rw [epoch_eq]
  simp [referenceEpoch, List.idxOf_cons, cond_eq_ite]

/-- explicit decomposition of an epoch: `train(); zero_grad()`, then events free of
`zero_grad` / `backward` / `step`, then `backward(); step()`, then again events free of them -/
theorem epoch_shape (c : FitCfg) :
    ∃ mid tail, epochEvents c
        = [FitEv.setTrain, FitEv.zeroGrad] ++ mid ++ [FitEv.backward, FitEv.step] ++ tail ∧
      (∀ e ∈ mid, isOptEvent e = false) ∧ (∀ e ∈ tail, isOptEvent e = false) := by
  refine ⟨evalPair c true true, valEvents c, ?_, ?_, ?_⟩
  · rw [epoch_eq]; rfl
  · simp [evalPair, isOptEvent]
  · intro e he; exact valEvents_no_opt he

/-- gradients are not accumulated: the run is `cfg ++ epoch ++ … ++ epoch` (`epochs` copies), the
configuration performs no optimizer-driving event, and every epoch is
`[train, zero_grad] ++ mid ++ [backward, step] ++ tail` with `mid`, `tail` free of
`zero_grad` / `backward` / `step`.  Hence before the first `step` and between two consecutive
`step`s there is exactly one `zero_grad` and, later, exactly one `backward`. -/
theorem no_accumulation (c : FitCfg) (evs : List FitEv) (hist : Option Nat)
    (h : fitEvents c = .ok (evs, hist)) :
    ∃ cfg mid tail, configureEvents c = .ok cfg ∧ (∀ e ∈ cfg, isOptEvent e = false) ∧
      (∀ e ∈ mid, isOptEvent e = false) ∧ (∀ e ∈ tail, isOptEvent e = false) ∧
      evs = cfg ++ repeatL c.epochs
        ([FitEv.setTrain, FitEv.zeroGrad] ++ mid ++ [FitEv.backward, FitEv.step] ++ tail) := by
  obtain ⟨cfg, hc, he, -⟩ := fit_inv h
  obtain ⟨mid, tail, hs, hm, ht⟩ := epoch_shape c
  exact ⟨cfg, mid, tail, hc, cfg_no_opt hc, hm, ht, by rw [← hs]; exact he⟩

/-! ### `fit` refines the explicit loop -/

/-- erasing the validation-only events (`eval()`, evaluation-mode simulate / loss, history append)
leaves the configuration followed by exactly `epochs` copies of the explicit reference epoch
`train; zero_grad; simulate n_paths init_state; criterion; backward; step` -/
theorem fit_refines_reference (c : FitCfg) (evs : List FitEv) (hist : Option Nat)
    (h : fitEvents c = .ok (evs, hist)) :
    ∃ cfg, configureEvents c = .ok cfg ∧
      evs.filter isTrainingEvent
        = cfg.filter isTrainingEvent ++ repeatL c.epochs (referenceEpoch c) := by
  obtain ⟨cfg, hc, he, -⟩ := fit_inv h
  refine ⟨cfg, hc, ?_⟩
  rw [he, List.filter_append, filter_repeatL, epoch_eq, List.filter_append,
    valEvents_filter_training, referenceEpoch_filter_training, List.append_nil]

/-- the only configuration event the erasure can remove is the lazy placeholder `simulate(1)`
when `fit` was called on a hedger in evaluation mode; otherwise the configuration is kept whole -/
theorem cfg_filter_training (c : FitCfg) (cfg : List FitEv) (hc : configureEvents c = .ok cfg)
    (h : c.lazy = false ∨ c.opt = .instance ∨ c.startTraining = true) :
    cfg.filter isTrainingEvent = cfg := by
  rcases configure_cases hc with ⟨_, rfl⟩ | ⟨_, _, rfl⟩ | ⟨ho, hl, rfl⟩
  · rfl
  · rfl
  · rcases h with h | h | h
    · rw [hl] at h; exact Bool.noConfusion h
    · rw [ho] at h; exact OptKind.noConfusion h
    · simp [isTrainingEvent, h]

/-- without validation `fit` *is* the explicit loop -/
theorem fit_eq_reference_of_no_validation (c : FitCfg) (evs : List FitEv) (hist : Option Nat)
    (h : fitEvents c = .ok (evs, hist)) (hv : c.validation = false) :
    ∃ cfg, configureEvents c = .ok cfg ∧ evs = cfg ++ repeatL c.epochs (referenceEpoch c) := by
  obtain ⟨cfg, hc, he, -⟩ := fit_inv h
  refine ⟨cfg, hc, ?_⟩
  rw [he, epoch_eq]
  simp [valEvents, hv]

/-! ### modes, gradient flags, batch size and initial state -/

/-- every training-mode simulate / loss event of the epochs runs with gradients enabled, on
`n_paths` paths and with the requested initial state -/
theorem train_batches_in_train_mode (c : FitCfg) (k : Nat) (e : FitEv)
    (he : e ∈ repeatL k (epochEvents c)) :
    (∀ n i g, e = FitEv.simulate n i true g → n = c.nPaths ∧ i = c.withInit ∧ g = true) ∧
    (∀ g, e = FitEv.loss true g → g = true) := by
  have he := mem_repeatL he
  rw [epoch_eq] at he
  rcases List.mem_append.1 he with he | he
  · rcases mem_referenceEpoch he with h | h | h | h | h | h <;> subst h <;>
      refine ⟨fun n i g hh => ?_, fun g hh => ?_⟩ <;> simp_all
  · rcases mem_valEvents he with h | h | h | h <;> subst h <;>
      refine ⟨fun n i g hh => ?_, fun g hh => ?_⟩ <;> simp_all

/-- every evaluation-mode simulate / loss event of the epochs runs with gradients disabled, on
`n_paths` paths and with the requested initial state -/
theorem validation_in_eval_no_grad (c : FitCfg) (k : Nat) (e : FitEv)
    (he : e ∈ repeatL k (epochEvents c)) :
    (∀ n i g, e = FitEv.simulate n i false g → n = c.nPaths ∧ i = c.withInit ∧ g = false) ∧
    (∀ g, e = FitEv.loss false g → g = false) := by
  have he := mem_repeatL he
  rw [epoch_eq] at he
  rcases List.mem_append.1 he with he | he
  · rcases mem_referenceEpoch he with h | h | h | h | h | h <;> subst h <;>
      refine ⟨fun n i g hh => ?_, fun g hh => ?_⟩ <;> simp_all
  · rcases mem_valEvents he with h | h | h | h <;> subst h <;>
      refine ⟨fun n i g hh => ?_, fun g hh => ?_⟩ <;> simp_all

/-- no epoch event is "training mode without gradients" or "evaluation mode with gradients":
for every simulate / loss event the gradient flag equals the training flag -/
theorem grad_iff_training (c : FitCfg) (k : Nat) (e : FitEv) (he : e ∈ repeatL k (epochEvents c)) :
    (∀ n i t g, e = FitEv.simulate n i t g → g = t) ∧ (∀ t g, e = FitEv.loss t g → g = t) := by
  have he := mem_repeatL he
  rw [epoch_eq] at he
  rcases List.mem_append.1 he with he | he
  · rcases mem_referenceEpoch he with h | h | h | h | h | h <;> subst h <;>
      refine ⟨fun n i t g hh => ?_, fun t g hh => ?_⟩ <;> simp_all
  · rcases mem_valEvents he with h | h | h | h <;> subst h <;>
      refine ⟨fun n i t g hh => ?_, fun t g hh => ?_⟩ <;> simp_all

/-- the training flag recorded on every simulate / loss event of a whole run is the mode set by
the most recent `train()` / `eval()` (initially the mode `fit` was called in): training batches
come after `train()`, validation batches after `eval()` -/
theorem mode_flags_follow_train_eval (c : FitCfg) (evs : List FitEv) (hist : Option Nat)
    (h : fitEvents c = .ok (evs, hist)) : wellModed c.startTraining evs = true := by
  obtain ⟨cfg, hc, rfl, -⟩ := fit_inv h
  rw [wellModed_append, wellModed_epochs]
  rcases configure_cases hc with ⟨_, rfl⟩ | ⟨_, _, rfl⟩ | ⟨_, _, rfl⟩ <;> simp [wellModed]

/-! ### every criterion evaluation simulates its own batch -/

/-- `compute_loss(n_times, …)` is a concatenation of `[simulate n_paths init_state, criterion]`
pairs, one per evaluation -/
theorem fresh_batch_per_loss (c : FitCfg) (nT : Nat) (t g : Bool) :
    lossEvents c nT t g
      = repeatL (evalCount nT) [FitEv.simulate c.nPaths c.withInit t g, FitEv.loss t g] :=
  lossEvents_eq c nT t g

/-- as many batches as criterion evaluations in an epoch -/
theorem epoch_simulate_count_eq_loss_count (c : FitCfg) :
    (epochEvents c).countP isSimulate = (epochEvents c).countP isLoss := by
  rw [epoch_eq]
  simp only [List.countP_append]
  unfold valEvents
  split
  · simp [referenceEpoch, lossEvents_eq, countP_repeatL, evalPair, isSimulate, isLoss,
      List.countP_cons]
  · simp [referenceEpoch, isSimulate, isLoss, List.countP_cons]

/-- in an epoch every criterion evaluation `loss t g` is immediately preceded by its own
`simulate n_paths init_state` under the same flags -/
theorem epoch_loss_preceded_by_simulate (c : FitCfg) (pre post : List FitEv) (t g : Bool)
    (h : epochEvents c = pre ++ FitEv.loss t g :: post) :
    ∃ pre', pre = pre' ++ [FitEv.simulate c.nPaths c.withInit t g] :=
  lossPreceded_epoch c pre t g post h

/-- … and so in a whole run -/
theorem loss_preceded_by_simulate (c : FitCfg) (evs : List FitEv) (hist : Option Nat)
    (hf : fitEvents c = .ok (evs, hist)) (pre post : List FitEv) (t g : Bool)
    (h : evs = pre ++ FitEv.loss t g :: post) :
    ∃ pre', pre = pre' ++ [FitEv.simulate c.nPaths c.withInit t g] := by
  obtain ⟨cfg, hc, rfl, -⟩ := fit_inv hf
  have hcfg : LossPreceded c cfg := by
    apply lossPreceded_of_no_loss
    rcases configure_cases hc with ⟨_, rfl⟩ | ⟨_, _, rfl⟩ | ⟨_, _, rfl⟩ <;> simp [isLoss]
  have hep : LossPreceded c (repeatL c.epochs (epochEvents c)) := by
    have hE : epochEvents c = FitEv.setTrain :: (epochEvents c).tail := by
      rw [epoch_eq]; rfl
    rw [hE]
    refine lossPreceded_repeatL ?_ rfl _
    rw [← hE]
    exact lossPreceded_epoch c
  have hh : NoLossHead (repeatL c.epochs (epochEvents c)) := by
    have hE : epochEvents c = FitEv.setTrain :: (epochEvents c).tail := by
      rw [epoch_eq]; rfl
    rw [hE]
    exact noLossHead_repeatL rfl _
  exact lossPreceded_append hcfg hep hh pre t g post h

/-! ### validation: one loss per epoch, `n_times` evaluations, no gradients -/

/-- with validation on, each epoch makes `n_times` evaluation-mode criterion evaluations (a single
one for `n_times = 1`; see the remark on `n_times = 0` in the header) and appends exactly one
validation loss; the training part always makes exactly one evaluation -/
theorem validation_n_times (c : FitCfg) (hv : c.validation = true) :
    (epochEvents c).count (FitEv.loss false false) = (if c.nTimes = 1 then 1 else c.nTimes) ∧
    (epochEvents c).count (FitEv.simulate c.nPaths c.withInit false false)
      = (if c.nTimes = 1 then 1 else c.nTimes) ∧
    (epochEvents c).count FitEv.valItem = 1 ∧
    (epochEvents c).count FitEv.setEval = 1 := by
  rw [epoch_eq]
  simp [valEvents, hv, referenceEpoch, lossEvents_eq, List.count_append, count_repeatL, evalPair,
    evalCount]

/-- the training part of an epoch makes exactly one criterion evaluation on one batch, whatever
`n_times` and `validation` -/
theorem training_single_evaluation (c : FitCfg) :
    (epochEvents c).count (FitEv.loss true true) = 1 ∧
    (epochEvents c).count (FitEv.simulate c.nPaths c.withInit true true) = 1 := by
  rw [epoch_eq]
  unfold valEvents
  split
  · simp [referenceEpoch, lossEvents_eq, List.count_append, count_repeatL, evalPair]
  · simp [referenceEpoch]

/-- with validation off, an epoch contains no evaluation-mode event at all -/
theorem no_validation_events (c : FitCfg) (hv : c.validation = false) :
    epochEvents c = referenceEpoch c := by
  rw [epoch_eq]; simp [valEvents, hv]

/-- the returned history: one entry per epoch, or `None` without validation; and exactly that many
`history.append` events happened -/
theorem history_length (c : FitCfg) (evs : List FitEv) (hist : Option Nat)
    (h : fitEvents c = .ok (evs, hist)) :
    hist = (if c.validation then some c.epochs else none) ∧
    evs.count FitEv.valItem = (if c.validation then c.epochs else 0) := by
  obtain ⟨cfg, hc, rfl, hh⟩ := fit_inv h
  refine ⟨hh, ?_⟩
  have hcfg : cfg.count FitEv.valItem = 0 := by
    rcases configure_cases hc with ⟨_, rfl⟩ | ⟨_, _, rfl⟩ | ⟨_, _, rfl⟩ <;> simp
  rw [List.count_append, hcfg, count_repeatL, epoch_eq]
  cases hv : c.validation <;>
    simp [valEvents, hv, referenceEpoch, lossEvents_eq, List.count_append, count_repeatL, evalPair]

/-- over a whole run with validation on: `epochs × n_times` evaluation-mode evaluations -/
theorem validation_evaluations_total (c : FitCfg) (evs : List FitEv) (hist : Option Nat)
    (h : fitEvents c = .ok (evs, hist)) (hv : c.validation = true) :
    evs.count (FitEv.loss false false) = c.epochs * (if c.nTimes = 1 then 1 else c.nTimes) := by
  obtain ⟨cfg, hc, rfl, -⟩ := fit_inv h
  have hcfg : cfg.count (FitEv.loss false false) = 0 := by
    rcases configure_cases hc with ⟨_, rfl⟩ | ⟨_, _, rfl⟩ | ⟨_, _, rfl⟩ <;> simp
  rw [List.count_append, hcfg, count_repeatL, (validation_n_times c hv).1]
  simp

/-! ### the optimizer: supplied or constructed, lazy parameters materialised first -/

/-- a class optimizer on a lazy model: the placeholder forward (`simulate(n_paths=1)` with default
initial state, then `compute_pl`) precedes the construction of the optimizer -/
theorem lazy_materialised_before_optimizer (c : FitCfg) (ho : c.opt = .cls) (hl : c.lazy = true) :
    configureEvents c
      = .ok [FitEv.simulate 1 false c.startTraining true, FitEv.placeholderPl, FitEv.mkOptimizer] := by
  simp [configureEvents, ho, hl]

/-- a class optimizer on a materialised model: just constructed -/
theorem nonlazy_optimizer_constructed (c : FitCfg) (ho : c.opt = .cls) (hl : c.lazy = false) :
    configureEvents c = .ok [FitEv.mkOptimizer] := by
  simp [configureEvents, ho, hl]

/-- an optimizer instance is used as supplied: nothing is constructed, no placeholder forward -/
theorem instance_optimizer_used_as_is (c : FitCfg) (evs : List FitEv) (hist : Option Nat)
    (h : fitEvents c = .ok (evs, hist)) (ho : c.opt = .instance) :
    configureEvents c = .ok [] ∧ FitEv.mkOptimizer ∉ evs ∧ FitEv.placeholderPl ∉ evs := by
  obtain ⟨cfg, hc, rfl, -⟩ := fit_inv h
  have hnil : cfg = [] := by
    rcases configure_cases hc with ⟨_, rfl⟩ | ⟨ho', _, _⟩ | ⟨ho', _, _⟩
    · rfl
    · rw [ho] at ho'; exact OptKind.noConfusion ho'
    · rw [ho] at ho'; exact OptKind.noConfusion ho'
  subst hnil
  refine ⟨hc, ?_, ?_⟩ <;>
  · intro hm
    have hm := mem_repeatL (by simpa using hm)
    rw [epoch_eq] at hm
    rcases List.mem_append.1 hm with hm | hm
    · have := mem_referenceEpoch hm; simp at this
    · have := mem_valEvents hm; simp at this

/-- the optimizer is constructed at most once (exactly once for a class, never for an instance),
and never inside the loop: all `step`s go through that single optimizer -/
theorem mk_optimizer_count (c : FitCfg) (evs : List FitEv) (hist : Option Nat)
    (h : fitEvents c = .ok (evs, hist)) :
    evs.count FitEv.mkOptimizer = (if c.opt = .cls then 1 else 0) ∧
    (repeatL c.epochs (epochEvents c)).count FitEv.mkOptimizer = 0 := by
  obtain ⟨cfg, hc, rfl, -⟩ := fit_inv h
  have hloop : (repeatL c.epochs (epochEvents c)).count FitEv.mkOptimizer = 0 := by
    rw [List.count_eq_zero]
    intro hm
    have hm := mem_repeatL hm
    rw [epoch_eq] at hm
    rcases List.mem_append.1 hm with hm | hm
    · have := mem_referenceEpoch hm; simp at this
    · have := mem_valEvents hm; simp at this
  refine ⟨?_, hloop⟩
  rw [List.count_append, hloop]
  rcases configure_cases hc with ⟨ho, rfl⟩ | ⟨ho, _, rfl⟩ | ⟨ho, _, rfl⟩ <;> simp [ho]

theorem mk_optimizer_at_most_once (c : FitCfg) (evs : List FitEv) (hist : Option Nat)
    (h : fitEvents c = .ok (evs, hist)) : evs.count FitEv.mkOptimizer ≤ 1 := by
  rw [(mk_optimizer_count c evs hist h).1]; split <;> simp

/-! ### non-vacuity -/

/-- 2 epochs, `n_times = 3`, validation on, lazy model, class optimizer, called in eval mode -/
example :
    fitEvents ⟨2, 7, 3, true, .cls, true, true, false⟩ = .ok
      ([.simulate 1 false false true, .placeholderPl, .mkOptimizer,
        .setTrain, .zeroGrad, .simulate 7 true true true, .loss true true, .backward, .step,
        .setEval, .simulate 7 true false false, .loss false false,
                  .simulate 7 true false false, .loss false false,
                  .simulate 7 true false false, .loss false false, .valItem,
        .setTrain, .zeroGrad, .simulate 7 true true true, .loss true true, .backward, .step,
        .setEval, .simulate 7 true false false, .loss false false,
                  .simulate 7 true false false, .loss false false,
                  .simulate 7 true false false, .loss false false, .valItem],
       some 2) := rfl

/-- validation off, optimizer instance: exactly the explicit loop, history `None` -/
example :
    fitEvents ⟨2, 5, 4, false, .instance, false, false, true⟩ = .ok
      ([.setTrain, .zeroGrad, .simulate 5 false true true, .loss true true, .backward, .step,
        .setTrain, .zeroGrad, .simulate 5 false true true, .loss true true, .backward, .step],
       none) := rfl

/-- not an optimizer: `TypeError` -/
example : fitEvents ⟨2, 5, 1, false, .other, true, true, true⟩ = .error .typeError := rfl

end PfVerif.C15
