/-
  C12 — Payoffs equal their contractual definitions and ordering.
  Model: Model/Payoff.lean instantiated at ℝ.
-/
import PfVerif.Model.Payoff
import PfVerif.Lemmas.ListR
import PfVerif.Lemmas.Gauss

namespace PfVerif.C12
open PfVerif

/-! ### the path extremes used by the model are the maximum / minimum of the path -/

theorem foldl_max_ge_init (x : ℝ) (xs : List ℝ) : x ≤ xs.foldl max x := by
  induction xs generalizing x with
  | nil => simp
  | cons y ys ih => exact le_trans (le_max_left x y) (ih (max x y))

theorem maxL_ge (x : ℝ) (xs : List ℝ) : ∀ y ∈ x :: xs, y ≤ maxL x xs := by
  unfold maxL
  induction xs generalizing x with
  | nil => intro y hy; simp at hy; simp [hy]
  | cons z zs ih =>
    intro y hy
    simp only [List.mem_cons] at hy
    simp only [List.foldl_cons]
    rcases hy with rfl | rfl | hy
    · exact le_trans (le_max_left _ _) (foldl_max_ge_init _ _)
    · exact le_trans (le_max_right _ _) (foldl_max_ge_init _ _)
    · exact ih (max x z) y (List.mem_cons_of_mem _ hy)

theorem maxL_mem (x : ℝ) (xs : List ℝ) : maxL x xs ∈ x :: xs := by
  unfold maxL
  induction xs generalizing x with
  | nil => simp
  | cons z zs ih =>
    simp only [List.foldl_cons]
    have h := ih (max x z)
    rcases max_choice x z with hm | hm
    · rw [hm] at h ⊢
      rcases List.mem_cons.1 h with h | h
      · rw [h]; exact List.mem_cons_self
      · exact List.mem_cons_of_mem _ (List.mem_cons_of_mem _ h)
    · rw [hm] at h ⊢
      exact List.mem_cons_of_mem _ h

theorem foldl_min_le_init (x : ℝ) (xs : List ℝ) : xs.foldl min x ≤ x := by
  induction xs generalizing x with
  | nil => simp
  | cons y ys ih => exact le_trans (ih (min x y)) (min_le_left x y)

theorem minL_le (x : ℝ) (xs : List ℝ) : ∀ y ∈ x :: xs, minL x xs ≤ y := by
  unfold minL
  induction xs generalizing x with
  | nil => intro y hy; simp at hy; simp [hy]
  | cons z zs ih =>
    intro y hy
    simp only [List.mem_cons] at hy
    simp only [List.foldl_cons]
    rcases hy with rfl | rfl | hy
    · exact le_trans (foldl_min_le_init _ _) (min_le_left _ _)
    · exact le_trans (foldl_min_le_init _ _) (min_le_right _ _)
    · exact ih (min x z) y (List.mem_cons_of_mem _ hy)

theorem minL_mem (x : ℝ) (xs : List ℝ) : minL x xs ∈ x :: xs := by
  unfold minL
  induction xs generalizing x with
  | nil => simp
  | cons z zs ih =>
    simp only [List.foldl_cons]
    have h := ih (min x z)
    rcases min_choice x z with hm | hm
    · rw [hm] at h ⊢
      rcases List.mem_cons.1 h with h | h
      · rw [h]; exact List.mem_cons_self
      · exact List.mem_cons_of_mem _ (List.mem_cons_of_mem _ h)
    · rw [hm] at h ⊢
      exact List.mem_cons_of_mem _ h

/-- the terminal price of a non-empty path -/
theorem lastL_eq_getLast (xs : List ℝ) (h : xs ≠ []) : lastL xs = some (xs.getLast h) := by
  induction xs with
  | nil => exact absurd rfl h
  | cons x xs ih =>
    cases xs with
    | nil => rfl
    | cons y ys => simp only [lastL]; rw [ih (by simp)]; simp

/-! ### contractual definitions -/

/-- European: `max(S_T − K, 0)` / `max(K − S_T, 0)` -/
theorem european_def (call : Bool) (k : ℝ) (xs : List ℝ) (h : xs ≠ []) :
    europeanPayoff call k xs
      = .ok (if call then max (xs.getLast h - k) 0 else max (k - xs.getLast h) 0) := by
  simp only [europeanPayoff, lastL_eq_getLast xs h, reluS_eq_max]

/-- Lookback: call on the path maximum, put on the path minimum -/
theorem lookback_def (call : Bool) (k x : ℝ) (xs : List ℝ) :
    lookbackPayoff call k (x :: xs)
      = .ok (if call then max (maxL x xs - k) 0 else max (k - minL x xs) 0) := by
  simp only [lookbackPayoff, reluS_eq_max]

/-- American binary: one iff the path maximum reaches the strike (`≥`), put: minimum `≤` -/
theorem american_binary_def (call : Bool) (k x : ℝ) (xs : List ℝ) :
    americanBinaryPayoff call k (x :: xs)
      = .ok (if call then (if k ≤ maxL x xs then 1 else 0) else (if minL x xs ≤ k then 1 else 0)) := by
  cases call <;> simp [americanBinaryPayoff, indS]

/-- European binary: one iff the terminal price reaches the strike (`≥` call, `≤` put) -/
theorem european_binary_def (call : Bool) (k : ℝ) (xs : List ℝ) (h : xs ≠ []) :
    europeanBinaryPayoff call k xs
      = .ok (if call then (if k ≤ xs.getLast h then 1 else 0) else (if xs.getLast h ≤ k then 1 else 0)) := by
  cases call <;> simp [europeanBinaryPayoff, lastL_eq_getLast xs h, indS]

/-- Forward start: `max(S_end / S_start − K, 0)` -/
theorem forward_start_def (k : ℝ) (i j : ℕ) (xs : List ℝ) (hi : i < xs.length) (hj : j < xs.length) :
    forwardStartPayoff k (i : ℤ) (j : ℤ) xs = .ok (max (xs[j] / xs[i] - k) 0) := by
  simp [forwardStartPayoff, getIdx, pyIndex, hi, hj, reluS_eq_max, bind, Except.bind, pure, Except.pure]

/-- Python's negative index `-1` is the last element -/
theorem pyIndex_neg_one (n : ℕ) (h : 0 < n) : pyIndex n (-1) = some (n - 1) := by
  simp [pyIndex]; omega

/-! ### ordering relations -/

theorem getLast_mem_cons (x : ℝ) (xs : List ℝ) : (x :: xs).getLast (by simp) ∈ x :: xs :=
  List.getLast_mem _

/-- lookback call ≥ European call ≥ 0 on every path -/
theorem lookback_ge_european (k x : ℝ) (xs : List ℝ) :
    0 ≤ max ((x :: xs).getLast (by simp) - k) 0 ∧
    max ((x :: xs).getLast (by simp) - k) 0 ≤ max (maxL x xs - k) 0 := by
  refine ⟨le_max_right _ _, max_le_max ?_ le_rfl⟩
  have := maxL_ge x xs _ (getLast_mem_cons x xs)
  linarith

/-- lookback put ≥ European put -/
theorem lookback_put_ge_european (k x : ℝ) (xs : List ℝ) :
    max (k - (x :: xs).getLast (by simp)) 0 ≤ max (k - minL x xs) 0 := by
  refine max_le_max ?_ le_rfl
  have := minL_le x xs _ (getLast_mem_cons x xs)
  linarith

/-- American binary call ≥ European binary call -/
theorem american_ge_european_binary (k x : ℝ) (xs : List ℝ) :
    (if k ≤ (x :: xs).getLast (by simp) then (1 : ℝ) else 0) ≤ (if k ≤ maxL x xs then 1 else 0) := by
  have h := maxL_ge x xs _ (getLast_mem_cons x xs)
  split_ifs with h1 h2
  · exact le_rfl
  · exact absurd (le_trans h1 h) h2
  · norm_num
  · exact le_rfl

/-- call − put = S_T − K -/
theorem call_minus_put (sT k : ℝ) : max (sT - k) 0 - max (k - sT) 0 = sT - k := by
  rcases le_total sT k with h | h
  · rw [max_eq_right (by linarith), max_eq_left (by linarith)]; ring
  · rw [max_eq_left (by linarith), max_eq_right (by linarith)]; ring

/-- binary call + binary put = 1, plus one more exactly when the terminal price ties the strike
(both `≥` and `≤` hold there: the tie convention of the code, made explicit) -/
theorem binary_call_plus_put (sT k : ℝ) :
    (if k ≤ sT then (1 : ℝ) else 0) + (if sT ≤ k then 1 else 0) = 1 + (if sT = k then 1 else 0) := by
  rcases lt_trichotomy sT k with h | h | h
  · simp [not_le.2 h, le_of_lt h, ne_of_lt h]
  · simp [h]
  · simp [not_le.2 h, le_of_lt h, ne_of_gt h]

/-! ### clauses -/

/-- a clause registered under a new name is applied last -/
theorem clause_new_applied_last {β : Type} (reg : List (String × (β → β))) (n : String)
    (c : β → β) (p : β) (h : ∀ q ∈ reg, q.1 ≠ n) :
    applyClauses (addClause reg n c) p = c (applyClauses reg p) := by
  have : reg.any (fun q => q.1 == n) = false := by
    simp only [List.any_eq_false, beq_iff_eq]; intro q hq; simpa using h q hq
  simp [addClause, this, applyClauses, List.foldl_append]

/-- re-registering an existing name keeps the registration order (names unchanged) -/
theorem clause_replace_keeps_order {β : Type} (reg : List (String × β)) (n : String) (c : β)
    (h : ∃ q ∈ reg, q.1 = n) : (addClause reg n c).map Prod.fst = reg.map Prod.fst := by
  have : reg.any (fun q => q.1 == n) = true := by
    simp only [List.any_eq_true, beq_iff_eq]; exact h
  simp only [addClause, this, if_true, List.map_map]
  apply List.map_congr_left
  intro q _
  by_cases hq : q.1 = n <;> simp [hq]

/-- payoff = cₙ(… c₁(payoff_fn) …) in registration order -/
theorem clauses_in_registration_order {β : Type} (cs : List (String × (β → β))) (p : β) :
    applyClauses cs p = (cs.map Prod.snd).foldl (fun acc c => c acc) p := by
  simp [applyClauses, List.foldl_map]

/-- one payoff per path -/
theorem payoff_length {β γ : Type} (f : β → γ) (paths : List β) : (paths.map f).length = paths.length :=
  List.length_map _

/-! ### variance swap -/

/-- realised variance = annualised mean squared log-return; payoff = that minus the strike -/
theorem variance_swap_def (dt k : ℝ) (S : ℕ → ℝ) (T : ℕ) :
    varianceSwapPayoff dt k (seqL S 0 (T + 1))
      = (∑ i ∈ Finset.range T, (Real.log (S (i + 1)) - Real.log (S i)) ^ 2) / T / dt - k := by
  unfold varianceSwapPayoff realizedVariance meanL
  have h1 : (seqL S 0 (T + 1)).map Transc.log = seqL (fun i => Real.log (S i)) 0 (T + 1) := by
    simp [seqL, Transc.log]
  rw [h1, diffL_seqL]
  have h2 : (seqL (fun i => Real.log (S (i + 1)) - Real.log (S i)) 0 T).map (fun r => r * r)
      = seqL (fun i => (Real.log (S (i + 1)) - Real.log (S i)) ^ 2) 0 T := by
    simp [seqL, pow_two]
  rw [h2, sumL_seqL]
  simp

/-- non-vacuity: a 3-point path tying the strike at the maximum only -/
example : americanBinaryPayoff true (2 : ℝ) [1, 2, 1] = .ok 1 ∧
    europeanBinaryPayoff true (2 : ℝ) [1, 2, 1] = .ok 0 := by
  constructor
  · rw [american_binary_def]; simp [maxL]
  · simp [europeanBinaryPayoff, lastL, indS]

end PfVerif.C12
