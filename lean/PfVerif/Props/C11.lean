/-
  C11 — Every path generator returns series of the requested length whose first entry is the
  requested initial state; exponential-type price processes are positive and the variance
  processes non-negative.
  Model: Model/Stoch.lean instantiated at ℝ (one path, as a function of the parameters and of
  the random draws; statements hold for EVERY list of draws of any length).
-/
import PfVerif.Model.Stoch
import PfVerif.Lemmas.ListR
import PfVerif.Lemmas.Gauss
import Mathlib.Analysis.SpecialFunctions.Log.Basic
import Mathlib.Analysis.SpecialFunctions.Pow.Real
import Mathlib.Analysis.SpecialFunctions.Sqrt
import Mathlib.Tactic.Positivity
import Mathlib.Tactic.NormNum

namespace PfVerif.C11Aux
open PfVerif

/-- `x.pow(y)` at ℝ is `Real.rpow` (same instance as `C04ERMAux.instTranscPowReal`) -/
noncomputable instance instTranscPowReal : TranscPow ℝ where
  pow := fun x y => x ^ y

/-! ### list plumbing -/

theorem cumsumL_go_length (acc : ℝ) (xs : List ℝ) : (cumsumL.go acc xs).length = xs.length := by
  induction xs generalizing acc with
  | nil => rfl
  | cons y ys ih => simp [cumsumL.go, ih]

theorem cumprodL_go_length (acc : ℝ) (xs : List ℝ) : (cumprodL.go acc xs).length = xs.length := by
  induction xs generalizing acc with
  | nil => rfl
  | cons y ys ih => simp [cumprodL.go, ih]

theorem initL_length {β : Type} (xs : List β) : (initL xs).length = xs.length - 1 := by
  induction xs with
  | nil => rfl
  | cons x xs ih =>
    cases xs with
    | nil => rfl
    | cons y ys => simp only [initL, List.length_cons, ih]; omega

theorem tailL_length {β : Type} (xs : List β) : (tailL xs).length = xs.length - 1 := by
  cases xs <;> simp [tailL]

theorem mem_initL {β : Type} {x : β} {xs : List β} (h : x ∈ initL xs) : x ∈ xs := by
  induction xs with
  | nil => simp [initL] at h
  | cons a as ih =>
    cases as with
    | nil => simp [initL] at h
    | cons b bs =>
      simp only [initL, List.mem_cons] at h
      rcases h with rfl | h
      · exact List.mem_cons_self
      · exact List.mem_cons_of_mem _ (ih h)

/-- a predicate that holds for every value of `f` holds for every entry of `zipWith f` -/
theorem forall_mem_zipWith {β γ δ : Type} {f : β → γ → δ} {P : δ → Prop} (l1 : List β) (l2 : List γ)
    (h : ∀ a ∈ l1, ∀ b ∈ l2, P (f a b)) : ∀ x ∈ List.zipWith f l1 l2, P x := by
  induction l1 generalizing l2 with
  | nil => intro x hx; simp at hx
  | cons a as ih =>
    cases l2 with
    | nil => intro x hx; simp at hx
    | cons b bs =>
      intro x hx
      simp only [List.zipWith_cons_cons, List.mem_cons] at hx
      rcases hx with rfl | hx
      · exact h a List.mem_cons_self b List.mem_cons_self
      · exact ih bs (fun a' ha' b' hb' =>
          h a' (List.mem_cons_of_mem _ ha') b' (List.mem_cons_of_mem _ hb')) x hx

theorem arangeL_succ (n : ℕ) :
    (arangeL (n + 1) : List ℝ) = 0 :: (List.range n).map (fun i => ((i + 1 : ℕ) : ℝ)) := by
  simp [arangeL, List.range_succ_eq_map, Function.comp_def]

theorem cumsumL_zeroFirst_cons (a : ℝ) (as : List ℝ) :
    cumsumL (zeroFirst (a :: as)) = 0 :: cumsumL.go 0 as := rfl

/-- running products of positive factors are positive -/
theorem cumprodL_go_pos (acc : ℝ) (xs : List ℝ) (hacc : 0 < acc) (h : ∀ x ∈ xs, 0 < x) :
    ∀ y ∈ cumprodL.go acc xs, 0 < y := by
  induction xs generalizing acc with
  | nil => intro y hy; simp [cumprodL.go] at hy
  | cons x xs ih =>
    intro y hy
    have hx : 0 < x := h x List.mem_cons_self
    simp only [cumprodL.go, List.mem_cons] at hy
    rcases hy with rfl | hy
    · exact mul_pos hacc hx
    · exact ih (acc * x) (mul_pos hacc hx) (fun z hz => h z (List.mem_cons_of_mem _ hz)) y hy

theorem cumprodL_pos (xs : List ℝ) (h : ∀ x ∈ xs, 0 < x) : ∀ y ∈ cumprodL xs, 0 < y := by
  cases xs with
  | nil => intro y hy; simp [cumprodL] at hy
  | cons x xs =>
    intro y hy
    have hx : 0 < x := h x List.mem_cons_self
    simp only [cumprodL, List.mem_cons] at hy
    rcases hy with rfl | hy
    · exact hx
    · exact cumprodL_go_pos x xs hx (fun z hz => h z (List.mem_cons_of_mem _ hz)) y hy

/-- the aggregated jump factor of one step (`exp` of the sum of its log-jumps) is positive -/
theorem foldl_exp_pos (js : List ℝ) (acc : ℝ) (hacc : 0 < acc) :
    0 < js.foldl (fun acc j => acc * Transc.exp j) acc := by
  induction js generalizing acc with
  | nil => simpa using hacc
  | cons j js ih =>
    simp only [List.foldl_cons]
    exact ih _ (mul_pos hacc (Real.exp_pos j))

theorem vasicek_go_length (theta mu vola x : ℝ) (zs : List ℝ) :
    (vasicek.go theta mu vola x zs).length = zs.length := by
  induction zs generalizing x with
  | nil => rfl
  | cons zi rest ih => simp [vasicek.go, ih]

theorem cir_go_length (kappa theta sigma dt eps psiCrit v : ℝ) (ps : List (ℝ × ℝ)) :
    (cir.go kappa theta sigma dt eps psiCrit v ps).length = ps.length := by
  induction ps generalizing v with
  | nil => rfl
  | cons p rest ih => obtain ⟨zi, ui⟩ := p; simp [cir.go, ih]

end PfVerif.C11Aux

namespace PfVerif.C11
open PfVerif PfVerif.C11Aux

/-! ### lengths -/

theorem cumsumL_length (xs : List ℝ) : (cumsumL xs).length = xs.length := by
  cases xs with
  | nil => rfl
  | cons x xs => simp [cumsumL, cumsumL_go_length]

theorem cumprodL_length (xs : List ℝ) : (cumprodL xs).length = xs.length := by
  cases xs with
  | nil => rfl
  | cons x xs => simp [cumprodL, cumprodL_go_length]

theorem zeroFirst_length (xs : List ℝ) : (zeroFirst xs).length = xs.length := by
  cases xs <;> rfl

theorem arangeL_length (n : ℕ) : (arangeL n : List ℝ).length = n := by
  simp [arangeL]

theorem brownian_length (init sigma mu dt : ℝ) (z : List ℝ) :
    (brownian init sigma mu dt z).length = z.length := by
  simp [brownian, arangeL_length, cumsumL_length, zeroFirst_length]

theorem geometricBrownian_length (init sigma mu dt : ℝ) (z : List ℝ) :
    (geometricBrownian init sigma mu dt z).length = z.length := by
  simp [geometricBrownian, arangeL_length, brownian_length]

theorem vasicek_length (init kappa theta sigma dt : ℝ) (z : List ℝ) :
    (vasicek init kappa theta sigma dt z).length = z.length := by
  cases z with
  | nil => rfl
  | cons a as => simp [vasicek, vasicek_go_length, initL_length]

/-- exact length of the CIR series: the uniforms may cut it short -/
theorem cir_length_exact (init kappa theta sigma dt eps psiCrit : ℝ) (z u : List ℝ) :
    (cir init kappa theta sigma dt eps psiCrit z u).length
      = if z = [] then 0 else min (z.length - 1) (u.length - 1) + 1 := by
  cases z with
  | nil => rfl
  | cons a as => simp [cir, cir_go_length, initL_length]

/-- `generate_cir` draws `randn` and `rand` of the same shape: the series has the length of `z`
as soon as there are at least as many uniforms as normals -/
theorem cir_length (init kappa theta sigma dt eps psiCrit : ℝ) (z u : List ℝ)
    (h : z.length ≤ u.length) :
    (cir init kappa theta sigma dt eps psiCrit z u).length = z.length := by
  rw [cir_length_exact]
  cases z with
  | nil => rfl
  | cons a as => simp at h ⊢; omega

end PfVerif.C11

namespace PfVerif.C11Aux
open PfVerif

theorem hestonSpot_go_length (k0 k1 k2 k3 k4 ls : ℝ) (ps : List ((ℝ × ℝ) × ℝ)) :
    (hestonSpot.go k0 k1 k2 k3 k4 ls ps).length = ps.length := by
  induction ps generalizing ls with
  | nil => rfl
  | cons p rest ih => obtain ⟨⟨v0, v1⟩, zi⟩ := p; simp [hestonSpot.go, ih]

theorem localVol_go_length (sigmaFn : ℝ → ℝ → ℝ) (dt : ℝ) (i : ℕ) (s : ℝ) (z : List ℝ) :
    (localVol.go sigmaFn dt i s z).1.length = z.length ∧
    (localVol.go sigmaFn dt i s z).2.length = z.length := by
  induction z generalizing i s with
  | nil => simp [localVol.go]
  | cons zi rest ih =>
    cases rest with
    | nil => simp [localVol.go]
    | cons y ys =>
      have h := ih (i + 1) (s * (1 + sigmaFn (dt * ((i : ℕ) : ℝ)) s * (zi * Transc.sqrt dt)))
      rw [localVol.go]
      simp only [List.length_cons] at h ⊢
      exact ⟨by simpa using h.1, by simpa using h.2⟩

end PfVerif.C11Aux

namespace PfVerif.C11
open PfVerif PfVerif.C11Aux

/-- exact length of the Heston spot series -/
theorem hestonSpot_length_exact (s0 kappa theta sigma rho dt : ℝ) (variance zs : List ℝ) :
    (hestonSpot s0 kappa theta sigma rho dt variance zs).length
      = min variance.length (zs.length + 1) := by
  cases variance with
  | nil => simp [hestonSpot]
  | cons a as =>
    simp [hestonSpot, hestonSpot_go_length, tailL]

/-- `generate_heston` passes a variance series and normals of the same shape `n` (of which
`n - 1` normals are used): the spot series has the length of the variance series -/
theorem hestonSpot_length (s0 kappa theta sigma rho dt : ℝ) (variance zs : List ℝ)
    (h : variance.length ≤ zs.length + 1) :
    (hestonSpot s0 kappa theta sigma rho dt variance zs).length = variance.length := by
  rw [hestonSpot_length_exact]; omega

theorem mertonJump_length_exact (init mu sigma lam jm js dt : ℝ) (nj zj z : List ℝ) :
    (mertonJump init mu sigma lam jm js dt nj zj z).length
      = min z.length (min nj.length zj.length + 1) := by
  simp [mertonJump, arangeL_length, cumsumL_length, zeroFirst_length]

/-- Poisson counts and jump normals for the steps `1 … n-1` (or more): length of `z` -/
theorem mertonJump_length (init mu sigma lam jm js dt : ℝ) (nj zj z : List ℝ)
    (hn : z.length ≤ nj.length + 1) (hz : z.length ≤ zj.length + 1) :
    (mertonJump init mu sigma lam jm js dt nj zj z).length = z.length := by
  rw [mertonJump_length_exact]; omega

theorem kouJump_length_exact (init sigma mu lam etaUp etaDown pUp dt : ℝ) (jumps : List (List ℝ))
    (z : List ℝ) :
    (kouJump init sigma mu lam etaUp etaDown pUp dt jumps z).length
      = min z.length (jumps.length + 1) := by
  simp [kouJump, arangeL_length, cumsumL_length, zeroFirst_length]

theorem kouJump_length (init sigma mu lam etaUp etaDown pUp dt : ℝ) (jumps : List (List ℝ))
    (z : List ℝ) (h : z.length ≤ jumps.length + 1) :
    (kouJump init sigma mu lam etaUp etaDown pUp dt jumps z).length = z.length := by
  rw [kouJump_length_exact]; omega

theorem localVol_length (sigmaFn : ℝ → ℝ → ℝ) (init dt : ℝ) (z : List ℝ) :
    (localVol sigmaFn init dt z).1.length = z.length ∧
    (localVol sigmaFn init dt z).2.length = z.length := by
  unfold localVol
  by_cases h : z.length = 0
  · simp [h]
  · simp only [h, if_false]; exact localVol_go_length sigmaFn dt 0 init z

end PfVerif.C11

namespace PfVerif.C11
open PfVerif PfVerif.C11Aux

theorem rbGamma_length (alpha norm : ℝ) (n : ℕ) : (rbGamma alpha norm n).length = n := by
  simp [rbGamma]

theorem roughBergomi_variance_length_exact (s0 v0 alpha rho eta dt norm : ℝ) (n : ℕ)
    (w1 : List (ℝ × ℝ)) (w2 : List ℝ) :
    (roughBergomi s0 v0 alpha rho eta dt norm n w1 w2).2.length = min n (w1.length + 1) := by
  simp [roughBergomi, arangeL_length]; omega

theorem roughBergomi_price_length_exact (s0 v0 alpha rho eta dt norm : ℝ) (n : ℕ)
    (w1 : List (ℝ × ℝ)) (w2 : List ℝ) :
    (roughBergomi s0 v0 alpha rho eta dt norm n w1 w2).1.length
      = min (min n (w1.length + 1) - 1) (min w1.length w2.length) + 1 := by
  simp [roughBergomi, arangeL_length, cumsumL_length, initL_length]; omega

/-- `n ≥ 1` steps, draws for the steps `1 … n-1` (or more): both series have length `n` -/
theorem roughBergomi_length (s0 v0 alpha rho eta dt norm : ℝ) (n : ℕ)
    (w1 : List (ℝ × ℝ)) (w2 : List ℝ) (hn : 1 ≤ n) (h1 : n ≤ w1.length + 1)
    (h2 : n ≤ w2.length + 1) :
    (roughBergomi s0 v0 alpha rho eta dt norm n w1 w2).1.length = n ∧
    (roughBergomi s0 v0 alpha rho eta dt norm n w1 w2).2.length = n := by
  rw [roughBergomi_price_length_exact, roughBergomi_variance_length_exact]
  omega

end PfVerif.C11

/-! ### first entry = requested initial state -/

namespace PfVerif.C11
open PfVerif PfVerif.C11Aux

theorem brownian_head (init sigma mu dt : ℝ) (z : List ℝ) (hz : z ≠ []) :
    (brownian init sigma mu dt z).head? = some init := by
  cases z with
  | nil => exact absurd rfl hz
  | cons a as =>
    simp only [brownian, List.length_cons, arangeL_succ, cumsumL_zeroFirst_cons]
    simp

theorem gbm_head (init sigma mu dt : ℝ) (z : List ℝ) (hz : z ≠ []) :
    (geometricBrownian init sigma mu dt z).head? = some init := by
  cases z with
  | nil => exact absurd rfl hz
  | cons a as =>
    simp only [geometricBrownian, brownian, List.length_cons, arangeL_succ, cumsumL_zeroFirst_cons]
    simp [Transc.exp]

theorem vasicek_head (init kappa theta sigma dt : ℝ) (z : List ℝ) (hz : z ≠ []) :
    (vasicek init kappa theta sigma dt z).head? = some init := by
  cases z with
  | nil => exact absurd rfl hz
  | cons a as => rfl

theorem cir_head (init kappa theta sigma dt eps psiCrit : ℝ) (z u : List ℝ) (hz : z ≠ []) :
    (cir init kappa theta sigma dt eps psiCrit z u).head? = some init := by
  cases z with
  | nil => exact absurd rfl hz
  | cons a as => rfl

/-- the spot series starts at `exp (log s0) = s0` (needs `s0 > 0`, as `log` does) -/
theorem heston_head (s0 kappa theta sigma rho dt : ℝ) (variance zs : List ℝ) (hs : 0 < s0)
    (hv : variance ≠ []) :
    (hestonSpot s0 kappa theta sigma rho dt variance zs).head? = some s0 := by
  cases variance with
  | nil => exact absurd rfl hv
  | cons a as => simp [hestonSpot, Transc.exp, Transc.log, Real.exp_log hs]

theorem merton_head (init mu sigma lam jm js dt : ℝ) (nj zj z : List ℝ) (hz : z ≠ []) :
    (mertonJump init mu sigma lam jm js dt nj zj z).head? = some init := by
  cases z with
  | nil => exact absurd rfl hz
  | cons a as =>
    simp only [mertonJump, List.length_cons, arangeL_succ, zeroFirst, cumsumL]
    simp [Transc.exp]

theorem kou_head (init sigma mu lam etaUp etaDown pUp dt : ℝ) (jumps : List (List ℝ))
    (z : List ℝ) (hz : z ≠ []) :
    (kouJump init sigma mu lam etaUp etaDown pUp dt jumps z).head? = some init := by
  cases z with
  | nil => exact absurd rfl hz
  | cons a as =>
    simp only [kouJump, List.length_cons, arangeL_succ, List.map_cons, zeroFirst, cumsumL]
    simp [Transc.exp]

end PfVerif.C11

namespace PfVerif.C11
open PfVerif PfVerif.C11Aux

/-- spot starts at `init`; the volatility series starts at `σ(0, init)` -/
theorem localVol_head (sigmaFn : ℝ → ℝ → ℝ) (init dt : ℝ) (z : List ℝ) (hz : z ≠ []) :
    (localVol sigmaFn init dt z).1.head? = some init ∧
    (localVol sigmaFn init dt z).2.head? = some (sigmaFn 0 init) := by
  cases z with
  | nil => exact absurd rfl hz
  | cons a as =>
    cases as with
    | nil => simp [localVol, localVol.go]
    | cons b bs => simp [localVol, localVol.go]

/-- the price series always starts at `s0 · exp 0 = s0` -/
theorem roughBergomi_price_head (s0 v0 alpha rho eta dt norm : ℝ) (n : ℕ)
    (w1 : List (ℝ × ℝ)) (w2 : List ℝ) :
    (roughBergomi s0 v0 alpha rho eta dt norm n w1 w2).1.head? = some s0 := by
  simp [roughBergomi, Transc.exp]

/-- the variance series starts at `v0`: `Y₀ = 0` and `0 ^ (2α+1) = 0` (`Real.rpow`, needs
`2α + 1 ≠ 0`; at `2α + 1 = 0` the head would be `v0 · exp(-η²/2)`) -/
theorem roughBergomi_variance_head (s0 v0 alpha rho eta dt norm : ℝ) (n : ℕ)
    (w1 : List (ℝ × ℝ)) (w2 : List ℝ) (hn : 1 ≤ n) (ha : 2 * alpha + 1 ≠ 0) :
    (roughBergomi s0 v0 alpha rho eta dt norm n w1 w2).2.head? = some v0 := by
  obtain ⟨k, rfl⟩ : ∃ k, n = k + 1 := ⟨n - 1, by omega⟩
  simp only [roughBergomi, arangeL_succ, List.range_succ_eq_map, List.map_cons,
    List.zipWith_cons_cons, List.head?_cons]
  simp [Transc.exp, TranscPow.pow, sumL, Real.zero_rpow ha]
  split <;> simp

theorem roughBergomi_head (s0 v0 alpha rho eta dt norm : ℝ) (n : ℕ)
    (w1 : List (ℝ × ℝ)) (w2 : List ℝ) (hn : 1 ≤ n) (ha : 2 * alpha + 1 ≠ 0) :
    (roughBergomi s0 v0 alpha rho eta dt norm n w1 w2).1.head? = some s0 ∧
    (roughBergomi s0 v0 alpha rho eta dt norm n w1 w2).2.head? = some v0 :=
  ⟨roughBergomi_price_head .., roughBergomi_variance_head _ _ _ _ _ _ _ _ _ _ hn ha⟩

end PfVerif.C11

/-! ### positivity of the exponential-type price processes -/

namespace PfVerif.C11
open PfVerif PfVerif.C11Aux

theorem gbm_pos (init sigma mu dt : ℝ) (z : List ℝ) (h : 0 < init) :
    ∀ x ∈ geometricBrownian init sigma mu dt z, 0 < x := by
  unfold geometricBrownian
  exact forall_mem_zipWith _ _ (fun i _ x _ => mul_pos h (Real.exp_pos _))

/-- every Heston spot is an exponential: positive whatever the variance series and the draws -/
theorem heston_spot_pos (s0 kappa theta sigma rho dt : ℝ) (variance zs : List ℝ) :
    ∀ x ∈ hestonSpot s0 kappa theta sigma rho dt variance zs, 0 < x := by
  intro x hx
  cases variance with
  | nil => simp [hestonSpot] at hx
  | cons a as =>
    simp only [hestonSpot, List.mem_map] at hx
    obtain ⟨y, _, rfl⟩ := hx
    exact Real.exp_pos y

theorem merton_pos (init mu sigma lam jm js dt : ℝ) (nj zj z : List ℝ) (h : 0 < init) :
    ∀ x ∈ mertonJump init mu sigma lam jm js dt nj zj z, 0 < x := by
  unfold mertonJump
  exact forall_mem_zipWith _ _ (fun i _ x _ => mul_pos h (Real.exp_pos _))

theorem kou_pos (init sigma mu lam etaUp etaDown pUp dt : ℝ) (jumps : List (List ℝ))
    (z : List ℝ) (h : 0 < init) :
    ∀ x ∈ kouJump init sigma mu lam etaUp etaDown pUp dt jumps z, 0 < x := by
  unfold kouJump
  exact forall_mem_zipWith _ _ (fun i _ ca _ => mul_pos (Real.exp_pos _) h)

theorem roughBergomi_price_pos (s0 v0 alpha rho eta dt norm : ℝ) (n : ℕ)
    (w1 : List (ℝ × ℝ)) (w2 : List ℝ) (h : 0 < s0) :
    ∀ x ∈ (roughBergomi s0 v0 alpha rho eta dt norm n w1 w2).1, 0 < x := by
  intro x hx
  simp only [roughBergomi, List.mem_map] at hx
  obtain ⟨r, _, rfl⟩ := hx
  exact mul_pos h (Real.exp_pos r)

theorem roughBergomi_variance_pos (s0 v0 alpha rho eta dt norm : ℝ) (n : ℕ)
    (w1 : List (ℝ × ℝ)) (w2 : List ℝ) (h : 0 < v0) :
    ∀ v ∈ (roughBergomi s0 v0 alpha rho eta dt norm n w1 w2).2, 0 < v := by
  unfold roughBergomi
  exact forall_mem_zipWith _ _ (fun i _ y _ => mul_pos h (Real.exp_pos _))

end PfVerif.C11

/-! ### non-negativity of the QE variance scheme -/

namespace PfVerif.C11Aux
open PfVerif

/-- the `psi = s² / max(m², eps)` of one QE step, as a function of the current variance `v` -/
noncomputable def cirPsi (kappa theta sigma dt eps v : ℝ) : ℝ :=
  (v * (sigma * sigma) * Real.exp (-kappa * dt) * (1 - Real.exp (-kappa * dt)) / kappa
      + theta * (sigma * sigma) * ((1 - Real.exp (-kappa * dt)) * (1 - Real.exp (-kappa * dt)))
        / (2 * kappa))
    / max ((theta + (v - theta) * Real.exp (-kappa * dt)) * (theta + (v - theta) * Real.exp (-kappa * dt))) eps

/-- the branch selection of the QE step in terms of `m ≥ 0`, `psi ≥ 0` (any `b`, `z`, `psiCrit`).
In the exponential branch `1 - p = 2/(psi+1) > 0`, `beta > 0`, and `p < u` gives `1 - u < 1 - p`;
the value `log((1-p)/max(1-u, eps))/beta` is non-negative iff `max(1-u, eps) ≤ 1 - p`, which
needs `eps ≤ 1 - p`: guaranteed when the clamp on `1 - u` is inactive (`eps ≤ 1 - u`) or when
`eps (psi + 1) ≤ 2`. -/
theorem qe_select_nonneg (m psi b eps zi ui psiCrit : ℝ) (hm : 0 ≤ m) (hpsi : 0 ≤ psi)
    (heps : 0 < eps) (hclamp : eps ≤ 1 - ui ∨ eps * (psi + 1) ≤ 2) :
    0 ≤ (if psi ≤ psiCrit then m / (1 + b * b) * ((b + zi) * (b + zi))
         else if (psi - 1) / (psi + 1) < ui then
           Real.log ((1 - (psi - 1) / (psi + 1)) / max (1 - ui) eps)
             / ((1 - (psi - 1) / (psi + 1)) / max m eps)
         else 0) := by
  have hp1 : 0 < psi + 1 := by linarith
  have hq : 1 - (psi - 1) / (psi + 1) = 2 / (psi + 1) := by field_simp; ring
  split_ifs with h1 h2
  · exact mul_nonneg (div_nonneg hm (add_nonneg zero_le_one (mul_self_nonneg b))) (mul_self_nonneg _)
  · rw [hq] at *
    have hqpos : 0 < 2 / (psi + 1) := div_pos two_pos hp1
    have hmax : 0 < max (1 - ui) eps := lt_max_of_lt_right heps
    have hmeps : 0 < max m eps := lt_max_of_lt_right heps
    have hu : 1 - ui < 2 / (psi + 1) := by
      have : (psi - 1) / (psi + 1) = 1 - 2 / (psi + 1) := by field_simp; ring
      rw [this] at h2; linarith
    have he : eps ≤ 2 / (psi + 1) := by
      rcases hclamp with hc | hc
      · linarith
      · rw [le_div_iff₀ hp1]; exact hc
    have hle : max (1 - ui) eps ≤ 2 / (psi + 1) := max_le hu.le he
    refine div_nonneg (Real.log_nonneg ?_) (div_pos hqpos hmeps).le
    rw [le_div_iff₀ hmax]; linarith
  · exact le_rfl

theorem cir_m_nonneg (kappa theta dt v : ℝ) (hv : 0 ≤ v) (hth : 0 ≤ theta) (hk : 0 < kappa)
    (hdt : 0 < dt) : 0 ≤ theta + (v - theta) * Real.exp (-kappa * dt) := by
  have he0 : 0 < Real.exp (-kappa * dt) := Real.exp_pos _
  have he1 : Real.exp (-kappa * dt) ≤ 1 := by
    rw [Real.exp_le_one_iff]; nlinarith [mul_pos hk hdt]
  nlinarith [mul_nonneg hth (sub_nonneg.2 he1), mul_nonneg hv he0.le]

theorem cirPsi_nonneg (kappa theta sigma dt eps v : ℝ) (hv : 0 ≤ v) (hth : 0 ≤ theta)
    (hk : 0 < kappa) (hdt : 0 < dt) (heps : 0 < eps) : 0 ≤ cirPsi kappa theta sigma dt eps v := by
  have he0 : 0 < Real.exp (-kappa * dt) := Real.exp_pos _
  have he1 : Real.exp (-kappa * dt) ≤ 1 := by
    rw [Real.exp_le_one_iff]; nlinarith [mul_pos hk hdt]
  have h1e : 0 ≤ 1 - Real.exp (-kappa * dt) := sub_nonneg.2 he1
  unfold cirPsi
  refine div_nonneg (add_nonneg (div_nonneg ?_ hk.le) (div_nonneg ?_ (by positivity)))
    (lt_max_of_lt_right heps).le
  · exact mul_nonneg (mul_nonneg (mul_nonneg hv (mul_self_nonneg _)) he0.le) h1e
  · exact mul_nonneg (mul_nonneg hth (mul_self_nonneg _)) (mul_self_nonneg _)

end PfVerif.C11Aux

namespace PfVerif.C11
open PfVerif PfVerif.C11Aux

/-- One QE step keeps the variance non-negative, for EVERY `sigma`, `psiCrit`, normal draw `zi`
— provided the clamp `max(1 - u, eps)` cannot exceed `1 - p`: either the clamp on `1 - u` is
inactive (`eps ≤ 1 - ui`; true for every `torch.rand` draw, `1 - u ≥ 2⁻²⁴ ≫ finfo.tiny`), or
`eps (psi + 1) ≤ 2`.  Without it the statement is false: `cirStep_neg_example`. -/
theorem cirStep_nonneg (kappa theta sigma dt eps psiCrit v zi ui : ℝ) (hv : 0 ≤ v)
    (hth : 0 ≤ theta) (hk : 0 < kappa) (hdt : 0 < dt) (heps : 0 < eps)
    (hclamp : eps ≤ 1 - ui ∨ eps * (cirPsi kappa theta sigma dt eps v + 1) ≤ 2) :
    0 ≤ cirStep kappa theta sigma dt eps psiCrit v zi ui := by
  unfold cirStep
  exact qe_select_nonneg _ (cirPsi kappa theta sigma dt eps v) _ eps zi ui psiCrit
    (cir_m_nonneg kappa theta dt v hv hth hk hdt)
    (cirPsi_nonneg kappa theta sigma dt eps v hv hth hk hdt heps) heps hclamp

end PfVerif.C11

namespace PfVerif.C11Aux
open PfVerif

theorem cir_go_nonneg (kappa theta sigma dt eps psiCrit : ℝ) (hth : 0 ≤ theta) (hk : 0 < kappa)
    (hdt : 0 < dt) (heps : 0 < eps) (ps : List (ℝ × ℝ)) (v : ℝ) (hv : 0 ≤ v)
    (hclamp : ∀ p ∈ ps, ∀ w, 0 ≤ w →
      eps ≤ 1 - p.2 ∨ eps * (cirPsi kappa theta sigma dt eps w + 1) ≤ 2) :
    ∀ x ∈ cir.go kappa theta sigma dt eps psiCrit v ps, 0 ≤ x := by
  induction ps generalizing v with
  | nil => intro x hx; simp [cir.go] at hx
  | cons p rest ih =>
    obtain ⟨zi, ui⟩ := p
    have hstep : 0 ≤ cirStep kappa theta sigma dt eps psiCrit v zi ui :=
      PfVerif.C11.cirStep_nonneg kappa theta sigma dt eps psiCrit v zi ui hv hth hk hdt heps
        (hclamp (zi, ui) List.mem_cons_self v hv)
    intro x hx
    simp only [cir.go, List.mem_cons] at hx
    rcases hx with rfl | hx
    · exact hstep
    · exact ih _ hstep (fun q hq => hclamp q (List.mem_cons_of_mem _ hq)) x hx

end PfVerif.C11Aux

namespace PfVerif.C11
open PfVerif PfVerif.C11Aux

/-- The whole QE variance path is non-negative (invariant carried from step to step), for every
`sigma`, `psiCrit` and all normal draws, under the clamp condition of `cirStep_nonneg`:
every uniform draw satisfies `u ≤ 1 - eps`, or `eps (psi(w) + 1) ≤ 2` for every state `w ≥ 0`
(a parameter-only sufficient condition for the latter: `cirPsi_clamp_of_params`). -/
theorem cir_nonneg (init kappa theta sigma dt eps psiCrit : ℝ) (z u : List ℝ) (hinit : 0 ≤ init)
    (hth : 0 ≤ theta) (hk : 0 < kappa) (hdt : 0 < dt) (heps : 0 < eps)
    (hclamp : (∀ ui ∈ u, ui ≤ 1 - eps) ∨
      (∀ w, 0 ≤ w → eps * (cirPsi kappa theta sigma dt eps w + 1) ≤ 2)) :
    ∀ v ∈ cir init kappa theta sigma dt eps psiCrit z u, 0 ≤ v := by
  intro x hx
  cases z with
  | nil => simp [cir] at hx
  | cons a as =>
    simp only [cir, List.mem_cons] at hx
    rcases hx with rfl | hx
    · exact hinit
    · refine cir_go_nonneg kappa theta sigma dt eps psiCrit hth hk hdt heps _ init hinit ?_ x hx
      intro p hp w hw
      rcases hclamp with hc | hc
      · left
        have := hc p.2 (mem_initL (List.of_mem_zip (a := p.1) (b := p.2) hp).2)
        linarith
      · exact Or.inr (hc w hw)

/-- Heston: the variance fed to the spot recursion is the QE path, hence non-negative, and
`volatility = sqrt(max(variance, 0))` is its exact square root (see `volatility_sq`). -/
theorem heston_variance_nonneg (init kappa theta sigma dt eps psiCrit : ℝ) (z u : List ℝ)
    (hinit : 0 ≤ init) (hth : 0 ≤ theta) (hk : 0 < kappa) (hdt : 0 < dt) (heps : 0 < eps)
    (hu : ∀ ui ∈ u, ui ≤ 1 - eps) :
    ∀ v ∈ cir init kappa theta sigma dt eps psiCrit z u, 0 ≤ v :=
  cir_nonneg init kappa theta sigma dt eps psiCrit z u hinit hth hk hdt heps (Or.inl hu)

end PfVerif.C11

/-! ### the clamp hypothesis of `cirStep_nonneg` is necessary -/

namespace PfVerif.C11Aux
open PfVerif

/-- the QE step in its exponential branch with `p < u`, in terms of `cirPsi` -/
theorem cirStep_exp_branch (kappa theta sigma dt eps psiCrit v zi ui : ℝ)
    (h1 : psiCrit < cirPsi kappa theta sigma dt eps v)
    (h2 : (cirPsi kappa theta sigma dt eps v - 1) / (cirPsi kappa theta sigma dt eps v + 1) < ui) :
    cirStep kappa theta sigma dt eps psiCrit v zi ui
      = Real.log ((1 - (cirPsi kappa theta sigma dt eps v - 1) / (cirPsi kappa theta sigma dt eps v + 1))
            / max (1 - ui) eps)
          / ((1 - (cirPsi kappa theta sigma dt eps v - 1) / (cirPsi kappa theta sigma dt eps v + 1))
            / max (theta + (v - theta) * Real.exp (-kappa * dt)) eps) := by
  unfold cirStep
  show (if cirPsi kappa theta sigma dt eps v ≤ psiCrit then _ else
    if (cirPsi kappa theta sigma dt eps v - 1) / (cirPsi kappa theta sigma dt eps v + 1) < ui
    then _ else _) = _
  rw [if_neg (not_le.2 h1), if_pos h2]
  rfl

theorem exp_neg_one_mul_log_two : Real.exp (-1 * Real.log 2) = 1 / 2 := by
  rw [neg_one_mul, Real.exp_neg, Real.exp_log two_pos]; norm_num

end PfVerif.C11Aux

namespace PfVerif.C11
open PfVerif PfVerif.C11Aux

/-- FINDING (clamp logic of `generate_cir`).  With `κ = 1`, `dt = log 2` (so `e^{-κ dt} = 1/2`),
`θ = v = 1`, `σ = 4`: `m = 1`, `s² = 6`, `ψ = 6 > 1.5`, `p = 5/7`, `1 - p = 2/7`.  A uniform
draw `u = 0.9 > p` and a clamp level `eps = 1/2 > 1 - p` give
`log((2/7)/max(0.1, 0.5)) / (2/7) = (7/2)·log(4/7) < 0`: a NEGATIVE variance.  All other
hypotheses of `cirStep_nonneg` hold, so its clamp hypothesis cannot be dropped: the clamp
`(1 - u).clamp(min=EPSILON)` is only sound while `EPSILON ≤ 1 - p = 2/(ψ+1)`. -/
theorem cirStep_neg_example :
    cirStep (1 : ℝ) 1 4 (Real.log 2) (1 / 2) (3 / 2) 1 0 (9 / 10) < 0 := by
  have hpsi : cirPsi 1 1 4 (Real.log 2) (1 / 2) 1 = 6 := by
    unfold cirPsi; rw [exp_neg_one_mul_log_two]; norm_num
  rw [cirStep_exp_branch _ _ _ _ _ _ _ _ _ (by rw [hpsi]; norm_num) (by rw [hpsi]; norm_num),
    hpsi, exp_neg_one_mul_log_two]
  refine div_neg_of_neg_of_pos (Real.log_neg (by norm_num) ?_) (by norm_num)
  norm_num

end PfVerif.C11

namespace PfVerif.C11
open PfVerif PfVerif.C11Aux

/-- The same at EVERY clamp level `0 < eps < 1` (in particular `finfo.tiny`): a volatility of
variance `σ = sqrt(16/(3 eps))` makes `ψ = 2/eps`, `1 - p = 2 eps/(2 + eps) < eps`, and the
uniform draw `u = 1 - eps/2 ∈ (p, 1)` then produces a negative variance.  (For `eps = finfo.tiny`
this needs `σ ≈ 10¹⁹` in float32: the real-number scheme is unsound there, the float32 code
cannot reach it because `1 - u ≥ 2⁻²⁴`.) -/
theorem cirStep_neg_of_large_sigma (eps : ℝ) (h0 : 0 < eps) (h1 : eps < 1) :
    cirStep (1 : ℝ) 1 (Real.sqrt (16 / (3 * eps))) (Real.log 2) eps (3 / 2) 1 0 (1 - eps / 2) < 0 := by
  have hpsi : cirPsi 1 1 (Real.sqrt (16 / (3 * eps))) (Real.log 2) eps 1 = 2 / eps := by
    unfold cirPsi
    rw [exp_neg_one_mul_log_two, Real.mul_self_sqrt (by positivity)]
    have hmax : max ((1 + (1 - 1) * (1 / 2 : ℝ)) * (1 + (1 - 1) * (1 / 2 : ℝ))) eps = 1 := by
      rw [max_eq_left] <;> norm_num; linarith
    rw [hmax]; field_simp; ring
  have hp : (2 / eps - 1) / (2 / eps + 1) = (2 - eps) / (2 + eps) := by field_simp
  have hcrit : (3 / 2 : ℝ) < 2 / eps := by
    rw [lt_div_iff₀ h0]; linarith
  have hpu : (2 - eps) / (2 + eps) < 1 - eps / 2 := by
    rw [div_lt_iff₀ (by linarith)]; nlinarith
  rw [cirStep_exp_branch _ _ _ _ _ _ _ _ _ (by rw [hpsi]; exact hcrit) (by rw [hpsi, hp]; exact hpu),
    hpsi, hp, exp_neg_one_mul_log_two]
  have hq : 1 - (2 - eps) / (2 + eps) = 2 * eps / (2 + eps) := by field_simp; ring
  have hm1 : max (1 - (1 - eps / 2)) eps = eps := by rw [max_eq_right]; linarith
  have hm2 : max (1 + (1 - 1) * (1 / 2 : ℝ)) eps = 1 := by
    rw [max_eq_left] <;> norm_num; linarith
  rw [hq, hm1, hm2]
  have hratio : 2 * eps / (2 + eps) / eps = 2 / (2 + eps) := by field_simp
  rw [hratio]
  refine div_neg_of_neg_of_pos (Real.log_neg (by positivity) ?_) (by positivity)
  rw [div_lt_one (by linarith)]; linarith

end PfVerif.C11

namespace PfVerif.C11
open PfVerif PfVerif.C11Aux

/-- A parameter-only sufficient condition for the second clamp alternative of `cir_nonneg`:
with `e = exp(-κ dt)`, if `σ²(1-e)/κ · √eps + θσ²(1-e)²/(2κ) + eps ≤ 2` then
`eps (ψ(w) + 1) ≤ 2` at every state `w ≥ 0` (because `ψ(w) ≤ σ²(1-e)/(κ√eps) + θσ²(1-e)²/(2κ eps)`
uniformly in `w`). -/
theorem cirPsi_clamp_of_params (kappa theta sigma dt eps : ℝ) (hth : 0 ≤ theta) (hk : 0 < kappa)
    (hdt : 0 < dt) (heps : 0 < eps)
    (h : sigma * sigma * (1 - Real.exp (-kappa * dt)) / kappa * Real.sqrt eps
        + theta * (sigma * sigma) * ((1 - Real.exp (-kappa * dt)) * (1 - Real.exp (-kappa * dt)))
          / (2 * kappa) + eps ≤ 2) :
    ∀ w, 0 ≤ w → eps * (cirPsi kappa theta sigma dt eps w + 1) ≤ 2 := by
  intro w hw
  have he0 : 0 < Real.exp (-kappa * dt) := Real.exp_pos _
  have he1 : Real.exp (-kappa * dt) ≤ 1 := by
    rw [Real.exp_le_one_iff]; nlinarith [mul_pos hk hdt]
  have hm := cir_m_nonneg kappa theta dt w hw hth hk hdt
  unfold cirPsi
  generalize Real.exp (-kappa * dt) = e at *
  have h1e : 0 ≤ 1 - e := sub_nonneg.2 he1
  set m := theta + (w - theta) * e with hmdef
  set A := sigma * sigma * (1 - e) / kappa with hA
  set B := theta * (sigma * sigma) * ((1 - e) * (1 - e)) / (2 * kappa) with hB
  set r := Real.sqrt eps with hr
  have hA0 : 0 ≤ A := div_nonneg (mul_nonneg (mul_self_nonneg _) h1e) hk.le
  have hB0 : 0 ≤ B :=
    div_nonneg (mul_nonneg (mul_nonneg hth (mul_self_nonneg _)) (mul_self_nonneg _)) (by positivity)
  have hr0 : 0 < r := Real.sqrt_pos.2 heps
  have hrr : r * r = eps := Real.mul_self_sqrt heps.le
  have hM1 : eps ≤ max (m * m) eps := le_max_right _ _
  have hM2 : m * m ≤ max (m * m) eps := le_max_left _ _
  have hM0 : 0 < max (m * m) eps := lt_of_lt_of_le heps hM1
  have hs2 : w * (sigma * sigma) * e * (1 - e) / kappa = A * (w * e) := by
    rw [hA]; field_simp
  have hwe : w * e ≤ m := by
    rw [hmdef]; nlinarith [mul_nonneg hth h1e]
  have hrm : r * m ≤ max (m * m) eps := by
    rcases le_total m r with hc | hc
    · calc r * m ≤ r * r := mul_le_mul_of_nonneg_left hc hr0.le
        _ = eps := hrr
        _ ≤ _ := hM1
    · calc r * m ≤ m * m := mul_le_mul_of_nonneg_right hc hm
        _ ≤ _ := hM2
  have hkey : eps * (A * (w * e) + B) ≤ (A * r + B) * max (m * m) eps := by
    have h1 : eps * (A * (w * e)) ≤ A * r * max (m * m) eps := by
      calc eps * (A * (w * e)) ≤ eps * (A * m) :=
            mul_le_mul_of_nonneg_left (mul_le_mul_of_nonneg_left hwe hA0) heps.le
        _ = A * r * (r * m) := by rw [← hrr]; ring
        _ ≤ A * r * max (m * m) eps :=
            mul_le_mul_of_nonneg_left hrm (mul_nonneg hA0 hr0.le)
    have h2 : eps * B ≤ B * max (m * m) eps := by
      rw [mul_comm]; exact mul_le_mul_of_nonneg_left hM1 hB0
    linarith
  rw [hs2]
  have : eps * ((A * (w * e) + B) / max (m * m) eps + 1)
      = eps * (A * (w * e) + B) / max (m * m) eps + eps := by ring
  rw [this]
  have : eps * (A * (w * e) + B) / max (m * m) eps ≤ A * r + B := by
    rw [div_le_iff₀ hM0]; exact hkey
  linarith

end PfVerif.C11

namespace PfVerif.C11
open PfVerif PfVerif.C11Aux

/-- the hypothesis `2α + 1 ≠ 0` of `roughBergomi_variance_head` is necessary: at `α = -1/2`
`Real.rpow` gives `0 ^ 0 = 1` and the variance series starts at `v0 · exp(-η²/2)`, not `v0` -/
theorem roughBergomi_variance_head_at_neg_half (s0 v0 rho eta dt norm : ℝ) (n : ℕ)
    (w1 : List (ℝ × ℝ)) (w2 : List ℝ) (hn : 1 ≤ n) :
    (roughBergomi s0 v0 (-1 / 2) rho eta dt norm n w1 w2).2.head?
      = some (v0 * Real.exp (-(1 / 2) * (eta * eta))) := by
  obtain ⟨k, rfl⟩ : ∃ k, n = k + 1 := ⟨n - 1, by omega⟩
  simp only [roughBergomi, arangeL_succ, List.range_succ_eq_map, List.map_cons,
    List.zipWith_cons_cons, List.head?_cons]
  have h0 : (2 * (-1 / 2) + 1 : ℝ) = 0 := by norm_num
  simp [Transc.exp, Transc.sqrt, TranscPow.pow, sumL, h0]

/-! ### volatility = square root of the (clamped) variance -/

/-- Heston / rough Bergomi instruments: `volatility = sqrt(clamp(variance, min=0))` squares back
to the clamped variance … -/
theorem volatility_sq (v : ℝ) : Real.sqrt (max v 0) ^ 2 = max v 0 :=
  Real.sq_sqrt (le_max_right _ _)

/-- … which is the variance itself whenever that is non-negative (`cir_nonneg`,
`roughBergomi_variance_pos`) -/
theorem volatility_sq_of_nonneg (v : ℝ) (h : 0 ≤ v) : Real.sqrt (max v 0) ^ 2 = v := by
  rw [volatility_sq, max_eq_left h]

theorem volatility_eq_sqrt_variance (v : ℝ) (h : 0 ≤ v) : Real.sqrt (max v 0) = Real.sqrt v := by
  rw [max_eq_left h]

/-- for a negative (invalid) variance the clamp makes the volatility `0` -/
theorem volatility_of_neg (v : ℝ) (h : v ≤ 0) : Real.sqrt (max v 0) = 0 := by
  rw [max_eq_right h, Real.sqrt_zero]

/-- constant-volatility instruments: `variance = σ²` and `sqrt(σ²) = σ` for `σ ≥ 0` -/
theorem const_volatility (sigma : ℝ) (h : 0 ≤ sigma) : Real.sqrt (sigma ^ 2) = sigma :=
  Real.sqrt_sq h

/-! ### non-vacuity -/

example : cumsumL [(1 : ℝ), 2, 3] = [1, 3, 6] ∧ cumprodL [(1 : ℝ), 2, 3] = [1, 2, 6] := by
  constructor <;> norm_num [cumsumL, cumsumL.go, cumprodL, cumprodL.go]

/-- a 3-step Brownian path, `dt = 1/4`: `[init, ¾·1 + 2·(½·1) + 1, ¾·2 + 2·(½·0) + 1]` -/
example : brownian (1 : ℝ) 2 3 (1 / 4) [5, 1, -1] = [1, 11 / 4, 5 / 2] := by
  have hs : Real.sqrt (1 / 4) = 1 / 2 := by
    rw [show (1 / 4 : ℝ) = (1 / 2) ^ 2 by norm_num]; exact Real.sqrt_sq (by norm_num)
  simp only [brownian, arangeL, cumsumL, cumsumL.go, zeroFirst, List.length_cons, List.length_nil,
    List.range_succ_eq_map, List.range_zero, List.map_cons, List.map_nil, List.zipWith_cons_cons,
    List.zipWith_nil_right, Transc.sqrt, hs]
  norm_num

/-- a 3-step geometric Brownian path has 3 positive entries starting at `init` -/
example (sigma mu dt a b c : ℝ) :
    (geometricBrownian 2 sigma mu dt [a, b, c]).length = 3 ∧
    (geometricBrownian 2 sigma mu dt [a, b, c]).head? = some 2 ∧
    ∀ x ∈ geometricBrownian 2 sigma mu dt [a, b, c], 0 < x :=
  ⟨geometricBrownian_length .., gbm_head _ _ _ _ _ (by simp), gbm_pos _ _ _ _ _ (by norm_num)⟩

/-- the hypotheses of `cir_nonneg` are satisfiable: default parameters of `generate_cir`
(`κ = 1`, `θ = 0.04`, `σ = 2`, `dt = 1/250`, `PSI_CRIT = 1.5`), a tiny `eps`, three draws -/
example : (cir (0.04 : ℝ) 1 0.04 2 (1 / 250) (1 / 10 ^ 38) 1.5 [0.3, -0.2, 0] [0.5, 0.2, 0]).length = 3 ∧
    ∀ v ∈ cir (0.04 : ℝ) 1 0.04 2 (1 / 250) (1 / 10 ^ 38) 1.5 [0.3, -0.2, 0] [0.5, 0.2, 0], 0 ≤ v := by
  refine ⟨cir_length _ _ _ _ _ _ _ _ _ (by simp), ?_⟩
  refine cir_nonneg _ _ _ _ _ _ _ _ _ (by norm_num) (by norm_num) (by norm_num) (by norm_num)
    (by norm_num) (Or.inl ?_)
  intro ui hu
  simp only [List.mem_cons, List.not_mem_nil, or_false] at hu
  rcases hu with rfl | rfl | rfl <;> norm_num

/-- Merton / Kou with draws for the steps `1, 2` of a 3-step path -/
example (init mu sigma lam jm js dt : ℝ) :
    (mertonJump init mu sigma lam jm js dt [1, 0] [0.3, -0.1] [0, 0.5, -0.5]).length = 3 :=
  mertonJump_length _ _ _ _ _ _ _ _ _ _ (by simp) (by simp)

example (sigma mu lam etaUp etaDown pUp dt : ℝ) :
    (kouJump 1 sigma mu lam etaUp etaDown pUp dt [[0.1, -0.2], []] [0, 0.5, -0.5]).length = 3 ∧
    ∀ x ∈ kouJump 1 sigma mu lam etaUp etaDown pUp dt [[0.1, -0.2], []] [0, 0.5, -0.5], 0 < x :=
  ⟨kouJump_length _ _ _ _ _ _ _ _ _ _ (by simp), kou_pos _ _ _ _ _ _ _ _ _ _ one_pos⟩

end PfVerif.C11
