/-
  C18 — At zero time to maturity or zero volatility every Black–Scholes price equals the payoff
  that is then certain, deltas take their limiting values, and no price or delta is NaN; negative
  time to maturity or volatility is rejected with an error instead of a silent NaN.

  Model: the scalar-generic definitions of Model/BS.lean instantiated at `α := XR`
  (Lemmas/XR.lean: extended reals with NaN = IEEE special-value arithmetic, exact on finite values).
-/
import PfVerif.Model.BS
import PfVerif.Lemmas.XR
import PfVerif.Lemmas.GaussInt

namespace PfVerif.C18Aux
open PfVerif XR

/-- the limiting value of `d1`, `d2` when `v·√t = 0`: `sign(s) · ∞` (and `0` by the `where` guard) -/
noncomputable def dLim (s : ℝ) : XR := if 0 < s then pinf else if s < 0 then ninf else fin 0

@[simp] theorem dLim_pos {s : ℝ} (h : 0 < s) : dLim s = pinf := by simp [dLim, h]
@[simp] theorem dLim_neg {s : ℝ} (h : s < 0) : dLim s = ninf := by simp [dLim, h, not_lt.2 h.le]
@[simp] theorem dLim_zero : dLim 0 = fin 0 := by simp [dLim]

/-- "at expiry": zero time to maturity or zero volatility (the other one non-negative) -/
theorem expiry_facts {t v : ℝ} (h : (t = 0 ∧ 0 ≤ v) ∨ (v = 0 ∧ 0 ≤ t)) :
    0 ≤ t ∧ 0 ≤ v ∧ v * Real.sqrt t = 0 := by
  rcases h with ⟨rfl, hv⟩ | ⟨rfl, ht⟩
  · exact ⟨le_rfl, hv, by simp⟩
  · exact ⟨ht, le_rfl, by simp⟩

theorem validate_ok {t v : ℝ} (ht : 0 ≤ t) (hv : 0 ≤ v) : bsValidate (fin t) (fin v) = .ok () := by
  simp [bsValidate, ht, hv]

/-- `w = v·√t` at `XR` for non-negative finite `t` -/
theorem w_fin {t : ℝ} (ht : 0 ≤ t) (v : ℝ) :
    fin v * Transc.sqrt (fin t) = fin (v * Real.sqrt t) := by
  rw [sqrt_fin_nonneg ht, fin_mul_fin]

theorem isZero_fin (x : ℝ) : isZero (fin x) = decide (x = 0) := by
  simp only [isZero, zero_def, fin_le_fin]
  by_cases h : x = 0
  · simp [h]
  · rcases lt_or_gt_of_ne h with h1 | h1
    · simp [h, not_le.2 h1]
    · simp [h, not_le.2 h1]

theorem bsD1_expiry (s : ℝ) {t v : ℝ} (h : (t = 0 ∧ 0 ≤ v) ∨ (v = 0 ∧ 0 ≤ t)) :
    bsD1 (fin s) (fin t) (fin v) = .ok (dLim s) := by
  obtain ⟨ht, hv, hw⟩ := expiry_facts h
  unfold bsD1
  rw [validate_ok ht hv, w_fin ht, hw]
  show Except.ok (if (!(isZero (fin s)) || !(isZero (fin 0))) = true then _ else _) = _
  rw [isZero_fin, isZero_fin]
  rcases lt_trichotomy s 0 with hs | rfl | hs
  · simp [hs, hs.ne]
  · simp
  · simp [hs, hs.ne']

theorem bsD2_expiry (s : ℝ) {t v : ℝ} (h : (t = 0 ∧ 0 ≤ v) ∨ (v = 0 ∧ 0 ≤ t)) :
    bsD2 (fin s) (fin t) (fin v) = .ok (dLim s) := by
  obtain ⟨ht, hv, hw⟩ := expiry_facts h
  unfold bsD2
  rw [validate_ok ht hv, w_fin ht, hw]
  show Except.ok (if (!(isZero (fin s)) || !(isZero (fin 0))) = true then _ else _) = _
  rw [isZero_fin, isZero_fin]
  rcases lt_trichotomy s 0 with hs | rfl | hs
  · simp [hs, hs.ne]
  · simp
  · simp [hs, hs.ne']

end PfVerif.C18Aux
