/-
  C18 — At zero time to maturity or zero volatility every Black–Scholes price equals the payoff
  that is then certain, deltas take their limiting values, and no price or delta is NaN; negative
  time to maturity or volatility is rejected with an error instead of a silent NaN.

  Model: the scalar-generic definitions of Model/BS.lean instantiated at `α := XR`
  (Lemmas/XR.lean: extended reals with NaN = IEEE special-value arithmetic, exact on finite values).
-/
import PfVerif.Model.BS
import PfVerif.Lemmas.XR
import PfVerif.Lemmas.GaussInt

namespace PfVerif.C18Aux
open PfVerif XR

/-- the limiting value of `d1`, `d2` when `v·√t = 0`: `sign(s) · ∞` (and `0` by the `where` guard) -/
noncomputable def dLim (s : ℝ) : XR := if 0 < s then pinf else if s < 0 then ninf else fin 0

@[simp] theorem dLim_pos {s : ℝ} (h : 0 < s) : dLim s = pinf := by simp [dLim, h]
@[simp] theorem dLim_neg {s : ℝ} (h : s < 0) : dLim s = ninf := by simp [dLim, h, not_lt.2 h.le]
@[simp] theorem dLim_zero : dLim 0 = fin 0 := by simp [dLim]

/-- "at expiry": zero time to maturity or zero volatility (the other one non-negative) -/
theorem expiry_facts {t v : ℝ} (h : (t = 0 ∧ 0 ≤ v) ∨ (v = 0 ∧ 0 ≤ t)) :
    0 ≤ t ∧ 0 ≤ v ∧ v * Real.sqrt t = 0 := by
  rcases h with ⟨rfl, hv⟩ | ⟨rfl, ht⟩
  · exact ⟨le_rfl, hv, by simp⟩
  · exact ⟨ht, le_rfl, by simp⟩

theorem validate_ok {t v : ℝ} (ht : 0 ≤ t) (hv : 0 ≤ v) : bsValidate (fin t) (fin v) = .ok () := by
  simp [bsValidate, ht, hv]

/-- `w = v·√t` at `XR` for non-negative finite `t` -/
theorem w_fin {t : ℝ} (ht : 0 ≤ t) (v : ℝ) :
    fin v * Transc.sqrt (fin t) = fin (v * Real.sqrt t) := by
  rw [sqrt_fin_nonneg ht, fin_mul_fin]

theorem isZero_fin (x : ℝ) : isZero (fin x) = decide (x = 0) := by
  simp only [isZero, zero_def, fin_le_fin]
  by_cases h : x = 0
  · simp [h]
  · rcases lt_or_gt_of_ne h with h1 | h1
    · simp [h, not_le.2 h1]
    · simp [h, not_le.2 h1]

theorem bsD1_expiry (s : ℝ) {t v : ℝ} (h : (t = 0 ∧ 0 ≤ v) ∨ (v = 0 ∧ 0 ≤ t)) :
    bsD1 (fin s) (fin t) (fin v) = .ok (dLim s) := by
  obtain ⟨ht, hv, hw⟩ := expiry_facts h
  unfold bsD1
  rw [validate_ok ht hv, w_fin ht, hw]
  show Except.ok (if (!(isZero (fin s)) || !(isZero (fin 0))) = true then _ else _) = _
  rw [isZero_fin, isZero_fin]
  rcases lt_trichotomy s 0 with hs | rfl | hs
  · simp [hs, hs.ne]
  · simp
  · simp [hs, hs.ne']

theorem bsD2_expiry (s : ℝ) {t v : ℝ} (h : (t = 0 ∧ 0 ≤ v) ∨ (v = 0 ∧ 0 ≤ t)) :
    bsD2 (fin s) (fin t) (fin v) = .ok (dLim s) := by
  obtain ⟨ht, hv, hw⟩ := expiry_facts h
  unfold bsD2
  rw [validate_ok ht hv, w_fin ht, hw]
  show Except.ok (if (!(isZero (fin s)) || !(isZero (fin 0))) = true then _ else _) = _
  rw [isZero_fin, isZero_fin]
  rcases lt_trichotomy s 0 with hs | rfl | hs
  · simp [hs, hs.ne]
  · simp
  · simp [hs, hs.ne']


/-! ### `Except` plumbing -/

theorem ok_bind {β γ : Type} (a : β) (f : β → Except Err γ) : (Except.ok a >>= f) = f a := rfl
theorem err_bind {β γ : Type} (e : Err) (f : β → Except Err γ) :
    ((Except.error e : Except Err β) >>= f) = .error e := rfl
theorem pure_eq {β : Type} (a : β) : (pure a : Except Err β) = .ok a := rfl

/-- a model result is a value, and that value is not NaN -/
def OkNotNan (r : Except Err XR) : Prop := ∃ x, r = .ok x ∧ ¬ isNan x

/-- a model result is a finite value -/
def OkFinite (r : Except Err XR) : Prop := ∃ x : ℝ, r = .ok (fin x)

theorem OkFinite.okNotNan {r : Except Err XR} (h : OkFinite r) : OkNotNan r := by
  obtain ⟨x, rfl⟩ := h
  exact ⟨fin x, rfl, not_isNan_fin x⟩

theorem okFinite_fin (x : ℝ) : OkFinite (.ok (fin x)) := ⟨x, rfl⟩
theorem okNotNan_fin (x : ℝ) : OkNotNan (.ok (fin x)) := ⟨fin x, rfl, not_isNan_fin x⟩
theorem okNotNan_pinf : OkNotNan (.ok pinf) := ⟨pinf, rfl, not_isNan_pinf⟩
theorem okNotNan_ninf : OkNotNan (.ok ninf) := ⟨ninf, rfl, not_isNan_ninf⟩

/-! ### guarded division at `XR` -/

theorem guardedDiv_zero_zero : guardedDiv (fin 0) (fin 0) = fin 0 := by
  simp [guardedDiv, isZero_fin]

theorem guardedDiv_pos_zero {x : ℝ} (hx : 0 < x) : guardedDiv (fin x) (fin 0) = pinf := by
  simp [guardedDiv, isZero_fin, hx.ne', hx]

theorem guardedDiv_den_ne (x : ℝ) {y : ℝ} (hy : y ≠ 0) : guardedDiv (fin x) (fin y) = fin (x / y) := by
  simp [guardedDiv, isZero_fin, hy]

/-- `spot · v · √t` at expiry is the finite zero -/
theorem spot_w_expiry {t v : ℝ} (h : (t = 0 ∧ 0 ≤ v) ∨ (v = 0 ∧ 0 ≤ t)) (s K : ℝ) :
    Transc.exp (fin s) * fin K * fin v * Transc.sqrt (fin t) = fin 0 := by
  obtain ⟨ht, hv, hw⟩ := expiry_facts h
  rw [exp_fin, sqrt_fin_nonneg ht, fin_mul_fin, fin_mul_fin, fin_mul_fin, mul_assoc, hw, mul_zero]


/-- `w = v·√t` at expiry is the finite zero -/
theorem w_expiry {t v : ℝ} (h : (t = 0 ∧ 0 ≤ v) ∨ (v = 0 ∧ 0 ≤ t)) :
    fin v * Transc.sqrt (fin t) = fin 0 := by
  obtain ⟨ht, _, hw⟩ := expiry_facts h
  rw [w_fin ht, hw]

/-! ### interior `t, v > 0` -/

theorem bsD1_interior (s : ℝ) {t v : ℝ} (ht : 0 < t) (hv : 0 < v) :
    bsD1 (fin s) (fin t) (fin v)
      = .ok (fin (s / (v * Real.sqrt t) + v * Real.sqrt t / 2)) := by
  have hw : v * Real.sqrt t ≠ 0 := (mul_pos hv (Real.sqrt_pos.2 ht)).ne'
  unfold bsD1
  rw [validate_ok ht.le hv.le, w_fin ht.le]
  show Except.ok (if (!(isZero (fin s)) || !(isZero (fin _))) = true then _ else _) = _
  rw [isZero_fin, isZero_fin]
  simp [hw, fin_div_fin_ne _ hw]

theorem bsD2_interior (s : ℝ) {t v : ℝ} (ht : 0 < t) (hv : 0 < v) :
    bsD2 (fin s) (fin t) (fin v)
      = .ok (fin (s / (v * Real.sqrt t) - v * Real.sqrt t / 2)) := by
  have hw : v * Real.sqrt t ≠ 0 := (mul_pos hv (Real.sqrt_pos.2 ht)).ne'
  unfold bsD2
  rw [validate_ok ht.le hv.le, w_fin ht.le]
  show Except.ok (if (!(isZero (fin s)) || !(isZero (fin _))) = true then _ else _) = _
  rw [isZero_fin, isZero_fin]
  simp [hw, fin_div_fin_ne _ hw]

theorem okFinite_ite (c : Prop) [Decidable c] (x y : ℝ) :
    OkFinite (.ok (if c then fin x else fin y)) := by
  split_ifs
  · exact ⟨x, rfl⟩
  · exact ⟨y, rfl⟩

/-! ### scope remark (not part of C18, which speaks of prices and deltas only)

The *gammas* of the binary options are not guarded: out of the money at expiry they are
`φ(−∞)/(0·S²) = 0/0 = NaN`.  Recorded here so that the boundary of the property is explicit. -/

theorem scope_remark_gamma_nan {t v : ℝ} (h : (t = 0 ∧ 0 ≤ v) ∨ (v = 0 ∧ 0 ≤ t)) (s m K : ℝ)
    (hs : s < 0) (hm : m < 0) (call : Bool) :
    bsBinaryGamma (fin s) (fin t) (fin v) (fin K) call = .ok nan ∧
    bsAmericanBinaryGamma (fin s) (fin m) (fin t) (fin v) (fin K) = .ok nan := by
  constructor
  · simp only [bsBinaryGamma, bsBinaryGammaW, bsD2_expiry s h, ok_bind, pure_eq, w_expiry h,
      dLim_neg hs, npdf_ninf, exp_fin, fin_mul_fin, zero_mul, zero_div_zero, neg_nan, nan_mul,
      ite_self]
  · simp only [bsAmericanBinaryGamma, bsD1_expiry s h, bsD2_expiry s h, ok_bind, pure_eq,
      w_expiry h, zero_def, fin_lt_fin, if_pos hm, dLim_neg hs, npdf_ninf, exp_fin, fin_mul_fin,
      mul_zero, zero_div_zero, neg_nan, nan_sub, mul_nan, sub_nan, nan_add]

/-! ### rejection -/

theorem validate_err {t v : XR} (h : ¬ (0 : XR) ≤ t ∨ ¬ (0 : XR) ≤ v) :
    bsValidate t v = .error .valueError := by
  unfold bsValidate
  by_cases ht : (0 : XR) ≤ t
  · have hv : ¬ (0 : XR) ≤ v := h.resolve_left (fun h' => h' ht)
    rw [if_neg (not_not.2 ht), if_pos hv]
  · rw [if_pos ht]

theorem bsD1_err (s : XR) {t v : XR} (h : ¬ (0 : XR) ≤ t ∨ ¬ (0 : XR) ≤ v) :
    bsD1 s t v = .error .valueError := by
  unfold bsD1; rw [validate_err h]; rfl

theorem bsD2_err (s : XR) {t v : XR} (h : ¬ (0 : XR) ≤ t ∨ ¬ (0 : XR) ≤ v) :
    bsD2 s t v = .error .valueError := by
  unfold bsD2; rw [validate_err h]; rfl

end PfVerif.C18Aux

namespace PfVerif.C18
open PfVerif XR C18Aux

/-! ### `d1`, `d2` -/

section expiry
variable {t v : ℝ}

/-- `d1` at expiry: `+∞` in the money, `−∞` out of the money, `0` at the strike (the `where`
guard) — in particular never NaN -/
theorem d1_at_expiry (h : (t = 0 ∧ 0 ≤ v) ∨ (v = 0 ∧ 0 ≤ t)) (s : ℝ) :
    (0 < s → bsD1 (fin s) (fin t) (fin v) = .ok pinf) ∧
    (s < 0 → bsD1 (fin s) (fin t) (fin v) = .ok ninf) ∧
    (s = 0 → bsD1 (fin s) (fin t) (fin v) = .ok (fin 0)) := by
  rw [bsD1_expiry s h]
  refine ⟨fun hs => ?_, fun hs => ?_, fun hs => ?_⟩
  · rw [dLim_pos hs]
  · rw [dLim_neg hs]
  · rw [hs, dLim_zero]

theorem d2_at_expiry (h : (t = 0 ∧ 0 ≤ v) ∨ (v = 0 ∧ 0 ≤ t)) (s : ℝ) :
    (0 < s → bsD2 (fin s) (fin t) (fin v) = .ok pinf) ∧
    (s < 0 → bsD2 (fin s) (fin t) (fin v) = .ok ninf) ∧
    (s = 0 → bsD2 (fin s) (fin t) (fin v) = .ok (fin 0)) := by
  rw [bsD2_expiry s h]
  refine ⟨fun hs => ?_, fun hs => ?_, fun hs => ?_⟩
  · rw [dLim_pos hs]
  · rw [dLim_neg hs]
  · rw [hs, dLim_zero]

/-! ### European option -/

/-- the European price at expiry is the intrinsic value (call and put) -/
theorem european_price_at_expiry (h : (t = 0 ∧ 0 ≤ v) ∨ (v = 0 ∧ 0 ≤ t)) (s K : ℝ) (hK : 0 < K) :
    bsEuropeanPrice (fin s) (fin t) (fin v) (fin K) true
      = .ok (fin (max (K * Real.exp s - K) 0)) ∧
    bsEuropeanPrice (fin s) (fin t) (fin v) (fin K) false
      = .ok (fin (max (K - K * Real.exp s) 0)) := by
  simp only [bsEuropeanPrice, bsD1_expiry s h, bsD2_expiry s h, ok_bind, pure_eq, ↓reduceIte,
    Bool.false_eq_true]
  rcases lt_trichotomy s 0 with hs | rfl | hs
  · have he : Real.exp s < 1 := Real.exp_lt_one_iff.2 hs
    simp only [dLim_neg hs, ncdf_ninf, exp_fin, one_def, fin_mul_fin, fin_sub_fin, fin_add_fin]
    rw [max_eq_right (by nlinarith), max_eq_left (by nlinarith)]
    constructor <;> congr 2 <;> ring
  · simp only [dLim_zero, ncdf_fin, Phi_zero, exp_fin, Real.exp_zero, one_def, fin_mul_fin,
      fin_sub_fin, fin_add_fin]
    constructor <;> congr 2 <;> simp
  · have he : 1 < Real.exp s := Real.one_lt_exp_iff.2 hs
    simp only [dLim_pos hs, ncdf_pinf, exp_fin, one_def, fin_mul_fin, fin_sub_fin, fin_add_fin]
    rw [max_eq_left (by nlinarith), max_eq_right (by nlinarith)]
    constructor <;> congr 2 <;> ring

/-- at the strike both are exactly zero -/
theorem european_price_at_expiry_atm (h : (t = 0 ∧ 0 ≤ v) ∨ (v = 0 ∧ 0 ≤ t)) (K : ℝ) (hK : 0 < K)
    (call : Bool) : bsEuropeanPrice (fin 0) (fin t) (fin v) (fin K) call = .ok (fin 0) := by
  cases call
  · rw [(european_price_at_expiry h 0 K hK).2]; simp
  · rw [(european_price_at_expiry h 0 K hK).1]; simp

/-- the European delta at expiry: call `1 / 0 / ½`, put `0 / −1 / −½` (in / out of / at the money) -/
theorem european_delta_at_expiry (h : (t = 0 ∧ 0 ≤ v) ∨ (v = 0 ∧ 0 ≤ t)) (s : ℝ) :
    (0 < s → bsEuropeanDelta (fin s) (fin t) (fin v) true = .ok (fin 1) ∧
             bsEuropeanDelta (fin s) (fin t) (fin v) false = .ok (fin 0)) ∧
    (s < 0 → bsEuropeanDelta (fin s) (fin t) (fin v) true = .ok (fin 0) ∧
             bsEuropeanDelta (fin s) (fin t) (fin v) false = .ok (fin (-1))) ∧
    (s = 0 → bsEuropeanDelta (fin s) (fin t) (fin v) true = .ok (fin (1 / 2)) ∧
             bsEuropeanDelta (fin s) (fin t) (fin v) false = .ok (fin (-1 / 2))) := by
  simp only [bsEuropeanDelta, bsD1_expiry s h, ok_bind, pure_eq, ↓reduceIte, Bool.false_eq_true]
  refine ⟨fun hs => ?_, fun hs => ?_, fun hs => ?_⟩
  · simp only [dLim_pos hs, ncdf_pinf, one_def, fin_sub_fin, sub_self, and_self]
  · simp only [dLim_neg hs, ncdf_ninf, one_def, fin_sub_fin, zero_sub, and_self]
  · subst hs
    simp only [dLim_zero, ncdf_fin, Phi_zero, one_def, fin_sub_fin, true_and]
    congr 2; norm_num

/-! ### European binary option -/

/-- the binary price at expiry: `1` / `0` away from the strike, `½` at the strike -/
theorem binary_price_at_expiry (h : (t = 0 ∧ 0 ≤ v) ∨ (v = 0 ∧ 0 ≤ t)) (s : ℝ) :
    (0 < s → bsBinaryPrice (fin s) (fin t) (fin v) true = .ok (fin 1) ∧
             bsBinaryPrice (fin s) (fin t) (fin v) false = .ok (fin 0)) ∧
    (s < 0 → bsBinaryPrice (fin s) (fin t) (fin v) true = .ok (fin 0) ∧
             bsBinaryPrice (fin s) (fin t) (fin v) false = .ok (fin 1)) ∧
    (s = 0 → bsBinaryPrice (fin s) (fin t) (fin v) true = .ok (fin (1 / 2)) ∧
             bsBinaryPrice (fin s) (fin t) (fin v) false = .ok (fin (1 / 2))) := by
  simp only [bsBinaryPrice, bsD2_expiry s h, ok_bind, pure_eq, ↓reduceIte, Bool.false_eq_true]
  refine ⟨fun hs => ?_, fun hs => ?_, fun hs => ?_⟩
  · simp only [dLim_pos hs, ncdf_pinf, one_def, fin_sub_fin, sub_self, and_self]
  · simp only [dLim_neg hs, ncdf_ninf, one_def, fin_sub_fin, sub_zero, and_self]
  · subst hs
    simp only [dLim_zero, ncdf_fin, Phi_zero, one_def, fin_sub_fin, true_and]
    congr 2; norm_num

/-- the binary delta at expiry: `0` away from the strike (the `0/0 ↦ 0` guard); at the strike the
code returns `φ(0)/0 = +∞` (call) and `−∞` (put) — the Dirac limit, and not NaN -/
theorem binary_delta_at_expiry (h : (t = 0 ∧ 0 ≤ v) ∨ (v = 0 ∧ 0 ≤ t)) (s K : ℝ) :
    (s ≠ 0 → ∀ call, bsBinaryDelta (fin s) (fin t) (fin v) (fin K) call = .ok (fin 0)) ∧
    (s = 0 → bsBinaryDelta (fin s) (fin t) (fin v) (fin K) true = .ok pinf ∧
             bsBinaryDelta (fin s) (fin t) (fin v) (fin K) false = .ok ninf) := by
  simp only [bsBinaryDelta, bsD2_expiry s h, ok_bind, pure_eq, spot_w_expiry h]
  refine ⟨fun hs call => ?_, fun hs => ?_⟩
  · have e : Transc.npdf (dLim s) = fin 0 := by
      rcases lt_or_gt_of_ne hs with h1 | h1
      · rw [dLim_neg h1, npdf_ninf]
      · rw [dLim_pos h1, npdf_pinf]
    rw [e, guardedDiv_zero_zero]
    cases call <;> simp
  · subst hs
    simp only [dLim_zero, npdf_fin, guardedDiv_pos_zero (phi_pos 0), ↓reduceIte, Bool.false_eq_true,
      neg_pinf, and_self]


/-! ### American binary option -/

/-- the American binary price at expiry: `1` if the barrier was touched (`m ≥ 0`), else `0` -/
theorem american_binary_price_at_expiry (h : (t = 0 ∧ 0 ≤ v) ∨ (v = 0 ∧ 0 ≤ t)) (s m : ℝ)
    (hsm : s ≤ m) :
    (0 ≤ m → bsAmericanBinaryPrice (fin s) (fin m) (fin t) (fin v) = .ok (fin 1)) ∧
    (m < 0 → bsAmericanBinaryPrice (fin s) (fin m) (fin t) (fin v) = .ok (fin 0)) := by
  simp only [bsAmericanBinaryPrice, bsD1_expiry s h, bsD2_expiry s h, ok_bind, pure_eq, zero_def,
    fin_lt_fin, one_def]
  refine ⟨fun hm => ?_, fun hm => ?_⟩
  · rw [if_neg (not_lt.2 hm)]
  · have hs : s < 0 := lt_of_le_of_lt hsm hm
    rw [if_pos hm]
    simp only [dLim_neg hs, ncdf_ninf, exp_fin, fin_mul_fin, fin_add_fin, mul_zero, add_zero]

/-- the (repaired) American binary delta at expiry is `0` on both sides of the barrier -/
theorem american_binary_delta_at_expiry (h : (t = 0 ∧ 0 ≤ v) ∨ (v = 0 ∧ 0 ≤ t)) (s m K : ℝ)
    (hsm : s ≤ m) (hK : 0 < K) :
    bsAmericanBinaryDelta (fin s) (fin m) (fin t) (fin v) (fin K) = .ok (fin 0) := by
  simp only [bsAmericanBinaryDelta, bsD1_expiry s h, bsD2_expiry s h, ok_bind, pure_eq, zero_def,
    fin_lt_fin, w_expiry h]
  by_cases hm : m < 0
  · have hs : s < 0 := lt_of_le_of_lt hsm hm
    rw [if_pos hm]
    simp only [dLim_neg hs, ncdf_ninf, npdf_ninf, exp_fin, fin_mul_fin, mul_zero,
      guardedDiv_zero_zero, fin_div_fin_ne 0 hK.ne', fin_add_fin, zero_div, add_zero]
  · rw [if_neg hm]

/-! ### lookback option -/

/-- the (repaired) lookback price at expiry is the payoff `max(max(M, S) − K, 0)`,
`M = K·e^m` the running maximum, `S = K·e^s` the spot -/
theorem lookback_price_at_expiry (h : (t = 0 ∧ 0 ≤ v) ∨ (v = 0 ∧ 0 ≤ t)) (s m K : ℝ)
    (hsm : s ≤ m) (hK : 0 < K) :
    bsLookbackPrice (fin s) (fin m) (fin t) (fin v) (fin K)
      = .ok (fin (max (max (K * Real.exp m) (K * Real.exp s) - K) 0)) := by
  have hes : K * Real.exp s ≤ K * Real.exp m :=
    mul_le_mul_of_nonneg_left (Real.exp_le_exp.2 hsm) hK.le
  rw [max_eq_left hes]
  simp only [bsLookbackPrice, fin_sub_fin, bsD1_expiry _ h, bsD2_expiry _ h, ok_bind, pure_eq,
    w_expiry h, exp_fin, fin_mul_fin, fin_lt_fin]
  by_cases hm : m < 0
  · have hs : s < 0 := lt_of_le_of_lt hsm hm
    have hem : Real.exp m < 1 := Real.exp_lt_one_iff.2 hm
    rw [if_pos (by nlinarith)]
    simp only [dLim_neg hs, ncdf_ninf, npdf_ninf, two_def, fin_mul_fin, fin_add_fin, fin_div_two,
      fin_sub_fin]
    rw [max_eq_right (by nlinarith)]
    congr 2; ring
  · have hem : 1 ≤ Real.exp m := Real.one_le_exp (not_lt.1 hm)
    rw [if_neg (by nlinarith)]
    rw [max_eq_left (by nlinarith)]
    rcases lt_or_eq_of_le hsm with hlt | rfl
    · have hd : s - m < 0 := by linarith
      simp only [dLim_neg hd, ncdf_ninf, npdf_ninf, two_def, fin_mul_fin, fin_add_fin, fin_div_two,
        fin_sub_fin, one_def]
      congr 2; ring
    · simp only [sub_self, dLim_zero, ncdf_fin, npdf_fin, Phi_zero, two_def, fin_mul_fin,
        fin_add_fin, fin_div_two, fin_sub_fin, one_def]
      congr 2; ring


/-! ### summary: no NaN at expiry -/

/-- At expiry all four prices and the European and American-binary deltas are **finite values**
(`.ok (fin _)`: neither an error nor NaN nor ±∞); the binary delta is a value that is not NaN
(it is `0` away from the strike and `±∞` exactly at the strike, see `binary_delta_at_expiry`). -/
theorem no_nan_price_delta (h : (t = 0 ∧ 0 ≤ v) ∨ (v = 0 ∧ 0 ≤ t)) (s m K : ℝ) (hsm : s ≤ m)
    (hK : 0 < K) (call : Bool) :
    OkFinite (bsEuropeanPrice (fin s) (fin t) (fin v) (fin K) call) ∧
    OkFinite (bsBinaryPrice (fin s) (fin t) (fin v) call) ∧
    OkFinite (bsAmericanBinaryPrice (fin s) (fin m) (fin t) (fin v)) ∧
    OkFinite (bsLookbackPrice (fin s) (fin m) (fin t) (fin v) (fin K)) ∧
    OkFinite (bsEuropeanDelta (fin s) (fin t) (fin v) call) ∧
    OkNotNan (bsBinaryDelta (fin s) (fin t) (fin v) (fin K) call) ∧
    OkFinite (bsAmericanBinaryDelta (fin s) (fin m) (fin t) (fin v) (fin K)) := by
  refine ⟨?_, ?_, ?_, ?_, ?_, ?_, ?_⟩
  · cases call
    · exact ⟨_, (european_price_at_expiry h s K hK).2⟩
    · exact ⟨_, (european_price_at_expiry h s K hK).1⟩
  · obtain ⟨h1, h2, h3⟩ := binary_price_at_expiry h s
    rcases lt_trichotomy s 0 with hs | hs | hs
    · cases call
      · exact ⟨_, (h2 hs).2⟩
      · exact ⟨_, (h2 hs).1⟩
    · cases call
      · exact ⟨_, (h3 hs).2⟩
      · exact ⟨_, (h3 hs).1⟩
    · cases call
      · exact ⟨_, (h1 hs).2⟩
      · exact ⟨_, (h1 hs).1⟩
  · obtain ⟨h1, h2⟩ := american_binary_price_at_expiry h s m hsm
    rcases lt_or_ge m 0 with hm | hm
    · exact ⟨_, h2 hm⟩
    · exact ⟨_, h1 hm⟩
  · exact ⟨_, lookback_price_at_expiry h s m K hsm hK⟩
  · obtain ⟨h1, h2, h3⟩ := european_delta_at_expiry h s
    rcases lt_trichotomy s 0 with hs | hs | hs
    · cases call
      · exact ⟨_, (h2 hs).2⟩
      · exact ⟨_, (h2 hs).1⟩
    · cases call
      · exact ⟨_, (h3 hs).2⟩
      · exact ⟨_, (h3 hs).1⟩
    · cases call
      · exact ⟨_, (h1 hs).2⟩
      · exact ⟨_, (h1 hs).1⟩
  · obtain ⟨h1, h2⟩ := binary_delta_at_expiry h s K
    by_cases hs : s = 0
    · cases call
      · exact ⟨_, (h2 hs).2, not_isNan_ninf⟩
      · exact ⟨_, (h2 hs).1, not_isNan_pinf⟩
    · exact ⟨_, h1 hs call, not_isNan_fin 0⟩
  · exact ⟨_, american_binary_delta_at_expiry h s m K hsm hK⟩

/-- the same, spelled out without the helper predicates: each result is `.ok x` with `x ≠ nan` -/
theorem no_nan_price_delta' (h : (t = 0 ∧ 0 ≤ v) ∨ (v = 0 ∧ 0 ≤ t)) (s m K : ℝ) (hsm : s ≤ m)
    (hK : 0 < K) (call : Bool) :
    (∃ x, bsEuropeanPrice (fin s) (fin t) (fin v) (fin K) call = .ok x ∧ x ≠ nan) ∧
    (∃ x, bsBinaryPrice (fin s) (fin t) (fin v) call = .ok x ∧ x ≠ nan) ∧
    (∃ x, bsAmericanBinaryPrice (fin s) (fin m) (fin t) (fin v) = .ok x ∧ x ≠ nan) ∧
    (∃ x, bsLookbackPrice (fin s) (fin m) (fin t) (fin v) (fin K) = .ok x ∧ x ≠ nan) ∧
    (∃ x, bsEuropeanDelta (fin s) (fin t) (fin v) call = .ok x ∧ x ≠ nan) ∧
    (∃ x, bsBinaryDelta (fin s) (fin t) (fin v) (fin K) call = .ok x ∧ x ≠ nan) ∧
    (∃ x, bsAmericanBinaryDelta (fin s) (fin m) (fin t) (fin v) (fin K) = .ok x ∧ x ≠ nan) := by
  have key : ∀ r : Except Err XR, OkNotNan r → ∃ x, r = .ok x ∧ x ≠ nan := by
    rintro r ⟨x, hx, hn⟩
    exact ⟨x, hx, fun e => hn ((isNan_iff x).2 e)⟩
  obtain ⟨h1, h2, h3, h4, h5, h6, h7⟩ := no_nan_price_delta h s m K hsm hK call
  exact ⟨key _ h1.okNotNan, key _ h2.okNotNan, key _ h3.okNotNan, key _ h4.okNotNan,
    key _ h5.okNotNan, key _ h6, key _ h7.okNotNan⟩

/-! ### the formulas shipped at the pinned commit did produce NaN (defect F8) -/

/-- old lookback price: `w·(d·Φ(d) + φ(d)) = 0·(−∞·0 + 0) = NaN` at expiry whenever the spot is
below the strike or below the running maximum -/
theorem old_lookback_nan_general (h : (t = 0 ∧ 0 ≤ v) ∨ (v = 0 ∧ 0 ≤ t)) (s m K : ℝ) (hsm : s ≤ m)
    (hK : 0 < K) (hbad : s < 0 ∨ s < m) :
    bsLookbackPriceOld (fin s) (fin m) (fin t) (fin v) (fin K) = .ok nan := by
  simp only [bsLookbackPriceOld, fin_sub_fin, bsD1_expiry _ h, bsD2_expiry _ h, ok_bind, pure_eq,
    w_expiry h, exp_fin, fin_mul_fin, fin_lt_fin]
  by_cases hm : m < 0
  · have hs : s < 0 := lt_of_le_of_lt hsm hm
    have hem : Real.exp m < 1 := Real.exp_lt_one_iff.2 hm
    rw [if_pos (by nlinarith)]
    simp only [dLim_neg hs, ncdf_ninf, npdf_ninf, ninf_mul_zero, nan_add, mul_nan, add_nan, nan_sub]
  · have hem : 1 ≤ Real.exp m := Real.one_le_exp (not_lt.1 hm)
    have hd : s - m < 0 := by
      rcases hbad with h1 | h1
      · linarith [not_lt.1 hm]
      · linarith
    rw [if_neg (by nlinarith)]
    simp only [dLim_neg hd, ncdf_ninf, npdf_ninf, ninf_mul_zero, nan_add, mul_nan, add_nan, nan_sub]

/-- old American binary delta: `φ(d2)/(S·w) = 0/0 = NaN` at expiry below the barrier -/
theorem old_american_delta_nan_general (h : (t = 0 ∧ 0 ≤ v) ∨ (v = 0 ∧ 0 ≤ t)) (s m K : ℝ)
    (hsm : s ≤ m) (hm : m < 0) :
    bsAmericanBinaryDeltaOld (fin s) (fin m) (fin t) (fin v) (fin K) = .ok nan := by
  have hs : s < 0 := lt_of_le_of_lt hsm hm
  simp only [bsAmericanBinaryDeltaOld, bsD1_expiry s h, bsD2_expiry s h, ok_bind, pure_eq, zero_def,
    fin_lt_fin, w_expiry h, if_pos hm, dLim_neg hs, npdf_ninf, exp_fin, fin_mul_fin, mul_zero,
    zero_div_zero, nan_add]

end expiry

/-- concrete witnesses (`t = 0`, `v = 1`, `K = 1`): spot below the untouched strike, and spot
below a running maximum at the strike -/
theorem old_lookback_nan :
    bsLookbackPriceOld (fin (-1)) (fin 0) (fin 0) (fin 1) (fin 1) = .ok nan ∧
    bsLookbackPriceOld (fin (-1)) (fin (-1)) (fin 0) (fin 1) (fin 1) = .ok nan ∧
    bsLookbackPrice (fin (-1)) (fin 0) (fin 0) (fin 1) (fin 1) = .ok (fin 0) ∧
    bsLookbackPrice (fin (-1)) (fin (-1)) (fin 0) (fin 1) (fin 1) = .ok (fin 0) := by
  have h : ((0 : ℝ) = 0 ∧ (0 : ℝ) ≤ 1) ∨ ((1 : ℝ) = 0 ∧ (0 : ℝ) ≤ 0) := Or.inl ⟨rfl, zero_le_one⟩
  refine ⟨old_lookback_nan_general h (-1) 0 1 (by norm_num) one_pos (Or.inl (by norm_num)),
    old_lookback_nan_general h (-1) (-1) 1 le_rfl one_pos (Or.inl (by norm_num)), ?_, ?_⟩
  · rw [lookback_price_at_expiry h (-1) 0 1 (by norm_num) one_pos]
    congr 2
    have : Real.exp (-1) ≤ 1 := Real.exp_le_one_iff.2 (by norm_num)
    have e : max ((1 : ℝ) * Real.exp 0) (1 * Real.exp (-1)) = 1 := by
      rw [Real.exp_zero, one_mul, one_mul]; exact max_eq_left this
    rw [e]; norm_num
  · rw [lookback_price_at_expiry h (-1) (-1) 1 le_rfl one_pos]
    congr 2
    have : Real.exp (-1) ≤ 1 := Real.exp_le_one_iff.2 (by norm_num)
    rw [max_self, max_eq_right (by linarith)]

theorem old_american_delta_nan :
    bsAmericanBinaryDeltaOld (fin (-1)) (fin (-1)) (fin 0) (fin 1) (fin 1) = .ok nan ∧
    bsAmericanBinaryDelta (fin (-1)) (fin (-1)) (fin 0) (fin 1) (fin 1) = .ok (fin 0) := by
  have h : ((0 : ℝ) = 0 ∧ (0 : ℝ) ≤ 1) ∨ ((1 : ℝ) = 0 ∧ (0 : ℝ) ≤ 0) := Or.inl ⟨rfl, zero_le_one⟩
  exact ⟨old_american_delta_nan_general h (-1) (-1) 1 le_rfl (by norm_num),
    american_binary_delta_at_expiry h (-1) (-1) 1 le_rfl one_pos⟩

/-! ### interior: `t, v > 0` -/

/-- for positive time to maturity and volatility (finite inputs, `K > 0`) every price and delta is
a finite value -/
theorem finite_in_interior {t v : ℝ} (ht : 0 < t) (hv : 0 < v) (s m K : ℝ) (hK : 0 < K)
    (call : Bool) :
    OkFinite (bsD1 (fin s) (fin t) (fin v)) ∧
    OkFinite (bsD2 (fin s) (fin t) (fin v)) ∧
    OkFinite (bsEuropeanPrice (fin s) (fin t) (fin v) (fin K) call) ∧
    OkFinite (bsBinaryPrice (fin s) (fin t) (fin v) call) ∧
    OkFinite (bsAmericanBinaryPrice (fin s) (fin m) (fin t) (fin v)) ∧
    OkFinite (bsLookbackPrice (fin s) (fin m) (fin t) (fin v) (fin K)) ∧
    OkFinite (bsEuropeanDelta (fin s) (fin t) (fin v) call) ∧
    OkFinite (bsBinaryDelta (fin s) (fin t) (fin v) (fin K) call) ∧
    OkFinite (bsAmericanBinaryDelta (fin s) (fin m) (fin t) (fin v) (fin K)) := by
  have hw : 0 < v * Real.sqrt t := mul_pos hv (Real.sqrt_pos.2 ht)
  have hsp : 0 < Real.exp s * K := mul_pos (Real.exp_pos s) hK
  have hden : Real.exp s * K * v * Real.sqrt t ≠ 0 := by
    rw [mul_assoc]; exact (mul_pos hsp hw).ne'
  have hden2 : Real.exp s * K * (v * Real.sqrt t) ≠ 0 := (mul_pos hsp hw).ne'
  have hden3 : K * (v * Real.sqrt t) ≠ 0 := (mul_pos hK hw).ne'
  refine ⟨⟨_, bsD1_interior s ht hv⟩, ⟨_, bsD2_interior s ht hv⟩, ?_, ?_, ?_, ?_, ?_, ?_, ?_⟩
  · simp only [bsEuropeanPrice, bsD1_interior _ ht hv, bsD2_interior _ ht hv, ok_bind, pure_eq,
      exp_fin, ncdf_fin, one_def, fin_mul_fin, fin_sub_fin, fin_add_fin]
    exact okFinite_ite _ _ _
  · simp only [bsBinaryPrice, bsD2_interior _ ht hv, ok_bind, pure_eq, ncdf_fin, one_def,
      fin_sub_fin]
    exact okFinite_ite _ _ _
  · simp only [bsAmericanBinaryPrice, bsD1_interior _ ht hv, bsD2_interior _ ht hv, ok_bind,
      pure_eq, exp_fin, ncdf_fin, one_def, fin_mul_fin, fin_add_fin]
    exact okFinite_ite _ _ _
  · simp only [bsLookbackPrice, fin_sub_fin, bsD1_interior _ ht hv, bsD2_interior _ ht hv, ok_bind,
      pure_eq, w_fin ht.le, exp_fin, ncdf_fin, npdf_fin, one_def, two_def, fin_mul_fin, fin_div_two,
      fin_add_fin, fin_sub_fin]
    exact okFinite_ite _ _ _
  · simp only [bsEuropeanDelta, bsD1_interior _ ht hv, ok_bind, pure_eq, ncdf_fin, one_def,
      fin_sub_fin]
    exact okFinite_ite _ _ _
  · simp only [bsBinaryDelta, bsD2_interior _ ht hv, ok_bind, pure_eq, exp_fin, npdf_fin,
      sqrt_fin_nonneg ht.le, fin_mul_fin, guardedDiv_den_ne _ hden, neg_fin]
    exact okFinite_ite _ _ _
  · simp only [bsAmericanBinaryDelta, bsD1_interior _ ht hv, bsD2_interior _ ht hv, ok_bind,
      pure_eq, w_fin ht.le, exp_fin, ncdf_fin, npdf_fin, fin_mul_fin, guardedDiv_den_ne _ hden2,
      guardedDiv_den_ne _ hden3, fin_div_fin_ne _ hK.ne', fin_add_fin, zero_def]
    exact okFinite_ite _ _ _

/-! ### negative or NaN time to maturity / volatility is rejected -/

/-- what the validation `t ≥ 0`, `v ≥ 0` rejects at `XR`: NaN, `−∞` and negative finite values -/
theorem rejected_iff (a : XR) :
    ¬ (0 : XR) ≤ a ↔ a = nan ∨ a = ninf ∨ ∃ x : ℝ, x < 0 ∧ a = fin x := by
  cases a <;> simp

/-- every pricing / Greek function starts with `d1` / `d2`, whose validation raises `ValueError`
when time to maturity or volatility is negative or NaN — no silent NaN -/
theorem negative_rejected (s m t v k : XR) (call : Bool) (h : ¬ (0 : XR) ≤ t ∨ ¬ (0 : XR) ≤ v) :
    bsD1 s t v = .error .valueError ∧
    bsD2 s t v = .error .valueError ∧
    bsEuropeanPrice s t v k call = .error .valueError ∧
    bsEuropeanDelta s t v call = .error .valueError ∧
    bsEuropeanGamma s t v k = .error .valueError ∧
    bsEuropeanVega s t v k = .error .valueError ∧
    bsEuropeanTheta s t v k = .error .valueError ∧
    bsBinaryPrice s t v call = .error .valueError ∧
    bsBinaryDelta s t v k call = .error .valueError ∧
    bsBinaryGamma s t v k call = .error .valueError ∧
    bsBinaryVega s t v k call = .error .valueError ∧
    bsBinaryTheta s t v k call = .error .valueError ∧
    bsAmericanBinaryPrice s m t v = .error .valueError ∧
    bsAmericanBinaryDelta s m t v k = .error .valueError ∧
    bsAmericanBinaryGamma s m t v k = .error .valueError ∧
    bsAmericanBinaryVega s m t v k = .error .valueError ∧
    bsAmericanBinaryTheta s m t v k = .error .valueError ∧
    bsLookbackPrice s m t v k = .error .valueError := by
  have e1 := fun x => bsD1_err x h
  have e2 := fun x => bsD2_err x h
  simp only [bsEuropeanPrice, bsEuropeanDelta, bsEuropeanGamma, bsEuropeanVega, bsEuropeanTheta,
    bsBinaryPrice, bsBinaryDelta, bsBinaryGamma, bsBinaryGammaW, bsBinaryVega, bsBinaryTheta,
    bsAmericanBinaryPrice, bsAmericanBinaryDelta, bsAmericanBinaryGamma, bsAmericanBinaryVega,
    bsAmericanBinaryTheta, bsLookbackPrice, e1, e2, err_bind, and_self]

/-- finite negative time to maturity, or finite negative volatility, raises `ValueError` -/
theorem negative_finite_rejected (s m k : XR) (call : Bool) (t v : ℝ) (h : t < 0 ∨ v < 0) :
    bsD1 s (fin t) (fin v) = .error .valueError ∧
    bsD2 s (fin t) (fin v) = .error .valueError ∧
    bsEuropeanPrice s (fin t) (fin v) k call = .error .valueError ∧
    bsEuropeanDelta s (fin t) (fin v) call = .error .valueError ∧
    bsBinaryPrice s (fin t) (fin v) call = .error .valueError ∧
    bsBinaryDelta s (fin t) (fin v) k call = .error .valueError ∧
    bsAmericanBinaryPrice s m (fin t) (fin v) = .error .valueError ∧
    bsAmericanBinaryDelta s m (fin t) (fin v) k = .error .valueError ∧
    bsLookbackPrice s m (fin t) (fin v) k = .error .valueError := by
  have h' : ¬ (0 : XR) ≤ fin t ∨ ¬ (0 : XR) ≤ fin v := by
    simpa only [zero_def, fin_le_fin, not_le] using h
  have := negative_rejected s m (fin t) (fin v) k call h'
  tauto

/-- NaN time to maturity or volatility raises `ValueError` as well -/
theorem nan_rejected (s m t v k : XR) (call : Bool) (h : t = nan ∨ v = nan) :
    bsD1 s t v = .error .valueError ∧
    bsD2 s t v = .error .valueError ∧
    bsEuropeanPrice s t v k call = .error .valueError ∧
    bsEuropeanDelta s t v call = .error .valueError ∧
    bsBinaryPrice s t v call = .error .valueError ∧
    bsBinaryDelta s t v k call = .error .valueError ∧
    bsAmericanBinaryPrice s m t v = .error .valueError ∧
    bsAmericanBinaryDelta s m t v k = .error .valueError ∧
    bsLookbackPrice s m t v k = .error .valueError := by
  have h' : ¬ (0 : XR) ≤ t ∨ ¬ (0 : XR) ≤ v := by
    rcases h with rfl | rfl
    · exact Or.inl (not_le_nan _)
    · exact Or.inr (not_le_nan _)
  have := negative_rejected s m t v k call h'
  tauto

/-- conversely `d1`, `d2` return a value whenever both are `≥ 0` (so an error is raised *only* for
negative / NaN inputs) -/
theorem d1_d2_ok_iff (s t v : XR) :
    ((∃ x, bsD1 s t v = .ok x) ↔ (0 : XR) ≤ t ∧ (0 : XR) ≤ v) ∧
    ((∃ x, bsD2 s t v = .ok x) ↔ (0 : XR) ≤ t ∧ (0 : XR) ≤ v) := by
  by_cases h : (0 : XR) ≤ t ∧ (0 : XR) ≤ v
  · have hv : bsValidate t v = .ok () := by simp only [bsValidate, h.1, h.2, not_true, if_false]
    simp only [bsD1, bsD2, hv, ok_bind, pure_eq, h, and_self, iff_true]
    exact ⟨⟨_, rfl⟩, ⟨_, rfl⟩⟩
  · have h' : ¬ (0 : XR) ≤ t ∨ ¬ (0 : XR) ≤ v := by tauto
    simp only [bsD1_err s h', bsD2_err s h', h, reduceCtorEq, exists_false, and_self]

/-! ### non-vacuity -/

/-- both kinds of expiry point exist, including `t = v = 0` -/
example : (((0 : ℝ) = 0 ∧ (0 : ℝ) ≤ 0.2) ∨ ((0.2 : ℝ) = 0 ∧ (0 : ℝ) ≤ 0)) ∧
    (((1 : ℝ) = 0 ∧ (0 : ℝ) ≤ 0) ∨ ((0 : ℝ) = 0 ∧ (0 : ℝ) ≤ 1)) ∧
    (((0 : ℝ) = 0 ∧ (0 : ℝ) ≤ 0) ∨ ((0 : ℝ) = 0 ∧ (0 : ℝ) ≤ 0)) :=
  ⟨Or.inl ⟨rfl, by norm_num⟩, Or.inr ⟨rfl, by norm_num⟩, Or.inl ⟨rfl, le_rfl⟩⟩

/-- an in-the-money call one step from nowhere: `t = 0`, `v = 0.2`, `s = log 2`, `K = 3` pays `3` -/
example : bsEuropeanPrice (fin (Real.log 2)) (fin 0) (fin 0.2) (fin 3) true = .ok (fin 3) := by
  rw [(european_price_at_expiry (Or.inl ⟨rfl, by norm_num⟩) (Real.log 2) 3 (by norm_num)).1,
    Real.exp_log (by norm_num)]
  norm_num

/-- zero volatility, one year to go: the binary put out of the money pays 1 -/
example : bsBinaryPrice (fin (-1)) (fin 1) (fin 0) false = .ok (fin 1) :=
  (((binary_price_at_expiry (Or.inr ⟨rfl, by norm_num⟩) (-1)).2.1) (by norm_num)).2

/-- rejection hypotheses are satisfiable -/
example : bsEuropeanPrice (fin 0) (fin (-1)) (fin 1) (fin 1) true = .error .valueError :=
  (negative_finite_rejected (fin 0) (fin 0) (fin 1) true (-1) 1 (Or.inl (by norm_num))).2.2.1

end PfVerif.C18
