/-
  C08 — Black–Scholes Greeks are the derivatives of the corresponding price formulas.
  Model: Model/BS.lean instantiated at ℝ (`Transc ℝ` from Lemmas/Gauss.lean: exp, log, sqrt,
  ncdf := Phi, npdf := phi).  Calculus lemmas: Lemmas/BSCalc.lean.

  The model functions return `Except Err ℝ`; `C08Aux.val` totalises them (error ↦ 0).  Every
  derivative theorem is stated on the open domain `S, K, t, v > 0`, where the `…_ok` lemmas show the
  model returns `.ok` of the closed form, so the totalisation is never used at an error point.
-/
import PfVerif.Model.BS
import PfVerif.Lemmas.BSCalc

namespace PfVerif.C08Aux
open PfVerif PfVerif.BSCalc

/-- totalisation of a model result (never evaluated at an error in the theorems below) -/
noncomputable def val : Except Err ℝ → ℝ
  | .ok x => x
  | .error _ => 0

@[simp] theorem val_ok (x : ℝ) : val (.ok x) = x := rfl

theorem w_pos {t v : ℝ} (ht : 0 < t) (hv : 0 < v) : 0 < v * Real.sqrt t :=
  mul_pos hv (Real.sqrt_pos.2 ht)

theorem isZero_of_ne {a : ℝ} (h : a ≠ 0) : isZero a = false := by
  simp only [isZero, Bool.and_eq_false_imp, decide_eq_true_eq, decide_eq_false_iff_not, not_le]
  exact fun h1 => lt_of_le_of_ne h1 h

theorem guardedDiv_of_num_ne {a : ℝ} (h : a ≠ 0) (b : ℝ) : guardedDiv a b = a / b := by
  simp [guardedDiv, isZero_of_ne h]

theorem guardedDiv_of_den_ne (a : ℝ) {b : ℝ} (h : b ≠ 0) : guardedDiv a b = a / b := by
  simp [guardedDiv, isZero_of_ne h]

theorem bsValidate_ok {t v : ℝ} (ht : 0 < t) (hv : 0 < v) : bsValidate t v = .ok () := by
  simp [bsValidate, ht.le, hv.le]

/-! ### closed forms: on `t, v > 0` validation passes and the `where` guards are inactive -/

theorem bsD1_ok (s : ℝ) {t v : ℝ} (ht : 0 < t) (hv : 0 < v) :
    bsD1 s t v = .ok (d1 s (v * Real.sqrt t)) := by
  have hz : isZero (v * Real.sqrt t) = false := isZero_of_ne (w_pos ht hv).ne'
  unfold bsD1
  rw [bsValidate_ok ht hv]
  show Except.ok (if (!(isZero s) || !(isZero (v * Real.sqrt t))) = true then _ else _) = _
  rw [hz]
  simp [d1, Transc.sqrt]

theorem bsD2_ok (s : ℝ) {t v : ℝ} (ht : 0 < t) (hv : 0 < v) :
    bsD2 s t v = .ok (d2 s (v * Real.sqrt t)) := by
  have hz : isZero (v * Real.sqrt t) = false := isZero_of_ne (w_pos ht hv).ne'
  unfold bsD2
  rw [bsValidate_ok ht hv]
  show Except.ok (if (!(isZero s) || !(isZero (v * Real.sqrt t))) = true then _ else _) = _
  rw [hz]
  simp [d2, Transc.sqrt]

section closed
variable {t v : ℝ} (ht : 0 < t) (hv : 0 < v) (s k : ℝ) (call : Bool)
include ht hv

theorem european_price_ok :
    bsEuropeanPrice s t v k call
      = .ok (if call then
          Real.exp s * k * Phi (d1 s (v * Real.sqrt t)) - k * Phi (d2 s (v * Real.sqrt t))
        else Real.exp s * k * Phi (d1 s (v * Real.sqrt t)) - k * Phi (d2 s (v * Real.sqrt t))
          + k * (1 - Real.exp s)) := by
  unfold bsEuropeanPrice
  rw [bsD1_ok s ht hv, bsD2_ok s ht hv]
  rfl

theorem european_delta_ok :
    bsEuropeanDelta s t v call
      = .ok (if call then Phi (d1 s (v * Real.sqrt t)) else Phi (d1 s (v * Real.sqrt t)) - 1) := by
  unfold bsEuropeanDelta
  rw [bsD1_ok s ht hv]
  rfl

theorem european_gamma_ok :
    bsEuropeanGamma s t v k
      = .ok (phi (d1 s (v * Real.sqrt t)) / (k * Real.exp s * v * Real.sqrt t)) := by
  unfold bsEuropeanGamma
  rw [bsD1_ok s ht hv]
  show Except.ok (guardedDiv (phi _) _) = _
  rw [guardedDiv_of_num_ne (phi_pos _).ne']
  rfl

theorem european_vega_ok :
    bsEuropeanVega s t v k
      = .ok (phi (d1 s (v * Real.sqrt t)) * (k * Real.exp s) * Real.sqrt t) := by
  unfold bsEuropeanVega
  rw [bsD1_ok s ht hv]
  rfl

theorem european_theta_ok :
    bsEuropeanTheta s t v k
      = .ok (-(phi (d1 s (v * Real.sqrt t))) * (k * Real.exp s) * v / (2 * Real.sqrt t)) := by
  unfold bsEuropeanTheta
  rw [bsD1_ok s ht hv]
  show Except.ok (guardedDiv _ (2 * Real.sqrt t)) = _
  rw [guardedDiv_of_den_ne _ (mul_pos two_pos (Real.sqrt_pos.2 ht)).ne']
  rfl

theorem binary_price_ok :
    bsBinaryPrice s t v call
      = .ok (if call then Phi (d2 s (v * Real.sqrt t)) else 1 - Phi (d2 s (v * Real.sqrt t))) := by
  unfold bsBinaryPrice
  rw [bsD2_ok s ht hv]
  rfl

theorem binary_delta_ok :
    bsBinaryDelta s t v k call
      = .ok (if call then phi (d2 s (v * Real.sqrt t)) / (Real.exp s * k * v * Real.sqrt t)
        else -(phi (d2 s (v * Real.sqrt t)) / (Real.exp s * k * v * Real.sqrt t))) := by
  unfold bsBinaryDelta
  rw [bsD2_ok s ht hv]
  show Except.ok (if call = true then guardedDiv (phi _) _ else -guardedDiv (phi _) _) = _
  rw [guardedDiv_of_num_ne (phi_pos _).ne']
  rfl

/-- the binary gamma expression for an arbitrary "total volatility" term `w` -/
noncomputable def binGammaExpr (w s t v k : ℝ) : ℝ :=
  -(phi (d2 s (v * Real.sqrt t)) / (w * (Real.exp s * k * (Real.exp s * k))))
    * (1 + d2 s (v * Real.sqrt t) / w)

theorem binary_gammaW_ok (w : ℝ) :
    bsBinaryGammaW w s t v k call
      = .ok (if call then binGammaExpr w s t v k else -binGammaExpr w s t v k) := by
  unfold bsBinaryGammaW
  rw [bsD2_ok s ht hv]
  rfl

theorem binary_gamma_ok :
    bsBinaryGamma s t v k call
      = .ok (if call then binGammaExpr (v * Real.sqrt t) s t v k
        else -binGammaExpr (v * Real.sqrt t) s t v k) :=
  binary_gammaW_ok ht hv s k call _

theorem binary_gamma_old_ok :
    bsBinaryGammaOld s t v k call
      = .ok (if call then binGammaExpr (v * (t * t)) s t v k
        else -binGammaExpr (v * (t * t)) s t v k) :=
  binary_gammaW_ok ht hv s k call _

theorem binary_vega_ok :
    bsBinaryVega s t v k call
      = .ok (vegaOfGamma (if call then binGammaExpr (v * Real.sqrt t) s t v k
        else -binGammaExpr (v * Real.sqrt t) s t v k) (Real.exp s * k) t v) := by
  unfold bsBinaryVega
  rw [binary_gamma_ok ht hv s k call]
  rfl

theorem binary_theta_ok :
    bsBinaryTheta s t v k call
      = .ok (thetaOfGamma (if call then binGammaExpr (v * Real.sqrt t) s t v k
        else -binGammaExpr (v * Real.sqrt t) s t v k) (Real.exp s * k) v) := by
  unfold bsBinaryTheta
  rw [binary_gamma_ok ht hv s k call]
  rfl

variable (m : ℝ)

theorem american_price_ok :
    bsAmericanBinaryPrice s m t v
      = .ok (if m < 0 then
          Phi (d2 s (v * Real.sqrt t)) + Real.exp s * Phi (d1 s (v * Real.sqrt t)) else 1) := by
  unfold bsAmericanBinaryPrice
  rw [bsD1_ok s ht hv, bsD2_ok s ht hv]
  rfl

theorem american_delta_ok :
    bsAmericanBinaryDelta s m t v k
      = .ok (if m < 0 then
          phi (d2 s (v * Real.sqrt t)) / (Real.exp s * k * (v * Real.sqrt t))
            + Phi (d1 s (v * Real.sqrt t)) / k
            + phi (d1 s (v * Real.sqrt t)) / (k * (v * Real.sqrt t)) else 0) := by
  unfold bsAmericanBinaryDelta
  rw [bsD1_ok s ht hv, bsD2_ok s ht hv]
  simp only [bind, Except.bind, pure, Except.pure]
  have h2 : (Transc.npdf (d2 s (v * Real.sqrt t)) : ℝ) ≠ 0 := (phi_pos _).ne'
  have h1 : (Transc.npdf (d1 s (v * Real.sqrt t)) : ℝ) ≠ 0 := (phi_pos _).ne'
  rw [guardedDiv_of_num_ne h2, guardedDiv_of_num_ne h1]
  rfl

/-- the American binary gamma expression in the continuation region -/
noncomputable def amGammaExpr (s t v k : ℝ) : ℝ :=
  -(phi (d2 s (v * Real.sqrt t))
      / (Real.exp s * k * (Real.exp s * k) * (v * Real.sqrt t)))
    - d2 s (v * Real.sqrt t) * (phi (d2 s (v * Real.sqrt t))
      / (Real.exp s * k * (Real.exp s * k) * (v * Real.sqrt t * (v * Real.sqrt t))))
    + phi (d1 s (v * Real.sqrt t)) / (Real.exp s * k * k * (v * Real.sqrt t))
    - d1 s (v * Real.sqrt t) * (phi (d1 s (v * Real.sqrt t))
      / (Real.exp s * k * k * (v * Real.sqrt t * (v * Real.sqrt t))))

theorem american_gamma_ok :
    bsAmericanBinaryGamma s m t v k = .ok (if m < 0 then amGammaExpr s t v k else 0) := by
  unfold bsAmericanBinaryGamma
  rw [bsD1_ok s ht hv, bsD2_ok s ht hv]
  rfl

theorem american_vega_ok :
    bsAmericanBinaryVega s m t v k
      = .ok (vegaOfGamma (if m < 0 then amGammaExpr s t v k else 0) (Real.exp s * k) t v) := by
  unfold bsAmericanBinaryVega
  rw [american_gamma_ok ht hv s k m]
  rfl

theorem american_theta_ok :
    bsAmericanBinaryTheta s m t v k
      = .ok (thetaOfGamma (if m < 0 then amGammaExpr s t v k else 0) (Real.exp s * k) v) := by
  unfold bsAmericanBinaryTheta
  rw [american_gamma_ok ht hv s k m]
  rfl

end closed

/-- every positive `t` is a square; used to eliminate `√t` from the final algebra -/
theorem exists_sq {t : ℝ} (ht : 0 < t) : ∃ r : ℝ, 0 < r ∧ t = r ^ 2 :=
  ⟨Real.sqrt t, Real.sqrt_pos.2 ht, (Real.sq_sqrt ht.le).symm⟩

/-- if `f' = g` on the positive half-line and `g' (S) = c` then `f'' (S) = c` -/
theorem second_deriv {f g : ℝ → ℝ} {c S : ℝ} (hS : 0 < S)
    (hf : ∀ x, 0 < x → HasDerivAt f (g x) x) (hg : HasDerivAt g c S) :
    HasDerivAt (deriv f) c S := by
  refine hg.congr_of_eventuallyEq ?_
  filter_upwards [lt_mem_nhds hS] with x hx
  exact (hf x hx).deriv

end PfVerif.C08Aux

namespace PfVerif.C08
open PfVerif PfVerif.BSCalc PfVerif.C08Aux

/-! ### European option -/

/-- delta = ∂price/∂S -/
theorem european_delta {S K t v : ℝ} (hS : 0 < S) (hK : 0 < K) (ht : 0 < t) (hv : 0 < v)
    (call : Bool) :
    HasDerivAt (fun S' => val (bsEuropeanPrice (Real.log (S' / K)) t v K call))
      (val (bsEuropeanDelta (Real.log (S / K)) t v call)) S := by
  have hw : (fun _ : ℝ => v * Real.sqrt t) S ≠ 0 := (w_pos ht hv).ne'
  have hlog := hasDerivAt_logMoneyness hS hK
  have h := hasDerivAt_european K hlog (hasDerivAt_const S (v * Real.sqrt t)) hw
  have hel : Real.exp (Real.log (S / K)) = S / K := Real.exp_log (div_pos hS hK)
  simp only [european_price_ok ht hv, european_delta_ok ht hv, val_ok]
  cases call
  · simp only [Bool.false_eq_true, if_false]
    refine (h.fun_add ((hlog.exp.const_sub 1).const_mul K)).congr_deriv ?_
    rw [hel]
    field_simp
    ring
  · simp only [if_true]
    refine h.congr_deriv ?_
    rw [hel]
    field_simp
    ring

/-- gamma = ∂delta/∂S -/
theorem european_gamma {S K t v : ℝ} (hS : 0 < S) (hK : 0 < K) (ht : 0 < t) (hv : 0 < v)
    (call : Bool) :
    HasDerivAt (fun S' => val (bsEuropeanDelta (Real.log (S' / K)) t v call))
      (val (bsEuropeanGamma (Real.log (S / K)) t v K)) S := by
  have hw : (fun _ : ℝ => v * Real.sqrt t) S ≠ 0 := (w_pos ht hv).ne'
  have hlog := hasDerivAt_logMoneyness hS hK
  have h := hasDerivAt_Phi_d1 hlog (hasDerivAt_const S (v * Real.sqrt t)) hw
  have hel : Real.exp (Real.log (S / K)) = S / K := Real.exp_log (div_pos hS hK)
  have hr : Real.sqrt t ≠ 0 := (Real.sqrt_pos.2 ht).ne'
  simp only [european_delta_ok ht hv, european_gamma_ok ht hv, val_ok]
  cases call
  · simp only [Bool.false_eq_true, if_false]
    refine (h.sub_const 1).congr_deriv ?_
    rw [hel]
    field_simp
    ring
  · simp only [if_true]
    refine h.congr_deriv ?_
    rw [hel]
    field_simp
    ring

/-- vega = ∂price/∂v -/
theorem european_vega {K t v : ℝ} (s : ℝ) (ht : 0 < t) (hv : 0 < v) (call : Bool) :
    HasDerivAt (fun v' => val (bsEuropeanPrice s t v' K call))
      (val (bsEuropeanVega s t v K)) v := by
  have hw : (fun v' : ℝ => v' * Real.sqrt t) v ≠ 0 := (w_pos ht hv).ne'
  have h := hasDerivAt_european K (hasDerivAt_const v s) (hasDerivAt_w_vol t v) hw
  have e := exp_mul_phi_d1 s (v * Real.sqrt t) (w_pos ht hv).ne'
  rw [european_vega_ok ht hv]
  cases call
  · refine ((h.add_const (K * (1 - Real.exp s))).congr_deriv ?_).congr_of_eventuallyEq ?_
    · rw [← e]; simp only [val_ok]; ring
    · filter_upwards [lt_mem_nhds hv] with v' hv'
      rw [european_price_ok ht hv']; rfl
  · refine (h.congr_deriv ?_).congr_of_eventuallyEq ?_
    · rw [← e]; simp only [val_ok]; ring
    · filter_upwards [lt_mem_nhds hv] with v' hv'
      rw [european_price_ok ht hv']; rfl

/-- theta = −∂price/∂t -/
theorem european_theta {K t v : ℝ} (s : ℝ) (ht : 0 < t) (hv : 0 < v) (call : Bool) :
    HasDerivAt (fun t' => val (bsEuropeanPrice s t' v K call))
      (-(val (bsEuropeanTheta s t v K))) t := by
  have hw : (fun t' : ℝ => v * Real.sqrt t') t ≠ 0 := (w_pos ht hv).ne'
  have h := hasDerivAt_european K (hasDerivAt_const t s) (hasDerivAt_w_time ht v) hw
  have e := exp_mul_phi_d1 s (v * Real.sqrt t) (w_pos ht hv).ne'
  have hr : Real.sqrt t ≠ 0 := (Real.sqrt_pos.2 ht).ne'
  rw [european_theta_ok ht hv]
  cases call
  · refine ((h.add_const (K * (1 - Real.exp s))).congr_deriv ?_).congr_of_eventuallyEq ?_
    · rw [← e]; simp only [val_ok]; field_simp; ring
    · filter_upwards [lt_mem_nhds ht] with t' ht'
      rw [european_price_ok ht' hv]; rfl
  · refine (h.congr_deriv ?_).congr_of_eventuallyEq ?_
    · rw [← e]; simp only [val_ok]; field_simp; ring
    · filter_upwards [lt_mem_nhds ht] with t' ht'
      rw [european_price_ok ht' hv]; rfl

/-- vega = Γ·v·S²·t -/
theorem european_vega_gamma_relation {K t v : ℝ} (s : ℝ) (hK : 0 < K) (ht : 0 < t) (hv : 0 < v) :
    val (bsEuropeanVega s t v K)
      = vegaOfGamma (val (bsEuropeanGamma s t v K)) (K * Real.exp s) t v := by
  obtain ⟨r, hr, rfl⟩ := exists_sq ht
  have hes : Real.exp s ≠ 0 := (Real.exp_pos s).ne'
  rw [european_vega_ok ht hv, european_gamma_ok ht hv]
  simp only [val_ok, vegaOfGamma, Real.sqrt_sq hr.le]
  field_simp

/-- theta = −½ v² S² Γ -/
theorem european_theta_gamma_relation {K t v : ℝ} (s : ℝ) (hK : 0 < K) (ht : 0 < t) (hv : 0 < v) :
    val (bsEuropeanTheta s t v K)
      = thetaOfGamma (val (bsEuropeanGamma s t v K)) (K * Real.exp s) v := by
  have hr : Real.sqrt t ≠ 0 := (Real.sqrt_pos.2 ht).ne'
  have hes : Real.exp s ≠ 0 := (Real.exp_pos s).ne'
  rw [european_theta_ok ht hv, european_gamma_ok ht hv]
  simp only [val_ok, thetaOfGamma]
  field_simp

/-! ### European binary option -/

/-- delta = ∂price/∂S -/
theorem binary_delta {S K t v : ℝ} (hS : 0 < S) (hK : 0 < K) (ht : 0 < t) (hv : 0 < v)
    (call : Bool) :
    HasDerivAt (fun S' => val (bsBinaryPrice (Real.log (S' / K)) t v call))
      (val (bsBinaryDelta (Real.log (S / K)) t v K call)) S := by
  have hw : (fun _ : ℝ => v * Real.sqrt t) S ≠ 0 := (w_pos ht hv).ne'
  have hlog := hasDerivAt_logMoneyness hS hK
  have h := hasDerivAt_binary hlog (hasDerivAt_const S (v * Real.sqrt t)) hw
  have hel : Real.exp (Real.log (S / K)) = S / K := Real.exp_log (div_pos hS hK)
  have hr : Real.sqrt t ≠ 0 := (Real.sqrt_pos.2 ht).ne'
  simp only [binary_price_ok ht hv, binary_delta_ok ht hv, val_ok]
  cases call
  · simp only [Bool.false_eq_true, if_false]
    refine (h.const_sub 1).congr_deriv ?_
    rw [hel]
    field_simp
    ring
  · simp only [if_true]
    refine h.congr_deriv ?_
    rw [hel]
    field_simp
    ring

/-- gamma (repaired formula, `w = v√t`) = ∂delta/∂S -/
theorem binary_gamma {S K t v : ℝ} (hS : 0 < S) (hK : 0 < K) (ht : 0 < t) (hv : 0 < v)
    (call : Bool) :
    HasDerivAt (fun S' => val (bsBinaryDelta (Real.log (S' / K)) t v K call))
      (val (bsBinaryGamma (Real.log (S / K)) t v K call)) S := by
  have hw : (fun _ : ℝ => v * Real.sqrt t) S ≠ 0 := (w_pos ht hv).ne'
  have hlog := hasDerivAt_logMoneyness hS hK
  have hnum := hasDerivAt_phi_d2 hlog (hasDerivAt_const S (v * Real.sqrt t)) hw
  have hel : Real.exp (Real.log (S / K)) = S / K := Real.exp_log (div_pos hS hK)
  have hr : Real.sqrt t ≠ 0 := (Real.sqrt_pos.2 ht).ne'
  have hden : HasDerivAt (fun S' => Real.exp (Real.log (S' / K)) * K * v * Real.sqrt t)
      (Real.exp (Real.log (S / K)) * (1 / S) * K * v * Real.sqrt t) S :=
    ((hlog.exp.mul_const K).mul_const v).mul_const _
  have hne : Real.exp (Real.log (S / K)) * K * v * Real.sqrt t ≠ 0 := by
    rw [hel]; positivity
  have h := hnum.fun_div hden hne
  have hab := d1_eq_d2_add (Real.log (S / K)) (v * Real.sqrt t)
  simp only [binary_delta_ok ht hv, binary_gamma_ok ht hv, val_ok, binGammaExpr]
  cases call
  · simp only [Bool.false_eq_true, if_false]
    refine h.fun_neg.congr_deriv ?_
    rw [hel, hab]
    field_simp
    ring
  · simp only [if_true]
    refine h.congr_deriv ?_
    rw [hel, hab]
    field_simp
    ring

/-- vega (defined through the gamma relation) = ∂price/∂v -/
theorem binary_vega {K t v : ℝ} (s : ℝ) (hK : 0 < K) (ht : 0 < t) (hv : 0 < v) (call : Bool) :
    HasDerivAt (fun v' => val (bsBinaryPrice s t v' call))
      (val (bsBinaryVega s t v K call)) v := by
  have hw : (fun v' : ℝ => v' * Real.sqrt t) v ≠ 0 := (w_pos ht hv).ne'
  have h := hasDerivAt_binary (hasDerivAt_const v s) (hasDerivAt_w_vol t v) hw
  have hab := d1_eq_d2_add s (v * Real.sqrt t)
  have hes : Real.exp s ≠ 0 := (Real.exp_pos s).ne'
  have key : phi (d2 s (v * Real.sqrt t))
        * (0 / (v * Real.sqrt t) - d1 s (v * Real.sqrt t) / (v * Real.sqrt t) * Real.sqrt t)
      = vegaOfGamma (binGammaExpr (v * Real.sqrt t) s t v K) (Real.exp s * K) t v := by
    rw [hab]
    obtain ⟨r, hr, rfl⟩ := exists_sq ht
    simp only [vegaOfGamma, binGammaExpr, Real.sqrt_sq hr.le]
    field_simp
    ring
  rw [binary_vega_ok ht hv]
  cases call
  · refine ((h.const_sub 1).congr_deriv ?_).congr_of_eventuallyEq ?_
    · simp only [val_ok, Bool.false_eq_true, if_false]
      rw [key]; simp only [vegaOfGamma]; ring
    · filter_upwards [lt_mem_nhds hv] with v' hv'
      rw [binary_price_ok ht hv']; rfl
  · refine (h.congr_deriv ?_).congr_of_eventuallyEq ?_
    · simp only [val_ok, if_true]
      exact key
    · filter_upwards [lt_mem_nhds hv] with v' hv'
      rw [binary_price_ok ht hv']; rfl

/-- theta (defined through the gamma relation) = −∂price/∂t -/
theorem binary_theta {K t v : ℝ} (s : ℝ) (hK : 0 < K) (ht : 0 < t) (hv : 0 < v) (call : Bool) :
    HasDerivAt (fun t' => val (bsBinaryPrice s t' v call))
      (-(val (bsBinaryTheta s t v K call))) t := by
  have hw : (fun t' : ℝ => v * Real.sqrt t') t ≠ 0 := (w_pos ht hv).ne'
  have h := hasDerivAt_binary (hasDerivAt_const t s) (hasDerivAt_w_time ht v) hw
  have hab := d1_eq_d2_add s (v * Real.sqrt t)
  have hes : Real.exp s ≠ 0 := (Real.exp_pos s).ne'
  have hr : Real.sqrt t ≠ 0 := (Real.sqrt_pos.2 ht).ne'
  have key : phi (d2 s (v * Real.sqrt t))
        * (0 / (v * Real.sqrt t)
          - d1 s (v * Real.sqrt t) / (v * Real.sqrt t) * (v * (1 / (2 * Real.sqrt t))))
      = -thetaOfGamma (binGammaExpr (v * Real.sqrt t) s t v K) (Real.exp s * K) v := by
    rw [hab]
    simp only [thetaOfGamma, binGammaExpr]
    field_simp
    ring
  rw [binary_theta_ok ht hv]
  cases call
  · refine ((h.const_sub 1).congr_deriv ?_).congr_of_eventuallyEq ?_
    · simp only [val_ok, Bool.false_eq_true, if_false]
      rw [key]; simp only [thetaOfGamma]; ring
    · filter_upwards [lt_mem_nhds ht] with t' ht'
      rw [binary_price_ok ht' hv]; rfl
  · refine (h.congr_deriv ?_).congr_of_eventuallyEq ?_
    · simp only [val_ok, if_true]
      exact key
    · filter_upwards [lt_mem_nhds ht] with t' ht'
      rw [binary_price_ok ht' hv]; rfl

/-- the formula shipped at the pinned commit (`w = v·t²`) coincides with the correct one at
`t = 1` — the only maturity the upstream test-suite used -/
theorem binary_gamma_old_eq_at_one {t : ℝ} (s v K : ℝ) (call : Bool) (h1 : t = 1) :
    bsBinaryGammaOld s t v K call = bsBinaryGamma s t v K call := by
  subst h1
  unfold bsBinaryGammaOld bsBinaryGamma
  show bsBinaryGammaW (v * (1 * 1)) s 1 v K call = bsBinaryGammaW (v * Real.sqrt 1) s 1 v K call
  rw [Real.sqrt_one, one_mul]

/-- … and differs from it elsewhere: at `S = K = 1` (`s = 0`), `t = 4`, `v = 1/2` -/
theorem binary_gamma_old_wrong :
    val (bsBinaryGammaOld 0 4 (1 / 2) 1 true) ≠ val (bsBinaryGamma 0 4 (1 / 2) 1 true) := by
  have h4 : Real.sqrt 4 = 2 := by
    rw [show (4 : ℝ) = 2 ^ 2 by norm_num]
    exact Real.sqrt_sq (by norm_num)
  have ht : (0 : ℝ) < 4 := by norm_num
  have hv : (0 : ℝ) < 1 / 2 := by norm_num
  rw [binary_gamma_old_ok ht hv, binary_gamma_ok ht hv]
  simp only [val_ok, if_true, binGammaExpr, h4, Real.exp_zero]
  have hd : d2 0 (1 / 2 * 2) = -1 / 2 := by unfold d2; norm_num
  have hφ := phi_pos (-1 / 2)
  rw [hd]
  intro h
  norm_num at h
  linarith

/-- hence the shipped formula is not the derivative of the binary delta (defect F1) -/
theorem binary_gamma_old_not_derivative :
    ¬ HasDerivAt (fun S' => val (bsBinaryDelta (Real.log (S' / 1)) 4 (1 / 2) 1 true))
      (val (bsBinaryGammaOld (Real.log (1 / 1)) 4 (1 / 2) 1 true)) 1 := by
  intro h
  have h' := binary_gamma (S := 1) (K := 1) (t := 4) (v := 1 / 2) one_pos one_pos
    (by norm_num) (by norm_num) true
  have e := h.unique h'
  simp only [div_one, Real.log_one] at e
  exact binary_gamma_old_wrong e

/-! ### American binary option (running maximum `m` held fixed) -/

/-- delta = ∂price/∂S in the continuation region -/
theorem american_binary_delta {S K t v m : ℝ} (hS : 0 < S) (hK : 0 < K) (ht : 0 < t) (hv : 0 < v)
    (hm : m < 0) :
    HasDerivAt (fun S' => val (bsAmericanBinaryPrice (Real.log (S' / K)) m t v))
      (val (bsAmericanBinaryDelta (Real.log (S / K)) m t v K)) S := by
  have hw : (fun _ : ℝ => v * Real.sqrt t) S ≠ 0 := (w_pos ht hv).ne'
  have hlog := hasDerivAt_logMoneyness hS hK
  have h := hasDerivAt_american hlog (hasDerivAt_const S (v * Real.sqrt t)) hw
  have hel : Real.exp (Real.log (S / K)) = S / K := Real.exp_log (div_pos hS hK)
  have e := exp_mul_phi_d1 (Real.log (S / K)) (v * Real.sqrt t) (w_pos ht hv).ne'
  have hr : Real.sqrt t ≠ 0 := (Real.sqrt_pos.2 ht).ne'
  simp only [american_price_ok ht hv, american_delta_ok ht hv, val_ok, hm, if_true]
  refine h.congr_deriv ?_
  rw [← e, hel]
  field_simp
  ring

/-- gamma = ∂delta/∂S in the continuation region -/
theorem american_binary_gamma {S K t v m : ℝ} (hS : 0 < S) (hK : 0 < K) (ht : 0 < t) (hv : 0 < v)
    (hm : m < 0) :
    HasDerivAt (fun S' => val (bsAmericanBinaryDelta (Real.log (S' / K)) m t v K))
      (val (bsAmericanBinaryGamma (Real.log (S / K)) m t v K)) S := by
  have hw : (fun _ : ℝ => v * Real.sqrt t) S ≠ 0 := (w_pos ht hv).ne'
  have hlog := hasDerivAt_logMoneyness hS hK
  have hc := hasDerivAt_const S (v * Real.sqrt t)
  have hel : Real.exp (Real.log (S / K)) = S / K := Real.exp_log (div_pos hS hK)
  have hr : Real.sqrt t ≠ 0 := (Real.sqrt_pos.2 ht).ne'
  have hden : HasDerivAt (fun S' => Real.exp (Real.log (S' / K)) * K * (v * Real.sqrt t))
      (Real.exp (Real.log (S / K)) * (1 / S) * K * (v * Real.sqrt t)) S :=
    (hlog.exp.mul_const K).mul_const _
  have hne : Real.exp (Real.log (S / K)) * K * (v * Real.sqrt t) ≠ 0 := by
    rw [hel]; positivity
  have h := (((hasDerivAt_phi_d2 hlog hc hw).fun_div hden hne).fun_add
    ((hasDerivAt_Phi_d1 hlog hc hw).div_const K)).fun_add
    ((hasDerivAt_phi_d1 hlog hc hw).div_const (K * (v * Real.sqrt t)))
  have hab := d1_eq_d2_add (Real.log (S / K)) (v * Real.sqrt t)
  simp only [american_delta_ok ht hv, american_gamma_ok ht hv, val_ok, hm, if_true, amGammaExpr]
  refine h.congr_deriv ?_
  rw [hel, hab]
  field_simp
  ring

/-- vega (defined through the gamma relation) = ∂price/∂v in the continuation region -/
theorem american_binary_vega {K t v m : ℝ} (s : ℝ) (hK : 0 < K) (ht : 0 < t) (hv : 0 < v)
    (hm : m < 0) :
    HasDerivAt (fun v' => val (bsAmericanBinaryPrice s m t v'))
      (val (bsAmericanBinaryVega s m t v K)) v := by
  have hw : (fun v' : ℝ => v' * Real.sqrt t) v ≠ 0 := (w_pos ht hv).ne'
  have h := hasDerivAt_american (hasDerivAt_const v s) (hasDerivAt_w_vol t v) hw
  have e := exp_mul_phi_d1 s (v * Real.sqrt t) (w_pos ht hv).ne'
  have hes : Real.exp s ≠ 0 := (Real.exp_pos s).ne'
  rw [american_vega_ok ht hv]
  refine (h.congr_deriv ?_).congr_of_eventuallyEq ?_
  · simp only [val_ok, hm, if_true, vegaOfGamma, amGammaExpr]
    rw [← e]
    obtain ⟨r, hr, rfl⟩ := exists_sq ht
    simp only [Real.sqrt_sq hr.le]
    field_simp
    ring
  · filter_upwards [lt_mem_nhds hv] with v' hv'
    rw [american_price_ok ht hv']; simp only [val_ok, hm, if_true]

/-- theta (defined through the gamma relation) = −∂price/∂t in the continuation region -/
theorem american_binary_theta {K t v m : ℝ} (s : ℝ) (hK : 0 < K) (ht : 0 < t) (hv : 0 < v)
    (hm : m < 0) :
    HasDerivAt (fun t' => val (bsAmericanBinaryPrice s m t' v))
      (-(val (bsAmericanBinaryTheta s m t v K))) t := by
  have hw : (fun t' : ℝ => v * Real.sqrt t') t ≠ 0 := (w_pos ht hv).ne'
  have h := hasDerivAt_american (hasDerivAt_const t s) (hasDerivAt_w_time ht v) hw
  have e := exp_mul_phi_d1 s (v * Real.sqrt t) (w_pos ht hv).ne'
  have hes : Real.exp s ≠ 0 := (Real.exp_pos s).ne'
  have hr : Real.sqrt t ≠ 0 := (Real.sqrt_pos.2 ht).ne'
  rw [american_theta_ok ht hv]
  refine (h.congr_deriv ?_).congr_of_eventuallyEq ?_
  · simp only [val_ok, hm, if_true, thetaOfGamma, amGammaExpr]
    rw [← e]
    field_simp
    ring
  · filter_upwards [lt_mem_nhds ht] with t' ht'
    rw [american_price_ok ht' hv]; simp only [val_ok, hm, if_true]

/-- once the barrier has been hit (`0 ≤ m`) the price is one and every Greek vanishes -/
theorem american_binary_after_hit {t v m : ℝ} (s K : ℝ) (ht : 0 < t) (hv : 0 < v) (hm : 0 ≤ m) :
    bsAmericanBinaryPrice s m t v = .ok 1 ∧
    bsAmericanBinaryDelta s m t v K = .ok 0 ∧
    bsAmericanBinaryGamma s m t v K = .ok 0 ∧
    bsAmericanBinaryVega s m t v K = .ok 0 ∧
    bsAmericanBinaryTheta s m t v K = .ok 0 := by
  have hm' : ¬ m < 0 := not_lt.2 hm
  rw [american_price_ok ht hv, american_delta_ok ht hv, american_gamma_ok ht hv,
    american_vega_ok ht hv, american_theta_ok ht hv]
  simp [hm', vegaOfGamma, thetaOfGamma]

/-! ### gamma as the second derivative of the price -/

theorem european_gamma_second {S K t v : ℝ} (hS : 0 < S) (hK : 0 < K) (ht : 0 < t) (hv : 0 < v)
    (call : Bool) :
    HasDerivAt (deriv fun S' => val (bsEuropeanPrice (Real.log (S' / K)) t v K call))
      (val (bsEuropeanGamma (Real.log (S / K)) t v K)) S :=
  second_deriv hS (fun _ hx => european_delta hx hK ht hv call) (european_gamma hS hK ht hv call)

theorem binary_gamma_second {S K t v : ℝ} (hS : 0 < S) (hK : 0 < K) (ht : 0 < t) (hv : 0 < v)
    (call : Bool) :
    HasDerivAt (deriv fun S' => val (bsBinaryPrice (Real.log (S' / K)) t v call))
      (val (bsBinaryGamma (Real.log (S / K)) t v K call)) S :=
  second_deriv hS (fun _ hx => binary_delta hx hK ht hv call) (binary_gamma hS hK ht hv call)

theorem american_binary_gamma_second {S K t v m : ℝ} (hS : 0 < S) (hK : 0 < K) (ht : 0 < t)
    (hv : 0 < v) (hm : m < 0) :
    HasDerivAt (deriv fun S' => val (bsAmericanBinaryPrice (Real.log (S' / K)) m t v))
      (val (bsAmericanBinaryGamma (Real.log (S / K)) m t v K)) S :=
  second_deriv hS (fun _ hx => american_binary_delta hx hK ht hv hm)
    (american_binary_gamma hS hK ht hv hm)

/-- non-vacuity: the at-the-money call with `S = K = 1`, `t = 1`, `v = 1` has delta `Φ(1/2)` -/
example :
    HasDerivAt (fun S' => val (bsEuropeanPrice (Real.log (S' / 1)) 1 1 1 true)) (Phi (1 / 2)) 1 := by
  have h := european_delta (S := 1) (K := 1) (t := 1) (v := 1) one_pos one_pos one_pos one_pos true
  rw [european_delta_ok one_pos one_pos] at h
  simpa [d1] using h

end PfVerif.C08
