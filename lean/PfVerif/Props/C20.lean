/-
  C20 — Clamps, the Whalley–Wilmott band and small helpers follow their formulas.
  Model: Model/Clamp.lean at ℝ.
-/
import PfVerif.Model.Clamp
import PfVerif.Lemmas.Gauss
import Mathlib.Analysis.SpecialFunctions.Trigonometric.Basic

namespace PfVerif.C20
open PfVerif

/-! ### clamp -/

/-- `clamp` with ordered bounds: the input inside, the nearer bound outside -/
theorem clamp_piecewise (x lo hi : ℝ) (h : lo ≤ hi) (mode : InvMode) (hm : mode ≠ .other) :
    clampF x (some lo) (some hi) mode
      = .ok (if x < lo then lo else if hi < x then hi else x) := by
  cases mode with
  | other => exact absurd rfl hm
  | mean =>
    simp only [clampF, leakyClamp, h, if_true, zero_mul, add_zero]
    congr 1
    split_ifs with h1 h2
    · rw [max_eq_right (le_of_lt h1), min_eq_left h]
    · rw [max_eq_left (le_of_not_gt h1), min_eq_right (le_of_lt h2)]
    · rw [max_eq_left (le_of_not_gt h1), min_eq_left (le_of_not_gt h2)]
  | max =>
    simp only [clampF, torchClamp]
    congr 1
    split_ifs with h1 h2
    · rw [max_eq_right (le_of_lt h1), min_eq_left h]
    · rw [max_eq_left (le_of_not_gt h1), min_eq_right (le_of_lt h2)]
    · rw [max_eq_left (le_of_not_gt h1), min_eq_left (le_of_not_gt h2)]

/-- inverted bounds: the mean of the bounds, or the upper bound when so configured -/
theorem clamp_inverted (x lo hi : ℝ) (h : hi < lo) :
    clampF x (some lo) (some hi) .mean = .ok ((lo + hi) / 2) ∧
    clampF x (some lo) (some hi) .max = .ok hi := by
  constructor
  · simp [clampF, leakyClamp, not_le.2 h]
  · simp only [clampF, torchClamp]
    congr 1
    exact min_eq_right (le_trans (le_of_lt h) (le_max_right x lo))

/-- one-sided bounds -/
theorem clamp_one_sided (x b : ℝ) :
    clampF x (some b) none .mean = .ok (max x b) ∧ clampF x none (some b) .mean = .ok (min x b) ∧
    clampF x (some b) none .max = .ok (max x b) ∧ clampF x none (some b) .max = .ok (min x b) := by
  simp [clampF, leakyClamp, torchClamp]

/-- an unknown mode is rejected -/
theorem clamp_bad_mode (x : ℝ) (lo hi : Option ℝ) : clampF x lo hi .other = .error .valueError := rfl

/-- the result lies in `[lo, hi]` and clamping is idempotent -/
theorem clamp_mem (x lo hi : ℝ) (h : lo ≤ hi) :
    ∃ y, clampF x (some lo) (some hi) .mean = .ok y ∧ lo ≤ y ∧ y ≤ hi ∧
      clampF y (some lo) (some hi) .mean = .ok y := by
  refine ⟨if x < lo then lo else if hi < x then hi else x, clamp_piecewise x lo hi h .mean (by simp), ?_⟩
  have key : ∀ y, lo ≤ y → y ≤ hi → clampF y (some lo) (some hi) .mean = .ok y := by
    intro y h1 h2
    rw [clamp_piecewise y lo hi h .mean (by simp)]
    simp [not_lt.2 h1, not_lt.2 h2]
  split_ifs with h1 h2
  · exact ⟨le_rfl, h, key lo le_rfl h⟩
  · exact ⟨h, le_rfl, key hi h le_rfl⟩
  · exact ⟨le_of_not_gt h1, le_of_not_gt h2, key x (le_of_not_gt h1) (le_of_not_gt h2)⟩

/-! ### leaky clamp -/

/-- leaky clamp with ordered bounds and slope in `[0,1]`: identity inside, the bound plus
`slope·(x − bound)` outside -/
theorem leaky_piecewise (x lo hi s : ℝ) (h : lo ≤ hi) (hs0 : 0 ≤ s) (hs1 : s ≤ 1) (mode : InvMode)
    (hm : mode ≠ .other) :
    leakyClamp x (some lo) (some hi) s mode
      = .ok (if x < lo then lo + s * (x - lo) else if hi < x then hi + s * (x - hi) else x) := by
  have e : ∀ m : InvMode, m ≠ .other →
      leakyClamp x (some lo) (some hi) s m
        = .ok (min (max x (lo + s * (x - lo))) (hi + s * (max x (lo + s * (x - lo)) - hi))) := by
    intro m hm'
    cases m <;> simp_all [leakyClamp]
  rw [e mode hm]
  congr 1
  split_ifs with h1 h2
  · have a : x ≤ lo + s * (x - lo) := by nlinarith
    rw [max_eq_right a]
    apply min_eq_left
    nlinarith
  · have a : lo + s * (x - lo) ≤ x := by nlinarith
    rw [max_eq_left a]
    apply min_eq_right
    nlinarith
  · have a : lo + s * (x - lo) ≤ x := by nlinarith [le_of_not_gt h1]
    rw [max_eq_left a]
    apply min_eq_left
    nlinarith [le_of_not_gt h2]

/-- the documented cases need `slope ≤ 1`: for `slope = 2` the max/min form leaves a point
below the lower bound at `-3` instead of the documented `lo + 2(x − lo) = -2` -/
theorem leaky_slope_gt_one_witness :
    leakyClamp (-1 : ℝ) (some 0) (some 1) 2 .mean = .ok (-3) ∧ (0 : ℝ) + 2 * (-1 - 0) ≠ -3 := by
  constructor
  · simp only [leakyClamp]; norm_num
  · norm_num

/-- inverted bounds in the leaky clamp, both modes -/
theorem leaky_inverted (x lo hi s : ℝ) (h : hi < lo) :
    leakyClamp x (some lo) (some hi) s .mean = .ok ((lo + hi) / 2) ∧
    leakyClamp x (some lo) (some hi) s .max = .ok hi := by
  simp [leakyClamp, not_le.2 h]

/-- the `LeakyClamp` module honours its configured slope *and* `inverted_output` option; the
`Clamp` module is `clamp` with the default mode -/
theorem module_honours_options (x : ℝ) (lo hi : Option ℝ) (s : ℝ) (mode : InvMode) :
    leakyClampModule s mode x lo hi = leakyClamp x lo hi s mode ∧
    clampModule x lo hi = clampF x lo hi .mean := ⟨rfl, rfl⟩

theorem leaky_module_inverted_max (x lo hi s : ℝ) (h : hi < lo) :
    leakyClampModule s .max x (some lo) (some hi) = .ok hi := (leaky_inverted x lo hi s h).2

/-! ### Whalley–Wilmott -/

/-- the no-transaction band: keep the previous hedge inside `δ ± w`, else move to the nearest edge -/
theorem ww_band (prev delta w : ℝ) (hw : 0 ≤ w) :
    (|prev - delta| ≤ w → wwForward prev delta w = prev) ∧
    (delta + w < prev → wwForward prev delta w = delta + w) ∧
    (prev < delta - w → wwForward prev delta w = delta - w) := by
  simp only [wwForward, torchClamp]
  refine ⟨fun h => ?_, fun h => ?_, fun h => ?_⟩
  · rw [abs_le] at h
    rw [max_eq_left (by linarith [h.1]), min_eq_left (by linarith [h.2])]
  · rw [max_eq_left (by linarith), min_eq_right (by linarith)]
  · rw [max_eq_right (by linarith), min_eq_left (by linarith)]

/-- zero cost: zero half-width for *every* gamma, spot and risk aversion (`width.where(cost != 0, 0)`) -/
theorem ww_width_zero_cost (gamma spot a : ℝ) : wwWidth gamma spot 0 a = 0 := by
  simp [wwWidth]

/-- with a cost the half-width is the computed power -/
theorem ww_width_of_cost_ne_zero (gamma spot cost a : ℝ) (hc : cost ≠ 0) :
    wwWidth gamma spot cost a = (cost * (3 / 2) * (gamma * gamma) * spot / a) ^ ((1 : ℝ) / 3) := by
  have h : ¬ (cost ≤ 0 ∧ 0 ≤ cost) := fun h => hc (le_antisymm h.1 h.2)
  unfold wwWidth
  rw [if_neg h]
  rfl

/-- half-width `(3 c Γ² S / (2a))^{1/3}` (over the reals also at zero cost, where both sides are
`0 = 0^{1/3}`) -/
theorem ww_width_formula (gamma spot cost a : ℝ) :
    wwWidth gamma spot cost a = (3 * cost * gamma ^ 2 * spot / (2 * a)) ^ ((1 : ℝ) / 3) := by
  by_cases hc : cost = 0
  · subst hc
    rw [ww_width_zero_cost]
    simp
  · rw [ww_width_of_cost_ne_zero _ _ _ _ hc]
    congr 1
    by_cases ha : a = 0
    · simp [ha]
    · field_simp

theorem ww_width_nonneg (gamma spot cost a : ℝ) (hc : 0 ≤ cost) (hs : 0 ≤ spot) (ha : 0 < a) :
    0 ≤ wwWidth gamma spot cost a := by
  rw [ww_width_formula]
  apply Real.rpow_nonneg
  positivity

/-- zero cost: zero width, hence the Black–Scholes delta hedge -/
theorem ww_zero_cost (prev delta gamma spot a : ℝ) :
    wwForward prev delta (wwWidth gamma spot 0 a) = delta := by
  rw [ww_width_zero_cost]
  simp only [wwForward, torchClamp, sub_zero, add_zero]
  exact min_eq_right (le_max_right prev delta)

/-! ### helpers -/

theorem svi_formula (k a b rho m sigma : ℝ) :
    sviVariance k a b rho m sigma = a + b * (rho * (k - m) + Real.sqrt ((k - m) ^ 2 + sigma ^ 2)) := by
  simp [sviVariance, Transc.sqrt, pow_two]

theorem bilerp_formula (a b c d u w : ℝ) :
    bilerp a b c d u w = (1 - w) * ((1 - u) * a + u * b) + w * ((1 - u) * c + u * d) := by
  unfold bilerp lerp; ring

theorem box_muller_formula (eps u1 u2 : ℝ) :
    boxMuller (2 * Real.pi) eps u1 u2
      = (Real.sqrt (-2 * Real.log (max u1 eps)) * Real.cos (2 * Real.pi * u2),
         Real.sqrt (-2 * Real.log (max u1 eps)) * Real.sin (2 * Real.pi * u2)) := by
  simp [boxMuller, Transc.sqrt, Transc.log, Transc.cos, Transc.sin]

/-- `z₀² + z₁² = −2 log u₁` for `eps ≤ u₁ ≤ 1` -/
theorem box_muller_radius (eps u1 u2 : ℝ) (h0 : 0 < eps) (h1 : eps ≤ u1) (h2 : u1 ≤ 1) :
    (boxMuller (2 * Real.pi) eps u1 u2).1 ^ 2 + (boxMuller (2 * Real.pi) eps u1 u2).2 ^ 2
      = -2 * Real.log u1 := by
  rw [box_muller_formula, max_eq_left h1]
  have hl : 0 ≤ -2 * Real.log u1 := by
    have := Real.log_nonpos (le_of_lt (lt_of_lt_of_le h0 h1)) h2
    linarith
  simp only [mul_pow, Real.sq_sqrt hl]
  have := Real.cos_sq_add_sin_sq (2 * Real.pi * u2)
  nlinarith [this]

/-- non-vacuity of `leaky_piecewise` / `ww_band` hypotheses -/
example : ((0:ℝ) ≤ 1) ∧ ((0:ℝ) ≤ 1/4) ∧ ((1:ℝ)/4 ≤ 1) ∧ |(0.3:ℝ) - 0.5| ≤ 0.25 := by
  refine ⟨by norm_num, by norm_num, by norm_num, ?_⟩
  rw [abs_le]; constructor <;> norm_num

end PfVerif.C20
