/-
  C01 — Hedging P&L is the self-financing wealth identity.

  Property theorems only (helper lemmas live in `Lemmas/`).  The model `plPath` / `pl`
  (Model/PL.lean, transcribed from functional.py:486-592) is instantiated at ℝ.
-/
import PfVerif.Model.PL
import PfVerif.Lemmas.ListR

namespace PfVerif.C01
open PfVerif Finset

/-- an `H × T` matrix as nested lists: rows `S h 0 … S h (T-1)` -/
def mat (S : ℕ → ℕ → ℝ) (H T : ℕ) : List (List ℝ) := seqL (fun h => seqL (S h) 0 T) 0 H

/-- The self-financing wealth of the property statement, for `T+1` time points
(`T` trading periods), cost rates `c h`, payoff `Z`. -/
noncomputable def wealth (H T : ℕ) (S δ : ℕ → ℕ → ℝ) (c : ℕ → ℝ) (Z : ℝ) (first : Bool) : ℝ :=
  -Z + ∑ h ∈ range H, ∑ t ∈ range T,
      (δ h t * (S h (t + 1) - S h t) - c h * |δ h (t + 1) - δ h t| * S h (t + 1))
    - (if first then ∑ h ∈ range H, c h * |δ h 0| * S h 0 else 0)

theorem gains1_eq (s u : ℕ → ℝ) (T : ℕ) :
    gains1 (seqL s 0 (T + 1)) (seqL u 0 (T + 1)) = ∑ t ∈ range T, u t * (s (t + 1) - s t) := by
  unfold gains1 mulL
  rw [initL_seqL, diffL_seqL, zipWith_seqL, sumL_seqL]
  simp

theorem cost1_eq (c : ℝ) (s u : ℕ → ℝ) (T : ℕ) :
    cost1 c (seqL s 0 (T + 1)) (seqL u 0 (T + 1))
      = ∑ t ∈ range T, c * |u (t + 1) - u t| * s (t + 1) := by
  unfold cost1
  rw [tailL_seqL, diffL_seqL]
  have : seqL s (0 + 1) T = seqL (fun i => s (i + 1)) 0 T := by
    simp only [seqL, List.range'_eq_map_range, List.map_map]
    apply List.map_congr_left; intro a _; simp [Nat.add_comm]
  rw [this, zipWith_seqL, sumL_seqL]
  simp only [Nat.zero_add, absS_eq_abs]
  apply Finset.sum_congr rfl; intro t _; ring

theorem first1_eq (c : ℝ) (s u : ℕ → ℝ) (T : ℕ) :
    first1 c (seqL s 0 (T + 1)) (seqL u 0 (T + 1)) = c * |u 0| * s 0 := by
  simp only [seqL_succ, first1, absS_eq_abs]; ring

theorem zipWith3L_seqL {β γ δ ε : Type} (g : β → γ → δ → ε) (f1 : ℕ → β) (f2 : ℕ → γ)
    (f3 : ℕ → δ) (a n : ℕ) :
    zipWith3L g (seqL f1 a n) (seqL f2 a n) (seqL f3 a n)
      = seqL (fun i => g (f1 i) (f2 i) (f3 i)) a n := by
  induction n generalizing a with
  | zero => simp [zipWith3L]
  | succ n ih => simp [seqL_succ, zipWith3L, ih]

/-- **C01, per path.** For every number of instruments `H`, every number of trading periods
`T` (i.e. `T+1 ≥ 1` time points), all real prices, positions, cost rates, payoff and both
values of the first-cost flag, the modelled `pl` equals the wealth identity. -/
theorem plPath_eq_wealth (H T : ℕ) (S δ : ℕ → ℕ → ℝ) (c : ℕ → ℝ) (Z : ℝ) (first : Bool) :
    plPath (mat S H (T + 1)) (mat δ H (T + 1)) (some (seqL c 0 H)) (some Z) first
      = wealth H T S δ c Z first := by
  unfold plPath wealth mat
  simp only [zipWith_seqL, zipWith3L_seqL, gains1_eq, cost1_eq, first1_eq, sumL_seqL,
    Nat.zero_add, Finset.sum_sub_distrib]
  cases first <;> simp <;> ring

/-- `cost = None` is the wealth identity with all rates zero. -/
theorem plPath_nocost (H T : ℕ) (S δ : ℕ → ℕ → ℝ) (Z : ℝ) (first : Bool) :
    plPath (mat S H (T + 1)) (mat δ H (T + 1)) none (some Z) first
      = wealth H T S δ (fun _ => 0) Z first := by
  unfold plPath wealth mat
  simp only [zipWith_seqL, gains1_eq, sumL_seqL, Nat.zero_add]
  cases first <;> simp <;> ring

/-- `payoff = None` is the wealth identity with `Z = 0` (this is `compute_portfolio`). -/
theorem plPath_nopayoff (H T : ℕ) (S δ : ℕ → ℕ → ℝ) (c : ℕ → ℝ) (first : Bool) :
    plPath (mat S H (T + 1)) (mat δ H (T + 1)) (some (seqL c 0 H)) none first
      = wealth H T S δ c 0 first := by
  unfold plPath wealth mat
  simp only [zipWith_seqL, zipWith3L_seqL, gains1_eq, cost1_eq, first1_eq, sumL_seqL,
    Nat.zero_add, Finset.sum_sub_distrib]
  cases first <;> simp

/-- If the position at the last index equals the one before (C02: no trade at maturity), the
cost term of the last period vanishes. -/
theorem no_cost_at_maturity (c : ℝ) (δ : ℕ → ℝ) (S : ℕ → ℝ) (T : ℕ)
    (h : δ (T + 1) = δ T) : c * |δ (T + 1) - δ T| * S (T + 1) = 0 := by
  simp [h]

/-- every rectangular `H × (T+1)` nested list is a `mat` (so the theorems above quantify over
all well-shaped inputs). -/
theorem exists_mat (H T : ℕ) (xs : List (List ℝ)) (hH : xs.length = H)
    (hT : ∀ r ∈ xs, r.length = T) : ∃ S, xs = mat S H T := by
  refine ⟨fun h t => (xs.getD h []).getD t 0, ?_⟩
  apply List.ext_getElem
  · simp [mat, hH]
  · intro i h1 h2
    have hr : xs[i].length = T := hT _ (List.getElem_mem h1)
    apply List.ext_getElem
    · simp [mat, seqL, hr]
    · intro j h3 h4
      simp [mat, seqL, List.getD_eq_getElem?_getD, List.getElem?_eq_getElem h1,
        List.getElem?_eq_getElem h3]

/-- Tensor level: on well-shaped inputs `pl` is `plPath` applied to every path independently
(`N` never enters the per-path formula). -/
theorem pl_ok_paths (sh : Shape3) (spot unit : List (List (List ℝ))) (c : List ℝ)
    (z : List ℝ) (first : Bool) (hc : c.length = sh.h) (hz : z.length = sh.n) :
    pl sh sh spot unit (some c) (some (1, z)) first false
      = .ok (zipWith3L (fun s u z => plPath s u (some c) z first) spot unit (z.map some)) := by
  simp [pl, pl.body, bcastCost, hc, hz]

/-- The size checks: mismatching spot/unit shapes, a payoff that is not one number per path,
and `deduct_final_cost` are rejected exactly as the code rejects them. -/
theorem pl_shape_errors (ss su : Shape3) (spot unit : List (List (List ℝ)))
    (cost : Option (List ℝ)) (payoff : Option (Nat × List ℝ)) (first : Bool) :
    pl ss su spot unit cost payoff first true = .error .assertionError ∧
    (ss ≠ su → pl ss su spot unit cost payoff first false = .error .runtimeError) ∧
    (∀ d z, ss = su → (d ≠ 1 ∨ z.length ≠ ss.n) →
      pl ss su spot unit cost (some (d, z)) first false = .error .runtimeError) := by
  refine ⟨by simp [pl], fun h => by simp [pl, h], fun d z h1 h2 => ?_⟩
  subst h1
  rcases h2 with h2 | h2 <;> simp [pl, h2]

/-- `terminal_value` is `pl`. -/
theorem terminalValue_eq_pl (ss su : Shape3) (spot unit : List (List (List ℝ)))
    (cost : Option (List ℝ)) (payoff : Option (Nat × List ℝ)) (first : Bool) :
    terminalValue ss su spot unit cost payoff first = pl ss su spot unit cost payoff first false :=
  rfl

/-- non-vacuity: a concrete 1-instrument, 2-period instance with a positive cost where the
cost index matters (prices not constant). -/
example : plPath (mat (fun _ t => (t : ℝ) + 1) 1 3) (mat (fun _ t => if t = 0 then 1 else 2) 1 3)
    (some (seqL (fun _ => (1:ℝ)/2) 0 1)) (some 1) true = -1 + (1 + 2 - (1/2) * 1 * 2) - 1/2 := by
  rw [plPath_eq_wealth]
  simp [wealth, Finset.sum_range_succ]
  norm_num

end PfVerif.C01
