/-
  C06 — the cash amount (certainty equivalent) reported for a P&L sample, and the price a hedger
  quotes.

  Model: Model/Risk.lean, section `Cash` (transcribed from pfhedge/nn/modules/loss.py
  `HedgeLoss.cash` and its closed-form overrides, pfhedge/nn/modules/hedger.py `price`,
  pfhedge/_utils/operations.py `ensemble_mean`) instantiated at ℝ.  Helper lemmas live in
  `PfVerif.C06Aux`; the property theorems are exactly the theorems of `PfVerif.C06`.

  Conventions.  Samples are non-empty `List ℝ`, `N = xs.length`; the risk aversion `a` of the
  entropic criteria is `≠ 0` where that suffices and `> 0` where the statement needs it; the
  entropic risk measure is `ermR a xs = (1/a) log mean exp(−a x)` (the value of the model's
  `entropicRisk`, `C04ERM.erm_eq_def`), quadratic CVaR is the infimum `qcvarR` (the value of the
  code with an exact root, `C04ERM.qcvar_centred`).
-/
import PfVerif.Lemmas.C04ES
import PfVerif.Lemmas.C04ERM
import PfVerif.Props.C12
import PfVerif.Props.C19
import Mathlib.Analysis.SpecialFunctions.Sqrt

namespace PfVerif.C06Aux
open PfVerif PfVerif.C04ERMAux

theorem map_sub_eq_map_add_neg (c : ℝ) (xs : List ℝ) :
    xs.map (fun x => x - c) = xs.map (· + (-c)) := by
  apply List.map_congr_left; intro x _; ring

theorem replicate_ne_nil {N : ℕ} (hN : 1 ≤ N) (c : ℝ) : List.replicate N c ≠ [] := by
  intro h
  have := congrArg List.length h
  simp at this; omega

theorem length_pos_of_ne_nil' {xs : List ℝ} (h : xs ≠ []) : 1 ≤ xs.length :=
  List.length_pos_of_ne_nil h

/-- mean of the exponentials is positive on a non-empty sample -/
theorem entropicLoss_pos (a : ℝ) (xs : List ℝ) (hxs : xs ≠ []) : 0 < entropicLoss a xs := by
  rw [C04ERM.entropicLoss_eq_def]
  exact div_pos (expsum_pos a xs hxs) (length_pos_real xs hxs)

/-- the entropic loss of a constant sample -/
theorem entropicLoss_const (a : ℝ) {N : ℕ} (hN : 1 ≤ N) (c : ℝ) :
    entropicLoss a (List.replicate N c) = Real.exp (-a * c) := by
  have hn : (0 : ℝ) < N := by exact_mod_cast hN
  rw [C04ERM.entropicLoss_eq_def]
  simp only [List.map_replicate, List.sum_replicate, List.length_replicate, nsmul_eq_mul]
  rw [mul_div_cancel_left₀ _ hn.ne']

/-- `EntropicLoss.cash = −log(mean exp(−a x))/a` is minus the entropic risk measure -/
theorem entropicLossCash_eq (a : ℝ) (xs : List ℝ) : entropicLossCash a xs = -(ermR a xs) := by
  unfold entropicLossCash ermR
  rw [C04ERM.entropicLoss_eq_def]
  simp only [Transc.log]
  ring

/-- the entropic risk measure is `(1/a)·log` of the entropic loss -/
theorem ermR_eq_log_entropicLoss (a : ℝ) (xs : List ℝ) :
    ermR a xs = (1 / a) * Real.log (entropicLoss a xs) := by
  rw [C04ERM.entropicLoss_eq_def]; rfl

/-! ### the default search -/

/-- if the default `cash` returns, the bisection returned a one-element tensor -/
theorem cashDefault_ok {L : List ℝ → ℝ} {precision : ℝ} {maxIter : ℕ} {x : ℝ} {xs : List ℝ}
    {c : ℝ} (hok : cashDefault L precision maxIter (x :: xs) = .ok c) :
    bisect (fun cs => cs.map (fun c => L [c])) [L (x :: xs)] [minL x xs - precision]
      [maxL x xs + precision] precision maxIter = .ok [c] := by
  unfold cashDefault at hok
  simp only at hok
  split at hok
  · rename_i c' heq
    injection hok with hok
    subst hok
    exact heq
  · cases hok
  · cases hok

/-- … and the bracket check passed -/
theorem cashDefault_bracket {L : List ℝ → ℝ} {precision : ℝ} {maxIter : ℕ} {x : ℝ}
    {xs : List ℝ} {c : ℝ} (hok : cashDefault L precision maxIter (x :: xs) = .ok c) :
    allLt [minL x xs - precision] [maxL x xs + precision] = true := by
  have hb := cashDefault_ok hok
  cases h : allLt [minL x xs - precision] [maxL x xs + precision] with
  | true => rfl
  | false =>
    rw [C19.bisect_bad_bracket _ _ _ _ _ _ h] at hb
    cases hb

theorem allLt_singleton (a b : ℝ) : allLt [a] [b] = true ↔ a < b := by
  simp [allLt]

/-- the constant-sample map acts element-wise (hypothesis `hfn` of the C19 theorems, `n = 1`) -/
theorem hfn_const (L : List ℝ → ℝ) :
    ∀ cs : List ℝ, cs.length = 1 → (cs.map (fun c => L [c])).length = 1 ∧
      ∀ i (h' : i < cs.length) (h'' : i < (cs.map (fun c => L [c])).length),
        (cs.map (fun c => L [c]))[i] = (fun (_ : ℕ) r => L [r]) i cs[i] := by
  intro cs hcs
  exact ⟨by simpa using hcs, fun i h' h'' => by simp⟩

theorem minL_le_maxL (x : ℝ) (xs : List ℝ) : minL x xs ≤ maxL x xs :=
  le_trans (C12.minL_le x xs x List.mem_cons_self) (C12.maxL_ge x xs x List.mem_cons_self)

/-! ### expected-utility criteria (`loss = −mean u(x)`) and their certainty equivalent -/

/-- `−mean u(x)`: the form of `EntropicLoss`, `IsoelasticLoss` (criteria whose `cash` is the
default search, except for the closed form of `EntropicLoss`) -/
noncomputable def euLoss (u : ℝ → ℝ) (xs : List ℝ) : ℝ := -((xs.map u).sum / xs.length)

theorem isoelasticLoss_eq_euLoss (b : Bool) (a : ℝ) (xs : List ℝ) :
    isoelasticLoss b a xs = euLoss (isoelasticUtility b a) xs := by
  simp only [isoelasticLoss, euLoss, C04ERMAux.sumL_eq_sum]

theorem entropicLoss_eq_euLoss (a : ℝ) (xs : List ℝ) :
    entropicLoss a xs = euLoss (fun x => -(Real.exp (-a * x))) xs := by
  simp only [entropicLoss, euLoss, C04ERMAux.sumL_eq_sum, Transc.exp]

theorem euLoss_singleton (u : ℝ → ℝ) (r : ℝ) : euLoss u [r] = -(u r) := by
  simp [euLoss]

/-- the certainty-equivalent equation in utility form -/
theorem euLoss_ce_iff (u : ℝ → ℝ) (r : ℝ) (xs : List ℝ) :
    euLoss u [r] = euLoss u xs ↔ u r = (xs.map u).sum / xs.length := by
  rw [euLoss_singleton]; unfold euLoss; exact neg_inj

/-- Jensen for a concave utility on a list sample -/
theorem mean_map_le_map_mean (u : ℝ → ℝ) (s : Set ℝ) (hs : Convex ℝ s) (hc : ConcaveOn ℝ s u)
    (xs : List ℝ) (hxs : xs ≠ []) (hmem : ∀ x ∈ xs, x ∈ s) :
    xs.sum / xs.length ∈ s ∧ (xs.map u).sum / xs.length ≤ u (xs.sum / xs.length) := by
  have hN := length_pos_real xs hxs
  have hw0 : ∀ i ∈ (Finset.univ : Finset (Fin xs.length)), (0 : ℝ) ≤ 1 / (xs.length : ℝ) :=
    fun i _ => by positivity
  have hw1 : ∑ _i : Fin xs.length, 1 / (xs.length : ℝ) = 1 := by
    rw [Finset.sum_const, nsmul_eq_mul, Finset.card_univ, Fintype.card_fin]; field_simp
  have hp : ∀ i ∈ (Finset.univ : Finset (Fin xs.length)), xs[i.1] ∈ s :=
    fun i _ => hmem _ (List.getElem_mem _)
  have h1 := hs.sum_mem hw0 hw1 hp
  have h2 := hc.le_map_sum hw0 hw1 hp
  simp only [smul_eq_mul, ← Finset.mul_sum] at h1 h2
  have e1 : ∑ i : Fin xs.length, xs[i.1] = xs.sum := Fin.sum_univ_getElem xs
  have e2 : ∑ i : Fin xs.length, u xs[i.1] = (xs.map u).sum := (sum_map_fin u xs).symm
  have e3 : ∀ y : ℝ, 1 / (xs.length : ℝ) * y = y / xs.length := fun y => by ring
  rw [e1, e3] at h1
  rw [e1, e2, e3, e3] at h2
  exact ⟨h1, h2⟩

/-! ### the bisection keeps the tensor shape -/

theorem bisectLoop_length (n : ℕ) (f : ℕ → ℝ → ℝ) (fn : List ℝ → List ℝ) (target : List ℝ)
    (precision : ℝ) (ht : target.length = n)
    (hfn : ∀ xs : List ℝ, xs.length = n → (fn xs).length = n ∧
      ∀ i (h' : i < xs.length) (h'' : i < (fn xs).length), (fn xs)[i] = f i xs[i]) :
    ∀ (fuel : ℕ) (lower upper res : List ℝ), lower.length = n → upper.length = n →
      bisectLoop fn target precision fuel lower upper = .ok res → res.length = n := by
  intro fuel
  induction fuel with
  | zero =>
    intro lower upper res hl hu hok
    cases hw : maxWidth lower upper with
    | none => rw [C19Aux.bisectLoop_none hw] at hok; cases hok
    | some w =>
      by_cases hp : precision < w
      · rw [C19Aux.bisectLoop_zero hw hp] at hok; cases hok
      · rw [C19Aux.bisectLoop_done hw hp] at hok
        injection hok with hok; subst hok; exact hu
  | succ k ih =>
    intro lower upper res hl hu hok
    cases hw : maxWidth lower upper with
    | none => rw [C19Aux.bisectLoop_none hw] at hok; cases hok
    | some w =>
      by_cases hp : precision < w
      · rw [C19Aux.bisectLoop_succ hw hp] at hok
        obtain ⟨hl', hu', _⟩ := C19.bisectStep_spec n f fn target lower upper _ _ hl hu ht hfn rfl
        exact ih _ _ res hl' hu' hok
      · rw [C19Aux.bisectLoop_done hw hp] at hok
        injection hok with hok; subst hok; exact hu

theorem bisect_length (n : ℕ) (f : ℕ → ℝ → ℝ) (fn : List ℝ → List ℝ)
    (target lower upper : List ℝ) (precision : ℝ) (maxIter : ℕ) (res : List ℝ)
    (hl : lower.length = n) (hu : upper.length = n) (ht : target.length = n)
    (hfn : ∀ xs : List ℝ, xs.length = n → (fn xs).length = n ∧
      ∀ i (h' : i < xs.length) (h'' : i < (fn xs).length), (fn xs)[i] = f i xs[i])
    (hok : bisect fn target lower upper precision maxIter = .ok res) : res.length = n := by
  unfold bisect at hok
  simp only at hok
  split_ifs at hok
  · exact bisectLoop_length n (fun i x => -(f i x)) _ _ precision (by simpa using ht)
      (C19Aux.hfn_neg hfn) maxIter lower upper res hl hu hok
  · exact bisectLoop_length n f fn target precision ht hfn maxIter lower upper res hl hu hok

end PfVerif.C06Aux

namespace PfVerif.C06
open PfVerif PfVerif.C04ERMAux PfVerif.C06Aux

/-! ### the cash amount is as good as the sample -/

/-- entropic risk measure: the constant sample at `cash = −ρ(xs)` has the same risk -/
theorem cash_erm_equiv (a : ℝ) (ha : a ≠ 0) (xs : List ℝ) (hxs : xs ≠ []) :
    ermR a (List.replicate xs.length (cashNeg (ermR a) xs)) = ermR a xs := by
  rw [C04ERM.erm_const a ha xs.length (length_pos_of_ne_nil' hxs)]
  simp [cashNeg]

/-- the same through the model's `entropicRisk` (the code path `logsumexp`): both evaluate
without error and agree -/
theorem cash_erm_equiv_model (a : ℝ) (ha : a ≠ 0) (xs : List ℝ) (hxs : xs ≠ []) :
    ∃ ρ, entropicRisk a xs = .ok ρ ∧
      entropicRisk a (List.replicate xs.length (-ρ)) = .ok ρ := by
  refine ⟨ermR a xs, C04ERM.erm_eq_def a xs hxs, ?_⟩
  rw [C04ERM.erm_eq_def a _ (replicate_ne_nil (length_pos_of_ne_nil' hxs) _),
    C04ERM.erm_const a ha xs.length (length_pos_of_ne_nil' hxs), neg_neg]

/-- expected shortfall (`1 ≤ k ≤ N`) -/
theorem cash_es_equiv {k : ℕ} (xs : List ℝ) (hk1 : 1 ≤ k) (hk : k ≤ xs.length) :
    es k (List.replicate xs.length (cashNeg (es k) xs)) = es k xs := by
  rw [C04ES.es_const _ hk1 hk]
  simp [cashNeg]

/-- entropic loss: `mean exp(−a·cash) = mean exp(−a x)` with
`cash = −log(mean exp(−a x))/a` -/
theorem cash_eloss_equiv (a : ℝ) (ha : a ≠ 0) (xs : List ℝ) (hxs : xs ≠ []) :
    entropicLoss a (List.replicate xs.length (entropicLossCash a xs)) = entropicLoss a xs := by
  rw [entropicLoss_const a (length_pos_of_ne_nil' hxs), entropicLossCash_eq,
    ermR_eq_log_entropicLoss]
  have e : -a * -(1 / a * Real.log (entropicLoss a xs)) = Real.log (entropicLoss a xs) := by
    field_simp
  rw [e, Real.exp_log (entropicLoss_pos a xs hxs)]

/-- quadratic CVaR: the closed-form override returns minus the risk (definitional) … -/
theorem cash_qcvar (L : List ℝ → ℝ) (xs : List ℝ) : cashNeg L xs = -(L xs) := rfl

/-- … which, for the value the code computes from an exact root `w` of
`mean relu(−w − (x − b)) = 1/(2λ)` on the centred sample, is minus the minimum over `w'` of the
objective `w' + λ·mean relu(−w' − x)²` -/
theorem cash_qcvar_min (lam : ℝ) (hl : 0 < lam) (xs : List ℝ) (b w : ℝ)
    (hw : qTarget w (xs.map (fun x => x - b)) = 1 / (2 * lam)) :
    cashNeg (fun ys => qObj lam w (ys.map (fun x => x - b)) - b) xs = -(qcvarR lam xs) ∧
    ∀ w' : ℝ, -(qObj lam w' xs)
      ≤ cashNeg (fun ys => qObj lam w (ys.map (fun x => x - b)) - b) xs := by
  have h := C04ERM.qcvar_centred lam hl xs b w hw
  have hxs : xs ≠ [] := by
    rintro rfl
    have : (0 : ℝ) < 1 / (2 * lam) := by positivity
    rw [← hw] at this
    simp [qTarget_eq] at this
  refine ⟨by simp only [cashNeg, h], fun w' => ?_⟩
  simp only [cashNeg, h]
  exact neg_le_neg (C04ERM.qcvar_le_obj lam hl xs hxs w')

/-- quadratic CVaR of the constant sample at `cash`: `−cash − 1/(4λ)`; so for this criterion
the reported cash amount is minus the risk and NOT a certainty equivalent (the constant sample at
`cash` has risk `ρ(xs) − 1/(4λ)`) -/
theorem cash_qcvar_const (lam : ℝ) (hl : 0 < lam) (xs : List ℝ) (hxs : xs ≠ []) :
    qcvarR lam (List.replicate xs.length (cashNeg (qcvarR lam) xs))
      = qcvarR lam xs - 1 / (4 * lam) := by
  rw [C04ERM.qcvar_const lam hl xs.length (length_pos_of_ne_nil' hxs)]
  simp [cashNeg]

/-! ### the cash amount lies between the worst and the best outcome -/

theorem cash_erm_mem_range (a : ℝ) (ha : 0 < a) (xs : List ℝ) (hxs : xs ≠ []) (m M : ℝ)
    (hm : ∀ x ∈ xs, m ≤ x) (hM : ∀ x ∈ xs, x ≤ M) :
    m ≤ cashNeg (ermR a) xs ∧ cashNeg (ermR a) xs ≤ M := by
  obtain ⟨h1, h2⟩ := C04ERM.erm_bounds a ha xs hxs
  have := h1 M hM
  have := h2 m hm
  simp only [cashNeg]
  constructor <;> linarith

theorem cash_es_mem_range {k : ℕ} (xs : List ℝ) (hk1 : 1 ≤ k) (hk : k ≤ xs.length) (m M : ℝ)
    (hm : ∀ x ∈ xs, m ≤ x) (hM : ∀ x ∈ xs, x ≤ M) :
    m ≤ cashNeg (es k) xs ∧ cashNeg (es k) xs ≤ M := by
  obtain ⟨h1, h2⟩ := C04ES.es_bounds (xs := xs) hk1 hk
  have := h1 M hM
  have := h2 m hm
  simp only [cashNeg]
  constructor <;> linarith

theorem cash_eloss_mem_range (a : ℝ) (ha : 0 < a) (xs : List ℝ) (hxs : xs ≠ []) (m M : ℝ)
    (hm : ∀ x ∈ xs, m ≤ x) (hM : ∀ x ∈ xs, x ≤ M) :
    m ≤ entropicLossCash a xs ∧ entropicLossCash a xs ≤ M := by
  rw [entropicLossCash_eq]
  exact cash_erm_mem_range a ha xs hxs m M hm hM

/-- **min ≤ cash ≤ max** for the three closed-form certainty equivalents, with the model's own
`minL` / `maxL` of the sample -/
theorem cash_mem_range (a : ℝ) (ha : 0 < a) {k : ℕ} (x : ℝ) (xs : List ℝ) (hk1 : 1 ≤ k)
    (hk : k ≤ (x :: xs).length) :
    (minL x xs ≤ cashNeg (ermR a) (x :: xs) ∧ cashNeg (ermR a) (x :: xs) ≤ maxL x xs) ∧
    (minL x xs ≤ cashNeg (es k) (x :: xs) ∧ cashNeg (es k) (x :: xs) ≤ maxL x xs) ∧
    (minL x xs ≤ entropicLossCash a (x :: xs) ∧ entropicLossCash a (x :: xs) ≤ maxL x xs) :=
  ⟨cash_erm_mem_range a ha _ (by simp) _ _ (C12.minL_le x xs) (C12.maxL_ge x xs),
   cash_es_mem_range _ hk1 hk _ _ (C12.minL_le x xs) (C12.maxL_ge x xs),
   cash_eloss_mem_range a ha _ (by simp) _ _ (C12.minL_le x xs) (C12.maxL_ge x xs)⟩

/-! ### risk aversion: the cash amount does not exceed the mean -/

theorem cash_erm_le_mean (a : ℝ) (ha : 0 < a) (xs : List ℝ) (hxs : xs ≠ []) :
    cashNeg (ermR a) xs ≤ xs.sum / xs.length := by
  have := C04ERM.erm_ge_neg_mean a ha xs hxs
  simp only [cashNeg]; linarith

theorem cash_es_le_mean {k : ℕ} (xs : List ℝ) (hk1 : 1 ≤ k) (hk : k ≤ xs.length) :
    cashNeg (es k) xs ≤ xs.sum / xs.length := by
  have := C04ES.es_ge_neg_mean (xs := xs) hk1 hk
  simp only [cashNeg]; linarith

theorem cash_eloss_le_mean (a : ℝ) (ha : 0 < a) (xs : List ℝ) (hxs : xs ≠ []) :
    entropicLossCash a xs ≤ xs.sum / xs.length := by
  rw [entropicLossCash_eq]
  exact cash_erm_le_mean a ha xs hxs

/-- **cash ≤ mean** for the three risk-averse closed forms -/
theorem cash_le_mean (a : ℝ) (ha : 0 < a) {k : ℕ} (xs : List ℝ) (hxs : xs ≠ []) (hk1 : 1 ≤ k)
    (hk : k ≤ xs.length) :
    cashNeg (ermR a) xs ≤ xs.sum / xs.length ∧ cashNeg (es k) xs ≤ xs.sum / xs.length ∧
    entropicLossCash a xs ≤ xs.sum / xs.length :=
  ⟨cash_erm_le_mean a ha xs hxs, cash_es_le_mean xs hk1 hk, cash_eloss_le_mean a ha xs hxs⟩

/-! ### expected-utility criteria served by the default search (isoelastic loss, …)

For `loss xs = −mean u(x)` with `u` strictly increasing on a convex set `s` of admissible
outcomes, the exact certainty equivalent `r` (`loss [r] = loss xs`, i.e. `u r = mean u(x)`) —
the number the default search approximates to within `precision`, `cash_default_equiv` — lies
between the worst and the best outcome, and below the mean when `u` is concave (risk-averse). -/

/-- worst ≤ certainty equivalent ≤ best -/
theorem cash_eu_mem_range (u : ℝ → ℝ) (s : Set ℝ) (hu : StrictMonoOn u s) (xs : List ℝ)
    (hxs : xs ≠ []) (r : ℝ) (hr : r ∈ s) (hce : euLoss u [r] = euLoss u xs) (m M : ℝ)
    (hm : m ∈ s) (hM : M ∈ s) (hml : ∀ x ∈ xs, m ≤ x) (hMu : ∀ x ∈ xs, x ≤ M)
    (hmem : ∀ x ∈ xs, x ∈ s) : m ≤ r ∧ r ≤ M := by
  rw [euLoss_ce_iff] at hce
  have hN := length_pos_real xs hxs
  have h1 := List.card_nsmul_le_sum (xs.map u) (u m) (by
    intro y hy
    obtain ⟨x, hx, rfl⟩ := List.mem_map.1 hy
    exact hu.monotoneOn hm (hmem x hx) (hml x hx))
  have h2 := List.sum_le_card_nsmul (xs.map u) (u M) (by
    intro y hy
    obtain ⟨x, hx, rfl⟩ := List.mem_map.1 hy
    exact hu.monotoneOn (hmem x hx) hM (hMu x hx))
  simp only [List.length_map, nsmul_eq_mul] at h1 h2
  constructor
  · rw [← hu.le_iff_le hm hr, hce, le_div_iff₀ hN]; linarith
  · rw [← hu.le_iff_le hr hM, hce, div_le_iff₀ hN]; linarith

/-- the same with the model's `minL` / `maxL` (members of the sample, hence admissible) -/
theorem cash_eu_mem_range_minmax (u : ℝ → ℝ) (s : Set ℝ) (hu : StrictMonoOn u s) (x : ℝ)
    (xs : List ℝ) (r : ℝ) (hr : r ∈ s) (hce : euLoss u [r] = euLoss u (x :: xs))
    (hmem : ∀ y ∈ x :: xs, y ∈ s) : minL x xs ≤ r ∧ r ≤ maxL x xs :=
  cash_eu_mem_range u s hu (x :: xs) (by simp) r hr hce _ _ (hmem _ (C12.minL_mem x xs))
    (hmem _ (C12.maxL_mem x xs)) (C12.minL_le x xs) (C12.maxL_ge x xs) hmem

/-- risk-averse (concave `u`): certainty equivalent ≤ mean (Jensen) -/
theorem cash_eu_le_mean (u : ℝ → ℝ) (s : Set ℝ) (hs : Convex ℝ s) (hu : StrictMonoOn u s)
    (hc : ConcaveOn ℝ s u) (xs : List ℝ) (hxs : xs ≠ []) (r : ℝ) (hr : r ∈ s)
    (hce : euLoss u [r] = euLoss u xs) (hmem : ∀ x ∈ xs, x ∈ s) :
    r ≤ xs.sum / xs.length := by
  rw [euLoss_ce_iff] at hce
  obtain ⟨h1, h2⟩ := mean_map_le_map_mean u s hs hc xs hxs hmem
  rw [← hu.le_iff_le hr h1, hce]
  exact h2

/-- the certainty equivalent is unique among admissible amounts -/
theorem cash_eu_unique (u : ℝ → ℝ) (s : Set ℝ) (hu : StrictMonoOn u s) (xs : List ℝ) (r r' : ℝ)
    (hr : r ∈ s) (hr' : r' ∈ s) (hce : euLoss u [r] = euLoss u xs)
    (hce' : euLoss u [r'] = euLoss u xs) : r = r' := by
  rw [euLoss_ce_iff] at hce hce'
  exact hu.injOn hr hr' (hce.trans hce'.symm)

/-- **isoelastic loss** on a positive sample (log branch: `0 < a ≤ 1`, in the code `a = 1`;
power branch `x^(1−a)`: `0 < a < 1`, strictness of the utility needs `a < 1`): a positive amount `r` with
`loss [r] = loss xs` lies between the worst and best outcome and does not exceed the mean -/
theorem cash_isoelastic_props (aIsOne : Bool) (a : ℝ) (ha0 : 0 < a)
    (ha1 : if aIsOne then a ≤ 1 else a < 1) (x : ℝ) (xs : List ℝ)
    (hpos : ∀ y ∈ x :: xs, 0 < y) (r : ℝ) (hr : 0 < r)
    (hce : isoelasticLoss aIsOne a [r] = isoelasticLoss aIsOne a (x :: xs)) :
    minL x xs ≤ r ∧ r ≤ maxL x xs ∧ r ≤ (x :: xs).sum / (x :: xs).length := by
  rw [isoelasticLoss_eq_euLoss, isoelasticLoss_eq_euLoss] at hce
  have hu : StrictMonoOn (isoelasticUtility aIsOne a) (Set.Ioi 0) := by
    cases aIsOne
    · simp only [Bool.false_eq_true, if_false] at ha1
      have := Real.strictMonoOn_rpow_Ici_of_exponent_pos (r := 1 - a) (by linarith)
      exact (this.mono Set.Ioi_subset_Ici_self).congr (fun y _ => by
        simp [isoelasticUtility, TranscPow.pow])
    · exact Real.strictMonoOn_log.congr (fun y _ => by simp [isoelasticUtility, Transc.log])
  have hc : ConcaveOn ℝ (Set.Ioi 0) (isoelasticUtility aIsOne a) := by
    cases aIsOne
    · simp only [Bool.false_eq_true, if_false] at ha1
      have := (Real.concaveOn_rpow (p := 1 - a) (by linarith) (by linarith)).subset
        Set.Ioi_subset_Ici_self (convex_Ioi 0)
      exact this.congr (fun y _ => by simp [isoelasticUtility, TranscPow.pow])
    · exact strictConcaveOn_log_Ioi.concaveOn.congr (fun y _ => by
        simp [isoelasticUtility, Transc.log])
  obtain ⟨h1, h2⟩ := cash_eu_mem_range_minmax _ _ hu x xs r hr hce hpos
  exact ⟨h1, h2, cash_eu_le_mean _ _ (convex_Ioi 0) hu hc (x :: xs) (by simp) r hr hce hpos⟩

/-- for the log utility the certainty equivalent exists and is the geometric mean
`exp(mean log x)` -/
theorem cash_isoelastic_log (a : ℝ) (xs : List ℝ) :
    isoelasticLoss true a [Real.exp ((xs.map Real.log).sum / xs.length)]
      = isoelasticLoss true a xs := by
  rw [(C04ERM.isoelasticLoss_eq_def a _).1, (C04ERM.isoelasticLoss_eq_def a xs).1]
  simp

/-! ### the default search (bisection) -/

/-- **default `cash`, sign-condition form.**  Let `g r = L [r]` be the criterion of the constant
sample, continuous on the bracket `[min − precision, max + precision]`, and let the target
`L xs` be bracketed by the values at the ends, in the increasing (`g lo ≤ L xs ≤ g up`) or in
the decreasing direction (`g up < g lo`, `g up ≤ L xs ≤ g lo`; risk-averse criteria decrease in
a constant payoff).  Whenever the default `cash` returns `c` (any `precision`, any `max_iter`)
there is an exact certainty equivalent `r` (`L [r] = L xs`) in the bracket with
`r ≤ c ≤ r + precision`. -/
theorem cash_default_spec (L : List ℝ → ℝ) (precision : ℝ) (maxIter : ℕ) (x : ℝ) (xs : List ℝ)
    (c : ℝ)
    (hcont : ContinuousOn (fun r => L [r])
      (Set.Icc (minL x xs - precision) (maxL x xs + precision)))
    (hrange : (L [minL x xs - precision] ≤ L (x :: xs) ∧ L (x :: xs) ≤ L [maxL x xs + precision])
      ∨ (L [maxL x xs + precision] < L [minL x xs - precision] ∧
          L [maxL x xs + precision] ≤ L (x :: xs) ∧ L (x :: xs) ≤ L [minL x xs - precision]))
    (hok : cashDefault L precision maxIter (x :: xs) = .ok c) :
    ∃ r, L [r] = L (x :: xs) ∧ r ≤ c ∧ c - r ≤ precision ∧ minL x xs - precision ≤ r ∧
      c ≤ maxL x xs + precision := by
  have hb := cashDefault_ok hok
  have hlt := cashDefault_bracket hok
  have hc : ∀ i (h1 : i < [minL x xs - precision].length)
      (h2 : i < [maxL x xs + precision].length),
      ContinuousOn ((fun (_ : ℕ) r => L [r]) i)
        (Set.Icc [minL x xs - precision][i] [maxL x xs + precision][i]) := by
    intro i h1 h2
    have hi : i = 0 := by simpa using h1
    subst hi
    simpa using hcont
  rcases hrange with ⟨ha, hb'⟩ | ⟨hd, ha, hb'⟩
  · obtain ⟨_, h⟩ := C19.bisect_increasing_spec 1 (fun _ r => L [r])
      (fun cs => cs.map (fun c => L [c])) [L (x :: xs)] [minL x xs - precision]
      [maxL x xs + precision] precision maxIter [c] rfl rfl rfl (hfn_const L) hc hlt
      (fun i h1 h2 h3 => by
        have hi : i = 0 := by simpa using h1
        subst hi
        exact ⟨by simpa using ha, by simpa using hb'⟩) hb
    obtain ⟨r, r1, r2, r3, r4, r5⟩ := h 0 (by simp) (by simp) (by simp) (by simp)
    exact ⟨r, by simpa using r4, by simpa using r2, by simpa using r5, by simpa using r1,
      by simpa using r3⟩
  · obtain ⟨_, h⟩ := C19.bisect_decreasing_spec 1 (fun _ r => L [r])
      (fun cs => cs.map (fun c => L [c])) [L (x :: xs)] [minL x xs - precision]
      [maxL x xs + precision] precision maxIter [c] rfl rfl rfl (hfn_const L) hc hlt
      (fun i h1 h2 => by
        have hi : i = 0 := by simpa using h1
        subst hi
        simpa using hd)
      (fun i h1 h2 h3 => by
        have hi : i = 0 := by simpa using h1
        subst hi
        exact ⟨by simpa using ha, by simpa using hb'⟩) hb
    obtain ⟨r, r1, r2, r3, r4, r5⟩ := h 0 (by simp) (by simp) (by simp) (by simp)
    exact ⟨r, by simpa using r4, by simpa using r2, by simpa using r5, by simpa using r1,
      by simpa using r3⟩

/-- **default `cash`, risk-averse criteria.**  If `r ↦ L [r]` is continuous and strictly
antitone on the bracket (a better constant payoff has strictly lower risk) and the target
`L xs` is attained at some `r₀` of the bracket (e.g. `min ≤ r₀ ≤ max`, which holds for every
monotone criterion that is constant-preserving), then `r₀` is THE certainty equivalent and the
reported cash `c` satisfies `r₀ ≤ c ≤ r₀ + precision`. -/
theorem cash_default_equiv (L : List ℝ → ℝ) (precision : ℝ) (maxIter : ℕ) (x : ℝ) (xs : List ℝ)
    (c r₀ : ℝ)
    (hcont : ContinuousOn (fun r => L [r])
      (Set.Icc (minL x xs - precision) (maxL x xs + precision)))
    (hanti : StrictAntiOn (fun r => L [r])
      (Set.Icc (minL x xs - precision) (maxL x xs + precision)))
    (hr₀ : r₀ ∈ Set.Icc (minL x xs - precision) (maxL x xs + precision))
    (hroot : L [r₀] = L (x :: xs))
    (hok : cashDefault L precision maxIter (x :: xs) = .ok c) :
    L [r₀] = L (x :: xs) ∧ r₀ ≤ c ∧ c - r₀ ≤ precision ∧ minL x xs - precision ≤ r₀ ∧
      c ≤ maxL x xs + precision := by
  have hlt := (allLt_singleton _ _).1 (cashDefault_bracket hok)
  have hlo : minL x xs - precision ∈ Set.Icc (minL x xs - precision) (maxL x xs + precision) :=
    Set.left_mem_Icc.2 hlt.le
  have hup : maxL x xs + precision ∈ Set.Icc (minL x xs - precision) (maxL x xs + precision) :=
    Set.right_mem_Icc.2 hlt.le
  have h1 : L [maxL x xs + precision] ≤ L [r₀] := hanti.antitoneOn hr₀ hup hr₀.2
  have h2 : L [r₀] ≤ L [minL x xs - precision] := hanti.antitoneOn hlo hr₀ hr₀.1
  obtain ⟨r, e, a1, a2, a3, a4⟩ := cash_default_spec L precision maxIter x xs c hcont
    (Or.inr ⟨hanti hlo hup hlt, hroot ▸ h1, hroot ▸ h2⟩) hok
  have hr : r ∈ Set.Icc (minL x xs - precision) (maxL x xs + precision) :=
    ⟨a3, by linarith⟩
  have : r = r₀ := hanti.injOn hr hr₀ (e.trans hroot.symm)
  subst this
  exact ⟨hroot, a1, a2, a3, a4⟩

/-- the same for a criterion that is strictly increasing in a constant payoff -/
theorem cash_default_equiv_mono (L : List ℝ → ℝ) (precision : ℝ) (maxIter : ℕ) (x : ℝ)
    (xs : List ℝ) (c r₀ : ℝ)
    (hcont : ContinuousOn (fun r => L [r])
      (Set.Icc (minL x xs - precision) (maxL x xs + precision)))
    (hmono : StrictMonoOn (fun r => L [r])
      (Set.Icc (minL x xs - precision) (maxL x xs + precision)))
    (hr₀ : r₀ ∈ Set.Icc (minL x xs - precision) (maxL x xs + precision))
    (hroot : L [r₀] = L (x :: xs))
    (hok : cashDefault L precision maxIter (x :: xs) = .ok c) :
    L [r₀] = L (x :: xs) ∧ r₀ ≤ c ∧ c - r₀ ≤ precision ∧ minL x xs - precision ≤ r₀ ∧
      c ≤ maxL x xs + precision := by
  have hlt := (allLt_singleton _ _).1 (cashDefault_bracket hok)
  have hlo : minL x xs - precision ∈ Set.Icc (minL x xs - precision) (maxL x xs + precision) :=
    Set.left_mem_Icc.2 hlt.le
  have hup : maxL x xs + precision ∈ Set.Icc (minL x xs - precision) (maxL x xs + precision) :=
    Set.right_mem_Icc.2 hlt.le
  have h1 : L [r₀] ≤ L [maxL x xs + precision] := hmono.monotoneOn hr₀ hup hr₀.2
  have h2 : L [minL x xs - precision] ≤ L [r₀] := hmono.monotoneOn hlo hr₀ hr₀.1
  obtain ⟨r, e, a1, a2, a3, a4⟩ := cash_default_spec L precision maxIter x xs c hcont
    (Or.inl ⟨hroot ▸ h2, hroot ▸ h1⟩) hok
  have hr : r ∈ Set.Icc (minL x xs - precision) (maxL x xs + precision) :=
    ⟨a3, by linarith⟩
  have : r = r₀ := hmono.injOn hr hr₀ (e.trans hroot.symm)
  subst this
  exact ⟨hroot, a1, a2, a3, a4⟩

/-- with a positive `precision` the bracket of the default search is non-degenerate on every
non-empty sample — in particular on a constant sample, where `min = max` — so the bracket check
of `bisect` passes (no `ValueError`) -/
theorem cash_default_bracket_ok (precision : ℝ) (hp : 0 < precision) (x : ℝ) (xs : List ℝ) :
    allLt [minL x xs - precision] [maxL x xs + precision] = true := by
  rw [allLt_singleton]
  linarith [minL_le_maxL x xs]

/-- **the default search returns**: with a positive `precision` and enough iterations to halve
the initial width `max − min + 2·precision` down to `precision` (the code: `max_iter = 100`),
`cash` returns a value on every non-empty sample, for every criterion whatsoever -/
theorem cash_default_returns (L : List ℝ → ℝ) (precision : ℝ) (hp : 0 < precision)
    (maxIter : ℕ) (x : ℝ) (xs : List ℝ)
    (hiter : (maxL x xs + precision - (minL x xs - precision)) / 2 ^ maxIter ≤ precision) :
    ∃ c, cashDefault L precision maxIter (x :: xs) = .ok c := by
  obtain ⟨res, hres⟩ := C19.bisect_ok_of_maxIter 1 (fun _ r => L [r])
    (fun cs => cs.map (fun c => L [c])) [L (x :: xs)] [minL x xs - precision]
    [maxL x xs + precision] precision maxIter _ rfl rfl rfl (hfn_const L)
    (cash_default_bracket_ok precision hp x xs) (by simp [maxWidth, maxL]) hiter
  have hlen := bisect_length 1 (fun _ r => L [r]) (fun cs => cs.map (fun c => L [c]))
    [L (x :: xs)] [minL x xs - precision] [maxL x xs + precision] precision maxIter res
    rfl rfl rfl (hfn_const L) hres
  match res, hlen with
  | [c], _ =>
    refine ⟨c, ?_⟩
    unfold cashDefault
    simp only [hres]

/-- the constant-sample instance: for `replicate (n+1) c₀` the bracket is
`[c₀ − precision, c₀ + precision]` -/
theorem cash_default_const (precision : ℝ) (hp : 0 < precision) (c₀ : ℝ) (n : ℕ) :
    minL c₀ (List.replicate n c₀) = c₀ ∧ maxL c₀ (List.replicate n c₀) = c₀ ∧
    allLt [minL c₀ (List.replicate n c₀) - precision] [maxL c₀ (List.replicate n c₀) + precision]
      = true := by
  have hmem : ∀ y ∈ c₀ :: List.replicate n c₀, y = c₀ := by
    intro y hy
    rcases List.mem_cons.1 hy with h | h
    · exact h
    · exact List.eq_of_mem_replicate h
  exact ⟨hmem _ (C12.minL_mem _ _), hmem _ (C12.maxL_mem _ _),
    cash_default_bracket_ok precision hp _ _⟩

/-- conversely a non-positive `precision` on a constant sample is rejected with `ValueError`
(never a wrong value) -/
theorem cash_default_const_bad (L : List ℝ → ℝ) (precision : ℝ) (hp : precision ≤ 0)
    (maxIter : ℕ) (c₀ : ℝ) (n : ℕ) :
    cashDefault L precision maxIter (c₀ :: List.replicate n c₀) = .error .valueError := by
  have hmem : ∀ y ∈ c₀ :: List.replicate n c₀, y = c₀ := by
    intro y hy
    rcases List.mem_cons.1 hy with h | h
    · exact h
    · exact List.eq_of_mem_replicate h
  have h1 := hmem _ (C12.minL_mem c₀ (List.replicate n c₀))
  have h2 := hmem _ (C12.maxL_mem c₀ (List.replicate n c₀))
  unfold cashDefault
  simp only
  rw [C19.bisect_bad_bracket_elem _ _ _ _ _ _ 0 (by simp) (by simp)
    (by simp only [List.getElem_cons_zero]; rw [h1, h2]; linarith)]

/-! ### translation equivariance of the closed-form cash amounts -/

theorem cash_erm_equivariant (a : ℝ) (ha : a ≠ 0) (xs : List ℝ) (hxs : xs ≠ []) (c : ℝ) :
    cashNeg (ermR a) (xs.map (fun x => x - c)) = cashNeg (ermR a) xs - c := by
  simp only [cashNeg]
  rw [map_sub_eq_map_add_neg, C04ERM.erm_cash a ha xs hxs (-c)]
  ring

theorem cash_es_equivariant {k : ℕ} (xs : List ℝ) (hk1 : 1 ≤ k) (hk : k ≤ xs.length) (c : ℝ) :
    cashNeg (es k) (xs.map (fun x => x - c)) = cashNeg (es k) xs - c := by
  simp only [cashNeg]
  rw [map_sub_eq_map_add_neg, C04ES.es_cash (-c) hk1 hk]
  ring

theorem cash_eloss_equivariant (a : ℝ) (ha : a ≠ 0) (xs : List ℝ) (hxs : xs ≠ []) (c : ℝ) :
    entropicLossCash a (xs.map (fun x => x - c)) = entropicLossCash a xs - c := by
  rw [entropicLossCash_eq, entropicLossCash_eq]
  exact cash_erm_equivariant a ha xs hxs c

theorem cash_qcvar_equivariant (lam : ℝ) (hl : 0 < lam) (xs : List ℝ) (hxs : xs ≠ []) (c : ℝ) :
    cashNeg (qcvarR lam) (xs.map (fun x => x - c)) = cashNeg (qcvarR lam) xs - c := by
  simp only [cashNeg]
  rw [map_sub_eq_map_add_neg, C04ERM.qcvar_cash lam hl xs hxs (-c)]
  ring

/-! ### the price -/

/-- `Hedger.price` is minus the cash amount of (portfolio − payoff) -/
theorem price_eq_def (cash : List ℝ → ℝ) (portfolio payoff : List ℝ) :
    priceOf cash portfolio payoff
      = -(cash (List.zipWith (fun p z => p - z) portfolio payoff)) := rfl

/-- **adding a constant `k` to the payoff raises the price by exactly `k`**, for every cash
amount that is translation equivariant on samples of the given length `N` -/
theorem price_shift {N : ℕ} (cash : List ℝ → ℝ)
    (hcash : ∀ (xs : List ℝ) (c : ℝ), xs.length = N →
      cash (xs.map (fun x => x - c)) = cash xs - c)
    (portfolio payoff : List ℝ) (hp : portfolio.length = N) (hz : payoff.length = N) (k : ℝ) :
    priceOf cash portfolio (payoff.map (· + k)) = priceOf cash portfolio payoff + k := by
  unfold priceOf
  have e : List.zipWith (fun p z => p - z) portfolio (payoff.map (· + k))
      = (List.zipWith (fun p z => p - z) portfolio payoff).map (fun x => x - k) := by
    rw [List.zipWith_map_right, List.map_zipWith]
    congr 1
    funext p z
    ring
  rw [e, hcash _ k (by simp [hp, hz])]
  ring

/-- entropic risk measure -/
theorem price_shift_erm (a : ℝ) (ha : a ≠ 0) (portfolio payoff : List ℝ)
    (hne : portfolio ≠ []) (hlen : portfolio.length = payoff.length) (k : ℝ) :
    priceOf (cashNeg (ermR a)) portfolio (payoff.map (· + k))
      = priceOf (cashNeg (ermR a)) portfolio payoff + k :=
  price_shift (N := portfolio.length) _
    (fun xs c h => cash_erm_equivariant a ha xs
      (by rintro rfl; exact hne (List.length_eq_zero_iff.1 h.symm)) c)
    portfolio payoff rfl hlen.symm k

/-- expected shortfall (`1 ≤ k ≤ N`) -/
theorem price_shift_es {k : ℕ} (portfolio payoff : List ℝ) (hk1 : 1 ≤ k)
    (hk : k ≤ portfolio.length) (hlen : portfolio.length = payoff.length) (c : ℝ) :
    priceOf (cashNeg (es k)) portfolio (payoff.map (· + c))
      = priceOf (cashNeg (es k)) portfolio payoff + c :=
  price_shift (N := portfolio.length) _
    (fun xs c h => cash_es_equivariant xs hk1 (h ▸ hk) c)
    portfolio payoff rfl hlen.symm c

/-- entropic loss -/
theorem price_shift_eloss (a : ℝ) (ha : a ≠ 0) (portfolio payoff : List ℝ)
    (hne : portfolio ≠ []) (hlen : portfolio.length = payoff.length) (k : ℝ) :
    priceOf (entropicLossCash a) portfolio (payoff.map (· + k))
      = priceOf (entropicLossCash a) portfolio payoff + k :=
  price_shift (N := portfolio.length) _
    (fun xs c h => cash_eloss_equivariant a ha xs
      (by rintro rfl; exact hne (List.length_eq_zero_iff.1 h.symm)) c)
    portfolio payoff rfl hlen.symm k

/-- quadratic CVaR -/
theorem price_shift_qcvar (lam : ℝ) (hl : 0 < lam) (portfolio payoff : List ℝ)
    (hne : portfolio ≠ []) (hlen : portfolio.length = payoff.length) (k : ℝ) :
    priceOf (cashNeg (qcvarR lam)) portfolio (payoff.map (· + k))
      = priceOf (cashNeg (qcvarR lam)) portfolio payoff + k :=
  price_shift (N := portfolio.length) _
    (fun xs c h => cash_qcvar_equivariant lam hl xs
      (by rintro rfl; exact hne (List.length_eq_zero_iff.1 h.symm)) c)
    portfolio payoff rfl hlen.symm k

/-- **for the entropic risk measure the price equals the loss** -/
theorem price_erm_eq_loss (a : ℝ) (portfolio payoff : List ℝ) :
    priceOf (cashNeg (ermR a)) portfolio payoff
      = ermR a (List.zipWith (fun p z => p - z) portfolio payoff) := by
  simp [priceOf, cashNeg]

/-- the same for every criterion whose `cash` is the closed form `−loss` (expected shortfall,
quadratic CVaR) -/
theorem price_cashNeg_eq_loss (L : List ℝ → ℝ) (portfolio payoff : List ℝ) :
    priceOf (cashNeg L) portfolio payoff
      = L (List.zipWith (fun p z => p - z) portfolio payoff) := by
  simp [priceOf, cashNeg]

/-- **the isoelastic certainty equivalent is NOT translation equivariant**: with `u = log`
(`a = 1`) the certainty equivalent of `[1, 4]` is `2` (`log 2 = (log 1 + log 4)/2`), that of the
shifted sample `[6, 9]` is `√54 ≠ 2 + 5`.  The two certainty equivalents are the unique positive
solutions of `loss [c] = loss xs` (`log` is injective on positives), so price-shift equivariance
is mathematically impossible for this criterion. -/
theorem isoelastic_not_shift_equivariant :
    ∃ (xs : List ℝ) (k c c' : ℝ), (∀ x ∈ xs, 0 < x) ∧ 0 < c ∧ 0 < c' ∧
      isoelasticLoss true 1 [c] = isoelasticLoss true 1 xs ∧
      isoelasticLoss true 1 [c'] = isoelasticLoss true 1 (xs.map (· + k)) ∧
      c' ≠ c + k := by
  refine ⟨[1, 4], 5, 2, Real.sqrt 54, by simp, by norm_num, by positivity, ?_, ?_, ?_⟩
  · rw [(C04ERM.isoelasticLoss_eq_def 1 _).1, (C04ERM.isoelasticLoss_eq_def 1 _).1]
    have h4 : Real.log 4 = 2 * Real.log 2 := by
      rw [show (4 : ℝ) = 2 ^ 2 by norm_num, Real.log_pow]; norm_num
    simp [h4]
  · rw [(C04ERM.isoelasticLoss_eq_def 1 _).1, (C04ERM.isoelasticLoss_eq_def 1 _).1]
    have h54 : Real.log 6 + Real.log 9 = Real.log 54 := by
      rw [← Real.log_mul (by norm_num) (by norm_num)]; norm_num
    have hs : Real.log (Real.sqrt 54) = Real.log 54 / 2 := Real.log_sqrt (by norm_num)
    simp only [List.map_cons, List.map_nil, List.sum_cons, List.sum_nil, List.length_cons,
      List.length_nil, hs]
    norm_num
    linarith
  · intro h
    have := Real.sq_sqrt (show (0 : ℝ) ≤ 54 by norm_num)
    rw [h] at this
    norm_num at this

/-! ### `ensemble_mean` -/

/-- `n_times = 1`: the single evaluation is returned as is -/
theorem ensembleMean_single (x : ℝ) : ensembleMean [x] = .ok x := rfl

/-- otherwise the mean of the evaluations (for one evaluation the mean is that evaluation, so
the formula holds for every non-empty stack) -/
theorem ensembleMean_mean (xs : List ℝ) (hxs : xs ≠ []) :
    ensembleMean xs = .ok (xs.sum / xs.length) := by
  match xs, hxs with
  | [x], _ => simp [ensembleMean]
  | x :: y :: t, _ => simp [ensembleMean, _root_.PfVerif.sumL_eq_sum]

/-- no evaluation: an error, never a default -/
theorem ensembleMean_nil : ensembleMean ([] : List ℝ) = .error .runtimeError := rfl

/-- a price averaged over evaluations shifts by `k` when every evaluation does -/
theorem ensembleMean_shift (xs : List ℝ) (hxs : xs ≠ []) (k : ℝ) :
    ensembleMean (xs.map (· + k)) = .ok (xs.sum / xs.length + k) := by
  rw [ensembleMean_mean _ (by simpa using hxs), sum_map_add_const]
  have hN := length_pos_real xs hxs
  congr 1
  simp only [List.length_map]
  field_simp

/-! ### non-vacuity -/

/-- the default search on a concrete risk-averse criterion (`L xs = −mean`, so `L [r] = −r`,
strictly antitone): sample `[0, 1]`, `precision = 1`, bracket `[−1, 2]`; the code takes the
decreasing direction, two iterations, returns `1/2` = the exact certainty equivalent -/
example : cashDefault (fun ys : List ℝ => -(ys.sum / ys.length)) 1 10 [0, 1] = .ok (1 / 2) := by
  norm_num [cashDefault, bisect, allLt, bisectLoop, maxWidth, maxL, minL, bisectStep]

/-- the hypotheses of `cash_default_equiv` are jointly satisfiable on that instance (continuous,
strictly antitone, exact certainty equivalent `r₀ = 1/2` in the bracket), and its conclusion -/
example : (1 / 2 : ℝ) ≤ 1 / 2 ∧ (1 / 2 : ℝ) - 1 / 2 ≤ 1 := by
  have h := cash_default_equiv (fun ys : List ℝ => -(ys.sum / ys.length)) 1 10 0 [1] (1 / 2)
    (1 / 2) (by simp only [List.sum_cons, List.sum_nil, List.length_cons, List.length_nil]
                fun_prop)
    (by intro a _ b _ hab; simpa using hab)
    (by norm_num [minL, maxL]) (by norm_num)
    (by norm_num [cashDefault, bisect, allLt, bisectLoop, maxWidth, maxL, minL, bisectStep])
  exact ⟨h.2.1, h.2.2.1⟩

/-- prices on a concrete sample: `priceOf` with the expected-shortfall cash, `k = 1` of `N = 2`:
portfolio − payoff = `[−1, −3]`, worst outcome `−3`, price `3` -/
example : priceOf (cashNeg (es 1)) [(1 : ℝ), 0] [2, 3] = 3 := by
  have hs : sortL [(-1 : ℝ), -3] = [-3, -1] :=
    sortL_eq_of_perm_pairwise (List.Perm.swap _ _ _) (by simp)
  rw [price_cashNeg_eq_loss]
  norm_num [C04ES.es_eq, hs]

/-- the stabilised evaluation of `EntropicLoss.cash` used by the code after the F7 repair
(`-entropic_risk_measure`) equals the documented closed form `-log(mean exp(-a x))/a` -/
theorem entropicLossCashStable_eq (a : ℝ) (xs : List ℝ) (hxs : xs ≠ []) :
    entropicLossCashStable a xs = .ok (entropicLossCash a xs) := by
  unfold entropicLossCashStable
  rw [C04ERM.erm_eq_def a xs hxs, C06Aux.entropicLossCash_eq]
  rfl

/-- hypotheses of `cash_mem_range` / `cash_le_mean` are satisfiable -/
example : (1 : ℕ) ≤ 2 ∧ 2 ≤ ([(3 : ℝ), 1, 1, 2]).length ∧ [(3 : ℝ), 1, 1, 2] ≠ [] := by
  simp

end PfVerif.C06
