/-
  C04 — Risk measures obey the convex-risk-measure axioms.
  Property theorems re-exported (as kernel-checked aliases, same statements) from
  Lemmas/C04ES.lean (expected shortfall; order statistics) and Lemmas/C04ERM.lean (entropic
  risk, quadratic CVaR, utility losses), which were proved against Model/Risk.lean at ℝ.
-/
import PfVerif.Lemmas.C04ES
import PfVerif.Lemmas.C04ERM
import Batteries.Tactic.Alias

namespace PfVerif.C04

alias entropicLoss_antitone := PfVerif.C04ERM.entropicLoss_antitone
alias entropicLoss_convex := PfVerif.C04ERM.entropicLoss_convex
alias erm_bounds := PfVerif.C04ERM.erm_bounds
alias erm_cash := PfVerif.C04ERM.erm_cash
alias erm_const := PfVerif.C04ERM.erm_const
alias erm_convex := PfVerif.C04ERM.erm_convex
alias erm_ge_neg_mean := PfVerif.C04ERM.erm_ge_neg_mean
alias erm_mono := PfVerif.C04ERM.erm_mono
alias erm_mono_a := PfVerif.C04ERM.erm_mono_a
alias isoelasticLoss_antitone := PfVerif.C04ERM.isoelasticLoss_antitone
alias isoelasticLoss_convex := PfVerif.C04ERM.isoelasticLoss_convex
alias isoelasticUtility_concave := PfVerif.C04ERM.isoelasticUtility_concave
alias isoelasticUtility_mono := PfVerif.C04ERM.isoelasticUtility_mono
alias qObj_antitone_sample := PfVerif.C04ERM.qObj_antitone_sample
alias qObj_bddBelow := PfVerif.C04ERM.qObj_bddBelow
alias qObj_bddBelow_maxL := PfVerif.C04ERM.qObj_bddBelow_maxL
alias qObj_jointly_convex := PfVerif.C04ERM.qObj_jointly_convex
alias qObj_range_bddBelow := PfVerif.C04ERM.qObj_range_bddBelow
alias qObj_shift := PfVerif.C04ERM.qObj_shift
alias qcvar_bounds := PfVerif.C04ERM.qcvar_bounds
alias qcvar_cash := PfVerif.C04ERM.qcvar_cash
alias qcvar_const := PfVerif.C04ERM.qcvar_const
alias qcvar_convex := PfVerif.C04ERM.qcvar_convex
alias qcvar_mono := PfVerif.C04ERM.qcvar_mono
alias es_antitone_level := PfVerif.C04ES.es_antitone_level
alias es_bounds := PfVerif.C04ES.es_bounds
alias es_cash := PfVerif.C04ES.es_cash
alias es_const := PfVerif.C04ES.es_const
alias es_convex := PfVerif.C04ES.es_convex
alias es_ge_neg_mean := PfVerif.C04ES.es_ge_neg_mean
alias es_mono := PfVerif.C04ES.es_mono
alias es_mono_forall₂ := PfVerif.C04ES.es_mono_forall₂
alias es_pos_hom := PfVerif.C04ES.es_pos_hom

end PfVerif.C04
