/-
  C14 — The gradient of the hedging loss obtained by back-propagation equals the derivative
  of the loss as a function of the parameters.

  The executable model is generic in the scalar.  Instantiated at `Dual ℝ` (Inst/Dual.lean) it
  carries a derivative along with every value; the harness runs the same instantiation at
  `Dual Float` and compares the ε-part with `torch.autograd.grad`.  The theorems below say that
  the ε-part of the model at `Dual ℝ` IS the derivative of the model at `ℝ` as a function of the
  parameter `θ` (`Tracks D f θ : D.val = f θ ∧ HasDerivAt f D.eps θ`, Lemmas/DualCalc.lean), at
  generic points: away from the kinks of `|·|` (transaction costs), `relu` and ties of sorting.
-/
import PfVerif.Lemmas.DualCalc
import PfVerif.Model.Hedger
import PfVerif.Model.Risk
import PfVerif.Lemmas.C04ERM
import PfVerif.Lemmas.OrderStat

namespace PfVerif.C14Aux
open PfVerif

variable {θ : ℝ}

/-! ### generic `zipWith` / `zipWith3L` over related lists -/

theorem tracksL_zipWith_rel {α α' β β' : Type} {R1 : α → α' → Prop} {R2 : β → β' → Prop}
    {op : α → β → Dual ℝ} {opF : α' → β' → ℝ → ℝ}
    (hop : ∀ a a' b b', R1 a a' → R2 b b' → Tracks (op a b) (opF a' b') θ)
    {as : List α} {as' : List α'} {bs : List β} {bs' : List β'}
    (ha : List.Forall₂ R1 as as') (hb : List.Forall₂ R2 bs bs') :
    TracksL (List.zipWith op as bs) (List.zipWith opF as' bs') θ := by
  induction ha generalizing bs bs' with
  | nil => simp only [List.zipWith_nil_left]; exact TracksL.nil
  | cons h _ ih =>
    cases hb with
    | nil => simp only [List.zipWith_nil_right]; exact TracksL.nil
    | cons h' hb' => exact TracksL.cons (hop _ _ _ _ h h') (ih hb')

theorem tracksL_zipWith3L_rel {α α' β β' γ γ' : Type} {R1 : α → α' → Prop} {R2 : β → β' → Prop}
    {R3 : γ → γ' → Prop} {op : α → β → γ → Dual ℝ} {opF : α' → β' → γ' → ℝ → ℝ}
    (hop : ∀ a a' b b' c c', R1 a a' → R2 b b' → R3 c c' → Tracks (op a b c) (opF a' b' c') θ)
    {as : List α} {as' : List α'} {bs : List β} {bs' : List β'} {cs : List γ} {cs' : List γ'}
    (ha : List.Forall₂ R1 as as') (hb : List.Forall₂ R2 bs bs') (hc : List.Forall₂ R3 cs cs') :
    TracksL (zipWith3L op as bs cs) (zipWith3L opF as' bs' cs') θ := by
  induction ha generalizing bs bs' cs cs' with
  | nil => simp only [zipWith3L]; exact TracksL.nil
  | cons h _ ih =>
    cases hb with
    | nil => simp only [zipWith3L]; exact TracksL.nil
    | cons h' hb' =>
      cases hc with
      | nil => simp only [zipWith3L]; exact TracksL.nil
      | cons h'' hc' => exact TracksL.cons (hop _ _ _ _ _ _ h h' h'') (ih hb' hc')

theorem evalL_zipWith_rel {α' β' A B : Type} (opF : α' → β' → ℝ → ℝ) (opR : A → B → ℝ)
    (e1 : α' → A) (e2 : β' → B) (t : ℝ)
    (h : ∀ a b, opF a b t = opR (e1 a) (e2 b)) (as : List α') (bs : List β') :
    evalL (List.zipWith opF as bs) t = List.zipWith opR (as.map e1) (bs.map e2) := by
  induction as generalizing bs with
  | nil => simp
  | cons a as ih => cases bs with
    | nil => simp
    | cons b bs => simp only [List.zipWith_cons_cons, List.map_cons, evalL, h] at ih ⊢; rw [ih]

theorem evalL_zipWith3L_rel {α' β' γ' A B C : Type} (opF : α' → β' → γ' → ℝ → ℝ)
    (opR : A → B → C → ℝ) (e1 : α' → A) (e2 : β' → B) (e3 : γ' → C) (t : ℝ)
    (h : ∀ a b c, opF a b c t = opR (e1 a) (e2 b) (e3 c))
    (as : List α') (bs : List β') (cs : List γ') :
    evalL (zipWith3L opF as bs cs) t = zipWith3L opR (as.map e1) (bs.map e2) (cs.map e3) := by
  induction as generalizing bs cs with
  | nil => simp [zipWith3L]
  | cons a as ih => cases bs with
    | nil => simp [zipWith3L]
    | cons b bs => cases cs with
      | nil => simp [zipWith3L]
      | cons c cs => simp only [zipWith3L, List.map_cons, evalL, h] at ih ⊢; rw [ih]

theorem forall₂_and_right {α β : Type} {R : α → β → Prop} {P : β → Prop} {as : List α}
    {bs : List β} (h : List.Forall₂ R as bs) (hP : ∀ b ∈ bs, P b) :
    List.Forall₂ (fun a b => R a b ∧ P b) as bs := by
  induction h with
  | nil => exact List.Forall₂.nil
  | cons h _ ih =>
    exact List.Forall₂.cons ⟨h, hP _ List.mem_cons_self⟩
      (ih fun b hb => hP b (List.mem_cons_of_mem _ hb))

/-! ### the P&L of one instrument -/

/-- trading gains: no kink -/
theorem tracks_gains1 {Sd U : List (Dual ℝ)} {ss us : List (ℝ → ℝ)}
    (hs : TracksL Sd ss θ) (hu : TracksL U us θ) :
    Tracks (gains1 Sd U) (fun t => gains1 (evalL ss t) (evalL us t)) θ :=
  ((hu.initL).mulL hs.diffL).sumL.congr fun t => by
    unfold gains1; rw [evalL_mulL, evalL_initL, evalL_diffL]

/-- no position change of the series is exactly zero at `θ` -/
def NoKink (us : List (ℝ → ℝ)) (θ : ℝ) : Prop := ∀ d ∈ diffL (evalL us θ), d ≠ 0

/-- the initial position is not exactly zero at `θ` -/
def NoKink0 (us : List (ℝ → ℝ)) (θ : ℝ) : Prop := ∀ u0 ∈ (evalL us θ).head?, u0 ≠ 0

/-- proportional cost of the position changes: away from the kinks of `|·|` -/
theorem tracks_cost1 {C : Dual ℝ} {cf : ℝ → ℝ} {Sd U : List (Dual ℝ)} {ss us : List (ℝ → ℝ)}
    (hc : Tracks C cf θ) (hs : TracksL Sd ss θ) (hu : TracksL U us θ) (hk : NoKink us θ) :
    Tracks (cost1 C Sd U) (fun t => cost1 (cf t) (evalL ss t) (evalL us t)) θ := by
  have h := TracksL.zipWith (θ := θ) (op := fun sp du => sp * absS du * C)
    (opF := fun f g t => f t * absS (g t) * cf t) (P := fun g => g θ ≠ 0)
    (fun _ _ _ _ h1 h2 h0 => (h1.mul (h2.absS h0)).mul hc) hs.tailL hu.diffL (by
      intro g hg
      apply hk
      rw [← evalL_diffL]
      exact List.mem_map_of_mem hg)
  refine h.sumL.congr fun t => ?_
  unfold cost1
  rw [evalL_zipWith_dep (fun t x y => x * absS y * cf t), evalL_tailL, evalL_diffL]

/-- proportional cost of the initial position -/
theorem tracks_first1 {C : Dual ℝ} {cf : ℝ → ℝ} {Sd U : List (Dual ℝ)} {ss us : List (ℝ → ℝ)}
    (hc : Tracks C cf θ) (hs : TracksL Sd ss θ) (hu : TracksL U us θ) (hk : NoKink0 us θ) :
    Tracks (first1 C Sd U) (fun t => first1 (cf t) (evalL ss t) (evalL us t)) θ := by
  cases hs with
  | nil => exact tracks_zero
  | cons hs0 _ =>
    cases hu with
    | nil => exact tracks_zero
    | @cons _ u0 _ _ hu0 _ =>
      have h0 : u0 θ ≠ 0 := hk _ (by simp [evalL])
      exact (hs0.mul (hu0.absS h0)).mul hc

/-! ### the P&L of one path, `H` instruments -/

/-- optional tracked scalar (the payoff) -/
def TracksOpt (Z : Option (Dual ℝ)) (z : Option (ℝ → ℝ)) (θ : ℝ) : Prop :=
  match Z, z with
  | none, none => True
  | some D, some f => Tracks D f θ
  | _, _ => False

/-- optional tracked list (the cost rates) -/
def TracksOptL (C : Option (List (Dual ℝ))) (c : Option (List (ℝ → ℝ))) (θ : ℝ) : Prop :=
  match C, c with
  | none, none => True
  | some D, some f => TracksL D f θ
  | _, _ => False

theorem tracks_sum_gains {Sp Un : List (List (Dual ℝ))} {sps uns : List (List (ℝ → ℝ))}
    (hS : TracksLL Sp sps θ) (hU : TracksLL Un uns θ) :
    Tracks (sumL (List.zipWith gains1 Sp Un))
      (fun t => sumL (List.zipWith gains1 (evalLL sps t) (evalLL uns t))) θ := by
  have h := tracksL_zipWith_rel (θ := θ) (op := gains1)
    (opF := fun ss us t => gains1 (evalL ss t) (evalL us t))
    (fun _ _ _ _ h1 h2 => tracks_gains1 h1 h2) hS hU
  refine h.sumL.congr fun t => ?_
  rw [evalL_zipWith_rel _ gains1 (fun r => evalL r t) (fun r => evalL r t) t (fun _ _ => rfl)]

theorem tracks_sum_cost {Cd : List (Dual ℝ)} {cfs : List (ℝ → ℝ)}
    {Sp Un : List (List (Dual ℝ))} {sps uns : List (List (ℝ → ℝ))}
    (hC : TracksL Cd cfs θ) (hS : TracksLL Sp sps θ) (hU : TracksLL Un uns θ)
    (hk : ∀ us ∈ uns, NoKink us θ) :
    Tracks (sumL (zipWith3L cost1 Cd Sp Un))
      (fun t => sumL (zipWith3L cost1 (evalL cfs t) (evalLL sps t) (evalLL uns t))) θ := by
  have h := tracksL_zipWith3L_rel (θ := θ) (op := cost1)
    (opF := fun cf ss us t => cost1 (cf t) (evalL ss t) (evalL us t))
    (R1 := fun D f => Tracks D f θ) (R2 := fun D f => TracksL D f θ)
    (R3 := fun U us => TracksL U us θ ∧ NoKink us θ)
    (fun _ _ _ _ _ _ h1 h2 h3 => tracks_cost1 h1 h2 h3.1 h3.2) hC hS (forall₂_and_right hU hk)
  refine h.sumL.congr fun t => ?_
  rw [evalL_zipWith3L_rel _ cost1 (fun f => f t) (fun r => evalL r t) (fun r => evalL r t) t
    (fun _ _ _ => rfl)]

theorem tracks_sum_first {Cd : List (Dual ℝ)} {cfs : List (ℝ → ℝ)}
    {Sp Un : List (List (Dual ℝ))} {sps uns : List (List (ℝ → ℝ))}
    (hC : TracksL Cd cfs θ) (hS : TracksLL Sp sps θ) (hU : TracksLL Un uns θ)
    (hk : ∀ us ∈ uns, NoKink0 us θ) :
    Tracks (sumL (zipWith3L first1 Cd Sp Un))
      (fun t => sumL (zipWith3L first1 (evalL cfs t) (evalLL sps t) (evalLL uns t))) θ := by
  have h := tracksL_zipWith3L_rel (θ := θ) (op := first1)
    (opF := fun cf ss us t => first1 (cf t) (evalL ss t) (evalL us t))
    (R1 := fun D f => Tracks D f θ) (R2 := fun D f => TracksL D f θ)
    (R3 := fun U us => TracksL U us θ ∧ NoKink0 us θ)
    (fun _ _ _ _ _ _ h1 h2 h3 => tracks_first1 h1 h2 h3.1 h3.2) hC hS (forall₂_and_right hU hk)
  refine h.sumL.congr fun t => ?_
  rw [evalL_zipWith3L_rel _ first1 (fun f => f t) (fun r => evalL r t) (fun r => evalL r t) t
    (fun _ _ _ => rfl)]

/-- **P&L, general form**: spots, positions, cost rates and payoff may all depend on the
parameter.  With costs: away from the kinks of the cost terms. -/
theorem plPath_tracks {Sp Un : List (List (Dual ℝ))} {sps uns : List (List (ℝ → ℝ))}
    {C : Option (List (Dual ℝ))} {cs : Option (List (ℝ → ℝ))}
    {Z : Option (Dual ℝ)} {z : Option (ℝ → ℝ)} (first : Bool)
    (hS : TracksLL Sp sps θ) (hU : TracksLL Un uns θ) (hC : TracksOptL C cs θ)
    (hZ : TracksOpt Z z θ)
    (hk : C.isSome → ∀ us ∈ uns, NoKink us θ)
    (hk0 : C.isSome → first = true → ∀ us ∈ uns, NoKink0 us θ) :
    Tracks (plPath Sp Un C Z first)
      (fun t => plPath (evalLL sps t) (evalLL uns t) (cs.map (fun c => evalL c t))
        (z.map (fun f => f t)) first) θ := by
  have hg := tracks_sum_gains hS hU
  cases Z <;> cases z <;> simp only [TracksOpt] at hZ <;>
  cases C <;> cases cs <;> simp only [TracksOptL] at hC <;>
  cases first <;>
  simp only [plPath, Option.map_none, Option.map_some, Bool.false_eq_true, if_false, if_true] <;>
  first
  | exact hg
  | exact hg.sub hZ
  | exact hg.sub (tracks_sum_cost hC hS hU (hk rfl))
  | exact (hg.sub hZ).sub (tracks_sum_cost hC hS hU (hk rfl))
  | exact (hg.sub (tracks_sum_cost hC hS hU (hk rfl))).sub
      (tracks_sum_first hC hS hU (hk0 rfl rfl))
  | exact ((hg.sub hZ).sub (tracks_sum_cost hC hS hU (hk rfl))).sub
      (tracks_sum_first hC hS hU (hk0 rfl rfl))

/-! ### features of a market that does not depend on the parameter -/

/-- the market lifted by constants (ε = 0 everywhere) -/
def liftM (m : Market ℝ) : Market (Dual ℝ) :=
  { spot := m.spot.map lift, variance := m.variance.map lift, volatility := m.volatility.map lift,
    listed := m.listed.map lift, dt := lift m.dt, strike := lift m.strike,
    oracle := m.oracle.map lift }

def liftBase : BaseFeature ℝ → BaseFeature (Dual ℝ)
  | .moneyness l => .moneyness l
  | .maxMoneyness l => .maxMoneyness l
  | .timeToMaturity => .timeToMaturity
  | .volatility => .volatility
  | .variance => .variance
  | .spot l => .spot l
  | .underlierSpot l => .underlierSpot l
  | .barrier t u => .barrier (lift t) u
  | .zeros => .zeros
  | .ones => .ones
  | .empty => .empty
  | .prevHedge => .prevHedge

theorem idx_lift (xs : List ℝ) (i : ℕ) : idx (xs.map lift) i = Except.map lift (idx xs i) := by
  unfold idx
  rw [List.getElem?_map]
  cases xs[i]? <;> rfl

theorem logIf_lift (b : Bool) (x : ℝ) : logIf b (lift x) = lift (logIf b x) := by
  cases b
  · rfl
  · simp only [logIf, if_true]; exact lift_log x

theorem prefixMax_lift (xs : List ℝ) (i : ℕ) :
    prefixMax (xs.map lift) i = Except.map lift (prefixMax xs i) := by
  unfold prefixMax
  rw [← List.map_take]
  cases xs.take (i + 1) with
  | nil => rfl
  | cons y ys => simp only [List.map_cons, maxL_lift]; rfl

theorem prefixMin_lift (xs : List ℝ) (i : ℕ) :
    prefixMin (xs.map lift) i = Except.map lift (prefixMin xs i) := by
  unfold prefixMin
  rw [← List.map_take]
  cases xs.take (i + 1) with
  | nil => rfl
  | cons y ys => simp only [List.map_cons, minL_lift]; rfl

/-- **features are constants**: evaluating a state-independent feature on the lifted market
gives the lifted real value (ε = 0), whatever the `prev` buffers are -/
theorem getAt_lift (b : BaseFeature ℝ) (hb : b.stateDependent = false) (m : Market ℝ)
    (P : List (Dual ℝ)) (p : List ℝ) (i : ℕ) :
    (liftBase b).getAt (liftM m) P i = Except.map (List.map lift) (b.getAt m p i) := by
  cases b with
  | moneyness lg =>
    simp only [liftBase, BaseFeature.getAt, liftM, idx_lift]
    cases idx m.spot i <;> simp [Except.map, bind, Except.bind, pure, Except.pure, logIf_lift]
  | maxMoneyness lg =>
    simp only [liftBase, BaseFeature.getAt, liftM]
    have : (m.spot.map lift).map (fun s => logIf lg (s / lift m.strike))
        = (m.spot.map (fun s => logIf lg (s / m.strike))).map lift := by
      simp [List.map_map, Function.comp_def, logIf_lift]
    rw [this, prefixMax_lift]
    cases prefixMax (m.spot.map (fun s => logIf lg (s / m.strike))) i <;>
      simp [Except.map, bind, Except.bind, pure, Except.pure]
  | timeToMaturity =>
    simp only [liftBase, BaseFeature.getAt, liftM, List.length_map]
    split_ifs
    · rfl
    · simp [Except.map, lift_natCast]
  | volatility =>
    simp only [liftBase, BaseFeature.getAt, liftM, idx_lift]
    cases idx m.volatility i <;> simp [Except.map, bind, Except.bind, pure, Except.pure]
  | variance =>
    simp only [liftBase, BaseFeature.getAt, liftM, idx_lift]
    cases idx m.variance i <;> simp [Except.map, bind, Except.bind, pure, Except.pure]
  | spot lg =>
    simp only [liftBase, BaseFeature.getAt, liftM, idx_lift]
    cases idx m.listed i <;> simp [Except.map, bind, Except.bind, pure, Except.pure, logIf_lift]
  | underlierSpot lg =>
    simp only [liftBase, BaseFeature.getAt, liftM, idx_lift]
    cases idx m.spot i <;> simp [Except.map, bind, Except.bind, pure, Except.pure, logIf_lift]
  | barrier thr up =>
    cases up
    · simp only [liftBase, BaseFeature.getAt, liftM, prefixMin_lift]
      cases prefixMin m.spot i <;>
        simp [Except.map, bind, Except.bind, pure, Except.pure, lift_zero, lift_one, apply_ite lift]
    · simp only [liftBase, BaseFeature.getAt, liftM, prefixMax_lift]
      cases prefixMax m.spot i <;>
        simp [Except.map, bind, Except.bind, pure, Except.pure, lift_zero, lift_one, apply_ite lift]
  | zeros =>
    simp only [liftBase, BaseFeature.getAt, liftM, idx_lift]
    cases idx m.spot i <;> simp [Except.map, bind, Except.bind, pure, Except.pure, lift_zero]
  | ones =>
    simp only [liftBase, BaseFeature.getAt, liftM, idx_lift]
    cases idx m.spot i <;> simp [Except.map, bind, Except.bind, pure, Except.pure, lift_one]
  | empty =>
    simp only [liftBase, BaseFeature.getAt, liftM, idx_lift]
    cases idx m.spot i <;> cases idx m.oracle i <;>
      simp [Except.map, bind, Except.bind, pure, Except.pure]
  | prevHedge => simp [BaseFeature.stateDependent] at hb

end PfVerif.C14Aux
