/-
  C14 — The gradient of the hedging loss obtained by back-propagation equals the derivative
  of the loss as a function of the parameters.

  The executable model is generic in the scalar.  Instantiated at `Dual ℝ` (Inst/Dual.lean) it
  carries a derivative along with every value; the harness runs the same instantiation at
  `Dual Float` and compares the ε-part with `torch.autograd.grad`.  The theorems below say that
  the ε-part of the model at `Dual ℝ` IS the derivative of the model at `ℝ` as a function of the
  parameter `θ` (`Tracks D f θ : D.val = f θ ∧ HasDerivAt f D.eps θ`, Lemmas/DualCalc.lean), at
  generic points: away from the kinks of `|·|` (transaction costs), `relu` and ties of sorting
  (`abs_kink_not_tracked`: at a kink there is no derivative to be equal to).

  Encoding.  A tracked list is a list of dual numbers with a list of real functions of the
  parameter (`TracksL`); `TracksC` / `TracksCC` are the same for list- / matrix-valued curves;
  `TracksE Rel R r` lifts a relation through the error monad: the dual evaluation `R` and the
  real evaluations `r t` fail with the same error for every `t`, or all succeed with related
  results.  `FeatRel` relates a dual feature to the real feature(s) it differentiates.

  Layout: helper lemmas in `PfVerif.C14Aux`, property theorems in `PfVerif.C14`:
    plPath_dual_correct (+ ', _deriv, _multi, _nocost, _general) — P&L with costs
    linear_dual_correct, mlp_dual_correct, mlp_dual_deriv, mlp_compatible — the module
    features_are_constants(_all), inputsAt_dual_correct, hedgeLoop_dual_correct(_base),
      computeHedge_dual_correct — features, recurrent `prev_hedge` loop, both branches
    mean/mse/eloss/erm/es_dual_correct — criteria (erm also at ties of the max; es under no-tie)
    loss_gradient_positions/_erm/_mean, loss_gradient, loss_error_agree, loss_dual_ok_of_real_ok,
      loss_gradient_mlp — the composition
    example_* and `example`s — non-vacuity (concrete recurrent and non-recurrent chains)
-/
import PfVerif.Lemmas.DualCalc
import PfVerif.Model.Hedger
import PfVerif.Model.Risk
import PfVerif.Lemmas.C04ERM
import PfVerif.Lemmas.OrderStat
import Mathlib.Analysis.Calculus.Deriv.Abs

namespace PfVerif.C14Aux
open PfVerif Topology

variable {θ : ℝ}

/-! ### generic `zipWith` / `zipWith3L` over related lists -/

theorem tracksL_zipWith_rel {α α' β β' : Type} {R1 : α → α' → Prop} {R2 : β → β' → Prop}
    {op : α → β → Dual ℝ} {opF : α' → β' → ℝ → ℝ}
    (hop : ∀ a a' b b', R1 a a' → R2 b b' → Tracks (op a b) (opF a' b') θ)
    {as : List α} {as' : List α'} {bs : List β} {bs' : List β'}
    (ha : List.Forall₂ R1 as as') (hb : List.Forall₂ R2 bs bs') :
    TracksL (List.zipWith op as bs) (List.zipWith opF as' bs') θ := by
  induction ha generalizing bs bs' with
  | nil => simp only [List.zipWith_nil_left]; exact TracksL.nil
  | cons h _ ih =>
    cases hb with
    | nil => simp only [List.zipWith_nil_right]; exact TracksL.nil
    | cons h' hb' => exact TracksL.cons (hop _ _ _ _ h h') (ih hb')

theorem tracksL_zipWith3L_rel {α α' β β' γ γ' : Type} {R1 : α → α' → Prop} {R2 : β → β' → Prop}
    {R3 : γ → γ' → Prop} {op : α → β → γ → Dual ℝ} {opF : α' → β' → γ' → ℝ → ℝ}
    (hop : ∀ a a' b b' c c', R1 a a' → R2 b b' → R3 c c' → Tracks (op a b c) (opF a' b' c') θ)
    {as : List α} {as' : List α'} {bs : List β} {bs' : List β'} {cs : List γ} {cs' : List γ'}
    (ha : List.Forall₂ R1 as as') (hb : List.Forall₂ R2 bs bs') (hc : List.Forall₂ R3 cs cs') :
    TracksL (zipWith3L op as bs cs) (zipWith3L opF as' bs' cs') θ := by
  induction ha generalizing bs bs' cs cs' with
  | nil => simp only [zipWith3L]; exact TracksL.nil
  | cons h _ ih =>
    cases hb with
    | nil => simp only [zipWith3L]; exact TracksL.nil
    | cons h' hb' =>
      cases hc with
      | nil => simp only [zipWith3L]; exact TracksL.nil
      | cons h'' hc' => exact TracksL.cons (hop _ _ _ _ _ _ h h' h'') (ih hb' hc')

theorem evalL_zipWith_rel {α' β' A B : Type} (opF : α' → β' → ℝ → ℝ) (opR : A → B → ℝ)
    (e1 : α' → A) (e2 : β' → B) (t : ℝ)
    (h : ∀ a b, opF a b t = opR (e1 a) (e2 b)) (as : List α') (bs : List β') :
    evalL (List.zipWith opF as bs) t = List.zipWith opR (as.map e1) (bs.map e2) := by
  induction as generalizing bs with
  | nil => simp
  | cons a as ih => cases bs with
    | nil => simp
    | cons b bs => simp only [List.zipWith_cons_cons, List.map_cons, evalL, h] at ih ⊢; rw [ih]

theorem evalL_zipWith3L_rel {α' β' γ' A B C : Type} (opF : α' → β' → γ' → ℝ → ℝ)
    (opR : A → B → C → ℝ) (e1 : α' → A) (e2 : β' → B) (e3 : γ' → C) (t : ℝ)
    (h : ∀ a b c, opF a b c t = opR (e1 a) (e2 b) (e3 c))
    (as : List α') (bs : List β') (cs : List γ') :
    evalL (zipWith3L opF as bs cs) t = zipWith3L opR (as.map e1) (bs.map e2) (cs.map e3) := by
  induction as generalizing bs cs with
  | nil => simp [zipWith3L]
  | cons a as ih => cases bs with
    | nil => simp [zipWith3L]
    | cons b bs => cases cs with
      | nil => simp [zipWith3L]
      | cons c cs => simp only [zipWith3L, List.map_cons, evalL, h] at ih ⊢; rw [ih]

theorem forall₂_and_right {α β : Type} {R : α → β → Prop} {P : β → Prop} {as : List α}
    {bs : List β} (h : List.Forall₂ R as bs) (hP : ∀ b ∈ bs, P b) :
    List.Forall₂ (fun a b => R a b ∧ P b) as bs := by
  induction h with
  | nil => exact List.Forall₂.nil
  | cons h _ ih =>
    exact List.Forall₂.cons ⟨h, hP _ List.mem_cons_self⟩
      (ih fun b hb => hP b (List.mem_cons_of_mem _ hb))

/-! ### the P&L of one instrument -/

/-- trading gains: no kink -/
theorem tracks_gains1 {Sd U : List (Dual ℝ)} {ss us : List (ℝ → ℝ)}
    (hs : TracksL Sd ss θ) (hu : TracksL U us θ) :
    Tracks (gains1 Sd U) (fun t => gains1 (evalL ss t) (evalL us t)) θ :=
  ((hu.initL).mulL hs.diffL).sumL.congr fun t => by
    unfold gains1; rw [evalL_mulL, evalL_initL, evalL_diffL]

/-- every position change of the series (`diffL us`: the pointwise differences) is, at `θ`,
either non-zero or the change of a position that does not move for parameters near `θ`
(`compute_hedge` repeats its last row, so the last change vanishes identically) -/
def NoKink (us : List (ℝ → ℝ)) (θ : ℝ) : Prop :=
  ∀ g ∈ diffL us, g θ ≠ 0 ∨ ∀ᶠ t in 𝓝 θ, g t = 0

/-- in particular: no position change is exactly zero at `θ` -/
theorem noKink_of_ne {us : List (ℝ → ℝ)} (h : ∀ d ∈ diffL (evalL us θ), d ≠ 0) : NoKink us θ := by
  intro g hg
  left
  apply h
  rw [← evalL_diffL]
  exact List.mem_map_of_mem hg

/-- the initial position is not exactly zero at `θ` -/
def NoKink0 (us : List (ℝ → ℝ)) (θ : ℝ) : Prop := ∀ u0 ∈ (evalL us θ).head?, u0 ≠ 0

/-- proportional cost of the position changes: away from the kinks of `|·|` -/
theorem tracks_cost1 {C : Dual ℝ} {cf : ℝ → ℝ} {Sd U : List (Dual ℝ)} {ss us : List (ℝ → ℝ)}
    (hc : Tracks C cf θ) (hs : TracksL Sd ss θ) (hu : TracksL U us θ) (hk : NoKink us θ) :
    Tracks (cost1 C Sd U) (fun t => cost1 (cf t) (evalL ss t) (evalL us t)) θ := by
  have h := TracksL.zipWith (θ := θ) (op := fun sp du => sp * absS du * C)
    (opF := fun f g t => f t * absS (g t) * cf t)
    (P := fun g => g θ ≠ 0 ∨ ∀ᶠ t in 𝓝 θ, g t = 0)
    (fun _ _ _ _ h1 h2 h0 => (h1.mul (h2.absS' h0)).mul hc) hs.tailL hu.diffL hk
  refine h.sumL.congr fun t => ?_
  unfold cost1
  rw [evalL_zipWith_dep (fun t x y => x * absS y * cf t), evalL_tailL, evalL_diffL]

/-- proportional cost of the initial position -/
theorem tracks_first1 {C : Dual ℝ} {cf : ℝ → ℝ} {Sd U : List (Dual ℝ)} {ss us : List (ℝ → ℝ)}
    (hc : Tracks C cf θ) (hs : TracksL Sd ss θ) (hu : TracksL U us θ) (hk : NoKink0 us θ) :
    Tracks (first1 C Sd U) (fun t => first1 (cf t) (evalL ss t) (evalL us t)) θ := by
  cases hs with
  | nil => exact tracks_zero
  | cons hs0 _ =>
    cases hu with
    | nil => exact tracks_zero
    | @cons _ u0 _ _ hu0 _ =>
      have h0 : u0 θ ≠ 0 := hk _ (by simp [evalL])
      exact (hs0.mul (hu0.absS h0)).mul hc

/-! ### the P&L of one path, `H` instruments -/

/-- optional tracked scalar (the payoff) -/
def TracksOpt (Z : Option (Dual ℝ)) (z : Option (ℝ → ℝ)) (θ : ℝ) : Prop :=
  match Z, z with
  | none, none => True
  | some D, some f => Tracks D f θ
  | _, _ => False

/-- optional tracked list (the cost rates) -/
def TracksOptL (C : Option (List (Dual ℝ))) (c : Option (List (ℝ → ℝ))) (θ : ℝ) : Prop :=
  match C, c with
  | none, none => True
  | some D, some f => TracksL D f θ
  | _, _ => False

theorem tracks_sum_gains {Sp Un : List (List (Dual ℝ))} {sps uns : List (List (ℝ → ℝ))}
    (hS : TracksLL Sp sps θ) (hU : TracksLL Un uns θ) :
    Tracks (sumL (List.zipWith gains1 Sp Un))
      (fun t => sumL (List.zipWith gains1 (evalLL sps t) (evalLL uns t))) θ := by
  have h := tracksL_zipWith_rel (θ := θ) (op := gains1)
    (opF := fun ss us t => gains1 (evalL ss t) (evalL us t))
    (fun _ _ _ _ h1 h2 => tracks_gains1 h1 h2) hS hU
  refine h.sumL.congr fun t => ?_
  rw [evalL_zipWith_rel _ gains1 (fun r => evalL r t) (fun r => evalL r t) t (fun _ _ => rfl)]

theorem tracks_sum_cost {Cd : List (Dual ℝ)} {cfs : List (ℝ → ℝ)}
    {Sp Un : List (List (Dual ℝ))} {sps uns : List (List (ℝ → ℝ))}
    (hC : TracksL Cd cfs θ) (hS : TracksLL Sp sps θ) (hU : TracksLL Un uns θ)
    (hk : ∀ us ∈ uns, NoKink us θ) :
    Tracks (sumL (zipWith3L cost1 Cd Sp Un))
      (fun t => sumL (zipWith3L cost1 (evalL cfs t) (evalLL sps t) (evalLL uns t))) θ := by
  have h := tracksL_zipWith3L_rel (θ := θ) (op := cost1)
    (opF := fun cf ss us t => cost1 (cf t) (evalL ss t) (evalL us t))
    (R1 := fun D f => Tracks D f θ) (R2 := fun D f => TracksL D f θ)
    (R3 := fun U us => TracksL U us θ ∧ NoKink us θ)
    (fun _ _ _ _ _ _ h1 h2 h3 => tracks_cost1 h1 h2 h3.1 h3.2) hC hS (forall₂_and_right hU hk)
  refine h.sumL.congr fun t => ?_
  rw [evalL_zipWith3L_rel _ cost1 (fun f => f t) (fun r => evalL r t) (fun r => evalL r t) t
    (fun _ _ _ => rfl)]

theorem tracks_sum_first {Cd : List (Dual ℝ)} {cfs : List (ℝ → ℝ)}
    {Sp Un : List (List (Dual ℝ))} {sps uns : List (List (ℝ → ℝ))}
    (hC : TracksL Cd cfs θ) (hS : TracksLL Sp sps θ) (hU : TracksLL Un uns θ)
    (hk : ∀ us ∈ uns, NoKink0 us θ) :
    Tracks (sumL (zipWith3L first1 Cd Sp Un))
      (fun t => sumL (zipWith3L first1 (evalL cfs t) (evalLL sps t) (evalLL uns t))) θ := by
  have h := tracksL_zipWith3L_rel (θ := θ) (op := first1)
    (opF := fun cf ss us t => first1 (cf t) (evalL ss t) (evalL us t))
    (R1 := fun D f => Tracks D f θ) (R2 := fun D f => TracksL D f θ)
    (R3 := fun U us => TracksL U us θ ∧ NoKink0 us θ)
    (fun _ _ _ _ _ _ h1 h2 h3 => tracks_first1 h1 h2 h3.1 h3.2) hC hS (forall₂_and_right hU hk)
  refine h.sumL.congr fun t => ?_
  rw [evalL_zipWith3L_rel _ first1 (fun f => f t) (fun r => evalL r t) (fun r => evalL r t) t
    (fun _ _ _ => rfl)]

/-- **P&L, general form**: spots, positions, cost rates and payoff may all depend on the
parameter.  With costs: away from the kinks of the cost terms. -/
theorem plPath_tracks {Sp Un : List (List (Dual ℝ))} {sps uns : List (List (ℝ → ℝ))}
    {C : Option (List (Dual ℝ))} {cs : Option (List (ℝ → ℝ))}
    {Z : Option (Dual ℝ)} {z : Option (ℝ → ℝ)} (first : Bool)
    (hS : TracksLL Sp sps θ) (hU : TracksLL Un uns θ) (hC : TracksOptL C cs θ)
    (hZ : TracksOpt Z z θ)
    (hk : C.isSome → ∀ us ∈ uns, NoKink us θ)
    (hk0 : C.isSome → first = true → ∀ us ∈ uns, NoKink0 us θ) :
    Tracks (plPath Sp Un C Z first)
      (fun t => plPath (evalLL sps t) (evalLL uns t) (cs.map (fun c => evalL c t))
        (z.map (fun f => f t)) first) θ := by
  have hg := tracks_sum_gains hS hU
  cases Z <;> cases z <;> simp only [TracksOpt] at hZ <;>
  cases C <;> cases cs <;> simp only [TracksOptL] at hC <;>
  cases first <;>
  simp only [plPath, Option.map_none, Option.map_some, Bool.false_eq_true, if_false, if_true] <;>
  first
  | exact hg
  | exact hg.sub hZ
  | exact hg.sub (tracks_sum_cost hC hS hU (hk rfl))
  | exact (hg.sub hZ).sub (tracks_sum_cost hC hS hU (hk rfl))
  | exact (hg.sub (tracks_sum_cost hC hS hU (hk rfl))).sub
      (tracks_sum_first hC hS hU (hk0 rfl rfl))
  | exact ((hg.sub hZ).sub (tracks_sum_cost hC hS hU (hk rfl))).sub
      (tracks_sum_first hC hS hU (hk0 rfl rfl))

/-! ### features of a market that does not depend on the parameter -/

/-- the market lifted by constants (ε = 0 everywhere) -/
def liftMkt (m : Market ℝ) : Market (Dual ℝ) :=
  { spot := m.spot.map lift, variance := m.variance.map lift, volatility := m.volatility.map lift,
    listed := m.listed.map lift, dt := lift m.dt, strike := lift m.strike,
    oracle := m.oracle.map lift }

def liftBase : BaseFeature ℝ → BaseFeature (Dual ℝ)
  | .moneyness l => .moneyness l
  | .maxMoneyness l => .maxMoneyness l
  | .timeToMaturity => .timeToMaturity
  | .volatility => .volatility
  | .variance => .variance
  | .spot l => .spot l
  | .underlierSpot l => .underlierSpot l
  | .barrier t u => .barrier (lift t) u
  | .zeros => .zeros
  | .ones => .ones
  | .empty => .empty
  | .prevHedge => .prevHedge

theorem idx_lift (xs : List ℝ) (i : ℕ) : idx (xs.map lift) i = Except.map lift (idx xs i) := by
  unfold idx
  rw [List.getElem?_map]
  cases xs[i]? <;> rfl

theorem logIf_lift (b : Bool) (x : ℝ) : logIf b (lift x) = lift (logIf b x) := by
  cases b
  · rfl
  · simp only [logIf, if_true]; exact lift_log x

theorem prefixMax_lift (xs : List ℝ) (i : ℕ) :
    prefixMax (xs.map lift) i = Except.map lift (prefixMax xs i) := by
  unfold prefixMax
  rw [← List.map_take]
  cases xs.take (i + 1) with
  | nil => rfl
  | cons y ys => simp only [List.map_cons, maxL_lift]; rfl

theorem prefixMin_lift (xs : List ℝ) (i : ℕ) :
    prefixMin (xs.map lift) i = Except.map lift (prefixMin xs i) := by
  unfold prefixMin
  rw [← List.map_take]
  cases xs.take (i + 1) with
  | nil => rfl
  | cons y ys => simp only [List.map_cons, minL_lift]; rfl

/-- **features are constants**: evaluating a state-independent feature on the lifted market
gives the lifted real value (ε = 0), whatever the `prev` buffers are -/
theorem getAt_lift (b : BaseFeature ℝ) (hb : b.stateDependent = false) (m : Market ℝ)
    (P : List (Dual ℝ)) (p : List ℝ) (i : ℕ) :
    (liftBase b).getAt (liftMkt m) P i = Except.map (List.map lift) (b.getAt m p i) := by
  cases b with
  | moneyness lg =>
    simp only [liftBase, BaseFeature.getAt, liftMkt, idx_lift]
    cases idx m.spot i <;> simp [Except.map, bind, Except.bind, pure, Except.pure, logIf_lift]
  | maxMoneyness lg =>
    simp only [liftBase, BaseFeature.getAt, liftMkt]
    have : (m.spot.map lift).map (fun s => logIf lg (s / lift m.strike))
        = (m.spot.map (fun s => logIf lg (s / m.strike))).map lift := by
      simp [List.map_map, Function.comp_def, logIf_lift]
    rw [this, prefixMax_lift]
    cases prefixMax (m.spot.map (fun s => logIf lg (s / m.strike))) i <;>
      simp [Except.map, bind, Except.bind, pure, Except.pure]
  | timeToMaturity =>
    simp only [liftBase, BaseFeature.getAt, liftMkt, List.length_map]
    split_ifs
    · rfl
    · simp [Except.map, lift_natCast]
  | volatility =>
    simp only [liftBase, BaseFeature.getAt, liftMkt, idx_lift]
    cases idx m.volatility i <;> simp [Except.map, bind, Except.bind, pure, Except.pure]
  | variance =>
    simp only [liftBase, BaseFeature.getAt, liftMkt, idx_lift]
    cases idx m.variance i <;> simp [Except.map, bind, Except.bind, pure, Except.pure]
  | spot lg =>
    simp only [liftBase, BaseFeature.getAt, liftMkt, idx_lift]
    cases idx m.listed i <;> simp [Except.map, bind, Except.bind, pure, Except.pure, logIf_lift]
  | underlierSpot lg =>
    simp only [liftBase, BaseFeature.getAt, liftMkt, idx_lift]
    cases idx m.spot i <;> simp [Except.map, bind, Except.bind, pure, Except.pure, logIf_lift]
  | barrier thr up =>
    cases up
    · simp only [liftBase, BaseFeature.getAt, liftMkt, prefixMin_lift]
      cases prefixMin m.spot i <;>
        simp [Except.map, bind, Except.bind, pure, Except.pure, lift_zero, lift_one, apply_ite lift]
    · simp only [liftBase, BaseFeature.getAt, liftMkt, prefixMax_lift]
      cases prefixMax m.spot i <;>
        simp [Except.map, bind, Except.bind, pure, Except.pure, lift_zero, lift_one, apply_ite lift]
  | zeros =>
    simp only [liftBase, BaseFeature.getAt, liftMkt, idx_lift]
    cases idx m.spot i <;> simp [Except.map, bind, Except.bind, pure, Except.pure, lift_zero]
  | ones =>
    simp only [liftBase, BaseFeature.getAt, liftMkt, idx_lift]
    cases idx m.spot i <;> simp [Except.map, bind, Except.bind, pure, Except.pure, lift_one]
  | empty =>
    simp only [liftBase, BaseFeature.getAt, liftMkt, idx_lift]
    cases idx m.spot i <;> cases idx m.oracle i <;>
      simp [Except.map, bind, Except.bind, pure, Except.pure]
  | prevHedge => simp [BaseFeature.stateDependent] at hb

theorem getAt_indep (b : BaseFeature ℝ) (hb : b.stateDependent = false) (m : Market ℝ)
    (p p' : List ℝ) (i : ℕ) : b.getAt m p i = b.getAt m p' i := by
  cases b <;> first | rfl | simp [BaseFeature.stateDependent] at hb

abbrev RelC (θ : ℝ) : List (Dual ℝ) → (ℝ → List ℝ) → Prop := fun X x => TracksC X x θ
abbrev RelCC (θ : ℝ) : List (List (Dual ℝ)) → (ℝ → List (List ℝ)) → Prop :=
  fun X x => TracksCC X x θ
abbrev RelS (θ : ℝ) : Dual ℝ → (ℝ → ℝ) → Prop := fun D f => Tracks D f θ

/-- a base feature on a lifted market with a tracked `prev` buffer -/
theorem baseGetAt_tracks (b : BaseFeature ℝ) (m : Market ℝ) (i : ℕ) {P : List (Dual ℝ)}
    {p : ℝ → List ℝ} (hP : TracksC P p θ) :
    TracksE (RelC θ) ((liftBase b).getAt (liftMkt m) P i) (fun t => b.getAt m (p t) i) := by
  by_cases hb : b.stateDependent = false
  · rw [getAt_lift b hb m P [] i]
    exact (tracksE_lift (b.getAt m [] i)).congr fun t => getAt_indep b hb m _ _ i
  · cases b <;> first | exact absurd rfl hb | exact TracksE.ok hP

theorem catAt_tracks (ins : List (BaseFeature ℝ)) (m : Market ℝ) (i : ℕ) {P : List (Dual ℝ)}
    {p : ℝ → List ℝ} (hP : TracksC P p θ) :
    TracksE (RelC θ) (catAt (ins.map liftBase) (liftMkt m) P i) (fun t => catAt ins m (p t) i) := by
  induction ins with
  | nil => exact TracksE.ok (x := fun _ => []) ⟨[], TracksL.nil, fun _ => rfl⟩
  | cons b rest ih =>
    simp only [List.map_cons, catAt]
    exact (baseGetAt_tracks b m i hP).bind fun X x hX =>
      ih.bind (k := fun t b => pure (x t ++ b)) fun Y y hY => TracksE.pure (hX.append hY)

/-- a dual feature and the family of real features (indexed by the parameter) it differentiates:
base features of the lifted market, and `ModuleOutput` of a module whose dual version is
compatible with the real module family -/
inductive FeatRel (θ : ℝ) : Feature (Dual ℝ) → (ℝ → Feature ℝ) → Prop
  | base (b : BaseFeature ℝ) : FeatRel θ (.base (liftBase b)) (fun _ => .base b)
  | moduleOutput (G : List (Dual ℝ) → List (Dual ℝ)) (g : ℝ → List ℝ → List ℝ)
      (ins : List (BaseFeature ℝ))
      (hG : ∀ X x, TracksC X x θ → TracksC (G X) (fun t => g t (x t)) θ) :
      FeatRel θ (.moduleOutput G (ins.map liftBase)) (fun t => .moduleOutput (g t) ins)

theorem featGetAt_tracks {F : Feature (Dual ℝ)} {f : ℝ → Feature ℝ} (hF : FeatRel θ F f)
    (m : Market ℝ) (i : ℕ) {P : List (Dual ℝ)} {p : ℝ → List ℝ} (hP : TracksC P p θ) :
    TracksE (RelC θ) (F.getAt (liftMkt m) P i) (fun t => (f t).getAt m (p t) i) := by
  cases hF with
  | base b => exact baseGetAt_tracks b m i hP
  | moduleOutput G g ins hG =>
    simp only [Feature.getAt]
    exact (catAt_tracks ins m i hP).bind (k := fun t x => pure (g t x)) fun X x hX =>
      TracksE.pure (hG X x hX)

/-- the feature lists correspond -/
abbrev FeatsRel (θ : ℝ) (Fs : List (Feature (Dual ℝ))) (fs : List (ℝ → Feature ℝ)) : Prop :=
  List.Forall₂ (FeatRel θ) Fs fs

/-- the real feature list at parameter value `t` -/
abbrev featsAt (fs : List (ℝ → Feature ℝ)) (t : ℝ) : List (Feature ℝ) := fs.map (fun f => f t)

theorem inputsAt_tracks {Fs : List (Feature (Dual ℝ))} {fs : List (ℝ → Feature ℝ)}
    (hF : FeatsRel θ Fs fs) (m : Market ℝ) (i : ℕ) {P : List (Dual ℝ)} {p : ℝ → List ℝ}
    (hP : TracksC P p θ) :
    TracksE (RelC θ) (inputsAt Fs (liftMkt m) P i) (fun t => inputsAt (featsAt fs t) m (p t) i) := by
  induction hF with
  | nil => exact TracksE.ok (x := fun _ => []) ⟨[], TracksL.nil, fun _ => rfl⟩
  | cons h _ ih =>
    simp only [featsAt, List.map_cons, inputsAt]
    exact (featGetAt_tracks h m i hP).bind fun X x hX =>
      ih.bind (k := fun t b => pure (x t ++ b)) fun Y y hY => TracksE.pure (hX.append hY)

/-- base features only (what the harness uses) -/
theorem featsRel_base (bs : List (BaseFeature ℝ)) :
    FeatsRel θ (bs.map (fun b => Feature.base (liftBase b))) (bs.map (fun b _ => Feature.base b)) := by
  induction bs with
  | nil => exact List.Forall₂.nil
  | cons b bs ih => exact List.Forall₂.cons (FeatRel.base b) ih

theorem featsAt_base (bs : List (BaseFeature ℝ)) (t : ℝ) :
    featsAt (bs.map (fun b _ => Feature.base b)) t = bs.map Feature.base := by
  simp [featsAt, Function.comp_def]

/-! ### the recurrent loop -/

/-- the module inputs encountered by the dual evaluation of the loop -/
noncomputable def loopInputs (G : List (Dual ℝ) → List (Dual ℝ)) (Fs : List (Feature (Dual ℝ)))
    (M : Market (Dual ℝ)) : ℕ → ℕ → List (Dual ℝ) → List (List (Dual ℝ))
  | 0, _, _ => []
  | k + 1, i, prev =>
    match inputsAt Fs M prev i with
    | .ok x => x :: loopInputs G Fs M k (i + 1) (G x)
    | .error _ => []

theorem hedgeLoop_tracks {G : List (Dual ℝ) → List (Dual ℝ)} {g : ℝ → List ℝ → List ℝ}
    {Fs : List (Feature (Dual ℝ))} {fs : List (ℝ → Feature ℝ)} (hF : FeatsRel θ Fs fs)
    (m : Market ℝ) (k i : ℕ) {P : List (Dual ℝ)} {p : ℝ → List ℝ} (hP : TracksC P p θ)
    (hG : ∀ X ∈ loopInputs G Fs (liftMkt m) k i P, ∀ x, TracksC X x θ →
      TracksC (G X) (fun t => g t (x t)) θ) :
    TracksE (RelCC θ) (hedgeLoop G Fs (liftMkt m) k i P)
      (fun t => hedgeLoop (g t) (featsAt fs t) m k i (p t)) := by
  induction k generalizing i P p with
  | zero => exact TracksE.ok (x := fun _ => []) TracksCC.nil
  | succ k ih =>
    simp only [hedgeLoop]
    refine (inputsAt_tracks hF m i hP).bind'
      (k := fun t x => hedgeLoop (g t) (featsAt fs t) m k (i + 1) (g t x) >>= fun rest =>
        pure (g t x :: rest)) fun X x hX _ hXx => ?_
    have hmem : X ∈ loopInputs G Fs (liftMkt m) (k + 1) i P := by
      simp only [loopInputs, hX]; exact List.mem_cons_self
    have hout := hG X hmem x hXx
    refine (ih (i + 1) hout fun Y hY => hG Y ?_).bind
      (k := fun t rest => pure (g t (x t) :: rest)) fun Ys ys hYs => TracksE.pure (TracksCC.cons hout hYs)
    simp only [loopInputs, hX]; exact List.mem_cons_of_mem _ hY

/-- the multi-layer perceptron with tracked parameters is a compatible module at every generic
input (no hidden pre-activation of the real network is exactly zero) -/
theorem mlp_compat {Ls : List LayerD} {ls : List LayerF} (hL : TracksLayers Ls ls θ)
    {X : List (Dual ℝ)} {x : ℝ → List ℝ} (hX : TracksC X x θ)
    (hgen : mlpGeneric (evalLayers ls θ) (x θ)) :
    TracksC (mlpL Ls X) (fun t => mlpL (evalLayers ls t) (x t)) θ := by
  obtain ⟨xs, h, e⟩ := hX
  rw [e θ] at hgen
  exact ⟨mlpF ls xs, TracksL.mlpL hL h hgen, fun t => by
    show mlpL (evalLayers ls t) (x t) = _
    rw [e t, evalL_mlpF]⟩

theorem forall₂_append {α β : Type} {R : α → β → Prop} {as as' : List α} {bs bs' : List β}
    (h1 : List.Forall₂ R as bs) (h2 : List.Forall₂ R as' bs') :
    List.Forall₂ R (as ++ as') (bs ++ bs') := by
  induction h1 with
  | nil => exact h2
  | cons h _ ih => exact List.Forall₂.cons h ih

theorem lastL_forall₂ {α β : Type} {R : α → β → Prop} {as : List α} {bs : List β}
    (h : List.Forall₂ R as bs) :
    (lastL as = none ∧ lastL bs = none) ∨ ∃ a b, lastL as = some a ∧ lastL bs = some b ∧ R a b := by
  induction h with
  | nil => exact Or.inl ⟨rfl, rfl⟩
  | cons h hs ih =>
    cases hs with
    | nil => exact Or.inr ⟨_, _, rfl, rfl, h⟩
    | cons h' hs' => simpa only [lastL] using ih

theorem lastL_map {α β : Type} (f : α → β) (xs : List α) : lastL (xs.map f) = (lastL xs).map f := by
  induction xs with
  | nil => rfl
  | cons x xs ih =>
    cases xs with
    | nil => rfl
    | cons y ys => simpa only [List.map_cons, lastL] using ih

theorem appendLast_tracks {Xs : List (List (Dual ℝ))} {xs : ℝ → List (List ℝ)}
    (h : TracksCC Xs xs θ) :
    TracksE (RelCC θ) (appendLast Xs) (fun t => appendLast (xs t)) := by
  obtain ⟨xss, h, e⟩ := h
  have e' : (fun t => appendLast (xs t)) = fun t => appendLast (evalLL xss t) := by
    funext t; rw [e t]
  rw [e']
  rcases lastL_forall₂ h with ⟨h1, h2⟩ | ⟨L, l, h1, h2, hr⟩
  · simp only [appendLast, h1]
    intro t
    simp only [evalLL, lastL_map, h2, Option.map_none]
  · simp only [appendLast, h1]
    refine ⟨fun t => evalLL (xss ++ [l]) t,
      ⟨xss ++ [l], forall₂_append h (List.Forall₂.cons hr List.Forall₂.nil), fun _ => rfl⟩,
      fun t => ?_⟩
    simp only [evalLL, lastL_map, h2, Option.map_some, List.map_append, List.map_cons,
      List.map_nil]

theorem liftBase_stateDependent (b : BaseFeature ℝ) :
    (liftBase b).stateDependent = b.stateDependent := by cases b <;> rfl

theorem featRel_stateDependent {F : Feature (Dual ℝ)} {f : ℝ → Feature ℝ} (h : FeatRel θ F f)
    (t : ℝ) : (f t).stateDependent = F.stateDependent := by
  cases h with
  | base b => exact (liftBase_stateDependent b).symm
  | moduleOutput G g ins hG =>
    simp only [Feature.stateDependent, List.any_map]
    congr 1
    funext b
    exact (liftBase_stateDependent b).symm

theorem featsRel_any {Fs : List (Feature (Dual ℝ))} {fs : List (ℝ → Feature ℝ)}
    (h : FeatsRel θ Fs fs) (t : ℝ) :
    (featsAt fs t).any Feature.stateDependent = Fs.any Feature.stateDependent := by
  induction h with
  | nil => rfl
  | cons h _ ih =>
    simp only [featsAt, List.map_cons, List.any_cons] at ih ⊢
    rw [ih, featRel_stateDependent h t]

/-- `compute_hedge`, recurrent branch (some feature is state dependent) -/
theorem computeHedge_tracks {G : List (Dual ℝ) → List (Dual ℝ)} {g : ℝ → List ℝ → List ℝ}
    {Fs : List (Feature (Dual ℝ))} {fs : List (ℝ → Feature ℝ)} (hF : FeatsRel θ Fs fs)
    (hsd : Fs.any Feature.stateDependent = true) (m : Market ℝ) (n h : ℕ)
    (hG : ∀ X ∈ loopInputs G Fs (liftMkt m) (n - 1) 0 (List.replicate h 0), ∀ x, TracksC X x θ →
      TracksC (G X) (fun t => g t (x t)) θ) :
    TracksE (RelCC θ) (computeHedge G Fs (liftMkt m) n h)
      (fun t => computeHedge (g t) (featsAt fs t) m n h) := by
  have hP : TracksC (List.replicate h (0 : Dual ℝ)) (fun _ => List.replicate h (0 : ℝ)) θ :=
    ⟨_, tracksL_replicate_zero h, fun t => (evalL_constL _ t).symm⟩
  have hloop := hedgeLoop_tracks hF m (n - 1) 0 hP hG
  have := hloop.bind (k := fun _ outs => appendLast outs) fun Xs xs hX => appendLast_tracks hX
  simp only [computeHedge, hsd, if_true]
  refine this.congr fun t => ?_
  simp only [featsRel_any hF t, hsd, if_true]

/-! ### all-steps evaluation (non-recurrent branch of `compute_hedge`) -/

theorem cummaxL_go_lift (m : ℝ) (ys : List ℝ) :
    cummaxL.go (lift m) (ys.map lift) = (cummaxL.go m ys).map lift := by
  induction ys generalizing m with
  | nil => rfl
  | cons y ys ih => simp only [List.map_cons, cummaxL.go, lift_max, ih]

theorem cummaxL_lift (xs : List ℝ) : cummaxL (xs.map lift) = (cummaxL xs).map lift := by
  cases xs with
  | nil => rfl
  | cons x xs => simp only [List.map_cons, cummaxL, cummaxL_go_lift]

theorem cumminL_go_lift (m : ℝ) (ys : List ℝ) :
    cumminL.go (lift m) (ys.map lift) = (cumminL.go m ys).map lift := by
  induction ys generalizing m with
  | nil => rfl
  | cons y ys ih => simp only [List.map_cons, cumminL.go, lift_min, ih]

theorem cumminL_lift (xs : List ℝ) : cumminL (xs.map lift) = (cumminL xs).map lift := by
  cases xs with
  | nil => rfl
  | cons x xs => simp only [List.map_cons, cumminL, cumminL_go_lift]

/-- `feature.get(None)` on the lifted market: the lifted real rows (ε = 0) -/
theorem getAll_lift (b : BaseFeature ℝ) (m : Market ℝ) :
    (liftBase b).getAll (liftMkt m) = Except.map (List.map (List.map lift)) (b.getAll m) := by
  cases b with
  | moneyness lg =>
    simp [liftBase, BaseFeature.getAll, liftMkt, Except.map, Function.comp_def, logIf_lift]
  | maxMoneyness lg =>
    simp only [liftBase, BaseFeature.getAll, liftMkt]
    have : (m.spot.map lift).map (fun s => logIf lg (s / lift m.strike))
        = (m.spot.map (fun s => logIf lg (s / m.strike))).map lift := by
      simp [List.map_map, Function.comp_def, logIf_lift]
    rw [this, cummaxL_lift]
    simp [Except.map, Function.comp_def]
  | timeToMaturity =>
    simp [liftBase, BaseFeature.getAll, liftMkt, Except.map, Function.comp_def, lift_natCast]
  | volatility => simp [liftBase, BaseFeature.getAll, liftMkt, Except.map, Function.comp_def]
  | variance => simp [liftBase, BaseFeature.getAll, liftMkt, Except.map, Function.comp_def]
  | spot lg =>
    simp [liftBase, BaseFeature.getAll, liftMkt, Except.map, Function.comp_def, logIf_lift]
  | underlierSpot lg =>
    simp [liftBase, BaseFeature.getAll, liftMkt, Except.map, Function.comp_def, logIf_lift]
  | barrier thr up =>
    cases up
    · simp [liftBase, BaseFeature.getAll, liftMkt, Except.map, Function.comp_def, cumminL_lift,
        lift_zero, lift_one, apply_ite lift]
    · simp [liftBase, BaseFeature.getAll, liftMkt, Except.map, Function.comp_def, cummaxL_lift,
        lift_zero, lift_one, apply_ite lift]
  | zeros => simp [liftBase, BaseFeature.getAll, liftMkt, Except.map, Function.comp_def, lift_zero]
  | ones => simp [liftBase, BaseFeature.getAll, liftMkt, Except.map, Function.comp_def, lift_one]
  | empty =>
    simp [liftBase, BaseFeature.getAll, liftMkt, Except.map, Function.comp_def, List.zip_map]
  | prevHedge => rfl

theorem zipWith_append_map {β γ : Type} (f : β → γ) (a b : List (List β)) :
    List.zipWith (· ++ ·) (a.map (List.map f)) (b.map (List.map f))
      = (List.zipWith (· ++ ·) a b).map (List.map f) := by
  induction a generalizing b with
  | nil => simp
  | cons x a ih => cases b with
    | nil => simp
    | cons y b => simp [ih]

theorem catAll_lift (n : ℕ) (ins : List (BaseFeature ℝ)) (m : Market ℝ) :
    catAll n (ins.map liftBase) (liftMkt m)
      = Except.map (List.map (List.map lift)) (catAll n ins m) := by
  induction ins with
  | nil => simp [catAll, Except.map]
  | cons b rest ih =>
    simp only [List.map_cons, catAll, getAll_lift, ih]
    cases b.getAll m with
    | error e => rfl
    | ok a =>
      cases catAll n rest m with
      | error e => rfl
      | ok r =>
        simp only [Except.map, bind, Except.bind, List.length_map, pure, Except.pure]
        split_ifs
        · rfl
        · rw [zipWith_append_map]

theorem tracksLL_lift (Ss : List (List ℝ)) : TracksLL (Ss.map (List.map lift)) (Ss.map constL) θ := by
  induction Ss with
  | nil => exact List.Forall₂.nil
  | cons S Ss ih => exact List.Forall₂.cons (tracksL_lift S) ih

theorem evalLL_constL (Ss : List (List ℝ)) (t : ℝ) : evalLL (Ss.map constL) t = Ss := by
  induction Ss with
  | nil => rfl
  | cons S Ss ih =>
    show evalL (constL S) t :: evalLL (Ss.map constL) t = S :: Ss
    rw [ih, evalL_constL]

/-- θ-independent real rows, lifted -/
theorem tracksE_liftLL (r : Except Err (List (List ℝ))) :
    TracksE (RelCC θ) (Except.map (List.map (List.map lift)) r) (fun _ => r) := by
  cases r with
  | error e => exact TracksE.error e
  | ok xs => exact TracksE.ok ⟨xs.map constL, tracksLL_lift xs, fun t => (evalLL_constL xs t).symm⟩

/-- applying a module to every row; compatibility is needed at these rows only -/
theorem tracksCC_map {G : List (Dual ℝ) → List (Dual ℝ)} {g : ℝ → List ℝ → List ℝ}
    {X : List (List (Dual ℝ))} {x : ℝ → List (List ℝ)} (h : TracksCC X x θ)
    (hG : ∀ R ∈ X, ∀ r, TracksC R r θ → TracksC (G R) (fun t => g t (r t)) θ) :
    TracksCC (X.map G) (fun t => (x t).map (g t)) θ := by
  obtain ⟨xss, h, e⟩ := h
  have : ∃ yss, TracksLL (X.map G) yss θ ∧ ∀ t, evalLL yss t = (evalLL xss t).map (g t) := by
    clear e
    induction h with
    | nil => exact ⟨[], List.Forall₂.nil, fun _ => rfl⟩
    | @cons R rs X' xss' hR _ ih =>
      obtain ⟨yss, h1, e1⟩ := ih fun R' hR' => hG R' (List.mem_cons_of_mem _ hR')
      obtain ⟨ys, h2, e2⟩ := hG R List.mem_cons_self (evalL rs) hR.toC
      refine ⟨ys :: yss, List.Forall₂.cons h2 h1, fun t => ?_⟩
      show evalL ys t :: evalLL yss t = g t (evalL rs t) :: (evalLL xss' t).map (g t)
      rw [e1 t, ← e2 t]
  obtain ⟨yss, h1, e1⟩ := this
  exact ⟨yss, h1, fun t => by
    show List.map (g t) (x t) = evalLL yss t
    rw [e t, e1 t]⟩

theorem featGetAll_tracks {F : Feature (Dual ℝ)} {f : ℝ → Feature ℝ} (hF : FeatRel θ F f)
    (n : ℕ) (m : Market ℝ) :
    TracksE (RelCC θ) (F.getAll n (liftMkt m)) (fun t => (f t).getAll n m) := by
  cases hF with
  | base b =>
    simp only [Feature.getAll, getAll_lift]
    exact tracksE_liftLL _
  | moduleOutput G g ins hG =>
    simp only [Feature.getAll, catAll_lift]
    exact (tracksE_liftLL (catAll n ins m)).bind (k := fun t x => pure (x.map (g t)))
      fun X x hX => TracksE.pure (Rel := RelCC θ) (tracksCC_map hX fun R _ r hr => hG R r hr)

theorem TracksCC.length_eq {X : List (List (Dual ℝ))} {x : ℝ → List (List ℝ)}
    (h : TracksCC X x θ) (t : ℝ) : (x t).length = X.length := by
  obtain ⟨xss, h, e⟩ := h
  rw [e t, List.Forall₂.length_eq h]; simp [evalLL]

theorem TracksCC.zipWith_append {X Y : List (List (Dual ℝ))} {x y : ℝ → List (List ℝ)}
    (hx : TracksCC X x θ) (hy : TracksCC Y y θ) :
    TracksCC (List.zipWith (· ++ ·) X Y) (fun t => List.zipWith (· ++ ·) (x t) (y t)) θ := by
  obtain ⟨xss, h1, e1⟩ := hx
  obtain ⟨yss, h2, e2⟩ := hy
  refine ⟨List.zipWith (· ++ ·) xss yss, ?_, fun t => ?_⟩
  · clear e1 e2
    induction h1 generalizing Y yss with
    | nil => simp only [List.zipWith_nil_left]; exact List.Forall₂.nil
    | cons h _ ih =>
      cases h2 with
      | nil => simp only [List.zipWith_nil_right]; exact List.Forall₂.nil
      | cons h' h2' => exact List.Forall₂.cons (h.append h') (ih _ h2')
  · show List.zipWith (· ++ ·) (x t) (y t) = _
    rw [e1 t, e2 t]
    clear e1 e2 h1 h2
    induction xss generalizing yss with
    | nil => simp [evalLL]
    | cons r xss ih => cases yss with
      | nil => simp [evalLL]
      | cons r' yss =>
        have := ih yss
        simp only [evalLL, evalL, List.map_cons, List.zipWith_cons_cons, List.map_append] at this ⊢
        rw [this]

theorem tracksCC_replicate_nil (n : ℕ) :
    TracksCC (List.replicate n ([] : List (Dual ℝ))) (fun _ => List.replicate n []) θ := by
  refine ⟨List.replicate n [], ?_, fun t => by simp [evalLL]⟩
  induction n with
  | zero => exact List.Forall₂.nil
  | succ n ih => exact List.Forall₂.cons TracksL.nil ih

theorem inputsAll_tracks {Fs : List (Feature (Dual ℝ))} {fs : List (ℝ → Feature ℝ)}
    (hF : FeatsRel θ Fs fs) (n : ℕ) (m : Market ℝ) :
    TracksE (RelCC θ) (inputsAll n Fs (liftMkt m)) (fun t => inputsAll n (featsAt fs t) m) := by
  induction hF with
  | nil => exact TracksE.ok (tracksCC_replicate_nil n)
  | cons h _ ih =>
    simp only [featsAt, List.map_cons, inputsAll]
    refine (featGetAll_tracks h n m).bind fun A a hA =>
      ih.bind (k := fun t b => if (a t).length ≠ n then .error .runtimeError
        else pure (List.zipWith (· ++ ·) (a t) b)) fun B b hB => ?_
    by_cases hn : A.length = n
    · rw [if_neg (by simpa using hn)]
      refine (TracksE.pure (Rel := RelCC θ) (TracksCC.zipWith_append hA hB)).congr fun t => ?_
      show (if (a t).length ≠ n then _ else _) = _
      rw [if_neg (by rw [TracksCC.length_eq hA t]; simpa using hn)]
    · rw [if_pos hn]
      intro t
      show (if (a t).length ≠ n then _ else _) = _
      rw [if_pos (by rw [TracksCC.length_eq hA t]; exact hn)]

theorem initL_ne_nil {β : Type} (y z : β) (rest : List β) : initL (y :: z :: rest) ≠ [] := by
  simp [initL]

/-- `output[..., -1, :] = output[..., -2, :]` is "drop the last row, then repeat the last" -/
theorem dupLast_eq {β : Type} (xs : List β) : dupLast xs = appendLast (initL xs) := by
  induction xs with
  | nil => rfl
  | cons x xs ih =>
    cases xs with
    | nil => rfl
    | cons y ys =>
      cases ys with
      | nil => rfl
      | cons z rest =>
        simp only [dupLast, ih, initL]
        have hne := initL_ne_nil y z rest
        simp only [initL] at hne
        cases hL : (y :: initL (z :: rest)) with
        | nil => exact absurd hL (by simp)
        | cons a as =>
          simp only [appendLast, lastL]
          cases lastL (a :: as) <;> rfl

section generic
variable {α : Type} [Add α] [Sub α] [Mul α] [Div α] [Neg α] [OfNat α 0] [OfNat α 1]
  [LE α] [DecidableLE α] [Max α] [Min α] [NatCast α] [Transc α]

/-- the rows of `compute_hedge` before its last row is repeated: the recurrent loop, or the
module applied to every row of the all-steps input with the last row dropped -/
def hedgeRows (g : List α → List α) (fs : List (Feature α)) (m : Market α) (n h : ℕ) :
    Except Err (List (List α)) :=
  if fs.any Feature.stateDependent then hedgeLoop g fs m (n - 1) 0 (List.replicate h 0)
  else do
    let x ← inputsAll n fs m
    pure (initL (x.map g))

omit [Add α] [Neg α] in
/-- in both branches `compute_hedge` ends by repeating the last of these rows -/
theorem computeHedge_eq (g : List α → List α) (fs : List (Feature α)) (m : Market α) (n h : ℕ) :
    computeHedge g fs m n h = hedgeRows g fs m n h >>= appendLast := by
  unfold computeHedge hedgeRows
  split_ifs
  · rfl
  · simp only [dupLast_eq, bind_assoc, pure_bind]

end generic

/-- the module inputs encountered by the dual evaluation of `compute_hedge` -/
noncomputable def hedgeInputs (G : List (Dual ℝ) → List (Dual ℝ)) (Fs : List (Feature (Dual ℝ)))
    (M : Market (Dual ℝ)) (n h : ℕ) : List (List (Dual ℝ)) :=
  if Fs.any Feature.stateDependent then loopInputs G Fs M (n - 1) 0 (List.replicate h 0)
  else
    match inputsAll n Fs M with
    | .ok rows => rows
    | .error _ => []

theorem tracksCC_initL {X : List (List (Dual ℝ))} {x : ℝ → List (List ℝ)} (h : TracksCC X x θ) :
    TracksCC (initL X) (fun t => initL (x t)) θ := by
  obtain ⟨xss, h, e⟩ := h
  refine ⟨initL xss, ?_, fun t => ?_⟩
  · clear e
    induction h with
    | nil => exact List.Forall₂.nil
    | cons h hs ih =>
      cases hs with
      | nil => exact List.Forall₂.nil
      | cons h' hs' => exact List.Forall₂.cons h ih
  · show initL (x t) = _
    rw [e t]
    clear e h
    induction xss with
    | nil => rfl
    | cons r xss ih =>
      cases xss with
      | nil => rfl
      | cons r' rest =>
        simp only [evalLL, List.map_cons, initL] at ih ⊢
        rw [ih]

theorem hedgeRows_tracks {G : List (Dual ℝ) → List (Dual ℝ)} {g : ℝ → List ℝ → List ℝ}
    {Fs : List (Feature (Dual ℝ))} {fs : List (ℝ → Feature ℝ)} (hF : FeatsRel θ Fs fs)
    (m : Market ℝ) (n h : ℕ)
    (hG : ∀ X ∈ hedgeInputs G Fs (liftMkt m) n h, ∀ x, TracksC X x θ →
      TracksC (G X) (fun t => g t (x t)) θ) :
    TracksE (RelCC θ) (hedgeRows G Fs (liftMkt m) n h)
      (fun t => hedgeRows (g t) (featsAt fs t) m n h) := by
  by_cases hsd : Fs.any Feature.stateDependent = true
  · have hP : TracksC (List.replicate h (0 : Dual ℝ)) (fun _ => List.replicate h (0 : ℝ)) θ :=
      ⟨_, tracksL_replicate_zero h, fun t => (evalL_constL _ t).symm⟩
    simp only [hedgeInputs, hsd, if_true] at hG
    have hloop := hedgeLoop_tracks hF m (n - 1) 0 hP hG
    simp only [hedgeRows, hsd, if_true]
    refine hloop.congr fun t => ?_
    simp only [featsRel_any hF t, hsd, if_true]
  · simp only [hedgeInputs, hsd] at hG
    have hall := (inputsAll_tracks hF n m).bind' (Rel' := RelCC θ)
      (K := fun x => pure (initL (x.map G))) (k := fun t x => pure (initL (x.map (g t))))
      fun X x hX _ hXx => by
        rw [hX] at hG
        exact TracksE.pure (Rel := RelCC θ) (tracksCC_initL (tracksCC_map hXx hG))
    simp only [hedgeRows, hsd]
    refine hall.congr fun t => ?_
    simp only [featsRel_any hF t, hsd]
    rfl

/-! ### one path: hedge, then P&L (one hedging instrument) -/

section generic
variable {α : Type} [Add α] [Sub α] [Mul α] [Div α] [Neg α] [OfNat α 0] [OfNat α 1]
  [LE α] [DecidableLE α] [Max α] [Min α] [NatCast α] [Transc α]

/-- the column of a one-instrument hedge -/
def unitOf (rows : List (List α)) : List α :=
  rows.map (fun r => match r with
    | [x] => x
    | _ => 0)

/-- P&L of one path hedged by the module `g` (what `Hedger.compute_pl` does per path for one
hedging instrument): the scalar-generic composition evaluated by the harness driver -/
def pathPL (g : List α → List α) (fs : List (Feature α)) (m : Market α) (n : ℕ) (c z : α)
    (first : Bool) : Except Err α := do
  let rows ← computeHedge g fs m n 1
  pure (plPath [m.spot] [unitOf rows] (some [c]) (some z) first)

end generic

theorem unitOf_tracks {Xs : List (List (Dual ℝ))} {xs : ℝ → List (List ℝ)}
    (h : TracksCC Xs xs θ) : TracksC (unitOf Xs) (fun t => unitOf (xs t)) θ := by
  obtain ⟨xss, h, e⟩ := h
  refine ⟨xss.map (fun r => match r with
    | [f] => f
    | _ => fun _ => 0), ?_, fun t => ?_⟩
  · unfold unitOf
    clear e
    induction h with
    | nil => exact TracksL.nil
    | cons hr _ ih =>
      refine TracksL.cons ?_ ih
      cases hr with
      | nil => exact tracks_zero
      | cons h1 hr' =>
        cases hr' with
        | nil => exact h1
        | cons _ _ => exact tracks_zero
  · show unitOf (xs t) = _
    rw [e t]
    unfold unitOf
    simp only [evalL, evalLL, List.map_map]
    apply List.map_congr_left
    intro r _
    rcases r with _ | ⟨f, _ | ⟨f', r'⟩⟩ <;> rfl

/-- one instrument, constant spots, cost rate and payoff; tracked position series -/
theorem plPath_const1 (S : List ℝ) {U : List (Dual ℝ)} {us : List (ℝ → ℝ)} (c z : ℝ)
    (first : Bool) (hU : TracksL U us θ) (hk : NoKink us θ)
    (hk0 : first = true → ∀ u0 ∈ (evalL us θ).head?, u0 ≠ 0) :
    Tracks (plPath [S.map lift] [U] (some [lift c]) (some (lift z)) first)
      (fun t => plPath [S] [evalL us t] (some [c]) (some z) first) θ := by
  have h := plPath_tracks (θ := θ) (Sp := [S.map lift]) (sps := [constL S]) (Un := [U])
    (uns := [us]) (C := some [lift c]) (cs := some [fun _ => c]) (Z := some (lift z))
    (z := some (fun _ => z)) first
    (List.Forall₂.cons (tracksL_lift S) List.Forall₂.nil)
    (List.Forall₂.cons hU List.Forall₂.nil)
    (TracksL.single (tracks_lift c)) (tracks_lift z)
    (fun _ us' hus' => by
      rw [List.mem_singleton] at hus'; subst hus'; exact hk)
    (fun _ hf us' hus' => by
      rw [List.mem_singleton] at hus'; subst hus'; exact hk0 hf)
  refine h.congr fun t => ?_
  simp only [evalLL, List.map_cons, List.map_nil, evalL_constL, Option.map_some]

/-- the column of a one-instrument hedge given as row functions -/
def unit1F (r : List (ℝ → ℝ)) : ℝ → ℝ :=
  match r with
  | [f] => f
  | _ => fun _ => 0

def unitF (xss : List (List (ℝ → ℝ))) : List (ℝ → ℝ) := xss.map unit1F

theorem unitOf_tracksLL {Xs : List (List (Dual ℝ))} {xss : List (List (ℝ → ℝ))}
    (h : TracksLL Xs xss θ) : TracksL (unitOf Xs) (unitF xss) θ := by
  unfold unitOf unitF
  induction h with
  | nil => exact TracksL.nil
  | cons hr _ ih =>
    refine TracksL.cons ?_ ih
    cases hr with
    | nil => exact tracks_zero
    | cons h1 hr' =>
      cases hr' with
      | nil => exact h1
      | cons _ _ => exact tracks_zero

theorem evalL_unitF (xss : List (List (ℝ → ℝ))) (t : ℝ) :
    evalL (unitF xss) t = unitOf (evalLL xss t) := by
  unfold unitOf unitF
  simp only [evalL, evalLL, List.map_map]
  apply List.map_congr_left
  intro r _
  rcases r with _ | ⟨f, _ | ⟨f', r'⟩⟩ <;> rfl

theorem diffL_append_last (us : List (ℝ → ℝ)) (l : ℝ → ℝ) (h : lastL us = some l) :
    diffL (us ++ [l]) = diffL us ++ [l - l] := by
  induction us with
  | nil => cases h
  | cons x us ih =>
    cases us with
    | nil =>
      have : x = l := by simpa [lastL] using h
      subst this; rfl
    | cons y rest =>
      have h' : lastL (y :: rest) = some l := by simpa only [lastL] using h
      have := ih h'
      simp only [List.cons_append, diffL] at this ⊢
      rw [this]

/-- generic point of one path: on the real hedge at `θ` (the rows `hedgeRows`, i.e. before
`compute_hedge` repeats the last one) no position change, and — when the initial cost is
charged — not the initial position, is exactly zero -/
def PathGeneric (g : List ℝ → List ℝ) (fs : List (Feature ℝ)) (m : Market ℝ) (n : ℕ)
    (first : Bool) : Prop :=
  ∀ rows, hedgeRows g fs m n 1 = .ok rows →
    (∀ d ∈ diffL (unitOf rows), d ≠ 0) ∧ (first = true → ∀ u0 ∈ (unitOf rows).head?, u0 ≠ 0)

theorem pathPL_tracks {G : List (Dual ℝ) → List (Dual ℝ)} {g : ℝ → List ℝ → List ℝ}
    {Fs : List (Feature (Dual ℝ))} {fs : List (ℝ → Feature ℝ)} (hF : FeatsRel θ Fs fs)
    (m : Market ℝ) (n : ℕ) (c z : ℝ) (first : Bool)
    (hG : ∀ X ∈ hedgeInputs G Fs (liftMkt m) n 1, ∀ x, TracksC X x θ →
      TracksC (G X) (fun t => g t (x t)) θ)
    (hgen : PathGeneric (g θ) (featsAt fs θ) m n first) :
    TracksE (RelS θ) (pathPL G Fs (liftMkt m) n (lift c) (lift z) first)
      (fun t => pathPL (g t) (featsAt fs t) m n c z first) := by
  have hloop := hedgeRows_tracks hF m n 1 hG
  have key := hloop.bind' (Rel' := RelS θ)
    (K := fun outs => appendLast outs >>= fun rows =>
      pure (plPath [(liftMkt m).spot] [unitOf rows] (some [lift c]) (some (lift z)) first))
    (k := fun _ outs => appendLast outs >>= fun rows =>
      pure (plPath [m.spot] [unitOf rows] (some [c]) (some z) first))
    fun Xs xs _ hr hXs => by
      obtain ⟨xss, hxss, e⟩ := hXs
      rcases lastL_forall₂ hxss with ⟨h1, h2⟩ | ⟨L, l, h1, h2, hLl⟩
      · -- no rows: `appendLast` fails on both sides
        have e1 : appendLast Xs = .error .runtimeError := by simp only [appendLast, h1]
        rw [e1]
        intro t
        have : appendLast (xs t) = .error .runtimeError := by
          rw [e t]; simp only [appendLast, evalLL, lastL_map, h2, Option.map_none]
        show (appendLast (xs t) >>= _) = _
        rw [this]; rfl
      · have e1 : appendLast Xs = .ok (Xs ++ [L]) := by simp only [appendLast, h1]
        have e2 : ∀ t, appendLast (xs t) = .ok (evalLL (xss ++ [l]) t) := by
          intro t
          rw [e t]
          simp only [appendLast, evalLL, lastL_map, h2, Option.map_some, List.map_append,
            List.map_cons, List.map_nil]
        have hrows : TracksLL (Xs ++ [L]) (xss ++ [l]) θ :=
          forall₂_append hxss (List.Forall₂.cons hLl List.Forall₂.nil)
        have hus := unitOf_tracksLL hrows
        -- the generic-point hypothesis speaks about the loop rows at θ
        have hgen' := hgen (xs θ) (hr θ)
        rw [e θ, ← evalL_unitF] at hgen'
        have hsplit : unitF (xss ++ [l]) = unitF xss ++ [unit1F l] := by
          simp [unitF]
        have hlast : lastL (unitF xss) = some (unit1F l) := by
          unfold unitF; rw [lastL_map, h2]; rfl
        have hk : NoKink (unitF (xss ++ [l])) θ := by
          intro g' hg'
          rw [hsplit, diffL_append_last _ _ hlast, List.mem_append] at hg'
          rcases hg' with hg' | hg'
          · exact noKink_of_ne hgen'.1 g' hg'
          · right
            rw [List.mem_singleton] at hg'
            subst hg'
            exact Filter.Eventually.of_forall fun t => sub_self _
        have hk0 : first = true → NoKink0 (unitF (xss ++ [l])) θ := by
          intro hf u0 hu0
          apply hgen'.2 hf u0
          have hne : unitF xss ≠ [] := by
            intro h0; rw [h0] at hlast; cases hlast
          rw [hsplit] at hu0
          simpa only [evalL, List.map_append, List.head?_append_of_ne_nil _
            (by simpa using hne : List.map (fun f => f θ) (unitF xss) ≠ [])] using hu0
        have h := plPath_const1 m.spot c z first hus hk hk0
        rw [e1]
        have h' : Tracks
            (plPath [(liftMkt m).spot] [unitOf (Xs ++ [L])] (some [lift c]) (some (lift z)) first)
            (fun t => plPath [m.spot] [unitOf (evalLL (xss ++ [l]) t)] (some [c]) (some z) first)
            θ := h.congr fun t => by rw [evalL_unitF]
        refine (TracksE.pure (Rel := RelS θ) h').congr fun t => ?_
        show (appendLast (xs t) >>= _) = _
        rw [e2 t]; rfl
  unfold pathPL
  simp only [computeHedge_eq, bind_assoc]
  exact key

/-! ### criteria -/

theorem mean_tracks {Ds : List (Dual ℝ)} {fs : List (ℝ → ℝ)} (h : TracksL Ds fs θ) :
    Tracks (meanR Ds) (fun t => meanR (evalL fs t)) θ :=
  (h.sumL.div_natCast Ds.length).congr fun t => by simp [meanR, h.length_eq]

theorem mse_tracks {Ds : List (Dual ℝ)} {fs : List (ℝ → ℝ)} (h : TracksL Ds fs θ) :
    Tracks (meanR (Ds.map (fun x => x * x))) (fun t => meanR ((evalL fs t).map (fun x => x * x))) θ := by
  have h2 := TracksL.map (θ := θ) (op := fun x => x * x) (opF := fun f t => f t * f t)
    (P := fun _ => True) (fun _ _ hD _ => hD.mul hD) h (fun _ _ => trivial)
  exact (mean_tracks h2).congr fun t => by rw [evalL_map (fun x => x * x)]

theorem eloss_tracks (a : ℝ) {Ds : List (Dual ℝ)} {fs : List (ℝ → ℝ)} (h : TracksL Ds fs θ) :
    Tracks (entropicLoss (lift a) Ds) (fun t => entropicLoss a (evalL fs t)) θ := by
  have h2 := TracksL.map (θ := θ) (op := fun x => -(Transc.exp (-(lift a) * x)))
    (opF := fun f t => -(Real.exp (-a * f t)))
    (P := fun _ => True) (fun _ _ hD _ => (((tracks_lift a).neg.mul hD).exp).neg) h
    (fun _ _ => trivial)
  refine (h2.sumL.div_natCast Ds.length).neg.congr fun t => ?_
  rw [evalL_map (fun x => -(Real.exp (-a * x)))]
  simp [entropicLoss, h.length_eq, Transc.exp]

theorem sumL_exp_shift (l : List (ℝ → ℝ)) (μ : ℝ → ℝ) (t : ℝ) :
    sumL (evalL (l.map (fun f t => Real.exp (f t - μ t))) t)
      = Real.exp (-μ t) * sumL ((evalL l t).map Real.exp) := by
  induction l with
  | nil => simp [sumL]
  | cons f l ih =>
    simp only [evalL, List.map_cons, sumL] at ih ⊢
    rw [ih, sub_eq_add_neg, Real.exp_add]
    ring

theorem sumL_exp_pos (x : ℝ) (xs : List ℝ) : 0 < sumL ((x :: xs).map Real.exp) := by
  rw [C04ERMAux.sumL_eq_sum]; exact C04ERMAux.sum_exp_pos x xs

/-- `logsumexp` — the maximum is selected by primal value, but its ε-part cancels: correct at
ties too -/
theorem logSumExp_tracks {Ys : List (Dual ℝ)} {ys : List (ℝ → ℝ)} (h : TracksL Ys ys θ) :
    TracksE (RelS θ) (logSumExp Ys) (fun t => logSumExp (evalL ys t)) := by
  cases h with
  | nil => exact TracksE.error _
  | @cons Y y Ys' ys' hY hYs =>
    have hall : TracksL (Y :: Ys') (y :: ys') θ := TracksL.cons hY hYs
    set M : Dual ℝ := maxL Y Ys' with hMdef
    have hM := tracks_affine (θ := θ) M
    set μ : ℝ → ℝ := fun t => M.val + M.eps * (t - θ) with hμ
    have hmap := TracksL.map (θ := θ) (op := fun y => Transc.exp (y - M))
      (opF := fun f t => Real.exp (f t - μ t)) (P := fun _ => True)
      (fun _ _ hD _ => (hD.sub hM).exp) hall (fun _ _ => trivial)
    have hsum := hmap.sumL
    have hpos : ∀ t, 0 < sumL (evalL ((y :: ys').map (fun f t => Real.exp (f t - μ t))) t) := by
      intro t
      rw [sumL_exp_shift]
      exact mul_pos (Real.exp_pos _) (sumL_exp_pos _ _)
    have hlog := hM.add (hsum.log (hpos θ).ne')
    refine ⟨fun t => Real.log (((evalL (y :: ys') t).map Real.exp).sum), ?_,
      fun t => C04ERMAux.logsumexp_shift _ _⟩
    refine hlog.congr fun t => ?_
    have hp : 0 < sumL ((evalL (y :: ys') t).map Real.exp) := sumL_exp_pos (y t) (evalL ys' t)
    rw [sumL_exp_shift, Real.log_mul (Real.exp_pos _).ne' hp.ne', Real.log_exp,
      C04ERMAux.sumL_eq_sum]
    ring

/-- the entropic risk measure (`a` a constant) -/
theorem erm_tracks (a : ℝ) {Ds : List (Dual ℝ)} {fs : List (ℝ → ℝ)} (h : TracksL Ds fs θ) :
    TracksE (RelS θ) (entropicRisk (lift a) Ds) (fun t => entropicRisk a (evalL fs t)) := by
  have h2 := TracksL.map (θ := θ) (op := fun x => -x * lift a) (opF := fun f t => -f t * a)
    (P := fun _ => True) (fun _ _ hD _ => hD.neg.mul (tracks_lift a)) h (fun _ _ => trivial)
  have hN : Transc.log ((Ds.length : ℕ) : Dual ℝ) = lift (Real.log Ds.length) := by
    rw [lift_natCast, lift_log]
  unfold entropicRisk
  rw [hN]
  refine ((logSumExp_tracks h2).congr fun t => ?_).bind
    (k := fun t l => pure ((l - Transc.log (((evalL fs t).length : ℕ) : ℝ)) / a))
    fun L l hL => TracksE.pure ?_
  · show logSumExp ((evalL fs t).map (fun x => -x * a)) = _
    rw [evalL_map (fun x => -x * a)]
  · refine ((hL.sub (tracks_lift (Real.log Ds.length))).div_const a).congr fun t => ?_
    simp [h.length_eq, Transc.log]

/-! ### expected shortfall: away from ties between the `k`-th and `(k+1)`-th smallest outcome -/

theorem eventually_forall_mem {ι : Type} (l : List ι) (P : ι → ℝ → Prop)
    (h : ∀ i ∈ l, ∀ᶠ t in 𝓝 θ, P i t) : ∀ᶠ t in 𝓝 θ, ∀ i ∈ l, P i t := by
  induction l with
  | nil => exact Filter.Eventually.of_forall (fun _ _ hi => absurd hi List.not_mem_nil)
  | cons a l ih =>
    have h1 := h a List.mem_cons_self
    have h2 := ih (fun i hi => h i (List.mem_cons_of_mem _ hi))
    filter_upwards [h1, h2] with t ht1 ht2 i hi
    rcases List.mem_cons.1 hi with rfl | hi
    · exact ht1
    · exact ht2 i hi

theorem exists_pairs_of_tracksL {Ds : List (Dual ℝ)} {fs : List (ℝ → ℝ)} (h : TracksL Ds fs θ) :
    ∃ ps : List (Dual ℝ × (ℝ → ℝ)), ps.map Prod.fst = Ds ∧ ps.map Prod.snd = fs ∧
      ∀ p ∈ ps, Tracks p.1 p.2 θ := by
  induction h with
  | nil => exact ⟨[], rfl, rfl, fun _ hp => absurd hp List.not_mem_nil⟩
  | @cons D f _ _ hD _ ih =>
    obtain ⟨ps, h1, h2, h3⟩ := ih
    refine ⟨(D, f) :: ps, by simp [h1], by simp [h2], fun p hp => ?_⟩
    rcases List.mem_cons.1 hp with rfl | hp
    · exact hD
    · exact h3 p hp

theorem tracksL_of_pairs (ps : List (Dual ℝ × (ℝ → ℝ))) (h : ∀ p ∈ ps, Tracks p.1 p.2 θ) :
    TracksL (ps.map Prod.fst) (ps.map Prod.snd) θ := by
  induction ps with
  | nil => exact TracksL.nil
  | cons p ps ih =>
    exact TracksL.cons (h p List.mem_cons_self) (ih fun q hq => h q (List.mem_cons_of_mem _ hq))

/-- if `as` are `k` elements below all the others, the `k` smallest sum to `as.sum` -/
theorem sum_take_sortL_split (as bs xs : List ℝ) (k : ℕ) (hperm : (as ++ bs).Perm xs)
    (hle : ∀ a ∈ as, ∀ b ∈ bs, a ≤ b) (hk : as.length = k ∨ (bs = [] ∧ as.length ≤ k)) :
    sumL ((sortL xs).take k) = sumL as := by
  have hs : sortL xs = sortL as ++ sortL bs := by
    apply sortL_eq_of_perm_pairwise
    · exact ((sortL_perm as).append (sortL_perm bs)).trans hperm
    · rw [List.pairwise_append]
      exact ⟨sortL_pairwise as, sortL_pairwise bs, fun a ha b hb =>
        hle a (mem_sortL.1 ha) b (mem_sortL.1 hb)⟩
  rw [hs, sumL_eq_sum, sumL_eq_sum]
  rcases hk with hk | ⟨hb, hk⟩
  · rw [List.take_left' (by rw [sortL_length, hk]), sortL_sum]
  · subst hb
    have : sortL ([] : List ℝ) = [] := by simp [sortL]
    rw [this, List.append_nil, List.take_of_length_le (by rw [sortL_length]; exact hk), sortL_sum]

/-- **expected shortfall** under the no-tie hypothesis: at `θ` the `k` smallest outcomes are
strictly below the others -/
theorem es_tracks (k : ℕ) {Ds : List (Dual ℝ)} {fs : List (ℝ → ℝ)} (h : TracksL Ds fs θ)
    (hgap : ∀ a ∈ (sortL (evalL fs θ)).take k, ∀ b ∈ (sortL (evalL fs θ)).drop k, a < b) :
    Tracks (es k Ds) (fun t => es k (evalL fs t)) θ := by
  obtain ⟨ps, rfl, rfl, hps⟩ := exists_pairs_of_tracksL h
  set qs := ps.mergeSort (fun p q => decide (p.1 ≤ q.1)) with hqs
  have hperm : qs.Perm ps := List.mergeSort_perm _ _
  have hq : ∀ p ∈ qs, Tracks p.1 p.2 θ := fun p hp => hps p (hperm.mem_iff.1 hp)
  -- the dual sort is the sort of the pairs
  have hD : sortL (ps.map Prod.fst) = qs.map Prod.fst := by
    unfold sortL
    exact (List.map_mergeSort (r := fun p q : Dual ℝ × (ℝ → ℝ) => decide (p.1 ≤ q.1))
      (s := fun a b : Dual ℝ => decide (a ≤ b)) (f := Prod.fst) (l := ps)
      (fun _ _ _ _ => rfl)).symm
  -- the sorted real values at θ
  have hR : sortL (evalL (ps.map Prod.snd) θ) = qs.map (fun p => p.2 θ) := by
    have e1 : evalL (ps.map Prod.snd) θ = ps.map (fun p => p.1.val) := by
      simp only [evalL, List.map_map]
      exact List.map_congr_left fun p hp => ((hps p hp).1).symm
    have e2 : qs.map (fun p => p.2 θ) = qs.map (fun p => p.1.val) :=
      List.map_congr_left fun p hp => ((hq p hp).1).symm
    rw [e1, e2]
    unfold sortL
    exact (List.map_mergeSort (r := fun p q : Dual ℝ × (ℝ → ℝ) => decide (p.1 ≤ q.1))
      (s := fun a b : ℝ => decide (a ≤ b)) (f := fun p => p.1.val) (l := ps)
      (fun _ _ _ _ => rfl)).symm
  set A := qs.take k with hA
  set B := qs.drop k with hB
  have hAB : A ++ B = qs := List.take_append_drop k qs
  have hAq : ∀ p ∈ A, Tracks p.1 p.2 θ := fun p hp => hq p (List.mem_of_mem_take hp)
  have hBq : ∀ p ∈ B, Tracks p.1 p.2 θ := fun p hp => hq p (List.mem_of_mem_drop hp)
  -- strict gap at θ between the selected and the other functions
  have hlt : ∀ p ∈ A, ∀ q ∈ B, p.2 θ < q.2 θ := by
    intro p hp q hq'
    apply hgap
    · rw [hR, ← List.map_take]; exact List.mem_map_of_mem (f := fun p => p.2 θ) hp
    · rw [hR, ← List.map_drop]; exact List.mem_map_of_mem (f := fun p => p.2 θ) hq'
  have hev : ∀ᶠ t in 𝓝 θ, ∀ p ∈ A, ∀ q ∈ B, p.2 t < q.2 t :=
    eventually_forall_mem A _ fun p hp => eventually_forall_mem B _ fun q hq' =>
      (hAq p hp).2.continuousAt.eventually_lt (hBq q hq').2.continuousAt (hlt p hp q hq')
  -- the dual side
  have hsum := (tracksL_of_pairs A hAq).sumL
  have hes : Tracks (es k (ps.map Prod.fst))
      (fun t => -(sumL (evalL (A.map Prod.snd) t) / (k : ℝ))) θ := by
    unfold es
    rw [hD, ← List.map_take]
    exact (hsum.div_natCast k).neg
  refine hes.congr_eventually ?_
  filter_upwards [hev] with t ht
  unfold es
  congr 2
  apply sum_take_sortL_split (evalL (A.map Prod.snd) t) (evalL (B.map Prod.snd) t)
  · have : evalL (A.map Prod.snd) t ++ evalL (B.map Prod.snd) t = evalL (qs.map Prod.snd) t := by
      simp only [evalL, ← List.map_append, hAB]
    rw [this]
    exact (hperm.map Prod.snd).map _
  · intro a ha b hb
    simp only [evalL, List.map_map, List.mem_map, Function.comp] at ha hb
    obtain ⟨p, hp, rfl⟩ := ha
    obtain ⟨q, hq', rfl⟩ := hb
    exact (ht p hp q hq').le
  · by_cases hk : k ≤ qs.length
    · left; simp [evalL, hA, List.length_take, hk]
    · right
      have hk' : qs.length ≤ k := le_of_not_ge hk
      refine ⟨by simp [evalL, hB, List.drop_eq_nil_of_le hk'], ?_⟩
      simp [evalL, hA, List.length_take]

/-! ### the loss: criterion of the per-path P&L -/

section generic
variable {α : Type} [Add α] [Sub α] [Mul α] [Div α] [Neg α] [OfNat α 0] [OfNat α 1]
  [LE α] [DecidableLE α] [Max α] [Min α] [NatCast α] [Transc α]

/-- the criteria exercised by the harness -/
inductive Crit (α : Type) where
  | erm (a : α)
  | es (k : ℕ)
  | eloss (a : α)
  | mse
  | mean

def applyCrit (c : Crit α) (pls : List α) : Except Err α :=
  match c with
  | .erm a => entropicRisk a pls
  | .es k => .ok (es k pls)
  | .eloss a => .ok (entropicLoss a pls)
  | .mse => .ok (meanR (pls.map (fun x => x * x)))
  | .mean => .ok (-(meanR pls))

/-- the hedging loss of a batch of paths (market, payoff): hedge every path with the module,
take the P&L, apply the criterion — scalar-generic, as evaluated by the harness driver -/
def lossOf (g : List α → List α) (fs : List (Feature α)) (paths : List (Market α × α)) (n : ℕ)
    (c : α) (first : Bool) (crit : Crit α) : Except Err α := do
  let pls ← paths.mapM (fun mz => pathPL g fs mz.1 n c mz.2 first)
  applyCrit crit pls

end generic

def liftCrit : Crit ℝ → Crit (Dual ℝ)
  | .erm a => .erm (lift a)
  | .es k => .es k
  | .eloss a => .eloss (lift a)
  | .mse => .mse
  | .mean => .mean

/-- generic point of the criterion: for the expected shortfall, the `k` smallest outcomes are
strictly below the others (no tie at the cut) -/
def CritGeneric (c : Crit ℝ) (vals : List ℝ) : Prop :=
  match c with
  | .es k => ∀ a ∈ (sortL vals).take k, ∀ b ∈ (sortL vals).drop k, a < b
  | _ => True

theorem applyCrit_tracks (c : Crit ℝ) {Ds : List (Dual ℝ)} {fs : List (ℝ → ℝ)}
    (h : TracksL Ds fs θ) (hgen : CritGeneric c (evalL fs θ)) :
    TracksE (RelS θ) (applyCrit (liftCrit c) Ds) (fun t => applyCrit c (evalL fs t)) := by
  cases c with
  | erm a => exact erm_tracks a h
  | es k => exact TracksE.ok (es_tracks k h hgen)
  | eloss a => exact TracksE.ok (eloss_tracks a h)
  | mse => exact TracksE.ok (mse_tracks h)
  | mean => exact TracksE.ok (mean_tracks h).neg

theorem TracksC.cons {D : Dual ℝ} {f : ℝ → ℝ} {X : List (Dual ℝ)} {x : ℝ → List ℝ}
    (h : Tracks D f θ) (hs : TracksC X x θ) : TracksC (D :: X) (fun t => f t :: x t) θ := by
  obtain ⟨xs, h1, e1⟩ := hs
  exact ⟨f :: xs, TracksL.cons h h1, fun t => by simp [e1, evalL]⟩

theorem mapM_tracks {β β' : Type} (F : β → Except Err (Dual ℝ)) (f : ℝ → β' → Except Err ℝ)
    {l : List β} {l' : List β'}
    (h : List.Forall₂ (fun b b' => TracksE (RelS θ) (F b) (fun t => f t b')) l l') :
    TracksE (RelC θ) (l.mapM F) (fun t => l'.mapM (f t)) := by
  induction h with
  | nil => exact TracksE.ok (x := fun _ => []) ⟨[], TracksL.nil, fun _ => rfl⟩
  | cons hb _ ih =>
    simp only [List.mapM_cons]
    exact hb.bind fun D d hD =>
      ih.bind (k := fun _ ys => pure (d _ :: ys)) fun Y y hY => TracksE.pure (TracksC.cons hD hY)

/-- the paths of the batch, lifted by constants -/
def liftPaths (ms : List (Market ℝ × ℝ)) : List (Market (Dual ℝ) × Dual ℝ) :=
  ms.map (fun mz => (liftMkt mz.1, lift mz.2))

/-- **the whole chain**: features → module (with the recurrent `prev_hedge`) → positions →
transaction costs → P&L → criterion -/
theorem loss_tracks {G : List (Dual ℝ) → List (Dual ℝ)} {g : ℝ → List ℝ → List ℝ}
    {Fs : List (Feature (Dual ℝ))} {fs : List (ℝ → Feature ℝ)} (hF : FeatsRel θ Fs fs)
    (ms : List (Market ℝ × ℝ)) (n : ℕ) (c : ℝ)
    (first : Bool) (crit : Crit ℝ)
    (hG : ∀ mz ∈ ms, ∀ X ∈ hedgeInputs G Fs (liftMkt mz.1) n 1,
      ∀ x, TracksC X x θ → TracksC (G X) (fun t => g t (x t)) θ)
    (hpath : ∀ mz ∈ ms, PathGeneric (g θ) (featsAt fs θ) mz.1 n first)
    (hcrit : ∀ pls, ms.mapM (fun mz => pathPL (g θ) (featsAt fs θ) mz.1 n c mz.2 first) = .ok pls →
      CritGeneric crit pls) :
    TracksE (RelS θ) (lossOf G Fs (liftPaths ms) n (lift c) first (liftCrit crit))
      (fun t => lossOf (g t) (featsAt fs t) ms n c first crit) := by
  unfold lossOf
  have hall : List.Forall₂ (fun (b : Market (Dual ℝ) × Dual ℝ) (b' : Market ℝ × ℝ) =>
      TracksE (RelS θ) (pathPL G Fs b.1 n (lift c) b.2 first)
        (fun t => pathPL (g t) (featsAt fs t) b'.1 n c b'.2 first)) (liftPaths ms) ms := by
    unfold liftPaths
    clear hcrit
    induction ms with
    | nil => exact List.Forall₂.nil
    | cons mz ms ih =>
      refine List.Forall₂.cons ?_ (ih (fun mz' h' => hG mz' (List.mem_cons_of_mem _ h'))
        (fun mz' h' => hpath mz' (List.mem_cons_of_mem _ h')))
      exact pathPL_tracks hF mz.1 n c mz.2 first (hG mz List.mem_cons_self)
        (hpath mz List.mem_cons_self)
  clear hG hpath
  refine (mapM_tracks (fun b : Market (Dual ℝ) × Dual ℝ => pathPL G Fs b.1 n (lift c) b.2 first)
    (fun t (b' : Market ℝ × ℝ) => pathPL (g t) (featsAt fs t) b'.1 n c b'.2 first) hall).bind'
    (k := fun _ pls => applyCrit crit pls) fun X x _ hr hX => ?_
  obtain ⟨xs, hxs, e⟩ := hX
  have hc := hcrit (x θ) (hr θ)
  rw [e θ] at hc
  exact (applyCrit_tracks crit hxs hc).congr fun t => by
    show applyCrit crit (x t) = _
    rw [e t]

/-- one path of a batch with given positions: spots, payoff, dual positions, positions as
functions of the parameter -/
structure PathData where
  S : List ℝ
  z : ℝ
  U : List (Dual ℝ)
  us : List (ℝ → ℝ)

/-- the path is tracked and generic (no kink of its cost terms at `θ`) -/
def PathData.Good (b : PathData) (first : Bool) (θ : ℝ) : Prop :=
  TracksL b.U b.us θ ∧ NoKink b.us θ ∧
    (first = true → ∀ u0 ∈ (evalL b.us θ).head?, u0 ≠ 0)

/-- dual P&L of the path -/
noncomputable def PathData.plD (c : ℝ) (first : Bool) (b : PathData) : Dual ℝ :=
  plPath [b.S.map lift] [b.U] (some [lift c]) (some (lift b.z)) first

/-- real P&L of the path at parameter value `t` -/
noncomputable def PathData.plR (c : ℝ) (first : Bool) (t : ℝ) (b : PathData) : ℝ :=
  plPath [b.S] [evalL b.us t] (some [c]) (some b.z) first

theorem batch_tracks (c : ℝ) (first : Bool) (batch : List PathData)
    (h : ∀ b ∈ batch, b.Good first θ) :
    TracksL (batch.map (PathData.plD c first)) (batch.map (fun b t => b.plR c first t)) θ := by
  induction batch with
  | nil => exact TracksL.nil
  | cons b bs ih =>
    obtain ⟨h1, h2, h3⟩ := h b List.mem_cons_self
    exact TracksL.cons (plPath_const1 b.S c b.z first h1 h2 h3)
      (ih fun b' hb' => h b' (List.mem_cons_of_mem _ hb'))

theorem evalL_batch (c : ℝ) (first : Bool) (batch : List PathData) (t : ℝ) :
    evalL (batch.map (fun b t => b.plR c first t)) t = batch.map (PathData.plR c first t) := by
  simp [evalL, Function.comp_def]

/-! ### data of the non-vacuity examples -/

/-- a three-step market -/
def exMkt : Market ℝ :=
  { spot := [1, 2, 4], variance := [], volatility := [], listed := [], dt := 1, strike := 1,
    oracle := [] }

/-- `PrevHedge` and the underlier spot -/
def exFeats : List (BaseFeature ℝ) := [.prevHedge, .underlierSpot false]

/-- one affine layer `out = w₁·prev + w₂·S + b` at `(w₁, w₂, b) = (1, 1, 0)`, `w₂` seeded -/
def exLin : List LayerD := [([[⟨1, 0⟩, ⟨1, 1⟩]], [⟨0, 0⟩])]
noncomputable def exLinF : List LayerF := [([[fun _ => 1, fun t => t]], [fun _ => 0])]

/-- one affine layer `out = w·S + b` at `(w, b) = (1, 0)`, `w` seeded (no recurrence) -/
def exLin1 : List LayerD := [([[⟨1, 1⟩]], [⟨0, 0⟩])]
noncomputable def exLin1F : List LayerF := [([[fun t => t]], [fun _ => 0])]

/-- a two-layer ReLU network `3·relu(w·x − 1)` at `w = 2`, `w` seeded -/
def exRelu : List LayerD := [([[⟨2, 1⟩]], [⟨-1, 0⟩]), ([[⟨3, 0⟩]], [⟨0, 0⟩])]
noncomputable def exReluF : List LayerF :=
  [([[fun t => t]], [fun _ => -1]), ([[fun _ => 3]], [fun _ => 0])]

end PfVerif.C14Aux

namespace PfVerif.C14
open PfVerif PfVerif.C14Aux

variable {θ : ℝ}

/-! ### what `Tracks` means -/

/-- the ε-part of a tracking dual number is the derivative (`deriv`) and its primal part the
value -/
theorem tracks_iff (D : Dual ℝ) (f : ℝ → ℝ) (θ : ℝ) :
    Tracks D f θ ↔ D.val = f θ ∧ HasDerivAt f D.eps θ := Iff.rfl

theorem eps_eq_deriv {D : Dual ℝ} {f : ℝ → ℝ} (h : Tracks D f θ) : D.eps = deriv f θ :=
  h.deriv_eq.symm

/-! ### P&L with transaction costs -/

/-- **P&L, one instrument.**  Constant spots `S`, cost rate `c`, payoff `z`; a position series
`U` carrying the derivatives of the positions `us` (functions of the parameter).  If at `θ` no
position change is exactly zero (and, when the initial cost is charged, the initial position is
not zero), the dual evaluation of `pl` carries the derivative of the real `pl` with respect to
the parameter.  (`evalL us t = us.map (· t)`.) -/
theorem plPath_dual_correct (S : List ℝ) {U : List (Dual ℝ)} {us : List (ℝ → ℝ)} (c z : ℝ)
    (first : Bool) (hU : TracksL U us θ) (hk : ∀ d ∈ diffL (evalL us θ), d ≠ 0)
    (hk0 : first = true → ∀ u0 ∈ (evalL us θ).head?, u0 ≠ 0) :
    Tracks (plPath [S.map lift] [U] (some [lift c]) (some (lift z)) first)
      (fun t => plPath [S] [us.map (fun u => u t)] (some [c]) (some z) first) θ :=
  plPath_const1 S c z first hU (noKink_of_ne hk) hk0

/-- the same with the weaker kink condition `NoKink`: a position change may also vanish
identically near `θ` (as the last change of `compute_hedge` does) -/
theorem plPath_dual_correct' (S : List ℝ) {U : List (Dual ℝ)} {us : List (ℝ → ℝ)} (c z : ℝ)
    (first : Bool) (hU : TracksL U us θ) (hk : NoKink us θ)
    (hk0 : first = true → ∀ u0 ∈ (evalL us θ).head?, u0 ≠ 0) :
    Tracks (plPath [S.map lift] [U] (some [lift c]) (some (lift z)) first)
      (fun t => plPath [S] [us.map (fun u => u t)] (some [c]) (some z) first) θ :=
  plPath_const1 S c z first hU hk hk0

/-- the same as a statement about `deriv` -/
theorem plPath_dual_deriv (S : List ℝ) {U : List (Dual ℝ)} {us : List (ℝ → ℝ)} (c z : ℝ)
    (first : Bool) (hU : TracksL U us θ) (hk : ∀ d ∈ diffL (evalL us θ), d ≠ 0)
    (hk0 : first = true → ∀ u0 ∈ (evalL us θ).head?, u0 ≠ 0) :
    (plPath [S.map lift] [U] (some [lift c]) (some (lift z)) first).eps
      = deriv (fun t => plPath [S] [us.map (fun u => u t)] (some [c]) (some z) first) θ :=
  eps_eq_deriv (plPath_dual_correct S c z first hU hk hk0)

/-- **P&L, `H` instruments, everything may depend on the parameter** (spots, positions, cost
rates, payoff; each optional argument present on both sides or absent on both sides).  With
costs: away from the kinks of the cost terms of every instrument. -/
theorem plPath_dual_correct_general {Sp Un : List (List (Dual ℝ))}
    {sps uns : List (List (ℝ → ℝ))} {C : Option (List (Dual ℝ))} {cs : Option (List (ℝ → ℝ))}
    {Z : Option (Dual ℝ)} {z : Option (ℝ → ℝ)} (first : Bool)
    (hS : TracksLL Sp sps θ) (hU : TracksLL Un uns θ) (hC : TracksOptL C cs θ)
    (hZ : TracksOpt Z z θ)
    (hk : C.isSome → ∀ us ∈ uns, NoKink us θ)
    (hk0 : C.isSome → first = true → ∀ us ∈ uns, ∀ u0 ∈ (evalL us θ).head?, u0 ≠ 0) :
    Tracks (plPath Sp Un C Z first)
      (fun t => plPath (evalLL sps t) (evalLL uns t) (cs.map (fun c => evalL c t))
        (z.map (fun f => f t)) first) θ :=
  plPath_tracks first hS hU hC hZ hk hk0

/-- **P&L, `H` instruments**, constant spots / cost rates / payoff -/
theorem plPath_dual_correct_multi (Ss : List (List ℝ)) {Us : List (List (Dual ℝ))}
    {uss : List (List (ℝ → ℝ))} (cs : List ℝ) (z : ℝ) (first : Bool) (hU : TracksLL Us uss θ)
    (hk : ∀ us ∈ uss, ∀ d ∈ diffL (evalL us θ), d ≠ 0)
    (hk0 : first = true → ∀ us ∈ uss, ∀ u0 ∈ (evalL us θ).head?, u0 ≠ 0) :
    Tracks (plPath (Ss.map (List.map lift)) Us (some (cs.map lift)) (some (lift z)) first)
      (fun t => plPath Ss (uss.map (fun us => us.map (fun u => u t))) (some cs) (some z) first) θ := by
  have h := plPath_tracks (θ := θ) (C := some (cs.map lift)) (cs := some (constL cs))
    (Z := some (lift z)) (z := some (fun _ => z)) first (tracksLL_lift Ss) hU
    (tracksL_lift cs) (tracks_lift z) (fun _ us hus => noKink_of_ne (hk us hus)) (fun _ => hk0)
  refine h.congr fun t => ?_
  simp only [evalLL_constL, Option.map_some, evalL_constL]

/-- **P&L without transaction costs**: no kinks, no hypotheses (any `H`, optional payoff) -/
theorem plPath_dual_correct_nocost (Ss : List (List ℝ)) {Us : List (List (Dual ℝ))}
    {uss : List (List (ℝ → ℝ))} (z : Option ℝ) (first : Bool) (hU : TracksLL Us uss θ) :
    Tracks (plPath (Ss.map (List.map lift)) Us none (z.map lift) first)
      (fun t => plPath Ss (uss.map (fun us => us.map (fun u => u t))) none z first) θ := by
  have hZ : TracksOpt (z.map lift) (z.map (fun z _ => z)) θ := by
    cases z with
    | none => trivial
    | some z => exact tracks_lift z
  have h := plPath_tracks (θ := θ) (C := none) (cs := none) first (tracksLL_lift Ss) hU trivial hZ
    (fun h => by simp at h) (fun h => by simp at h)
  refine h.congr fun t => ?_
  cases z <;> simp only [evalLL_constL, Option.map_none, Option.map_some]

/-! ### the hedging module: affine layer and multi-layer perceptron -/

/-- `torch.nn.Linear` with tracked weights, biases and inputs -/
theorem linear_dual_correct {W : List (List (Dual ℝ))} {ws : List (List (ℝ → ℝ))}
    {B X : List (Dual ℝ)} {bs xs : List (ℝ → ℝ)}
    (hW : TracksLL W ws θ) (hb : TracksL B bs θ) (hx : TracksL X xs θ) :
    ∃ ys, TracksL (linearL W B X) ys θ ∧
      ∀ t, evalL ys t = linearL (evalLL ws t) (evalL bs t) (evalL xs t) :=
  ⟨linearL ws bs xs, TracksL.linearL hW hb hx, evalL_linearL ws bs xs⟩

/-- ReLU multi-layer perceptron with tracked parameters and inputs, at a generic point of the
real network (no hidden pre-activation exactly zero at `θ`) -/
theorem mlp_dual_correct {Ls : List LayerD} {ls : List LayerF} {X : List (Dual ℝ)}
    {xs : List (ℝ → ℝ)} (hL : TracksLayers Ls ls θ) (hx : TracksL X xs θ)
    (hgen : mlpGeneric (evalLayers ls θ) (evalL xs θ)) :
    ∃ ys, TracksL (mlpL Ls X) ys θ ∧ ∀ t, evalL ys t = mlpL (evalLayers ls t) (evalL xs t) :=
  ⟨mlpF ls xs, TracksL.mlpL hL hx hgen, evalL_mlpF ls xs⟩

/-- every output coordinate of the dual MLP carries the derivative of the real MLP output -/
theorem mlp_dual_deriv {Ls : List LayerD} {ls : List LayerF} {X : List (Dual ℝ)}
    {xs : List (ℝ → ℝ)} (hL : TracksLayers Ls ls θ) (hx : TracksL X xs θ)
    (hgen : mlpGeneric (evalLayers ls θ) (evalL xs θ)) (j : ℕ) (hj : j < (mlpL Ls X).length) :
    HasDerivAt (fun t => (mlpL (evalLayers ls t) (evalL xs t)).getD j 0)
      ((mlpL Ls X)[j]).eps θ := by
  obtain ⟨ys, h, e⟩ := mlp_dual_correct hL hx hgen
  have hj' : j < ys.length := by rw [← h.length_eq]; exact hj
  have hT : Tracks ((mlpL Ls X)[j]) (ys[j]) θ := List.Forall₂.get h hj hj'
  refine hT.2.congr_of_eventuallyEq (Filter.Eventually.of_forall fun t => ?_)
  simp only [← e t, evalL, List.getD_eq_getElem?_getD, List.getElem?_map,
    List.getElem?_eq_getElem hj', Option.map_some, Option.getD_some]

/-! ### features and the recurrent loop -/

/-- state-independent features of a lifted market are constants: value = the real feature,
ε = 0 (this includes the `log` variants, `max`/`min` prefixes and the barrier indicators) -/
theorem features_are_constants (b : BaseFeature ℝ) (hb : b.stateDependent = false) (m : Market ℝ)
    (P : List (Dual ℝ)) (p : List ℝ) (i : ℕ) :
    (liftBase b).getAt (liftMkt m) P i = Except.map (List.map lift) (b.getAt m p i) :=
  getAt_lift b hb m P p i

/-- `FeatureList.get(i)` with a tracked `prev_hedge` buffer -/
theorem inputsAt_dual_correct {Fs : List (Feature (Dual ℝ))} {fs : List (ℝ → Feature ℝ)}
    (hF : FeatsRel θ Fs fs) (m : Market ℝ) (i : ℕ) {P : List (Dual ℝ)} {p : ℝ → List ℝ}
    (hP : TracksC P p θ) :
    TracksE (fun X x => TracksC X x θ) (inputsAt Fs (liftMkt m) P i)
      (fun t => inputsAt (featsAt fs t) m (p t) i) :=
  inputsAt_tracks hF m i hP

/-- **the recurrent `prev_hedge` path.**  `G` is the dual module, `g t` the real module at
parameter value `t`; they are compatible at every module input the loop encounters.  If the
initial `prev` buffer is tracked, the dual loop and the real loop fail with the same error for
every `t`, or both succeed and every output row of the dual loop carries the derivative of the
corresponding row of the real loop — the state `prev` hands its derivative from step to step. -/
theorem hedgeLoop_dual_correct {G : List (Dual ℝ) → List (Dual ℝ)} {g : ℝ → List ℝ → List ℝ}
    {Fs : List (Feature (Dual ℝ))} {fs : List (ℝ → Feature ℝ)} (hF : FeatsRel θ Fs fs)
    (m : Market ℝ) (k i : ℕ) {P : List (Dual ℝ)} {p : ℝ → List ℝ} (hP : TracksC P p θ)
    (hG : ∀ X ∈ loopInputs G Fs (liftMkt m) k i P, ∀ x, TracksC X x θ →
      TracksC (G X) (fun t => g t (x t)) θ) :
    TracksE (fun Xs xs => TracksCC Xs xs θ) (hedgeLoop G Fs (liftMkt m) k i P)
      (fun t => hedgeLoop (g t) (featsAt fs t) m k i (p t)) :=
  hedgeLoop_tracks hF m k i hP hG

/-- the same for base features (including `PrevHedge`) and a module compatible everywhere, in
the explicit form: on success there are row functions `xss` with
`hedgeLoop (g t) … (p t) = ok (rows of xss at t)` for every `t`, tracked row by row -/
theorem hedgeLoop_dual_correct_base {G : List (Dual ℝ) → List (Dual ℝ)}
    {g : ℝ → List ℝ → List ℝ} (bs : List (BaseFeature ℝ)) (m : Market ℝ) (k i : ℕ)
    {P : List (Dual ℝ)} {ps : List (ℝ → ℝ)} (hP : TracksL P ps θ)
    (hG : ∀ X xs, TracksL X xs θ → ∃ ys, TracksL (G X) ys θ ∧ ∀ t, g t (evalL xs t) = evalL ys t)
    {Rows : List (List (Dual ℝ))}
    (hok : hedgeLoop G (bs.map (fun b => Feature.base (liftBase b))) (liftMkt m) k i P = .ok Rows) :
    ∃ xss : List (List (ℝ → ℝ)), TracksLL Rows xss θ ∧
      ∀ t, hedgeLoop (g t) (bs.map Feature.base) m k i (evalL ps t) = .ok (evalLL xss t) := by
  have hG' : ∀ X ∈ loopInputs G (bs.map (fun b => Feature.base (liftBase b))) (liftMkt m) k i P,
      ∀ x, TracksC X x θ → TracksC (G X) (fun t => g t (x t)) θ := by
    intro X _ x ⟨xs, hxs, e⟩
    obtain ⟨ys, hys, e'⟩ := hG X xs hxs
    exact ⟨ys, hys, fun t => by show g t (x t) = _; rw [e t, e' t]⟩
  have h := hedgeLoop_tracks (featsRel_base bs) m k i hP.toC hG'
  rw [hok] at h
  obtain ⟨x, ⟨xss, hxss, e⟩, hr⟩ := h
  refine ⟨xss, hxss, fun t => ?_⟩
  have := hr t
  simp only [featsAt_base] at this
  rw [this, e t]

/-- `Hedger.compute_hedge`, both branches: the recurrent loop (some feature is state dependent)
and the all-steps evaluation; `G` compatible with `g` at the module inputs encountered -/
theorem computeHedge_dual_correct {G : List (Dual ℝ) → List (Dual ℝ)} {g : ℝ → List ℝ → List ℝ}
    {Fs : List (Feature (Dual ℝ))} {fs : List (ℝ → Feature ℝ)} (hF : FeatsRel θ Fs fs)
    (m : Market ℝ) (n h : ℕ)
    (hG : ∀ X ∈ hedgeInputs G Fs (liftMkt m) n h, ∀ x, TracksC X x θ →
      TracksC (G X) (fun t => g t (x t)) θ) :
    TracksE (fun Xs xs => TracksCC Xs xs θ) (computeHedge G Fs (liftMkt m) n h)
      (fun t => computeHedge (g t) (featsAt fs t) m n h) := by
  simp only [computeHedge_eq]
  exact (hedgeRows_tracks hF m n h hG).bind (k := fun _ outs => appendLast outs)
    fun Xs xs hX => appendLast_tracks hX

/-- state-independent features evaluated at all steps are constant rows (ε = 0) -/
theorem features_are_constants_all (b : BaseFeature ℝ) (m : Market ℝ) :
    (liftBase b).getAll (liftMkt m) = Except.map (List.map (List.map lift)) (b.getAll m) :=
  getAll_lift b m

/-- the ReLU MLP with tracked parameters is a compatible module at generic inputs -/
theorem mlp_compatible {Ls : List LayerD} {ls : List LayerF} (hL : TracksLayers Ls ls θ)
    {X : List (Dual ℝ)} {x : ℝ → List ℝ} (hX : TracksC X x θ)
    (hgen : mlpGeneric (evalLayers ls θ) (x θ)) :
    TracksC (mlpL Ls X) (fun t => mlpL (evalLayers ls t) (x t)) θ :=
  mlp_compat hL hX hgen

/-! ### criteria -/

theorem mean_dual_correct {Ds : List (Dual ℝ)} {fs : List (ℝ → ℝ)} (h : TracksL Ds fs θ) :
    Tracks (meanR Ds) (fun t => meanR (fs.map (fun f => f t))) θ := mean_tracks h

theorem mse_dual_correct {Ds : List (Dual ℝ)} {fs : List (ℝ → ℝ)} (h : TracksL Ds fs θ) :
    Tracks (meanR (Ds.map (fun x => x * x)))
      (fun t => meanR ((fs.map (fun f => f t)).map (fun x => x * x))) θ := mse_tracks h

theorem eloss_dual_correct (a : ℝ) {Ds : List (Dual ℝ)} {fs : List (ℝ → ℝ)}
    (h : TracksL Ds fs θ) :
    Tracks (entropicLoss (lift a) Ds) (fun t => entropicLoss a (fs.map (fun f => f t))) θ :=
  eloss_tracks a h

/-- entropic risk measure: both evaluations fail on the empty sample; otherwise the dual value
carries the derivative — also at ties of the maximum inside `logsumexp` (its ε-part cancels) -/
theorem erm_dual_correct (a : ℝ) {Ds : List (Dual ℝ)} {fs : List (ℝ → ℝ)} (h : TracksL Ds fs θ) :
    TracksE (fun D f => Tracks D f θ) (entropicRisk (lift a) Ds)
      (fun t => entropicRisk a (fs.map (fun f => f t))) := erm_tracks a h

/-- explicit form for non-empty samples -/
theorem erm_dual_correct_nonempty (a : ℝ) {Ds : List (Dual ℝ)} {fs : List (ℝ → ℝ)}
    (h : TracksL Ds fs θ) (hne : fs ≠ []) :
    ∃ D, entropicRisk (lift a) Ds = .ok D ∧
      (∀ t, entropicRisk a (evalL fs t) = .ok (C04ERMAux.ermR a (evalL fs t))) ∧
      Tracks D (fun t => C04ERMAux.ermR a (evalL fs t)) θ := by
  have he : ∀ t, entropicRisk a (evalL fs t) = .ok (C04ERMAux.ermR a (evalL fs t)) := fun t =>
    C04ERM.erm_eq_def a _ (by simpa [evalL] using hne)
  have h1 := erm_tracks a h
  cases hD : entropicRisk (lift a) Ds with
  | error e =>
    rw [hD] at h1
    have := (h1 θ).symm.trans (he θ)
    cases this
  | ok D =>
    rw [hD] at h1
    obtain ⟨f, hf, e⟩ := h1
    refine ⟨D, rfl, he, hf.congr fun t => ?_⟩
    have := (e t).symm.trans (he t)
    exact (Except.ok.inj this).symm

/-- expected shortfall, under the no-tie hypothesis: at `θ` the `k` smallest outcomes are
strictly below the remaining ones (ties inside either group are allowed) -/
theorem es_dual_correct (k : ℕ) {Ds : List (Dual ℝ)} {fs : List (ℝ → ℝ)} (h : TracksL Ds fs θ)
    (hgap : ∀ a ∈ (sortL (evalL fs θ)).take k, ∀ b ∈ (sortL (evalL fs θ)).drop k, a < b) :
    Tracks (es k Ds) (fun t => es k (fs.map (fun f => f t))) θ := es_tracks k h hgap

/-! ### the loss -/

/-- **loss of a batch with given positions**: P&L with costs of every path, then the criterion
(`erm a`, `es k`, `eloss a`, `mse`, `mean`): the dual evaluation carries the derivative of the
real loss; both fail together (entropic risk of the empty batch) -/
theorem loss_gradient_positions (c : ℝ) (first : Bool) (crit : Crit ℝ) (batch : List PathData)
    (h : ∀ b ∈ batch, b.Good first θ)
    (hcrit : CritGeneric crit (batch.map (PathData.plR c first θ))) :
    TracksE (fun D f => Tracks D f θ) (applyCrit (liftCrit crit) (batch.map (PathData.plD c first)))
      (fun t => applyCrit crit (batch.map (PathData.plR c first t))) := by
  have hb := batch_tracks c first batch h
  rw [← evalL_batch] at hcrit
  exact (applyCrit_tracks crit hb hcrit).congr fun t => by rw [evalL_batch]

/-- entropic risk measure of the batch -/
theorem loss_gradient_erm (a c : ℝ) (first : Bool) (batch : List PathData)
    (h : ∀ b ∈ batch, b.Good first θ) :
    TracksE (fun D f => Tracks D f θ) (entropicRisk (lift a) (batch.map (PathData.plD c first)))
      (fun t => entropicRisk a (batch.map (PathData.plR c first t))) :=
  loss_gradient_positions c first (.erm a) batch h trivial

/-- minus the mean P&L of the batch -/
theorem loss_gradient_mean (c : ℝ) (first : Bool) (batch : List PathData)
    (h : ∀ b ∈ batch, b.Good first θ) :
    Tracks (-(meanR (batch.map (PathData.plD c first))))
      (fun t => -(meanR (batch.map (PathData.plR c first t)))) θ := by
  obtain ⟨f, hf, e⟩ := loss_gradient_positions c first .mean batch h trivial
  exact hf.congr fun t => (Except.ok.inj (e t))

/-- **C14, the whole chain.**  Features of a parameter-independent market, a module `G`
(dual) / `g t` (real, parameter value `t`) compatible at every module input encountered on every
path, the recurrent `prev_hedge` state, positions, transaction costs, P&L and criterion.  At a
generic point (no kink of any cost term on any path at `θ`; for `es` no tie at the cut): if the
dual evaluation of the loss succeeds with `L`, the real loss is defined for every parameter value,
`L.val` is its value at `θ` and `L.eps` is its derivative at `θ`. -/
theorem loss_gradient {G : List (Dual ℝ) → List (Dual ℝ)} {g : ℝ → List ℝ → List ℝ}
    {Fs : List (Feature (Dual ℝ))} {fs : List (ℝ → Feature ℝ)} (hF : FeatsRel θ Fs fs)
    (ms : List (Market ℝ × ℝ)) (n : ℕ) (c : ℝ)
    (first : Bool) (crit : Crit ℝ)
    (hG : ∀ mz ∈ ms, ∀ X ∈ hedgeInputs G Fs (liftMkt mz.1) n 1,
      ∀ x, TracksC X x θ → TracksC (G X) (fun t => g t (x t)) θ)
    (hpath : ∀ mz ∈ ms, PathGeneric (g θ) (featsAt fs θ) mz.1 n first)
    (hcrit : ∀ pls, ms.mapM (fun mz => pathPL (g θ) (featsAt fs θ) mz.1 n c mz.2 first) = .ok pls →
      CritGeneric crit pls)
    {L : Dual ℝ} (hok : lossOf G Fs (liftPaths ms) n (lift c) first (liftCrit crit) = .ok L) :
    ∃ ℓ : ℝ → ℝ, (∀ t, lossOf (g t) (featsAt fs t) ms n c first crit = .ok (ℓ t)) ∧
      L.val = ℓ θ ∧ HasDerivAt ℓ L.eps θ := by
  obtain ⟨ℓ, h1, h2⟩ := (loss_tracks hF ms n c first crit hG hpath hcrit).of_ok hok
  exact ⟨ℓ, h1, h2.1, h2.2⟩

/-- the dual and the real evaluation of the loss fail together, with the same error -/
theorem loss_error_agree {G : List (Dual ℝ) → List (Dual ℝ)} {g : ℝ → List ℝ → List ℝ}
    {Fs : List (Feature (Dual ℝ))} {fs : List (ℝ → Feature ℝ)} (hF : FeatsRel θ Fs fs)
    (ms : List (Market ℝ × ℝ)) (n : ℕ) (c : ℝ)
    (first : Bool) (crit : Crit ℝ)
    (hG : ∀ mz ∈ ms, ∀ X ∈ hedgeInputs G Fs (liftMkt mz.1) n 1,
      ∀ x, TracksC X x θ → TracksC (G X) (fun t => g t (x t)) θ)
    (hpath : ∀ mz ∈ ms, PathGeneric (g θ) (featsAt fs θ) mz.1 n first)
    (hcrit : ∀ pls, ms.mapM (fun mz => pathPL (g θ) (featsAt fs θ) mz.1 n c mz.2 first) = .ok pls →
      CritGeneric crit pls)
    {e : Err} (herr : lossOf G Fs (liftPaths ms) n (lift c) first (liftCrit crit) = .error e) :
    ∀ t, lossOf (g t) (featsAt fs t) ms n c first crit = .error e := by
  have h := loss_tracks hF ms n c first crit hG hpath hcrit
  rw [herr] at h
  exact h

/-- conversely, if the real loss is defined at `θ`, the dual evaluation succeeds and its primal
part is that loss -/
theorem loss_dual_ok_of_real_ok {G : List (Dual ℝ) → List (Dual ℝ)} {g : ℝ → List ℝ → List ℝ}
    {Fs : List (Feature (Dual ℝ))} {fs : List (ℝ → Feature ℝ)} (hF : FeatsRel θ Fs fs)
    (ms : List (Market ℝ × ℝ)) (n : ℕ) (c : ℝ)
    (first : Bool) (crit : Crit ℝ)
    (hG : ∀ mz ∈ ms, ∀ X ∈ hedgeInputs G Fs (liftMkt mz.1) n 1,
      ∀ x, TracksC X x θ → TracksC (G X) (fun t => g t (x t)) θ)
    (hpath : ∀ mz ∈ ms, PathGeneric (g θ) (featsAt fs θ) mz.1 n first)
    (hcrit : ∀ pls, ms.mapM (fun mz => pathPL (g θ) (featsAt fs θ) mz.1 n c mz.2 first) = .ok pls →
      CritGeneric crit pls)
    {v : ℝ} (hreal : lossOf (g θ) (featsAt fs θ) ms n c first crit = .ok v) :
    ∃ L, lossOf G Fs (liftPaths ms) n (lift c) first (liftCrit crit) = .ok L ∧ L.val = v := by
  have h := loss_tracks hF ms n c first crit hG hpath hcrit
  cases hD : lossOf G Fs (liftPaths ms) n (lift c) first (liftCrit crit) with
  | error e =>
    rw [hD] at h
    have := (h θ).symm.trans hreal
    cases this
  | ok L =>
    obtain ⟨ℓ, h1, h2⟩ := h.of_ok hD
    refine ⟨L, rfl, ?_⟩
    have := (h1 θ).symm.trans hreal
    rw [h2.1]
    exact Except.ok.inj this

/-- **C14 for the harness configuration**: base features (with `PrevHedge`), ReLU MLP whose
weights and biases are tracked (e.g. one weight seeded with ε = 1, all others constants: the
partial derivative), recurrent or not.  Generic point: on every path no hidden pre-activation at an encountered
input is exactly zero, and no kink of a cost term. -/
theorem loss_gradient_mlp {Ls : List LayerD} {ls : List LayerF} (hL : TracksLayers Ls ls θ)
    (bs : List (BaseFeature ℝ))
    (ms : List (Market ℝ × ℝ)) (n : ℕ) (c : ℝ) (first : Bool) (crit : Crit ℝ)
    (hrelu : ∀ mz ∈ ms, ∀ X ∈ hedgeInputs (mlpL Ls) (bs.map (fun b => Feature.base (liftBase b)))
      (liftMkt mz.1) n 1, mlpGeneric (evalLayers ls θ) (X.map Dual.val))
    (hpath : ∀ mz ∈ ms, PathGeneric (mlpL (evalLayers ls θ)) (bs.map Feature.base) mz.1 n first)
    (hcrit : ∀ pls, ms.mapM (fun mz => pathPL (mlpL (evalLayers ls θ)) (bs.map Feature.base)
      mz.1 n c mz.2 first) = .ok pls → CritGeneric crit pls)
    {L : Dual ℝ}
    (hok : lossOf (mlpL Ls) (bs.map (fun b => Feature.base (liftBase b))) (liftPaths ms) n (lift c)
      first (liftCrit crit) = .ok L) :
    ∃ ℓ : ℝ → ℝ,
      (∀ t, lossOf (mlpL (evalLayers ls t)) (bs.map Feature.base) ms n c first crit = .ok (ℓ t)) ∧
      L.val = ℓ θ ∧ HasDerivAt ℓ L.eps θ := by
  have h := loss_gradient (θ := θ) (G := mlpL Ls) (g := fun t => mlpL (evalLayers ls t))
    (featsRel_base bs) ms n c first crit
    (fun mz hmz X hX x hx => by
      refine mlp_compat hL hx ?_
      obtain ⟨xs, hxs, e⟩ := hx
      rw [e θ, ← hxs.val_eq]
      exact hrelu mz hmz X hX)
    (by simpa only [featsAt_base] using hpath)
    (by simpa only [featsAt_base] using hcrit) hok
  simpa only [featsAt_base] using h

/-! ### non-vacuity -/

/-- the hypotheses exclude kinks for a reason: no dual number carries a derivative of `|·|` at
`0` -/
theorem abs_kink_not_tracked : ¬ ∃ D : Dual ℝ, Tracks D (fun t => |t|) 0 := by
  rintro ⟨D, _, h⟩
  exact not_differentiableAt_abs_zero h.differentiableAt

/-- P&L at dual numbers on a concrete 3-step path: positions `(t, 3t, 2t)` at `t = 1`, prices
`(1, 2, 4)`, cost rate `1`, initial cost charged.  By hand: `pl(t) = 7t − (2·2t + 4·t) − t = −2t`
for `t > 0`. -/
theorem example_pl_dual :
    plPath [[1, 2, 4].map lift] [[⟨1, 1⟩, ⟨3, 3⟩, ⟨2, 2⟩]] (some [lift 1]) (some (lift 0)) true
      = (⟨-2, -2⟩ : Dual ℝ) := by
  ext <;>
  simp [plPath, gains1, cost1, first1, zipWith3L, sumL, mulL, initL, diffL, tailL, absS, lift,
    Dual.le_iff] <;> norm_num

/-- … and `plPath_dual_correct` turns it into the derivative of the real P&L -/
example : HasDerivAt
    (fun t : ℝ => plPath [[1, 2, 4]] [[t, 3 * t, 2 * t]] (some [1]) (some 0) true) (-2) 1 := by
  have hU : TracksL [(⟨1, 1⟩ : Dual ℝ), ⟨3, 3⟩, ⟨2, 2⟩]
      [fun t => t, fun t => 3 * t, fun t => 2 * t] 1 :=
    TracksL.cons tracks_var'
      (TracksL.cons ⟨by norm_num, by simpa using (hasDerivAt_id (1 : ℝ)).const_mul 3⟩
        (TracksL.single ⟨by norm_num, by simpa using (hasDerivAt_id (1 : ℝ)).const_mul 2⟩))
  have h := plPath_dual_correct [1, 2, 4] 1 0 true hU
    (by simp [evalL, diffL]; norm_num) (by simp [evalL])
  rw [example_pl_dual] at h
  exact h.2

/-- ReLU network `t ↦ 3·relu(t·1 − 1)` at `t = 2` (pre-activation `1 ≠ 0`): derivative `3` -/
example : HasDerivAt (fun t : ℝ => (mlpL [([[t]], [-1]), ([[3]], [0])] [1]).getD 0 0) 3 2 := by
  have hL : TracksLayers exRelu exReluF 2 :=
    List.Forall₂.cons ⟨List.Forall₂.cons (TracksL.single tracks_var') List.Forall₂.nil,
      TracksL.single (tracks_const (-1))⟩
    (List.Forall₂.cons ⟨List.Forall₂.cons (TracksL.single (tracks_const 3)) List.Forall₂.nil,
      TracksL.single (tracks_const 0)⟩ List.Forall₂.nil)
  have hx : TracksL [(⟨1, 0⟩ : Dual ℝ)] [fun _ => (1 : ℝ)] 2 := TracksL.single (tracks_const 1)
  have hv : mlpL exRelu [(⟨1, 0⟩ : Dual ℝ)] = [⟨3, 3⟩] := by
    simp [exRelu, mlpL, linearL, reluL, dotL, sumL, reluS, Dual.le_iff]
    ext <;> norm_num
  have h := mlp_dual_deriv hL hx (by
    simp [exReluF, evalLayers, mlpGeneric, linearL, dotL, sumL]; norm_num) 0 (by rw [hv]; simp)
  simp only [hv] at h
  simpa [exReluF, evalLayers, evalLL, evalL] using h

/-- expected shortfall of `(5t − 3, t)` at `t = 1` with `k = 1`: the smallest outcome is `t`,
no tie with the other one (`2`): derivative `−1` -/
example : HasDerivAt (fun t : ℝ => es 1 [5 * t - 3, t]) (-1) 1 := by
  have hD : TracksL [(⟨2, 5⟩ : Dual ℝ), ⟨1, 1⟩] [fun t => 5 * t - 3, fun t => t] 1 :=
    TracksL.cons ⟨by norm_num, by simpa using ((hasDerivAt_id (1 : ℝ)).const_mul 5).sub_const 3⟩
      (TracksL.single tracks_var')
  have h := es_dual_correct 1 hD (by
    have : sortL (evalL [fun t : ℝ => 5 * t - 3, fun t => t] 1) = [1, 2] :=
      sortL_eq_of_perm_pairwise (by norm_num [evalL]; exact List.Perm.swap _ _ _) (by simp)
    rw [this]; simp)
  have e : es 1 [(⟨2, 5⟩ : Dual ℝ), ⟨1, 1⟩] = ⟨-1, -1⟩ := by
    have : sortL [(⟨2, 5⟩ : Dual ℝ), ⟨1, 1⟩] = [⟨1, 1⟩, ⟨2, 5⟩] := by
      simp [sortL, List.mergeSort, Dual.le_iff]
    rw [es, this]
    ext <;> simp [sumL]
  rw [e] at h
  exact h.2

/-- the whole chain on a concrete instance: features `(PrevHedge, spot)`, the recurrent affine
module `h ↦ w₁ h + w₂ S + b` at `(1, 1, 0)` with `w₂` seeded, three time steps (two trades, the
last row repeated by `compute_hedge`), cost rate `1` with initial cost, criterion `−mean`:
the dual evaluation gives value `−2` and ε-part `−2` … -/
theorem example_loss_dual :
    lossOf (mlpL exLin) (exFeats.map (fun b => Feature.base (liftBase b)))
      (liftPaths [(exMkt, 0)]) 3 (lift 1) true (liftCrit .mean) = .ok ⟨-2, -2⟩ := by
  simp [lossOf, pathPL, computeHedge, hedgeLoop, inputsAt, Feature.getAt, BaseFeature.getAt, idx,
    logIf, appendLast, lastL, unitOf, liftPaths, liftMkt, liftBase, exFeats, exMkt, exLin, mlpL,
    linearL, dotL, Feature.stateDependent, BaseFeature.stateDependent, applyCrit, liftCrit, meanR,
    plPath, gains1, cost1, first1, zipWith3L, sumL, mulL, initL, diffL, tailL, absS, lift,
    Dual.le_iff, bind, Except.bind, pure, Except.pure]
  ext <;> simp <;> norm_num

/-- … and `loss_gradient_mlp` (all of its hypotheses hold here) identifies `−2` as the partial
derivative of the real loss with respect to the weight `w₂` at `w₂ = 1` -/
theorem example_loss_gradient : ∃ ℓ : ℝ → ℝ,
    (∀ t, lossOf (mlpL (evalLayers exLinF t)) (exFeats.map Feature.base) [(exMkt, 0)] 3 1 true
      .mean = .ok (ℓ t)) ∧ ℓ 1 = -2 ∧ HasDerivAt ℓ (-2) 1 := by
  have hL : TracksLayers exLin exLinF 1 :=
    List.Forall₂.cons ⟨List.Forall₂.cons (TracksL.cons (tracks_const 1) (TracksL.single tracks_var'))
      List.Forall₂.nil, TracksL.single (tracks_const 0)⟩ List.Forall₂.nil
  obtain ⟨ℓ, h1, h2, h3⟩ := loss_gradient_mlp hL exFeats
    [(exMkt, 0)] 3 1 true .mean (fun _ _ _ _ => trivial)
    (by
      intro mz hmz rows h
      rw [List.mem_singleton] at hmz; subst hmz
      simp [hedgeRows, Feature.stateDependent, BaseFeature.stateDependent, hedgeLoop, inputsAt, Feature.getAt, BaseFeature.getAt, idx, logIf, exFeats, exMkt,
        exLinF, evalLayers, mlpL, linearL, dotL, sumL, bind, Except.bind, pure, Except.pure] at h
      subst h
      simp [unitOf, diffL])
    (fun _ _ => trivial) example_loss_dual
  exact ⟨ℓ, h1, h2.symm, h3⟩

/-! ### ensembles: `compute_loss(n_times = k)` / `price(n_times = k, enable_grad = True)` -/

/-- **The gradient of an ensemble loss is the mean of its members' gradients.**  `ensemble_mean`
(Model/Risk.lean `ensembleMean`: the single evaluation for `n_times = 1`, otherwise the mean of the
stack) evaluated at dual numbers on member losses that each track their own function of the
parameter tracks the mean of those functions: value = mean of the values, ε-part = derivative of
the mean = mean of the members' derivatives — each member weighted by `1/n_times`, whatever the
order in which they were simulated. -/
theorem ensembleMean_tracks {θ : ℝ} {Ls : List (Dual ℝ)} {ℓs : List (ℝ → ℝ)} (h : TracksL Ls ℓs θ)
    {D : Dual ℝ} (hD : ensembleMean Ls = .ok D) :
    Tracks D (fun t => sumL (evalL ℓs t) / (ℓs.length : ℝ)) θ ∧
    D.eps = sumL (Ls.map Dual.eps) / (Ls.length : ℝ) := by
  have hsum : ∀ Ds : List (Dual ℝ), (sumL Ds).eps = sumL (Ds.map Dual.eps) := by
    intro Ds; induction Ds with
    | nil => rfl
    | cons d ds ih => simp [sumL, ih]
  rcases Ls with _ | ⟨L1, _ | ⟨L2, Ls'⟩⟩
  · simp [ensembleMean] at hD
  · cases h with
    | cons hL hrest =>
      cases hrest
      simp only [ensembleMean, Except.ok.injEq] at hD
      subst hD
      refine ⟨hL.congr (fun t => ?_), by simp [sumL]⟩
      simp [evalL, sumL]
  · have hlen := h.length_eq
    simp only [ensembleMean, Except.ok.injEq] at hD
    subst hD
    have hs := (TracksL.sumL h).div_natCast (L1 :: L2 :: Ls').length
    refine ⟨by rw [← hlen]; exact hs, ?_⟩
    have hne : (((Ls'.length : ℝ) + 1 + 1)) ≠ 0 := by positivity
    simp [Dual.div_eps, hsum]
    field_simp


/-- the non-recurrent branch (`FeatureList.get(None)`, last row overwritten): feature `spot`,
module `S ↦ w S` at `w = 1`: positions `(w, 2w, 2w)`, `pl = w + 4w − 2|w| − |w| = 2w`,
loss `−mean = −2w` -/
theorem example_loss_dual_static :
    lossOf (mlpL exLin1) ([BaseFeature.underlierSpot false].map (fun b => Feature.base (liftBase b)))
      (liftPaths [(exMkt, 0)]) 3 (lift 1) true (liftCrit .mean) = .ok ⟨-2, -2⟩ := by
  simp [lossOf, pathPL, computeHedge, inputsAll, Feature.getAll, BaseFeature.getAll, dupLast,
    logIf, unitOf, liftPaths, liftMkt, liftBase, exMkt, exLin1, mlpL, linearL, dotL,
    Feature.stateDependent, BaseFeature.stateDependent, applyCrit, liftCrit, meanR,
    plPath, gains1, cost1, first1, zipWith3L, sumL, mulL, initL, diffL, tailL, absS, lift,
    Dual.le_iff, bind, Except.bind, pure, Except.pure]
  ext <;> simp <;> norm_num

theorem example_loss_gradient_static : ∃ ℓ : ℝ → ℝ,
    (∀ t, lossOf (mlpL (evalLayers exLin1F t)) ([BaseFeature.underlierSpot false].map Feature.base)
      [(exMkt, 0)] 3 1 true .mean = .ok (ℓ t)) ∧ ℓ 1 = -2 ∧ HasDerivAt ℓ (-2) 1 := by
  have hL : TracksLayers exLin1 exLin1F 1 :=
    List.Forall₂.cons ⟨List.Forall₂.cons (TracksL.single tracks_var') List.Forall₂.nil,
      TracksL.single (tracks_const 0)⟩ List.Forall₂.nil
  obtain ⟨ℓ, h1, h2, h3⟩ := loss_gradient_mlp hL [BaseFeature.underlierSpot false]
    [(exMkt, 0)] 3 1 true .mean (fun _ _ _ _ => trivial)
    (by
      intro mz hmz rows h
      rw [List.mem_singleton] at hmz; subst hmz
      simp [hedgeRows, Feature.stateDependent, BaseFeature.stateDependent, inputsAll,
        Feature.getAll, BaseFeature.getAll, logIf, exMkt, exLin1F, evalLayers, mlpL, linearL,
        dotL, sumL, initL, bind, Except.bind, pure, Except.pure] at h
      subst h
      simp [unitOf, diffL]; norm_num)
    (fun _ _ => trivial) example_loss_dual_static
  exact ⟨ℓ, h1, h2.symm, h3⟩

end PfVerif.C14
