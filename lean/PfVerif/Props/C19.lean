/-
  C19 — Bisection returns a point within the requested precision of the true root, and stops
  with an error rather than looping when it cannot converge.

  Model: Model/Bisect.lean (transcribed from pfhedge/_utils/bisect.py:9-84) instantiated at ℝ.
  Helper lemmas live in `PfVerif.C19Aux`, the property theorems in `PfVerif.C19`.

  "fn acts element-wise" is the hypothesis
    `∀ xs, xs.length = n → (fn xs).length = n ∧ ∀ i h' h'', (fn xs)[i] = f i xs[i]`
  for a family `f : ℕ → ℝ → ℝ` (a different scalar function per tensor element).
-/
import PfVerif.Model.Bisect
import PfVerif.Lemmas.ListR
import Mathlib.Topology.Order.IntermediateValue
import Mathlib.Topology.MetricSpace.Pseudo.Lemmas
import Mathlib.Topology.Instances.Real.Lemmas
import Mathlib.Tactic.Linarith
import Mathlib.Tactic.Ring
import Mathlib.Tactic.NormNum

namespace PfVerif.C19Aux
open PfVerif

/-! ### `maxL` is the maximum -/

theorem foldl_max_ge_init (x : ℝ) (xs : List ℝ) : x ≤ xs.foldl max x := by
  induction xs generalizing x with
  | nil => simp
  | cons y ys ih => exact le_trans (le_max_left x y) (ih (max x y))

theorem maxL_ge (x : ℝ) (xs : List ℝ) : ∀ y ∈ x :: xs, y ≤ maxL x xs := by
  unfold maxL
  induction xs generalizing x with
  | nil => intro y hy; simp at hy; simp [hy]
  | cons z zs ih =>
    intro y hy
    simp only [List.mem_cons] at hy
    simp only [List.foldl_cons]
    rcases hy with rfl | rfl | hy
    · exact le_trans (le_max_left _ _) (foldl_max_ge_init _ _)
    · exact le_trans (le_max_right _ _) (foldl_max_ge_init _ _)
    · exact ih (max x z) y (List.mem_cons_of_mem _ hy)

theorem maxL_mem (x : ℝ) (xs : List ℝ) : maxL x xs ∈ x :: xs := by
  unfold maxL
  induction xs generalizing x with
  | nil => simp
  | cons z zs ih =>
    simp only [List.foldl_cons]
    have h := ih (max x z)
    rcases max_choice x z with hm | hm
    · rw [hm] at h ⊢
      rcases List.mem_cons.1 h with h | h
      · rw [h]; exact List.mem_cons_self
      · exact List.mem_cons_of_mem _ (List.mem_cons_of_mem _ h)
    · rw [hm] at h ⊢
      exact List.mem_cons_of_mem _ h

/-! ### `maxWidth` -/

theorem maxWidth_ge {lower upper : List ℝ} {w : ℝ} (h : maxWidth lower upper = some w) :
    ∀ i (h1 : i < lower.length) (h2 : i < upper.length), upper[i] - lower[i] ≤ w := by
  intro i h1 h2
  unfold maxWidth at h
  split at h
  · exact absurd h (by simp)
  · rename_i w0 ws heq
    injection h with h; subst h
    have hlen : i < (List.zipWith (fun l u => u - l) lower upper).length := by
      simp only [List.length_zipWith]; omega
    have hmem : (List.zipWith (fun l u => u - l) lower upper)[i] ∈ w0 :: ws := by
      rw [← heq]; exact List.getElem_mem _
    rw [List.getElem_zipWith] at hmem
    exact maxL_ge w0 ws _ hmem

theorem maxWidth_attained {lower upper : List ℝ} {w : ℝ} (h : maxWidth lower upper = some w) :
    ∃ j, ∃ (h1 : j < lower.length) (h2 : j < upper.length), w = upper[j] - lower[j] := by
  unfold maxWidth at h
  split at h
  · exact absurd h (by simp)
  · rename_i w0 ws heq
    injection h with h; subst h
    have hmem : maxL w0 ws ∈ List.zipWith (fun l u => u - l) lower upper := by
      rw [heq]; exact maxL_mem w0 ws
    obtain ⟨j, hj, hje⟩ := List.getElem_of_mem hmem
    have hj' := hj
    simp only [List.length_zipWith] at hj'
    refine ⟨j, by omega, by omega, ?_⟩
    rw [← hje, List.getElem_zipWith]

theorem maxWidth_isSome {lower upper : List ℝ} (h1 : 0 < lower.length) (h2 : 0 < upper.length) :
    ∃ w, maxWidth lower upper = some w := by
  cases lower with
  | nil => simp at h1
  | cons l ls =>
    cases upper with
    | nil => simp at h2
    | cons u us => exact ⟨_, rfl⟩

theorem maxWidth_eq_none_of_nil {lower upper : List ℝ} (h : lower.length = 0 ∨ upper.length = 0) :
    maxWidth lower upper = none := by
  rcases h with h | h
  · have := List.eq_nil_of_length_eq_zero h; subst this; simp [maxWidth]
  · have := List.eq_nil_of_length_eq_zero h; subst this; simp [maxWidth]

/-! ### `allLt` and the direction test -/

theorem all_zipWith_elim {a b : List ℝ} (p : ℝ → ℝ → Prop) [DecidableRel p]
    (h : (List.zipWith (fun x y => decide (p x y)) a b).all id = true) :
    ∀ i (h1 : i < a.length) (h2 : i < b.length), p a[i] b[i] := by
  intro i h1 h2
  rw [List.all_eq_true] at h
  have hlen : i < (List.zipWith (fun x y => decide (p x y)) a b).length := by
    simp only [List.length_zipWith]; omega
  have := h _ (List.getElem_mem hlen)
  simpa [List.getElem_zipWith] using this

theorem allLt_true {a b : List ℝ} (h : allLt a b = true) :
    ∀ i (h1 : i < a.length) (h2 : i < b.length), a[i] < b[i] :=
  all_zipWith_elim (fun x y => x < y) h

/-- the `.all()` of an element-wise strict comparison, as a proposition -/
theorem all_zipWith_true {a b : List ℝ} (p : ℝ → ℝ → Prop) [DecidableRel p]
    (h : ∀ i (h1 : i < a.length) (h2 : i < b.length), p a[i] b[i]) :
    (List.zipWith (fun x y => decide (p x y)) a b).all id = true := by
  rw [List.all_eq_true]
  intro x hx
  obtain ⟨j, hj, hje⟩ := List.getElem_of_mem hx
  have hj' := hj
  simp only [List.length_zipWith] at hj'
  rw [← hje, List.getElem_zipWith]
  simpa using h j (by omega) (by omega)

theorem all_zipWith_false {a b : List ℝ} (p : ℝ → ℝ → Prop) [DecidableRel p]
    (i : ℕ) (h1 : i < a.length) (h2 : i < b.length) (h : ¬ p a[i] b[i]) :
    (List.zipWith (fun x y => decide (p x y)) a b).all id = false := by
  rw [List.all_eq_false]
  have hlen : i < (List.zipWith (fun x y => decide (p x y)) a b).length := by
    simp only [List.length_zipWith]; omega
  refine ⟨_, List.getElem_mem hlen, ?_⟩
  simpa [List.getElem_zipWith] using h

/-! ### unfolding equations of the loop and of `bisect` -/

theorem bisectLoop_none {fn : List ℝ → List ℝ} {target : List ℝ} {precision : ℝ} {fuel : ℕ}
    {lower upper : List ℝ} (hw : maxWidth lower upper = none) :
    bisectLoop fn target precision fuel lower upper = .error .runtimeError := by
  cases fuel <;> simp [bisectLoop, hw]

theorem bisectLoop_done {fn : List ℝ → List ℝ} {target : List ℝ} {precision : ℝ} {fuel : ℕ}
    {lower upper : List ℝ} {w : ℝ} (hw : maxWidth lower upper = some w) (hp : ¬ precision < w) :
    bisectLoop fn target precision fuel lower upper = .ok upper := by
  cases fuel <;> simp [bisectLoop, hw, hp]

theorem bisectLoop_zero {fn : List ℝ → List ℝ} {target : List ℝ} {precision : ℝ}
    {lower upper : List ℝ} {w : ℝ} (hw : maxWidth lower upper = some w) (hp : precision < w) :
    bisectLoop fn target precision 0 lower upper = .error .runtimeError := by
  simp [bisectLoop, hw, hp]

theorem bisectLoop_succ {fn : List ℝ → List ℝ} {target : List ℝ} {precision : ℝ} {fuel : ℕ}
    {lower upper : List ℝ} {w : ℝ} (hw : maxWidth lower upper = some w) (hp : precision < w) :
    bisectLoop fn target precision (fuel + 1) lower upper
      = bisectLoop fn target precision fuel (bisectStep fn target lower upper).1
          (bisectStep fn target lower upper).2 := by
  simp [bisectLoop, hw, hp]

theorem bisect_inc_eq {fn : List ℝ → List ℝ} {target lower upper : List ℝ} {precision : ℝ}
    {maxIter : ℕ} (hlt : allLt lower upper = true)
    (hdec : (List.zipWith (fun a b => decide (b < a)) (fn lower) (fn upper)).all id = false) :
    bisect fn target lower upper precision maxIter
      = bisectLoop fn target precision maxIter lower upper := by
  unfold bisect
  simp only [hlt, hdec]
  simp

theorem bisect_dec_eq {fn : List ℝ → List ℝ} {target lower upper : List ℝ} {precision : ℝ}
    {maxIter : ℕ} (hlt : allLt lower upper = true)
    (hdec : (List.zipWith (fun a b => decide (b < a)) (fn lower) (fn upper)).all id = true)
    (hdec2 : (List.zipWith (fun a b => decide (b < a)) ((fn lower).map (fun y => -y))
      ((fn upper).map (fun y => -y))).all id = false) :
    bisect fn target lower upper precision maxIter
      = bisectLoop (fun x => (fn x).map (fun y => -y)) (target.map (fun y => -y)) precision
          maxIter lower upper := by
  unfold bisect
  simp only [hlt, hdec, hdec2]
  simp

/-- if `fn` acts element-wise as `f`, then `-fn` acts element-wise as `-f` -/
theorem hfn_neg {n : ℕ} {f : ℕ → ℝ → ℝ} {fn : List ℝ → List ℝ}
    (hfn : ∀ xs : List ℝ, xs.length = n → (fn xs).length = n ∧
      ∀ i (h' : i < xs.length) (h'' : i < (fn xs).length), (fn xs)[i] = f i xs[i]) :
    ∀ xs : List ℝ, xs.length = n → ((fn xs).map (fun y => -y)).length = n ∧
      ∀ i (h' : i < xs.length) (h'' : i < ((fn xs).map (fun y => -y)).length),
        ((fn xs).map (fun y => -y))[i] = -(f i xs[i]) := by
  intro xs hxs
  obtain ⟨a, b⟩ := hfn xs hxs
  refine ⟨by simp [a], ?_⟩
  intro i h' h''
  rw [List.getElem_map, b i h' (by simpa using h'')]

/-! ### intermediate value theorem on the final bracket -/

theorem root_of_bracket {g : ℝ → ℝ} {lo up l' res t p : ℝ}
    (hc : ContinuousOn g (Set.Icc lo up)) (h1 : lo ≤ l') (h2 : l' ≤ res) (h3 : res ≤ up)
    (h4 : g l' ≤ t) (h5 : t ≤ g res) (h6 : res - l' ≤ p) :
    ∃ r, lo ≤ r ∧ r ≤ res ∧ res ≤ up ∧ g r = t ∧ res - r ≤ p := by
  have hc' : ContinuousOn g (Set.Icc l' res) := hc.mono (Set.Icc_subset_Icc h1 h3)
  obtain ⟨r, ⟨hr1, hr2⟩, hr⟩ := intermediate_value_Icc h2 hc' ⟨h4, h5⟩
  exact ⟨r, le_trans h1 hr1, hr2, h3, hr, by linarith⟩

end PfVerif.C19Aux

namespace PfVerif.C19
open PfVerif PfVerif.C19Aux

/-! ### one iteration -/

/-- **One iteration, element-wise.** With `m = (lower[i] + upper[i]) / 2` the two `where`
updates are `lower.where(fn(m) >= target, m)` and `upper.where(fn(m) < target, m)`; both
outputs keep the length `n`.  Holds for every `n` (including `0`). -/
theorem bisectStep_spec (n : ℕ) (f : ℕ → ℝ → ℝ) (fn : List ℝ → List ℝ)
    (target lower upper l' u' : List ℝ)
    (hl : lower.length = n) (hu : upper.length = n) (ht : target.length = n)
    (hfn : ∀ xs : List ℝ, xs.length = n → (fn xs).length = n ∧
      ∀ i (h' : i < xs.length) (h'' : i < (fn xs).length), (fn xs)[i] = f i xs[i])
    (hs : bisectStep fn target lower upper = (l', u')) :
    l'.length = n ∧ u'.length = n ∧
    ∀ i (h1 : i < lower.length) (h2 : i < upper.length) (h3 : i < target.length)
      (h4 : i < l'.length) (h5 : i < u'.length),
      l'[i] = (if target[i] ≤ f i ((lower[i] + upper[i]) / 2) then lower[i]
               else (lower[i] + upper[i]) / 2) ∧
      u'[i] = (if f i ((lower[i] + upper[i]) / 2) < target[i] then upper[i]
               else (lower[i] + upper[i]) / 2) := by
  obtain ⟨rfl, rfl⟩ : l' = (bisectStep fn target lower upper).1 ∧
      u' = (bisectStep fn target lower upper).2 := by rw [hs]; exact ⟨rfl, rfl⟩
  have hm : (List.zipWith (fun l u => (l + u) / 2) lower upper).length = n := by
    simp [hl, hu]
  obtain ⟨hlen, hget⟩ := hfn _ hm
  refine ⟨by simp [bisectStep, hl, hu, ht, hlen], by simp [bisectStep, hl, hu, ht, hlen], ?_⟩
  intro i h1 h2 h3 h4 h5
  have hi : i < n := hl ▸ h1
  have hfm := hget i (by rw [hm]; exact hi) (by rw [hlen]; exact hi)
  rw [List.getElem_zipWith] at hfm
  constructor
  · simp [bisectStep, hfm]
  · simp [bisectStep, hfm]

/-- **The bracket invariant is preserved and brackets are nested.**  If
`f i lower[i] ≤ target[i] ≤ f i upper[i]` and `lower[i] ≤ upper[i]` for every element, the same
holds after one iteration, and `lower[i] ≤ lower'[i]`, `upper'[i] ≤ upper[i]`.
No monotonicity or continuity of `f i` is needed for this. -/
theorem bisectStep_invariant (n : ℕ) (f : ℕ → ℝ → ℝ) (fn : List ℝ → List ℝ)
    (target lower upper l' u' : List ℝ)
    (hl : lower.length = n) (hu : upper.length = n) (ht : target.length = n)
    (hfn : ∀ xs : List ℝ, xs.length = n → (fn xs).length = n ∧
      ∀ i (h' : i < xs.length) (h'' : i < (fn xs).length), (fn xs)[i] = f i xs[i])
    (hinv : ∀ i (h1 : i < lower.length) (h2 : i < upper.length) (h3 : i < target.length),
      f i lower[i] ≤ target[i] ∧ target[i] ≤ f i upper[i] ∧ lower[i] ≤ upper[i])
    (hs : bisectStep fn target lower upper = (l', u')) :
    ∀ i (h1 : i < lower.length) (h2 : i < upper.length) (h3 : i < target.length)
      (h4 : i < l'.length) (h5 : i < u'.length),
      (f i l'[i] ≤ target[i] ∧ target[i] ≤ f i u'[i] ∧ l'[i] ≤ u'[i]) ∧
      lower[i] ≤ l'[i] ∧ u'[i] ≤ upper[i] := by
  intro i h1 h2 h3 h4 h5
  obtain ⟨_, _, hsp⟩ := bisectStep_spec n f fn target lower upper l' u' hl hu ht hfn hs
  obtain ⟨e1, e2⟩ := hsp i h1 h2 h3 h4 h5
  obtain ⟨a, b, c⟩ := hinv i h1 h2 h3
  rw [e1, e2]
  by_cases hc : target[i] ≤ f i ((lower[i] + upper[i]) / 2)
  · have hc' : ¬ f i ((lower[i] + upper[i]) / 2) < target[i] := not_lt.2 hc
    simp only [if_pos hc, if_neg hc']
    exact ⟨⟨a, hc, by linarith⟩, le_rfl, by linarith⟩
  · have hc' : f i ((lower[i] + upper[i]) / 2) < target[i] := not_le.1 hc
    simp only [if_neg hc, if_pos hc']
    exact ⟨⟨le_of_lt hc', b, by linarith⟩, by linarith, le_rfl⟩

/-- **Every bracket is halved exactly** (whatever `f` is). -/
theorem bisectStep_width (n : ℕ) (f : ℕ → ℝ → ℝ) (fn : List ℝ → List ℝ)
    (target lower upper l' u' : List ℝ)
    (hl : lower.length = n) (hu : upper.length = n) (ht : target.length = n)
    (hfn : ∀ xs : List ℝ, xs.length = n → (fn xs).length = n ∧
      ∀ i (h' : i < xs.length) (h'' : i < (fn xs).length), (fn xs)[i] = f i xs[i])
    (hs : bisectStep fn target lower upper = (l', u')) :
    ∀ i (h1 : i < lower.length) (h2 : i < upper.length)
      (h4 : i < l'.length) (h5 : i < u'.length),
      u'[i] - l'[i] = (upper[i] - lower[i]) / 2 := by
  intro i h1 h2 h4 h5
  obtain ⟨_, _, hsp⟩ := bisectStep_spec n f fn target lower upper l' u' hl hu ht hfn hs
  obtain ⟨e1, e2⟩ := hsp i h1 h2 (by omega) h4 h5
  rw [e1, e2]
  by_cases hc : target[i]'(by omega) ≤ f i ((lower[i] + upper[i]) / 2)
  · have hc' : ¬ f i ((lower[i] + upper[i]) / 2) < target[i]'(by omega) := not_lt.2 hc
    simp only [if_pos hc, if_neg hc']; ring
  · have hc' : f i ((lower[i] + upper[i]) / 2) < target[i]'(by omega) := not_le.1 hc
    simp only [if_neg hc, if_pos hc']; ring

/-- **The loop condition `torch.max(upper - lower)` is halved exactly** by one iteration. -/
theorem bisectStep_maxWidth (n : ℕ) (f : ℕ → ℝ → ℝ) (fn : List ℝ → List ℝ)
    (target lower upper l' u' : List ℝ) (w : ℝ)
    (hl : lower.length = n) (hu : upper.length = n) (ht : target.length = n)
    (hfn : ∀ xs : List ℝ, xs.length = n → (fn xs).length = n ∧
      ∀ i (h' : i < xs.length) (h'' : i < (fn xs).length), (fn xs)[i] = f i xs[i])
    (hs : bisectStep fn target lower upper = (l', u'))
    (hw : maxWidth lower upper = some w) :
    maxWidth l' u' = some (w / 2) := by
  obtain ⟨hl', hu', _⟩ := bisectStep_spec n f fn target lower upper l' u' hl hu ht hfn hs
  have hwid := bisectStep_width n f fn target lower upper l' u' hl hu ht hfn hs
  obtain ⟨j, hj1, hj2, hj⟩ := maxWidth_attained hw
  obtain ⟨w', hw'⟩ := maxWidth_isSome (lower := l') (upper := u') (by omega) (by omega)
  obtain ⟨k, hk1, hk2, hk⟩ := maxWidth_attained hw'
  have h1 : w' ≤ w / 2 := by
    rw [hk, hwid k (by omega) (by omega) hk1 hk2]
    have := maxWidth_ge hw k (by omega) (by omega)
    linarith
  have h2 : w / 2 ≤ w' := by
    have := maxWidth_ge hw' j (by omega) (by omega)
    rw [hwid j hj1 hj2 (by omega) (by omega)] at this
    rw [hj]; exact this
  rw [hw', le_antisymm h1 h2]

/-! ### the loop -/

/-- **Loop post-condition.**  If the loop returns `res` (for any fuel / `max_iter`), started
from brackets satisfying the invariant, then `res` is the final upper end and there is a final
lower end `l'` with `lower[i] ≤ l' ≤ res[i] ≤ upper[i]`, the target still bracketed
(`f i l' ≤ target[i] ≤ f i res[i]`) and `res[i] - l' ≤ precision`.  (`n ≥ 1` is implied: on
empty tensors the loop returns an error.) -/
theorem bisectLoop_spec (n : ℕ) (f : ℕ → ℝ → ℝ) (fn : List ℝ → List ℝ)
    (target : List ℝ) (precision : ℝ) (fuel : ℕ) (lower upper res : List ℝ)
    (hl : lower.length = n) (hu : upper.length = n) (ht : target.length = n)
    (hfn : ∀ xs : List ℝ, xs.length = n → (fn xs).length = n ∧
      ∀ i (h' : i < xs.length) (h'' : i < (fn xs).length), (fn xs)[i] = f i xs[i])
    (hinv : ∀ i (h1 : i < lower.length) (h2 : i < upper.length) (h3 : i < target.length),
      f i lower[i] ≤ target[i] ∧ target[i] ≤ f i upper[i] ∧ lower[i] ≤ upper[i])
    (hok : bisectLoop fn target precision fuel lower upper = .ok res) :
    res.length = n ∧ 1 ≤ n ∧
    ∀ i (h1 : i < lower.length) (h2 : i < upper.length) (h3 : i < target.length)
      (h4 : i < res.length),
      ∃ l', lower[i] ≤ l' ∧ l' ≤ res[i] ∧ res[i] ≤ upper[i] ∧
        f i l' ≤ target[i] ∧ target[i] ≤ f i res[i] ∧ res[i] - l' ≤ precision := by
  have done : ∀ (lower upper : List ℝ) (w : ℝ), lower.length = n → upper.length = n →
      (∀ i (h1 : i < lower.length) (h2 : i < upper.length) (h3 : i < target.length),
        f i lower[i] ≤ target[i] ∧ target[i] ≤ f i upper[i] ∧ lower[i] ≤ upper[i]) →
      maxWidth lower upper = some w → ¬ precision < w →
      upper.length = n ∧ 1 ≤ n ∧
      ∀ i (h1 : i < lower.length) (h2 : i < upper.length) (h3 : i < target.length)
        (h4 : i < upper.length),
        ∃ l', lower[i] ≤ l' ∧ l' ≤ upper[i] ∧ upper[i] ≤ upper[i] ∧
          f i l' ≤ target[i] ∧ target[i] ≤ f i upper[i] ∧ upper[i] - l' ≤ precision := by
    intro lower upper w hl hu hinv hw hp
    obtain ⟨j, hj1, _, _⟩ := maxWidth_attained hw
    refine ⟨hu, by omega, ?_⟩
    intro i h1 h2 h3 _
    obtain ⟨a, b, c⟩ := hinv i h1 h2 h3
    have := maxWidth_ge hw i h1 h2
    exact ⟨lower[i], le_rfl, c, le_rfl, a, b, by linarith [not_lt.1 hp]⟩
  induction fuel generalizing lower upper with
  | zero =>
    cases hw : maxWidth lower upper with
    | none => rw [bisectLoop_none hw] at hok; cases hok
    | some w =>
      by_cases hp : precision < w
      · rw [bisectLoop_zero hw hp] at hok; cases hok
      · rw [bisectLoop_done hw hp] at hok
        injection hok with hok; subst hok
        exact done lower upper w hl hu hinv hw hp
  | succ k ih =>
    cases hw : maxWidth lower upper with
    | none => rw [bisectLoop_none hw] at hok; cases hok
    | some w =>
      by_cases hp : precision < w
      · rw [bisectLoop_succ hw hp] at hok
        obtain ⟨hl', hu', _⟩ := bisectStep_spec n f fn target lower upper _ _ hl hu ht hfn rfl
        have hstep := bisectStep_invariant n f fn target lower upper _ _ hl hu ht hfn hinv rfl
        obtain ⟨hr, hn, hres⟩ := ih _ _ hl' hu'
          (fun i h1 h2 h3 => (hstep i (by omega) (by omega) h3 h1 h2).1) hok
        refine ⟨hr, hn, ?_⟩
        intro i h1 h2 h3 h4
        obtain ⟨r, r1, r2, r3, r4, r5, r6⟩ := hres i (by omega) (by omega) h3 h4
        obtain ⟨_, n1, n2⟩ := hstep i h1 h2 h3 (by omega) (by omega)
        exact ⟨r, le_trans n1 r1, r2, le_trans r3 n2, r4, r5, r6⟩
      · rw [bisectLoop_done hw hp] at hok
        injection hok with hok; subst hok
        exact done lower upper w hl hu hinv hw hp

/-- **Loop + intermediate value theorem.**  If moreover every `f i` is continuous on its
initial bracket `[lower[i], upper[i]]`, the returned `res[i]` lies within `precision` above a
true root `r` of `f i r = target[i]` inside the bracket. -/
theorem bisectLoop_root (n : ℕ) (f : ℕ → ℝ → ℝ) (fn : List ℝ → List ℝ)
    (target : List ℝ) (precision : ℝ) (fuel : ℕ) (lower upper res : List ℝ)
    (hl : lower.length = n) (hu : upper.length = n) (ht : target.length = n)
    (hfn : ∀ xs : List ℝ, xs.length = n → (fn xs).length = n ∧
      ∀ i (h' : i < xs.length) (h'' : i < (fn xs).length), (fn xs)[i] = f i xs[i])
    (hcont : ∀ i (h1 : i < lower.length) (h2 : i < upper.length),
      ContinuousOn (f i) (Set.Icc lower[i] upper[i]))
    (hinv : ∀ i (h1 : i < lower.length) (h2 : i < upper.length) (h3 : i < target.length),
      f i lower[i] ≤ target[i] ∧ target[i] ≤ f i upper[i] ∧ lower[i] ≤ upper[i])
    (hok : bisectLoop fn target precision fuel lower upper = .ok res) :
    res.length = n ∧ 1 ≤ n ∧
    ∀ i (h1 : i < lower.length) (h2 : i < upper.length) (h3 : i < target.length)
      (h4 : i < res.length),
      ∃ r, lower[i] ≤ r ∧ r ≤ res[i] ∧ res[i] ≤ upper[i] ∧ f i r = target[i] ∧
        res[i] - r ≤ precision := by
  obtain ⟨hr, hn, hres⟩ :=
    bisectLoop_spec n f fn target precision fuel lower upper res hl hu ht hfn hinv hok
  refine ⟨hr, hn, ?_⟩
  intro i h1 h2 h3 h4
  obtain ⟨l', a1, a2, a3, a4, a5, a6⟩ := hres i h1 h2 h3 h4
  exact root_of_bracket (hcont i h1 h2) a1 a2 a3 a4 a5 a6

/-! ### `bisect` -/

/-- On empty tensors `bisect` never returns a value (the model: `RecursionError`, because
`.all()` of nothing is `True` at every recursion level). -/
theorem bisect_empty (fn : List ℝ → List ℝ) (target : List ℝ) (precision : ℝ) (maxIter : ℕ)
    (hfn0 : fn [] = []) : bisect fn target [] [] precision maxIter = .error .recursionError := by
  simp [bisect, allLt, hfn0]

/-- **C19, increasing direction.**  Hypotheses: `fn` acts element-wise as `f i`; each `f i` is
`ContinuousOn` the initial bracket `[lower[i], upper[i]]` (weaker than continuity on ℝ);
`(lower < upper).all()`; every target is inside the range, `f i lower[i] ≤ target[i] ≤
f i upper[i]`.  Monotonicity is *not* needed (only the sign condition at the ends), and the
hypothesis "the direction test `(fn(lower) > fn(upper)).all()` is false" of the informal
statement is *derived* (for `n ≥ 1` it follows from the range hypothesis; for `n = 0` `bisect`
does not return), so the theorem is stated without it.
Conclusion: whenever `bisect` returns `res` (any `precision`, any `max_iter`), `res` has the
length of the inputs and every `res[i]` is in the bracket and at most `precision` above a true
root `r` of `f i r = target[i]`. -/
theorem bisect_increasing_spec (n : ℕ) (f : ℕ → ℝ → ℝ) (fn : List ℝ → List ℝ)
    (target lower upper : List ℝ) (precision : ℝ) (maxIter : ℕ) (res : List ℝ)
    (hl : lower.length = n) (hu : upper.length = n) (ht : target.length = n)
    (hfn : ∀ xs : List ℝ, xs.length = n → (fn xs).length = n ∧
      ∀ i (h' : i < xs.length) (h'' : i < (fn xs).length), (fn xs)[i] = f i xs[i])
    (hcont : ∀ i (h1 : i < lower.length) (h2 : i < upper.length),
      ContinuousOn (f i) (Set.Icc lower[i] upper[i]))
    (hlt : allLt lower upper = true)
    (hrange : ∀ i (h1 : i < lower.length) (h2 : i < upper.length) (h3 : i < target.length),
      f i lower[i] ≤ target[i] ∧ target[i] ≤ f i upper[i])
    (hok : bisect fn target lower upper precision maxIter = .ok res) :
    res.length = n ∧
    ∀ i (h1 : i < lower.length) (h2 : i < upper.length) (h3 : i < target.length)
      (h4 : i < res.length),
      ∃ r, lower[i] ≤ r ∧ r ≤ res[i] ∧ res[i] ≤ upper[i] ∧ f i r = target[i] ∧
        res[i] - r ≤ precision := by
  have hn : 0 < n := by
    by_contra h0
    have h0 : n = 0 := by omega
    subst h0
    have e1 := List.eq_nil_of_length_eq_zero hl
    have e2 := List.eq_nil_of_length_eq_zero hu
    subst e1 e2
    rw [bisect_empty fn target precision maxIter
      (List.eq_nil_of_length_eq_zero (hfn [] rfl).1)] at hok
    cases hok
  obtain ⟨hfl, hgl⟩ := hfn lower hl
  obtain ⟨hfu, hgu⟩ := hfn upper hu
  have hdec : (List.zipWith (fun a b => decide (b < a)) (fn lower) (fn upper)).all id
      = false := by
    refine all_zipWith_false (fun a b => b < a) 0 (by omega) (by omega) ?_
    show ¬ (fn upper)[0]'(by omega) < (fn lower)[0]'(by omega)
    rw [hgl 0 (by omega) (by omega), hgu 0 (by omega) (by omega)]
    obtain ⟨a, b⟩ := hrange 0 (by omega) (by omega) (by omega)
    exact not_lt.2 (le_trans a b)
  rw [bisect_inc_eq hlt hdec] at hok
  have hlt' := allLt_true hlt
  obtain ⟨hr, _, hres⟩ := bisectLoop_root n f fn target precision maxIter lower upper res
    hl hu ht hfn hcont
    (fun i h1 h2 h3 => ⟨(hrange i h1 h2 h3).1, (hrange i h1 h2 h3).2, le_of_lt (hlt' i h1 h2)⟩)
    hok
  exact ⟨hr, hres⟩

/-- **C19, decreasing direction.**  When the direction test succeeds
(`f i upper[i] < f i lower[i]` for *all* elements) and every target is inside the range,
`f i upper[i] ≤ target[i] ≤ f i lower[i]`, the model (as the code) recurses on `-fn`, `-target`;
the conclusion is the same as in the increasing case, with the root on the *lower* side of
`res[i]`: `r ≤ res[i] ≤ r + precision`.  The hypothesis `hdir` cannot be dropped: if only some
elements decrease the code runs the increasing-direction loop on them (see `bisect` in the
model), which is outside this theorem. -/
theorem bisect_decreasing_spec (n : ℕ) (f : ℕ → ℝ → ℝ) (fn : List ℝ → List ℝ)
    (target lower upper : List ℝ) (precision : ℝ) (maxIter : ℕ) (res : List ℝ)
    (hl : lower.length = n) (hu : upper.length = n) (ht : target.length = n)
    (hfn : ∀ xs : List ℝ, xs.length = n → (fn xs).length = n ∧
      ∀ i (h' : i < xs.length) (h'' : i < (fn xs).length), (fn xs)[i] = f i xs[i])
    (hcont : ∀ i (h1 : i < lower.length) (h2 : i < upper.length),
      ContinuousOn (f i) (Set.Icc lower[i] upper[i]))
    (hlt : allLt lower upper = true)
    (hdir : ∀ i (h1 : i < lower.length) (h2 : i < upper.length), f i upper[i] < f i lower[i])
    (hrange : ∀ i (h1 : i < lower.length) (h2 : i < upper.length) (h3 : i < target.length),
      f i upper[i] ≤ target[i] ∧ target[i] ≤ f i lower[i])
    (hok : bisect fn target lower upper precision maxIter = .ok res) :
    res.length = n ∧
    ∀ i (h1 : i < lower.length) (h2 : i < upper.length) (h3 : i < target.length)
      (h4 : i < res.length),
      ∃ r, lower[i] ≤ r ∧ r ≤ res[i] ∧ res[i] ≤ upper[i] ∧ f i r = target[i] ∧
        res[i] - r ≤ precision := by
  have hn : 0 < n := by
    by_contra h0
    have h0 : n = 0 := by omega
    subst h0
    have e1 := List.eq_nil_of_length_eq_zero hl
    have e2 := List.eq_nil_of_length_eq_zero hu
    subst e1 e2
    rw [bisect_empty fn target precision maxIter
      (List.eq_nil_of_length_eq_zero (hfn [] rfl).1)] at hok
    cases hok
  obtain ⟨hfl, hgl⟩ := hfn lower hl
  obtain ⟨hfu, hgu⟩ := hfn upper hu
  have hdec : (List.zipWith (fun a b => decide (b < a)) (fn lower) (fn upper)).all id
      = true := by
    refine all_zipWith_true (fun a b => b < a) ?_
    intro i h1 h2
    show (fn upper)[i] < (fn lower)[i]
    rw [hgl i (by omega) h1, hgu i (by omega) h2]
    exact hdir i (by omega) (by omega)
  have hdec2 : (List.zipWith (fun a b => decide (b < a)) ((fn lower).map (fun y => -y))
      ((fn upper).map (fun y => -y))).all id = false := by
    refine all_zipWith_false (fun a b => b < a) 0 (by simp; omega) (by simp; omega) ?_
    show ¬ ((fn upper).map (fun y => -y))[0]'(by simp; omega)
      < ((fn lower).map (fun y => -y))[0]'(by simp; omega)
    rw [List.getElem_map, List.getElem_map, hgl 0 (by omega) (by omega),
      hgu 0 (by omega) (by omega)]
    have := hdir 0 (by omega) (by omega)
    intro h; linarith
  rw [bisect_dec_eq hlt hdec hdec2] at hok
  have hlt' := allLt_true hlt
  obtain ⟨hr, _, hres⟩ := bisectLoop_root n (fun i x => -(f i x))
    (fun x => (fn x).map (fun y => -y)) (target.map (fun y => -y)) precision maxIter lower upper
    res hl hu (by simpa using ht) (hfn_neg hfn) (fun i h1 h2 => (hcont i h1 h2).neg)
    (fun i h1 h2 h3 => by
      have h3' : i < target.length := by simpa using h3
      obtain ⟨a, b⟩ := hrange i h1 h2 h3'
      rw [List.getElem_map]
      exact ⟨by linarith, by linarith, le_of_lt (hlt' i h1 h2)⟩)
    hok
  refine ⟨hr, ?_⟩
  intro i h1 h2 h3 h4
  obtain ⟨r, r1, r2, r3, r4, r5⟩ := hres i h1 h2 (by simpa using h3) h4
  rw [List.getElem_map] at r4
  exact ⟨r, r1, r2, r3, neg_inj.1 r4, r5⟩

/-- **Bad bracket.**  If `(lower < upper).all()` fails, `bisect` raises `ValueError`. -/
theorem bisect_bad_bracket (fn : List ℝ → List ℝ) (target lower upper : List ℝ) (precision : ℝ)
    (maxIter : ℕ) (h : allLt lower upper = false) :
    bisect fn target lower upper precision maxIter = .error .valueError := by
  simp [bisect, h]

/-- in particular when a single element has `upper[i] ≤ lower[i]` -/
theorem bisect_bad_bracket_elem (fn : List ℝ → List ℝ) (target lower upper : List ℝ)
    (precision : ℝ) (maxIter : ℕ) (i : ℕ) (h1 : i < lower.length) (h2 : i < upper.length)
    (h : upper[i] ≤ lower[i]) :
    bisect fn target lower upper precision maxIter = .error .valueError :=
  bisect_bad_bracket fn target lower upper precision maxIter
    (all_zipWith_false (fun x y => x < y) i h1 h2 (not_lt.2 h))

/-! ### termination: an error instead of a loop

`bisectLoop` is defined by structural recursion on the fuel (`max_iter`), so it terminates on
every input by construction: each iteration consumes one unit of fuel and with no fuel left
the model (as the code, `n_iter > max_iter`) raises `RuntimeError`.  The theorems below say
exactly when that happens: the maximal width is halved by every iteration
(`bisectStep_maxWidth`), so with initial maximal width `w ≥ 0` the loop returns a value iff
`w / 2 ^ max_iter ≤ precision` and raises `RuntimeError` otherwise. -/

/-- out of fuel while the width still exceeds the precision: `RuntimeError` -/
theorem bisectLoop_fuel_zero (fn : List ℝ → List ℝ) (target : List ℝ) (precision : ℝ)
    (lower upper : List ℝ) (w : ℝ) (hw : maxWidth lower upper = some w) (hp : precision < w) :
    bisectLoop fn target precision 0 lower upper = .error .runtimeError :=
  bisectLoop_zero hw hp

/-- `torch.max` of an empty tensor raises -/
theorem bisectLoop_empty (fn : List ℝ → List ℝ) (target : List ℝ) (precision : ℝ) (fuel : ℕ)
    (lower upper : List ℝ) (h : lower.length = 0 ∨ upper.length = 0) :
    bisectLoop fn target precision fuel lower upper = .error .runtimeError :=
  bisectLoop_none (maxWidth_eq_none_of_nil h)

/-- **Enough fuel ⇒ a value.**  If the initial maximal width `w` satisfies
`w / 2 ^ fuel ≤ precision`, the loop returns. (No assumption on `f`, `target` or the sign of
`w`.) -/
theorem bisectLoop_ok_of_fuel (n : ℕ) (f : ℕ → ℝ → ℝ) (fn : List ℝ → List ℝ)
    (target : List ℝ) (precision : ℝ) (fuel : ℕ) (lower upper : List ℝ) (w : ℝ)
    (hl : lower.length = n) (hu : upper.length = n) (ht : target.length = n)
    (hfn : ∀ xs : List ℝ, xs.length = n → (fn xs).length = n ∧
      ∀ i (h' : i < xs.length) (h'' : i < (fn xs).length), (fn xs)[i] = f i xs[i])
    (hw : maxWidth lower upper = some w) (hp : w / 2 ^ fuel ≤ precision) :
    ∃ res, bisectLoop fn target precision fuel lower upper = .ok res := by
  induction fuel generalizing lower upper w with
  | zero =>
    simp only [pow_zero, div_one] at hp
    exact ⟨upper, bisectLoop_done hw (not_lt.2 hp)⟩
  | succ k ih =>
    by_cases hq : precision < w
    · rw [bisectLoop_succ hw hq]
      obtain ⟨hl', hu', _⟩ := bisectStep_spec n f fn target lower upper _ _ hl hu ht hfn rfl
      have hw' := bisectStep_maxWidth n f fn target lower upper _ _ w hl hu ht hfn rfl hw
      exact ih _ _ (w / 2) hl' hu' hw' (by rw [div_div, ← pow_succ']; exact hp)
    · exact ⟨upper, bisectLoop_done hw hq⟩

/-- **Not enough fuel ⇒ `RuntimeError`, never a loop.**  If `0 ≤ w` and
`precision < w / 2 ^ fuel`, the loop stops with `RuntimeError` after exactly `fuel` iterations.
(`0 ≤ w` is needed: for a negative maximal width `w / 2 ^ fuel` exceeds `w`, and the loop would
return at once; under `bisect`'s bracket check `w > 0`.) -/
theorem bisectLoop_error_of_fuel (n : ℕ) (f : ℕ → ℝ → ℝ) (fn : List ℝ → List ℝ)
    (target : List ℝ) (precision : ℝ) (fuel : ℕ) (lower upper : List ℝ) (w : ℝ)
    (hl : lower.length = n) (hu : upper.length = n) (ht : target.length = n)
    (hfn : ∀ xs : List ℝ, xs.length = n → (fn xs).length = n ∧
      ∀ i (h' : i < xs.length) (h'' : i < (fn xs).length), (fn xs)[i] = f i xs[i])
    (hw : maxWidth lower upper = some w) (h0 : 0 ≤ w) (hp : precision < w / 2 ^ fuel) :
    bisectLoop fn target precision fuel lower upper = .error .runtimeError := by
  induction fuel generalizing lower upper w with
  | zero =>
    simp only [pow_zero, div_one] at hp
    exact bisectLoop_zero hw hp
  | succ k ih =>
    have hq : precision < w :=
      lt_of_lt_of_le hp (div_le_self h0 (one_le_pow₀ (by norm_num)))
    rw [bisectLoop_succ hw hq]
    obtain ⟨hl', hu', _⟩ := bisectStep_spec n f fn target lower upper _ _ hl hu ht hfn rfl
    have hw' := bisectStep_maxWidth n f fn target lower upper _ _ w hl hu ht hfn rfl hw
    exact ih _ _ (w / 2) hl' hu' hw' (by linarith) (by rw [div_div, ← pow_succ']; exact hp)

/-- the two previous theorems as an equivalence -/
theorem bisectLoop_ok_iff (n : ℕ) (f : ℕ → ℝ → ℝ) (fn : List ℝ → List ℝ)
    (target : List ℝ) (precision : ℝ) (fuel : ℕ) (lower upper : List ℝ) (w : ℝ)
    (hl : lower.length = n) (hu : upper.length = n) (ht : target.length = n)
    (hfn : ∀ xs : List ℝ, xs.length = n → (fn xs).length = n ∧
      ∀ i (h' : i < xs.length) (h'' : i < (fn xs).length), (fn xs)[i] = f i xs[i])
    (hw : maxWidth lower upper = some w) (h0 : 0 ≤ w) :
    (∃ res, bisectLoop fn target precision fuel lower upper = .ok res)
      ↔ w / 2 ^ fuel ≤ precision := by
  constructor
  · rintro ⟨res, hres⟩
    by_contra hc
    rw [bisectLoop_error_of_fuel n f fn target precision fuel lower upper w hl hu ht hfn hw h0
      (not_le.1 hc)] at hres
    cases hres
  · exact bisectLoop_ok_of_fuel n f fn target precision fuel lower upper w hl hu ht hfn hw

/-- **`bisect` stops with `RuntimeError` rather than looping** when `max_iter` halvings of the
initial maximal width `w` cannot reach the precision — in either direction (increasing: loop on
`fn`; decreasing: loop on `-fn`), for every element-wise `fn` whatsoever. -/
theorem bisect_never_loops (n : ℕ) (f : ℕ → ℝ → ℝ) (fn : List ℝ → List ℝ)
    (target lower upper : List ℝ) (precision : ℝ) (maxIter : ℕ) (w : ℝ)
    (hl : lower.length = n) (hu : upper.length = n) (ht : target.length = n)
    (hfn : ∀ xs : List ℝ, xs.length = n → (fn xs).length = n ∧
      ∀ i (h' : i < xs.length) (h'' : i < (fn xs).length), (fn xs)[i] = f i xs[i])
    (hlt : allLt lower upper = true)
    (hw : maxWidth lower upper = some w) (hp : precision < w / 2 ^ maxIter) :
    bisect fn target lower upper precision maxIter = .error .runtimeError := by
  obtain ⟨j, hj1, hj2, hj⟩ := maxWidth_attained hw
  have hn : 0 < n := by omega
  have h0 : 0 ≤ w := by
    have := allLt_true hlt j hj1 hj2
    rw [hj]; linarith
  obtain ⟨hfl, hgl⟩ := hfn lower hl
  obtain ⟨hfu, hgu⟩ := hfn upper hu
  cases hdec : (List.zipWith (fun a b => decide (b < a)) (fn lower) (fn upper)).all id with
  | false =>
    rw [bisect_inc_eq hlt hdec]
    exact bisectLoop_error_of_fuel n f fn target precision maxIter lower upper w hl hu ht hfn
      hw h0 hp
  | true =>
    have h := all_zipWith_elim (fun a b => b < a) hdec 0 (by omega) (by omega)
    have hdec2 : (List.zipWith (fun a b => decide (b < a)) ((fn lower).map (fun y => -y))
        ((fn upper).map (fun y => -y))).all id = false := by
      refine all_zipWith_false (fun a b => b < a) 0 (by simp; omega) (by simp; omega) ?_
      show ¬ ((fn upper).map (fun y => -y))[0]'(by simp; omega)
        < ((fn lower).map (fun y => -y))[0]'(by simp; omega)
      rw [List.getElem_map, List.getElem_map]
      intro h'
      have h : (fn upper)[0]'(by omega) < (fn lower)[0]'(by omega) := h
      linarith
    rw [bisect_dec_eq hlt hdec hdec2]
    exact bisectLoop_error_of_fuel n (fun i x => -(f i x)) (fun x => (fn x).map (fun y => -y))
      (target.map (fun y => -y)) precision maxIter lower upper w hl hu (by simpa using ht)
      (hfn_neg hfn) hw h0 hp

/-- conversely, with enough iterations `bisect` returns a value on every valid bracket -/
theorem bisect_ok_of_maxIter (n : ℕ) (f : ℕ → ℝ → ℝ) (fn : List ℝ → List ℝ)
    (target lower upper : List ℝ) (precision : ℝ) (maxIter : ℕ) (w : ℝ)
    (hl : lower.length = n) (hu : upper.length = n) (ht : target.length = n)
    (hfn : ∀ xs : List ℝ, xs.length = n → (fn xs).length = n ∧
      ∀ i (h' : i < xs.length) (h'' : i < (fn xs).length), (fn xs)[i] = f i xs[i])
    (hlt : allLt lower upper = true)
    (hw : maxWidth lower upper = some w) (hp : w / 2 ^ maxIter ≤ precision) :
    ∃ res, bisect fn target lower upper precision maxIter = .ok res := by
  obtain ⟨j, hj1, hj2, hj⟩ := maxWidth_attained hw
  have hn : 0 < n := by omega
  obtain ⟨hfl, hgl⟩ := hfn lower hl
  obtain ⟨hfu, hgu⟩ := hfn upper hu
  cases hdec : (List.zipWith (fun a b => decide (b < a)) (fn lower) (fn upper)).all id with
  | false =>
    rw [bisect_inc_eq hlt hdec]
    exact bisectLoop_ok_of_fuel n f fn target precision maxIter lower upper w hl hu ht hfn hw hp
  | true =>
    have h := all_zipWith_elim (fun a b => b < a) hdec 0 (by omega) (by omega)
    have hdec2 : (List.zipWith (fun a b => decide (b < a)) ((fn lower).map (fun y => -y))
        ((fn upper).map (fun y => -y))).all id = false := by
      refine all_zipWith_false (fun a b => b < a) 0 (by simp; omega) (by simp; omega) ?_
      show ¬ ((fn upper).map (fun y => -y))[0]'(by simp; omega)
        < ((fn lower).map (fun y => -y))[0]'(by simp; omega)
      rw [List.getElem_map, List.getElem_map]
      intro h'
      have h : (fn upper)[0]'(by omega) < (fn lower)[0]'(by omega) := h
      linarith
    rw [bisect_dec_eq hlt hdec hdec2]
    exact bisectLoop_ok_of_fuel n (fun i x => -(f i x)) (fun x => (fn x).map (fun y => -y))
      (target.map (fun y => -y)) precision maxIter lower upper w hl hu (by simpa using ht)
      (hfn_neg hfn) hw hp

/-! ### non-vacuity -/

/-- the model evaluated on `fn x = 2x+1`, bracket `[0,1]`, target `2`, precision `1/4`:
two iterations, result `1/2` (the exact root here). -/
example : bisect (fun xs => xs.map (fun x => 2 * x + 1)) [2] [0] [1] ((1 : ℝ) / 4) 10
    = .ok [1 / 2] := by
  norm_num [bisect, allLt, bisectLoop, maxWidth, maxL, bisectStep]

/-- the hypotheses of `bisect_increasing_spec` are jointly satisfiable, and its conclusion on
this instance: a root `r` of `2r+1 = 2` with `r ≤ 1/2 ≤ r + 1/4`. -/
example : ∃ r : ℝ, 0 ≤ r ∧ r ≤ 1 / 2 ∧ (1 : ℝ) / 2 ≤ 1 ∧ 2 * r + 1 = 2 ∧ 1 / 2 - r ≤ 1 / 4 := by
  have h := bisect_increasing_spec 1 (fun _ x => 2 * x + 1)
    (fun xs => xs.map (fun x => 2 * x + 1)) [2] [0] [1] ((1 : ℝ) / 4) 10 [1 / 2] rfl rfl rfl
    (fun xs hxs => ⟨by simpa using hxs, fun i h' h'' => by simp⟩)
    (fun i h1 h2 => by fun_prop)
    (by norm_num [allLt])
    (fun i h1 h2 h3 => by
      have hi : i = 0 := by simpa using h1
      subst hi; norm_num)
    (by norm_num [bisect, allLt, bisectLoop, maxWidth, maxL, bisectStep])
  simpa using h.2 0 (by simp) (by simp) (by simp) (by simp)

/-- decreasing direction: `fn x = -(2x+1)`, target `-2`; same answer through the `-fn` call. -/
example : bisect (fun xs => xs.map (fun x => -(2 * x + 1))) [-2] [0] [1] ((1 : ℝ) / 4) 10
    = .ok [1 / 2] := by
  norm_num [bisect, allLt, bisectLoop, maxWidth, maxL, bisectStep]

example : ∃ r : ℝ, 0 ≤ r ∧ r ≤ 1 / 2 ∧ (1 : ℝ) / 2 ≤ 1 ∧ -(2 * r + 1) = -2 ∧
    1 / 2 - r ≤ 1 / 4 := by
  have h := bisect_decreasing_spec 1 (fun _ x => -(2 * x + 1))
    (fun xs => xs.map (fun x => -(2 * x + 1))) [-2] [0] [1] ((1 : ℝ) / 4) 10 [1 / 2] rfl rfl rfl
    (fun xs hxs => ⟨by simpa using hxs, fun i h' h'' => by simp⟩)
    (fun i h1 h2 => by fun_prop)
    (by norm_num [allLt])
    (fun i h1 h2 => by
      have hi : i = 0 := by simpa using h1
      subst hi; norm_num)
    (fun i h1 h2 h3 => by
      have hi : i = 0 := by simpa using h1
      subst hi; norm_num)
    (by norm_num [bisect, allLt, bisectLoop, maxWidth, maxL, bisectStep])
  simpa using h.2 0 (by simp) (by simp) (by simp) (by simp)

/-- a genuinely per-element `fn` (different function on each of two elements) satisfies the
element-wise hypothesis `hfn` with `n = 2` -/
example : ∀ xs : List ℝ, xs.length = 2 →
    (List.zipWith (fun (g : ℝ → ℝ) x => g x) [fun x => 2 * x + 1, fun x => x ^ 3] xs).length = 2 ∧
    ∀ i (h' : i < xs.length)
      (h'' : i < (List.zipWith (fun (g : ℝ → ℝ) x => g x)
        [fun x => 2 * x + 1, fun x => x ^ 3] xs).length),
      (List.zipWith (fun (g : ℝ → ℝ) x => g x) [fun x => 2 * x + 1, fun x => x ^ 3] xs)[i]
        = (fun i x => if i = 0 then 2 * x + 1 else x ^ 3) i xs[i] := by
  intro xs hxs
  match xs, hxs with
  | [a, b], _ =>
    refine ⟨rfl, ?_⟩
    intro i h' h''
    have : i = 0 ∨ i = 1 := by simp at h'; omega
    rcases this with rfl | rfl <;> simp

/-- not enough iterations: `RuntimeError` (one halving of width 1 does not reach 1/4) -/
example : bisect (fun xs => xs.map (fun x => 2 * x + 1)) [2] [0] [1] ((1 : ℝ) / 4) 1
    = .error .runtimeError := by
  norm_num [bisect, allLt, bisectLoop, maxWidth, maxL, bisectStep]

end PfVerif.C19
