/-
  C03 — A feature evaluated at one step is column `i` of the feature evaluated for all steps;
  a hedger whose inputs do not depend on its own state gives the same hedge batched or stepwise;
  the `prev_hedge` input at step `i` is the model's output at step `i-1` (zeros at step 0).
  Model: Model/Hedger.lean instantiated at ℝ.
-/
import PfVerif.Model.Hedger
import PfVerif.Lemmas.ListR
import PfVerif.Lemmas.Gauss

namespace PfVerif.C03
open PfVerif

/-- all five series of the market have one entry per time step -/
def WellFormed (n : ℕ) (m : Market ℝ) : Prop :=
  m.spot.length = n ∧ m.variance.length = n ∧ m.volatility.length = n ∧
    m.listed.length = n ∧ m.oracle.length = n

end PfVerif.C03

namespace PfVerif.C03Aux
open PfVerif PfVerif.C03

theorem idx_lt {xs : List ℝ} {i : ℕ} (h : i < xs.length) : idx xs i = .ok xs[i] := by
  simp [idx, List.getElem?_eq_getElem h]

theorem bind_ok {β γ : Type} (a : β) (f : β → Except Err γ) :
    (Except.ok a : Except Err β) >>= f = f a := rfl

theorem bind_error {β γ : Type} (e : Err) (f : β → Except Err γ) :
    (Except.error e : Except Err β) >>= f = .error e := rfl

theorem pure_eq {β : Type} (a : β) : (pure a : Except Err β) = .ok a := rfl

/-! ### running maximum / minimum -/

theorem cummax_go_length (a : ℝ) (ys : List ℝ) : (cummaxL.go a ys).length = ys.length := by
  induction ys generalizing a with
  | nil => rfl
  | cons y ys ih => simp [cummaxL.go, ih]

theorem cummaxL_length (xs : List ℝ) : (cummaxL xs).length = xs.length := by
  cases xs with
  | nil => rfl
  | cons x xs => simp [cummaxL, cummax_go_length]

theorem cummax_go_get (a : ℝ) (ys : List ℝ) (i : ℕ) (h : i < ys.length) :
    (cummaxL.go a ys)[i]? = some ((ys.take (i + 1)).foldl max a) := by
  induction ys generalizing a i with
  | nil => simp at h
  | cons y ys ih =>
    cases i with
    | zero => simp [cummaxL.go]
    | succ i =>
      simp only [cummaxL.go, List.getElem?_cons_succ, List.take_succ_cons, List.foldl_cons]
      exact ih _ _ (by simpa using h)

theorem prefixMax_cummax (xs : List ℝ) (i : ℕ) (h : i < xs.length) :
    ∃ v, prefixMax xs i = .ok v ∧ (cummaxL xs)[i]? = some v := by
  cases xs with
  | nil => simp at h
  | cons x xs =>
    cases i with
    | zero => exact ⟨x, by simp [prefixMax, maxL], by simp [cummaxL]⟩
    | succ i =>
      refine ⟨(xs.take (i + 1)).foldl max x, by simp [prefixMax, maxL], ?_⟩
      simp only [cummaxL, List.getElem?_cons_succ]
      exact cummax_go_get _ _ _ (by simpa using h)

theorem cummin_go_length (a : ℝ) (ys : List ℝ) : (cumminL.go a ys).length = ys.length := by
  induction ys generalizing a with
  | nil => rfl
  | cons y ys ih => simp [cumminL.go, ih]

theorem cumminL_length (xs : List ℝ) : (cumminL xs).length = xs.length := by
  cases xs with
  | nil => rfl
  | cons x xs => simp [cumminL, cummin_go_length]

theorem cummin_go_get (a : ℝ) (ys : List ℝ) (i : ℕ) (h : i < ys.length) :
    (cumminL.go a ys)[i]? = some ((ys.take (i + 1)).foldl min a) := by
  induction ys generalizing a i with
  | nil => simp at h
  | cons y ys ih =>
    cases i with
    | zero => simp [cumminL.go]
    | succ i =>
      simp only [cumminL.go, List.getElem?_cons_succ, List.take_succ_cons, List.foldl_cons]
      exact ih _ _ (by simpa using h)

theorem prefixMin_cummin (xs : List ℝ) (i : ℕ) (h : i < xs.length) :
    ∃ v, prefixMin xs i = .ok v ∧ (cumminL xs)[i]? = some v := by
  cases xs with
  | nil => simp at h
  | cons x xs =>
    cases i with
    | zero => exact ⟨x, by simp [prefixMin, minL], by simp [cumminL]⟩
    | succ i =>
      refine ⟨(xs.take (i + 1)).foldl min x, by simp [prefixMin, minL], ?_⟩
      simp only [cumminL, List.getElem?_cons_succ]
      exact cummin_go_get _ _ _ (by simpa using h)

/-! ### base features -/

theorem base_getAll_ok (f : BaseFeature ℝ) (hf : f.stateDependent = false) {n : ℕ}
    {m : Market ℝ} (hm : WellFormed n m) : ∃ rows, f.getAll m = .ok rows ∧ rows.length = n := by
  obtain ⟨hs, hvar, hvol, hl, ho⟩ := hm
  cases f with
  | prevHedge => simp [BaseFeature.stateDependent] at hf
  | barrier thr up =>
    cases up <;> simp [BaseFeature.getAll, cummaxL_length, cumminL_length, hs]
  | _ => simp [BaseFeature.getAll, cummaxL_length, *]

theorem ttm_cast (n i : ℕ) (dt : ℝ) (hi : i < n) :
    ((n - (i % n) - 1 : ℕ) : ℝ) * dt = ((n - 1 : ℕ) : ℝ) * dt - (i : ℝ) * dt := by
  rw [Nat.mod_eq_of_lt hi, show n - i - 1 = n - 1 - i by omega, Nat.cast_sub (by omega)]
  ring

theorem base_row (f : BaseFeature ℝ) (hf : f.stateDependent = false) {n : ℕ} {m : Market ℝ}
    (hm : WellFormed n m) (prev : List ℝ) {i : ℕ} (hi : i < n) {rows : List (List ℝ)}
    (hr : f.getAll m = .ok rows) : ∃ v, f.getAt m prev i = .ok v ∧ rows[i]? = some v := by
  obtain ⟨hs, hvar, hvol, hl, ho⟩ := hm
  have his : i < m.spot.length := by omega
  have hivar : i < m.variance.length := by omega
  have hivol : i < m.volatility.length := by omega
  have hil : i < m.listed.length := by omega
  have hio : i < m.oracle.length := by omega
  cases f with
  | prevHedge => simp [BaseFeature.stateDependent] at hf
  | moneyness lg =>
    simp only [BaseFeature.getAll, Except.ok.injEq] at hr; subst hr
    exact ⟨_, by simp only [BaseFeature.getAt, idx_lt his, bind_ok, pure_eq]; rfl, by simp [his]⟩
  | maxMoneyness lg =>
    simp only [BaseFeature.getAll, Except.ok.injEq] at hr; subst hr
    obtain ⟨v, h1, h2⟩ := prefixMax_cummax (m.spot.map (fun s => logIf lg (s / m.strike))) i
      (by simpa using his)
    exact ⟨[v], by simp only [BaseFeature.getAt, h1, bind_ok, pure_eq], by simp [h2]⟩
  | timeToMaturity =>
    simp only [BaseFeature.getAll, Except.ok.injEq] at hr; subst hr
    have hn : m.spot.length ≠ 0 := by omega
    refine ⟨_, by simp only [BaseFeature.getAt, hn, if_false]; rfl, ?_⟩
    simp [his, ttm_cast _ _ _ his]
  | volatility =>
    simp only [BaseFeature.getAll, Except.ok.injEq] at hr; subst hr
    exact ⟨_, by simp only [BaseFeature.getAt, idx_lt hivol, bind_ok, pure_eq]; rfl, by simp [hivol]⟩
  | variance =>
    simp only [BaseFeature.getAll, Except.ok.injEq] at hr; subst hr
    exact ⟨_, by simp only [BaseFeature.getAt, idx_lt hivar, bind_ok, pure_eq]; rfl, by simp [hivar]⟩
  | spot lg =>
    simp only [BaseFeature.getAll, Except.ok.injEq] at hr; subst hr
    exact ⟨_, by simp only [BaseFeature.getAt, idx_lt hil, bind_ok, pure_eq]; rfl, by simp [hil]⟩
  | underlierSpot lg =>
    simp only [BaseFeature.getAll, Except.ok.injEq] at hr; subst hr
    exact ⟨_, by simp only [BaseFeature.getAt, idx_lt his, bind_ok, pure_eq]; rfl, by simp [his]⟩
  | barrier thr up =>
    cases up
    · simp only [BaseFeature.getAll, Bool.false_eq_true, if_false, Except.ok.injEq] at hr
      subst hr
      obtain ⟨v, h1, h2⟩ := prefixMin_cummin m.spot i his
      refine ⟨[if v ≤ thr then 1 else 0], ?_, ?_⟩
      · simp only [BaseFeature.getAt, Bool.false_eq_true, if_false, h1, bind_ok, pure_eq]
      · simp [h2]
    · simp only [BaseFeature.getAll, if_true, Except.ok.injEq] at hr
      subst hr
      obtain ⟨v, h1, h2⟩ := prefixMax_cummax m.spot i his
      exact ⟨_, by simp only [BaseFeature.getAt, if_true, h1, bind_ok, pure_eq]; rfl, by simp [h2]⟩
  | zeros =>
    simp only [BaseFeature.getAll, Except.ok.injEq] at hr; subst hr
    exact ⟨_, by simp only [BaseFeature.getAt, idx_lt his, bind_ok, pure_eq]; rfl, by simp [his]⟩
  | ones =>
    simp only [BaseFeature.getAll, Except.ok.injEq] at hr; subst hr
    exact ⟨_, by simp only [BaseFeature.getAt, idx_lt his, bind_ok, pure_eq]; rfl, by simp [his]⟩
  | empty =>
    simp only [BaseFeature.getAll, Except.ok.injEq] at hr; subst hr
    exact ⟨_, by simp only [BaseFeature.getAt, idx_lt his, idx_lt hio, bind_ok, pure_eq]; rfl,
      by simp [his, hio]⟩

/-! ### concatenation of base features, features, feature lists -/

theorem any_cons_false {β : Type} {p : β → Bool} {a : β} {l : List β}
    (h : (a :: l).any p = false) : p a = false ∧ l.any p = false := by
  simp only [List.any_cons, Bool.or_eq_false_iff] at h; exact h

theorem cat_getAll_ok (ins : List (BaseFeature ℝ))
    (hf : ins.any BaseFeature.stateDependent = false) {n : ℕ} {m : Market ℝ}
    (hm : WellFormed n m) : ∃ rows, catAll n ins m = .ok rows ∧ rows.length = n := by
  induction ins with
  | nil => exact ⟨_, rfl, by simp⟩
  | cons f rest ih =>
    obtain ⟨hf1, hf2⟩ := any_cons_false hf
    obtain ⟨A, hA, hAl⟩ := base_getAll_ok f hf1 hm
    obtain ⟨B, hB, hBl⟩ := ih hf2
    exact ⟨List.zipWith (· ++ ·) A B, by simp [catAll, hA, hB, bind_ok, hAl, pure_eq],
      by simp [hAl, hBl]⟩

theorem cat_row (ins : List (BaseFeature ℝ)) (hf : ins.any BaseFeature.stateDependent = false)
    {n : ℕ} {m : Market ℝ} (hm : WellFormed n m) (prev : List ℝ) {i : ℕ} (hi : i < n)
    {rows : List (List ℝ)} (hr : catAll n ins m = .ok rows) :
    ∃ v, catAt ins m prev i = .ok v ∧ rows[i]? = some v := by
  induction ins generalizing rows with
  | nil =>
    simp only [catAll, Except.ok.injEq] at hr; subst hr
    exact ⟨[], rfl, by simp [hi]⟩
  | cons f rest ih =>
    obtain ⟨hf1, hf2⟩ := any_cons_false hf
    obtain ⟨A, hA, hAl⟩ := base_getAll_ok f hf1 hm
    obtain ⟨B, hB, hBl⟩ := cat_getAll_ok rest hf2 hm
    obtain ⟨a, ha, hAi⟩ := base_row f hf1 hm prev hi hA
    obtain ⟨b, hb, hBi⟩ := ih hf2 hB
    simp [catAll, hA, hB, bind_ok, hAl, pure_eq] at hr; subst hr
    exact ⟨a ++ b, by simp only [catAt, ha, hb, bind_ok, pure_eq],
      by simp [List.getElem?_zipWith, hAi, hBi]⟩

theorem feature_getAll_ok (f : Feature ℝ) (hf : f.stateDependent = false) {n : ℕ}
    {m : Market ℝ} (hm : WellFormed n m) : ∃ rows, f.getAll n m = .ok rows ∧ rows.length = n := by
  cases f with
  | base b => exact base_getAll_ok b hf hm
  | moduleOutput g ins =>
    obtain ⟨X, hX, hXl⟩ := cat_getAll_ok ins hf hm
    exact ⟨X.map g, by simp only [Feature.getAll, hX, bind_ok, pure_eq], by simp [hXl]⟩

theorem feature_row (f : Feature ℝ) (hf : f.stateDependent = false) {n : ℕ} {m : Market ℝ}
    (hm : WellFormed n m) (prev : List ℝ) {i : ℕ} (hi : i < n) {rows : List (List ℝ)}
    (hr : f.getAll n m = .ok rows) : ∃ v, f.getAt m prev i = .ok v ∧ rows[i]? = some v := by
  cases f with
  | base b => exact base_row b hf hm prev hi hr
  | moduleOutput g ins =>
    obtain ⟨X, hX, hXl⟩ := cat_getAll_ok ins hf hm
    obtain ⟨x, hx, hXi⟩ := cat_row ins hf hm prev hi hX
    simp only [Feature.getAll, hX, bind_ok, pure_eq, Except.ok.injEq] at hr; subst hr
    exact ⟨g x, by simp only [Feature.getAt, hx, bind_ok, pure_eq], by simp [hXi]⟩

theorem inputs_getAll_ok (fs : List (Feature ℝ)) (hf : fs.any Feature.stateDependent = false)
    {n : ℕ} {m : Market ℝ} (hm : WellFormed n m) :
    ∃ rows, inputsAll n fs m = .ok rows ∧ rows.length = n := by
  induction fs with
  | nil => exact ⟨_, rfl, by simp⟩
  | cons f rest ih =>
    obtain ⟨hf1, hf2⟩ := any_cons_false hf
    obtain ⟨A, hA, hAl⟩ := feature_getAll_ok f hf1 hm
    obtain ⟨B, hB, hBl⟩ := ih hf2
    exact ⟨List.zipWith (· ++ ·) A B, by simp [inputsAll, hA, hB, bind_ok, hAl, pure_eq],
      by simp [hAl, hBl]⟩

theorem inputs_row (fs : List (Feature ℝ)) (hf : fs.any Feature.stateDependent = false)
    {n : ℕ} {m : Market ℝ} (hm : WellFormed n m) (prev : List ℝ) {i : ℕ} (hi : i < n)
    {rows : List (List ℝ)} (hr : inputsAll n fs m = .ok rows) :
    ∃ v, inputsAt fs m prev i = .ok v ∧ rows[i]? = some v := by
  induction fs generalizing rows with
  | nil =>
    simp only [inputsAll, Except.ok.injEq] at hr; subst hr
    exact ⟨[], rfl, by simp [hi]⟩
  | cons f rest ih =>
    obtain ⟨hf1, hf2⟩ := any_cons_false hf
    obtain ⟨A, hA, hAl⟩ := feature_getAll_ok f hf1 hm
    obtain ⟨B, hB, hBl⟩ := inputs_getAll_ok rest hf2 hm
    obtain ⟨a, ha, hAi⟩ := feature_row f hf1 hm prev hi hA
    obtain ⟨b, hb, hBi⟩ := ih hf2 hB
    simp [inputsAll, hA, hB, bind_ok, hAl, pure_eq] at hr; subst hr
    exact ⟨a ++ b, by simp only [inputsAt, ha, hb, bind_ok, pure_eq],
      by simp [List.getElem?_zipWith, hAi, hBi]⟩

/-! ### the loop, `dupLast` and `appendLast` -/

/-- if step `i` of the inputs is row `i` of `X` whatever `prev` is, the loop is `map g` -/
theorem hedgeLoop_indep (g : List ℝ → List ℝ) (fs : List (Feature ℝ)) (m : Market ℝ)
    (X : List (List ℝ))
    (hrow : ∀ i prev, i < X.length → ∃ v, inputsAt fs m prev i = .ok v ∧ X[i]? = some v) :
    ∀ k i prev, i + k ≤ X.length →
      hedgeLoop g fs m k i prev = .ok (((X.drop i).take k).map g) := by
  intro k
  induction k with
  | zero => intros; simp [hedgeLoop]
  | succ k ih =>
    intro i prev hik
    have hi : i < X.length := by omega
    obtain ⟨v, hv, hXi⟩ := hrow i prev hi
    have hvx : v = X[i] := by
      rw [List.getElem?_eq_getElem hi] at hXi; exact (Option.some.inj hXi).symm
    subst hvx
    simp only [hedgeLoop, hv, bind_ok, ih (i + 1) _ (by omega), pure_eq]
    rw [List.drop_eq_getElem_cons hi, List.take_succ_cons, List.map_cons]

theorem appendLast_cons_cons {β : Type} (x y : β) (ws : List β) :
    appendLast (x :: y :: ws) = (do let r ← appendLast (y :: ws); pure (x :: r)) := by
  have h : lastL (x :: y :: ws) = lastL (y :: ws) := rfl
  unfold appendLast
  rw [h]
  cases lastL (y :: ws) <;> rfl

theorem dupLast_eq {β : Type} : ∀ ys : List β, dupLast ys = appendLast ys.dropLast
  | [] => rfl
  | [_] => rfl
  | [_, _] => rfl
  | x :: y :: z :: rest => by
    have ih := dupLast_eq (y :: z :: rest)
    simp only [dupLast, ih, List.dropLast_cons_cons, appendLast_cons_cons]

theorem hedgeLoop_succ_ok {g : List ℝ → List ℝ} {fs : List (Feature ℝ)} {m : Market ℝ}
    {k i : ℕ} {prev : List ℝ} {outs : List (List ℝ)}
    (h : hedgeLoop g fs m (k + 1) i prev = .ok outs) :
    ∃ x rest, inputsAt fs m prev i = .ok x ∧ hedgeLoop g fs m k (i + 1) (g x) = .ok rest ∧
      outs = g x :: rest := by
  simp only [hedgeLoop] at h
  cases hx : inputsAt fs m prev i with
  | error e => rw [hx, bind_error] at h; cases h
  | ok x =>
    rw [hx, bind_ok] at h
    cases hr : hedgeLoop g fs m k (i + 1) (g x) with
    | error e => rw [hr, bind_error] at h; cases h
    | ok rest =>
      rw [hr, bind_ok, pure_eq] at h
      exact ⟨x, rest, rfl, hr, (Except.ok.inj h).symm⟩

theorem lastL_eq_getLast? {β : Type} : ∀ xs : List β, lastL xs = xs.getLast?
  | [] => rfl
  | [_] => rfl
  | x :: y :: rest => by
    rw [lastL, lastL_eq_getLast? (y :: rest), List.getLast?_cons_cons]

theorem appendLast_ok_iff {β : Type} (ys out : List β) :
    appendLast ys = .ok out ↔ ∃ l, ys.getLast? = some l ∧ out = ys ++ [l] := by
  unfold appendLast
  rw [lastL_eq_getLast?]
  cases ys.getLast? with
  | none => simp
  | some l => simp [eq_comm]

/-- `output[..., -1, :] = output[..., -2, :]` on at least two rows -/
theorem dupLast_ok {β : Type} (ys : List β) (hn : 2 ≤ ys.length) :
    ∃ out, dupLast ys = .ok out ∧ out.length = ys.length ∧
      (∀ j, j + 1 < ys.length → out[j]? = ys[j]?) ∧
      out[ys.length - 1]? = ys[ys.length - 2]? := by
  have hlast : ys.dropLast.getLast? = some (ys[ys.length - 2]'(by omega)) := by
    rw [List.getLast?_dropLast, if_neg (by omega), List.getElem?_eq_getElem]
  refine ⟨ys.dropLast ++ [ys[ys.length - 2]'(by omega)], ?_, ?_, ?_, ?_⟩
  · rw [dupLast_eq, appendLast, lastL_eq_getLast?, hlast]
  · simp; omega
  · intro j hj
    rw [List.getElem?_append_left (by simp; omega), List.getElem?_dropLast, if_pos (by omega)]
  · have h2 : ys[ys.length - 2]? = some (ys[ys.length - 2]'(by omega)) :=
      List.getElem?_eq_getElem (by omega)
    rw [List.getElem?_append_right (by simp), h2]
    simp

end PfVerif.C03Aux

namespace PfVerif.C03
open PfVerif PfVerif.C03Aux

/-! ### which features are bound to the hedger's state -/

/-- `is_state_dependent` is false exactly for the base features other than `PrevHedge` -/
theorem stateDependent_eq_false_iff (f : BaseFeature ℝ) :
    f.stateDependent = false ↔ f ≠ .prevHedge := by
  cases f <;> simp [BaseFeature.stateDependent]

/-- a `ModuleOutput` feature is state-independent iff none of its inputs is `PrevHedge` -/
theorem moduleOutput_stateDependent_eq_false_iff (g : List ℝ → List ℝ)
    (ins : List (BaseFeature ℝ)) :
    (Feature.moduleOutput g ins).stateDependent = false ↔ ∀ b ∈ ins, b ≠ .prevHedge := by
  simp only [Feature.stateDependent, List.any_eq_false]
  constructor
  · intro h b hb; have := h b hb; simpa [stateDependent_eq_false_iff] using this
  · intro h b hb; simpa [stateDependent_eq_false_iff] using h b hb

/-- `PrevHedge` cannot be evaluated for all steps at once (`get(None)` raises `ValueError`),
and it is the feature that makes a hedger state-dependent -/
theorem prev_hedge_needs_step (m : Market ℝ) :
    BaseFeature.getAll (.prevHedge : BaseFeature ℝ) m = .error .valueError ∧
    Feature.stateDependent (.base .prevHedge : Feature ℝ) = true := ⟨rfl, rfl⟩

/-! ### running maximum / minimum: entry `i` of `cummax` is the maximum of the prefix `[: i+1]` -/

/-- `x.cummax()[i] = x[: i+1].max()` for every in-range step.  (Out of range the two differ in
the model as in torch: the slice is clipped, the index is not; hence `i < xs.length`.) -/
theorem cummax_get (xs : List ℝ) (i : ℕ) (hi : i < xs.length) (v : ℝ)
    (h : prefixMax xs i = .ok v) : (cummaxL xs)[i]? = some v := by
  obtain ⟨w, h1, h2⟩ := prefixMax_cummax xs i hi
  rw [h1] at h; cases h; exact h2

theorem cummin_get (xs : List ℝ) (i : ℕ) (hi : i < xs.length) (v : ℝ)
    (h : prefixMin xs i = .ok v) : (cumminL xs)[i]? = some v := by
  obtain ⟨w, h1, h2⟩ := prefixMin_cummin xs i hi
  rw [h1] at h; cases h; exact h2

/-- the prefix maximum is defined at every in-range step, and is that entry of `cummax` -/
theorem cummax_get_toOption (xs : List ℝ) (i : ℕ) (hi : i < xs.length) :
    (cummaxL xs)[i]? = (prefixMax xs i).toOption ∧ ∃ v, prefixMax xs i = .ok v := by
  obtain ⟨w, h1, h2⟩ := prefixMax_cummax xs i hi
  exact ⟨by rw [h1, h2]; rfl, w, h1⟩

theorem cummin_get_toOption (xs : List ℝ) (i : ℕ) (hi : i < xs.length) :
    (cumminL xs)[i]? = (prefixMin xs i).toOption ∧ ∃ v, prefixMin xs i = .ok v := by
  obtain ⟨w, h1, h2⟩ := prefixMin_cummin xs i hi
  exact ⟨by rw [h1, h2]; rfl, w, h1⟩

/-- the value is the maximum of the first `i+1` entries (head `x`, then `i` more) -/
theorem prefixMax_eq_maxL (x : ℝ) (xs : List ℝ) (i : ℕ) :
    prefixMax (x :: xs) i = .ok (maxL x (xs.take i)) := by
  simp [prefixMax]

theorem prefixMin_eq_minL (x : ℝ) (xs : List ℝ) (i : ℕ) :
    prefixMin (x :: xs) i = .ok (minL x (xs.take i)) := by
  simp [prefixMin]

theorem cummax_length (xs : List ℝ) : (cummaxL xs).length = xs.length := cummaxL_length xs
theorem cummin_length (xs : List ℝ) : (cumminL xs).length = xs.length := cumminL_length xs

/-! ### every feature at step `i` is row `i` of the feature at all steps -/

/-- the real-number identity behind `time_to_maturity`: `(n−(i mod n)−1)·dt = (n−1)·dt − i·dt` -/
theorem timeToMaturity_identity (n i : ℕ) (dt : ℝ) (hi : i < n) :
    ((n - (i % n) - 1 : ℕ) : ℝ) * dt = ((n - 1 : ℕ) : ℝ) * dt - (i : ℝ) * dt :=
  ttm_cast n i dt hi

/-- all-steps evaluation of every feature other than `PrevHedge` succeeds on a well-formed
market and has one row per time step (also for `n = 0`) -/
theorem baseFeature_getAll_defined (f : BaseFeature ℝ) (hf : f ≠ .prevHedge) {n : ℕ}
    {m : Market ℝ} (hm : WellFormed n m) : ∃ rows, f.getAll m = .ok rows ∧ rows.length = n :=
  base_getAll_ok f ((stateDependent_eq_false_iff f).2 hf) hm

/-- single-step evaluation succeeds at every step `i < n` of a well-formed market
(`i < n` forces `n ≠ 0`, which `time_to_maturity` needs) -/
theorem baseFeature_getAt_defined (f : BaseFeature ℝ) (hf : f ≠ .prevHedge) {n : ℕ}
    {m : Market ℝ} (hm : WellFormed n m) (prev : List ℝ) {i : ℕ} (hi : i < n) :
    ∃ v, f.getAt m prev i = .ok v := by
  obtain ⟨rows, hr, _⟩ := baseFeature_getAll_defined f hf hm
  obtain ⟨v, hv, _⟩ := base_row f ((stateDependent_eq_false_iff f).2 hf) hm prev hi hr
  exact ⟨v, hv⟩

/-- **C03 (features).** `feature.get(i)` is row `i` of `feature.get(None)` -/
theorem baseFeature_getAt_eq_getAll_row (f : BaseFeature ℝ) (hf : f ≠ .prevHedge) {n : ℕ}
    {m : Market ℝ} (hm : WellFormed n m) (prev : List ℝ) {i : ℕ} (hi : i < n)
    {v : List ℝ} {rows : List (List ℝ)} (hv : f.getAt m prev i = .ok v)
    (hr : f.getAll m = .ok rows) : rows[i]? = some v := by
  obtain ⟨w, hw, hrow⟩ := base_row f ((stateDependent_eq_false_iff f).2 hf) hm prev hi hr
  rw [hw] at hv; cases hv; exact hrow

/-- the value of a feature other than `PrevHedge` does not depend on the hedger's state -/
theorem baseFeature_getAt_prev_indep (f : BaseFeature ℝ) (hf : f ≠ .prevHedge) (m : Market ℝ)
    (prev prev' : List ℝ) (i : ℕ) : f.getAt m prev i = f.getAt m prev' i := by
  cases f <;> first | rfl | exact absurd rfl hf

theorem feature_getAll_defined (f : Feature ℝ) (hf : f.stateDependent = false) {n : ℕ}
    {m : Market ℝ} (hm : WellFormed n m) : ∃ rows, f.getAll n m = .ok rows ∧ rows.length = n :=
  feature_getAll_ok f hf hm

theorem feature_getAt_defined (f : Feature ℝ) (hf : f.stateDependent = false) {n : ℕ}
    {m : Market ℝ} (hm : WellFormed n m) (prev : List ℝ) {i : ℕ} (hi : i < n) :
    ∃ v, f.getAt m prev i = .ok v := by
  obtain ⟨rows, hr, _⟩ := feature_getAll_ok f hf hm
  obtain ⟨v, hv, _⟩ := feature_row f hf hm prev hi hr
  exact ⟨v, hv⟩

/-- the same for composite features: base ones and `ModuleOutput(g, inputs)` whose inputs
contain no `PrevHedge` -/
theorem feature_getAt_eq_getAll_row (f : Feature ℝ) (hf : f.stateDependent = false) {n : ℕ}
    {m : Market ℝ} (hm : WellFormed n m) (prev : List ℝ) {i : ℕ} (hi : i < n)
    {v : List ℝ} {rows : List (List ℝ)} (hv : f.getAt m prev i = .ok v)
    (hr : f.getAll n m = .ok rows) : rows[i]? = some v := by
  obtain ⟨w, hw, hrow⟩ := feature_row f hf hm prev hi hr
  rw [hw] at hv; cases hv; exact hrow

/-- `ModuleOutput`: row `i` of `g` applied to every row of the concatenated inputs is `g` of
the concatenated inputs at step `i` -/
theorem moduleOutput_row (g : List ℝ → List ℝ) (ins : List (BaseFeature ℝ))
    (hf : ins.any BaseFeature.stateDependent = false) {n : ℕ} {m : Market ℝ}
    (hm : WellFormed n m) (prev : List ℝ) {i : ℕ} (hi : i < n) :
    ∃ x X, catAt ins m prev i = .ok x ∧ catAll n ins m = .ok X ∧ X.length = n ∧
      X[i]? = some x ∧ (Feature.moduleOutput g ins).getAt m prev i = .ok (g x) ∧
      (Feature.moduleOutput g ins).getAll n m = .ok (X.map g) ∧ (X.map g)[i]? = some (g x) := by
  obtain ⟨X, hX, hXl⟩ := cat_getAll_ok ins hf hm
  obtain ⟨x, hx, hXi⟩ := cat_row ins hf hm prev hi hX
  exact ⟨x, X, hx, hX, hXl, hXi, by simp only [Feature.getAt, hx, bind_ok, pure_eq],
    by simp only [Feature.getAll, hX, bind_ok, pure_eq], by simp [hXi]⟩

theorem inputsAll_defined (fs : List (Feature ℝ)) (hf : fs.any Feature.stateDependent = false)
    {n : ℕ} {m : Market ℝ} (hm : WellFormed n m) :
    ∃ rows, inputsAll n fs m = .ok rows ∧ rows.length = n :=
  inputs_getAll_ok fs hf hm

theorem inputsAt_defined (fs : List (Feature ℝ)) (hf : fs.any Feature.stateDependent = false)
    {n : ℕ} {m : Market ℝ} (hm : WellFormed n m) (prev : List ℝ) {i : ℕ} (hi : i < n) :
    ∃ v, inputsAt fs m prev i = .ok v := by
  obtain ⟨rows, hr, _⟩ := inputs_getAll_ok fs hf hm
  obtain ⟨v, hv, _⟩ := inputs_row fs hf hm prev hi hr
  exact ⟨v, hv⟩

/-- **C03 (feature lists).** `inputs.get(i)` is row `i` of `inputs.get(None)` -/
theorem inputsAt_eq_inputsAll_row (fs : List (Feature ℝ))
    (hf : fs.any Feature.stateDependent = false) {n : ℕ} {m : Market ℝ} (hm : WellFormed n m)
    (prev : List ℝ) {i : ℕ} (hi : i < n) {v : List ℝ} {rows : List (List ℝ)}
    (hv : inputsAt fs m prev i = .ok v) (hr : inputsAll n fs m = .ok rows) :
    rows[i]? = some v := by
  obtain ⟨w, hw, hrow⟩ := inputs_row fs hf hm prev hi hr
  rw [hw] at hv; cases hv; exact hrow

/-! ### stepwise = batched for a state-independent hedger -/

/-- **C03 (hedger).** If no input feature depends on the hedger's state, running the
state-dependent branch's algorithm (loop over `range(n-1)`, then `outputs.append(outputs[-1])`)
gives exactly what `compute_hedge` returns through its batched branch — as a full equality of
results, for every number of steps `n` (for `n < 2` both sides are the same `IndexError`, so
the hypothesis `2 ≤ n` is not needed), every module `g` and every initial state width `h`. -/
theorem stepwise_eq_batched (g : List ℝ → List ℝ) (fs : List (Feature ℝ))
    (hfs : fs.any Feature.stateDependent = false) {n : ℕ} {m : Market ℝ}
    (hm : WellFormed n m) (h : ℕ) :
    (do let outs ← hedgeLoop g fs m (n - 1) 0 (List.replicate h 0); appendLast outs)
      = computeHedge g fs m n h := by
  obtain ⟨X, hX, hXl⟩ := inputs_getAll_ok fs hfs hm
  have hloop := hedgeLoop_indep g fs m X
    (fun i prev hi => inputs_row fs hfs hm prev (hXl ▸ hi) hX) (n - 1) 0 (List.replicate h 0)
    (by omega)
  simp only [computeHedge, hfs, Bool.false_eq_true, if_false, hX, bind_ok, hloop, dupLast_eq]
  congr 1
  rw [List.dropLast_eq_take]
  simp [hXl, List.map_take]

/-- for at least two steps both are defined: rows `0 … n-2` are `g` of the input rows and the
last row repeats row `n-2` -/
theorem stepwise_eq_batched_ok (g : List ℝ → List ℝ) (fs : List (Feature ℝ))
    (hfs : fs.any Feature.stateDependent = false) {n : ℕ} {m : Market ℝ}
    (hm : WellFormed n m) (hn : 2 ≤ n) (h : ℕ) :
    ∃ X out, inputsAll n fs m = .ok X ∧ computeHedge g fs m n h = .ok out ∧ out.length = n ∧
      (∀ j, j + 1 < n → ∃ x, X[j]? = some x ∧ out[j]? = some (g x)) ∧
      out[n - 1]? = out[n - 2]? := by
  obtain ⟨X, hX, hXl⟩ := inputs_getAll_ok fs hfs hm
  obtain ⟨out, ho, hol, hrows, hlast⟩ := dupLast_ok (X.map g) (by simp [hXl, hn])
  simp only [List.length_map, hXl] at hol hrows hlast
  refine ⟨X, out, hX, ?_, hol, ?_, ?_⟩
  · simp only [computeHedge, hfs, Bool.false_eq_true, if_false, hX, bind_ok, ho]
  · intro j hj
    have hjX : j < X.length := by omega
    exact ⟨X[j], List.getElem?_eq_getElem hjX, by rw [hrows j hj]; simp [hjX]⟩
  · rw [hlast, hrows (n - 2) (by omega)]

/-! ### the `prev_hedge` input is the model's previous output -/

/-- (a) `PrevHedge.get(i)` returns the hedger's `prev_output` buffer, at every step `i` -/
theorem prevHedge_getAt (m : Market ℝ) (prev : List ℝ) (i : ℕ) :
    BaseFeature.getAt (.prevHedge : BaseFeature ℝ) m prev i = .ok prev := rfl

/-- (a) as a feature list: the model input built from `["prev_hedge"]` is exactly `prev` -/
theorem inputsAt_prevHedge (m : Market ℝ) (prev : List ℝ) (i : ℕ) :
    inputsAt [Feature.base .prevHedge] m prev i = .ok prev := by
  simp only [inputsAt, Feature.getAt, BaseFeature.getAt, bind_ok, pure_eq, List.append_nil]

/-- in any feature list the `prev_hedge` slot carries `prev` unchanged -/
theorem inputsAt_cons_prevHedge (rest : List (Feature ℝ)) (m : Market ℝ) (prev : List ℝ)
    (i : ℕ) :
    inputsAt (Feature.base .prevHedge :: rest) m prev i
      = (do let b ← inputsAt rest m prev i; pure (prev ++ b)) := rfl

/-- feature lists concatenate (`torch.cat` over the features, in order) -/
theorem inputsAt_append (fs₁ fs₂ : List (Feature ℝ)) (m : Market ℝ) (prev : List ℝ) (i : ℕ) :
    inputsAt (fs₁ ++ fs₂) m prev i
      = (do let a ← inputsAt fs₁ m prev i; let b ← inputsAt fs₂ m prev i; pure (a ++ b)) := by
  induction fs₁ with
  | nil =>
    simp only [List.nil_append, inputsAt, bind_ok, List.nil_append]
    cases inputsAt fs₂ m prev i <;> rfl
  | cons f rest ih =>
    simp only [List.cons_append, inputsAt, ih]
    cases f.getAt m prev i with
    | error e => rfl
    | ok a =>
      simp only [bind_ok]
      cases inputsAt rest m prev i with
      | error e => rfl
      | ok b =>
        simp only [bind_ok, pure_eq]
        cases inputsAt fs₂ m prev i with
        | error e => rfl
        | ok c => simp only [bind_ok, List.append_assoc]

/-- (b) one turn of the loop: the input of step `i` is built from `prev`, the model output
`g x` is recorded and becomes the `prev` of step `i+1` -/
theorem hedgeLoop_succ (g : List ℝ → List ℝ) (fs : List (Feature ℝ)) (m : Market ℝ) (k i : ℕ)
    (prev : List ℝ) :
    hedgeLoop g fs m (k + 1) i prev
      = (do let x ← inputsAt fs m prev i
            let rest ← hedgeLoop g fs m k (i + 1) (g x)
            pure (g x :: rest)) := rfl

/-- (c) a state-dependent hedger starts the loop at step 0 with `prev = zeros`: one zero per
hedging instrument (`h` entries) -/
theorem computeHedge_stateDependent (g : List ℝ → List ℝ) (fs : List (Feature ℝ)) (m : Market ℝ)
    (n h : ℕ) (hfs : fs.any Feature.stateDependent = true) :
    computeHedge g fs m n h
      = (do let outs ← hedgeLoop g fs m (n - 1) 0 (List.replicate h 0); appendLast outs) ∧
    (List.replicate h (0 : ℝ)).length = h ∧ ∀ z ∈ List.replicate h (0 : ℝ), z = 0 := by
  refine ⟨by simp only [computeHedge, hfs, if_true], by simp, fun z hz => ?_⟩
  exact (List.mem_replicate.1 hz).2

/-- (d) **C03 (state).** If a run of the loop from step `i` with state `prev` produced the
outputs `o :: rest`, then `o` is the model applied to the inputs of step `i` built with `prev`,
and `rest` is precisely a run from step `i+1` whose state is that output `o`. -/
theorem prev_hedge_is_last_output (g : List ℝ → List ℝ) (fs : List (Feature ℝ)) (m : Market ℝ)
    (k i : ℕ) (prev o : List ℝ) (rest : List (List ℝ))
    (hl : hedgeLoop g fs m (k + 1) i prev = .ok (o :: rest)) :
    hedgeLoop g fs m k (i + 1) o = .ok rest ∧ ∃ x, inputsAt fs m prev i = .ok x ∧ o = g x := by
  obtain ⟨x, r, hx, hr, he⟩ := hedgeLoop_succ_ok hl
  cases he
  exact ⟨hr, x, hx, rfl⟩

/-- unrolled over the whole run: `k` outputs, and for every `j < k` the input of step `i+j` was
built with state `(prev :: outs)[j]` — the initial state for `j = 0`, the output `outs[j-1]` of
the step before otherwise — and `outs[j]` is the model applied to it. -/
theorem prev_hedge_trace (g : List ℝ → List ℝ) (fs : List (Feature ℝ)) (m : Market ℝ) :
    ∀ (k i : ℕ) (prev : List ℝ) (outs : List (List ℝ)),
      hedgeLoop g fs m k i prev = .ok outs →
      outs.length = k ∧ ∀ j, j < k → ∃ p x, (prev :: outs)[j]? = some p ∧
        inputsAt fs m p (i + j) = .ok x ∧ outs[j]? = some (g x) := by
  intro k
  induction k with
  | zero =>
    intro i prev outs hl
    simp only [hedgeLoop, Except.ok.injEq] at hl; subst hl
    exact ⟨rfl, fun j hj => absurd hj (by omega)⟩
  | succ k ih =>
    intro i prev outs hl
    obtain ⟨x, rest, hx, hrest, rfl⟩ := hedgeLoop_succ_ok hl
    obtain ⟨hlen, htr⟩ := ih (i + 1) (g x) rest hrest
    refine ⟨by simp [hlen], fun j hj => ?_⟩
    cases j with
    | zero => exact ⟨prev, x, rfl, hx, rfl⟩
    | succ j =>
      obtain ⟨p, y, hp, hy, ho⟩ := htr j (by omega)
      refine ⟨p, y, by simpa using hp, ?_, by simpa using ho⟩
      rw [show i + (j + 1) = i + 1 + j by omega]; exact hy

/-- the same at the level of `compute_hedge`: whenever a state-dependent hedger returns `out`,
there are `n ≥ 2` rows, row `j < n-1` is the model applied to the inputs of step `j` built with
`prev_hedge = (zeros :: out)[j]` (zeros — one per hedging instrument — at step 0, row `j-1`
afterwards), and the last row repeats the one before. -/
theorem computeHedge_prev_hedge (g : List ℝ → List ℝ) (fs : List (Feature ℝ)) (m : Market ℝ)
    (n h : ℕ) (out : List (List ℝ)) (hfs : fs.any Feature.stateDependent = true)
    (hc : computeHedge g fs m n h = .ok out) :
    2 ≤ n ∧ out.length = n ∧
    (∀ j, j + 1 < n → ∃ p x, (List.replicate h 0 :: out)[j]? = some p ∧
        inputsAt fs m p j = .ok x ∧ out[j]? = some (g x)) ∧
    out[n - 1]? = out[n - 2]? := by
  simp only [computeHedge, hfs, if_true] at hc
  cases hl : hedgeLoop g fs m (n - 1) 0 (List.replicate h 0) with
  | error e => rw [hl, bind_error] at hc; cases hc
  | ok outs =>
    rw [hl, bind_ok] at hc
    obtain ⟨l, hlast, rfl⟩ := (appendLast_ok_iff _ _).1 hc
    obtain ⟨hlen, htr⟩ := prev_hedge_trace g fs m _ _ _ _ hl
    rw [List.getLast?_eq_getElem?] at hlast
    have hpos : outs.length - 1 < outs.length := by
      by_contra hcon
      rw [List.getElem?_eq_none (by omega)] at hlast; cases hlast
    refine ⟨by omega, by simp; omega, fun j hj => ?_, ?_⟩
    · obtain ⟨p, x, hp, hx, ho⟩ := htr j (by omega)
      refine ⟨p, x, ?_, by simpa using hx, ?_⟩
      · rw [← List.cons_append, List.getElem?_append_left (by simp; omega)]; exact hp
      · rw [List.getElem?_append_left (by omega)]; exact ho
    · rw [List.getElem?_append_right (by omega), List.getElem?_append_left (by omega),
        show n - 2 = outs.length - 1 by omega, hlast, show n - 1 - outs.length = 0 by omega]
      rfl

/-! ### non-vacuity: a concrete well-formed market of three steps -/

local notation "m3" =>
  (Market.mk [1, 2, 1] [4, 4, 4] [2, 2, 2] [3, 5, 3] (1 / 4) 1 [7, 8, 9] : Market ℝ)

example : WellFormed 3 m3 := by simp [WellFormed]

/-- the up-barrier at 2 is hit from step 1 on; step 1 is row 1 -/
example : (BaseFeature.barrier 2 true).getAll m3 = .ok [[0], [1], [1]] ∧
    (BaseFeature.barrier 2 true).getAt m3 [] 1 = .ok [1] := by
  constructor
  · simp [BaseFeature.getAll, cummaxL, cummaxL.go]
  · simp [BaseFeature.getAt, prefixMax, maxL, bind_ok, pure_eq]

/-- time to maturity: 2·dt, 1·dt, 0 -/
example : (BaseFeature.timeToMaturity : BaseFeature ℝ).getAll m3 = .ok [[1 / 2], [1 / 4], [0]] ∧
    (BaseFeature.timeToMaturity : BaseFeature ℝ).getAt m3 [] 1 = .ok [1 / 4] := by
  constructor
  · simp [BaseFeature.getAll, List.range, List.range.loop]; norm_num
  · simp [BaseFeature.getAt]

/-- a state-independent hedger (inputs: moneyness and time to maturity; model: their sum) -/
example : computeHedge (fun x => [sumL x])
    [Feature.base (.moneyness false), Feature.base .timeToMaturity] m3 3 1
      = .ok [[3 / 2], [9 / 4], [9 / 4]] := by
  simp [computeHedge, Feature.stateDependent, BaseFeature.stateDependent, inputsAll,
    Feature.getAll, BaseFeature.getAll, bind_ok, pure_eq, logIf, List.range, List.range.loop,
    dupLast, sumL]
  norm_num

/-- a state-dependent hedger (inputs: prev_hedge and the spot; model: their sum): the outputs
1, 1+2 show the previous output being fed back; the initial state is one zero -/
example : computeHedge (fun x => [sumL x])
    [Feature.base .prevHedge, Feature.base (.underlierSpot false)] m3 3 1
      = .ok [[1], [3], [3]] := by
  simp [computeHedge, Feature.stateDependent, BaseFeature.stateDependent, hedgeLoop, inputsAt,
    Feature.getAt, BaseFeature.getAt, idx, bind_ok, pure_eq, logIf, appendLast, lastL, sumL]
  norm_num

/-- **The all-at-once branch never needs the model's value at maturity.**  Since the `fix:` commit
b852b59 the code evaluates the model on the first `T − 1` rows only and repeats the last position
(`output = self(input[..., :-1, :]); cat(output, output[..., [-1], :])`), while the model keeps the
earlier form `dupLast (x.map g)` (evaluate every row, overwrite the last one).  For every row-wise
model `g` the two are the same function — errors included (fewer than two time steps). -/
theorem batched_skips_maturity {β γ : Type} (g : β → γ) (x : List β) :
    dupLast (x.map g) = appendLast (x.dropLast.map g) := by
  rw [PfVerif.C03Aux.dupLast_eq, List.dropLast_eq_take, List.dropLast_eq_take, List.map_take, List.length_map]

/-- hence `computeHedge` with state-independent inputs is the hedge the repaired code computes -/
theorem computeHedge_batched_eq (g : List ℝ → List ℝ) (fs : List (Feature ℝ)) (m : Market ℝ) (n h : ℕ)
    (hfs : fs.any Feature.stateDependent = false) :
    computeHedge g fs m n h = (inputsAll n fs m).bind (fun x => appendLast (x.dropLast.map g)) := by
  unfold computeHedge
  simp only [hfs]
  cases inputsAll n fs m with
  | error e => rfl
  | ok x => simp only [bind, Except.bind]; exact batched_skips_maturity g x

end PfVerif.C03
