/-
  C16 — Computations are pure with respect to their inputs; the hedger has no memory.

  Part 1 (frame): Model/Heap.lean — storages with aliasing, the public computations as programs
  over `view` / `fresh` / `inplace`.  The abstract interpretation `safeFrom` is sound: a program
  accepted by it never writes a storage that existed before the program started.
  Part 2 (history independence): `computeHedgeS` (the hedger with its `prev_output` buffer made
  explicit) returns exactly the stateless `computeHedge`, whatever earlier calls left behind.

  `PfVerif.C16Aux` holds helpers; `PfVerif.C16` holds the property theorems.
-/
import PfVerif.Model.Heap
import PfVerif.Lemmas.Gauss

namespace PfVerif.C16Aux
open PfVerif

/-! ### heap helpers -/

/-- the soundness invariant of the abstract interpretation: every variable the analysis calls
`owned` is bound, and bound to a storage allocated at or after the watermark `n0` -/
def OwnedOk (n0 : Nat) (h : Heap) (owned : List Var) : Prop :=
  ∀ v ∈ owned, ∃ s, h.env v = some s ∧ n0 ≤ s

theorem ownedOk_view {n0 : Nat} {h : Heap} {owned : List Var} (dst src : Var)
    (hown : OwnedOk n0 h owned) :
    OwnedOk n0 ((HOp.view dst src).exec h)
      (if owned.contains src then dst :: owned else owned.filter (· != dst)) := by
  intro v hv
  by_cases hc : owned.contains src = true
  · rw [if_pos hc] at hv
    by_cases hvd : v = dst
    · subst hvd
      have hs : src ∈ owned := by simpa using hc
      obtain ⟨s, hs1, hs2⟩ := hown src hs
      exact ⟨s, by simp [HOp.exec, hs1], hs2⟩
    · have hvo : v ∈ owned := by
        rcases List.mem_cons.1 hv with h1 | h1
        · exact absurd h1 hvd
        · exact h1
      obtain ⟨s, hs1, hs2⟩ := hown v hvo
      exact ⟨s, by simp [HOp.exec, hvd, hs1], hs2⟩
  · rw [if_neg hc] at hv
    have hv' : v ∈ owned ∧ v ≠ dst := by simpa using hv
    obtain ⟨s, hs1, hs2⟩ := hown v hv'.1
    exact ⟨s, by simp [HOp.exec, hv'.2, hs1], hs2⟩

theorem ownedOk_fresh {n0 : Nat} {h : Heap} {owned : List Var} (dst : Var) (rs : List Var)
    (hn : n0 ≤ h.next) (hown : OwnedOk n0 h owned) :
    OwnedOk n0 ((HOp.fresh dst rs).exec h) (dst :: owned) := by
  intro v hv
  by_cases hvd : v = dst
  · subst hvd
    exact ⟨h.next, by simp [HOp.exec], hn⟩
  · have hvo : v ∈ owned := by
      rcases List.mem_cons.1 hv with h1 | h1
      · exact absurd h1 hvd
      · exact h1
    obtain ⟨s, hs1, hs2⟩ := hown v hvo
    exact ⟨s, by simp [HOp.exec, hvd, hs1], hs2⟩

/-- an in-place write through an owned variable leaves every storage below the watermark alone
and changes neither bindings nor the allocation pointer -/
theorem exec_inplace_owned {n0 : Nat} {h : Heap} {owned : List Var} (dst : Var) (rs : List Var)
    (hown : OwnedOk n0 h owned) (hd : dst ∈ owned) :
    ((HOp.inplace dst rs).exec h).env = h.env ∧ ((HOp.inplace dst rs).exec h).next = h.next ∧
    ∀ s, s < n0 → ((HOp.inplace dst rs).exec h).ver s = h.ver s := by
  obtain ⟨t, ht1, ht2⟩ := hown dst hd
  refine ⟨by simp [HOp.exec, ht1], by simp [HOp.exec, ht1], ?_⟩
  intro s hs
  have : s ≠ t := by omega
  simp [HOp.exec, ht1, this]

/-- with nothing owned, a run of `view`s keeps nothing owned -/
theorem safeFrom_nil_views (vs : List (Var × Var)) (rest : List HOp) :
    safeFrom [] (vs.map (fun p => HOp.view p.1 p.2) ++ rest) = safeFrom [] rest := by
  induction vs with
  | nil => rfl
  | cons p vs ih => simpa [safeFrom] using ih

/-- the heap of the concrete witness: one caller variable `0` (the spot buffer) bound to the one
existing storage `0` -/
def spotHeap : Heap := ⟨fun v => if v = 0 then some 0 else none, fun _ => 0, 1⟩

/-! ### hedger helpers -/

/-- one call of `compute_hedge`: the model, the feature list, the current market, the number of
time steps and of hedging instruments -/
structure Call where
  g : List ℝ → List ℝ
  fs : List (Feature ℝ)
  m : Market ℝ
  n : Nat
  h : Nat

/-- a sequence of calls on the same hedger object: the `prev_output` buffer left by each call is
what the next one finds -/
noncomputable def runHist (st : List ℝ) : List Call → List (Except Err (List (List ℝ)))
  | [] => []
  | c :: cs =>
    (computeHedgeS st c.g c.fs c.m c.n c.h).1 ::
      runHist (computeHedgeS st c.g c.fs c.m c.n c.h).2 cs

/-- the state the hedger is left in after a sequence of calls -/
noncomputable def finalState (st : List ℝ) : List Call → List ℝ
  | [] => st
  | c :: cs => finalState (computeHedgeS st c.g c.fs c.m c.n c.h).2 cs

end PfVerif.C16Aux

namespace PfVerif.C16
open PfVerif PfVerif.C16Aux

/-! ## Part 1 — frame -/

/-- **Frame theorem.**  Let `n0 ≤ h.next` be a watermark (every storage that existed before the
program has id `< n0`) and let the abstract state `owned` be sound at the start (every owned
variable is bound to a storage `≥ n0`).  If the analysis accepts the program, then running it
writes no storage below the watermark, and the allocation pointer only grows. -/
theorem frame (p : List HOp) : ∀ (h : Heap) (owned : List Var) (n0 : Nat), n0 ≤ h.next →
    (∀ v ∈ owned, ∃ s, h.env v = some s ∧ n0 ≤ s) → safeFrom owned p = true →
    (∀ s, s < n0 → (execProg h p).ver s = h.ver s) ∧ h.next ≤ (execProg h p).next := by
  induction p with
  | nil => intro h owned n0 _ _ _; exact ⟨fun _ _ => rfl, Nat.le_refl _⟩
  | cons op rest ih =>
    intro h owned n0 hn hown hsafe
    cases op with
    | view dst src =>
      simp only [safeFrom] at hsafe
      have := ih ((HOp.view dst src).exec h) _ n0 hn (ownedOk_view dst src hown) hsafe
      exact this
    | fresh dst rs =>
      simp only [safeFrom] at hsafe
      have hn' : n0 ≤ ((HOp.fresh dst rs).exec h).next := by
        show n0 ≤ h.next + 1
        omega
      obtain ⟨h1, h2⟩ :=
        ih ((HOp.fresh dst rs).exec h) _ n0 hn' (ownedOk_fresh dst rs hn hown) hsafe
      exact ⟨h1, Nat.le_trans (Nat.le_succ h.next) h2⟩
    | inplace dst rs =>
      simp only [safeFrom, Bool.and_eq_true] at hsafe
      have hd : dst ∈ owned := by simpa using hsafe.1
      obtain ⟨e1, e2, e3⟩ := exec_inplace_owned dst rs hown hd
      have hown' : ∀ v ∈ owned, ∃ s, ((HOp.inplace dst rs).exec h).env v = some s ∧ n0 ≤ s := by
        rw [e1]; exact hown
      obtain ⟨h1, h2⟩ :=
        ih ((HOp.inplace dst rs).exec h) owned n0 (by rw [e2]; exact hn) hown' hsafe.2
      refine ⟨fun s hs => ?_, ?_⟩
      · simp only [execProg]
        rw [h1 s hs, e3 s hs]
      · simp only [execProg]
        rw [e2] at h2
        exact h2

/-- **A safe program writes no storage that existed before it started.** -/
theorem safe_frame {p : List HOp} (hp : safe p = true) (h : Heap) :
    ∀ s, s < h.next → (execProg h p).ver s = h.ver s :=
  (frame p h [] h.next (Nat.le_refl _) (fun _ hv => by simp at hv) hp).1

/-- a safe program never releases storage ids -/
theorem safe_next_le {p : List HOp} (hp : safe p = true) (h : Heap) :
    h.next ≤ (execProg h p).next :=
  (frame p h [] h.next (Nat.le_refl _) (fun _ hv => by simp at hv) hp).2

/-- every modelled public computation passes the analysis -/
theorem public_programs_safe : ∀ q ∈ publicPrograms, safe q.2 = true := by decide

/-- **None of the modelled public computations (features, payoff, hedge in both branches, P&L,
losses, clamps) writes a storage that existed before the call** — whatever the caller's
bindings and whatever aliasing exists between the caller's tensors. -/
theorem public_programs_pure : ∀ q ∈ publicPrograms, ∀ (h : Heap) (s : Sid), s < h.next →
    (execProg h q.2).ver s = h.ver s :=
  fun q hq h => safe_frame (public_programs_safe q hq) h

/-- the code as shipped at the pinned commit (`output.log_()` on a view of the spot buffer) is
rejected by the analysis … -/
theorem old_log_spot_unsafe : safe progLogSpotOld = false := by decide

/-- … and the rejection is not a false alarm: on the heap with the spot buffer as the only
storage, the old program overwrites it, the fixed one does not. -/
theorem old_log_spot_mutates :
    spotHeap.env 0 = some 0 ∧ spotHeap.next = 1 ∧ spotHeap.ver 0 = 0 ∧
    (execProg spotHeap progLogSpotOld).ver 0 = 1 ∧ (execProg spotHeap progLogSpot).ver 0 = 0 := by
  refine ⟨rfl, rfl, rfl, rfl, rfl⟩

/-- the fixed program is accepted -/
theorem new_log_spot_safe : safe progLogSpot = true := by decide

/-- completeness-style sanity: a program that reaches an in-place write after `view`s only (no
allocation yet, so every variable still refers to a caller storage) is rejected, whatever
follows. -/
theorem inplace_external_detected (vs : List (Var × Var)) (d : Var) (rs : List Var)
    (rest : List HOp) :
    safe (vs.map (fun p => HOp.view p.1 p.2) ++ HOp.inplace d rs :: rest) = false := by
  unfold safe
  rw [safeFrom_nil_views]
  simp [safeFrom]

/-- and such a program does write a caller storage as soon as its target is bound: with a
single view `d := x` of a caller variable bound to storage `s`, the version of `s` is bumped. -/
theorem inplace_external_writes (h : Heap) (d x : Var) (rs : List Var) (s : Sid)
    (hx : h.env x = some s) :
    (execProg h [HOp.view d x, HOp.inplace d rs]).ver s = h.ver s + 1 := by
  simp [execProg, HOp.exec, hx]

/-! ## Part 1b — which results may alias market data -/

/-- soundness of `ownedAfter`: after the program, every variable it lists is bound to a storage
allocated at or after the watermark -/
theorem ownedAfter_sound (p : List HOp) : ∀ (h : Heap) (owned : List Var) (n0 : Nat), n0 ≤ h.next →
    OwnedOk n0 h owned → OwnedOk n0 (execProg h p) (ownedAfter owned p) := by
  induction p with
  | nil => intro h owned n0 _ hown; exact hown
  | cons op rest ih =>
    intro h owned n0 hn hown
    cases op with
    | view dst src =>
      exact ih ((HOp.view dst src).exec h) _ n0 hn (ownedOk_view dst src hown)
    | fresh dst rs =>
      have hn' : n0 ≤ ((HOp.fresh dst rs).exec h).next := by
        show n0 ≤ h.next + 1
        omega
      exact ih ((HOp.fresh dst rs).exec h) _ n0 hn' (ownedOk_fresh dst rs hn hown)
    | inplace dst rs =>
      have henv : ((HOp.inplace dst rs).exec h).env = h.env := by
        simp only [HOp.exec]; cases h.env dst <;> rfl
      have hnext : ((HOp.inplace dst rs).exec h).next = h.next := by
        simp only [HOp.exec]; cases h.env dst <;> rfl
      have hown' : OwnedOk n0 ((HOp.inplace dst rs).exec h) owned := by
        intro v hv; rw [henv]; exact hown v hv
      exact ih ((HOp.inplace dst rs).exec h) owned n0 (by rw [hnext]; exact hn) hown'

/-- **A result the analysis calls fresh is a storage allocated by the call itself**: it aliases no
tensor that existed before (no buffer of any instrument, no caller tensor), so nothing the caller
does to it afterwards — in-place activation, `output[..., -1, :] = …` — can reach market data. -/
theorem resultFresh_sound {p : List HOp} {v : Var} (hf : resultFresh p v = true) (h : Heap) :
    ∃ s, (execProg h p).env v = some s ∧ h.next ≤ s := by
  have hv : v ∈ ownedAfter [] p := by simpa [resultFresh] using hf
  exact ownedAfter_sound p h [] h.next (Nat.le_refl _) (fun _ hx => by simp at hx) v hv

/-- which modelled results are fresh: everything except the plain buffer-view features -/
theorem public_results_fresh :
    publicResults.map (fun q => (q.1, resultFresh q.2.1 q.2.2)) =
      [("feature_view", false), ("log_spot", true), ("spot_at", true), ("moneyness", true),
       ("barrier", true), ("get_input", true), ("hedge_batched", true),
       ("hedge_batched_identity", true), ("hedge_batched_inplace_model", true), ("hedge_step", true),
       ("payoff", true), ("pl", true), ("loss", true), ("clamp", true)] := by decide

/-- the input handed to the user's model (`FeatureList.get`) is a fresh storage: this is why a model
that returns its input or writes it in place cannot damage the simulated series … -/
theorem get_input_fresh (h : Heap) : ∃ s, (execProg h progGetInput).env 12 = some s ∧ h.next ≤ s :=
  resultFresh_sound (by decide) h

/-- … and it matters: if the concatenation were skipped for a single feature, a model that writes its
input in place is rejected by the analysis and does overwrite the spot buffer on the one-storage heap;
with the in-place last-step write of the code before 70a9f74 even the identity model did -/
theorem shortcut_unsafe :
    safe progHedgeShortcutInplaceModel = false ∧ safe progHedgeBatchedInplaceModel = true ∧
    (execProg spotHeap progHedgeShortcutInplaceModel).ver 0 = 1 ∧
    (execProg spotHeap progHedgeBatchedInplaceModel).ver 0 = 0 ∧
    safe progHedgeShortcutIdentity = false ∧ (execProg spotHeap progHedgeShortcutIdentity).ver 0 = 1 ∧
    safe progHedgeBatchedIdentity = true ∧ (execProg spotHeap progHedgeBatchedIdentity).ver 0 = 0 := by
  refine ⟨by decide, by decide, rfl, rfl, by decide, rfl, by decide, rfl⟩

/-- the in-place last-step write of the batched branch before 70a9f74 was harmless for MARKET DATA (it
targets the model's own output): both versions pass the analysis -/
theorem hedge_batched_old_and_new_safe : safe progHedgeBatchedOld = true ∧ safe progHedgeBatched = true := by
  decide

/-! ## Part 2 — history independence of the hedger -/

/-- **The explicit-state `compute_hedge` returns exactly the stateless one**: the buffer left by
earlier calls is overwritten with zeros before it is first read (state-dependent branch) or never
read (batched branch). -/
theorem computeHedgeS_eq_computeHedge (st : List ℝ) (g : List ℝ → List ℝ) (fs : List (Feature ℝ))
    (m : Market ℝ) (n h : Nat) :
    (computeHedgeS st g fs m n h).1 = computeHedge g fs m n h := by
  unfold computeHedgeS computeHedge
  by_cases hsd : fs.any Feature.stateDependent = true
  · simp only [hsd, if_true]
    cases hl : hedgeLoop g fs m (n - 1) 0 (List.replicate h 0) with
    | error e => rfl
    | ok outs =>
      simp only [bind, Except.bind, appendLast]
      cases lastL outs <;> rfl
  · simp only [hsd]
    cases hx : inputsAll n fs m with
    | error e => rfl
    | ok x =>
      simp only [bind, Except.bind]
      cases dupLast (x.map g) with
      | error e => rfl
      | ok r => cases lastL (x.map g) <;> rfl

/-- **The hedge never depends on the state left by earlier calls.** -/
theorem computeHedgeS_result_indep (st st' : List ℝ) (g : List ℝ → List ℝ)
    (fs : List (Feature ℝ)) (m : Market ℝ) (n h : Nat) :
    (computeHedgeS st g fs m n h).1 = (computeHedgeS st' g fs m n h).1 := by
  rw [computeHedgeS_eq_computeHedge, computeHedgeS_eq_computeHedge]

/-- **History independence.**  Use one hedger object for any sequence of calls — different
models, feature lists, markets, sizes; failing calls included — starting from any buffer
content: every result is what a fresh hedger gives on that call's own market. -/
theorem history_independence (st : List ℝ) (calls : List Call) :
    runHist st calls = calls.map (fun c => computeHedge c.g c.fs c.m c.n c.h) := by
  induction calls generalizing st with
  | nil => rfl
  | cons c cs ih =>
    simp only [runHist, List.map_cons, computeHedgeS_eq_computeHedge, ih]

/-- in particular the result of the last call does not depend on the calls made before it -/
theorem last_call_indep (st st' : List ℝ) (before before' : List Call) (c : Call) :
    (runHist st (before ++ [c])).getLast? = (runHist st' (before' ++ [c])).getLast? := by
  simp [history_independence]

/-! ### non-vacuity -/

/-- the frame theorem applies to a program with an in-place write (`pl` does three) -/
example : safe progPl = true ∧ (progPl.filter (fun op => op matches .inplace ..)).length = 3 := by
  decide

/-- the state is really threaded: a successful state-dependent call leaves its last output
behind, and a second call started from that (non-zero) state gives the fresh-hedger result -/
example :
    computeHedgeS [7] (fun x => x) [.base .prevHedge, .base (.underlierSpot false)]
      (⟨[1, 2, 5], [1, 1, 1], [1, 1, 1], [3, 4, 5], 1, 1, [0, 0, 0]⟩ : Market ℝ) 3 1
      = (.ok [[0, 1], [0, 1, 2], [0, 1, 2]], [0, 1, 2]) := by
  simp [computeHedgeS, Feature.stateDependent, BaseFeature.stateDependent, hedgeLoop, inputsAt,
    Feature.getAt, BaseFeature.getAt, idx, logIf, lastL, bind, Except.bind, pure, Except.pure]

/-- batched branch: the output is stored as state, and the incoming state `[7]` is ignored -/
example :
    computeHedgeS [7] (fun x => x) [.base (.underlierSpot false)]
      (⟨[1, 2, 5], [1, 1, 1], [1, 1, 1], [3, 4, 5], 1, 1, [0, 0, 0]⟩ : Market ℝ) 3 1
      = (.ok [[1], [2], [2]], [5]) := by
  simp [computeHedgeS, Feature.stateDependent, BaseFeature.stateDependent, inputsAll,
    Feature.getAll, BaseFeature.getAll, logIf, dupLast, lastL, bind, Except.bind, pure,
    Except.pure]

end PfVerif.C16
