/-
  C13 — The time grid matches maturity and step size.
  Model: Model/Grid.lean.  Exact statements over ℝ / ℚ; the floating-point replica
  (`nStepsShipped`, `startIndexShipped`) is tied to the code bit-for-bit by the correspondence
  check and to the exact count by the kernel-checked instances at the end.
-/
import PfVerif.Model.Grid
import PfVerif.Lemmas.ListR

namespace PfVerif.C13
open PfVerif

/-- `time_to_maturity(None)[i] = (T−1−i)·dt` for every step `i < T` -/
theorem ttm_formula (T : ℕ) (dt : ℝ) (i : ℕ) (h : i < T) :
    (ttmAll T dt)[i]'(by simp [ttmAll, h]) = ((T - 1 - i : ℕ) : ℝ) * dt := by
  simp only [ttmAll, List.getElem_map, List.getElem_range]
  have : ((T - 1 - i : ℕ) : ℝ) = ((T - 1 : ℕ) : ℝ) - (i : ℝ) := by
    rw [Nat.cast_sub (by omega)]
  rw [this]; ring

theorem ttm_length (T : ℕ) (dt : ℝ) : (ttmAll T dt).length = T := by simp [ttmAll]

/-- the single-step form agrees with column `i` of the all-steps form -/
theorem ttmAt_eq (T : ℕ) (dt : ℝ) (i : ℕ) (h : i < T) :
    ttmAt T dt (i : ℤ) = .ok (((T - 1 - i : ℕ) : ℝ) * dt) := by
  have hT : T ≠ 0 := by omega
  have hm : ((i : ℤ) % (T : ℤ)).toNat = i := by
    rw [Int.emod_eq_of_lt (by omega) (by omega)]; simp
  simp only [ttmAt, hT, if_false, hm]
  rw [show T - i - 1 = T - 1 - i by omega]

/-- negative indices count from the end (Python `%`): index `−j` (1 ≤ j ≤ T) is step `T−j` -/
theorem ttmAt_neg (T : ℕ) (dt : ℝ) (j : ℕ) (h1 : 1 ≤ j) (h2 : j ≤ T) :
    ttmAt T dt (-(j : ℤ)) = .ok (((j - 1 : ℕ) : ℝ) * dt) := by
  have hT : T ≠ 0 := by omega
  have hm : ((-(j : ℤ)) % (T : ℤ)).toNat = T - j := by
    have : (-(j : ℤ)) % (T : ℤ) = ((T - j : ℕ) : ℤ) := by
      rw [Nat.cast_sub h2]
      rw [show (-(j : ℤ)) = ((T : ℤ) - j) + (-1) * (T : ℤ) by ring, Int.add_mul_emod_self_right]
      exact Int.emod_eq_of_lt (by omega) (by omega)
    rw [this]; simp
  simp only [ttmAt, hT, if_false, hm]
  rw [show T - (T - j) - 1 = j - 1 by omega]

/-- time to maturity is exactly zero at the last step -/
theorem ttm_last_zero (T : ℕ) (dt : ℝ) (h : 0 < T) :
    (ttmAll T dt)[T - 1]'(by simp [ttmAll]; omega) = 0 := by
  rw [ttm_formula T dt (T - 1) (by omega)]; simp

/-- strictly decreasing in the step for `dt > 0` -/
theorem ttm_strictAnti (T : ℕ) (dt : ℝ) (hdt : 0 < dt) (i j : ℕ) (hij : i < j) (hj : j < T) :
    (ttmAll T dt)[j]'(by simp [ttmAll, hj]) < (ttmAll T dt)[i]'(by simp [ttmAll]; omega) := by
  rw [ttm_formula T dt j hj, ttm_formula T dt i (by omega)]
  apply mul_lt_mul_of_pos_right _ hdt
  exact_mod_cast (by omega : T - 1 - j < T - 1 - i)

/-- `T = ⌈M/dt⌉ + 1` points cover the maturity: `(T−2)·dt < M ≤ (T−1)·dt` -/
theorem grid_covers (m dt : Rat) (hdt : 0 < dt) :
    ((nStepsExact m dt - 2 : Int) : Rat) * dt < m ∧ m ≤ ((nStepsExact m dt - 1 : Int) : Rat) * dt := by
  unfold nStepsExact
  have h1 : m / dt ≤ ((m / dt).ceil : Rat) := Rat.le_ceil
  have h2 : (((m / dt).ceil - 1 : Int) : Rat) < m / dt := by
    have := @Rat.lt_ceil_iff (m / dt) ((m / dt).ceil - 1)
    exact this.1 (by omega)
  have e1 : (m / dt).ceil + 1 - 2 = (m / dt).ceil - 1 := by ring
  have e2 : (m / dt).ceil + 1 - 1 = (m / dt).ceil := by ring
  rw [e1, e2]
  constructor
  · have := Rat.mul_lt_mul_of_pos_right h2 hdt
    rwa [Rat.div_mul_cancel (Rat.ne_of_gt hdt)] at this
  · have := Rat.mul_le_mul_of_nonneg_right h1 (Rat.le_of_lt hdt)
    rwa [Rat.div_mul_cancel (Rat.ne_of_gt hdt)] at this

/-- integer ratio `M = k·dt` gives exactly `k+1` points -/
theorem nSteps_integer_ratio (k : ℕ) (dt : Rat) (hdt : 0 < dt) :
    nStepsExact ((k : Rat) * dt) dt = (k : Int) + 1 := by
  unfold nStepsExact
  rw [Rat.mul_div_cancel (Rat.ne_of_gt hdt)]
  have : ((k : Rat)).ceil = (k : Int) := by
    have := Rat.ceil_intCast (k : Int)
    simpa using this
  rw [this]

/-- start index of an integer multiple -/
theorem startIndex_integer_ratio (k : ℕ) (dt : Rat) (hdt : 0 < dt) :
    startIndexExact ((k : Rat) * dt) dt = (k : Int) := by
  unfold startIndexExact
  rw [Rat.mul_div_cancel (Rat.ne_of_gt hdt)]
  have := Rat.floor_intCast (k : Int)
  simpa using this

/-- The defect repaired by the `fix:` commit (finding F9), kernel-checked on the IEEE doubles:
for `M = 29/365`, `dt = 1/365` the old formula `ceil(M/dt + 1)` gave 31 points where the exact
count is 30; the repaired formula gives 30. -/
theorem old_formula_off_by_one :
    nStepsOld (29 / 365) (1 / 365) = 31 ∧ nStepsShipped (29 / 365) (1 / 365) = 30 := by
  decide +kernel

/-- Same for the forward-start index (finding F10): `floor(0.3/0.1)` was 2, now 3. -/
theorem old_start_index_one_early :
    startIndexOld 0.3 0.1 = 2 ∧ startIndexShipped 0.3 0.1 = 3 := by
  decide +kernel

/-- non-vacuity of `grid_covers`: 30 steps of size 1/365 cover a maturity of 29/365 -/
example : nStepsExact (29 / 365) (1 / 365) = 30 := by decide +kernel

end PfVerif.C13
