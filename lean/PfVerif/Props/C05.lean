/-
  C05 — each criterion returns the value its definition prescribes.

  Model: Model/Risk.lean (transcribed from pfhedge/nn/functional.py `topp`, `expected_shortfall`,
  `value_at_risk`, `entropic_risk_measure`, `quadratic_cvar`, and pfhedge/nn/modules/loss.py
  `EntropicLoss`, `IsoelasticLoss`, `OCE`) instantiated at ℝ.  Helper definitions and lemmas live
  in `PfVerif.C05Aux`; the property theorems are exactly the theorems of `PfVerif.C05`.

  The first block re-exports (kernel-checked aliases, same statements) the "equals its
  definition" theorems proved in Lemmas/C04ES.lean and Lemmas/C04ERM.lean; the rest is new.

  Conventions.  `xs : List ℝ` is one sample column, `N = xs.length`; the caller computes
  `k = ⌈p N⌉` (expected shortfall) resp. the branch and the position `(lo, frac)` of
  `torch.quantile` (value at risk) exactly as the code does; the theorems below say what these
  numbers are (`ceil_pn_mem`, `var_pos`, `var_n_one`).
-/
import PfVerif.Lemmas.C04ES
import PfVerif.Lemmas.C04ERM
import PfVerif.Props.C12
import Batteries.Tactic.Alias
import Mathlib.Algebra.Order.Floor.Semiring
import Mathlib.Algebra.Order.Floor.Ring

namespace PfVerif.C05Aux
open PfVerif

/-- `HedgeLoss.forward(input, target)` of every module: the functional applied to
`input - target` -/
def moduleLoss {β : Type} (L : List ℝ → β) (input target : List ℝ) : β :=
  L (List.zipWith (fun x t => x - t) input target)

/-- subtracting a constant target is a cash shift of the sample -/
theorem zipWith_sub_replicate (c : ℝ) : ∀ (input : List ℝ),
    List.zipWith (fun x t => x - t) input (List.replicate input.length c)
      = input.map (fun x => x - c)
  | [] => rfl
  | x :: xs => by
    simp only [List.length_cons, List.replicate_succ, List.zipWith_cons_cons, List.map_cons,
      zipWith_sub_replicate c xs]

theorem map_sub_eq_map_add_neg (c : ℝ) (xs : List ℝ) :
    xs.map (fun x => x - c) = xs.map (· + (-c)) := by
  apply List.map_congr_left; intro x _; ring

/-! ### the sorted sample -/

theorem sorted_le {xs : List ℝ} {i j : ℕ} (hij : i ≤ j) (hj : j < (sortL xs).length) :
    (sortL xs)[i]'(lt_of_le_of_lt hij hj) ≤ (sortL xs)[j] := by
  rcases Nat.eq_or_lt_of_le hij with rfl | h
  · exact le_rfl
  · exact List.pairwise_iff_getElem.1 (sortL_pairwise xs) i j _ hj h

/-! ### `quantileAt`: the three cases of the `match` -/

theorem quantileAt_of_lt {lo : ℕ} (frac : ℝ) {xs : List ℝ} (h : lo + 1 < (sortL xs).length) :
    quantileAt lo frac xs
      = .ok ((sortL xs)[lo] + frac * ((sortL xs)[lo + 1] - (sortL xs)[lo])) := by
  unfold quantileAt
  simp only [List.getElem?_eq_getElem h, List.getElem?_eq_getElem (Nat.lt_of_succ_lt h)]

theorem quantileAt_last {lo : ℕ} (frac : ℝ) {xs : List ℝ} (h : lo + 1 = (sortL xs).length) :
    quantileAt lo frac xs = .ok ((sortL xs)[lo]) := by
  unfold quantileAt
  have h1 : (sortL xs)[lo + 1]? = none := List.getElem?_eq_none (by omega)
  simp only [List.getElem?_eq_getElem (show lo < (sortL xs).length by omega), h1]

theorem quantileAt_err {lo : ℕ} (frac : ℝ) {xs : List ℝ} (h : (sortL xs).length ≤ lo) :
    quantileAt lo frac xs = .error .runtimeError := by
  unfold quantileAt
  have h1 : (sortL xs)[lo]? = none := List.getElem?_eq_none h
  simp only [h1]

/-- a returned value comes from a valid position and is bracketed by the order statistics -/
theorem quantileAt_ok {lo : ℕ} {frac v : ℝ} {xs : List ℝ} (hv : quantileAt lo frac xs = .ok v) :
    ∃ h : lo < (sortL xs).length,
      (0 ≤ frac → (sortL xs)[lo] ≤ v) ∧
      (frac ≤ 1 → ∀ j (hj : j < (sortL xs).length), lo < j → v ≤ (sortL xs)[j]) := by
  rcases Nat.lt_or_ge lo (sortL xs).length with hlo | hlo
  · refine ⟨hlo, ?_⟩
    rcases Nat.lt_or_ge (lo + 1) (sortL xs).length with h1 | h1
    · rw [quantileAt_of_lt frac h1] at hv
      injection hv with hv
      have hab : (sortL xs)[lo] ≤ (sortL xs)[lo + 1] := sorted_le (Nat.le_succ lo) h1
      subst hv
      refine ⟨fun h0 => ?_, fun hf j hj hlt => ?_⟩
      · nlinarith [mul_nonneg h0 (sub_nonneg.2 hab)]
      · have hj' : (sortL xs)[lo + 1] ≤ (sortL xs)[j] := sorted_le hlt hj
        nlinarith [mul_nonneg (sub_nonneg.2 hf) (sub_nonneg.2 hab)]
    · rw [quantileAt_last frac (by omega)] at hv
      injection hv with hv
      subst hv
      exact ⟨fun _ => le_rfl, fun _ j hj hlt => sorted_le hlt.le hj⟩
  · rw [quantileAt_err frac hlo] at hv
    cases hv

/-- same position, larger fraction: larger value -/
theorem quantileAt_mono_frac {lo : ℕ} {frac frac' v v' : ℝ} {xs : List ℝ}
    (hv : quantileAt lo frac xs = .ok v) (hv' : quantileAt lo frac' xs = .ok v')
    (hf : frac ≤ frac') : v ≤ v' := by
  obtain ⟨hlo, _⟩ := quantileAt_ok hv
  rcases Nat.lt_or_ge (lo + 1) (sortL xs).length with h1 | h1
  · rw [quantileAt_of_lt frac h1] at hv
    rw [quantileAt_of_lt frac' h1] at hv'
    injection hv with hv
    injection hv' with hv'
    have hab : (sortL xs)[lo] ≤ (sortL xs)[lo + 1] := sorted_le (Nat.le_succ lo) h1
    subst hv hv'
    nlinarith [mul_nonneg (sub_nonneg.2 hf) (sub_nonneg.2 hab)]
  · rw [quantileAt_last frac (by omega)] at hv
    rw [quantileAt_last frac' (by omega)] at hv'
    injection hv with hv
    injection hv' with hv'
    subst hv hv'
    exact le_rfl

theorem minL_eq_sorted_head (x : ℝ) (xs : List ℝ) :
    minL x xs = (sortL (x :: xs))[0]'(by simp) := by
  apply le_antisymm
  · exact C12.minL_le x xs _ (mem_sortL.1 (List.getElem_mem _))
  · have hm : minL x xs ∈ sortL (x :: xs) := mem_sortL.2 (C12.minL_mem x xs)
    obtain ⟨j, hj, hje⟩ := List.getElem_of_mem hm
    rw [← hje]
    exact sorted_le (Nat.zero_le j) hj

theorem maxL_eq_sorted_last (x : ℝ) (xs : List ℝ) :
    maxL x xs = (sortL (x :: xs))[xs.length]'(by simp) := by
  apply le_antisymm
  · have hm : maxL x xs ∈ sortL (x :: xs) := mem_sortL.2 (C12.maxL_mem x xs)
    obtain ⟨j, hj, hje⟩ := List.getElem_of_mem hm
    rw [← hje]
    have hj' : j ≤ xs.length := by simp at hj; omega
    exact sorted_le hj' (by simp)
  · exact C12.maxL_ge x xs _ (mem_sortL.1 (List.getElem_mem _))

end PfVerif.C05Aux

namespace PfVerif.C05
open PfVerif PfVerif.C05Aux

alias erm_eq_def := PfVerif.C04ERM.erm_eq_def
alias entropicLoss_eq_def := PfVerif.C04ERM.entropicLoss_eq_def
alias isoelasticLoss_eq_def := PfVerif.C04ERM.isoelasticLoss_eq_def
alias qcvar_le_obj := PfVerif.C04ERM.qcvar_le_obj
alias qcvar_stationary := PfVerif.C04ERM.qcvar_stationary
alias qcvar_stationary_min := PfVerif.C04ERM.qcvar_stationary_min
alias qcvar_attained := PfVerif.C04ERM.qcvar_attained
alias qcvar_centred := PfVerif.C04ERM.qcvar_centred
alias es_eq := PfVerif.C04ES.es_eq
alias es_variational := PfVerif.C04ES.es_variational
alias es_full := PfVerif.C04ES.es_full
alias take_sort_subperm := PfVerif.C04ES.take_sort_subperm
alias take_sort_length := PfVerif.C04ES.take_sort_length
alias sum_take_sort_le := PfVerif.C04ES.sum_take_sort_le

/-! ### expected shortfall -/

/-- **expected shortfall = minus the mean of the `k` worst outcomes**, the "`k` worst" being
characterised as an order statistic: `(sortL xs).take k` and the rest `(sortL xs).drop k`
together are a rearrangement of the sample, the first part has exactly `k` elements (and is a
sub-multiset of the sample), and every element of the first part is `≤` every element of the
rest (ties allowed).  Holds for every `k ≤ N` (for `k = 0` both sides are `-(0/0) = 0`; the
code's `k = ⌈pN⌉` is `≥ 1`, see `ceil_pn_mem`). -/
theorem es_eq_def {k : ℕ} {xs : List ℝ} (hk : k ≤ xs.length) :
    es k xs = -(((sortL xs).take k).sum / (k : ℝ)) ∧
    ((sortL xs).take k ++ (sortL xs).drop k).Perm xs ∧
    List.Subperm ((sortL xs).take k) xs ∧
    ((sortL xs).take k).length = k ∧
    ∀ a ∈ (sortL xs).take k, ∀ b ∈ (sortL xs).drop k, a ≤ b := by
  refine ⟨C04ES.es_eq k xs, ?_, C04ES.take_sort_subperm k xs, C04ES.take_sort_length hk, ?_⟩
  · rw [List.take_append_drop]; exact sortL_perm xs
  · have h := sortL_pairwise xs
    rw [← List.take_append_drop k (sortL xs), List.pairwise_append] at h
    exact h.2.2

/-- the number of outcomes averaged, `k = ⌈p N⌉`, is between `1` and `N` for `0 < p ≤ 1` -/
theorem ceil_pn_mem {p : ℝ} {N : ℕ} (hN : 1 ≤ N) (hp0 : 0 < p) (hp1 : p ≤ 1) :
    1 ≤ ⌈p * (N : ℝ)⌉₊ ∧ ⌈p * (N : ℝ)⌉₊ ≤ N := by
  have hN0 : (0 : ℝ) < N := by exact_mod_cast hN
  constructor
  · exact Nat.ceil_pos.2 (mul_pos hp0 hN0)
  · apply Nat.ceil_le.2
    nlinarith

/-- expected shortfall with `p = k/N` exactly integral uses exactly `k` outcomes -/
theorem ceil_pn_integral {p : ℝ} {N k : ℕ} (h : p * (N : ℝ) = k) : ⌈p * (N : ℝ)⌉₊ = k := by
  rw [h, Nat.ceil_natCast]

/-! ### value at risk -/

/-- first branch (`p ≤ 1/N`): the minimum of the sample — a member that is `≤` every outcome,
equivalently the first order statistic -/
theorem var_min (frac : ℝ) {xs : List ℝ} (hxs : xs ≠ []) :
    ∃ m, valueAtRisk .minimum frac xs = .ok m ∧ m ∈ xs ∧ (∀ y ∈ xs, m ≤ y) ∧
      m = (sortL xs)[0]'(by simpa using List.length_pos_of_ne_nil hxs) := by
  cases xs with
  | nil => exact absurd rfl hxs
  | cons x t =>
    exact ⟨minL x t, rfl, C12.minL_mem x t, C12.minL_le x t, minL_eq_sorted_head x t⟩

/-- second branch (`p > 1 − 1/N`): the maximum of the sample, the last order statistic -/
theorem var_max (frac : ℝ) {xs : List ℝ} (hxs : xs ≠ []) :
    ∃ m, valueAtRisk .maximum frac xs = .ok m ∧ m ∈ xs ∧ (∀ y ∈ xs, y ≤ m) ∧
      m = (sortL xs)[xs.length - 1]'(by
        have := List.length_pos_of_ne_nil hxs; simp; omega) := by
  cases xs with
  | nil => exact absurd rfl hxs
  | cons x t =>
    exact ⟨maxL x t, rfl, C12.maxL_mem x t, C12.maxL_ge x t, maxL_eq_sorted_last x t⟩

/-- third branch: `torch.quantile` at the caller's position -/
theorem var_quantile (lo : ℕ) (frac : ℝ) {xs : List ℝ} (hxs : xs ≠ []) :
    valueAtRisk (.quantile lo) frac xs = quantileAt lo frac xs := by
  cases xs with
  | nil => exact absurd rfl hxs
  | cons x t => rfl

/-- the position of `torch.quantile`'s linear interpolation, `q (N − 1)` with
`q = (p − 1/N)/(1 − 1/N)`, is `p N − 1` (for `N ≥ 2`, where `1 − 1/N ≠ 0`) -/
theorem var_pos (p : ℝ) {N : ℕ} (hN : 2 ≤ N) :
    (1 - 1 / (N : ℝ) ≠ 0) ∧
    ((p - 1 / (N : ℝ)) / (1 - 1 / (N : ℝ))) * ((N : ℝ) - 1) = p * (N : ℝ) - 1 := by
  have hN2 : (2 : ℝ) ≤ N := by exact_mod_cast hN
  have hN0 : (N : ℝ) ≠ 0 := by linarith
  have h1 : (N : ℝ) - 1 ≠ 0 := by linarith
  have h2 : 1 - 1 / (N : ℝ) ≠ 0 := by
    rw [one_sub_div hN0]; exact div_ne_zero h1 hN0
  refine ⟨h2, ?_⟩
  rw [one_sub_div hN0]
  field_simp

/-- in the third branch (`1/N < p ≤ 1 − 1/N`) the level `q` handed to `torch.quantile` is in
`(0, 1]`, and the position `p N − 1` in `(0, N − 2]` -/
theorem var_level_mem (p : ℝ) {N : ℕ} (hN : 2 ≤ N) (h1 : 1 / (N : ℝ) < p)
    (h2 : p ≤ 1 - 1 / (N : ℝ)) :
    0 < (p - 1 / (N : ℝ)) / (1 - 1 / (N : ℝ)) ∧ (p - 1 / (N : ℝ)) / (1 - 1 / (N : ℝ)) ≤ 1 ∧
    0 < p * (N : ℝ) - 1 ∧ p * (N : ℝ) - 1 ≤ (N : ℝ) - 2 := by
  have hN2 : (2 : ℝ) ≤ N := by exact_mod_cast hN
  have hN0 : (0 : ℝ) < N := by linarith
  have hd : 0 < 1 - 1 / (N : ℝ) := by
    rw [one_sub_div hN0.ne']; exact div_pos (by linarith) hN0
  have e : 1 / (N : ℝ) * N = 1 := by field_simp
  have hi : 0 < 1 / (N : ℝ) := by positivity
  refine ⟨div_pos (by linarith) hd, (div_le_one hd).2 (by linarith), ?_, ?_⟩
  · nlinarith
  · nlinarith

/-- **`p N = k` integral**: the position is `(k − 1, 0)` and the value is the `k`-th smallest
(= `k`-th worst) outcome -/
theorem var_integral {p : ℝ} {k : ℕ} {xs : List ℝ} (hp : p * (xs.length : ℝ) = k) (hk1 : 1 ≤ k)
    (hk : k ≤ xs.length) :
    ((k - 1 : ℕ) : ℝ) + 0 = p * (xs.length : ℝ) - 1 ∧
    quantileAt (k - 1) 0 xs = .ok ((sortL xs)[k - 1]'(by simp; omega)) := by
  constructor
  · rw [hp, Nat.cast_sub hk1]; simp
  · rcases Nat.lt_or_ge (k - 1 + 1) (sortL xs).length with h | h
    · rw [quantileAt_of_lt 0 h]; simp
    · rw [quantileAt_last 0 (by simp at h ⊢; omega)]

/-- the same through `valueAtRisk` -/
theorem var_integral_branch {k : ℕ} {xs : List ℝ} (hk1 : 1 ≤ k) (hk : k ≤ xs.length) :
    valueAtRisk (.quantile (k - 1)) 0 xs = .ok ((sortL xs)[k - 1]'(by simp; omega)) := by
  have hxs : xs ≠ [] := by rintro rfl; simp at hk; omega
  rw [var_quantile _ _ hxs]
  rcases Nat.lt_or_ge (k - 1 + 1) (sortL xs).length with h | h
  · rw [quantileAt_of_lt 0 h]; simp
  · rw [quantileAt_last 0 (by simp at h ⊢; omega)]

/-- the interpolated value lies between the two neighbouring order statistics -/
theorem quantileAt_between {lo : ℕ} {frac : ℝ} {xs : List ℝ} (h0 : 0 ≤ frac) (h1 : frac ≤ 1)
    (hlo : lo + 1 < xs.length) :
    ∃ v, quantileAt lo frac xs = .ok v ∧
      (sortL xs)[lo]'(by simp; omega) ≤ v ∧ v ≤ (sortL xs)[lo + 1]'(by simp; omega) := by
  have h : lo + 1 < (sortL xs).length := by simpa using hlo
  refine ⟨_, quantileAt_of_lt frac h, ?_, ?_⟩
  · obtain ⟨_, a, _⟩ := quantileAt_ok (quantileAt_of_lt frac h)
    exact a h0
  · obtain ⟨_, _, b⟩ := quantileAt_ok (quantileAt_of_lt frac h)
    exact b h1 (lo + 1) h (Nat.lt_succ_self lo)

/-- at the last valid position (`lo = N − 1`) the value is the maximum whatever `frac` -/
theorem quantileAt_last_pos (frac : ℝ) {xs : List ℝ} (hxs : xs ≠ []) :
    quantileAt (xs.length - 1) frac xs
      = .ok ((sortL xs)[xs.length - 1]'(by
          have := List.length_pos_of_ne_nil hxs; simp; omega)) := by
  have := List.length_pos_of_ne_nil hxs
  exact quantileAt_last frac (by simp; omega)

/-- a position outside the sample is an error, never a default value -/
theorem quantileAt_out_of_range {lo : ℕ} (frac : ℝ) {xs : List ℝ} (h : xs.length ≤ lo) :
    quantileAt lo frac xs = .error .runtimeError :=
  quantileAt_err frac (by simpa using h)

/-- **monotone in the level**: the value is non-decreasing in the position `(lo, frac)`
(lexicographic order; only `frac ≤ 1` and `0 ≤ frac'` are needed) -/
theorem var_mono_level {lo lo' : ℕ} {frac frac' v v' : ℝ} {xs : List ℝ}
    (hv : quantileAt lo frac xs = .ok v) (hv' : quantileAt lo' frac' xs = .ok v')
    (hf1 : frac ≤ 1) (hf0' : 0 ≤ frac')
    (hle : lo < lo' ∨ (lo = lo' ∧ frac ≤ frac')) : v ≤ v' := by
  rcases hle with hlt | ⟨rfl, hf⟩
  · obtain ⟨_, _, b⟩ := quantileAt_ok hv
    obtain ⟨hlo', a', _⟩ := quantileAt_ok hv'
    exact le_trans (b hf1 lo' hlo' hlt) (a' hf0')
  · exact quantileAt_mono_frac hv hv' hf

/-- monotone in `p`: positions computed from levels `p ≤ p'` as `lo = ⌊pN − 1⌋`,
`frac = pN − 1 − lo` are ordered lexicographically -/
theorem var_pos_mono {t t' : ℝ} (h : t ≤ t') :
    ⌊t⌋₊ < ⌊t'⌋₊ ∨ (⌊t⌋₊ = ⌊t'⌋₊ ∧ t - ⌊t⌋₊ ≤ t' - ⌊t'⌋₊) := by
  rcases Nat.lt_or_ge ⌊t⌋₊ ⌊t'⌋₊ with h1 | h1
  · exact Or.inl h1
  · have h2 : ⌊t⌋₊ = ⌊t'⌋₊ := le_antisymm (Nat.floor_le_floor h) h1
    refine Or.inr ⟨h2, ?_⟩
    rw [h2]; linarith

/-- **monotone in `p`** in the third branch: with `t = p N − 1 ≤ t' = p' N − 1` the positions
`(⌊t⌋, t − ⌊t⌋)` of `torch.quantile` give ordered values -/
theorem var_mono_p {t t' v v' : ℝ} {xs : List ℝ} (h0 : 0 ≤ t) (h : t ≤ t')
    (hv : quantileAt ⌊t⌋₊ (t - ⌊t⌋₊) xs = .ok v)
    (hv' : quantileAt ⌊t'⌋₊ (t' - ⌊t'⌋₊) xs = .ok v') : v ≤ v' :=
  var_mono_level hv hv' (by linarith [Nat.lt_floor_add_one t])
    (by linarith [Nat.floor_le (le_trans h0 h)]) (var_pos_mono h)

/-- `N = 1`: the first branch `p ≤ 1/N` is taken for every `0 < p ≤ 1`, so the division by
`1 − 1/N = 0` in the third branch is never reached -/
theorem var_n_one {p : ℝ} {xs : List ℝ} (hN : xs.length = 1) (hp1 : p ≤ 1) :
    p ≤ 1 / (xs.length : ℝ) := by
  rw [hN]; simpa using hp1

/-! ### optimised certainty equivalent, entropic risk -/

/-- `OCE.forward`: `w − mean u(x + w)` -/
theorem oce_eq_def (u : ℝ → ℝ) (w : ℝ) (xs : List ℝ) :
    oce u w xs = w - (xs.map (fun x => u (x + w))).sum / (xs.length : ℝ) := by
  unfold oce; rw [_root_.PfVerif.sumL_eq_sum]

/-- `logsumexp` as coded (shift by the maximum `m`): every shifted exponent is `≤ 0`, so every
summand `exp (y − m)` is in `(0, 1]`, the sum of them is in `[1, N]` — the stabilised evaluation
cannot overflow and the logarithm's argument is `≥ 1` — and the value is `log Σ exp y`. -/
theorem logsumexp_shift_bounded (x : ℝ) (xs : List ℝ) :
    (∀ y ∈ x :: xs, y - maxL x xs ≤ 0 ∧ 0 < Real.exp (y - maxL x xs) ∧
      Real.exp (y - maxL x xs) ≤ 1) ∧
    1 ≤ ((x :: xs).map (fun y => Real.exp (y - maxL x xs))).sum ∧
    ((x :: xs).map (fun y => Real.exp (y - maxL x xs))).sum ≤ ((x :: xs).length : ℝ) ∧
    logSumExp (x :: xs)
      = .ok (maxL x xs + Real.log (((x :: xs).map (fun y => Real.exp (y - maxL x xs))).sum)) ∧
    logSumExp (x :: xs) = .ok (Real.log (((x :: xs).map Real.exp).sum)) := by
  have hle : ∀ y ∈ x :: xs, y - maxL x xs ≤ 0 := fun y hy =>
    sub_nonpos.2 (C12.maxL_ge x xs y hy)
  have hexp : ∀ y ∈ x :: xs, Real.exp (y - maxL x xs) ≤ 1 := fun y hy =>
    Real.exp_le_one_iff.2 (hle y hy)
  refine ⟨fun y hy => ⟨hle y hy, Real.exp_pos _, hexp y hy⟩, ?_, ?_, ?_,
    C04ERMAux.logsumexp_shift x xs⟩
  · have hmem : Real.exp (maxL x xs - maxL x xs)
        ∈ (x :: xs).map (fun y => Real.exp (y - maxL x xs)) :=
      List.mem_map.2 ⟨maxL x xs, C12.maxL_mem x xs, rfl⟩
    rw [sub_self, Real.exp_zero] at hmem
    refine List.single_le_sum ?_ 1 hmem
    intro z hz
    obtain ⟨y, _, rfl⟩ := List.mem_map.1 hz
    exact (Real.exp_pos _).le
  · have := List.sum_le_card_nsmul ((x :: xs).map (fun y => Real.exp (y - maxL x xs))) 1
      (by
        intro z hz
        obtain ⟨y, hy, rfl⟩ := List.mem_map.1 hz
        exact hexp y hy)
    simpa using this
  · unfold logSumExp
    simp only [_root_.PfVerif.sumL_eq_sum, Transc.exp, Transc.log]

/-! ### the target is subtracted first -/

/-- every module evaluates its functional on `input − target` -/
theorem target_subtracted {β : Type} (L : List ℝ → β) (input target : List ℝ) :
    moduleLoss L input target = L (List.zipWith (fun x t => x - t) input target) := rfl

/-- the default target `0` changes nothing -/
theorem target_zero {β : Type} (L : List ℝ → β) (input : List ℝ) :
    moduleLoss L input (List.replicate input.length 0) = L input := by
  unfold moduleLoss
  rw [zipWith_sub_replicate]
  simp

/-- a constant target `c` is a cash shift by `−c` of the sample -/
theorem target_const {β : Type} (L : List ℝ → β) (input : List ℝ) (c : ℝ) :
    moduleLoss L input (List.replicate input.length c) = L (input.map (fun x => x - c)) := by
  unfold moduleLoss
  rw [zipWith_sub_replicate]

/-- expected shortfall: subtracting a constant target `c` raises the risk by exactly `c` -/
theorem target_const_es {k : ℕ} (input : List ℝ) (c : ℝ) (hk1 : 1 ≤ k) (hk : k ≤ input.length) :
    moduleLoss (es k) input (List.replicate input.length c) = es k input + c := by
  rw [target_const, map_sub_eq_map_add_neg, C04ES.es_cash (-c) hk1 hk]
  ring

/-- entropic risk measure: the same -/
theorem target_const_erm (a : ℝ) (ha : a ≠ 0) (input : List ℝ) (hin : input ≠ []) (c : ℝ) :
    moduleLoss (C04ERMAux.ermR a) input (List.replicate input.length c)
      = C04ERMAux.ermR a input + c := by
  rw [target_const, map_sub_eq_map_add_neg, C04ERM.erm_cash a ha input hin (-c)]
  ring

/-- quadratic CVaR (the infimum): the same -/
theorem target_const_qcvar (lam : ℝ) (hl : 0 < lam) (input : List ℝ) (hin : input ≠ []) (c : ℝ) :
    moduleLoss (C04ERMAux.qcvarR lam) input (List.replicate input.length c)
      = C04ERMAux.qcvarR lam input + c := by
  rw [target_const, map_sub_eq_map_add_neg, C04ERM.qcvar_cash lam hl input hin (-c)]
  ring

/-! ### non-vacuity -/

/-- value at risk of `[-3, -1, -2, 0]` at `p = 1/2`: `pN = 2` is integral, third branch
(`1/4 < 1/2 ≤ 3/4`), position `(1, 0)`, value `-2` = the 2nd smallest outcome -/
example : (1 : ℝ) / 2 * (([(-3 : ℝ), -1, -2, 0].length : ℕ) : ℝ) = (2 : ℕ) ∧
    valueAtRisk (.quantile 1) 0 [(-3 : ℝ), -1, -2, 0] = .ok (-2) := by
  have hs : sortL [(-3 : ℝ), -1, -2, 0] = [-3, -2, -1, 0] :=
    sortL_eq_of_perm_pairwise (List.Perm.cons _ (List.Perm.swap (-1) (-2) [0]))
      (by simp; norm_num)
  refine ⟨by norm_num, ?_⟩
  have h := var_integral_branch (k := 2) (xs := [(-3 : ℝ), -1, -2, 0]) (by norm_num) (by simp)
  rw [h]
  simp [hs]

/-- non-integral position: `p = 5/8`, `pN − 1 = 3/2`: half-way between the 2nd and 3rd
smallest -/
example : quantileAt 1 (1 / 2) [(-3 : ℝ), -1, -2, 0] = .ok (-3 / 2) := by
  have hs : sortL [(-3 : ℝ), -1, -2, 0] = [-3, -2, -1, 0] :=
    sortL_eq_of_perm_pairwise (List.Perm.cons _ (List.Perm.swap (-1) (-2) [0]))
      (by simp; norm_num)
  rw [quantileAt_of_lt (1 / 2) (by simp)]
  simp only [hs, List.getElem_cons_succ, List.getElem_cons_zero]
  norm_num

/-- minimum / maximum branches on the same sample -/
example : valueAtRisk .minimum 0 [(-3 : ℝ), -1, -2, 0] = .ok (-3) ∧
    valueAtRisk .maximum 0 [(-3 : ℝ), -1, -2, 0] = .ok 0 := by
  constructor <;> norm_num [valueAtRisk, minL, maxL]

/-- `⌈pN⌉` for `p = 0.3`, `N = 4` is `2` -/
example : ⌈(3 / 10 : ℝ) * ((4 : ℕ) : ℝ)⌉₊ = 2 := by
  rw [Nat.ceil_eq_iff (by norm_num)]
  norm_num

/-- expected shortfall with a non-zero constant target -/
example : moduleLoss (es 2) [(3 : ℝ), 1, 1, 2] (List.replicate 4 1) = es 2 [(3 : ℝ), 1, 1, 2] + 1 :=
  target_const_es [(3 : ℝ), 1, 1, 2] 1 (by norm_num) (by simp)

end PfVerif.C05
